// Package c41rt is the runtime half of check C41: it is linked, together with
// freshly generated packages, into a scratch program and compares every
// generated message type with its schema and with dynamicpb.
package c41rt

import (
	"encoding/json"
	"fmt"
	"os"
	"reflect"
	"regexp"
	"strings"

	"google.golang.org/protobuf/encoding/protojson"
	"google.golang.org/protobuf/encoding/prototext"
	"google.golang.org/protobuf/proto"
	"google.golang.org/protobuf/reflect/protodesc"
	"google.golang.org/protobuf/reflect/protoreflect"
	"google.golang.org/protobuf/reflect/protoregistry"
	"google.golang.org/protobuf/types/descriptorpb"
	"google.golang.org/protobuf/types/dynamicpb"
	"google.golang.org/protobuf/verif/core"
	"google.golang.org/protobuf/verif/gen"
	"google.golang.org/protobuf/verif/model"
)

type Violation struct {
	Fingerprint string         `json:"fingerprint"`
	Detail      map[string]any `json:"detail"`
}

type Report struct {
	Evaluations int64            `json:"evaluations"`
	Counters    map[string]int64 `json:"counters"`
	Violations  []Violation      `json:"violations"`
	Samples     []any            `json:"samples"`
}

var rep = Report{Counters: map[string]int64{}}
var seen = map[string]bool{}

func bad(fp string, d map[string]any) {
	if seen[fp] || len(rep.Violations) > 30 {
		return
	}
	seen[fp] = true
	rep.Violations = append(rep.Violations, Violation{fp, d})
}

func clip(s string, n int) string {
	if len(s) > n {
		return s[:n] + "..."
	}
	return s
}

var reNum = regexp.MustCompile(`[0-9]+`)

// Main: os.Args[1] = FileDescriptorSet of the schemas, os.Args[2] = seed,
// os.Args[3] = cases per message type.
func Main() {
	raw, err := os.ReadFile(os.Args[1])
	if err != nil {
		fmt.Fprintln(os.Stderr, err)
		os.Exit(3)
	}
	var seed, per uint64 = 1, 6
	fmt.Sscan(os.Args[2], &seed)
	fmt.Sscan(os.Args[3], &per)
	var set descriptorpb.FileDescriptorSet
	if err := proto.Unmarshal(raw, &set); err != nil {
		fmt.Fprintln(os.Stderr, err)
		os.Exit(3)
	}
	for fi, p := range set.File {
		func() {
			defer func() {
				if r := recover(); r != nil {
					bad("generated:panic", map[string]any{"file": p.GetName(), "panic": fmt.Sprint(r)})
				}
			}()
			checkFile(p, seed, per, fi)
		}()
	}
	json.NewEncoder(os.Stdout).Encode(&rep)
}

func apiLevel(mt protoreflect.MessageType) string {
	t := reflect.TypeOf(mt.Zero().Interface())
	if t.Kind() != reflect.Ptr || t.Elem().Kind() != reflect.Struct {
		return "other"
	}
	exported, setters := 0, 0
	for i := 0; i < t.Elem().NumField(); i++ {
		if t.Elem().Field(i).IsExported() && t.Elem().Field(i).Tag.Get("protobuf") != "" {
			exported++
		}
	}
	for i := 0; i < t.NumMethod(); i++ {
		if strings.HasPrefix(t.Method(i).Name, "Set") {
			setters++
		}
	}
	switch {
	case exported > 0 && setters > 0:
		return "hybrid"
	case exported > 0:
		return "open"
	case setters > 0:
		return "opaque"
	}
	return "empty"
}

func checkFile(p *descriptorpb.FileDescriptorProto, seed, per uint64, fi int) {
	rep.Counters["files"]++
	fd, err := protoregistry.GlobalFiles.FindFileByPath(p.GetName())
	if err != nil {
		bad("generated:file-not-registered", map[string]any{"file": p.GetName()})
		return
	}
	// 1. the registered descriptor equals the input
	got := protodesc.ToFileDescriptorProto(fd)
	want := proto.Clone(p).(*descriptorpb.FileDescriptorProto)
	want.SourceCodeInfo = nil
	stripSourceRetention(want.ProtoReflect())
	stripSourceRetention(got.ProtoReflect()) // no-op for retained fields; drops option messages left empty
	if want.GetSyntax() == "proto2" {
		want.Syntax = nil
	}
	rep.Evaluations++
	if !proto.Equal(got, want) {
		at := protoDiff(want.ProtoReflect(), got.ProtoReflect(), "file")
		bad("generated:registered-descriptor-differs-from-schema:"+reNum.ReplaceAllString(at, ""), map[string]any{"file": p.GetName(), "at": at, "want": clip(want.String(), 2500), "got": clip(got.String(), 2500)})
	} else {
		rep.Counters["descriptor_equal"]++
	}
	// 2. every message type: generated vs dynamicpb
	var walk func(ms protoreflect.MessageDescriptors)
	walk = func(ms protoreflect.MessageDescriptors) {
		for i := 0; i < ms.Len(); i++ {
			md := ms.Get(i)
			walk(md.Messages())
			if md.IsMapEntry() {
				continue
			}
			mt, err := protoregistry.GlobalTypes.FindMessageByName(md.FullName())
			if err != nil {
				bad("generated:message-type-not-registered", map[string]any{"message": string(md.FullName())})
				continue
			}
			if mt.Descriptor() != md {
				bad("generated:message-type-has-other-descriptor", map[string]any{"message": string(md.FullName())})
				continue
			}
			rep.Counters["message_types"]++
			rep.Counters["api:"+apiLevel(mt)]++
			checkMessage(mt, seed, per, fi*1000+i)
		}
	}
	walk(fd.Messages())
	// enums and extensions are registered too
	for i := 0; i < fd.Enums().Len(); i++ {
		if _, err := protoregistry.GlobalTypes.FindEnumByName(fd.Enums().Get(i).FullName()); err != nil {
			bad("generated:enum-type-not-registered", map[string]any{"enum": string(fd.Enums().Get(i).FullName())})
		}
		rep.Counters["enum_types"]++
	}
	for i := 0; i < fd.Extensions().Len(); i++ {
		xd := fd.Extensions().Get(i)
		xt, err := protoregistry.GlobalTypes.FindExtensionByName(xd.FullName())
		if err != nil || xt.TypeDescriptor().Number() != xd.Number() {
			bad("generated:extension-type-not-registered", map[string]any{"extension": string(xd.FullName())})
		}
		rep.Counters["extension_types"]++
	}
}

func jsonNorm(b []byte) string {
	var v any
	if json.Unmarshal(b, &v) != nil {
		return "unparsable:" + string(b)
	}
	return fmt.Sprint(v)
}

func checkMessage(mt protoreflect.MessageType, seed, per uint64, salt int) {
	md := mt.Descriptor()
	name := string(md.FullName())
	kindOf := func() string { return apiLevel(mt) }
	for k := uint64(0); k < per; k++ {
		r := core.NewRand(seed, core.HashStr(name), k)
		m := mt.New()
		fo := gen.MsgOpts{Unknown: true, Extensions: true, AnyUTF8: true, Density: 20 + int(k%5)*20, MaxDepth: 2 + int(k%3)}
		gen.Fill(r, m, fo)
		rep.Evaluations++
		rep.Counters["cases"]++
		partial := proto.CheckInitialized(m.Interface()) != nil
		enc, err := proto.MarshalOptions{Deterministic: true, AllowPartial: partial}.Marshal(m.Interface())
		if err != nil {
			bad("generated:marshal-error:"+kindOf(), map[string]any{"message": name, "err": err.Error()})
			continue
		}
		d := map[string]any{"message": name, "api": kindOf(), "wire": fmt.Sprintf("%x", enc)}
		dyn := dynamicpb.NewMessage(md)
		if e := (proto.UnmarshalOptions{AllowPartial: true}).Unmarshal(enc, dyn); e != nil {
			bad("generated:dynamicpb-rejects-generated-bytes:"+kindOf(), d)
			continue
		}
		denc, _ := proto.MarshalOptions{Deterministic: true, AllowPartial: true}.Marshal(dyn)
		if string(denc) != string(enc) {
			d["dynamic_wire"] = fmt.Sprintf("%x", denc)
			bad("generated:wire-differs-from-dynamicpb:"+kindOf(), d)
			continue
		}
		if a, b := model.Of(m).String(), model.Of(dyn).String(); a != b {
			d["generated"], d["dynamic"] = clip(a, 1200), clip(b, 1200)
			bad("generated:reflection-view-differs-from-dynamicpb:"+kindOf(), d)
		}
		if proto.Size(m.Interface()) != len(enc) {
			bad("generated:size-differs-from-length:"+kindOf(), d)
		}
		// decode into a fresh generated message (lazy and eager) and compare
		for _, nolazy := range []bool{false, true} {
			m2 := mt.New()
			if e := (proto.UnmarshalOptions{AllowPartial: true, NoLazyDecoding: nolazy}).Unmarshal(enc, m2.Interface()); e != nil {
				bad("generated:rejects-own-bytes:"+kindOf(), d)
			} else if !proto.Equal(m.Interface(), m2.Interface()) || model.Of(m2).String() != model.Of(m).String() {
				bad("generated:roundtrip-differs:"+kindOf(), d)
			}
		}
		// JSON and text
		jg, e1 := protojson.MarshalOptions{AllowPartial: true}.Marshal(m.Interface())
		jd, e2 := protojson.MarshalOptions{AllowPartial: true}.Marshal(dyn)
		if (e1 == nil) != (e2 == nil) || (e1 == nil && jsonNorm(jg) != jsonNorm(jd)) {
			d["json_generated"], d["json_dynamic"] = clip(string(jg), 800), clip(string(jd), 800)
			bad("generated:json-differs-from-dynamicpb:"+kindOf(), d)
		}
		if e1 == nil {
			back := mt.New()
			if e := (protojson.UnmarshalOptions{AllowPartial: true}).Unmarshal(jg, back.Interface()); e == nil {
				cl := proto.Clone(m.Interface()).ProtoReflect()
				stripUnknown(cl)
				if !proto.Equal(cl.Interface(), back.Interface()) && jsonSafe(cl) {
					bad("generated:json-roundtrip-differs:"+kindOf(), d)
				}
			}
		}
		tg, e1 := prototext.MarshalOptions{AllowPartial: true}.Marshal(m.Interface())
		td, e2 := prototext.MarshalOptions{AllowPartial: true}.Marshal(dyn)
		if (e1 == nil) != (e2 == nil) || (e1 == nil && strings.Join(strings.Fields(string(tg)), " ") != strings.Join(strings.Fields(string(td)), " ")) {
			d["text_generated"], d["text_dynamic"] = clip(string(tg), 800), clip(string(td), 800)
			bad("generated:text-differs-from-dynamicpb:"+kindOf(), d)
		}
		// hostile wire: same verdict and content on both implementations
		mut := gen.Mutate(r, enc, func(string) {})
		mg, mdyn := mt.New(), dynamicpb.NewMessage(md)
		eg := proto.UnmarshalOptions{AllowPartial: true}.Unmarshal(mut, mg.Interface())
		ed := proto.UnmarshalOptions{AllowPartial: true}.Unmarshal(mut, mdyn)
		rep.Counters["mutated_inputs"]++
		if (eg == nil) != (ed == nil) {
			if eg == nil && invalidUTF8InRepeatedStringExtension(mg) {
				// the generated fast path has no UTF-8 validating coder for repeated string
				// extensions (known finding of C13); the reflection path rejects
				bad("generated:decode-verdict-differs-from-dynamicpb:repeated-string-extension-not-utf8-validated-on-fast-path", map[string]any{"message": name, "wire": fmt.Sprintf("%x", mut)})
			} else {
				bad("generated:decode-verdict-differs-from-dynamicpb:"+kindOf(), map[string]any{"message": name, "wire": fmt.Sprintf("%x", mut), "generated_error": fmt.Sprint(eg), "dynamic_error": fmt.Sprint(ed)})
			}
		} else if eg == nil {
			a, _ := proto.MarshalOptions{Deterministic: true, AllowPartial: true}.Marshal(mg.Interface())
			b, _ := proto.MarshalOptions{Deterministic: true, AllowPartial: true}.Marshal(mdyn)
			if model.Of(mg).Known() != model.Of(mdyn).Known() {
				bad("generated:decoded-content-differs-from-dynamicpb:"+kindOf(), map[string]any{"message": name, "wire": fmt.Sprintf("%x", mut), "generated": fmt.Sprintf("%x", a), "dynamic": fmt.Sprintf("%x", b)})
			}
		}
		if len(rep.Samples) < 3 && len(enc) > 12 {
			rep.Samples = append(rep.Samples, map[string]any{"message": name, "api": kindOf(), "wire": fmt.Sprintf("%x", enc), "equal_to_dynamicpb": true})
		}
	}
	// required-field mask beyond 64 required fields
	if md.RequiredNumbers().Len() > 64 {
		rep.Counters["many_required_messages"]++
		m := mt.New()
		gen.Fill(core.NewRand(seed, 77, uint64(salt)), m, gen.MsgOpts{Density: 100})
		last := md.Fields().ByNumber(md.RequiredNumbers().Get(md.RequiredNumbers().Len() - 1))
		m.Clear(last)
		if proto.CheckInitialized(m.Interface()) == nil {
			bad("generated:missing-required-field-beyond-64-not-reported", map[string]any{"message": name})
		}
		if _, err := proto.Marshal(m.Interface()); err == nil {
			bad("generated:marshal-accepts-missing-required-beyond-64", map[string]any{"message": name})
		}
		b, _ := proto.MarshalOptions{AllowPartial: true}.Marshal(m.Interface())
		if err := proto.Unmarshal(b, mt.New().Interface()); err == nil {
			bad("generated:unmarshal-accepts-missing-required-beyond-64", map[string]any{"message": name})
		}
	}
}

func stripUnknown(m protoreflect.Message) {
	m.SetUnknown(nil)
	m.Range(func(fd protoreflect.FieldDescriptor, v protoreflect.Value) bool {
		if fd.Message() == nil {
			return true
		}
		switch {
		case fd.IsList():
			for i := 0; i < v.List().Len(); i++ {
				stripUnknown(v.List().Get(i).Message())
			}
		case fd.IsMap():
			if fd.MapValue().Message() != nil {
				v.Map().Range(func(_ protoreflect.MapKey, mv protoreflect.Value) bool { stripUnknown(mv.Message()); return true })
			}
		default:
			stripUnknown(v.Message())
		}
		return true
	})
}

// jsonSafe: content free of things JSON cannot carry exactly (invalid UTF-8).
func jsonSafe(m protoreflect.Message) bool {
	ok := true
	var walk func(m protoreflect.Message)
	walk = func(m protoreflect.Message) {
		m.Range(func(fd protoreflect.FieldDescriptor, v protoreflect.Value) bool {
			chk := func(efd protoreflect.FieldDescriptor, ev protoreflect.Value) {
				if efd.Kind() == protoreflect.StringKind && strings.ToValidUTF8(ev.String(), "") != ev.String() {
					ok = false
				}
				if efd.Message() != nil {
					walk(ev.Message())
				}
			}
			switch {
			case fd.IsList():
				for i := 0; i < v.List().Len(); i++ {
					chk(fd, v.List().Get(i))
				}
			case fd.IsMap():
				v.Map().Range(func(k protoreflect.MapKey, mv protoreflect.Value) bool {
					chk(fd.MapKey(), k.Value())
					chk(fd.MapValue(), mv)
					return true
				})
			default:
				chk(fd, v)
			}
			return ok
		})
	}
	walk(m)
	return ok
}

var _ = reNum

// protoDiff returns the path (field names) of the first difference and both values.
func protoDiff(a, b protoreflect.Message, path string) string {
	fds := a.Descriptor().Fields()
	for i := 0; i < fds.Len(); i++ {
		fd := fds.Get(i)
		p := path + "." + string(fd.Name())
		if a.Has(fd) != b.Has(fd) {
			return fmt.Sprintf("%s(presence %v vs %v)", p, a.Has(fd), b.Has(fd))
		}
		if !a.Has(fd) {
			continue
		}
		va, vb := a.Get(fd), b.Get(fd)
		switch {
		case fd.IsList():
			if va.List().Len() != vb.List().Len() {
				return p + "(len)"
			}
			for j := 0; j < va.List().Len(); j++ {
				if fd.Message() != nil {
					if d := protoDiff(va.List().Get(j).Message(), vb.List().Get(j).Message(), p); d != "" {
						return d
					}
				} else if !va.List().Get(j).Equal(vb.List().Get(j)) {
					return p
				}
			}
		case fd.IsMap():
			if !va.Equal(vb) {
				return p
			}
		case fd.Message() != nil:
			if d := protoDiff(va.Message(), vb.Message(), p); d != "" {
				return d
			}
		default:
			if !va.Equal(vb) {
				return fmt.Sprintf("%s(%v vs %v)", p, va, vb)
			}
		}
	}
	if string(a.GetUnknown()) != string(b.GetUnknown()) {
		return path + ".<unknown>"
	}
	return ""
}

// stripSourceRetention clears every field declared with retention =
// RETENTION_SOURCE (the generator does not embed those), then drops option
// messages that became empty.
func stripSourceRetention(m protoreflect.Message) {
	m.Range(func(fd protoreflect.FieldDescriptor, v protoreflect.Value) bool {
		if fo, ok := fd.Options().(*descriptorpb.FieldOptions); ok && fo.GetRetention() == descriptorpb.FieldOptions_RETENTION_SOURCE {
			m.Clear(fd)
			return true
		}
		if fd.Message() == nil || fd.IsMap() {
			return true
		}
		if fd.IsList() {
			for i := 0; i < v.List().Len(); i++ {
				stripSourceRetention(v.List().Get(i).Message())
			}
			return true
		}
		stripSourceRetention(v.Message())
		if fd.Name() == "options" {
			empty := len(v.Message().GetUnknown()) == 0
			v.Message().Range(func(protoreflect.FieldDescriptor, protoreflect.Value) bool { empty = false; return false })
			if empty {
				m.Clear(fd)
			}
		}
		return true
	})
}

// invalidUTF8InRepeatedStringExtension reports whether m (or a message below
// it) holds a repeated string extension that requires UTF-8 validation with an
// invalid element.
func invalidUTF8InRepeatedStringExtension(m protoreflect.Message) bool {
	found := false
	var walk func(m protoreflect.Message, depth int)
	walk = func(m protoreflect.Message, depth int) {
		if depth > 8 || found {
			return
		}
		m.Range(func(fd protoreflect.FieldDescriptor, v protoreflect.Value) bool {
			if fd.IsExtension() && fd.IsList() && fd.Kind() == protoreflect.StringKind {
				if x, ok := fd.(interface{ EnforceUTF8() bool }); !ok || x.EnforceUTF8() {
					for i := 0; i < v.List().Len(); i++ {
						if s := v.List().Get(i).String(); strings.ToValidUTF8(s, "") != s {
							found = true
						}
					}
				}
			}
			if fd.Message() != nil {
				switch {
				case fd.IsList():
					for i := 0; i < v.List().Len(); i++ {
						walk(v.List().Get(i).Message(), depth+1)
					}
				case fd.IsMap():
					if fd.MapValue().Message() != nil {
						v.Map().Range(func(_ protoreflect.MapKey, mv protoreflect.Value) bool { walk(mv.Message(), depth+1); return true })
					}
				default:
					walk(v.Message(), depth+1)
				}
			}
			return !found
		})
	}
	walk(m, 0)
	return found
}
