// verifrun is driver and worker of the runtime monitors.
package main

import (
	"encoding/json"
	"fmt"
	"os"
	"sort"
	"strconv"

	"google.golang.org/protobuf/verif/checks"
	"google.golang.org/protobuf/verif/core"
)

func main() {
	if len(os.Args) < 2 {
		fmt.Println("usage: verifrun driver|worker|configs|list ...")
		os.Exit(2)
	}
	switch os.Args[1] {
	case "list":
		for _, id := range core.AllIDs() {
			fmt.Println(id)
		}
	case "configs":
		chk := core.Lookup(os.Args[2])
		if chk == nil {
			os.Exit(2)
		}
		set := map[string]bool{}
		for _, b := range chk.Batches(os.Args[3]) {
			set[b.Cfg] = true
		}
		var l []string
		for c := range set {
			l = append(l, c)
		}
		sort.Strings(l)
		for _, c := range l {
			fmt.Println(c)
		}
	case "c19child":
		os.Exit(checks.C19Child(os.Args[2]))
	case "driver":
		replay := ""
		if len(os.Args) >= 6 && os.Args[4] == "--replay" {
			replay = os.Args[5]
		}
		os.Exit(core.Drive(os.Args[2], os.Args[3], replay))
	case "worker":
		id, tier := os.Args[2], os.Args[3]
		var b core.Batch
		if err := json.Unmarshal([]byte(os.Args[4]), &b); err != nil {
			fmt.Fprintln(os.Stderr, "bad batch:", err)
			os.Exit(3)
		}
		seed, _ := strconv.ParseUint(os.Getenv("VERIF_SEED"), 10, 64)
		chk := core.Lookup(id)
		if chk == nil {
			os.Exit(3)
		}
		c := core.NewCtx(id, tier, seed, b, os.Getenv("VERIF_BATCH_DIR"))
		c.Replay = os.Getenv("VERIF_REPLAY_FP")
		chk.Run(c, b)
		c.Finish()
	default:
		os.Exit(2)
	}
}
