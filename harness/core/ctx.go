package core

import (
	"encoding/hex"
	"encoding/json"
	"fmt"
	"os"
	"runtime/debug"
	"sort"
	"sync"
)

// Batch is one unit of work executed in its own worker process.
type Batch struct {
	Cfg  string            `json:"cfg"`  // build configuration (base, race, ptr, asan, refl, legacy, legacyrefl, opaque)
	Name string            `json:"name"` // unique within the check
	Kind string            `json:"kind"` // check-defined selector
	N    int               `json:"n"`    // check-defined index
	Env  map[string]string `json:"env,omitempty"`
}

// Check is one property's monitor.
type Check struct {
	ID         string
	Rule       string   // how cases are generated and what counts as distinct non-trivial
	Assume     []string // trusted base
	Exhaustive func(tier string) bool
	Batches    func(tier string) []Batch
	Run        func(c *Ctx, b Batch)
	// Post runs in the driver after all workers finished; it joins the
	// records emitted by workers (cross-process / cross-build oracles).
	Post func(d *PostCtx)
	// Gates: counter name -> minimum over the whole run; unmet => inconclusive.
	Gates func(tier string) map[string]int64
}

var registry = map[string]*Check{}

func Register(c *Check) { registry[c.ID] = c }
func Lookup(id string) *Check { return registry[id] }
func AllIDs() []string {
	var ids []string
	for id := range registry {
		ids = append(ids, id)
	}
	sort.Strings(ids)
	return ids
}

// Violation is one refuting observation.
type Violation struct {
	Fingerprint string         `json:"fingerprint"` // stable identity: the failing input / call site / history class
	Batch       string         `json:"batch"`
	Detail      map[string]any `json:"detail"`
}

// Result is what a worker hands back to the driver.
type Result struct {
	Batch        Batch            `json:"batch"`
	Evaluations  int64            `json:"evaluations"`
	Distinct     []uint64         `json:"distinct"` // hashes of distinct non-trivial cases (capped)
	DistinctOver int64            `json:"distinct_over"`
	Counters     map[string]int64 `json:"counters"`
	Samples      []any            `json:"samples"`
	Violations   []Violation      `json:"violations"`
	Records      []string         `json:"records,omitempty"` // file names of emitted record logs
	Done         bool             `json:"done"`
}

const distinctCap = 400000

// Ctx is the worker-side monitor context. It is safe for concurrent use.
type Ctx struct {
	mu       sync.Mutex
	ID       string
	Tier     string
	Seed     uint64
	B        Batch
	Dir      string // scratch dir of this batch
	res      Result
	distinct map[uint64]struct{}
	curF     *os.File
	recF     *os.File
	vseen    map[string]bool
	Replay   string // fingerprint to trace verbosely (replay mode)
}

func NewCtx(id, tier string, seed uint64, b Batch, dir string) *Ctx {
	c := &Ctx{ID: id, Tier: tier, Seed: seed, B: b, Dir: dir, distinct: map[uint64]struct{}{}, vseen: map[string]bool{}}
	c.res.Batch = b
	c.res.Counters = map[string]int64{}
	return c
}

func (c *Ctx) Quick() bool { return c.Tier != "thorough" }

// Scale picks a size by tier.
func (c *Ctx) Scale(quick, thorough int) int {
	if c.Quick() {
		return quick
	}
	return thorough
}

// Rng returns the stream for case k of this batch.
func (c *Ctx) Rng(k uint64) *Rand {
	return NewRand(c.Seed, HashStr(c.ID), HashStr(c.B.Name), k)
}

// SysRng is seed-independent (systematic part of a workload).
func (c *Ctx) SysRng(k uint64) *Rand {
	return NewRand(0x5157, HashStr(c.ID), HashStr(c.B.Name), k)
}

// Log records the case about to be executed so that a process-fatal error
// (stack overflow, checkptr, asan, concurrent map access) is attributed to it.
func (c *Ctx) Log(format string, args ...any) {
	c.mu.Lock()
	defer c.mu.Unlock()
	if c.curF == nil {
		f, err := os.OpenFile(c.Dir+"/cur", os.O_CREATE|os.O_RDWR|os.O_TRUNC, 0o644)
		if err != nil {
			return
		}
		c.curF = f
	}
	s := fmt.Sprintf(format, args...)
	if len(s) > 1<<16 {
		s = s[:1<<16]
	}
	// fixed-width header so a stale tail is ignored
	hdr := fmt.Sprintf("%08d\n", len(s))
	c.curF.WriteAt([]byte(hdr+s), 0)
}

func (c *Ctx) Eval()         { c.mu.Lock(); c.res.Evaluations++; c.mu.Unlock() }
func (c *Ctx) EvalN(n int64) { c.mu.Lock(); c.res.Evaluations += n; c.mu.Unlock() }

// Distinct notes a distinct non-trivial case by digest.
func (c *Ctx) Distinct(h uint64) {
	c.mu.Lock()
	if len(c.distinct) < distinctCap {
		c.distinct[h] = struct{}{}
	} else if _, ok := c.distinct[h]; !ok {
		c.res.DistinctOver++ // not counted (conservative), only reported
	}
	c.mu.Unlock()
}
func (c *Ctx) DistinctBytes(parts ...[]byte) {
	h := uint64(1469598103934665603)
	for _, p := range parts {
		h = mix(h ^ HashBytes(p))
	}
	c.Distinct(h)
}
func (c *Ctx) DistinctStr(s string) { c.Distinct(HashStr(s)) }

func (c *Ctx) Count(key string) { c.CountN(key, 1) }
func (c *Ctx) CountN(key string, n int64) {
	c.mu.Lock()
	c.res.Counters[key] += n
	c.mu.Unlock()
}

// Sample keeps a few actual cases for the evidence file.
func (c *Ctx) Sample(v any) {
	c.mu.Lock()
	if len(c.res.Samples) < 4 {
		c.res.Samples = append(c.res.Samples, v)
	}
	c.mu.Unlock()
}
func (c *Ctx) WantSample() bool {
	c.mu.Lock()
	defer c.mu.Unlock()
	return len(c.res.Samples) < 4
}

// Violation records a refuting observation. fp must identify the failing
// input / call site / history (stable across seeds as far as possible).
func (c *Ctx) Violation(fp string, detail map[string]any) {
	c.mu.Lock()
	defer c.mu.Unlock()
	c.res.Counters["violations_raw"]++
	if c.vseen[fp] {
		return
	}
	c.vseen[fp] = true
	if len(c.res.Violations) >= 40 {
		c.res.Counters["violations_dropped"]++
		return
	}
	if detail == nil {
		detail = map[string]any{}
	}
	c.res.Violations = append(c.res.Violations, Violation{Fingerprint: fp, Batch: c.B.Name, Detail: detail})
}

// Emit appends a record for the driver-side offline join (Post).
func (c *Ctx) Emit(key string, val string) {
	c.mu.Lock()
	defer c.mu.Unlock()
	if c.recF == nil {
		name := c.Dir + "/records"
		f, err := os.Create(name)
		if err != nil {
			panic(err)
		}
		c.recF = f
		c.res.Records = append(c.res.Records, name)
	}
	fmt.Fprintf(c.recF, "%s\t%s\n", key, val)
}

// Try runs f and reports a recovered panic.
func Try(f func()) (panicked bool, val any, stack string) {
	defer func() {
		if r := recover(); r != nil {
			panicked, val, stack = true, r, string(debug.Stack())
		}
	}()
	f()
	return
}

// NoPanic runs f; a panic is a violation with the given fingerprint.
func (c *Ctx) NoPanic(fp string, detail map[string]any, f func()) bool {
	p, v, st := Try(f)
	if p {
		d := map[string]any{"panic": fmt.Sprint(v), "stack": trimStack(st)}
		for k, x := range detail {
			d[k] = x
		}
		c.Violation(fp, d)
		return false
	}
	return true
}

func trimStack(s string) string {
	if len(s) > 3000 {
		return s[:3000]
	}
	return s
}

func Hex(b []byte) string {
	if len(b) > 4096 {
		return hex.EncodeToString(b[:4096]) + "..."
	}
	return hex.EncodeToString(b)
}

func (c *Ctx) Finish() {
	c.mu.Lock()
	defer c.mu.Unlock()
	c.res.Distinct = make([]uint64, 0, len(c.distinct))
	for h := range c.distinct {
		c.res.Distinct = append(c.res.Distinct, h)
	}
	c.res.Done = true
	if c.recF != nil {
		c.recF.Close()
	}
	f, err := os.Create(c.Dir + "/result.json")
	if err != nil {
		panic(err)
	}
	enc := json.NewEncoder(f)
	if err := enc.Encode(&c.res); err != nil {
		// samples or details not encodable: drop them rather than lose the verdict
		c.res.Samples = []any{fmt.Sprintf("unencodable samples: %v", err)}
		f.Seek(0, 0)
		f.Truncate(0)
		json.NewEncoder(f).Encode(&c.res)
	}
	f.Close()
}
