package core

import "math"

// Rand is a small deterministic PRNG (splitmix64 seeded xoshiro-like stream).
// Case generation depends only on (seed, property, batch, case index).
type Rand struct{ s uint64 }

func mix(x uint64) uint64 {
	x += 0x9e3779b97f4a7c15
	x = (x ^ (x >> 30)) * 0xbf58476d1ce4e5b9
	x = (x ^ (x >> 27)) * 0x94d049bb133111eb
	return x ^ (x >> 31)
}

// HashStr is FNV-1a 64.
func HashStr(s string) uint64 {
	h := uint64(14695981039346656037)
	for i := 0; i < len(s); i++ {
		h ^= uint64(s[i])
		h *= 1099511628211
	}
	return h
}

func HashBytes(b []byte) uint64 {
	h := uint64(14695981039346656037)
	for i := 0; i < len(b); i++ {
		h ^= uint64(b[i])
		h *= 1099511628211
	}
	return h
}

// NewRand derives a stream from a list of coordinates.
func NewRand(coords ...uint64) *Rand {
	s := uint64(0x243f6a8885a308d3)
	for _, c := range coords {
		s = mix(s ^ mix(c))
	}
	return &Rand{s: s}
}

func (r *Rand) Uint64() uint64 {
	r.s += 0x9e3779b97f4a7c15
	x := r.s
	x = (x ^ (x >> 30)) * 0xbf58476d1ce4e5b9
	x = (x ^ (x >> 27)) * 0x94d049bb133111eb
	return x ^ (x >> 31)
}

func (r *Rand) Intn(n int) int {
	if n <= 0 {
		return 0
	}
	return int(r.Uint64() % uint64(n))
}

func (r *Rand) Bool() bool { return r.Uint64()&1 == 1 }

// Chance returns true with probability num/den.
func (r *Rand) Chance(num, den int) bool { return r.Intn(den) < num }

func (r *Rand) Float64() float64 { return float64(r.Uint64()>>11) / (1 << 53) }

func (r *Rand) Bytes(n int) []byte {
	b := make([]byte, n)
	for i := range b {
		b[i] = byte(r.Uint64())
	}
	return b
}

// Fork derives an independent child stream.
func (r *Rand) Fork(k uint64) *Rand { return NewRand(r.Uint64(), k) }

func (r *Rand) Perm(n int) []int {
	p := make([]int, n)
	for i := range p {
		p[i] = i
	}
	for i := n - 1; i > 0; i-- {
		j := r.Intn(i + 1)
		p[i], p[j] = p[j], p[i]
	}
	return p
}

// Interesting 64-bit integers: boundaries of every width.
func (r *Rand) Uint64Boundary() uint64 {
	switch r.Intn(6) {
	case 0:
		return uint64(r.Intn(3)) // 0,1,2
	case 1:
		k := uint(r.Intn(64))
		return (uint64(1) << k) + uint64(r.Intn(3)) - 1
	case 2:
		return ^uint64(0) - uint64(r.Intn(2))
	case 3:
		k := uint(r.Intn(64))
		return r.Uint64() >> k
	case 4:
		// negative small numbers
		return uint64(-int64(r.Intn(130)))
	default:
		b := []uint64{math.MaxInt32, math.MaxInt32 + 1, math.MaxUint32, math.MaxUint32 + 1, math.MaxInt64, 1 << 63, uint64(1<<63 + 1), 127, 128, 16383, 16384}
		return b[r.Intn(len(b))]
	}
}
