package core

import (
	"bufio"
	"bytes"
	"encoding/json"
	"fmt"
	"os"
	"os/exec"
	"path/filepath"
	"regexp"
	"sort"
	"strconv"
	"strings"
	"sync"
	"time"
)

// PostCtx is the driver-side context handed to Check.Post.
type PostCtx struct {
	Tier       string
	Seed       uint64
	Records    map[string][]Record // batch name -> records
	Counters   map[string]int64
	violations []Violation
	Samples    []any
	Evals      int64
}

type Record struct{ Key, Val string }

func (p *PostCtx) Violation(fp string, detail map[string]any) {
	for _, v := range p.violations {
		if v.Fingerprint == fp {
			return
		}
	}
	if len(p.violations) < 40 {
		p.violations = append(p.violations, Violation{Fingerprint: fp, Batch: "post", Detail: detail})
	}
}
func (p *PostCtx) Count(k string, n int64) { p.Counters[k] += n }

type knownFile struct {
	Findings []struct {
		Property    string `json:"property"`
		Fingerprint string `json:"fingerprint"`
		What        string `json:"what"`
	} `json:"findings"`
	Fixed []struct {
		Property string `json:"property"`
		Commit   string `json:"commit"`
		What     string `json:"what"`
	} `json:"fixed"`
}

func envOr(k, d string) string {
	if v := os.Getenv(k); v != "" {
		return v
	}
	return d
}

var raceHdr = regexp.MustCompile(`(?m)^WARNING: DATA RACE`)

// Drive runs all batches of a check and returns the process exit code.
func Drive(id, tier string, replayFile string) int {
	start := time.Now()
	chk := Lookup(id)
	if chk == nil {
		fmt.Printf("INCONCLUSIVE property=%s reason=unknown-check\n", id)
		return 2
	}
	verifDir := envOr("VERIF_DIR", "/verif")
	buildDir := envOr("VERIF_BUILD", verifDir+"/.build")
	seed, _ := strconv.ParseUint(envOr("VERIF_SEED", "1"), 10, 64)
	jobs, _ := strconv.Atoi(envOr("VERIF_JOBS", "16"))
	if jobs < 1 {
		jobs = 1
	}

	var replay *struct {
		Property    string `json:"property"`
		Seed        uint64 `json:"seed"`
		Tier        string `json:"tier"`
		Batch       Batch  `json:"batch"`
		Fingerprint string `json:"fingerprint"`
	}
	if replayFile != "" {
		data, err := os.ReadFile(replayFile)
		if err != nil {
			fmt.Printf("INCONCLUSIVE property=%s reason=replay-file-unreadable\n", id)
			return 2
		}
		if err := json.Unmarshal(data, &replay); err != nil {
			fmt.Printf("INCONCLUSIVE property=%s reason=replay-file-invalid\n", id)
			return 2
		}
		seed, tier = replay.Seed, replay.Tier
	}

	batches := chk.Batches(tier)
	if replay != nil {
		var sel []Batch
		for _, b := range batches {
			if b.Name == replay.Batch.Name {
				sel = append(sel, b)
			}
		}
		batches = sel
	}
	scratchRoot := envOr("VERIF_SCRATCH", "/var/tmp")
	scratch, err := os.MkdirTemp(scratchRoot, "verif-"+id+"-")
	if err != nil {
		fmt.Printf("INCONCLUSIVE property=%s reason=no-scratch\n", id)
		return 2
	}
	defer os.RemoveAll(scratch)

	watchdog := envOr("VERIF_WATCHDOG", "")
	if watchdog == "" {
		if tier == "thorough" {
			watchdog = "14400"
		} else {
			watchdog = "2400"
		}
	}

	type out struct {
		b        Batch
		dir      string
		exit     int
		res      *Result
		stderr   string
		timedOut bool
		races    []string
	}
	outs := make([]*out, len(batches))
	sem := make(chan struct{}, jobs)
	var wg sync.WaitGroup
	for i, b := range batches {
		wg.Add(1)
		go func(i int, b Batch) {
			defer wg.Done()
			sem <- struct{}{}
			defer func() { <-sem }()
			o := &out{b: b}
			outs[i] = o
			o.dir = filepath.Join(scratch, fmt.Sprintf("b%04d", i))
			os.MkdirAll(o.dir, 0o755)
			exe := filepath.Join(buildDir, b.Cfg, "verifrun")
			bj, _ := json.Marshal(b)
			cmd := exec.Command("timeout", "-s", "QUIT", "-k", "30", watchdog, exe, "worker", id, tier, string(bj))
			cmd.Env = append(os.Environ(),
				"VERIF_SEED="+strconv.FormatUint(seed, 10),
				"VERIF_BATCH_DIR="+o.dir,
				"GORACE=halt_on_error=0 log_path="+o.dir+"/race",
				"GOTRACEBACK=all",
			)
			if replay != nil {
				cmd.Env = append(cmd.Env, "VERIF_REPLAY_FP="+replay.Fingerprint)
			}
			for k, v := range b.Env {
				cmd.Env = append(cmd.Env, k+"="+v)
			}
			errf, _ := os.Create(o.dir + "/stderr")
			cmd.Stdout = errf
			cmd.Stderr = errf
			err := cmd.Run()
			errf.Close()
			if err != nil {
				if ee, ok := err.(*exec.ExitError); ok {
					o.exit = ee.ExitCode()
				} else {
					o.exit = -1
				}
			}
			if data, err := os.ReadFile(o.dir + "/result.json"); err == nil {
				var r Result
				if json.Unmarshal(data, &r) == nil && r.Done {
					o.res = &r
				}
			}
			se, _ := os.ReadFile(o.dir + "/stderr")
			if len(se) > 1<<20 {
				se = append(se[:1<<19:1<<19], se[len(se)-(1<<19):]...)
			}
			o.stderr = string(se)
			if o.exit == 124 || o.exit == 137 {
				o.timedOut = true
			}
			// race reports
			m, _ := filepath.Glob(o.dir + "/race.*")
			for _, f := range m {
				data, _ := os.ReadFile(f)
				for _, blk := range splitRaceReports(string(data)) {
					o.races = append(o.races, blk)
				}
			}
		}(i, b)
	}
	wg.Wait()

	// merge
	counters := map[string]int64{}
	distinct := map[uint64]struct{}{}
	var evals, distinctOver int64
	var samples []any
	var violations []Violation
	var inconclusive []string
	post := &PostCtx{Tier: tier, Seed: seed, Records: map[string][]Record{}, Counters: counters}
	cfgs := map[string]int{}
	vseen := map[string]bool{}
	addV := func(v Violation) {
		if vseen[v.Fingerprint] {
			return
		}
		vseen[v.Fingerprint] = true
		violations = append(violations, v)
	}
	for _, o := range outs {
		cfgs[o.b.Cfg]++
		for _, blk := range o.races {
			counters["race_reports"]++
			addV(Violation{Fingerprint: "race:" + raceSignature(blk), Batch: o.b.Name, Detail: map[string]any{"report": trimStack(blk), "case": readCur(o.dir)}})
		}
		if o.res == nil {
			if o.timedOut {
				inconclusive = append(inconclusive, "watchdog:"+o.b.Name)
				continue
			}
			// crash: attribute to last logged case
			sig := crashSignature(o.stderr)
			if sig == "" {
				inconclusive = append(inconclusive, fmt.Sprintf("worker-exit-%d:%s", o.exit, o.b.Name))
				fmt.Fprintf(os.Stderr, "worker %s exit %d stderr tail:\n%s\n", o.b.Name, o.exit, tail(o.stderr, 2000))
				continue
			}
			addV(Violation{Fingerprint: "crash:" + sig, Batch: o.b.Name, Detail: map[string]any{"case": readCur(o.dir), "stderr": tail(o.stderr, 6000), "exit": o.exit}})
			continue
		}
		r := o.res
		evals += r.Evaluations
		distinctOver += r.DistinctOver
		for _, h := range r.Distinct {
			distinct[h] = struct{}{}
		}
		for k, v := range r.Counters {
			counters[k] += v
		}
		if len(samples) < 6 {
			for _, s := range r.Samples {
				if len(samples) < 6 {
					samples = append(samples, s)
				}
			}
		}
		for _, v := range r.Violations {
			addV(v)
		}
		for _, rf := range r.Records {
			f, err := os.Open(rf)
			if err != nil {
				continue
			}
			sc := bufio.NewScanner(f)
			sc.Buffer(make([]byte, 1<<20), 1<<26)
			for sc.Scan() {
				line := sc.Text()
				if i := strings.IndexByte(line, '\t'); i >= 0 {
					post.Records[o.b.Name] = append(post.Records[o.b.Name], Record{line[:i], line[i+1:]})
				}
			}
			f.Close()
		}
	}
	if chk.Post != nil && len(inconclusive) == 0 && replay == nil {
		chk.Post(post)
		evals += post.Evals
		for _, v := range post.violations {
			addV(v)
		}
		for _, s := range post.Samples {
			if len(samples) < 8 {
				samples = append(samples, s)
			}
		}
	}
	if chk.Gates != nil && replay == nil {
		for k, min := range chk.Gates(tier) {
			if counters[k] < min {
				inconclusive = append(inconclusive, fmt.Sprintf("gate:%s=%d<%d", k, counters[k], min))
			}
		}
	}
	sort.Strings(inconclusive)

	// known findings
	var kf knownFile
	if data, err := os.ReadFile(filepath.Join(verifDir, "known_findings.json")); err == nil {
		json.Unmarshal(data, &kf)
	}
	known := map[string]string{}
	for _, f := range kf.Findings {
		if f.Property == id {
			known[f.Fingerprint] = f.What
		}
	}
	var fresh []Violation
	var knownSeen []string
	for _, v := range violations {
		if w, ok := known[v.Fingerprint]; ok {
			knownSeen = append(knownSeen, v.Fingerprint)
			fmt.Printf("KNOWN-FINDING: property=%s %s [%s]\n", id, w, v.Fingerprint)
			continue
		}
		fresh = append(fresh, v)
	}

	if replay != nil {
		for _, v := range violations {
			if v.Fingerprint == replay.Fingerprint {
				d, _ := json.MarshalIndent(v, "", " ")
				fmt.Printf("REPLAYED property=%s fingerprint=%q\n%s\n", id, v.Fingerprint, d)
				return 1
			}
		}
		fmt.Printf("NOT-REPRODUCED property=%s fingerprint=%q (other violations in batch: %d)\n", id, replay.Fingerprint, len(violations))
		return 0
	}

	// replays
	// VERIF_OUT redirects evidence and replays (bin/seedrun and bin/try-revert set it, so that a
	// run on a deliberately broken tree never overwrites the record of the unchanged tree).
	outDir := envOr("VERIF_OUT", verifDir)
	replayDir := filepath.Join(outDir, "replays", id)
	os.RemoveAll(replayDir) // replays of earlier runs are stale
	var vioLines []string
	for _, v := range fresh {
		os.MkdirAll(replayDir, 0o755)
		var bb Batch
		for _, b := range batches {
			if b.Name == v.Batch {
				bb = b
			}
		}
		rp := map[string]any{"property": id, "seed": seed, "tier": tier, "batch": bb, "fingerprint": v.Fingerprint, "detail": v.Detail}
		data, _ := json.MarshalIndent(rp, "", " ")
		p := filepath.Join(replayDir, fmt.Sprintf("%016x.json", HashStr(v.Fingerprint)))
		os.WriteFile(p, data, 0o644)
		vioLines = append(vioLines, fmt.Sprintf("VIOLATION property=%s replay=%s", id, p))
		fmt.Fprintf(os.Stderr, "violation %s: %s\n", id, v.Fingerprint)
	}

	// evidence
	cn := map[string]int64{}
	for k, v := range counters {
		cn[k] = v
	}
	if len(samples) == 0 {
		samples = []any{}
	}
	cov := map[string]any{
		"evaluations":          evals,
		"distinct_nontrivial":  len(distinct),
		"distinct_not_counted": distinctOver,
		"rule":                 chk.Rule,
		"samples":              samples,
		"counters":             cn,
		"batches":              len(batches),
		"build_configs":        cfgs,
		"known_findings_seen":  knownSeen,
		"inconclusive":         inconclusive,
	}
	if chk.Exhaustive != nil && chk.Exhaustive(tier) {
		cov["exhaustive"] = true
	}
	ev := map[string]any{
		"property_id": id,
		"tier":        tier,
		"seed":        seed,
		"level":       "exploration",
		"coverage":    cov,
		"assumptions": chk.Assume,
		"wall_s":      time.Since(start).Seconds(),
		"violations":  len(fresh),
	}
	if ev["assumptions"] == nil {
		ev["assumptions"] = []string{}
	}
	os.MkdirAll(filepath.Join(outDir, "evidence"), 0o755)
	data, _ := json.MarshalIndent(ev, "", " ")
	evPath := filepath.Join(outDir, "evidence", id+".json")
	err = os.WriteFile(evPath+".tmp", append(data, '\n'), 0o644)
	if err == nil {
		err = os.Rename(evPath+".tmp", evPath)
	}
	if err != nil && len(fresh) == 0 {
		fmt.Printf("INCONCLUSIVE property=%s reason=evidence-not-written:%v\n", id, err)
		return 2
	}

	if len(fresh) > 0 {
		for _, l := range vioLines {
			fmt.Println(l)
		}
		return 1
	}
	if len(inconclusive) > 0 {
		fmt.Printf("INCONCLUSIVE property=%s reason=%s\n", id, strings.Join(inconclusive, ","))
		return 2
	}
	fmt.Printf("HELD property=%s tier=%s seed=%d evaluations=%d distinct_nontrivial=%d batches=%d known_findings=%d wall_s=%.1f\n",
		id, tier, seed, evals, len(distinct), len(batches), len(knownSeen), time.Since(start).Seconds())
	return 0
}

func tail(s string, n int) string {
	if len(s) > n {
		return s[len(s)-n:]
	}
	return s
}

func readCur(dir string) string {
	data, err := os.ReadFile(dir + "/cur")
	if err != nil || len(data) < 9 {
		return ""
	}
	n, err := strconv.Atoi(string(data[:8]))
	if err != nil || 9+n > len(data) {
		return string(data)
	}
	return string(data[9 : 9+n])
}

func splitRaceReports(s string) []string {
	idx := raceHdr.FindAllStringIndex(s, -1)
	var out []string
	for i, p := range idx {
		end := len(s)
		if i+1 < len(idx) {
			end = idx[i+1][0]
		}
		out = append(out, s[p[0]:end])
	}
	return out
}

var frameRe = regexp.MustCompile(`(?m)^  ([^\s(]+)\(`)

// raceSignature: the two innermost non-runtime frames of the two accesses,
// line numbers stripped.
func raceSignature(blk string) string {
	parts := strings.Split(blk, "\n\n")
	var sig []string
	for _, p := range parts {
		if strings.Contains(p, "Goroutine ") && strings.Contains(p, "created at") {
			continue
		}
		if !(strings.Contains(p, "by goroutine") || strings.Contains(p, "by main goroutine")) {
			continue
		}
		m := frameRe.FindAllStringSubmatch(p, 3)
		var fr []string
		for _, x := range m {
			fr = append(fr, x[1])
		}
		sig = append(sig, strings.Join(fr, "<"))
		if len(sig) == 2 {
			break
		}
	}
	sort.Strings(sig)
	return strings.Join(sig, " | ")
}

var crashRe = regexp.MustCompile(`(?m)^(fatal error: .*|panic: .*|runtime: goroutine stack exceeds.*|==\d+==ERROR: AddressSanitizer.*|SIGSEGV.*|unexpected fault address.*)$`)
var goFrameRe = regexp.MustCompile(`(?m)^(google\.golang\.org/protobuf/[^\s(]+)\(`)

func crashSignature(stderr string) string {
	m := crashRe.FindString(stderr)
	if m == "" {
		return ""
	}
	if len(m) > 120 {
		m = m[:120]
	}
	// strip addresses
	m = regexp.MustCompile(`0x[0-9a-f]+`).ReplaceAllString(m, "0x?")
	// first protobuf frame that is not the harness
	fr := ""
	for _, x := range goFrameRe.FindAllStringSubmatch(stderr, -1) {
		if !strings.Contains(x[1], "protobuf/verif/") {
			fr = x[1]
			break
		}
	}
	return m + " @ " + fr
}

var _ = bytes.Equal
