package model

import (
	"unicode/utf8"

	"google.golang.org/protobuf/encoding/protowire"
	"google.golang.org/protobuf/internal/strs"
	"google.golang.org/protobuf/reflect/protoreflect"
	"google.golang.org/protobuf/reflect/protoregistry"
)

// schemaref: schema-aware reference validator of wire data, written from
// the wire-format specification over protoreflect descriptors.

type Verdict int

const (
	VOK Verdict = iota
	VMalformed
	VTooDeep
	VBadUTF8
	VDontCare // unspecified boundary (unknown-group nesting exactly at the protowire limit)
)

func (v Verdict) String() string {
	return [...]string{"ok", "malformed", "too-deep", "bad-utf8", "dont-care"}[v]
}

type SchemaRef struct {
	Resolver interface {
		FindExtensionByNumber(message protoreflect.FullName, field protoreflect.FieldNumber) (protoreflect.ExtensionType, error)
	}
	// MissingRequired is set when some message of the tree lacks a required field.
	MissingRequired bool
	// Unknown collects, for the top-level message only, the records that the
	// schema does not recognise (number, wire type, raw value bytes), in input order.
	TopUnknown []UField
	// ClosedEnumSeen is set when a closed-enum field was seen (its unknown
	// numbers are moved to the unknown set, which TopUnknown does not model).
	ClosedEnumSeen bool
}

func NewSchemaRef() *SchemaRef { return &SchemaRef{Resolver: protoregistry.GlobalTypes} }

// Check validates b as a message of md. budget is the RecursionLimit: the
// number of nested messages (top-level, submessages, groups, map entries)
// allowed on any path.
func (s *SchemaRef) Check(md protoreflect.MessageDescriptor, b []byte, budget int) Verdict {
	_, v := s.message(md, b, budget, 0, true)
	return v
}

func expectedType(fd protoreflect.FieldDescriptor) int {
	switch fd.Kind() {
	case protoreflect.BoolKind, protoreflect.EnumKind, protoreflect.Int32Kind, protoreflect.Int64Kind, protoreflect.Uint32Kind, protoreflect.Uint64Kind, protoreflect.Sint32Kind, protoreflect.Sint64Kind:
		return 0
	case protoreflect.Fixed32Kind, protoreflect.Sfixed32Kind, protoreflect.FloatKind:
		return 5
	case protoreflect.Fixed64Kind, protoreflect.Sfixed64Kind, protoreflect.DoubleKind:
		return 1
	case protoreflect.GroupKind:
		return 3
	}
	return 2
}

// message validates a message body. When group != 0 the body is terminated
// by the matching end-group tag and n is the consumed length.
func (s *SchemaRef) message(md protoreflect.MessageDescriptor, b []byte, budget int, group uint64, top bool) (n int, v Verdict) {
	if budget <= 0 {
		return 0, VTooDeep
	}
	seen := map[protoreflect.FieldNumber]bool{}
	off := 0
	closed := false
	for off < len(b) {
		num, typ, tn, d := RefTag(b[off:], SchemaMaxNum)
		if d != WireOK {
			return 0, VMalformed
		}
		start := off
		off += tn
		if typ == 4 {
			if group == 0 || num != group {
				return 0, VMalformed
			}
			closed = true
			break
		}
		fn := protoreflect.FieldNumber(num)
		fd := md.Fields().ByNumber(fn)
		if fd == nil && md.ExtensionRanges().Has(fn) && s.Resolver != nil {
			if xt, err := s.Resolver.FindExtensionByNumber(md.FullName(), fn); err == nil {
				fd = xt.TypeDescriptor()
			}
		}
		known := false
		if fd != nil {
			want := expectedType(fd)
			packable := fd.IsList() && want != 2 && want != 3
			switch {
			case typ == want:
				known = true
			case packable && typ == 2:
				known = true
			}
		}
		if !known {
			vn, d := RefFieldValue(num, typ, b[off:], ProtowireMaxNum, 10000)
			if d == WireTooDeep {
				return 0, VDontCare
			}
			if d != WireOK {
				return 0, VMalformed
			}
			if top {
				s.TopUnknown = append(s.TopUnknown, UField{Num: int32(num), Typ: 0, Val: string(b[off : off+vn])})
				s.TopUnknown[len(s.TopUnknown)-1].Typ = wireTyp(typ)
			}
			off += vn
			_ = start
			continue
		}
		seen[fn] = true
		if fd.Kind() == protoreflect.EnumKind && fd.Enum().IsClosed() {
			s.ClosedEnumSeen = true
		}
		switch {
		case typ == 3: // group
			gn, gv := s.message(fd.Message(), b[off:], budget-1, num, false)
			if gv != VOK {
				return 0, gv
			}
			off += gn
		case typ == 2:
			l, ln, d := RefVarint(b[off:])
			if d != WireOK {
				return 0, VMalformed
			}
			off += ln
			if l > uint64(len(b)-off) {
				return 0, VMalformed
			}
			payload := b[off : off+int(l)]
			off += int(l)
			want := expectedType(fd)
			switch {
			case want != 2: // packed scalars
				if v := packed(payload, want); v != VOK {
					return 0, v
				}
			case fd.IsMap():
				// a map entry is a message with fields 1 (key) and 2 (value)
				if _, v := s.message(fd.Message(), payload, budget-1, 0, false); v != VOK {
					return 0, v
				}
			case fd.Message() != nil:
				if _, v := s.message(fd.Message(), payload, budget-1, 0, false); v != VOK {
					return 0, v
				}
			case fd.Kind() == protoreflect.StringKind:
				if strs.EnforceUTF8(fd) && !utf8.Valid(payload) {
					return 0, VBadUTF8
				}
			}
		default:
			vn, d := RefFieldValue(num, typ, b[off:], ProtowireMaxNum, 10000)
			if d != WireOK {
				return 0, VMalformed
			}
			off += vn
		}
	}
	if group != 0 && !closed {
		return 0, VMalformed
	}
	rn := md.RequiredNumbers()
	for i := 0; i < rn.Len(); i++ {
		if !seen[rn.Get(i)] {
			s.MissingRequired = true
		}
	}
	return off, VOK
}

func packed(p []byte, want int) Verdict {
	switch want {
	case 0:
		for len(p) > 0 {
			_, n, d := RefVarint(p)
			if d != WireOK {
				return VMalformed
			}
			p = p[n:]
		}
	case 5:
		if len(p)%4 != 0 {
			return VMalformed
		}
	case 1:
		if len(p)%8 != 0 {
			return VMalformed
		}
	}
	return VOK
}

type wt = protowire.Type

func wireTyp(t int) wt { return wt(t) }
