package model

import "google.golang.org/protobuf/reflect/protoreflect"

// EqKey renders a snapshot under the equality semantics documented for
// proto.Equal: +0 and -0 are equal (all NaNs are already canonical), nil and
// empty bytes are equal (already canonical), unknown fields are compared per
// field number.
func (s *Snap) EqKey() string {
	c := CloneSnap(s)
	c.Walk(func(x *Snap) {
		for _, n := range x.Fields {
			k := n.Kind
			if n.IsMap {
				k = n.ValKind
			}
			if k != protoreflect.FloatKind && k != protoreflect.DoubleKind {
				continue
			}
			n.S = zeroNorm(n.S)
			for i := range n.List {
				n.List[i].S = zeroNorm(n.List[i].S)
			}
			for i := range n.Map {
				n.Map[i].V.S = zeroNorm(n.Map[i].V.S)
			}
		}
	})
	valid := "valid"
	if !s.Valid {
		valid = "invalid"
	}
	return valid + c.String()
}

func zeroNorm(s string) string {
	switch s {
	case "f80000000":
		return "f0"
	case "d8000000000000000":
		return "d0"
	}
	return s
}
