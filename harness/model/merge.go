package model

import "sort"

// CloneSnap deep-copies a snapshot.
func CloneSnap(s *Snap) *Snap {
	if s == nil {
		return nil
	}
	o := &Snap{Type: s.Type, Valid: s.Valid}
	for _, n := range s.Fields {
		o.Fields = append(o.Fields, cloneNode(n))
	}
	o.Unknown = append([]UField(nil), s.Unknown...)
	return o
}

func cloneVal(v Val) Val { return Val{S: v.S, M: CloneSnap(v.M)} }

func cloneNode(n *Node) *Node {
	c := *n
	c.M = CloneSnap(n.M)
	c.List = nil
	for _, v := range n.List {
		c.List = append(c.List, cloneVal(v))
	}
	c.Map = nil
	for _, e := range n.Map {
		c.Map = append(c.Map, MapEnt{K: e.K, V: cloneVal(e.V)})
	}
	return &c
}

// MergeSnap is the reference semantics of proto.Merge(dst, src) and of
// decoding src's encoding after dst's: populated singular scalars overwrite,
// lists and unknown fields append, map entries upsert (values replaced, not
// merged), a oneof member replaces a different active member, and singular
// messages merge recursively.
func MergeSnap(dst, src *Snap) *Snap {
	out := CloneSnap(dst)
	out.Valid = true
	for _, sn := range src.Fields {
		var dn *Node
		for _, x := range out.Fields {
			if x.Num == sn.Num {
				dn = x
			}
		}
		if sn.Oneof != "" {
			// drop any other member of the same oneof
			var keep []*Node
			for _, x := range out.Fields {
				if x.Oneof == sn.Oneof && x.Num != sn.Num {
					continue
				}
				keep = append(keep, x)
			}
			out.Fields = keep
		}
		if dn == nil {
			out.Fields = append(out.Fields, cloneNode(sn))
			continue
		}
		switch {
		case sn.IsMap:
			for _, e := range sn.Map {
				found := false
				for i := range dn.Map {
					if dn.Map[i].K == e.K {
						dn.Map[i].V = cloneVal(e.V)
						found = true
					}
				}
				if !found {
					dn.Map = append(dn.Map, MapEnt{K: e.K, V: cloneVal(e.V)})
				}
			}
			sort.Slice(dn.Map, func(i, j int) bool { return dn.Map[i].K < dn.Map[j].K })
		case sn.IsList:
			for _, v := range sn.List {
				dn.List = append(dn.List, cloneVal(v))
			}
		case sn.M != nil:
			dn.M = MergeSnap(dn.M, sn.M)
		default:
			dn.S = sn.S
		}
	}
	sort.SliceStable(out.Fields, func(i, j int) bool { return out.Fields[i].Num < out.Fields[j].Num })
	out.Unknown = append(out.Unknown, src.Unknown...)
	sort.SliceStable(out.Unknown, func(i, j int) bool { return out.Unknown[i].Num < out.Unknown[j].Num })
	return out
}
