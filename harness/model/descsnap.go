package model

import (
	"fmt"
	"math"
	"sort"
	"strings"

	"google.golang.org/protobuf/proto"
	"google.golang.org/protobuf/reflect/protoreflect"
)

// DescSnap is a deep accessor snapshot of a file descriptor: one line per
// (descriptor path, accessor) pair, produced only through the public
// protoreflect accessors (plus the pseudo-internal EnforceUTF8 / IsLazy
// methods when a descriptor offers them).
type DescSnap struct {
	Lines []string
	// SkipOptions leaves out option messages (compared separately).
	skipOptions bool
	skipPath    bool
	skipSrc     bool
}

type DescSnapOpts struct {
	SkipOptions  bool
	SkipFilePath bool
}

func SnapFile(fd protoreflect.FileDescriptor, o DescSnapOpts) *DescSnap {
	s := &DescSnap{skipOptions: o.SkipOptions, skipPath: o.SkipFilePath}
	s.file(fd)
	return s
}

func (s *DescSnap) add(path, key string, v any) {
	s.Lines = append(s.Lines, fmt.Sprintf("%s %s=%v", path, key, v))
}

func (s *DescSnap) opts(path string, d protoreflect.Descriptor) {
	if s.skipOptions {
		return
	}
	o := d.Options()
	if o == nil {
		s.add(path, "options", "<nil>")
		return
	}
	if !o.ProtoReflect().IsValid() {
		s.add(path, "options", "<unset>")
		return
	}
	b, err := proto.MarshalOptions{Deterministic: true, AllowPartial: true}.Marshal(o)
	if err != nil {
		s.add(path, "options", "error:"+err.Error())
		return
	}
	s.add(path, "options", fmt.Sprintf("%x", b))
}

func (s *DescSnap) common(path string, d protoreflect.Descriptor) {
	s.add(path, "name", d.Name())
	s.add(path, "fullname", d.FullName())
	s.add(path, "index", d.Index())
	s.add(path, "placeholder", d.IsPlaceholder())
	if p := d.Parent(); p != nil {
		s.add(path, "parent", p.FullName())
	}
	if f := d.ParentFile(); f != nil && !s.skipPath {
		s.add(path, "parentfile", f.Path())
	}
}

func (s *DescSnap) file(fd protoreflect.FileDescriptor) {
	p := "file"
	if !s.skipPath {
		s.add(p, "path", fd.Path())
	}
	s.add(p, "package", fd.Package())
	s.add(p, "syntax", fd.Syntax())
	s.opts(p, fd)
	im := fd.Imports()
	for i := 0; i < im.Len(); i++ {
		x := im.Get(i)
		s.add(fmt.Sprintf("%s.import[%d]", p, i), "", fmt.Sprintf("path=%s public=%v weak=%v", x.Path(), x.IsPublic, x.IsWeak))
	}
	s.enums(p, fd.Enums())
	s.messages(p, fd.Messages())
	s.extensions(p, fd.Extensions())
	sv := fd.Services()
	for i := 0; i < sv.Len(); i++ {
		sd := sv.Get(i)
		sp := fmt.Sprintf("%s.service[%d:%s]", p, i, sd.Name())
		s.common(sp, sd)
		s.opts(sp, sd)
		ms := sd.Methods()
		for j := 0; j < ms.Len(); j++ {
			m := ms.Get(j)
			mp := fmt.Sprintf("%s.method[%d:%s]", sp, j, m.Name())
			s.common(mp, m)
			s.opts(mp, m)
			s.add(mp, "input", descName(m.Input()))
			s.add(mp, "output", descName(m.Output()))
			s.add(mp, "streaming", fmt.Sprintf("%v/%v", m.IsStreamingClient(), m.IsStreamingServer()))
		}
	}
}

func descName(d protoreflect.Descriptor) string {
	if d == nil {
		return "<nil>"
	}
	return fmt.Sprintf("%s(placeholder=%v)", d.FullName(), d.IsPlaceholder())
}

func (s *DescSnap) enums(p string, es protoreflect.EnumDescriptors) {
	for i := 0; i < es.Len(); i++ {
		ed := es.Get(i)
		ep := fmt.Sprintf("%s.enum[%d:%s]", p, i, ed.Name())
		s.common(ep, ed)
		s.opts(ep, ed)
		s.add(ep, "closed", ed.IsClosed())
		vs := ed.Values()
		for j := 0; j < vs.Len(); j++ {
			v := vs.Get(j)
			vp := fmt.Sprintf("%s.value[%d:%s]", ep, j, v.Name())
			s.common(vp, v)
			s.add(vp, "number", v.Number())
			s.opts(vp, v)
		}
		rn := ed.ReservedNames()
		for j := 0; j < rn.Len(); j++ {
			s.add(ep, fmt.Sprintf("reserved_name[%d]", j), rn.Get(j))
		}
		rr := ed.ReservedRanges()
		for j := 0; j < rr.Len(); j++ {
			s.add(ep, fmt.Sprintf("reserved_range[%d]", j), rr.Get(j))
		}
	}
}

func (s *DescSnap) messages(p string, ms protoreflect.MessageDescriptors) {
	for i := 0; i < ms.Len(); i++ {
		md := ms.Get(i)
		mp := fmt.Sprintf("%s.message[%d:%s]", p, i, md.Name())
		s.common(mp, md)
		s.opts(mp, md)
		s.add(mp, "mapentry", md.IsMapEntry())
		rn := md.ReservedNames()
		for j := 0; j < rn.Len(); j++ {
			s.add(mp, fmt.Sprintf("reserved_name[%d]", j), rn.Get(j))
		}
		rr := md.ReservedRanges()
		for j := 0; j < rr.Len(); j++ {
			s.add(mp, fmt.Sprintf("reserved_range[%d]", j), rr.Get(j))
		}
		er := md.ExtensionRanges()
		for j := 0; j < er.Len(); j++ {
			s.add(mp, fmt.Sprintf("extension_range[%d]", j), er.Get(j))
			if !s.skipOptions {
				if o := md.ExtensionRangeOptions(j); o != nil && o.ProtoReflect().IsValid() {
					b, _ := proto.MarshalOptions{Deterministic: true, AllowPartial: true}.Marshal(o)
					s.add(mp, fmt.Sprintf("extension_range_options[%d]", j), fmt.Sprintf("%x", b))
				}
			}
		}
		rq := md.RequiredNumbers()
		var nums []int
		for j := 0; j < rq.Len(); j++ {
			nums = append(nums, int(rq.Get(j)))
		}
		sort.Ints(nums)
		s.add(mp, "required_numbers", nums)
		fs := md.Fields()
		for j := 0; j < fs.Len(); j++ {
			s.field(fmt.Sprintf("%s.field[%d:%s]", mp, j, fs.Get(j).Name()), fs.Get(j))
		}
		os := md.Oneofs()
		for j := 0; j < os.Len(); j++ {
			od := os.Get(j)
			op := fmt.Sprintf("%s.oneof[%d:%s]", mp, j, od.Name())
			s.common(op, od)
			s.opts(op, od)
			s.add(op, "synthetic", od.IsSynthetic())
			var names []string
			for k := 0; k < od.Fields().Len(); k++ {
				names = append(names, string(od.Fields().Get(k).Name()))
			}
			s.add(op, "fields", strings.Join(names, ","))
		}
		s.enums(mp, md.Enums())
		s.messages(mp, md.Messages())
		s.extensions(mp, md.Extensions())
	}
}

func (s *DescSnap) extensions(p string, xs protoreflect.ExtensionDescriptors) {
	for i := 0; i < xs.Len(); i++ {
		s.field(fmt.Sprintf("%s.extension[%d:%s]", p, i, xs.Get(i).Name()), xs.Get(i))
	}
}

func (s *DescSnap) field(fp string, fd protoreflect.FieldDescriptor) {
	s.common(fp, fd)
	s.opts(fp, fd)
	s.add(fp, "number", fd.Number())
	s.add(fp, "cardinality", fd.Cardinality())
	s.add(fp, "kind", fd.Kind())
	s.add(fp, "json", fmt.Sprintf("%v:%s", fd.HasJSONName(), fd.JSONName()))
	s.add(fp, "textname", fd.TextName())
	s.add(fp, "presence", fd.HasPresence())
	s.add(fp, "extension", fd.IsExtension())
	s.add(fp, "weak", fd.IsWeak())
	s.add(fp, "packed", fd.IsPacked())
	s.add(fp, "list", fd.IsList())
	s.add(fp, "map", fd.IsMap())
	s.add(fp, "optional_keyword", fd.HasOptionalKeyword())
	if fd.IsMap() {
		s.add(fp, "mapkey", fmt.Sprintf("%v", fd.MapKey().Kind()))
		s.add(fp, "mapvalue", fmt.Sprintf("%v/%s", fd.MapValue().Kind(), descName(descOrNil(fd.MapValue().Message()))))
	}
	s.add(fp, "hasdefault", fd.HasDefault())
	if fd.Message() == nil && !fd.IsList() {
		s.add(fp, "default", DefaultString(fd.Kind(), fd.Default()))
	}
	if ev := fd.DefaultEnumValue(); ev != nil {
		s.add(fp, "default_enum", ev.Name())
	}
	if od := fd.ContainingOneof(); od != nil {
		s.add(fp, "oneof", od.Name())
	}
	if cm := fd.ContainingMessage(); cm != nil {
		s.add(fp, "containing", descName(cm))
	}
	if ed := fd.Enum(); ed != nil {
		s.add(fp, "enum", descName(ed))
	}
	if md := fd.Message(); md != nil {
		s.add(fp, "message", descName(md))
	}
	if x, ok := fd.(interface{ EnforceUTF8() bool }); ok {
		s.add(fp, "enforce_utf8", x.EnforceUTF8())
	} else if fd.Kind() == protoreflect.StringKind {
		s.add(fp, "enforce_utf8", fd.Syntax() == protoreflect.Proto3)
	}
	if x, ok := fd.(interface{ IsLazy() bool }); ok {
		s.add(fp, "lazy", x.IsLazy())
	}
}

func descOrNil(md protoreflect.MessageDescriptor) protoreflect.Descriptor {
	if md == nil {
		return nil
	}
	return md
}

// DefaultString renders a default value bit-exactly.
func DefaultString(k protoreflect.Kind, v protoreflect.Value) string {
	if !v.IsValid() {
		return "<invalid>"
	}
	switch k {
	case protoreflect.FloatKind:
		f := float32(v.Float())
		if f != f {
			return "NaN"
		}
		return fmt.Sprintf("f%08x", math.Float32bits(f))
	case protoreflect.DoubleKind:
		f := v.Float()
		if f != f {
			return "NaN"
		}
		return fmt.Sprintf("d%016x", math.Float64bits(f))
	case protoreflect.BytesKind:
		return fmt.Sprintf("x%x", v.Bytes())
	case protoreflect.StringKind:
		return fmt.Sprintf("%q", v.String())
	}
	return fmt.Sprint(v.Interface())
}

// Diff returns the first differing line pair ("" if equal).
func (s *DescSnap) Diff(o *DescSnap) (string, string) {
	n := len(s.Lines)
	if len(o.Lines) < n {
		n = len(o.Lines)
	}
	for i := 0; i < n; i++ {
		if s.Lines[i] != o.Lines[i] {
			return s.Lines[i], o.Lines[i]
		}
	}
	if len(s.Lines) != len(o.Lines) {
		if len(s.Lines) > n {
			return s.Lines[n], "<missing>"
		}
		return "<missing>", o.Lines[n]
	}
	return "", ""
}

// DiffKey abstracts a differing line to "descriptor-kind accessor" for fingerprints.
func DiffKey(line string) string {
	i := strings.Index(line, " ")
	j := strings.Index(line[i+1:], "=")
	if i < 0 || j < 0 {
		return clipKey(line)
	}
	path, key := line[:i], line[i+1:i+1+j]
	last := path
	if k := strings.LastIndex(path, "."); k >= 0 {
		last = path[k+1:]
	}
	if k := strings.Index(last, "["); k >= 0 {
		last = last[:k]
	}
	return last + "." + key
}

func clipKey(s string) string {
	if len(s) > 60 {
		return s[:60]
	}
	return s
}
