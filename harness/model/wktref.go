package model

import (
	"math/big"
	"strings"
)

// Reference recognisers for the JSON text forms of Duration, Timestamp and
// FieldMask, written from the documented grammars (no use of package time).

const (
	MaxDurationSeconds  = 315576000000
	MinTimestampSeconds = -62135596800 // 0001-01-01T00:00:00Z
	MaxTimestampSeconds = 253402300799 // 9999-12-31T23:59:59Z
)

func isDigit(c byte) bool { return c >= '0' && c <= '9' }

// ParseDurationRef: [+-] ( int [ "." frac{0,9} ] | "." frac{1,9} ) "s", int = 0 | [1-9][0-9]*,
// |seconds| <= 315576000000.
func ParseDurationRef(s string) (secs int64, nanos int32, ok bool) {
	if !strings.HasSuffix(s, "s") {
		return 0, 0, false
	}
	s = s[:len(s)-1]
	neg := false
	if len(s) > 0 && (s[0] == '+' || s[0] == '-') {
		neg = s[0] == '-'
		s = s[1:]
	}
	i := 0
	for i < len(s) && isDigit(s[i]) {
		i++
	}
	intp := s[:i]
	rest := s[i:]
	if len(intp) > 1 && intp[0] == '0' {
		return 0, 0, false
	}
	frac := ""
	if rest != "" {
		if rest[0] != '.' {
			return 0, 0, false
		}
		frac = rest[1:]
		for j := 0; j < len(frac); j++ {
			if !isDigit(frac[j]) {
				return 0, 0, false
			}
		}
		if len(frac) > 9 {
			return 0, 0, false
		}
		if intp == "" && frac == "" {
			return 0, 0, false
		}
	} else if intp == "" {
		return 0, 0, false
	}
	sv := new(big.Int)
	if intp != "" {
		sv.SetString(intp, 10)
	}
	if sv.Cmp(big.NewInt(MaxDurationSeconds)) > 0 {
		return 0, 0, false
	}
	nv := int64(0)
	for j := 0; j < 9; j++ {
		nv *= 10
		if j < len(frac) {
			nv += int64(frac[j] - '0')
		}
	}
	secs, nanos = sv.Int64(), int32(nv)
	if neg {
		secs, nanos = -secs, -nanos
	}
	return secs, nanos, true
}

// DaysFromCivil: days since 1970-01-01 of a proleptic Gregorian date.
func DaysFromCivil(y, m, d int64) int64 {
	if m <= 2 {
		y--
	}
	era := y / 400
	if y < 0 && y%400 != 0 {
		era = (y - 399) / 400
	}
	yoe := y - era*400
	mp := (m + 9) % 12
	doy := (153*mp+2)/5 + d - 1
	doe := yoe*365 + yoe/4 - yoe/100 + doy
	return era*146097 + doe - 719468
}

func daysIn(y, m int64) int64 {
	switch m {
	case 4, 6, 9, 11:
		return 30
	case 2:
		if y%4 == 0 && (y%100 != 0 || y%400 == 0) {
			return 29
		}
		return 28
	}
	return 31
}

// TSVerdict of the reference: Accept, Reject, or DontCare (forms on which RFC
// 3339 and common practice disagree: leap second :60, year 0000, zone offsets
// beyond 23:59, lower-case t/z).
type TSVerdict int

const (
	TSReject TSVerdict = iota
	TSAccept
	TSDontCare
)

// ParseTimestampRef: YYYY-MM-DDTHH:MM:SS[.f{1,9}](Z|[+-]HH:MM), calendar-valid,
// instant within years 1..9999.
func ParseTimestampRef(s string) (secs int64, nanos int32, v TSVerdict) {
	num := func(t string) (int64, bool) {
		n := int64(0)
		for i := 0; i < len(t); i++ {
			if !isDigit(t[i]) {
				return 0, false
			}
			n = n*10 + int64(t[i]-'0')
		}
		return n, true
	}
	if len(s) < 20 {
		return 0, 0, TSReject
	}
	dontCare := false
	if s[4] != '-' || s[7] != '-' || s[13] != ':' || s[16] != ':' {
		return 0, 0, TSReject
	}
	switch s[10] {
	case 'T':
	case 't':
		dontCare = true
	default:
		return 0, 0, TSReject
	}
	y, ok1 := num(s[0:4])
	mo, ok2 := num(s[5:7])
	d, ok3 := num(s[8:10])
	h, ok4 := num(s[11:13])
	mi, ok5 := num(s[14:16])
	se, ok6 := num(s[17:19])
	if !(ok1 && ok2 && ok3 && ok4 && ok5 && ok6) {
		return 0, 0, TSReject
	}
	rest := s[19:]
	frac := ""
	if rest[0] == '.' {
		j := 1
		for j < len(rest) && isDigit(rest[j]) {
			j++
		}
		frac = rest[1:j]
		if len(frac) < 1 || len(frac) > 9 {
			return 0, 0, TSReject
		}
		rest = rest[j:]
	}
	off := int64(0)
	switch {
	case rest == "Z":
	case rest == "z":
		dontCare = true
	case len(rest) == 6 && (rest[0] == '+' || rest[0] == '-') && rest[3] == ':':
		oh, oka := num(rest[1:3])
		om, okb := num(rest[4:6])
		if !oka || !okb {
			return 0, 0, TSReject
		}
		if oh > 23 || om > 59 {
			dontCare = true
		}
		off = oh*3600 + om*60
		if rest[0] == '-' {
			off = -off
		}
	default:
		return 0, 0, TSReject
	}
	if mo < 1 || mo > 12 || d < 1 || h > 23 || mi > 59 || se > 60 {
		return 0, 0, TSReject
	}
	if y == 0 {
		dontCare = true
	}
	if d > daysIn(y, mo) {
		return 0, 0, TSReject
	}
	if se == 60 {
		dontCare = true
	}
	secs = DaysFromCivil(y, mo, d)*86400 + h*3600 + mi*60 + se - off
	if secs < MinTimestampSeconds || secs > MaxTimestampSeconds {
		if dontCare {
			return 0, 0, TSDontCare
		}
		return 0, 0, TSReject
	}
	nv := int64(0)
	for j := 0; j < 9; j++ {
		nv *= 10
		if j < len(frac) {
			nv += int64(frac[j] - '0')
		}
	}
	if dontCare {
		return secs, int32(nv), TSDontCare
	}
	return secs, int32(nv), TSAccept
}

// IsProtoFullName: dot-separated [A-Za-z_][A-Za-z0-9_]* components.
func IsProtoFullName(s string) bool {
	if s == "" {
		return false
	}
	for _, part := range strings.Split(s, ".") {
		if part == "" {
			return false
		}
		for i := 0; i < len(part); i++ {
			c := part[i]
			ok := c == '_' || c >= 'a' && c <= 'z' || c >= 'A' && c <= 'Z' || (i > 0 && isDigit(c))
			if !ok {
				return false
			}
		}
	}
	return true
}

// FieldMaskPathToJSON: lowerCamelCase form and whether the path can be
// written in JSON (valid and reversible: no upper-case letter, every '_' is
// followed by a lower-case letter).
func FieldMaskPathToJSON(p string) (string, bool) {
	if !IsProtoFullName(p) {
		return "", false
	}
	var b []byte
	for i := 0; i < len(p); i++ {
		c := p[i]
		switch {
		case c >= 'A' && c <= 'Z':
			return "", false
		case c == '_':
			if i+1 >= len(p) || p[i+1] < 'a' || p[i+1] > 'z' {
				return "", false
			}
			b = append(b, p[i+1]-'a'+'A')
			i++
		default:
			b = append(b, c)
		}
	}
	return string(b), true
}

// FieldMaskPathFromJSON: snake_case path of one JSON path component list, ok
// if acceptable (no '_' in the JSON form, result is a valid path).
func FieldMaskPathFromJSON(j string) (string, bool) {
	if strings.Contains(j, "_") {
		return "", false
	}
	var b []byte
	for i := 0; i < len(j); i++ {
		c := j[i]
		if c >= 'A' && c <= 'Z' {
			b = append(b, '_', c-'A'+'a')
		} else {
			b = append(b, c)
		}
	}
	if !IsProtoFullName(string(b)) {
		return "", false
	}
	return string(b), true
}
