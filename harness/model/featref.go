package model

import (
	"fmt"

	"google.golang.org/protobuf/types/descriptorpb"
)

// Feat is a fully resolved feature set (the six core features).
type Feat struct {
	Presence  descriptorpb.FeatureSet_FieldPresence
	EnumType  descriptorpb.FeatureSet_EnumType
	Repeated  descriptorpb.FeatureSet_RepeatedFieldEncoding
	UTF8      descriptorpb.FeatureSet_Utf8Validation
	MsgEnc    descriptorpb.FeatureSet_MessageEncoding
	JSON      descriptorpb.FeatureSet_JsonFormat
}

// EditionDefaults: the feature defaults of the protobuf language per syntax /
// edition (protobuf editions specification, edition 2023 feature table).
func EditionDefaults(syntax string, ed descriptorpb.Edition) Feat {
	switch {
	case syntax == "proto3":
		return Feat{descriptorpb.FeatureSet_IMPLICIT, descriptorpb.FeatureSet_OPEN, descriptorpb.FeatureSet_PACKED, descriptorpb.FeatureSet_VERIFY, descriptorpb.FeatureSet_LENGTH_PREFIXED, descriptorpb.FeatureSet_ALLOW}
	case syntax == "editions":
		return Feat{descriptorpb.FeatureSet_EXPLICIT, descriptorpb.FeatureSet_OPEN, descriptorpb.FeatureSet_PACKED, descriptorpb.FeatureSet_VERIFY, descriptorpb.FeatureSet_LENGTH_PREFIXED, descriptorpb.FeatureSet_ALLOW}
	}
	return Feat{descriptorpb.FeatureSet_EXPLICIT, descriptorpb.FeatureSet_CLOSED, descriptorpb.FeatureSet_EXPANDED, descriptorpb.FeatureSet_NONE, descriptorpb.FeatureSet_LENGTH_PREFIXED, descriptorpb.FeatureSet_LEGACY_BEST_EFFORT}
}

// Override applies the explicitly set features of fs (nearest wins).
func (f Feat) Override(fs *descriptorpb.FeatureSet) Feat {
	if fs == nil {
		return f
	}
	if fs.FieldPresence != nil {
		f.Presence = fs.GetFieldPresence()
	}
	if fs.EnumType != nil {
		f.EnumType = fs.GetEnumType()
	}
	if fs.RepeatedFieldEncoding != nil {
		f.Repeated = fs.GetRepeatedFieldEncoding()
	}
	if fs.Utf8Validation != nil {
		f.UTF8 = fs.GetUtf8Validation()
	}
	if fs.MessageEncoding != nil {
		f.MsgEnc = fs.GetMessageEncoding()
	}
	if fs.JsonFormat != nil {
		f.JSON = fs.GetJsonFormat()
	}
	return f
}

// FieldExpect: the accessor values a field must have.
type FieldExpect struct {
	FullName    string
	HasPresence bool
	Required    bool
	Packed      bool
	Group       bool // Kind() == GroupKind
	EnforceUTF8 bool
	IsString    bool
}

type EnumExpect struct {
	FullName string
	Closed   bool
}

// ResolveFile walks a FileDescriptorProto and derives, by inheritance along
// file -> message -> (nested message) -> field / enum, the expected accessors.
func ResolveFile(p *descriptorpb.FileDescriptorProto) (fields []FieldExpect, enums []EnumExpect) {
	syntax := p.GetSyntax()
	if syntax == "" {
		syntax = "proto2"
	}
	ff := EditionDefaults(syntax, p.GetEdition()).Override(p.GetOptions().GetFeatures())
	pkg := p.GetPackage()
	join := func(scope, name string) string {
		if scope == "" {
			return name
		}
		return scope + "." + name
	}
	mapEntries := map[string]bool{}
	var collect func(scope string, ms []*descriptorpb.DescriptorProto)
	collect = func(scope string, ms []*descriptorpb.DescriptorProto) {
		for _, m := range ms {
			full := join(scope, m.GetName())
			if m.GetOptions().GetMapEntry() {
				mapEntries["."+full] = true
			}
			collect(full, m.NestedType)
		}
	}
	collect(pkg, p.MessageType)
	doEnum := func(scope string, parent Feat, e *descriptorpb.EnumDescriptorProto) {
		f := parent.Override(e.GetOptions().GetFeatures())
		enums = append(enums, EnumExpect{FullName: join(scope, e.GetName()), Closed: f.EnumType == descriptorpb.FeatureSet_CLOSED})
	}
	doField := func(scope string, parent Feat, fd *descriptorpb.FieldDescriptorProto, ext bool, inMapEntry bool, oneofs []*descriptorpb.OneofDescriptorProto) {
		f := parent.Override(fd.GetOptions().GetFeatures())
		x := FieldExpect{FullName: join(scope, fd.GetName())}
		repeated := fd.GetLabel() == descriptorpb.FieldDescriptorProto_LABEL_REPEATED
		t := fd.GetType()
		isMsg := t == descriptorpb.FieldDescriptorProto_TYPE_MESSAGE || t == descriptorpb.FieldDescriptorProto_TYPE_GROUP
		x.IsString = t == descriptorpb.FieldDescriptorProto_TYPE_STRING
		x.Required = fd.GetLabel() == descriptorpb.FieldDescriptorProto_LABEL_REQUIRED || (syntax == "editions" && f.Presence == descriptorpb.FeatureSet_LEGACY_REQUIRED && !repeated)
		switch {
		case repeated:
			x.HasPresence = false
		case ext, isMsg, fd.OneofIndex != nil, fd.GetProto3Optional():
			x.HasPresence = true
		default:
			x.HasPresence = f.Presence != descriptorpb.FeatureSet_IMPLICIT
		}
		packable := repeated && !isMsg && t != descriptorpb.FieldDescriptorProto_TYPE_STRING && t != descriptorpb.FieldDescriptorProto_TYPE_BYTES
		if packable {
			if fd.GetOptions() != nil && fd.GetOptions().Packed != nil {
				x.Packed = fd.GetOptions().GetPacked()
			} else {
				x.Packed = f.Repeated == descriptorpb.FeatureSet_PACKED
			}
		}
		x.Group = t == descriptorpb.FieldDescriptorProto_TYPE_GROUP
		if syntax == "editions" && t == descriptorpb.FieldDescriptorProto_TYPE_MESSAGE && f.MsgEnc == descriptorpb.FeatureSet_DELIMITED {
			// DELIMITED makes a message field a group, except map fields and the fields of map entries
			x.Group = !mapEntries[fd.GetTypeName()] && !inMapEntry
		}
		x.EnforceUTF8 = x.IsString && f.UTF8 == descriptorpb.FeatureSet_VERIFY
		fields = append(fields, x)
	}
	var doMsg func(scope string, parent Feat, m *descriptorpb.DescriptorProto)
	doMsg = func(scope string, parent Feat, m *descriptorpb.DescriptorProto) {
		full := join(scope, m.GetName())
		f := parent.Override(m.GetOptions().GetFeatures())
		for _, fd := range m.Field {
			doField(full, f, fd, false, m.GetOptions().GetMapEntry(), m.OneofDecl)
		}
		for _, fd := range m.Extension {
			doField(full, f, fd, true, false, nil)
		}
		for _, e := range m.EnumType {
			doEnum(full, f, e)
		}
		for _, n := range m.NestedType {
			doMsg(full, f, n)
		}
	}
	for _, e := range p.EnumType {
		doEnum(pkg, ff, e)
	}
	for _, m := range p.MessageType {
		doMsg(pkg, ff, m)
	}
	for _, fd := range p.Extension {
		doField(pkg, ff, fd, true, false, nil)
	}
	return
}

func (f Feat) String() string {
	return fmt.Sprintf("%v/%v/%v/%v/%v/%v", f.Presence, f.EnumType, f.Repeated, f.UTF8, f.MsgEnc, f.JSON)
}
