package model

// wireref: from-the-spec recogniser of the protobuf wire grammar, written
// independently of encoding/protowire (shifting loops, no unrolling).

type WireDefect int

const (
	WireOK WireDefect = iota
	WireTruncated
	WireOverflow   // varint longer than 10 bytes or 10th byte > 1
	WireFieldNum   // field number out of the accepted domain
	WireReserved   // wire type 6 or 7
	WireEndGroup   // unexpected / mismatching end group
	WireTooDeep    // group nesting beyond the limit
	WireDontCare   // at the unspecified off-by-one boundary
)

// RefAppendVarint is the textbook LEB128 encoder.
func RefAppendVarint(b []byte, v uint64) []byte {
	for v >= 0x80 {
		b = append(b, byte(v)|0x80)
		v >>= 7
	}
	return append(b, byte(v))
}

// RefVarint decodes a varint: at most 10 bytes, the 10th at most 1.
func RefVarint(b []byte) (v uint64, n int, d WireDefect) {
	for i := 0; i < len(b); i++ {
		if i == 10 {
			return 0, 0, WireOverflow
		}
		c := b[i]
		if i == 9 && c > 1 {
			return 0, 0, WireOverflow
		}
		v |= uint64(c&0x7f) << (7 * uint(i))
		if c < 0x80 {
			return v, i + 1, WireOK
		}
	}
	if len(b) >= 10 {
		return 0, 0, WireOverflow
	}
	return 0, 0, WireTruncated
}

func RefSizeVarint(v uint64) int {
	n := 1
	for v >= 0x80 {
		v >>= 7
		n++
	}
	return n
}

// MaxNum is the domain accepted by protowire itself (DecodeTag rejects
// numbers above MaxInt32; ConsumeTag rejects < 1).
const (
	ProtowireMaxNum = 1<<31 - 1
	SchemaMaxNum    = 1<<29 - 1
)

// RefTag parses a tag.
func RefTag(b []byte, maxNum uint64) (num uint64, typ int, n int, d WireDefect) {
	v, n, d := RefVarint(b)
	if d != WireOK {
		return 0, 0, 0, d
	}
	num = v >> 3
	typ = int(v & 7)
	if num < 1 || num > maxNum {
		return 0, 0, 0, WireFieldNum
	}
	return num, typ, n, WireOK
}

// RefFieldValue recognises the value of a field of the given type.
// depthLeft is the remaining group nesting budget.
func RefFieldValue(num uint64, typ int, b []byte, maxNum uint64, depthLeft int) (n int, d WireDefect) {
	switch typ {
	case 0:
		_, n, d := RefVarint(b)
		return n, d
	case 5:
		if len(b) < 4 {
			return 0, WireTruncated
		}
		return 4, WireOK
	case 1:
		if len(b) < 8 {
			return 0, WireTruncated
		}
		return 8, WireOK
	case 2:
		l, n, d := RefVarint(b)
		if d != WireOK {
			return 0, d
		}
		if l > uint64(len(b)-n) {
			return 0, WireTruncated
		}
		return n + int(l), WireOK
	case 3:
		if depthLeft < 0 {
			return 0, WireTooDeep
		}
		off := 0
		for {
			num2, typ2, tn, d := RefTag(b[off:], maxNum)
			if d != WireOK {
				return 0, d
			}
			off += tn
			if typ2 == 4 {
				if num2 != num {
					return 0, WireEndGroup
				}
				return off, WireOK
			}
			vn, d := RefFieldValue(num2, typ2, b[off:], maxNum, depthLeft-1)
			if d != WireOK {
				return 0, d
			}
			off += vn
		}
	case 4:
		return 0, WireEndGroup
	default:
		return 0, WireReserved
	}
}

// RefField recognises one complete field at the start of b.
func RefField(b []byte, maxNum uint64, depthLeft int) (num uint64, typ int, n int, d WireDefect) {
	num, typ, tn, d := RefTag(b, maxNum)
	if d != WireOK {
		return 0, 0, 0, d
	}
	if typ == 4 {
		return 0, 0, 0, WireEndGroup
	}
	vn, d := RefFieldValue(num, typ, b[tn:], maxNum, depthLeft)
	if d != WireOK {
		return 0, 0, 0, d
	}
	return num, typ, tn + vn, WireOK
}

// RefMessage recognises a whole message body (sequence of fields).
func RefMessage(b []byte, maxNum uint64, depthLeft int) WireDefect {
	for len(b) > 0 {
		_, _, n, d := RefField(b, maxNum, depthLeft)
		if d != WireOK {
			return d
		}
		b = b[n:]
	}
	return WireOK
}
