// Package model holds the reference models (the trusted base of the oracles).
package model

import (
	"fmt"
	"math"
	"sort"
	"strconv"
	"strings"

	"google.golang.org/protobuf/encoding/protowire"
	"google.golang.org/protobuf/reflect/protoreflect"
)

// Snap is a canonical, field-number-keyed value tree of a message. It is
// built only through protoreflect accessors and compared by its own equality
// (String), independently of proto.Equal.
type Snap struct {
	Type    string
	Valid   bool
	Fields  []*Node  // sorted by number; populated fields and extensions
	Unknown []UField // stable-sorted by number, wire order kept within a number
}

type Node struct {
	Num    int32
	Name   string
	Kind   protoreflect.Kind
	Oneof  string
	ValKind protoreflect.Kind // map value kind
	IsList bool
	IsMap  bool
	S      string // singular scalar
	M      *Snap  // singular message
	List   []Val
	Map    []MapEnt // sorted by key
}

type Val struct {
	S string
	M *Snap
}

type MapEnt struct {
	K string
	V Val
}

type UField struct {
	Num int32
	Typ protowire.Type
	Val string // raw value bytes (without tag); groups: body + end tag
}

func scalarString(k protoreflect.Kind, v protoreflect.Value) string {
	switch k {
	case protoreflect.BoolKind:
		if v.Bool() {
			return "true"
		}
		return "false"
	case protoreflect.EnumKind:
		return strconv.FormatInt(int64(v.Enum()), 10)
	case protoreflect.Int32Kind, protoreflect.Sint32Kind, protoreflect.Sfixed32Kind, protoreflect.Int64Kind, protoreflect.Sint64Kind, protoreflect.Sfixed64Kind:
		return strconv.FormatInt(v.Int(), 10)
	case protoreflect.Uint32Kind, protoreflect.Fixed32Kind, protoreflect.Uint64Kind, protoreflect.Fixed64Kind:
		return strconv.FormatUint(v.Uint(), 10)
	case protoreflect.FloatKind:
		f := float32(v.Float())
		if f != f {
			return "NaN"
		}
		return "f" + strconv.FormatUint(uint64(math.Float32bits(f)), 16)
	case protoreflect.DoubleKind:
		f := v.Float()
		if f != f {
			return "NaN"
		}
		return "d" + strconv.FormatUint(math.Float64bits(f), 16)
	case protoreflect.StringKind:
		return strconv.Quote(v.String())
	case protoreflect.BytesKind:
		return fmt.Sprintf("x%x", v.Bytes())
	}
	return "?"
}

// Of takes the snapshot of a message (forcing lazy fields).
func Of(m protoreflect.Message) *Snap { return of(m, nil) }

// OfExpandAny is Of, except that the value bytes of every google.protobuf.Any
// that expand can resolve are replaced by the snapshot of the unpacked message
// (payload bytes are not canonical: map order, NaN payloads).
func OfExpandAny(m protoreflect.Message, expand func(url string, value []byte) protoreflect.Message) *Snap {
	return of(m, expand)
}

func of(m protoreflect.Message, expand func(url string, value []byte) protoreflect.Message) *Snap {
	s := &Snap{Type: string(m.Descriptor().FullName()), Valid: m.IsValid()}
	m.Range(func(fd protoreflect.FieldDescriptor, v protoreflect.Value) bool {
		n := &Node{Num: int32(fd.Number()), Name: string(fd.Name()), Kind: fd.Kind()}
		if od := fd.ContainingOneof(); od != nil {
			n.Oneof = string(od.Name())
		}
		if fd.IsExtension() {
			n.Name = "[" + string(fd.FullName()) + "]"
		}
		switch {
		case fd.IsMap():
			n.IsMap = true
			kd, vd := fd.MapKey(), fd.MapValue()
			n.ValKind = vd.Kind()
			v.Map().Range(func(k protoreflect.MapKey, mv protoreflect.Value) bool {
				e := MapEnt{K: scalarString(kd.Kind(), k.Value())}
				if vd.Message() != nil {
					e.V.M = of(mv.Message(), expand)
				} else {
					e.V.S = scalarString(vd.Kind(), mv)
				}
				n.Map = append(n.Map, e)
				return true
			})
			sort.Slice(n.Map, func(i, j int) bool { return n.Map[i].K < n.Map[j].K })
		case fd.IsList():
			n.IsList = true
			l := v.List()
			for i := 0; i < l.Len(); i++ {
				if fd.Message() != nil {
					n.List = append(n.List, Val{M: of(l.Get(i).Message(), expand)})
				} else {
					n.List = append(n.List, Val{S: scalarString(fd.Kind(), l.Get(i))})
				}
			}
		case fd.Message() != nil:
			n.M = of(v.Message(), expand)
		default:
			n.S = scalarString(fd.Kind(), v)
		}
		s.Fields = append(s.Fields, n)
		return true
	})
	sort.Slice(s.Fields, func(i, j int) bool { return s.Fields[i].Num < s.Fields[j].Num })
	s.Unknown = ParseUnknown(m.GetUnknown())
	if x, ok := m.Descriptor().(interface{ IsMessageSet() bool }); ok && x.IsMessageSet() {
		// unresolved MessageSet items: the table-driven decoder keeps the item's
		// length prefix as it arrived, the reflection decoder re-encodes it;
		// a non-minimal length prefix is not content
		for i, u := range s.Unknown {
			if u.Typ == protowire.BytesType {
				if v, n := protowire.ConsumeBytes([]byte(u.Val)); n == len(u.Val) {
					s.Unknown[i].Val = string(protowire.AppendBytes(nil, v))
				}
			}
		}
	}
	if expand != nil && s.Type == "google.protobuf.Any" {
		fs := m.Descriptor().Fields()
		if inner := expand(m.Get(fs.ByNumber(1)).String(), m.Get(fs.ByNumber(2)).Bytes()); inner != nil {
			for _, n := range s.Fields {
				if n.Num == 2 {
					n.Kind, n.S, n.M = protoreflect.MessageKind, "", of(inner, expand)
				}
			}
		}
	}
	return s
}

// ParseUnknown splits raw unknown bytes into fields, grouped by number.
func ParseUnknown(b []byte) []UField {
	var out []UField
	for len(b) > 0 {
		num, typ, n := protowire.ConsumeTag(b)
		if n < 0 {
			out = append(out, UField{Num: -1, Val: string(b)})
			break
		}
		m := protowire.ConsumeFieldValue(num, typ, b[n:])
		if m < 0 {
			out = append(out, UField{Num: -1, Val: string(b)})
			break
		}
		out = append(out, UField{Num: int32(num), Typ: typ, Val: string(b[n : n+m])})
		b = b[n+m:]
	}
	sort.SliceStable(out, func(i, j int) bool { return out[i].Num < out[j].Num })
	return out
}

func (s *Snap) write(sb *strings.Builder, unknown bool) {
	sb.WriteString("{")
	for _, n := range s.Fields {
		fmt.Fprintf(sb, "%d:", n.Num)
		switch {
		case n.IsMap:
			sb.WriteString("map[")
			for _, e := range n.Map {
				sb.WriteString(e.K)
				sb.WriteString("=>")
				e.V.write(sb, unknown)
				sb.WriteString(",")
			}
			sb.WriteString("]")
		case n.IsList:
			sb.WriteString("[")
			for _, e := range n.List {
				e.write(sb, unknown)
				sb.WriteString(",")
			}
			sb.WriteString("]")
		case n.M != nil:
			n.M.write(sb, unknown)
		default:
			sb.WriteString(n.S)
		}
		sb.WriteString(";")
	}
	if unknown {
		for _, u := range s.Unknown {
			fmt.Fprintf(sb, "?%d/%d:%x;", u.Num, u.Typ, u.Val)
		}
	}
	sb.WriteString("}")
}

func (v Val) write(sb *strings.Builder, unknown bool) {
	if v.M != nil {
		v.M.write(sb, unknown)
	} else {
		sb.WriteString(v.S)
	}
}

// String is the canonical form including unknown fields.
func (s *Snap) String() string {
	var sb strings.Builder
	s.write(&sb, true)
	return sb.String()
}

// Known is the canonical form without unknown fields (whole tree).
func (s *Snap) Known() string {
	var sb strings.Builder
	s.write(&sb, false)
	return sb.String()
}

// NumPopulated counts populated fields in the whole tree.
func (s *Snap) NumPopulated() int {
	n := len(s.Fields) + len(s.Unknown)
	for _, f := range s.Fields {
		if f.M != nil {
			n += f.M.NumPopulated()
		}
		for _, e := range f.List {
			if e.M != nil {
				n += e.M.NumPopulated()
			}
		}
		for _, e := range f.Map {
			if e.V.M != nil {
				n += e.V.M.NumPopulated()
			}
		}
	}
	return n
}

// HasUnknownAnywhere reports whether any message in the tree has unknown fields.
func (s *Snap) HasUnknownAnywhere() bool {
	if len(s.Unknown) > 0 {
		return true
	}
	for _, f := range s.Fields {
		if f.M != nil && f.M.HasUnknownAnywhere() {
			return true
		}
		for _, e := range f.List {
			if e.M != nil && e.M.HasUnknownAnywhere() {
				return true
			}
		}
		for _, e := range f.Map {
			if e.V.M != nil && e.V.M.HasUnknownAnywhere() {
				return true
			}
		}
	}
	return false
}

// Walk visits every Snap of the tree.
func (s *Snap) Walk(f func(*Snap)) {
	f(s)
	for _, n := range s.Fields {
		if n.M != nil {
			n.M.Walk(f)
		}
		for _, e := range n.List {
			if e.M != nil {
				e.M.Walk(f)
			}
		}
		for _, e := range n.Map {
			if e.V.M != nil {
				e.V.M.Walk(f)
			}
		}
	}
}
