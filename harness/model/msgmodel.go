package model

import (
	"math"
	"sort"

	"google.golang.org/protobuf/reflect/protoreflect"
)

// msgmodel: the abstract protobuf message, operated through the same
// vocabulary as protoreflect.Message, over Snap trees.

// ScalarString exposes the canonical scalar rendering.
func ScalarString(k protoreflect.Kind, v protoreflect.Value) string { return scalarString(k, v) }

func NewSnap(md protoreflect.MessageDescriptor) *Snap {
	return &Snap{Type: string(md.FullName()), Valid: true}
}

func (s *Snap) node(num int32) *Node {
	for _, n := range s.Fields {
		if n.Num == num {
			return n
		}
	}
	return nil
}

func (s *Snap) remove(num int32) {
	var keep []*Node
	for _, n := range s.Fields {
		if n.Num != num {
			keep = append(keep, n)
		}
	}
	s.Fields = keep
}

func (s *Snap) put(n *Node) {
	s.remove(n.Num)
	s.Fields = append(s.Fields, n)
	sort.Slice(s.Fields, func(i, j int) bool { return s.Fields[i].Num < s.Fields[j].Num })
}

func newNode(fd protoreflect.FieldDescriptor) *Node {
	n := &Node{Num: int32(fd.Number()), Name: string(fd.Name()), Kind: fd.Kind()}
	if fd.IsExtension() {
		n.Name = "[" + string(fd.FullName()) + "]"
	}
	if od := fd.ContainingOneof(); od != nil {
		n.Oneof = string(od.Name())
	}
	if fd.IsMap() {
		n.IsMap = true
		n.ValKind = fd.MapValue().Kind()
	} else if fd.IsList() {
		n.IsList = true
	}
	return n
}

func (s *Snap) clearOneofSiblings(fd protoreflect.FieldDescriptor) {
	od := fd.ContainingOneof()
	if od == nil {
		return
	}
	for i := 0; i < od.Fields().Len(); i++ {
		if o := od.Fields().Get(i); o.Number() != fd.Number() {
			s.remove(int32(o.Number()))
		}
	}
}

// IsZeroValue: the implicit-presence notion of "unpopulated" (by bit pattern).
func IsZeroValue(fd protoreflect.FieldDescriptor, v protoreflect.Value) bool {
	switch fd.Kind() {
	case protoreflect.BoolKind:
		return !v.Bool()
	case protoreflect.EnumKind:
		return v.Enum() == 0
	case protoreflect.Int32Kind, protoreflect.Sint32Kind, protoreflect.Sfixed32Kind, protoreflect.Int64Kind, protoreflect.Sint64Kind, protoreflect.Sfixed64Kind:
		return v.Int() == 0
	case protoreflect.Uint32Kind, protoreflect.Fixed32Kind, protoreflect.Uint64Kind, protoreflect.Fixed64Kind:
		return v.Uint() == 0
	case protoreflect.FloatKind, protoreflect.DoubleKind:
		return math.Float64bits(v.Float()) == 0
	case protoreflect.StringKind:
		return v.String() == ""
	case protoreflect.BytesKind:
		return len(v.Bytes()) == 0
	}
	return false
}

// Has reports presence in the model.
func (s *Snap) Has(fd protoreflect.FieldDescriptor) bool { return s.node(int32(fd.Number())) != nil }

// SetScalar models Set for a singular non-message field.
func (s *Snap) SetScalar(fd protoreflect.FieldDescriptor, v protoreflect.Value) {
	s.clearOneofSiblings(fd)
	if !fd.HasPresence() && IsZeroValue(fd, v) {
		s.remove(int32(fd.Number()))
		return
	}
	n := newNode(fd)
	n.S = scalarString(fd.Kind(), v)
	s.put(n)
}

// SetMessage models Set for a singular message field.
func (s *Snap) SetMessage(fd protoreflect.FieldDescriptor, sub *Snap) {
	s.clearOneofSiblings(fd)
	n := newNode(fd)
	n.M = sub
	s.put(n)
}

func (s *Snap) Clear(fd protoreflect.FieldDescriptor) { s.remove(int32(fd.Number())) }

// MutableMessage models Mutable on a singular message field.
func (s *Snap) MutableMessage(fd protoreflect.FieldDescriptor) *Snap {
	if n := s.node(int32(fd.Number())); n != nil && n.M != nil {
		return n.M
	}
	sub := NewSnap(fd.Message())
	s.SetMessage(fd, sub)
	return sub
}

// List operations. An empty list is unpopulated.
func (s *Snap) ListAppend(fd protoreflect.FieldDescriptor, v Val) {
	n := s.node(int32(fd.Number()))
	if n == nil {
		n = newNode(fd)
		s.put(n)
	}
	n.List = append(n.List, v)
}

func (s *Snap) ListSet(fd protoreflect.FieldDescriptor, i int, v Val) {
	s.node(int32(fd.Number())).List[i] = v
}

func (s *Snap) ListTruncate(fd protoreflect.FieldDescriptor, k int) {
	n := s.node(int32(fd.Number()))
	if n == nil {
		return
	}
	n.List = n.List[:k]
	if k == 0 {
		s.remove(n.Num)
	}
}

func (s *Snap) ListLen(fd protoreflect.FieldDescriptor) int {
	if n := s.node(int32(fd.Number())); n != nil {
		return len(n.List)
	}
	return 0
}

func (s *Snap) ListElem(fd protoreflect.FieldDescriptor, i int) Val {
	return s.node(int32(fd.Number())).List[i]
}

// Map operations. An empty map is unpopulated.
func (s *Snap) MapSet(fd protoreflect.FieldDescriptor, k string, v Val) {
	n := s.node(int32(fd.Number()))
	if n == nil {
		n = newNode(fd)
		s.put(n)
	}
	for i := range n.Map {
		if n.Map[i].K == k {
			n.Map[i].V = v
			return
		}
	}
	n.Map = append(n.Map, MapEnt{K: k, V: v})
	sort.Slice(n.Map, func(i, j int) bool { return n.Map[i].K < n.Map[j].K })
}

func (s *Snap) MapClear(fd protoreflect.FieldDescriptor, k string) {
	n := s.node(int32(fd.Number()))
	if n == nil {
		return
	}
	var keep []MapEnt
	for _, e := range n.Map {
		if e.K != k {
			keep = append(keep, e)
		}
	}
	n.Map = keep
	if len(keep) == 0 {
		s.remove(n.Num)
	}
}

func (s *Snap) MapKeys(fd protoreflect.FieldDescriptor) []string {
	var out []string
	if n := s.node(int32(fd.Number())); n != nil {
		for _, e := range n.Map {
			out = append(out, e.K)
		}
	}
	return out
}

func (s *Snap) MapGet(fd protoreflect.FieldDescriptor, k string) (Val, bool) {
	if n := s.node(int32(fd.Number())); n != nil {
		for _, e := range n.Map {
			if e.K == k {
				return e.V, true
			}
		}
	}
	return Val{}, false
}

// Sub returns the model of a populated singular message field (nil if unset).
func (s *Snap) Sub(fd protoreflect.FieldDescriptor) *Snap {
	if n := s.node(int32(fd.Number())); n != nil {
		return n.M
	}
	return nil
}

// SetUnknown models SetUnknown.
func (s *Snap) SetUnknown(b []byte) { s.Unknown = ParseUnknown(b) }

// WhichOneof returns the populated member's number or 0.
func (s *Snap) WhichOneof(od protoreflect.OneofDescriptor) protoreflect.FieldNumber {
	for i := 0; i < od.Fields().Len(); i++ {
		if s.Has(od.Fields().Get(i)) {
			return od.Fields().Get(i).Number()
		}
	}
	return 0
}
