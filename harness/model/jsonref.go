package model

import (
	"math/big"
	"unicode/utf8"
)

// JSONValid is a strict RFC 8259 recogniser written from the grammar: exactly
// one value surrounded by optional whitespace (space, \t, \n, \r).
// It does not check UTF-8 or duplicate names (RFC 8259 does not forbid them
// syntactically); JSONValidUTF8 adds the UTF-8 requirement.
func JSONValid(b []byte) bool {
	p := &jsonp{b: b}
	p.ws()
	if !p.value(0) {
		return false
	}
	p.ws()
	return p.i == len(p.b)
}

func JSONValidUTF8(b []byte) bool { return utf8.Valid(b) && JSONValid(b) }

type jsonp struct {
	b []byte
	i int
}

func (p *jsonp) ws() {
	for p.i < len(p.b) {
		switch p.b[p.i] {
		case ' ', '\t', '\n', '\r':
			p.i++
		default:
			return
		}
	}
}

func (p *jsonp) lit(s string) bool {
	if len(p.b)-p.i >= len(s) && string(p.b[p.i:p.i+len(s)]) == s {
		p.i += len(s)
		return true
	}
	return false
}

func (p *jsonp) value(depth int) bool {
	if depth > 100000 || p.i >= len(p.b) {
		return false
	}
	switch c := p.b[p.i]; {
	case c == '{':
		p.i++
		p.ws()
		if p.i < len(p.b) && p.b[p.i] == '}' {
			p.i++
			return true
		}
		for {
			p.ws()
			if !p.str() {
				return false
			}
			p.ws()
			if p.i >= len(p.b) || p.b[p.i] != ':' {
				return false
			}
			p.i++
			p.ws()
			if !p.value(depth + 1) {
				return false
			}
			p.ws()
			if p.i >= len(p.b) {
				return false
			}
			if p.b[p.i] == ',' {
				p.i++
				continue
			}
			if p.b[p.i] == '}' {
				p.i++
				return true
			}
			return false
		}
	case c == '[':
		p.i++
		p.ws()
		if p.i < len(p.b) && p.b[p.i] == ']' {
			p.i++
			return true
		}
		for {
			p.ws()
			if !p.value(depth + 1) {
				return false
			}
			p.ws()
			if p.i >= len(p.b) {
				return false
			}
			if p.b[p.i] == ',' {
				p.i++
				continue
			}
			if p.b[p.i] == ']' {
				p.i++
				return true
			}
			return false
		}
	case c == '"':
		return p.str()
	case c == 't':
		return p.lit("true")
	case c == 'f':
		return p.lit("false")
	case c == 'n':
		return p.lit("null")
	case c == '-' || (c >= '0' && c <= '9'):
		n := JSONNumberLen(p.b[p.i:])
		if n == 0 {
			return false
		}
		p.i += n
		return true
	}
	return false
}

func (p *jsonp) str() bool {
	if p.i >= len(p.b) || p.b[p.i] != '"' {
		return false
	}
	p.i++
	for p.i < len(p.b) {
		c := p.b[p.i]
		switch {
		case c == '"':
			p.i++
			return true
		case c < 0x20:
			return false
		case c == '\\':
			p.i++
			if p.i >= len(p.b) {
				return false
			}
			switch p.b[p.i] {
			case '"', '\\', '/', 'b', 'f', 'n', 'r', 't':
				p.i++
			case 'u':
				if len(p.b)-p.i < 5 {
					return false
				}
				for k := 1; k <= 4; k++ {
					h := p.b[p.i+k]
					if !(h >= '0' && h <= '9' || h >= 'a' && h <= 'f' || h >= 'A' && h <= 'F') {
						return false
					}
				}
				p.i += 5
			default:
				return false
			}
		default:
			p.i++
		}
	}
	return false
}

// JSONNumberLen returns the length of the longest prefix of b that is a JSON
// number per RFC 8259 section 6 (0 if none):
// number = [ minus ] int [ frac ] [ exp ].
func JSONNumberLen(b []byte) int {
	i := 0
	if i < len(b) && b[i] == '-' {
		i++
	}
	if i >= len(b) {
		return 0
	}
	switch {
	case b[i] == '0':
		i++
	case b[i] >= '1' && b[i] <= '9':
		for i < len(b) && b[i] >= '0' && b[i] <= '9' {
			i++
		}
	default:
		return 0
	}
	if i+1 < len(b) && b[i] == '.' && b[i+1] >= '0' && b[i+1] <= '9' {
		i++
		for i < len(b) && b[i] >= '0' && b[i] <= '9' {
			i++
		}
	}
	if i < len(b) && (b[i] == 'e' || b[i] == 'E') {
		j := i + 1
		if j < len(b) && (b[j] == '+' || b[j] == '-') {
			j++
		}
		if j < len(b) && b[j] >= '0' && b[j] <= '9' {
			for j < len(b) && b[j] >= '0' && b[j] <= '9' {
				j++
			}
			i = j
		}
	}
	return i
}

// IsJSONNumber reports whether the whole of s is one JSON number.
func IsJSONNumber(s string) bool { return len(s) > 0 && JSONNumberLen([]byte(s)) == len(s) }

// NumLit is the exact value of a JSON number literal: (-1)^Neg * Mant * 10^Exp10.
type NumLit struct {
	Neg   bool
	Mant  *big.Int // >= 0
	Exp10 *big.Int
}

// ParseNumLit decomposes a syntactically valid JSON number.
func ParseNumLit(s string) (NumLit, bool) {
	if !IsJSONNumber(s) {
		return NumLit{}, false
	}
	var n NumLit
	i := 0
	if s[0] == '-' {
		n.Neg = true
		i++
	}
	digits := []byte{}
	fracLen := 0
	for i < len(s) && s[i] >= '0' && s[i] <= '9' {
		digits = append(digits, s[i])
		i++
	}
	if i < len(s) && s[i] == '.' {
		i++
		for i < len(s) && s[i] >= '0' && s[i] <= '9' {
			digits = append(digits, s[i])
			fracLen++
			i++
		}
	}
	n.Mant, _ = new(big.Int).SetString(string(digits), 10)
	n.Exp10 = big.NewInt(int64(-fracLen))
	if i < len(s) {
		e, ok := new(big.Int).SetString(s[i+1:], 10) // accepts leading + or -
		if !ok {
			return NumLit{}, false
		}
		n.Exp10.Add(n.Exp10, e)
	}
	return n, true
}

var bigTen = big.NewInt(10)

// Integer returns the exact integer value if the literal denotes an integer
// of fewer than about 4000 digits; ok=false if it is not integral; huge=true if it is an
// integer too large to materialise (certainly outside every 64-bit range).
func (n NumLit) Integer() (v *big.Int, ok bool, huge bool) {
	if n.Mant.Sign() == 0 {
		return new(big.Int), true, false
	}
	if n.Exp10.Sign() >= 0 {
		if n.Exp10.Cmp(big.NewInt(4000)) > 0 {
			return nil, true, true
		}
		v = new(big.Int).Exp(bigTen, n.Exp10, nil)
		v.Mul(v, n.Mant)
	} else {
		neg := new(big.Int).Neg(n.Exp10)
		if neg.Cmp(big.NewInt(int64(len(n.Mant.String())))) > 0 {
			return nil, false, false // |value| < 1 and non-zero
		}
		d := new(big.Int).Exp(bigTen, neg, nil)
		q, r := new(big.Int).QuoRem(n.Mant, d, new(big.Int))
		if r.Sign() != 0 {
			return nil, false, false
		}
		v = q
	}
	if n.Neg {
		v.Neg(v)
	}
	return v, true, false
}

// Rat returns the exact value when the decimal exponent is moderate
// (|Exp10| <= 5000); otherwise class is +1 (astronomically large magnitude) or
// -1 (non-zero but astronomically small magnitude), or 0 with the value.
func (n NumLit) Rat() (r *big.Rat, class int) {
	if n.Mant.Sign() == 0 {
		return new(big.Rat), 0
	}
	lim := big.NewInt(5000)
	if n.Exp10.CmpAbs(lim) > 0 {
		if n.Exp10.Sign() > 0 {
			return nil, 1
		}
		return nil, -1
	}
	e := new(big.Int).Exp(bigTen, new(big.Int).Abs(n.Exp10), nil)
	r = new(big.Rat).SetInt(n.Mant)
	if n.Exp10.Sign() >= 0 {
		r.Mul(r, new(big.Rat).SetInt(e))
	} else {
		r.Quo(r, new(big.Rat).SetInt(e))
	}
	if n.Neg {
		r.Neg(r)
	}
	return r, 0
}
