package checks

import (
	"encoding/base64"
	"encoding/json"
	"fmt"
	"math"
	"reflect"
	"strings"
	"unicode/utf8"

	"google.golang.org/protobuf/encoding/protojson"
	"google.golang.org/protobuf/proto"
	"google.golang.org/protobuf/reflect/protoreflect"
	"google.golang.org/protobuf/types/known/anypb"
	"google.golang.org/protobuf/types/known/structpb"
	"google.golang.org/protobuf/verif/core"
	"google.golang.org/protobuf/verif/gen"
)

func init() {
	core.Register(&core.Check{
		ID:     "C45",
		Rule:   "cases: (a) PRNG-generated nested JSON-like Go values (nil, bool, every integer and float type at boundaries, json.Number, strings valid and invalid UTF-8, []byte, map[string]any, []any, depth <= 5): NewValue/NewStruct/NewList then AsInterface/AsMap/AsSlice vs a reference normalisation (integers and float32 -> float64, []byte -> base64 string, non-finite -> \"NaN\"/\"Infinity\"/\"-Infinity\"), invalid UTF-8 and unsupported types must be rejected; for finite content encoding/json of AsInterface and protojson of the Value parse to the same JSON value; (b) every linked message type with PRNG content: anypb.New / MarshalFrom / UnmarshalTo / UnmarshalNew / MessageIs / MessageName round trip, MessageIs false for every other sampled type (incl. types whose name is a suffix or prefix of the packed type's name), UnmarshalTo into another type fails, UnmarshalTo into a destination that already holds other content (every fourth packed message is empty) leaves exactly the packed content, and without AllowPartial its verdict is the packed message's; distinct = distinct values / (type, bytes); non-trivial = value is a container or message has a populated field",
		Assume: []string{"reflect.DeepEqual over the reference normalisation written in checks/c45.go", "encoding/json"},
		Batches: func(tier string) []core.Batch {
			var bs []core.Batch
			for i := 0; i < 4; i++ {
				bs = append(bs, core.Batch{Cfg: "base", Name: fmt.Sprintf("struct-%d", i), Kind: "struct", N: i})
			}
			for i := 0; i < 8; i++ {
				bs = append(bs, core.Batch{Cfg: "base", Name: fmt.Sprintf("any-%d", i), Kind: "any", N: i})
			}
			return bs
		},
		Gates: func(tier string) map[string]int64 {
			return map[string]int64{"values": 20000, "values_rejected": 1000, "values_nested": 1500, "json_compared": 10000, "nonfinite": 300, "bytes_values": 500, "any_roundtrips": 1200, "any_messageis_false": 20000, "any_types": 500, "any_wrong_target": 3000, "any_unmarshalto_populated_destination": 1200, "any_empty_payload_into_populated_destination": 250}
		},
		Run: runC45,
	})
}

// genJSONLike returns a Go value, its reference normalisation (what
// AsInterface must return), and whether NewValue must reject it.
func genJSONLike(r *core.Rand, depth int) (v any, norm any, reject bool, finite bool) {
	finite = true
	k := r.Intn(16)
	if depth >= 5 && k >= 13 {
		k = r.Intn(13)
	}
	num := func(x any, f float64) (any, any, bool, bool) {
		switch {
		case math.IsNaN(f):
			return x, "NaN", false, false
		case math.IsInf(f, 1):
			return x, "Infinity", false, false
		case math.IsInf(f, -1):
			return x, "-Infinity", false, false
		}
		return x, f, false, true
	}
	u := r.Uint64Boundary()
	switch k {
	case 0:
		return nil, nil, false, true
	case 1:
		b := r.Bool()
		return b, b, false, true
	case 2:
		x := int(int64(u))
		return num(x, float64(x))
	case 3:
		switch r.Intn(4) {
		case 0:
			x := int8(u)
			return num(x, float64(x))
		case 1:
			x := int16(u)
			return num(x, float64(x))
		case 2:
			x := int32(u)
			return num(x, float64(x))
		default:
			x := int64(u)
			return num(x, float64(x))
		}
	case 4:
		switch r.Intn(5) {
		case 0:
			x := uint8(u)
			return num(x, float64(x))
		case 1:
			x := uint16(u)
			return num(x, float64(x))
		case 2:
			x := uint32(u)
			return num(x, float64(x))
		case 3:
			x := uint(u)
			return num(x, float64(x))
		default:
			return num(u, float64(u))
		}
	case 5:
		x := gen.RandFloat32(r, gen.MsgOpts{})
		return num(x, float64(x))
	case 6, 7:
		x := gen.RandFloat64(r, gen.MsgOpts{})
		return num(x, x)
	case 8:
		lits := []string{"0", "-1", "1.5", "1e3", "1E-2", "9007199254740993", "1e400", "abc", "", "0x10", "NaN", "1_0", "-0"}
		s := lits[r.Intn(len(lits))]
		f, err := json.Number(s).Float64()
		if err != nil {
			return json.Number(s), nil, true, true
		}
		return num(json.Number(s), f)
	case 9, 10:
		s := gen.RandString(r, true)
		return s, s, false, true
	case 11:
		s := gen.InvalidString(r)
		return s, nil, true, true
	case 12:
		bs := gen.RandBytes(r)
		if bs == nil {
			bs = []byte{}
		}
		return bs, base64.StdEncoding.EncodeToString(bs), false, true
	case 13:
		n := r.Intn(4)
		m, nm := map[string]any{}, map[string]any{}
		rej, fin := map[string]bool{}, map[string]bool{}
		for i := 0; i < n; i++ {
			key := gen.RandString(r, !r.Chance(1, 12))
			cv, cn, cr, cf := genJSONLike(r, depth+1)
			m[key] = cv // a later entry with the same key replaces the earlier one
			nm[key] = cn
			rej[key] = cr || !isValidUTF8(key)
			fin[key] = cf
		}
		for k := range m {
			reject = reject || rej[k]
			finite = finite && fin[k]
		}
		return m, nm, reject, finite
	case 14:
		n := r.Intn(4)
		l, nl := make([]any, 0, n), make([]any, 0, n)
		for i := 0; i < n; i++ {
			cv, cn, cr, cf := genJSONLike(r, depth+1)
			l = append(l, cv)
			nl = append(nl, cn)
			reject = reject || cr
			finite = finite && cf
		}
		return l, nl, reject, finite
	default: // unsupported types
		bad := []any{struct{}{}, []int{1}, map[string]int{"a": 1}, complex(1, 2), new(int), []string{"a"}, map[int]any{1: 1}, int8(1) != 0 && false, uintptr(1)}
		x := bad[r.Intn(len(bad))]
		if b, ok := x.(bool); ok {
			return b, b, false, true
		}
		return x, nil, true, true
	}
}

func isValidUTF8(s string) bool { return utf8.ValidString(s) }

func runC45(c *core.Ctx, b core.Batch) {
	if b.Kind == "any" {
		c45Any(c, b)
		return
	}
	n := c.Scale(12000, 300000)
	for i := 0; i < n; i++ {
		r := c.Rng(uint64(i))
		v, norm, reject, finite := genJSONLike(r, 0)
		c.Eval()
		c.Count("values")
		c.Log("C45 value %T %#v", v, clip(fmt.Sprintf("%#v", v), 2000))
		var pv *structpb.Value
		var err error
		if !c.NoPanic("struct:newvalue-panic", map[string]any{"value": clip(fmt.Sprintf("%#v", v), 1000)}, func() { pv, err = structpb.NewValue(v) }) {
			continue
		}
		if (err != nil) != reject {
			c.Violation(fmt.Sprintf("struct:newvalue-verdict:want-reject=%v:%T", reject, v), map[string]any{"value": clip(fmt.Sprintf("%#v", v), 1000), "err": errStr(err)})
			continue
		}
		if reject {
			c.Count("values_rejected")
			continue
		}
		switch v.(type) {
		case map[string]any, []any:
			c.Count("values_nested")
			c.DistinctStr(fmt.Sprintf("%#v", norm))
		case []byte:
			c.Count("bytes_values")
		}
		if !finite {
			c.Count("nonfinite")
		}
		got := pv.AsInterface()
		if !reflect.DeepEqual(got, norm) && !(c45BothNegZero(got, norm)) {
			c.Violation(fmt.Sprintf("struct:asinterface-differs:%T", v), map[string]any{"value": clip(fmt.Sprintf("%#v", v), 1000), "got": clip(fmt.Sprintf("%#v", got), 1000), "want": clip(fmt.Sprintf("%#v", norm), 1000)})
			continue
		}
		// the typed constructors agree
		switch x := v.(type) {
		case map[string]any:
			st, e := structpb.NewStruct(x)
			if e != nil || !reflect.DeepEqual(st.AsMap(), norm) {
				c.Violation("struct:newstruct-asmap", map[string]any{"value": clip(fmt.Sprintf("%#v", v), 1000), "err": errStr(e)})
			}
			if !proto.Equal(st, pv.GetStructValue()) {
				c.Violation("struct:newstruct-vs-newvalue", nil)
			}
		case []any:
			l, e := structpb.NewList(x)
			if e != nil || !reflect.DeepEqual(l.AsSlice(), norm) {
				c.Violation("struct:newlist-asslice", map[string]any{"value": clip(fmt.Sprintf("%#v", v), 1000), "err": errStr(e)})
			}
		}
		// NewValue(AsInterface(x)) is a fixed point
		if again, e := structpb.NewValue(got); e != nil || !proto.Equal(again, pv) && finite {
			c.Violation("struct:newvalue-of-asinterface-not-equal", map[string]any{"value": clip(fmt.Sprintf("%#v", v), 1000), "err": errStr(e)})
		}
		if finite {
			c.Count("json_compared")
			j1, e1 := json.Marshal(got)
			j2, e2 := protojson.Marshal(pv)
			if e1 != nil || e2 != nil {
				c.Violation("struct:json-marshal-error", map[string]any{"value": clip(fmt.Sprintf("%#v", v), 1000), "encoding_json": errStr(e1), "protojson": errStr(e2)})
				continue
			}
			a, ea := jsonParseFloat(j1)
			bb, eb := jsonParseFloat(j2)
			if ea != nil || eb != nil || !reflect.DeepEqual(a, bb) {
				c.Violation("struct:encoding-json-and-protojson-differ", map[string]any{"encoding_json": clip(string(j1), 1000), "protojson": clip(string(j2), 1000)})
			}
			// and protojson parses encoding/json's text back to an equal Value
			var back structpb.Value
			if e := protojson.Unmarshal(j1, &back); e != nil || !reflect.DeepEqual(back.AsInterface(), norm) && !c45BothNegZero(back.AsInterface(), norm) {
				c.Violation("struct:protojson-cannot-read-encoding-json-output", map[string]any{"json": clip(string(j1), 1000), "err": errStr(e)})
			}
			if c.WantSample() && len(j2) > 30 {
				c.Sample(map[string]any{"go_value": clip(fmt.Sprintf("%#v", v), 300), "protojson": clip(string(j2), 300), "encoding_json": clip(string(j1), 300)})
			}
		}
	}
}

func c45BothNegZero(a, b any) bool {
	x, ok1 := a.(float64)
	y, ok2 := b.(float64)
	return ok1 && ok2 && x == 0 && y == 0
}

func jsonParseFloat(b []byte) (any, error) {
	var v any
	err := json.Unmarshal(b, &v)
	return v, err
}

func c45Any(c *core.Ctx, b core.Batch) {
	all := codecTypes(b)
	types := shard(all, b.N, 8)
	// name neighbours: types whose full name is a suffix/prefix of another's
	for ti, mt := range types {
		md := mt.Descriptor()
		name := md.FullName()
		c.Count("any_types")
		var others []protoreflect.MessageType
		for _, o := range all {
			on := o.Descriptor().FullName()
			if on == name {
				continue
			}
			if strings.HasSuffix(string(name), string(on.Name())) || strings.HasPrefix(string(on), string(name)) || strings.HasSuffix(string(on), "."+string(name.Name())) {
				others = append(others, o)
			}
		}
		for k := 0; k < c.Scale(4, 40); k++ {
			r := c.Rng(uint64(ti)<<20 | uint64(k))
			m := mt.New()
			if k%4 != 3 {
				gen.Fill(r, m, fillOptsFor(k))
			} // every fourth content is the empty message: an Any with an empty payload
			c.Eval()
			c.Count("any_roundtrips")
			c.Log("C45 any type=%s", name)
			partial := proto.CheckInitialized(m.Interface()) != nil
			var a *anypb.Any
			var err error
			if partial {
				a = &anypb.Any{}
				err = anypb.MarshalFrom(a, m.Interface(), proto.MarshalOptions{AllowPartial: true, Deterministic: k%2 == 0})
			} else if k%2 == 0 {
				a, err = anypb.New(m.Interface())
			} else {
				a = &anypb.Any{TypeUrl: "stale", Value: []byte{1, 2, 3}}
				err = anypb.MarshalFrom(a, m.Interface(), proto.MarshalOptions{Deterministic: true})
			}
			if err != nil {
				c.Violation("any:new-error:"+string(name), map[string]any{"err": errStr(err)})
				continue
			}
			c.DistinctBytes([]byte(name), a.Value)
			if a.MessageName() != name || !a.MessageIs(m.Interface()) || !a.MessageIs(mt.Zero().Interface()) {
				c.Violation("any:messagename-or-messageis", map[string]any{"type": string(name), "url": a.TypeUrl, "message_name": string(a.MessageName())})
			}
			if !strings.HasSuffix(a.TypeUrl, "/"+string(name)) {
				c.Violation("any:type-url-form", map[string]any{"url": a.TypeUrl})
			}
			uo := proto.UnmarshalOptions{AllowPartial: partial}
			dst := mt.New().Interface()
			if e := anypb.UnmarshalTo(a, dst, uo); e != nil || !proto.Equal(dst, m.Interface()) {
				c.Violation("any:unmarshalto-roundtrip:"+string(name), map[string]any{"err": errStr(e)})
			}
			// UnmarshalTo resets its destination: one that already holds other content ends up with m
			{
				used := mt.New()
				gen.Fill(r.Fork(77), used, fillOptsFor(k+1))
				c.Count("any_unmarshalto_populated_destination")
				if len(a.Value) == 0 {
					c.Count("any_empty_payload_into_populated_destination")
				}
				if e := anypb.UnmarshalTo(a, used.Interface(), proto.UnmarshalOptions{AllowPartial: true}); e != nil || !proto.Equal(used.Interface(), m.Interface()) {
					c.Violation("any:unmarshalto-into-populated-destination:"+map[bool]string{true: "empty-payload", false: "non-empty-payload"}[len(a.Value) == 0], map[string]any{"type": string(name), "err": errStr(e)})
				}
				// without AllowPartial the verdict is that of the packed message
				wantErr := proto.CheckInitialized(m.Interface()) != nil
				if e := anypb.UnmarshalTo(a, mt.New().Interface(), proto.UnmarshalOptions{}); (e != nil) != wantErr {
					c.Violation("any:unmarshalto-required-verdict", map[string]any{"type": string(name), "want_error": wantErr, "err": errStr(e)})
				}
			}
			nm, e := anypb.UnmarshalNew(a, uo)
			if e != nil || !proto.Equal(nm, m.Interface()) || nm.ProtoReflect().Descriptor().FullName() != name {
				c.Violation("any:unmarshalnew-roundtrip:"+string(name), map[string]any{"err": errStr(e)})
			}
			if !partial {
				if e := a.UnmarshalTo(mt.New().Interface()); e != nil {
					c.Violation("any:method-unmarshalto:"+string(name), map[string]any{"err": errStr(e)})
				}
			}
			// other types: MessageIs false, UnmarshalTo fails
			cand := append([]protoreflect.MessageType(nil), others...)
			for j := 0; j < 6; j++ {
				cand = append(cand, all[r.Intn(len(all))])
			}
			for _, o := range cand {
				if o.Descriptor().FullName() == name {
					continue
				}
				c.Count("any_messageis_false")
				if a.MessageIs(o.Zero().Interface()) {
					c.Violation("any:messageis-true-for-other-type", map[string]any{"packed": string(name), "asked": string(o.Descriptor().FullName())})
				}
				c.Count("any_wrong_target")
				if e := anypb.UnmarshalTo(a, o.New().Interface(), proto.UnmarshalOptions{AllowPartial: true}); e == nil {
					c.Violation("any:unmarshalto-other-type-succeeds", map[string]any{"packed": string(name), "target": string(o.Descriptor().FullName())})
				}
			}
			// URL variants: anything before the last slash is ignored, no slash at all is not a URL of that type
			a2 := proto.Clone(a).(*anypb.Any)
			a2.TypeUrl = "example.com/prefix/" + string(name)
			if a2.MessageName() != name || !a2.MessageIs(m.Interface()) {
				c.Violation("any:url-with-other-prefix", map[string]any{"url": a2.TypeUrl})
			}
			a2.TypeUrl = string(name) + "x"
			if a2.MessageIs(m.Interface()) {
				c.Violation("any:messageis-accepts-longer-name", map[string]any{"url": a2.TypeUrl})
			}
			a2.TypeUrl = "x" + string(name)
			if a2.MessageIs(m.Interface()) {
				c.Violation("any:messageis-accepts-name-with-prefix-chars", map[string]any{"url": a2.TypeUrl})
			}
			if c.WantSample() && len(a.Value) > 10 {
				c.Sample(map[string]any{"type": string(name), "type_url": a.TypeUrl, "value": core.Hex(a.Value), "neighbours_checked": len(cand)})
			}
		}
	}
	// nil handling
	var nilAny *anypb.Any
	c.NoPanic("any:nil-receiver-panic", nil, func() {
		_ = nilAny.MessageName()
		_ = nilAny.MessageIs(&anypb.Any{})
	})
}
