package checks

import (
	"encoding/json"
	"fmt"
	"math"
	"regexp"
	"strings"

	"google.golang.org/protobuf/encoding/protojson"
	"google.golang.org/protobuf/proto"
	"google.golang.org/protobuf/reflect/protoreflect"
	"google.golang.org/protobuf/types/known/anypb"
	"google.golang.org/protobuf/types/known/durationpb"
	"google.golang.org/protobuf/types/known/emptypb"
	"google.golang.org/protobuf/types/known/fieldmaskpb"
	"google.golang.org/protobuf/types/known/structpb"
	"google.golang.org/protobuf/types/known/timestamppb"
	"google.golang.org/protobuf/types/known/wrapperspb"
	"google.golang.org/protobuf/verif/core"
	"google.golang.org/protobuf/verif/gen"
	"google.golang.org/protobuf/verif/model"
)

func init() {
	core.Register(&core.Check{
		ID:     "C23",
		Rule:   "cases: Duration: every string up to length 5 (quick) / 7 (thorough) over the alphabet +-.0159s and space, composed sign/int/frac/suffix strings around the 315576000000 s limit and 9/10 fraction digits, and boundary x boundary + PRNG (seconds, nanos) pairs marshalled and parsed back; Timestamp: template-mutated RFC 3339 strings (field widths, separators, case, 0-12 fraction digits with . or , offsets, month/day/leap-year limits, range edges moved by offsets) and (seconds, nanos) pairs; FieldMask: path lists over a small alphabet both directions; wrappers, Struct/Value/ListValue, Empty and Any: JSON form of the output; distinct = distinct strings or pairs; non-trivial = string longer than one character / non-zero pair",
		Assume: []string{"harness/model/wktref.go: Duration/Timestamp/FieldMask recognisers written from the documented grammars (civil-date arithmetic, no use of package time)", "encoding/json for reading outputs"},
		Batches: func(tier string) []core.Batch {
			var bs []core.Batch
			for i := 0; i < 8; i++ {
				bs = append(bs, core.Batch{Cfg: "base", Name: fmt.Sprintf("durstr-%d", i), Kind: "durstr", N: i})
			}
			for i := 0; i < 4; i++ {
				bs = append(bs, core.Batch{Cfg: "base", Name: fmt.Sprintf("tsstr-%d", i), Kind: "tsstr", N: i})
			}
			bs = append(bs, core.Batch{Cfg: "base", Name: "pairs", Kind: "pairs"}, core.Batch{Cfg: "base", Name: "fieldmask", Kind: "fieldmask"}, core.Batch{Cfg: "base", Name: "forms", Kind: "forms"})
			return bs
		},
		Exhaustive: func(tier string) bool { return false },
		Gates: func(tier string) map[string]int64 {
			return map[string]int64{"dur_str": 30000, "dur_str_accept": 300, "dur_str_reject": 20000, "ts_str": 8000, "ts_str_accept": 2000, "ts_str_reject": 5000, "ts_str_dontcare": 100,
				"dur_pair_ok": 2000, "dur_pair_bad": 500, "ts_pair_ok": 2000, "ts_pair_bad": 500, "fm_marshal_ok": 300, "fm_marshal_bad": 300, "fm_parse_ok": 40, "fm_parse_bad": 300, "forms": 500}
		},
		Run: runC23,
	})
}

func runC23(c *core.Ctx, b core.Batch) {
	switch b.Kind {
	case "durstr":
		c23DurationStrings(c, b)
	case "tsstr":
		c23TimestampStrings(c, b)
	case "pairs":
		c23Pairs(c)
	case "fieldmask":
		c23FieldMask(c)
	case "forms":
		c23Forms(c)
	}
}

func jsonQuote(s string) string {
	b, _ := json.Marshal(s)
	return string(b)
}

func c23DurStr(c *core.Ctx, s string, via int) {
	c.Eval()
	c.Count("dur_str")
	if len(s) > 1 {
		c.DistinctStr("d/" + s)
	}
	ws, wn, wok := model.ParseDurationRef(s)
	c.Log("C23 duration string %q via=%d", s, via)
	var gs int64
	var gn int32
	var err error
	q := jsonQuote(s)
	ok := c.NoPanic("duration:parse-panic", map[string]any{"s": s}, func() {
		switch via % 3 {
		case 0:
			var d durationpb.Duration
			err = protojson.Unmarshal([]byte(q), &d)
			gs, gn = d.Seconds, d.Nanos
		case 1: // as a field of another message
			m := gen.TypeByName("pb2.KnownTypes").New()
			err = protojson.Unmarshal([]byte(`{"optDuration":`+q+`}`), m.Interface())
			d := m.Get(m.Descriptor().Fields().ByName("opt_duration")).Message()
			gs, gn = d.Get(d.Descriptor().Fields().ByName("seconds")).Int(), int32(d.Get(d.Descriptor().Fields().ByName("nanos")).Int())
		case 2: // inside Any
			var a anypb.Any
			err = protojson.Unmarshal([]byte(`{"@type":"type.googleapis.com/google.protobuf.Duration","value":`+q+`}`), &a)
			if err == nil {
				var d durationpb.Duration
				if e := a.UnmarshalTo(&d); e != nil {
					err = e
				}
				gs, gn = d.Seconds, d.Nanos
			}
		}
	})
	if !ok {
		return
	}
	if wok {
		c.Count("dur_str_accept")
	} else {
		c.Count("dur_str_reject")
	}
	if (err == nil) != wok {
		c.Violation(fmt.Sprintf("duration:parse:want-accept=%v:%s", wok, c23DurClass(s)), map[string]any{"s": s, "err": errStr(err), "via": via % 3})
		return
	}
	if wok && (gs != ws || gn != wn) {
		c.Violation("duration:parse-value:"+c23DurClass(s), map[string]any{"s": s, "got": []int64{gs, int64(gn)}, "want": []int64{ws, int64(wn)}})
	}
	if wok && c.WantSample() && len(s) > 6 {
		c.Sample(map[string]any{"duration_string": s, "seconds": gs, "nanos": gn})
	}
}

var reDigits = regexp.MustCompile(`[0-9]+`)

// c23DurClass abstracts a duration string to its shape (fingerprint).
func c23DurClass(s string) string {
	t := reDigits.ReplaceAllStringFunc(s, func(d string) string {
		if len(d) > 9 {
			return "D>9"
		}
		return "D"
	})
	return clip(t, 24)
}

func c23DurationStrings(c *core.Ctx, b core.Batch) {
	alpha := "+-.0159s "
	maxLen := c.Scale(5, 7)
	idx := 0
	var rec func(p []byte)
	rec = func(p []byte) {
		if len(p) > 0 {
			idx++
			if idx%8 == b.N {
				c23DurStr(c, string(p), idx)
			}
		}
		if len(p) == maxLen {
			return
		}
		for i := 0; i < len(alpha); i++ {
			rec(append(p, alpha[i]))
		}
	}
	rec(nil)
	ints := []string{"", "0", "1", "9", "10", "00", "01", "315576000000", "315576000001", "315575999999", "999999999999", "9223372036854775807", "9223372036854775808", "99999999999999999999999", "1e3", "0x1", "1_0", "١"}
	fracs := []string{"", ".", ".0", ".5", ".000000001", ".999999999", ".0000000001", ".9999999999", ".123456789", ".1234567890", ".000000000", ".0000000000", ".5e1", ".-5", ".+5", ". 5", "..5", ",5"}
	sufs := []string{"s", "s", "s", "S", "", "ss", " s", "s ", "m", "ms", "sec"}
	signs := []string{"", "", "-", "+", "--", "+-", " ", "- "}
	n := 0
	for _, sg := range signs {
		for _, ip := range ints {
			for _, fr := range fracs {
				for _, su := range sufs {
					n++
					if n%8 == b.N {
						c23DurStr(c, sg+ip+fr+su, n)
					}
				}
			}
		}
	}
	for i := 0; i < c.Scale(4000, 80000); i++ {
		r := c.Rng(uint64(i))
		var sb strings.Builder
		sb.WriteString([]string{"", "", "-", "+"}[r.Intn(4)])
		if !r.Chance(1, 6) {
			nd := 1 + r.Intn(13)
			for j := 0; j < nd; j++ {
				d := r.Intn(10)
				if j == 0 && nd > 1 && !r.Chance(1, 10) && d == 0 {
					d = 3
				}
				sb.WriteByte(byte('0' + d))
			}
		}
		if r.Chance(2, 3) {
			sb.WriteByte('.')
			nf := r.Intn(12)
			for j := 0; j < nf; j++ {
				sb.WriteByte(byte('0' + r.Intn(10)))
			}
		}
		sb.WriteByte('s')
		c23DurStr(c, sb.String(), i)
	}
}

func c23TSStr(c *core.Ctx, s string, via int, tag string) {
	c.Eval()
	c.Count("ts_str")
	c.DistinctStr("t/" + s)
	ws, wn, wv := model.ParseTimestampRef(s)
	c.Log("C23 timestamp string %q", s)
	var ts timestamppb.Timestamp
	var err error
	q := jsonQuote(s)
	ok := c.NoPanic("timestamp:parse-panic", map[string]any{"s": s}, func() {
		if via%2 == 0 {
			err = protojson.Unmarshal([]byte(q), &ts)
		} else {
			m := gen.TypeByName("pb2.KnownTypes").New()
			err = protojson.Unmarshal([]byte(`{"optTimestamp":`+q+`}`), m.Interface())
			d := m.Get(m.Descriptor().Fields().ByName("opt_timestamp")).Message()
			ts.Seconds, ts.Nanos = d.Get(d.Descriptor().Fields().ByName("seconds")).Int(), int32(d.Get(d.Descriptor().Fields().ByName("nanos")).Int())
		}
	})
	if !ok {
		return
	}
	switch wv {
	case model.TSDontCare:
		c.Count("ts_str_dontcare")
		return
	case model.TSAccept:
		c.Count("ts_str_accept")
	default:
		c.Count("ts_str_reject")
	}
	want := wv == model.TSAccept
	if (err == nil) != want {
		c.Violation(fmt.Sprintf("timestamp:parse:want-accept=%v:%s", want, tag), map[string]any{"s": s, "err": errStr(err)})
		return
	}
	if want && (ts.Seconds != ws || ts.Nanos != wn) {
		c.Violation("timestamp:parse-value:"+tag, map[string]any{"s": s, "got": []int64{ts.Seconds, int64(ts.Nanos)}, "want": []int64{ws, int64(wn)}})
	}
	if want && c.WantSample() && strings.Contains(s, ".") && !strings.HasSuffix(s, "Z") {
		c.Sample(map[string]any{"timestamp_string": s, "seconds": ts.Seconds, "nanos": ts.Nanos})
	}
}

func c23TimestampStrings(c *core.Ctx, b core.Batch) {
	pick := func(r *core.Rand, valid []string, invalid []string, tag *string, name string) string {
		if len(invalid) > 0 && *tag == "" && r.Chance(1, 9) {
			*tag = name
			return invalid[r.Intn(len(invalid))]
		}
		return valid[r.Intn(len(valid))]
	}
	two := func(lo, hi int) []string {
		var out []string
		for i := lo; i <= hi; i++ {
			out = append(out, fmt.Sprintf("%02d", i))
		}
		return out
	}
	years := []string{"0001", "0001", "9999", "9999", "1970", "2000", "1900", "2024", "2023", "1600", "0400", "0100", "1969", "2038", "0999"}
	for i := 0; i < c.Scale(40000, 600000); i++ {
		if i%4 != b.N {
			continue
		}
		r := c.Rng(uint64(i))
		tag := ""
		y := pick(r, years, []string{"0000", "10000", "999", "99", "-001", "+2000", "2O00", "20 0"}, &tag, "year")
		if tag == "" && r.Chance(1, 3) {
			y = fmt.Sprintf("%04d", 1+r.Intn(9999))
		}
		mo := pick(r, two(1, 12), []string{"00", "13", "1", "001", "1a", " 1"}, &tag, "month")
		d := pick(r, append(two(1, 28), "28", "29", "30", "31", "29", "30", "31"), []string{"00", "32", "1", "001", "3x"}, &tag, "day")
		sep := pick(r, []string{"T"}, []string{"t", " ", "", "_", "TT"}, &tag, "sep")
		h := pick(r, append(two(0, 23), "00", "23"), []string{"24", "1", "5", "001", "-1", " 1"}, &tag, "hour")
		mi := pick(r, append(two(0, 59), "00", "59"), []string{"60", "1", "001", "6 "}, &tag, "minute")
		se := pick(r, append(two(0, 59), "00", "59"), []string{"60", "61", "1", "001", "5."}, &tag, "second")
		nf := r.Intn(10)
		fr := ""
		if r.Chance(2, 3) && nf > 0 {
			fr = "."
			for j := 0; j < nf; j++ {
				fr += string(byte('0' + r.Intn(10)))
			}
		}
		if tag == "" && r.Chance(1, 8) {
			tag = "fraction"
			fr = []string{".", ",5", ",123", ",1234567891", ".1234567890", ".12345678901", ".000000000000", ",", ".5.5", ". 5", ".-5", ",000000000", ".1234567891"}[r.Intn(13)]
		}
		z := pick(r, []string{"Z", "Z", "Z", "+00:00", "-00:00", "+01:00", "-01:00", "+05:30", "-08:00", "+14:00", "-12:00", "+23:59", "-23:59", "+00:01", "-00:01"},
			[]string{"z", "", "+0100", "+01", "+1:00", "+01:0", "Z+01:00", "+24:00", "+00:60", "UTC", " Z", "+01:00Z", "-1:00", "+001:00", "+01.00", "ZZ"}, &tag, "zone")
		if tag == "" {
			tag = "wellformed"
		}
		c23TSStr(c, y+"-"+mo+"-"+d+sep+h+":"+mi+":"+se+fr+z, i, tag)
	}
	if b.N != 0 {
		return
	}
	// range edges and calendar limits
	fixed := []string{
		"0001-01-01T00:00:00Z", "0001-01-01T00:00:00+00:01", "0001-01-01T00:00:00-00:01", "0001-01-01T00:59:59+01:00", "0001-01-01T01:00:00+01:00", "0001-01-01T00:00:00.000000001Z",
		"9999-12-31T23:59:59Z", "9999-12-31T23:59:59.999999999Z", "9999-12-31T23:59:59-00:01", "9999-12-31T23:59:59+00:01", "9999-12-31T23:00:00-01:00", "9999-12-31T22:59:59-01:00", "9999-12-31T23:59:60Z",
		"0000-12-31T23:59:59Z", "0000-12-31T23:59:59-01:00", "10000-01-01T00:00:00Z", "2000-02-29T00:00:00Z", "1900-02-29T00:00:00Z", "2100-02-29T00:00:00Z", "2400-02-29T00:00:00Z", "2023-02-29T00:00:00Z", "2024-02-29T12:00:00Z", "2024-02-30T00:00:00Z",
		"2024-04-31T00:00:00Z", "2024-06-31T00:00:00Z", "2024-09-31T00:00:00Z", "2024-11-31T00:00:00Z", "2024-12-31T23:59:59Z", "2024-01-31T00:00:00Z",
		"2000-01-01T1:00:00Z", "2000-01-01T01:0:00Z", "2000-01-01T01:00:0Z", "2000-1-01T01:00:00Z", "2000-01-1T01:00:00Z", "2000-01-01T00:00:00,5Z", "2000-01-01T00:00:00,1234567891Z", "2000-01-01T00:00:00.1234567891Z",
		"2000-01-01T00:00:00", "2000-01-01 00:00:00Z", "2000-01-01T00:00:00z", "2000-01-01t00:00:00Z", " 2000-01-01T00:00:00Z", "2000-01-01T00:00:00Z ", "2000-01-01T00:00:00Z\n", "", "Z", "2000-01-01", "2000-01-01T00:00Z", "20000101T000000Z",
		"1970-01-01T00:00:00Z", "1969-12-31T23:59:59.999999999Z", "1970-01-01T00:00:00.000000000Z", "1970-01-01T00:00:00.0Z", "1970-01-01T00:00:00.Z", "1970-01-01T24:00:00Z", "1970-01-01T23:60:00Z",
	}
	for i, s := range fixed {
		c23TSStr(c, s, i, "fixed")
		c23TSStr(c, s, i+1, "fixed")
	}
}

func c23Pairs(c *core.Ctx) {
	reDur := regexp.MustCompile(`^-?(0|[1-9][0-9]*)(\.[0-9]{3}|\.[0-9]{6}|\.[0-9]{9})?s$`)
	reTS := regexp.MustCompile(`^[0-9]{4}-[0-9]{2}-[0-9]{2}T[0-9]{2}:[0-9]{2}:[0-9]{2}(\.[0-9]{3}|\.[0-9]{6}|\.[0-9]{9})?Z$`)
	secsB := []int64{0, 1, -1, 59, 60, 3600, 86399, 86400, model.MaxDurationSeconds, -model.MaxDurationSeconds, model.MaxDurationSeconds + 1, -model.MaxDurationSeconds - 1, model.MaxDurationSeconds - 1,
		model.MinTimestampSeconds, model.MinTimestampSeconds - 1, model.MinTimestampSeconds + 1, model.MaxTimestampSeconds, model.MaxTimestampSeconds + 1, model.MaxTimestampSeconds - 1, math.MaxInt64, math.MinInt64, 951782400, 951868800, -2208988800, 4107542400}
	nanosB := []int32{0, 1, -1, 999, 1000, 999999, 1000000, 100000000, 120000000, 123456789, 999999999, -999999999, 1000000000, -1000000000, math.MaxInt32, math.MinInt32, 500000000, -500000000, 999000000, 999999000}
	dur := func(s int64, n int32) {
		c.Eval()
		if s != 0 || n != 0 {
			c.DistinctStr(fmt.Sprintf("dp/%d/%d", s, n))
		}
		c.Log("C23 duration pair %d %d", s, n)
		valid := s >= -model.MaxDurationSeconds && s <= model.MaxDurationSeconds && n >= -999999999 && n <= 999999999 && !(s > 0 && n < 0) && !(s < 0 && n > 0)
		out, err := protojson.Marshal(&durationpb.Duration{Seconds: s, Nanos: n})
		if valid {
			c.Count("dur_pair_ok")
		} else {
			c.Count("dur_pair_bad")
		}
		if (err == nil) != valid {
			c.Violation(fmt.Sprintf("duration:marshal:want-ok=%v", valid), map[string]any{"secs": s, "nanos": n, "err": errStr(err), "out": string(out)})
			return
		}
		if !valid {
			return
		}
		var str string
		if json.Unmarshal(out, &str) != nil || !reDur.MatchString(str) {
			c.Violation("duration:marshal-form", map[string]any{"secs": s, "nanos": n, "out": string(out)})
			return
		}
		rs, rn, rok := model.ParseDurationRef(str)
		if !rok || rs != s || rn != n {
			c.Violation("duration:marshal-denotes-other-value", map[string]any{"secs": s, "nanos": n, "out": str, "denotes": []int64{rs, int64(rn)}})
		}
		var back durationpb.Duration
		if e := protojson.Unmarshal(out, &back); e != nil || back.Seconds != s || back.Nanos != n {
			c.Violation("duration:roundtrip", map[string]any{"secs": s, "nanos": n, "out": str, "err": errStr(e), "back": []int64{back.Seconds, int64(back.Nanos)}})
		}
		if c.WantSample() && n%1000 != 0 && s < -1000 {
			c.Sample(map[string]any{"duration": []int64{s, int64(n)}, "json": str})
		}
	}
	ts := func(s int64, n int32) {
		c.Eval()
		if s != 0 || n != 0 {
			c.DistinctStr(fmt.Sprintf("tp/%d/%d", s, n))
		}
		c.Log("C23 timestamp pair %d %d", s, n)
		valid := s >= model.MinTimestampSeconds && s <= model.MaxTimestampSeconds && n >= 0 && n <= 999999999
		out, err := protojson.Marshal(&timestamppb.Timestamp{Seconds: s, Nanos: n})
		if valid {
			c.Count("ts_pair_ok")
		} else {
			c.Count("ts_pair_bad")
		}
		if (err == nil) != valid {
			c.Violation(fmt.Sprintf("timestamp:marshal:want-ok=%v", valid), map[string]any{"secs": s, "nanos": n, "err": errStr(err), "out": string(out)})
			return
		}
		if !valid {
			return
		}
		var str string
		if json.Unmarshal(out, &str) != nil || !reTS.MatchString(str) {
			c.Violation("timestamp:marshal-form", map[string]any{"secs": s, "nanos": n, "out": string(out)})
			return
		}
		rs, rn, rv := model.ParseTimestampRef(str)
		if rv != model.TSAccept || rs != s || rn != n {
			c.Violation("timestamp:marshal-denotes-other-instant", map[string]any{"secs": s, "nanos": n, "out": str, "denotes": []int64{rs, int64(rn)}})
		}
		var back timestamppb.Timestamp
		if e := protojson.Unmarshal(out, &back); e != nil || back.Seconds != s || back.Nanos != n {
			c.Violation("timestamp:roundtrip", map[string]any{"secs": s, "nanos": n, "out": str, "err": errStr(e), "back": []int64{back.Seconds, int64(back.Nanos)}})
		}
	}
	for _, s := range secsB {
		for _, n := range nanosB {
			dur(s, n)
			ts(s, n)
		}
	}
	for i := 0; i < c.Scale(20000, 400000); i++ {
		r := c.Rng(uint64(i))
		var s int64
		switch r.Intn(4) {
		case 0:
			s = secsB[r.Intn(len(secsB))] + int64(r.Intn(5)-2)
		case 1:
			s = int64(r.Uint64()%(2*model.MaxDurationSeconds+1)) - model.MaxDurationSeconds
		case 2:
			s = model.MinTimestampSeconds + int64(r.Uint64()%(model.MaxTimestampSeconds-model.MinTimestampSeconds+1))
		default:
			s = int64(r.Uint64Boundary())
		}
		var n int32
		switch r.Intn(4) {
		case 0:
			n = nanosB[r.Intn(len(nanosB))]
		case 1:
			n = int32(r.Intn(1000000000))
		case 2:
			n = -int32(r.Intn(1000000000))
		default:
			n = int32(r.Intn(1000)) * 1000000
		}
		if r.Bool() && s < 0 && n > 0 {
			n = -n
		}
		dur(s, n)
		if n < 0 && r.Bool() {
			n = -n
		}
		ts(s, n)
	}
}

func c23FieldMask(c *core.Ctx) {
	comps := []string{"a", "foo", "foo_bar", "fooBar", "foo__bar", "_foo", "foo_", "foo_1", "f1", "1f", "foo_b", "a_b_c", "ab_cD", "", "a b", "a-b", "é", "foo_Bar", "x.y", "x..y", ".x", "x.", "user.display_name", "a.b_c.d_e"}
	for i := 0; i < c.Scale(6000, 100000); i++ {
		r := c.Rng(uint64(i))
		n := r.Intn(4)
		var paths []string
		allOK := true
		var jsons []string
		for j := 0; j < n; j++ {
			var p string
			if r.Chance(1, 3) {
				p = comps[r.Intn(len(comps))] + "." + comps[r.Intn(len(comps))]
			} else {
				p = comps[r.Intn(len(comps))]
			}
			if r.Chance(1, 5) { // random small-alphabet path
				al := "ab_.B1"
				k := 1 + r.Intn(5)
				bs := make([]byte, k)
				for x := range bs {
					bs[x] = al[r.Intn(len(al))]
				}
				p = string(bs)
			}
			paths = append(paths, p)
			js, ok := model.FieldMaskPathToJSON(p)
			allOK = allOK && ok
			jsons = append(jsons, js)
		}
		c.Eval()
		c.DistinctStr("fm/" + strings.Join(paths, "|"))
		c.Log("C23 fieldmask marshal %q", paths)
		out, err := protojson.Marshal(&fieldmaskpb.FieldMask{Paths: paths})
		if allOK {
			c.Count("fm_marshal_ok")
		} else {
			c.Count("fm_marshal_bad")
		}
		if (err == nil) != allOK {
			c.Violation(fmt.Sprintf("fieldmask:marshal:want-ok=%v", allOK), map[string]any{"paths": paths, "err": errStr(err), "out": string(out)})
			continue
		}
		if !allOK {
			continue
		}
		var str string
		if json.Unmarshal(out, &str) != nil || str != strings.Join(jsons, ",") {
			c.Violation("fieldmask:marshal-form", map[string]any{"paths": paths, "out": string(out), "want": strings.Join(jsons, ",")})
			continue
		}
		var back fieldmaskpb.FieldMask
		if e := protojson.Unmarshal(out, &back); e != nil || strings.Join(back.Paths, "|") != strings.Join(paths, "|") {
			c.Violation("fieldmask:roundtrip", map[string]any{"paths": paths, "out": str, "err": errStr(e), "back": back.Paths})
		}
		if c.WantSample() && n > 1 {
			c.Sample(map[string]any{"paths": paths, "json": str})
		}
	}
	// parse direction: all strings up to length 4/5 over a small alphabet
	al := "aB_.,1"
	var rec func(p []byte)
	rec = func(p []byte) {
		s := string(p)
		c.Eval()
		c.DistinctStr("fmp/" + s)
		// reference
		want := true
		var wantPaths []string
		if strings.TrimSpace(s) != "" {
			for _, j := range strings.Split(s, ",") {
				sp, ok := model.FieldMaskPathFromJSON(j)
				if !ok {
					want = false
					break
				}
				wantPaths = append(wantPaths, sp)
			}
		}
		var fm fieldmaskpb.FieldMask
		err := protojson.Unmarshal([]byte(jsonQuote(s)), &fm)
		if want {
			c.Count("fm_parse_ok")
		} else {
			c.Count("fm_parse_bad")
		}
		if (err == nil) != want {
			c.Violation(fmt.Sprintf("fieldmask:parse:want-accept=%v", want), map[string]any{"s": s, "err": errStr(err)})
		} else if want && strings.Join(fm.Paths, "|") != strings.Join(wantPaths, "|") {
			c.Violation("fieldmask:parse-value", map[string]any{"s": s, "got": fm.Paths, "want": wantPaths})
		}
		if len(p) == c.Scale(4, 6) {
			return
		}
		for i := 0; i < len(al); i++ {
			rec(append(p, al[i]))
		}
	}
	rec(nil)
}

// c23Forms: the JSON *form* of wrappers, Struct/Value/ListValue, Empty and Any.
func c23Forms(c *core.Ctx) {
	kindOf := func(raw []byte) string {
		var v any
		if json.Unmarshal(raw, &v) != nil {
			return "invalid"
		}
		switch v.(type) {
		case nil:
			return "null"
		case bool:
			return "bool"
		case float64:
			return "number"
		case string:
			return "string"
		case []any:
			return "array"
		case map[string]any:
			return "object"
		}
		return "?"
	}
	expect := func(m proto.Message, want string, what string) []byte {
		c.Eval()
		c.Count("forms")
		out, err := protojson.Marshal(m)
		if err != nil {
			c.Violation("forms:marshal-error:"+what, map[string]any{"err": errStr(err)})
			return nil
		}
		c.DistinctStr(what + string(out))
		if got := kindOf(out); got != want {
			c.Violation("forms:json-kind:"+what, map[string]any{"out": clip(string(out), 300), "got": got, "want": want})
			return nil
		}
		back := m.ProtoReflect().New().Interface()
		eq := func() bool {
			// Any payload bytes are not canonical (map order): compare the unpacked messages
			if a, ok := m.(*anypb.Any); ok {
				x, e1 := a.UnmarshalNew()
				y, e2 := back.(*anypb.Any).UnmarshalNew()
				return e1 == nil && e2 == nil && proto.Equal(x, y) && a.TypeUrl == back.(*anypb.Any).TypeUrl
			}
			return proto.Equal(m, back)
		}
		if e := protojson.Unmarshal(out, back); e != nil || !eq() {
			c.Violation("forms:roundtrip:"+what, map[string]any{"out": clip(string(out), 300), "err": errStr(e)})
		}
		return out
	}
	for i := 0; i < c.Scale(300, 6000); i++ {
		r := c.Rng(uint64(i))
		expect(wrapperspb.Bool(r.Bool()), "bool", "BoolValue")
		expect(wrapperspb.Int32(int32(r.Uint64Boundary())), "number", "Int32Value")
		expect(wrapperspb.UInt32(uint32(r.Uint64Boundary())), "number", "UInt32Value")
		expect(wrapperspb.Int64(int64(r.Uint64Boundary())), "string", "Int64Value")
		expect(wrapperspb.UInt64(r.Uint64Boundary()), "string", "UInt64Value")
		f := gen.RandFloat64(r, gen.MsgOpts{})
		if math.IsNaN(f) || math.IsInf(f, 0) {
			expect(wrapperspb.Double(f), "string", "DoubleValue-nonfinite")
		} else {
			expect(wrapperspb.Double(f), "number", "DoubleValue")
		}
		f32 := gen.RandFloat32(r, gen.MsgOpts{})
		if f32 != f32 || math.IsInf(float64(f32), 0) {
			expect(wrapperspb.Float(f32), "string", "FloatValue-nonfinite")
		} else {
			expect(wrapperspb.Float(f32), "number", "FloatValue")
		}
		expect(wrapperspb.String(gen.RandString(r, true)), "string", "StringValue")
		expect(wrapperspb.Bytes(gen.RandBytes(r)), "string", "BytesValue")
		expect(&emptypb.Empty{}, "object", "Empty")
		// Value / Struct / ListValue
		v := &structpb.Value{}
		gen.Fill(r, v.ProtoReflect(), gen.MsgOpts{JSONSafe: true, MaxDepth: 3})
		want := map[string]string{"null_value": "null", "number_value": "number", "string_value": "string", "bool_value": "bool", "struct_value": "object", "list_value": "array"}
		if od := v.ProtoReflect().WhichOneof(v.ProtoReflect().Descriptor().Oneofs().ByName("kind")); od != nil {
			out := expect(v, want[string(od.Name())], "Value/"+string(od.Name()))
			if out != nil && od.Name() == "struct_value" {
				var mm map[string]json.RawMessage
				json.Unmarshal(out, &mm)
				if len(mm) != len(v.GetStructValue().GetFields()) {
					c.Violation("forms:struct-key-count", map[string]any{"out": clip(string(out), 300)})
				}
			}
			if out != nil && od.Name() == "list_value" {
				var ll []json.RawMessage
				json.Unmarshal(out, &ll)
				if len(ll) != len(v.GetListValue().GetValues()) {
					c.Violation("forms:list-length", map[string]any{"out": clip(string(out), 300)})
				}
			}
		}
		// Any: ordinary message => fields flattened next to @type; WKT with a special form => {"@type":..., "value": form}
		inners := []proto.Message{wrapperspb.Int64(int64(r.Uint64())), durationpb.New(1500000000), v, &emptypb.Empty{}, &fieldmaskpb.FieldMask{Paths: []string{"a_b"}}}
		tm := gen.TypeByName("goproto.proto.test3.TestAllTypes").New()
		gen.Fill(r, tm, gen.MsgOpts{JSONSafe: true, MaxDepth: 1, Density: 20})
		inners = append(inners, tm.Interface())
		for k, in := range inners {
			if !in.ProtoReflect().IsValid() {
				continue
			}
			if vv, ok := in.(*structpb.Value); ok && vv.GetKind() == nil {
				continue
			}
			a, err := anypb.New(in)
			if err != nil {
				continue
			}
			out := expect(a, "object", fmt.Sprintf("Any/%s", in.ProtoReflect().Descriptor().FullName()))
			if out == nil {
				continue
			}
			var mm map[string]json.RawMessage
			json.Unmarshal(out, &mm)
			var url string
			json.Unmarshal(mm["@type"], &url)
			if url != a.TypeUrl {
				c.Violation("forms:any-type-url", map[string]any{"out": clip(string(out), 300)})
			}
			innerOut, _ := protojson.Marshal(in)
			special := k < 5 && in.ProtoReflect().Descriptor().FullName() != "google.protobuf.Empty"
			if special {
				var a1, a2 any
				json.Unmarshal(mm["value"], &a1)
				json.Unmarshal(innerOut, &a2)
				if len(mm) != 2 || fmt.Sprint(a1) != fmt.Sprint(a2) {
					c.Violation("forms:any-wkt-value-form:"+string(in.ProtoReflect().Descriptor().FullName()), map[string]any{"out": clip(string(out), 300), "inner": clip(string(innerOut), 200)})
				}
			} else {
				var im map[string]json.RawMessage
				json.Unmarshal(innerOut, &im)
				if len(mm) != len(im)+1 {
					c.Violation("forms:any-flattened-fields:"+string(in.ProtoReflect().Descriptor().FullName()), map[string]any{"out": clip(string(out), 300), "inner": clip(string(innerOut), 200)})
				}
			}
		}
	}
	// Empty accepts only {}
	for _, doc := range []string{`{"a":1}`, `[]`, `null`, `""`, `0`} {
		c.Eval()
		var e emptypb.Empty
		if err := protojson.Unmarshal([]byte(doc), &e); err == nil && doc != "null" {
			c.Violation("forms:empty-accepts:"+doc, nil)
		}
	}
	var _ protoreflect.Message
}
