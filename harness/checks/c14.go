package checks

import (
	"bufio"
	"bytes"
	"fmt"
	"io"

	"google.golang.org/protobuf/encoding/protodelim"
	"google.golang.org/protobuf/proto"
	"google.golang.org/protobuf/reflect/protoreflect"
	"google.golang.org/protobuf/verif/core"
	"google.golang.org/protobuf/verif/gen"
)

func init() {
	core.Register(&core.Check{
		ID:     "C14",
		Rule:   "cases: for every linked type: (a) decode (lazy before any access, eager, dynamicpb) then overwrite the whole input buffer; (b) Clone then hostile mutation of the source (in-place writes into byte slices obtained from Get, list Set, map Set, scalar writes in submessages, in-place writes into GetUnknown bytes) and vice versa; (c) Merge(dst,src) then the same mutation of src; (d) protodelim.UnmarshalFrom from bufio readers of several sizes and from a reader that scribbles over its buffer after every read; oracle: deterministic bytes (and snapshot) of the message that must not share are unchanged; distinct = distinct (type, scenario, bytes); non-trivial = message holds at least one bytes/string/list/map/submessage/unknown value",
		Assume: []string{"deterministic bytes identify content (C05)", "a mutation through Get()/GetUnknown slices is visible if memory is shared"},
		Batches: func(tier string) []core.Batch {
			if tier == "thorough" {
				return append(stdBatches([]string{"base"}, 16), stdBatches([]string{"race", "asan"}, 4)...)
			}
			return stdBatches([]string{"base"}, 16)
		},
		Gates: func(tier string) map[string]int64 {
			return map[string]int64{"scenario:buffer-overwrite-lazy": 1000, "scenario:clone-mutate-source": 2000, "scenario:merge-mutate-source": 2000, "scenario:protodelim": 1000, "scribbled_bytes_values": 2000, "scribbled_unknown": 300}
		},
		Run: runC14,
	})
}

// scribble mutates everything reachable from m that a sharing copy would see.
func scribble(c *core.Ctx, r *core.Rand, m protoreflect.Message, depth int) {
	flip := func(b []byte) {
		for i := range b {
			b[i] ^= 0xa5
		}
		if len(b) > 0 {
			c.Count("scribbled_bytes_values")
		}
	}
	m.Range(func(fd protoreflect.FieldDescriptor, v protoreflect.Value) bool {
		switch {
		case fd.IsMap():
			vd := fd.MapValue()
			v.Map().Range(func(k protoreflect.MapKey, mv protoreflect.Value) bool {
				switch {
				case vd.Message() != nil:
					if depth < 4 {
						scribble(c, r, mv.Message(), depth+1)
					}
				case vd.Kind() == protoreflect.BytesKind:
					flip(mv.Bytes())
				}
				return true
			})
			// overwrite one entry
			var first protoreflect.MapKey
			v.Map().Range(func(k protoreflect.MapKey, _ protoreflect.Value) bool { first = k; return false })
			if first.IsValid() && vd.Message() == nil {
				v.Map().Set(first, gen.RandScalar(r, vd, gen.MsgOpts{}))
			}
		case fd.IsList():
			l := v.List()
			for i := 0; i < l.Len(); i++ {
				switch {
				case fd.Message() != nil:
					if depth < 4 {
						scribble(c, r, l.Get(i).Message(), depth+1)
					}
				case fd.Kind() == protoreflect.BytesKind:
					flip(l.Get(i).Bytes())
				default:
					l.Set(i, gen.RandScalar(r, fd, gen.MsgOpts{}))
				}
			}
		case fd.Message() != nil:
			if depth < 4 {
				scribble(c, r, v.Message(), depth+1)
			}
		case fd.Kind() == protoreflect.BytesKind:
			flip(v.Bytes())
		default:
			m.Set(fd, gen.RandScalar(r, fd, gen.MsgOpts{}))
		}
		return true
	})
	if u := m.GetUnknown(); len(u) > 0 {
		// in-place: keep it well-formed by only touching varint payload bytes is not needed;
		// sharing is what matters, so flip the last byte's low bit of a copy-free view
		u[len(u)-1] ^= 0x01
		c.Count("scribbled_unknown")
	}
}

// scribbleReader hands out short reads and overwrites its own already
// consumed source bytes (memory a correct consumer must not depend on).
type scribbleReader struct {
	all  []byte
	pos  int
	done int
}

func (s *scribbleReader) Read(p []byte) (int, error) {
	for ; s.done < s.pos; s.done++ {
		s.all[s.done] = 0xee
	}
	if s.pos >= len(s.all) {
		return 0, io.EOF
	}
	n := copy(p, s.all[s.pos:])
	if n > 7 {
		n = 7
	}
	s.pos += n
	return n, nil
}

func runC14(c *core.Ctx, b core.Batch) {
	nb := 16
	if b.Cfg != "base" {
		nb = 4
	}
	types := shard(codecTypes(b), b.N, nb)
	per := c.Scale(10, 120)
	if b.Cfg != "base" {
		per = c.Scale(3, 20)
	}
	for ti, mt := range types {
		name := string(mt.Descriptor().FullName())
		keeps := gen.KeepsUnknown(mt.New())
		for k := 0; k < per; k++ {
			r := c.Rng(uint64(ti)<<24 | uint64(k))
			fo := fillOptsFor(k)
			fo.Unknown = keeps
			fo.NoRequired = true
			fo.Density += 20
			src := mt.New()
			gen.Fill(r, src, fo)
			enc, err := detBytes(src)
			if err != nil || len(enc) == 0 {
				continue
			}
			want := snapOf(src).String()
			c.DistinctBytes([]byte(name), enc)
			detail := func(sc string) map[string]any {
				return map[string]any{"type": name, "scenario": sc, "wire": core.Hex(enc)}
			}
			c.Log("C14 type=%s wire=%s", name, core.Hex(enc))
			check := func(sc string, m protoreflect.Message) {
				c.Eval()
				c.Count("scenario:" + sc)
				got, err := detBytes(m)
				if err != nil || !bytes.Equal(got, enc) {
					d := detail(sc)
					d["after"] = core.Hex(got)
					gs := snapOf(m)
					c.Violation("alias:"+sc+":"+firstDiffOrType(snapOf(reDecode(mt, enc)), gs, name), d)
				} else if s := snapOf(m).String(); s != want {
					c.Violation("alias:"+sc+":snapshot:"+name, detail(sc))
				}
			}
			c.NoPanic("alias:panic:"+name, detail("any"), func() {
				// (a) buffer overwrite after decode
				for _, v := range []struct {
					sc     string
					nolazy bool
					dyn    bool
				}{{"buffer-overwrite-lazy", false, false}, {"buffer-overwrite-eager", true, false}, {"buffer-overwrite-dynamic", false, true}} {
					in := append([]byte{}, enc...)
					m := newOf(mt, v.dyn)
					if err := (proto.UnmarshalOptions{AllowPartial: true, NoLazyDecoding: v.nolazy}).Unmarshal(in, m.Interface()); err != nil {
						c.Violation("alias:decode-error:"+name, detail(v.sc))
						continue
					}
					for i := range in {
						in[i] = ^in[i]
					}
					check(v.sc, m)
				}
				// (a') merge-decode into a destination that already holds content
				// (the top level is then decoded eagerly, nested lazy fields still defer), then overwrite the input
				for vi, nolazy0 := range []bool{true, false} {
					src0 := mt.New()
					fo0 := fo
					fo0.Density = 15
					gen.Fill(r, src0, fo0)
					enc0, err0 := detBytes(src0)
					if err0 != nil {
						continue
					}
					ref := mt.New()
					dst := mt.New()
					if (proto.UnmarshalOptions{AllowPartial: true, NoLazyDecoding: true}).Unmarshal(append([]byte{}, enc0...), ref.Interface()) != nil {
						continue
					}
					if (proto.UnmarshalOptions{AllowPartial: true, NoLazyDecoding: nolazy0}).Unmarshal(append([]byte{}, enc0...), dst.Interface()) != nil {
						continue
					}
					if (proto.UnmarshalOptions{AllowPartial: true, NoLazyDecoding: true, Merge: true}).Unmarshal(append([]byte{}, enc...), ref.Interface()) != nil {
						continue
					}
					in := append([]byte{}, enc...)
					if err := (proto.UnmarshalOptions{AllowPartial: true, Merge: true}).Unmarshal(in, dst.Interface()); err != nil {
						c.Violation("alias:merge-decode-error:"+name, detail("merge-decode"))
						continue
					}
					for i := range in {
						in[i] = ^in[i]
					}
					c.Eval()
					sc := []string{"merge-decode-into-populated-overwrite", "merge-decode-into-lazy-populated-overwrite"}[vi]
					c.Count("scenario:" + sc)
					wantB, _ := detBytes(ref)
					gotB, gerr := detBytes(dst)
					if gerr != nil || !bytes.Equal(wantB, gotB) {
						d := detail(sc)
						d["wire0"] = core.Hex(enc0)
						d["after"] = core.Hex(gotB)
						c.Violation("alias:"+sc+":"+firstDiffOrType(snapOf(ref), snapOf(dst), name), d)
					}
				}
				// (b) clone then mutate source, and the reverse
				{
					s1 := reDecode(mt, enc)
					cl := proto.Clone(s1.Interface()).ProtoReflect()
					scribble(c, r, s1, 0)
					check("clone-mutate-source", cl)
					s2 := reDecode(mt, enc)
					cl2 := proto.Clone(s2.Interface()).ProtoReflect()
					scribble(c, r, cl2, 0)
					check("clone-mutate-clone", s2)
					// clone of a lazily decoded, unaccessed source
					s3 := mt.New()
					proto.UnmarshalOptions{AllowPartial: true}.Unmarshal(enc, s3.Interface())
					cl3 := proto.Clone(s3.Interface()).ProtoReflect()
					scribble(c, r, s3, 0)
					check("clone-of-lazy-mutate-source", cl3)
				}
				// (c) merge then mutate source
				for _, dyn := range []bool{false, true} {
					dst := newOf(mt, dyn)
					s := reDecode(mt, enc)
					proto.Merge(dst.Interface(), s.Interface())
					scribble(c, r, s, 0)
					check("merge-mutate-source", dst)
				}
				// (d) protodelim
				var stream bytes.Buffer
				protodelim.MarshalOptions{MarshalOptions: proto.MarshalOptions{AllowPartial: true, Deterministic: true}}.MarshalTo(&stream, src.Interface())
				protodelim.MarshalOptions{MarshalOptions: proto.MarshalOptions{AllowPartial: true, Deterministic: true}}.MarshalTo(&stream, src.Interface())
				raw := stream.Bytes()
				for _, sz := range []int{16, 17, 64, 4096} {
					buf := append([]byte{}, raw...)
					br := bufio.NewReaderSize(bytes.NewReader(buf), sz)
					m1 := mt.New()
					uo := protodelim.UnmarshalOptions{UnmarshalOptions: proto.UnmarshalOptions{AllowPartial: true}}
					if err := uo.UnmarshalFrom(br, m1.Interface()); err != nil {
						c.Violation("alias:protodelim-error:"+name, detail(fmt.Sprint("protodelim-bufio-", sz)))
						continue
					}
					// read on: the second message reuses the reader's internal buffer
					m2 := mt.New()
					uo.UnmarshalFrom(br, m2.Interface())
					for i := range buf {
						buf[i] = 0x55
					}
					check("protodelim", m1)
				}
				sr := &scribbleReader{all: append([]byte{}, raw...)}
				br := bufio.NewReaderSize(sr, 32)
				m1 := mt.New()
				if err := (protodelim.UnmarshalOptions{UnmarshalOptions: proto.UnmarshalOptions{AllowPartial: true}}).UnmarshalFrom(br, m1.Interface()); err == nil {
					m2 := mt.New()
					protodelim.UnmarshalOptions{UnmarshalOptions: proto.UnmarshalOptions{AllowPartial: true}}.UnmarshalFrom(br, m2.Interface())
					check("protodelim-scribbling-reader", m1)
				} else {
					c.Violation("alias:protodelim-error:"+name, detail("protodelim-scribbling-reader"))
				}
			})
			if c.WantSample() && len(enc) > 10 {
				c.Sample(map[string]any{"type": name, "wire": core.Hex(enc), "scenarios": "buffer-overwrite x3, clone x3, merge x2, protodelim x5"})
			}
		}
	}
}

func reDecode(mt protoreflect.MessageType, enc []byte) protoreflect.Message {
	m := mt.New()
	proto.UnmarshalOptions{AllowPartial: true, NoLazyDecoding: true}.Unmarshal(append([]byte{}, enc...), m.Interface())
	return m
}
