package checks

import (
	"bytes"
	"fmt"
	"strings"

	"google.golang.org/protobuf/proto"
	"google.golang.org/protobuf/reflect/protoreflect"
	"google.golang.org/protobuf/verif/core"
	"google.golang.org/protobuf/verif/gen"
	"google.golang.org/protobuf/verif/model"
)

func init() {
	core.Register(&core.Check{
		ID:     "C08",
		Rule:   "cases: for every linked type, well-formed and mutated wire inputs and PRNG-filled message pairs; (i) in process: generated type (table-driven fast path) vs dynamicpb of the same descriptor (reflection path); (ii) across builds: default build vs -tags protoreflect (and protolegacy variants in thorough), per-case result records joined offline by case id. Compared: Unmarshal verdict, snapshot, Size, deterministic bytes (when unknown fields are byte-identical), CheckInitialized verdict, Equal matrix, Merge and Clone snapshots; distinct = distinct (type,input); non-trivial = non-empty input",
		Assume: []string{"snapshot model", "case generation independent of build tags (seeded, descriptor-driven)"},
		Batches: func(tier string) []core.Batch {
			cfgs := []string{"base", "refl"}
			if tier == "thorough" {
				cfgs = []string{"base", "refl", "legacy", "legacyrefl"}
			}
			var bs []core.Batch
			for _, cfg := range cfgs {
				for i := 0; i < 8; i++ {
					bs = append(bs, core.Batch{Cfg: cfg, Name: fmt.Sprintf("%s-%02d", cfg, i), Kind: "std", N: i})
				}
			}
			return bs
		},
		Gates: func(tier string) map[string]int64 {
			return map[string]int64{"inproc_compares": 10000, "xbuild_joined": 10000, "accepted": 3000, "rejected": 3000, "limit_rejections": 300, "bytes_compared": 2000}
		},
		Run:  runC08,
		Post: postC08,
	})
}

func unknownIdentical(a, b protoreflect.Message) bool {
	same := true
	var walk func(x, y protoreflect.Message)
	walk = func(x, y protoreflect.Message) {
		if !same {
			return
		}
		if !bytes.Equal(x.GetUnknown(), y.GetUnknown()) {
			same = false
			return
		}
		x.Range(func(fd protoreflect.FieldDescriptor, v protoreflect.Value) bool {
			if fd.Message() == nil {
				return true
			}
			if !y.Has(fd) {
				same = false
				return false
			}
			w := y.Get(fd)
			switch {
			case fd.IsMap():
				if fd.MapValue().Message() == nil {
					return true
				}
				v.Map().Range(func(k protoreflect.MapKey, mv protoreflect.Value) bool {
					if !w.Map().Has(k) {
						same = false
						return false
					}
					walk(mv.Message(), w.Map().Get(k).Message())
					return same
				})
			case fd.IsList():
				if v.List().Len() != w.List().Len() {
					same = false
					return false
				}
				for i := 0; i < v.List().Len(); i++ {
					walk(v.List().Get(i).Message(), w.List().Get(i).Message())
				}
			default:
				walk(v.Message(), w.Message())
			}
			return same
		})
	}
	walk(a, b)
	return same
}

type c08Obs struct {
	strict   bool // Unmarshal without AllowPartial failed
	limited  bool // Unmarshal with a small RecursionLimit failed
	errd     bool
	snap     string
	size     int
	det      []byte
	initOK   bool
	cloneEq  bool
	cloneSnp string
}

func c08Observe(c *core.Ctx, mt protoreflect.MessageType, dyn bool, in []byte, fpName string, discard bool, limit int) (o c08Obs, m protoreflect.Message, ok bool) {
	m = newOf(mt, dyn)
	c.NoPanic(fmt.Sprintf("paths:panic-strict:dyn=%v:%s", dyn, fpName), map[string]any{"input": core.Hex(in)}, func() {
		o.strict = proto.UnmarshalOptions{DiscardUnknown: discard}.Unmarshal(in, newOf(mt, dyn).Interface()) != nil
		o.limited = proto.UnmarshalOptions{AllowPartial: true, DiscardUnknown: discard, RecursionLimit: limit}.Unmarshal(in, newOf(mt, dyn).Interface()) != nil
	})
	ok = c.NoPanic(fmt.Sprintf("paths:panic:dyn=%v:%s", dyn, fpName), map[string]any{"input": core.Hex(in)}, func() {
		err := proto.UnmarshalOptions{AllowPartial: true, DiscardUnknown: discard}.Unmarshal(in, m.Interface())
		o.errd = err != nil
		if err != nil {
			return
		}
		o.snap = snapOf(m).String()
		o.size = proto.Size(m.Interface())
		o.det, _ = detBytes(m)
		o.initOK = proto.CheckInitialized(m.Interface()) == nil
		cl := proto.Clone(m.Interface())
		o.cloneEq = proto.Equal(cl, m.Interface())
		o.cloneSnp = snapOf(cl.ProtoReflect()).String()
	})
	return
}

func runC08(c *core.Ctx, b core.Batch) {
	all := codecTypes(core.Batch{Cfg: "base"}) // same list in every build: MessageSet types only in legacy cfgs
	if legacyBuild(b) {
		all = codecTypes(b)
	}
	types := shard(all, b.N, 8)
	per := c.Scale(24, 250)
	for _, mt := range types {
		name := string(mt.Descriptor().FullName())
		keeps := gen.KeepsUnknown(mt.New())
		for k := 0; k < per; k++ {
			r := core.NewRand(c.Seed, 0xC08, core.HashStr(name), uint64(k))
			fo := fillOptsFor(k)
			fo.NoRequired = k%2 == 0
			fo.Unknown = keeps
			var ops []string
			hist := func(s string) { ops = append(ops, s) }
			in := gen.ValidWire(r, mt, fo, r.Intn(4), hist)
			if k%3 == 1 {
				if r.Bool() {
					in = gen.ConfuseWire(r, in, mt.Descriptor(), hist)
				} else {
					for i := 0; i < 1+r.Intn(2); i++ {
						in = gen.Mutate(r, in, hist)
					}
				}
			}
			in2 := gen.ValidWire(r, mt, fo, r.Intn(2), nil)
			c.Log("C08 type=%s in=%s in2=%s", name, core.Hex(in), core.Hex(in2))
			c.Eval()
			if len(in) > 0 {
				c.DistinctBytes([]byte(name), in)
			}
			// (i) in-process: generated vs dynamicpb
			og, mg, ok1 := c08Observe(c, mt, false, in, name, !keeps, 1+k%4)
			od, md, ok2 := c08Observe(c, mt, true, in, name, !keeps, 1+k%4)
			if !ok1 || !ok2 {
				continue
			}
			c.Count("inproc_compares")
			if og.errd {
				c.Count("rejected")
			} else {
				c.Count("accepted")
			}
			detail := func() map[string]any {
				return map[string]any{"type": name, "input": core.Hex(in), "ops": ops}
			}
			if c.WantSample() && len(in) > 4 && k%3 == 1 {
				c.Sample(map[string]any{"type": name, "input": core.Hex(in), "ops": ops, "rejected": og.errd})
			}
			if og.errd != od.errd {
				d := detail()
				d["generated_rejects"], d["dynamic_rejects"] = og.errd, od.errd
				c.Violation(fmt.Sprintf("paths:verdict:gen-rejects=%v:%s", og.errd, name), d)
				continue
			}
			if og.strict != od.strict {
				d := detail()
				d["generated_rejects"], d["dynamic_rejects"] = og.strict, od.strict
				c.Violation(fmt.Sprintf("paths:verdict-without-AllowPartial:gen-rejects=%v:%s", og.strict, name), d)
			}
			if og.limited != od.limited {
				d := detail()
				d["generated_rejects"], d["dynamic_rejects"], d["limit"] = og.limited, od.limited, 1+k%4
				c.Violation(fmt.Sprintf("paths:verdict-recursion-limit:gen-rejects=%v:%s", og.limited, name), d)
			}
			if og.limited && !og.errd {
				c.Count("limit_rejections")
			}
			rec := fmt.Sprintf("err=%v strict=%v limited=%v", og.errd, og.strict, og.limited)
			if !og.errd {
				if og.snap != od.snap {
					d := detail()
					d["generated"], d["dynamic"] = clip(og.snap, 1500), clip(od.snap, 1500)
					c.Violation("paths:snapshot:"+firstDiff(snapOf(mg), snapOf(md)), d)
				}
				if og.initOK != od.initOK {
					c.Violation("paths:checkinit:"+name, detail())
				}
				if !og.cloneEq || !od.cloneEq || og.cloneSnp != od.cloneSnp {
					c.Violation("paths:clone:"+name, detail())
				}
				ident := unknownIdentical(mg, md)
				if ident {
					c.Count("bytes_compared")
					if og.size != od.size {
						d := detail()
						d["generated_size"], d["dynamic_size"] = og.size, od.size
						c.Violation("paths:size:"+name, d)
					}
					if !bytes.Equal(og.det, od.det) && hasFloat32NaN(mg) {
						// protoreflect.Value carries a float32 as a float64: the conversion quiets a
						// signalling NaN, which the table-driven coder copies bit for bit. NaN payloads
						// are not content (all NaNs are equal): not compared byte for byte
						c.Count("det_bytes_not_compared_float32_nan")
					} else if !bytes.Equal(og.det, od.det) {
						d := detail()
						d["generated"], d["dynamic"] = core.Hex(og.det), core.Hex(od.det)
						c.Violation("paths:det-bytes:"+name, d)
					}
				} else {
					c.Count("bytes_skipped_unknown_tags_differ")
				}
				// Equal matrix and Merge against a second message
				g2, d2 := newOf(mt, false), newOf(mt, true)
				uo := proto.UnmarshalOptions{AllowPartial: true, DiscardUnknown: !keeps}
				if uo.Unmarshal(in2, g2.Interface()) == nil && uo.Unmarshal(in2, d2.Interface()) == nil {
					eg := proto.Equal(mg.Interface(), g2.Interface())
					ed := proto.Equal(md.Interface(), d2.Interface())
					ex := proto.Equal(mg.Interface(), d2.Interface())
					if eg != ed || eg != ex {
						d := detail()
						d["input2"] = core.Hex(in2)
						d["equal_gen"], d["equal_dyn"], d["equal_cross"] = eg, ed, ex
						c.Violation("paths:equal:"+name, d)
					}
					rec += fmt.Sprintf(" eq=%v", eg)
					mgc, mdc := proto.Clone(mg.Interface()), proto.Clone(md.Interface())
					proto.Merge(mgc, g2.Interface())
					proto.Merge(mdc, d2.Interface())
					sg, sd := snapOf(mgc.ProtoReflect()), snapOf(mdc.ProtoReflect())
					if sg.String() != sd.String() {
						d := detail()
						d["input2"] = core.Hex(in2)
						c.Violation("paths:merge:"+firstDiff(sg, sd), d)
					}
					rec += fmt.Sprintf(" merge=%016x", core.HashStr(sg.String()))
				}
				rec += fmt.Sprintf(" snap=%016x init=%v clone=%016x", core.HashStr(og.snap), og.initOK, core.HashStr(og.cloneSnp))
				if unknownFree(snapOf(mg)) && !hasFloat32NaN(mg) {
					rec += fmt.Sprintf(" size=%d det=%016x", og.size, core.HashBytes(og.det))
				}
			}
			// (ii) cross-build record, joined by the driver
			c.Emit(name+"/"+fmt.Sprint(k), rec+"\t"+core.Hex(in))
		}
	}
}

func unknownFree(s *model.Snap) bool { return !s.HasUnknownAnywhere() }

func postC08(p *core.PostCtx) {
	// group batches by shard index: base-03 vs refl-03, legacy-03 vs legacyrefl-03
	type pair struct{ a, b string }
	var pairs []pair
	for name := range p.Records {
		if strings.HasPrefix(name, "base-") {
			pairs = append(pairs, pair{name, "refl-" + name[5:]})
		}
		if strings.HasPrefix(name, "legacy-") {
			pairs = append(pairs, pair{name, "legacyrefl-" + name[7:]})
		}
	}
	for _, pr := range pairs {
		other := map[string]string{}
		for _, r := range p.Records[pr.b] {
			other[r.Key] = r.Val
		}
		for _, r := range p.Records[pr.a] {
			o, ok := other[r.Key]
			if !ok {
				continue
			}
			p.Count("xbuild_joined", 1)
			p.Evals++
			if o != r.Val {
				typ := r.Key[:strings.LastIndex(r.Key, "/")]
				av, bv := strings.SplitN(r.Val, "\t", 2), strings.SplitN(o, "\t", 2)
				p.Violation("paths:cross-build:"+diffKeys(av[0], bv[0])+":"+typ, map[string]any{"case": r.Key, "fast_build": av[0], "reflect_build": bv[0], "input": av[len(av)-1], "builds": pr.a + " vs " + pr.b})
			}
		}
	}
}

// diffKeys names the record components that differ.
func diffKeys(a, b string) string {
	am := map[string]string{}
	for _, kv := range strings.Fields(a) {
		if i := strings.IndexByte(kv, '='); i > 0 {
			am[kv[:i]] = kv[i+1:]
		}
	}
	var out []string
	for _, kv := range strings.Fields(b) {
		if i := strings.IndexByte(kv, '='); i > 0 {
			if am[kv[:i]] != kv[i+1:] {
				out = append(out, kv[:i])
			}
			delete(am, kv[:i])
		}
	}
	for k := range am {
		out = append(out, k)
	}
	if len(out) == 0 {
		return "input"
	}
	return strings.Join(out, ",")
}

// hasFloat32NaN reports whether a float (32-bit) field anywhere in m holds a NaN.
func hasFloat32NaN(m protoreflect.Message) bool {
	found := false
	var walk func(m protoreflect.Message, depth int)
	isNaN := func(fd protoreflect.FieldDescriptor, v protoreflect.Value) bool {
		return fd.Kind() == protoreflect.FloatKind && v.Float() != v.Float()
	}
	walk = func(m protoreflect.Message, depth int) {
		if found || depth > 40 {
			return
		}
		m.Range(func(fd protoreflect.FieldDescriptor, v protoreflect.Value) bool {
			switch {
			case fd.IsMap():
				v.Map().Range(func(_ protoreflect.MapKey, mv protoreflect.Value) bool {
					if fd.MapValue().Message() != nil {
						walk(mv.Message(), depth+1)
					} else if isNaN(fd.MapValue(), mv) {
						found = true
					}
					return !found
				})
			case fd.IsList():
				for i := 0; i < v.List().Len() && !found; i++ {
					if fd.Message() != nil {
						walk(v.List().Get(i).Message(), depth+1)
					} else if isNaN(fd, v.List().Get(i)) {
						found = true
					}
				}
			case fd.Message() != nil:
				walk(v.Message(), depth+1)
			default:
				if isNaN(fd, v) {
					found = true
				}
			}
			return !found
		})
	}
	walk(m, 0)
	return found
}
