package checks

import (
	"bytes"
	"fmt"
	"sort"

	"google.golang.org/protobuf/encoding/protowire"
	"google.golang.org/protobuf/proto"
	"google.golang.org/protobuf/reflect/protoreflect"
	"google.golang.org/protobuf/reflect/protoregistry"
	"google.golang.org/protobuf/verif/core"
	"google.golang.org/protobuf/verif/gen"
)

func init() {
	core.Register(&core.Check{
		ID:     "C47",
		Rule:   "cases (builds with -tags protolegacy, fast path and -tags protoreflect): MessageSet messages of the three messagesetpb flavours and their dynamicpb twins, (a) contents: PRNG subsets of the registered extension messages (Ext1, Ext2, ExtRequired, ExtLargeNumber incl. type id 2^29) with PRNG field values plus unknown items: Marshal (deterministic and default) must consist of items only (start group 1, type_id varint 2, message bytes 3, end group) whose (type id, payload) set denotes the content, Size == len, and decode back Equal, also nested in MessageSetContainer; (b) item encodings built by a reference encoder: type_id before/after message, several items with one type id (contiguous or interleaved), unknown type ids, extra unknown fields inside items, non-minimal varints, non-message payloads: decode verdict and content vs the reference (duplicates merged in order, unknown ids preserved, malformed payload => error), Size taken on a fresh decode before anything else touches it (the size pass and the marshal pass must agree while extensions are still lazy), re-marshalled before any access (lazy extension pass-through) and after access, each time Size == len and decode-equal; distinct = distinct wire strings; non-trivial = at least one item",
		Assume: []string{"the 60-line reference item encoder/parser in checks/c47.go (MessageSet wire format: repeated group Item = 1 { required int32 type_id = 2; required bytes message = 3; })", "proto.Equal, and binary codecs of the extension messages themselves (C03/C06)"},
		Batches: func(tier string) []core.Batch {
			var bs []core.Batch
			for _, cfg := range []string{"legacy", "legacyrefl"} {
				for i := 0; i < 4; i++ {
					bs = append(bs, core.Batch{Cfg: cfg, Name: fmt.Sprintf("%s-%d", cfg, i), Kind: "std", N: i})
				}
			}
			return bs
		},
		Gates: func(tier string) map[string]int64 {
			return map[string]int64{"content_cases": 2000, "wire_cases": 1000, "wire_accepted": 800, "wire_rejected": 40, "duplicate_type_id_cases": 500, "unknown_type_id_cases": 500, "passthrough_marshals": 2000, "large_type_id": 100, "flavour:dynamic": 500, "flavour:opaque": 300, "flavour:hybrid": 300, "nested_in_container": 300, "cfg:legacy": 1000, "cfg:legacyrefl": 1000}
		},
		Run: runC47,
	})
}

type msItem struct {
	id      protowire.Number
	payload []byte
}

// msParseItems is the reference parser: a MessageSet encoding is a sequence
// of item groups, each holding one type_id and one message in either order.
// Returns ok=false if the bytes hold anything else.
func msParseItems(b []byte) (items []msItem, ok bool) {
	for len(b) > 0 {
		num, typ, n := protowire.ConsumeTag(b)
		if n < 0 || num != 1 || typ != protowire.StartGroupType {
			return nil, false
		}
		b = b[n:]
		var it msItem
		haveID, haveMsg := false, false
		for {
			num, typ, n := protowire.ConsumeTag(b)
			if n < 0 {
				return nil, false
			}
			b = b[n:]
			if num == 1 && typ == protowire.EndGroupType {
				break
			}
			switch {
			case num == 2 && typ == protowire.VarintType:
				v, m := protowire.ConsumeVarint(b)
				if m < 0 || haveID {
					return nil, false
				}
				it.id, haveID = protowire.Number(v), true
				b = b[m:]
			case num == 3 && typ == protowire.BytesType:
				v, m := protowire.ConsumeBytes(b)
				if m < 0 || haveMsg {
					return nil, false
				}
				it.payload, haveMsg = append([]byte{}, v...), true
				b = b[m:]
			default:
				return nil, false
			}
		}
		if !haveID || !haveMsg {
			return nil, false
		}
		items = append(items, it)
	}
	return items, true
}

func msAppendItem(b []byte, it msItem, idFirst bool, pad int, junk []byte) []byte {
	b = protowire.AppendTag(b, 1, protowire.StartGroupType)
	id := func() {
		b = protowire.AppendTag(b, 2, protowire.VarintType)
		v := protowire.AppendVarint(nil, uint64(it.id))
		for i := 0; i < pad && len(v) < 10; i++ { // non-minimal varint
			v[len(v)-1] |= 0x80
			v = append(v, 0)
		}
		b = append(b, v...)
	}
	msg := func() {
		b = protowire.AppendTag(b, 3, protowire.BytesType)
		b = protowire.AppendBytes(b, it.payload)
	}
	if idFirst {
		id()
		b = append(b, junk...)
		msg()
	} else {
		msg()
		b = append(b, junk...)
		id()
	}
	return protowire.AppendTag(b, 1, protowire.EndGroupType)
}

type msExt struct {
	xt protoreflect.ExtensionType
	id protowire.Number
}

func msExtsOf(md protoreflect.MessageDescriptor) []msExt {
	var out []msExt
	for _, xt := range gen.ExtensionsOf(protoregistry.GlobalTypes, md.FullName()) {
		out = append(out, msExt{xt, protowire.Number(xt.TypeDescriptor().Number())})
	}
	sort.Slice(out, func(i, j int) bool { return out[i].id < out[j].id })
	return out
}

func runC47(c *core.Ctx, b core.Batch) {
	var sets []protoreflect.MessageType
	for _, mt := range gen.AllTypes() {
		if gen.IsMessageSet(mt.Descriptor()) && len(msExtsOf(mt.Descriptor())) >= 3 {
			sets = append(sets, mt)
		}
	}
	if len(sets) == 0 {
		c.Violation("harness:no-messageset-types", nil)
		return
	}
	n := c.Scale(400, 8000)
	for k := 0; k < n; k++ {
		r := c.Rng(uint64(b.N)<<32 | uint64(k))
		mt := sets[k%len(sets)]
		dyn := (k/len(sets))%3 == 2
		c.Count("cfg:" + b.Cfg)
		if dyn {
			c.Count("flavour:dynamic")
		} else {
			c.Count("flavour:" + flavour(mt.Descriptor()))
		}
		c47Content(c, r, mt, dyn, k)
		c47Wire(c, r, mt, dyn, k)
	}
}

// containerOf finds a message type with a singular field of the MessageSet type.
func containerOf(mt protoreflect.MessageType) (protoreflect.MessageType, protoreflect.FieldDescriptor) {
	for _, ct := range gen.AllTypes() {
		fs := ct.Descriptor().Fields()
		for i := 0; i < fs.Len(); i++ {
			if fs.Get(i).Message() == mt.Descriptor() && !fs.Get(i).IsList() && !fs.Get(i).IsMap() {
				return ct, fs.Get(i)
			}
		}
	}
	return nil, nil
}

func c47Content(c *core.Ctx, r *core.Rand, mt protoreflect.MessageType, dyn bool, k int) {
	name := string(mt.Descriptor().FullName())
	exts := msExtsOf(mt.Descriptor())
	m := newOf(mt, dyn)
	want := map[protowire.Number][]byte{} // type id -> deterministic payload bytes
	for _, x := range exts {
		if !r.Chance(1, 2) {
			continue
		}
		v := m.NewField(x.xt.TypeDescriptor())
		gen.Fill(r, v.Message(), gen.MsgOpts{Density: 60, MaxDepth: 1})
		m.Set(x.xt.TypeDescriptor(), v)
		pb, _ := proto.MarshalOptions{Deterministic: true, AllowPartial: true}.Marshal(v.Message().Interface())
		want[x.id] = pb
		if x.id >= 1<<29 {
			c.Count("large_type_id")
		}
	}
	// unknown items
	var unk []msItem
	if r.Chance(1, 3) && gen.KeepsUnknown(m) {
		var ub []byte
		for i := 0; i < 1+r.Intn(2); i++ {
			it := msItem{id: protowire.Number(2000 + r.Intn(1000)), payload: r.Bytes(r.Intn(8))}
			unk = append(unk, it)
			ub = protowire.AppendTag(ub, it.id, protowire.BytesType)
			ub = protowire.AppendBytes(ub, it.payload)
		}
		m.SetUnknown(ub)
	}
	c.Eval()
	c.Count("content_cases")
	c.Log("C47 content type=%s dyn=%v ids=%v", name, dyn, want)
	for _, det := range []bool{true, false} {
		var enc []byte
		var err error
		if !c.NoPanic("mset:marshal-panic:"+name, nil, func() { enc, err = proto.MarshalOptions{Deterministic: det, AllowPartial: true}.Marshal(m.Interface()) }) {
			return
		}
		if err != nil {
			c.Violation("mset:marshal-error:"+name, map[string]any{"err": errStr(err)})
			return
		}
		c.DistinctBytes([]byte(name), enc)
		if sz := proto.Size(m.Interface()); sz != len(enc) {
			c.Violation("mset:size-differs-from-encoded-length", map[string]any{"type": name, "dyn": dyn, "size": sz, "len": len(enc), "wire": core.Hex(enc)})
		}
		items, ok := msParseItems(enc)
		if !ok {
			c.Violation("mset:output-is-not-a-sequence-of-items", map[string]any{"type": name, "dyn": dyn, "wire": core.Hex(enc)})
			return
		}
		got := map[protowire.Number][]byte{}
		for _, it := range items {
			if _, dup := got[it.id]; dup && want[it.id] != nil {
				c.Violation("mset:output-repeats-a-type-id", map[string]any{"type": name, "wire": core.Hex(enc)})
			}
			got[it.id] = it.payload
		}
		for id, pb := range want {
			gp, ok := got[id]
			if !ok {
				c.Violation("mset:extension-missing-from-output", map[string]any{"type": name, "dyn": dyn, "type_id": int64(id), "wire": core.Hex(enc)})
				continue
			}
			// payload must decode to the same extension message
			var xt protoreflect.ExtensionType
			for _, x := range exts {
				if x.id == id {
					xt = x.xt
				}
			}
			a, bb := xt.New().Message(), xt.New().Message()
			e1 := proto.UnmarshalOptions{AllowPartial: true}.Unmarshal(pb, a.Interface())
			e2 := proto.UnmarshalOptions{AllowPartial: true}.Unmarshal(gp, bb.Interface())
			if e1 != nil || e2 != nil || !proto.Equal(a.Interface(), bb.Interface()) {
				c.Violation("mset:item-payload-denotes-other-content", map[string]any{"type": name, "type_id": int64(id), "want": core.Hex(pb), "got": core.Hex(gp)})
			}
		}
		for _, u := range unk {
			if gp, ok := got[u.id]; !ok || !bytes.Equal(gp, u.payload) {
				// several unknown items may share an id; accept any item with that payload
				found := false
				for _, it := range items {
					found = found || (it.id == u.id && bytes.Equal(it.payload, u.payload))
				}
				if !found {
					c.Violation("mset:unknown-item-not-preserved", map[string]any{"type": name, "dyn": dyn, "type_id": int64(u.id), "wire": core.Hex(enc)})
				}
			}
		}
		if len(items) != len(want)+len(unk) {
			c.Violation("mset:item-count", map[string]any{"type": name, "dyn": dyn, "items": len(items), "want": len(want) + len(unk), "wire": core.Hex(enc)})
		}
		// round trip into both implementations
		for _, tdyn := range []bool{false, true} {
			m2 := newOf(mt, tdyn)
			if e := (proto.UnmarshalOptions{AllowPartial: true}).Unmarshal(enc, m2.Interface()); e != nil {
				c.Violation("mset:roundtrip-unmarshal-error", map[string]any{"type": name, "target_dyn": tdyn, "err": errStr(e), "wire": core.Hex(enc)})
			} else if !proto.Equal(m.Interface(), m2.Interface()) {
				c.Violation("mset:roundtrip-not-equal", map[string]any{"type": name, "src_dyn": dyn, "target_dyn": tdyn, "wire": core.Hex(enc)})
			}
		}
		if c.WantSample() && len(items) >= 2 {
			c.Sample(map[string]any{"type": name, "dynamic": dyn, "wire": core.Hex(enc), "items": len(items), "size_equals_len": true})
		}
	}
	// nested in a container
	if ct, fd := containerOf(mt); ct != nil && !dyn {
		c.Count("nested_in_container")
		cm := ct.New()
		cm.Set(fd, protoreflect.ValueOfMessage(proto.Clone(m.Interface()).ProtoReflect()))
		enc, err := proto.MarshalOptions{Deterministic: true, AllowPartial: true}.Marshal(cm.Interface())
		if err != nil {
			c.Violation("mset:container-marshal-error", map[string]any{"err": errStr(err)})
			return
		}
		if proto.Size(cm.Interface()) != len(enc) {
			c.Violation("mset:container-size", map[string]any{"wire": core.Hex(enc)})
		}
		for _, nolazy := range []bool{false, true} {
			c2 := ct.New()
			if e := (proto.UnmarshalOptions{AllowPartial: true, NoLazyDecoding: nolazy}).Unmarshal(enc, c2.Interface()); e != nil || !proto.Equal(cm.Interface(), c2.Interface()) {
				c.Violation("mset:container-roundtrip", map[string]any{"err": errStr(e), "wire": core.Hex(enc), "nolazy": nolazy})
			}
		}
	}
}

func c47Wire(c *core.Ctx, r *core.Rand, mt protoreflect.MessageType, dyn bool, k int) {
	name := string(mt.Descriptor().FullName())
	exts := msExtsOf(mt.Descriptor())
	// payload pool per known extension
	type planned struct {
		it      msItem
		idFirst bool
		pad     int
		junk    []byte
	}
	var plan []planned
	nitems := 1 + r.Intn(5)
	dupID, unkID, bad := false, false, false
	for i := 0; i < nitems; i++ {
		var it msItem
		switch d := r.Intn(10); {
		case d < 6 || len(plan) == 0:
			x := exts[r.Intn(len(exts))]
			v := x.xt.New().Message()
			gen.Fill(r, v, gen.MsgOpts{Density: 60, MaxDepth: 1})
			pb, _ := proto.MarshalOptions{Deterministic: true, AllowPartial: true}.Marshal(v.Interface())
			it = msItem{x.id, pb}
		case d < 8: // same type id as an earlier item
			prev := plan[r.Intn(len(plan))].it
			it.id = prev.id
			var xt protoreflect.ExtensionType
			for _, x := range exts {
				if x.id == prev.id {
					xt = x.xt
				}
			}
			if xt != nil {
				v := xt.New().Message()
				gen.Fill(r, v, gen.MsgOpts{Density: 60, MaxDepth: 1})
				it.payload, _ = proto.MarshalOptions{Deterministic: true, AllowPartial: true}.Marshal(v.Interface())
			} else {
				it.payload = r.Bytes(r.Intn(6))
			}
			dupID = true
		case d < 9: // unknown type id
			it = msItem{protowire.Number(3000 + r.Intn(50)), r.Bytes(r.Intn(10))}
			unkID = true
		default: // known type id with a malformed payload
			x := exts[r.Intn(len(exts))]
			it = msItem{x.id, [][]byte{{0x08}, {0x0a, 0x05, 0x01}, {0xff, 0xff, 0xff}, {0x0f}}[r.Intn(4)]}
			bad = true
		}
		p := planned{it: it, idFirst: r.Chance(2, 3), pad: 0}
		if r.Chance(1, 6) {
			p.pad = 1 + r.Intn(2)
		}
		if r.Chance(1, 8) {
			// an extra unknown field inside the item (ignored by every implementation)
			p.junk = protowire.AppendVarint(protowire.AppendTag(nil, protowire.Number(4+r.Intn(5)), protowire.VarintType), uint64(r.Intn(100)))
		}
		plan = append(plan, p)
	}
	var wire []byte
	idCount := map[protowire.Number]int{}
	for _, p := range plan {
		wire = msAppendItem(wire, p.it, p.idFirst, p.pad, p.junk)
		idCount[p.it.id]++
		if idCount[p.it.id] > 1 {
			dupID = true
		}
	}
	c.Eval()
	c.Count("wire_cases")
	if dupID {
		c.Count("duplicate_type_id_cases")
	}
	if unkID {
		c.Count("unknown_type_id_cases")
	}
	c.DistinctBytes([]byte(name), wire)
	c.Log("C47 wire type=%s dyn=%v wire=%s", name, dyn, core.Hex(wire))
	// reference: expected content
	exp := newOf(mt, false)
	concat := map[protowire.Number][]byte{}
	var order []protowire.Number
	for _, p := range plan {
		if _, ok := concat[p.it.id]; !ok {
			order = append(order, p.it.id)
		}
		concat[p.it.id] = append(concat[p.it.id], p.it.payload...)
	}
	wantErr := false
	unknownPayloads := map[protowire.Number][][]byte{}
	for _, p := range plan {
		known := false
		for _, x := range exts {
			known = known || x.id == p.it.id
		}
		if !known {
			unknownPayloads[p.it.id] = append(unknownPayloads[p.it.id], p.it.payload)
		}
	}
	for _, id := range order {
		var xt protoreflect.ExtensionType
		for _, x := range exts {
			if x.id == id {
				xt = x.xt
			}
		}
		if xt == nil {
			continue
		}
		v := xt.New().Message()
		if e := (proto.UnmarshalOptions{AllowPartial: true}).Unmarshal(concat[id], v.Interface()); e != nil {
			wantErr = true
			continue
		}
		exp.Set(xt.TypeDescriptor(), protoreflect.ValueOfMessage(v))
	}
	detail := func() map[string]any {
		return map[string]any{"type": name, "dyn": dyn, "wire": core.Hex(wire), "duplicate_ids": dupID, "unknown_ids": unkID, "malformed_payload": bad}
	}
	got := newOf(mt, dyn)
	var err error
	if !c.NoPanic("mset:unmarshal-panic:"+name, detail(), func() { err = proto.UnmarshalOptions{AllowPartial: true}.Unmarshal(wire, got.Interface()) }) {
		return
	}
	if bad && dupID {
		// a malformed payload next to another item of the same type id: whether the
		// concatenation happens to parse is an accident of the bytes - only totality is judged
		c.Count("wire_dontcare")
		return
	}
	if (err != nil) != wantErr {
		d := detail()
		d["err"] = errStr(err)
		c.Violation(fmt.Sprintf("mset:decode-verdict:want-error=%v", wantErr), d)
		return
	}
	if err != nil {
		c.Count("wire_rejected")
		return
	}
	c.Count("wire_accepted")
	// compare known content (unknown items checked through re-marshalling)
	check := func(stage string, m protoreflect.Message) bool {
		cl := proto.Clone(m.Interface()).ProtoReflect()
		cl.SetUnknown(nil)
		if !proto.Equal(cl.Interface(), exp.Interface()) {
			d := detail()
			d["stage"] = stage
			d["got"] = clip(snapOf(cl).String(), 1200)
			d["want"] = clip(snapOf(exp).String(), 1200)
			c.Violation("mset:decoded-content-differs:"+stage+fmt.Sprintf(":duplicate-ids=%v", dupID), d)
			return false
		}
		return true
	}
	// 0. Size BEFORE anything else touches a second, freshly decoded copy: the size
	// pass and the marshal pass must agree while the extensions are still lazy
	{
		fresh := newOf(mt, dyn)
		if (proto.UnmarshalOptions{AllowPartial: true}).Unmarshal(wire, fresh.Interface()) == nil {
			for _, det := range []bool{false, true} {
				var sz int
				var enc []byte
				var merr error
				if !c.NoPanic("mset:size-first-panic", detail(), func() {
					sz = proto.MarshalOptions{Deterministic: det, AllowPartial: true}.Size(fresh.Interface())
					enc, merr = proto.MarshalOptions{Deterministic: det, AllowPartial: true}.Marshal(fresh.Interface())
				}) {
					break
				}
				c.Count("size_before_marshal_checks")
				if merr != nil || sz != len(enc) {
					d := detail()
					d["size"], d["len"], d["err"], d["deterministic"] = sz, len(enc), errStr(merr), det
					c.Violation(fmt.Sprintf("mset:size-before-any-access-differs-from-encoded-length:duplicate-ids=%v", dupID), d)
					break
				}
			}
		}
	}
	// 1. re-marshal BEFORE any access (lazy extension pass-through)
	c.Count("passthrough_marshals")
	for _, det := range []bool{false, true} {
		var enc []byte
		var merr error
		if !c.NoPanic("mset:passthrough-marshal-panic", detail(), func() {
			enc, merr = proto.MarshalOptions{Deterministic: det, AllowPartial: true}.Marshal(got.Interface())
		}) {
			return
		}
		if merr != nil {
			d := detail()
			d["err"] = errStr(merr)
			c.Violation("mset:passthrough-marshal-error", d)
			return
		}
		if sz := (proto.MarshalOptions{Deterministic: det, AllowPartial: true}).Size(got.Interface()); sz != len(enc) {
			d := detail()
			d["size"], d["len"] = sz, len(enc)
			c.Violation(fmt.Sprintf("mset:size-differs-from-encoded-length:before-access:duplicate-ids=%v", dupID), d)
		}
		re := newOf(mt, false)
		if e := (proto.UnmarshalOptions{AllowPartial: true, NoLazyDecoding: true}).Unmarshal(enc, re.Interface()); e != nil {
			d := detail()
			d["rewire"], d["err"] = core.Hex(enc), errStr(e)
			c.Violation("mset:remarshalled-bytes-do-not-decode", d)
			return
		}
		stage := "remarshal-before-access"
		if det {
			stage = "remarshal-before-access-deterministic"
		}
		cl := proto.Clone(re.Interface()).ProtoReflect()
		cl.SetUnknown(nil)
		if !proto.Equal(cl.Interface(), exp.Interface()) {
			d := detail()
			d["rewire"] = core.Hex(enc)
			d["got"] = clip(snapOf(cl).String(), 1200)
			d["want"] = clip(snapOf(exp).String(), 1200)
			c.Violation(fmt.Sprintf("mset:%s-loses-content:duplicate-ids=%v", stage, dupID), d)
			return
		}
		// unknown items preserved
		if gen.KeepsUnknown(got) {
			items, ok := msParseItems(enc)
			if !ok {
				d := detail()
				d["rewire"] = core.Hex(enc)
				c.Violation("mset:remarshalled-output-is-not-a-sequence-of-items", d)
				return
			}
			for id, pls := range unknownPayloads {
				for _, pl := range pls {
					found := false
					for _, it := range items {
						found = found || (it.id == id && bytes.Equal(it.payload, pl))
					}
					if !found {
						d := detail()
						d["rewire"], d["type_id"] = core.Hex(enc), int64(id)
						c.Violation("mset:unknown-item-lost-on-remarshal", d)
					}
				}
			}
		}
	}
	// 2. content after access
	if !check("decoded", got) {
		return
	}
	// 3. re-marshal after access
	enc, merr := proto.MarshalOptions{Deterministic: true, AllowPartial: true}.Marshal(got.Interface())
	if merr != nil || proto.Size(got.Interface()) != len(enc) {
		d := detail()
		d["err"] = errStr(merr)
		c.Violation("mset:remarshal-after-access", d)
		return
	}
	re := newOf(mt, !dyn)
	if e := (proto.UnmarshalOptions{AllowPartial: true}).Unmarshal(enc, re.Interface()); e != nil || !check("remarshal-after-access", re) {
		if e != nil {
			c.Violation("mset:remarshal-after-access-does-not-decode", detail())
		}
	}
}
