package checks

import (
	"bytes"
	"encoding/json"
	"fmt"

	"google.golang.org/protobuf/encoding/protojson"
	"google.golang.org/protobuf/encoding/prototext"
	"google.golang.org/protobuf/encoding/protowire"
	"google.golang.org/protobuf/proto"
	"google.golang.org/protobuf/reflect/protoreflect"
	"google.golang.org/protobuf/verif/core"
	"google.golang.org/protobuf/verif/gen"
	"google.golang.org/protobuf/verif/mon"
)

func init() {
	core.Register(&core.Check{
		ID:     "C17",
		Rule:   "cases: for every lazy-capable linked type (option lazy=true fields in opaque/hybrid generated code), well-formed inputs (reorder, contiguous and non-contiguous duplicates of lazy fields, non-minimal encodings, lazy field number with a wrong wire type, unknown fields inside) and mutated inputs (invalid inside the lazy submessage); each decoded lazily and with NoLazyDecoding, then a shared PRNG sequence of observations (Has, Get, Equal, CheckInitialized, deterministic bytes, default pass-through Marshal re-decoded, JSON, text) and mutations (Clear/Set/Mutable on lazy fields, Merge both directions, Clone, merge-decode) is applied to both; distinct = distinct (type,input,op sequence); non-trivial = input decoded and a lazy field present; the lazy hook proves deferral happened",
		Assume: []string{"snapshot model", "NoLazyDecoding is the reference semantics"},
		Batches: func(tier string) []core.Batch {
			if tier == "thorough" {
				return append(stdBatches([]string{"base"}, 16), stdBatches([]string{"race", "ptr", "legacy"}, 4)...)
			}
			return append(stdBatches([]string{"base"}, 12), stdBatches([]string{"ptr"}, 2)...)
		},
		Gates: func(tier string) map[string]int64 {
			return map[string]int64{"pairs": 3000, "lazy_hook_enter": 500, "lazy_field_present": 1500, "op:obs-passthrough": 500, "op:mut-merge-into": 200, "op:mut-merge-into-decoded": 150, "rejected_both": 200, "wireop:wrong-wiretype": 50, "wireop:dup-anywhere": 50}
		},
		Run: runC17,
	})
}

var c17Ops = []string{"obs-passthrough", "obs-det", "obs-has", "obs-get-lazy", "obs-equal", "obs-checkinit", "obs-json", "obs-text", "obs-snapshot",
	"mut-clear", "mut-set", "mut-mutable", "mut-merge-into", "mut-merge-from", "mut-clone", "mut-merge-decode", "mut-merge-into-decoded"}

func runC17(c *core.Ctx, b core.Batch) {
	st := mon.CountLazy()
	types := gen.LazyTypes()
	nb := 12
	switch {
	case c.Tier == "thorough" && b.Cfg == "base":
		nb = 16
	case b.Cfg == "ptr" && c.Tier != "thorough":
		nb = 2
	case b.Cfg != "base":
		nb = 4
	}
	per := c.Scale(3000, 30000)
	if b.Cfg != "base" {
		per = c.Scale(300, 3000)
	}
	if legacyBuild(b) {
		// protolegacy builds decode message extensions lazily as well
		types = append(append([]protoreflect.MessageType{}, types...), gen.Types("lazy_extension_test.", "lazy_extension_normalized_wire_test.", "goproto.proto.test.TestAllExtensions")...)
	}
	for ti, mt := range types {
		name := string(mt.Descriptor().FullName())
		lazyFds := gen.LazyFields(mt)
		for k := b.N; k < per; k += nb {
			r := c.Rng(uint64(ti)<<24 | uint64(k))
			fo := gen.MsgOpts{Density: 20 + 10*(k%7), Unknown: true, Extensions: true, AnyUTF8: true, NoRequired: true, MaxDepth: 2 + k%3}
			var wops []string
			hist := func(s string) { wops = append(wops, s) }
			in := c17Input(r, mt, lazyFds, fo, hist)
			if k%5 == 4 {
				if r.Bool() {
					in = gen.ConfuseWire(r, in, mt.Descriptor(), hist)
				} else {
					in = gen.Mutate(r, in, hist)
				}
			}
			c17Case(c, r, mt, name, lazyFds, in, wops, fo)
		}
	}
	c.CountN("lazy_hook_enter", st.Enter.Load())
	c.CountN("lazy_hook_cas_won", st.Won.Load())
	c.CountN("lazy_hook_cas_lost", st.Lost.Load())
}

// c17Input biases the generic valid-wire generator towards the lazy fields:
// the message always has the lazy field populated, and extra rewrites hit it.
func c17Input(r *core.Rand, mt protoreflect.MessageType, lazyFds []protoreflect.FieldDescriptor, fo gen.MsgOpts, hist func(string)) []byte {
	m := mt.New()
	gen.Fill(r, m, fo)
	for _, fd := range lazyFds {
		if !m.Has(fd) && r.Chance(3, 4) {
			v := m.NewField(fd)
			fo2 := fo
			fo2.MaxDepth = 2
			gen.Fill(r, v.Message(), fo2)
			m.Set(fd, v)
		}
	}
	enc, err := proto.MarshalOptions{AllowPartial: true, Deterministic: true}.Marshal(m.Interface())
	if err != nil {
		return nil
	}
	recs, ok := gen.ParseWire(enc, mt.Descriptor(), 0)
	if !ok {
		return enc
	}
	recs = gen.Transform(r, recs, mt.Descriptor(), r.Intn(5), hist)
	out := gen.Serialize(recs)
	if len(lazyFds) > 0 && r.Chance(1, 4) {
		out = gen.InsertWrongType(r, out, mt.Descriptor(), lazyFds[r.Intn(len(lazyFds))].Number(), protowire.BytesType)
		hist("wrong-wiretype-on-lazy-field")
	}
	return out
}

func jsonOf(m protoreflect.Message) (string, bool) {
	b, err := protojson.MarshalOptions{AllowPartial: true}.Marshal(m.Interface())
	if err != nil {
		return "", false
	}
	var buf bytes.Buffer
	if json.Compact(&buf, b) != nil {
		return string(b), true
	}
	return buf.String(), true
}

func textSnap(m protoreflect.Message) (string, bool) {
	b, err := prototext.MarshalOptions{AllowPartial: true}.Marshal(m.Interface())
	if err != nil {
		return "", false
	}
	m2 := m.New()
	if err := (prototext.UnmarshalOptions{AllowPartial: true}).Unmarshal(b, m2.Interface()); err != nil {
		return "reparse-error", true
	}
	return snapOf(m2).Known(), true
}

func c17Case(c *core.Ctx, r *core.Rand, mt protoreflect.MessageType, name string, lazyFds []protoreflect.FieldDescriptor, in []byte, wops []string, fo gen.MsgOpts) {
	L, E := mt.New(), mt.New()
	c.Log("C17 type=%s input=%s", name, core.Hex(in))
	detail := func(extra ...any) map[string]any {
		d := map[string]any{"type": name, "input": core.Hex(in), "wire_ops": wops}
		for i := 0; i+1 < len(extra); i += 2 {
			d[fmt.Sprint(extra[i])] = extra[i+1]
		}
		return d
	}
	var errL, errE, strictL, strictE error
	if !c.NoPanic("lazy:panic:unmarshal:"+name, detail(), func() {
		strictL = proto.Unmarshal(in, mt.New().Interface())
		strictE = proto.UnmarshalOptions{NoLazyDecoding: true}.Unmarshal(in, mt.New().Interface())
		errL = proto.UnmarshalOptions{AllowPartial: true}.Unmarshal(in, L.Interface())
		errE = proto.UnmarshalOptions{AllowPartial: true, NoLazyDecoding: true}.Unmarshal(in, E.Interface())
	}) {
		return
	}
	c.Eval()
	c.Count("pairs")
	if (errL != nil) != (errE != nil) {
		c.Violation(fmt.Sprintf("lazy:verdict:lazy-rejects=%v:%s", errL != nil, name), detail("lazy_err", errStr(errL), "eager_err", errStr(errE)))
		return
	}
	if (strictL != nil) != (strictE != nil) {
		c.Violation(fmt.Sprintf("lazy:verdict-without-AllowPartial:lazy-rejects=%v:%s", strictL != nil, name), detail("lazy_err", errStr(strictL), "eager_err", errStr(strictE)))
	}
	if errL != nil {
		c.Count("rejected_both")
		return
	}
	present := false
	for _, fd := range lazyFds {
		if E.Has(fd) {
			present = true
		}
	}
	if present {
		c.Count("lazy_field_present")
	}
	for _, o := range wops {
		c.Count("wireop:" + o)
	}
	nops := 1 + r.Intn(6)
	var ops []string
	bad := func(what string, extra ...any) {
		c.Violation("lazy:"+what+":"+name, detail(append([]any{"ops", append([]string{}, ops...)}, extra...)...))
	}
	for i := 0; i < nops; i++ {
		op := c17Ops[r.Intn(len(c17Ops))]
		if i == 0 && r.Bool() {
			op = "obs-passthrough"
		}
		ops = append(ops, op)
		c.Count("op:" + op)
		c.Log("C17 type=%s input=%s ops=%v", name, core.Hex(in), ops)
		var lfd protoreflect.FieldDescriptor
		if len(lazyFds) > 0 {
			lfd = lazyFds[r.Intn(len(lazyFds))]
		}
		ok := c.NoPanic("lazy:panic:"+op+":"+name, detail("ops", ops), func() {
			switch op {
			case "obs-passthrough":
				enc, err := proto.MarshalOptions{AllowPartial: true}.Marshal(L.Interface())
				if err != nil {
					bad("passthrough-marshal-error", "err", errStr(err))
					return
				}
				d := mt.New()
				if err := (proto.UnmarshalOptions{AllowPartial: true, NoLazyDecoding: true}).Unmarshal(enc, d.Interface()); err != nil {
					bad("passthrough-output-undecodable", "err", errStr(err), "output", core.Hex(enc))
					return
				}
				if a, b := snapOf(d), snapOf(E); a.String() != b.String() {
					c.Violation("lazy:passthrough-content:"+firstDiff(b, a), detail("ops", ops, "output", core.Hex(enc), "eager", clip(b.String(), 1200), "redecoded", clip(a.String(), 1200)))
				}
			case "obs-det":
				a, e1 := detBytes(L)
				b, e2 := detBytes(E)
				if (e1 != nil) != (e2 != nil) || !bytes.Equal(a, b) {
					bad("det-bytes", "lazy", core.Hex(a), "eager", core.Hex(b))
				}
			case "obs-has":
				fds := mt.Descriptor().Fields()
				for j := 0; j < fds.Len(); j++ {
					if L.Has(fds.Get(j)) != E.Has(fds.Get(j)) {
						bad("has", "field", string(fds.Get(j).Name()))
					}
				}
			case "obs-get-lazy":
				if lfd != nil {
					a, b := snapOf(L.Get(lfd).Message()), snapOf(E.Get(lfd).Message())
					if a.String() != b.String() || a.Valid != b.Valid {
						c.Violation("lazy:get:"+firstDiff(b, a), detail("ops", ops, "eager", clip(b.String(), 1200), "lazy", clip(a.String(), 1200)))
					}
				}
			case "obs-equal":
				if !proto.Equal(L.Interface(), E.Interface()) || !proto.Equal(E.Interface(), L.Interface()) {
					bad("equal-false")
				}
			case "obs-checkinit":
				if (proto.CheckInitialized(L.Interface()) == nil) != (proto.CheckInitialized(E.Interface()) == nil) {
					bad("checkinit")
				}
			case "obs-json":
				a, ok1 := jsonOf(L)
				b, ok2 := jsonOf(E)
				if ok1 != ok2 || a != b {
					bad("json", "lazy", clip(a, 800), "eager", clip(b, 800))
				}
			case "obs-text":
				a, ok1 := textSnap(L)
				b, ok2 := textSnap(E)
				if ok1 != ok2 || a != b {
					bad("text", "lazy", clip(a, 800), "eager", clip(b, 800))
				}
			case "obs-snapshot":
				if a, b := snapOf(L), snapOf(E); a.String() != b.String() {
					c.Violation("lazy:snapshot:"+firstDiff(b, a), detail("ops", ops, "eager", clip(b.String(), 1200), "lazy", clip(a.String(), 1200)))
				}
			case "mut-clear":
				if lfd != nil {
					L.Clear(lfd)
					E.Clear(lfd)
				}
			case "mut-set":
				if lfd != nil {
					rr := r.Fork(1)
					v1, v2 := L.NewField(lfd), E.NewField(lfd)
					gen.Fill(core.NewRand(rr.Uint64()), v1.Message(), fo)
					proto.Merge(v2.Message().Interface(), v1.Message().Interface())
					L.Set(lfd, v1)
					E.Set(lfd, v2)
				}
			case "mut-mutable":
				if lfd != nil {
					seed := r.Uint64()
					for _, m := range []protoreflect.Message{L, E} {
						sub := m.Mutable(lfd).Message()
						fds := sub.Descriptor().Fields()
						rr := core.NewRand(seed)
						for j := 0; j < fds.Len(); j++ {
							fd := fds.Get(j)
							if fd.Message() == nil && !fd.IsList() && !fd.IsMap() && rr.Chance(1, 2) {
								sub.Set(fd, gen.RandScalar(rr, fd, fo))
							}
						}
					}
				}
			case "mut-merge-into":
				x := mt.New()
				gen.Fill(r.Fork(2), x, fo)
				proto.Merge(L.Interface(), x.Interface())
				proto.Merge(E.Interface(), x.Interface())
			case "mut-merge-into-decoded":
				// the source is itself a freshly decoded message: lazily decoded (and not yet
				// accessed) on the lazy side, eagerly decoded on the eager side
				more := c17Input(r.Fork(4), mt, lazyFds, fo, func(string) {})
				xl, xe := mt.New(), mt.New()
				e1 := proto.UnmarshalOptions{AllowPartial: true}.Unmarshal(more, xl.Interface())
				e2 := proto.UnmarshalOptions{AllowPartial: true, NoLazyDecoding: true}.Unmarshal(more, xe.Interface())
				if e1 == nil && e2 == nil {
					proto.Merge(L.Interface(), xl.Interface())
					proto.Merge(E.Interface(), xe.Interface())
				}
			case "mut-merge-from":
				seed := r.Uint64()
				dl, de := mt.New(), mt.New()
				gen.Fill(core.NewRand(seed), dl, fo)
				gen.Fill(core.NewRand(seed), de, fo)
				proto.Merge(dl.Interface(), L.Interface())
				proto.Merge(de.Interface(), E.Interface())
				if a, b := snapOf(dl), snapOf(de); a.String() != b.String() {
					c.Violation("lazy:merge-from:"+firstDiff(b, a), detail("ops", ops))
				}
			case "mut-clone":
				L = proto.Clone(L.Interface()).ProtoReflect()
				E = proto.Clone(E.Interface()).ProtoReflect()
			case "mut-merge-decode":
				more := c17Input(r.Fork(3), mt, lazyFds, fo, func(string) {})
				e1 := proto.UnmarshalOptions{AllowPartial: true, Merge: true}.Unmarshal(more, L.Interface())
				e2 := proto.UnmarshalOptions{AllowPartial: true, Merge: true, NoLazyDecoding: true}.Unmarshal(more, E.Interface())
				if (e1 != nil) != (e2 != nil) {
					bad("merge-decode-verdict", "more", core.Hex(more))
				}
			}
		})
		if !ok {
			return
		}
	}
	// final full comparison
	c.NoPanic("lazy:panic:final:"+name, detail("ops", ops), func() {
		if a, b := snapOf(L), snapOf(E); a.String() != b.String() {
			c.Violation("lazy:final-snapshot:"+firstDiff(b, a), detail("ops", ops, "eager", clip(b.String(), 1200), "lazy", clip(a.String(), 1200)))
		} else if present {
			c.DistinctBytes([]byte(name), in, []byte(fmt.Sprint(ops)))
		}
		if !proto.Equal(L.Interface(), E.Interface()) {
			bad("final-equal-false")
		}
	})
	if c.WantSample() && present && len(wops) > 0 {
		c.Sample(map[string]any{"type": name, "input": core.Hex(in), "wire_ops": wops, "ops": ops})
	}
}
