package checks

import (
	"google.golang.org/protobuf/proto"
	"google.golang.org/protobuf/reflect/protoreflect"
	"google.golang.org/protobuf/verif/core"
	"google.golang.org/protobuf/verif/gen"
	"google.golang.org/protobuf/verif/model"
)

func init() {
	core.Register(&core.Check{
		ID:     "C07",
		Rule:   "cases: pairs (a,b) of PRNG-filled messages of one linked type (generated, dynamicpb, lazily decoded sources and destinations) and pairs (x,y) of well-formed wire strings (valid encodings rewritten by reorder/duplicate/non-minimal/wrong-wire-type/unknown transformations); compares Merge(clone(a),b), Unmarshal(Marshal(a)||Marshal(b)), UnmarshalOptions{Merge}(Marshal(b)) into clone(a) and the reference merge of the two snapshots; distinct = distinct (type, a-bytes, b-bytes); non-trivial = both operands populated",
		Assume: []string{"model/merge.go reference merge semantics (as stated in the property)", "snapshot model"},
		Batches: func(tier string) []core.Batch {
			if tier == "thorough" {
				return append(stdBatches([]string{"base"}, 16), stdBatches([]string{"legacy", "race"}, 8)...)
			}
			return stdBatches([]string{"base"}, 16)
		},
		Gates: func(tier string) map[string]int64 {
			return map[string]int64{"merge_cases": 3000, "wire_pairs": 1000, "lazy_dst": 50, "oneof_replaced": 20, "map_upsert": 20}
		},
		Run: runC07,
	})
}

func runC07(c *core.Ctx, b core.Batch) {
	types := shard(codecTypes(b), b.N, nbOf(b, c.Tier))
	if b.Cfg == "base" && b.N == 1 {
		// dynamicpb over PRNG-generated schemas: message shapes no linked type has
		dt := schemaDynTypes(c, 0x7, c.Scale(6, 60))
		c.CountN("generated_schema_dynamic_types", int64(len(dt)))
		types = append(types, dt...)
	}
	per := c.Scale(12, 150)
	if b.Cfg == "race" {
		per = c.Scale(3, 30)
	}
	for ti, mt := range types {
		keeps := gen.KeepsUnknown(mt.New())
		name := string(mt.Descriptor().FullName())
		for k := 0; k < per; k++ {
			r := c.Rng(uint64(ti)<<24 | uint64(k))
			dyn := k%5 == 4
			fo := fillOptsFor(k)
			fo.Unknown = keeps
			fo.NoRequired = true
			a, bb := newOf(mt, dyn), newOf(mt, dyn && k%2 == 0)
			gen.Fill(r, a, fo)
			fo2 := fillOptsFor(k + 1 + r.Intn(5))
			fo2.Unknown = keeps
			fo2.NoRequired = true
			gen.Fill(r, bb, fo2)
			c07Messages(c, mt, name, a, bb, dyn, k)
			if k%2 == 0 && keeps {
				c07Wire(c, r, mt, name, fo)
			}
		}
	}
}

func c07Messages(c *core.Ctx, mt protoreflect.MessageType, name string, a, b protoreflect.Message, dyn bool, k int) {
	sa, sb := snapOf(a), snapOf(b)
	want := model.MergeSnap(sa, sb).String()
	ea, err1 := detBytes(a)
	eb, err2 := detBytes(b)
	if err1 != nil || err2 != nil {
		c.Violation("merge:marshal-error:"+name, map[string]any{"err1": errStr(err1), "err2": errStr(err2)})
		return
	}
	if sa.NumPopulated() > 0 && sb.NumPopulated() > 0 {
		c.DistinctBytes([]byte(name), ea, []byte{0}, eb)
	}
	// coverage of the interesting merge rules
	for _, n := range sb.Fields {
		for _, m := range sa.Fields {
			if n.Oneof != "" && m.Oneof == n.Oneof && m.Num != n.Num {
				c.Count("oneof_replaced")
			}
			if n.IsMap && m.Num == n.Num {
				for _, e := range n.Map {
					for _, f := range m.Map {
						if e.K == f.K {
							c.Count("map_upsert")
						}
					}
				}
			}
		}
	}
	if c.WantSample() && sa.NumPopulated() > 1 && sb.NumPopulated() > 1 {
		c.Sample(map[string]any{"type": name, "a": core.Hex(ea), "b": core.Hex(eb), "merged_snapshot": clip(want, 500)})
	}
	detail := func() map[string]any {
		return map[string]any{"type": name, "a": core.Hex(ea), "b": core.Hex(eb), "want": clip(want, 1500), "dynamic": dyn}
	}
	check := func(how string, got protoreflect.Message) {
		c.Eval()
		c.Count("merge_cases")
		g := snapOf(got)
		if g.String() != want {
			d := detail()
			d["got"] = clip(g.String(), 1500)
			// fingerprint: the diverging field
			ws := model.MergeSnap(sa, sb)
			c.Violation("merge:"+how+":"+firstDiff(ws, g), d)
		}
	}
	c.Log("C07 type=%s a=%s b=%s", name, core.Hex(ea), core.Hex(eb))
	// 1. proto.Merge
	m1 := proto.Clone(a.Interface()).ProtoReflect()
	if c.NoPanic("merge:panic:Merge:"+name, detail(), func() { proto.Merge(m1.Interface(), b.Interface()) }) {
		check("Merge", m1)
	}
	// 2. concatenated decoding, lazy and eager
	cat := append(append([]byte{}, ea...), eb...)
	for _, nolazy := range []bool{false, true} {
		m2 := newOf(mt, dyn)
		if err := (proto.UnmarshalOptions{AllowPartial: true, NoLazyDecoding: nolazy}).Unmarshal(cat, m2.Interface()); err != nil {
			d := detail()
			d["err"] = errStr(err)
			c.Violation("merge:concat-decode-error:"+name, d)
		} else {
			how := "concat"
			if nolazy {
				how = "concat-nolazy"
			}
			check(how, m2)
		}
	}
	// 3. UnmarshalOptions{Merge:true} into a clone of a
	m3 := proto.Clone(a.Interface()).ProtoReflect()
	if err := (proto.UnmarshalOptions{Merge: true, AllowPartial: true}).Unmarshal(eb, m3.Interface()); err != nil {
		d := detail()
		d["err"] = errStr(err)
		c.Violation("merge:merge-decode-error:"+name, d)
	} else {
		check("UnmarshalMerge", m3)
	}
	// 4. lazily decoded destination and source (not accessed before Merge)
	if !dyn && k%3 == 0 {
		la, lb := mt.New(), mt.New()
		if (proto.UnmarshalOptions{AllowPartial: true}).Unmarshal(ea, la.Interface()) == nil && (proto.UnmarshalOptions{AllowPartial: true}).Unmarshal(eb, lb.Interface()) == nil {
			c.Count("lazy_dst")
			if c.NoPanic("merge:panic:Merge-lazy:"+name, detail(), func() { proto.Merge(la.Interface(), lb.Interface()) }) {
				check("Merge-lazy", la)
				// source must be unchanged by Merge
				if s := snapOf(lb).String(); s != sb.String() {
					c.Violation("merge:source-changed:"+name, detail())
				}
			}
		}
	}
}

// c07Wire: Unmarshal(x||y) == Merge(Unmarshal(x), Unmarshal(y)) for decodable byte strings.
func c07Wire(c *core.Ctx, r *core.Rand, mt protoreflect.MessageType, name string, fo gen.MsgOpts) {
	var ops []string
	hist := func(s string) { ops = append(ops, s) }
	x := gen.ValidWire(r, mt, fo, r.Intn(4), hist)
	y := gen.ValidWire(r, mt, fo, r.Intn(4), hist)
	uo := proto.UnmarshalOptions{AllowPartial: true}
	mx, my := mt.New(), mt.New()
	c.Log("C07 wire type=%s x=%s y=%s", name, core.Hex(x), core.Hex(y))
	if uo.Unmarshal(x, mx.Interface()) != nil || uo.Unmarshal(y, my.Interface()) != nil {
		c.Count("wire_pair_undecodable")
		return
	}
	c.Eval()
	c.Count("wire_pairs")
	for _, o := range ops {
		c.Count("wireop:" + o)
	}
	mxy := mt.New()
	if err := uo.Unmarshal(append(append([]byte{}, x...), y...), mxy.Interface()); err != nil {
		c.Violation("merge:wire-concat-error:"+name, map[string]any{"x": core.Hex(x), "y": core.Hex(y), "err": errStr(err)})
		return
	}
	want := model.MergeSnap(snapOf(mx), snapOf(my))
	proto.Merge(mx.Interface(), my.Interface())
	got1, got2 := snapOf(mx), snapOf(mxy)
	if got1.String() != got2.String() {
		c.Violation("merge:wire:"+firstDiff(got2, got1), map[string]any{"x": core.Hex(x), "y": core.Hex(y), "ops": ops, "merged": clip(got1.String(), 1200), "concat": clip(got2.String(), 1200)})
	} else if got1.String() != want.String() {
		c.Violation("merge:wire-vs-model:"+firstDiff(want, got1), map[string]any{"x": core.Hex(x), "y": core.Hex(y), "ops": ops, "want": clip(want.String(), 1200), "got": clip(got1.String(), 1200)})
	}
}
