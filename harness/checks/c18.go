package checks

import (
	"bytes"
	"fmt"
	"reflect"
	"runtime"
	"sort"
	"strings"
	"sync"
	"sync/atomic"
	"time"
	"unsafe"

	"google.golang.org/protobuf/encoding/protojson"
	"google.golang.org/protobuf/encoding/prototext"
	"google.golang.org/protobuf/internal/impl"
	"google.golang.org/protobuf/proto"
	"google.golang.org/protobuf/reflect/protoreflect"
	"google.golang.org/protobuf/verif/core"
	"google.golang.org/protobuf/verif/gen"
	"google.golang.org/protobuf/verif/mon"
)

func init() {
	core.Register(&core.Check{
		ID:     "C18",
		Rule:   "cases: for every lazy-capable linked type, PRNG-filled trees decoded lazily into one shared message; N in {2,4,8,16} goroutines released by a barrier each run a PRNG sequence of read-only operations (generated Get* methods, reflection Has/Get/Range over the whole tree, Size, deterministic and default Marshal, Equal, Clone, CheckInitialized, protojson and prototext Marshal); delays injected between decode and compare-and-swap inside lazyUnmarshal (verif hook) force contended first accesses; monitors: race detector reports (race build), panics, one pointer identity per lazy submessage over all readers, every result equal to the sequential result on an eagerly decoded copy, and the hook trace (exactly one CAS winner per (message, field), every loser observes the winner's pointer); distinct = distinct (type, input, N, interleaving signature = per-field winner/loser counts and event order); non-trivial = at least one lazy field was expanded concurrently",
		Assume: []string{"Go race detector (reports only races on executed paths of sampled schedules)", "NoLazyDecoding copy as sequential reference (C17)", "verif hook events in impl.lazyUnmarshal"},
		Batches: func(tier string) []core.Batch {
			bs := stdBatches([]string{"race"}, 10)
			return append(bs, stdBatches([]string{"base"}, 6)...)
		},
		Gates: func(tier string) map[string]int64 {
			return map[string]int64{"rounds": 300, "reader_ops": 10000, "lazy_expansions": 1000, "cas_lost": 50, "contended_fields": 50, "pointer_identity_checks": 1000, "race_build_rounds": 100, "goroutines_16": 10}
		},
		Run: runC18,
	})
}

type c18Key struct {
	msg unsafe.Pointer
	num int32
}
type c18Trace struct {
	mu     sync.Mutex
	events map[c18Key][]string // "e", "d", "w", "l" in arrival order
	cur    map[c18Key]map[unsafe.Pointer]bool
	mine   map[c18Key]map[unsafe.Pointer]bool // pointers of CAS winners
}

func (t *c18Trace) reset() {
	t.mu.Lock()
	t.events = map[c18Key][]string{}
	t.cur = map[c18Key]map[unsafe.Pointer]bool{}
	t.mine = map[c18Key]map[unsafe.Pointer]bool{}
	t.mu.Unlock()
}

func runC18(c *core.Ctx, b core.Batch) {
	tr := &c18Trace{}
	tr.reset()
	var tick atomic.Uint64
	var delayOn atomic.Bool
	mon.SetLazy(func(stage int, mi *impl.MessageInfo, msg unsafe.Pointer, num int32, mine, current unsafe.Pointer) {
		k := c18Key{msg, num}
		switch stage {
		case 0:
			tr.mu.Lock()
			tr.events[k] = append(tr.events[k], "e")
			tr.mu.Unlock()
			if delayOn.Load() && tick.Add(1)%3 == 0 {
				runtime.Gosched()
			}
		case 1:
			tr.mu.Lock()
			tr.events[k] = append(tr.events[k], "d")
			tr.mu.Unlock()
			if delayOn.Load() {
				// widen the window between the private decode and the compare-and-swap
				switch tick.Add(1) % 4 {
				case 0:
					time.Sleep(200 * time.Microsecond)
				case 1:
					time.Sleep(20 * time.Microsecond)
				default:
					runtime.Gosched()
				}
			}
		case 2:
			tr.mu.Lock()
			if tr.cur[k] == nil {
				tr.cur[k] = map[unsafe.Pointer]bool{}
				tr.mine[k] = map[unsafe.Pointer]bool{}
			}
			tr.cur[k][current] = true
			if mine == current {
				tr.events[k] = append(tr.events[k], "w")
				tr.mine[k][mine] = true
			} else {
				tr.events[k] = append(tr.events[k], "l")
			}
			tr.mu.Unlock()
		}
	})
	defer mon.SetLazy(nil)

	nb := 10
	if b.Cfg != "race" {
		nb = 6
	}
	lts := gen.LazyTypes()
	rounds := c.Scale(24, 200)
	if b.Cfg != "race" {
		rounds = c.Scale(40, 400)
	}
	for ti, mt := range lts {
		name := string(mt.Descriptor().FullName())
		for k := 0; k < rounds; k++ {
			r := c.Rng(uint64(ti)<<24 | uint64(k)<<8 | uint64(b.N))
			if (ti+k)%nb != b.N {
				continue
			}
			src := mt.New()
			gen.Fill(r, src, gen.MsgOpts{Density: 75, MaxDepth: 4, NoNaN: false})
			enc, err := proto.MarshalOptions{AllowPartial: true, Deterministic: true}.Marshal(src.Interface())
			if err != nil || len(enc) == 0 {
				continue
			}
			c18Round(c, b, r, mt, name, enc, tr, &delayOn)
		}
	}
}

type c18Ref struct {
	det, json, text []byte
	jsonErr         bool
	textErr         bool
	size            int
	snap            string
	initErr         bool
}

func c18Round(c *core.Ctx, b core.Batch, r *core.Rand, mt protoreflect.MessageType, name string, enc []byte, tr *c18Trace, delayOn *atomic.Bool) {
	eager := mt.New()
	if (proto.UnmarshalOptions{AllowPartial: true, NoLazyDecoding: true}).Unmarshal(enc, eager.Interface()) != nil {
		return
	}
	shared := mt.New()
	if (proto.UnmarshalOptions{AllowPartial: true}).Unmarshal(enc, shared.Interface()) != nil {
		return
	}
	N := []int{2, 4, 8, 16}[r.Intn(4)]
	c.Eval()
	c.Count("rounds")
	c.Count(fmt.Sprintf("goroutines_%d", N))
	if b.Cfg == "race" {
		c.Count("race_build_rounds")
	}
	c.Log("C18 type=%s N=%d cfg=%s wire=%x", name, N, b.Cfg, enc)
	// sequential reference on the eager copy
	var ref c18Ref
	ref.det, _ = detBytes(eager)
	ref.size = proto.MarshalOptions{AllowPartial: true}.Size(eager.Interface())
	var e1, e2 error
	ref.json, e1 = protojson.MarshalOptions{AllowPartial: true}.Marshal(eager.Interface())
	ref.text, e2 = prototext.MarshalOptions{AllowPartial: true}.Marshal(eager.Interface())
	ref.jsonErr, ref.textErr = e1 != nil, e2 != nil
	ref.snap = snapOf(eager).String()
	ref.initErr = proto.CheckInitialized(eager.Interface()) != nil

	tr.reset()
	delayOn.Store(true)
	type ptrObs struct {
		path string
		p    uintptr
	}
	var mu sync.Mutex
	ptrs := map[string]map[uintptr]bool{}
	var bad []string
	report := func(what string) {
		mu.Lock()
		bad = append(bad, what)
		mu.Unlock()
	}
	var opsDone atomic.Int64
	notePtr := func(path string, m protoreflect.Message) {
		if !m.IsValid() {
			return
		}
		v := reflect.ValueOf(m.Interface())
		if v.Kind() != reflect.Ptr {
			return
		}
		mu.Lock()
		if ptrs[path] == nil {
			ptrs[path] = map[uintptr]bool{}
		}
		ptrs[path][v.Pointer()] = true
		mu.Unlock()
	}
	var walk func(path string, m protoreflect.Message, depth int)
	walk = func(path string, m protoreflect.Message, depth int) {
		m.Range(func(fd protoreflect.FieldDescriptor, v protoreflect.Value) bool {
			if fd.Message() != nil && !fd.IsList() && !fd.IsMap() {
				p := path + "." + string(fd.Name())
				notePtr(p, v.Message())
				if depth < 5 {
					walk(p, v.Message(), depth+1)
				}
			}
			return true
		})
	}
	start := make(chan struct{})
	var wg sync.WaitGroup
	for g := 0; g < N; g++ {
		wg.Add(1)
		gr := r.Fork(uint64(g) + 100)
		go func(g int) {
			defer wg.Done()
			defer func() {
				if p := recover(); p != nil {
					report(fmt.Sprintf("panic:%v", p))
				}
			}()
			<-start
			nops := 3 + gr.Intn(6)
			for i := 0; i < nops; i++ {
				opsDone.Add(1)
				switch gr.Intn(11) {
				case 0:
					if out, err := detBytes(shared); err != nil || !bytes.Equal(out, ref.det) {
						report("deterministic-marshal-differs")
					}
				case 1:
					if n := (proto.MarshalOptions{AllowPartial: true}).Size(shared.Interface()); n != ref.size {
						report(fmt.Sprintf("size-differs:%d!=%d", n, ref.size))
					}
				case 2:
					if !proto.Equal(shared.Interface(), eager.Interface()) {
						report("Equal(shared,eager)-false")
					}
				case 3:
					if cl := proto.Clone(shared.Interface()); !proto.Equal(cl, eager.Interface()) {
						report("Clone-not-equal")
					}
				case 4:
					out, err := protojson.MarshalOptions{AllowPartial: true}.Marshal(shared.Interface())
					if (err != nil) != ref.jsonErr || (err == nil && !bytes.Equal(out, ref.json)) {
						report("protojson-differs")
					}
				case 5:
					out, err := prototext.MarshalOptions{AllowPartial: true}.Marshal(shared.Interface())
					if (err != nil) != ref.textErr || (err == nil && !bytes.Equal(out, ref.text)) {
						report("prototext-differs")
					}
				case 6:
					if s := snapOf(shared).String(); s != ref.snap {
						report("reflection-snapshot-differs")
					}
				case 7, 8:
					walk("", shared, 0)
				case 9:
					if (proto.CheckInitialized(shared.Interface()) != nil) != ref.initErr {
						report("CheckInitialized-differs")
					}
				default:
					// generated getters through package reflect
					v := reflect.ValueOf(shared.Interface())
					t := v.Type()
					for mi := 0; mi < t.NumMethod(); mi++ {
						mth := t.Method(mi)
						if !strings.HasPrefix(mth.Name, "Get") || mth.Type.NumIn() != 1 || mth.Type.NumOut() != 1 {
							continue
						}
						out := v.Method(mi).Call(nil)[0]
						if out.Kind() == reflect.Ptr && !out.IsNil() {
							if pm, ok := out.Interface().(proto.Message); ok {
								fdName := strings.ToLower(strings.TrimPrefix(mth.Name, "Get"))
								_ = fdName
								mu.Lock()
								key := "getter:" + mth.Name
								if ptrs[key] == nil {
									ptrs[key] = map[uintptr]bool{}
								}
								ptrs[key][out.Pointer()] = true
								mu.Unlock()
								_ = pm
							}
						}
					}
				}
			}
		}(g)
	}
	close(start)
	wg.Wait()
	delayOn.Store(false)
	c.CountN("reader_ops", opsDone.Load())

	det := func() map[string]any {
		return map[string]any{"type": name, "N": N, "wire": core.Hex(enc), "cfg": b.Cfg}
	}
	sort.Strings(bad)
	seen := map[string]bool{}
	for _, w := range bad {
		key := w
		if i := strings.IndexByte(w, ':'); i > 0 {
			key = w[:i]
		}
		if seen[key] {
			continue
		}
		seen[key] = true
		d := det()
		d["observed"] = w
		c.Violation("concurrent-readers:"+key+":"+name, d)
	}
	// pointer identity: one instance per lazy submessage position
	for path, set := range ptrs {
		c.Count("pointer_identity_checks")
		if len(set) != 1 {
			d := det()
			d["path"], d["instances"] = path, len(set)
			c.Violation("concurrent-readers:submessage-instances-differ:"+name, d)
		}
	}
	// hook trace
	tr.mu.Lock()
	var sig []string
	for k, evs := range tr.events {
		w, l, e := 0, 0, 0
		for _, x := range evs {
			switch x {
			case "w":
				w++
			case "l":
				l++
			case "e":
				e++
			}
		}
		c.Count("lazy_expansions")
		c.CountN("cas_lost", int64(l))
		if e > 1 {
			c.Count("contended_fields")
		}
		if w != 1 {
			d := det()
			d["field"], d["events"] = k.num, strings.Join(evs, "")
			c.Violation(fmt.Sprintf("lazy-trace:cas-winners=%d:%s", w, name), d)
		}
		if len(tr.cur[k]) != 1 {
			d := det()
			d["field"], d["events"], d["distinct_current"] = k.num, strings.Join(evs, ""), len(tr.cur[k])
			c.Violation("lazy-trace:losers-observe-different-pointers:"+name, d)
		} else {
			for cur := range tr.cur[k] {
				if !tr.mine[k][cur] {
					d := det()
					d["field"], d["events"] = k.num, strings.Join(evs, "")
					c.Violation("lazy-trace:published-pointer-is-not-the-winner's:"+name, d)
				}
			}
		}
		sig = append(sig, fmt.Sprintf("%d:%s", k.num, strings.Join(evs, "")))
	}
	tr.mu.Unlock()
	sort.Strings(sig)
	if len(sig) > 0 {
		c.DistinctStr(name + "|" + fmt.Sprint(N) + "|" + strings.Join(sig, ","))
	}
	if c.WantSample() && len(sig) > 1 {
		for _, s := range sig {
			if strings.Contains(s, "l") {
				c.Sample(map[string]any{"type": name, "readers": N, "cfg": b.Cfg, "wire": core.Hex(enc), "lazy_trace_per_field(e=enter,d=decoded,w=cas won,l=cas lost)": sig})
				break
			}
		}
	}
}
