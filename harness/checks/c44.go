package checks

import (
	"fmt"
	"strings"

	"google.golang.org/protobuf/proto"
	"google.golang.org/protobuf/reflect/protoreflect"
	"google.golang.org/protobuf/types/known/fieldmaskpb"
	"google.golang.org/protobuf/verif/core"
)

func init() {
	core.Register(&core.Check{
		ID:         "C44",
		Rule:       "cases: every list of <= 3 paths over all strings of length <= L over {a,b,.} (L=3 quick, 4 thorough; enumerated completely for Normalize, and as (<=2 paths, <=1 path) pairs in both orders for Union/Intersect), PRNG lists of up to 6 dotted paths over segments {a,b,c,ab,a_b} in 2..4 masks, and paths built by descriptor walks over every corpus message type (valid by construction, then perturbed: continued through repeated/map/scalar fields, unknown names, empty segments, group names) for New/Append/IsValid; distinct = distinct (operation, path lists); non-trivial = at least one non-empty path",
		Assume:     []string{"coverage model: path p is covered by q iff p == q or p starts with q + '.' (harness/checks/c44.go, 10 lines)", "protoreflect descriptors of the corpus types"},
		Exhaustive: func(tier string) bool { return false },
		Batches: func(tier string) []core.Batch {
			return stdBatches([]string{"base"}, 16)
		},
		Gates: func(tier string) map[string]int64 {
			return map[string]int64{"normalize": 10000, "union": 10000, "intersect": 10000, "intersect_nonempty": 1000, "valid_paths": 1000, "invalid_paths": 1000, "append_calls": 1000, "valid_depth2": 100}
		},
		Run: runC44,
	})
}

// c44Covers: the coverage model.
func c44Covers(q, p string) bool {
	return p == q || (len(p) > len(q) && p[:len(q)] == q && p[len(q)] == '.')
}
func c44CoveredBy(mask []string, p string) bool {
	for _, q := range mask {
		if c44Covers(q, p) {
			return true
		}
	}
	return false
}

// c44SegLess: segment-wise lexicographic order.
func c44SegLess(x, y string) bool {
	xs, ys := strings.Split(x, "."), strings.Split(y, ".")
	for i := 0; i < len(xs) && i < len(ys); i++ {
		if xs[i] != ys[i] {
			return xs[i] < ys[i]
		}
	}
	return len(xs) < len(ys)
}

func c44Key(op string, masks ...[]string) string {
	var sb strings.Builder
	sb.WriteString(op)
	for _, m := range masks {
		sb.WriteString("|")
		sb.WriteString(strings.Join(m, ","))
	}
	return sb.String()
}

func c44NonTrivial(masks ...[]string) bool {
	for _, m := range masks {
		for _, p := range m {
			if p != "" {
				return true
			}
		}
	}
	return false
}

func cp(s []string) []string { return append([]string(nil), s...) }

func c44Normalize(c *core.Ctx, in []string) {
	c.Eval()
	c.Count("normalize")
	if c44NonTrivial(in) {
		c.DistinctStr(c44Key("N", in))
	}
	x := &fieldmaskpb.FieldMask{Paths: cp(in)}
	x.Normalize()
	out := cp(x.Paths)
	bad := func(what string) {
		c.Violation("normalize:"+what, map[string]any{"in": in, "out": out})
	}
	for _, p := range in {
		if !c44CoveredBy(out, p) {
			bad("loses-coverage")
			break
		}
	}
	for _, p := range out {
		if !c44CoveredBy(in, p) {
			bad("adds-coverage")
			break
		}
	}
	for i := range out {
		for j := range out {
			if i != j && c44Covers(out[i], out[j]) {
				bad("not-prefix-free")
			}
		}
		if i > 0 && !c44SegLess(out[i-1], out[i]) {
			bad("not-sorted")
		}
	}
	x.Normalize()
	if strings.Join(x.Paths, "\x00") != strings.Join(out, "\x00") || len(x.Paths) != len(out) {
		bad("not-idempotent")
	}
	if c.WantSample() && len(in) >= 3 && len(out) == 2 && len(in[0]) > 2 {
		c.Sample(map[string]any{"op": "Normalize", "in": in, "out": out})
	}
}

func c44Masks(ms [][]string) []*fieldmaskpb.FieldMask {
	var out []*fieldmaskpb.FieldMask
	for _, m := range ms {
		out = append(out, &fieldmaskpb.FieldMask{Paths: cp(m)})
	}
	return out
}

func c44UnionIntersect(c *core.Ctx, ms [][]string) {
	c.EvalN(2)
	c.Count("union")
	c.Count("intersect")
	if c44NonTrivial(ms...) {
		c.DistinctStr(c44Key("UI", ms...))
	}
	c.Log("C44 union/intersect %q", ms)
	fm := c44Masks(ms)
	var u *fieldmaskpb.FieldMask
	if !c.NoPanic("union:panic", map[string]any{"masks": ms}, func() { u = fieldmaskpb.Union(fm[0], fm[1], fm[2:]...) }) {
		return
	}
	for _, m := range ms {
		for _, p := range m {
			if !c44CoveredBy(u.GetPaths(), p) {
				c.Violation("union:loses-coverage", map[string]any{"masks": ms, "out": u.GetPaths()})
			}
		}
	}
	for _, p := range u.GetPaths() {
		ok := false
		for _, m := range ms {
			ok = ok || c44CoveredBy(m, p)
		}
		if !ok {
			c.Violation("union:adds-coverage", map[string]any{"masks": ms, "out": u.GetPaths()})
		}
	}
	fm = c44Masks(ms)
	var x *fieldmaskpb.FieldMask
	if !c.NoPanic("intersect:panic", map[string]any{"masks": ms}, func() { x = fieldmaskpb.Intersect(fm[0], fm[1], fm[2:]...) }) {
		return
	}
	// generators of the intersection of the covered sets
	g := cp(ms[0])
	for _, m := range ms[1:] {
		var ng []string
		for _, a := range g {
			for _, b := range m {
				if c44Covers(a, b) {
					ng = append(ng, b)
				} else if c44Covers(b, a) {
					ng = append(ng, a)
				}
			}
		}
		g = ng
	}
	if len(g) > 0 {
		c.Count("intersect_nonempty")
	}
	for _, p := range g {
		if !c44CoveredBy(x.GetPaths(), p) {
			c.Violation("intersect:loses-coverage", map[string]any{"masks": ms, "out": x.GetPaths(), "missing": p})
			break
		}
	}
	for _, p := range x.GetPaths() {
		for _, m := range ms {
			if !c44CoveredBy(m, p) {
				c.Violation("intersect:adds-coverage", map[string]any{"masks": ms, "out": x.GetPaths(), "extra": p})
			}
		}
	}
	if c.WantSample() && len(g) > 0 && len(ms[0]) > 1 && len(ms[0][0]) > 2 {
		c.Sample(map[string]any{"op": "Intersect", "masks": ms, "out": x.GetPaths(), "union": u.GetPaths()})
	}
}

func c44Alphabet(maxLen int) []string {
	out := []string{""}
	prev := []string{""}
	for l := 1; l <= maxLen; l++ {
		var cur []string
		for _, p := range prev {
			for _, ch := range []string{"a", "b", "."} {
				cur = append(cur, p+ch)
			}
		}
		out = append(out, cur...)
		prev = cur
	}
	return out
}

// c44PathValid: the descriptor walk. judged=false when the path crosses a
// delimited field that is not group-like (see DESIGN.md C44 tolerance).
func c44PathValid(md protoreflect.MessageDescriptor, path string) (valid, judged bool) {
	for _, seg := range strings.Split(path, ".") {
		if md == nil {
			return false, true
		}
		var fd protoreflect.FieldDescriptor
		fds := md.Fields()
		for i := 0; i < fds.Len(); i++ {
			f := fds.Get(i)
			if f.Kind() == protoreflect.GroupKind {
				if f.TextName() == string(f.Name()) {
					// lower-case message name or editions DELIMITED field with an unrelated name
					if seg == string(f.Name()) || seg == string(f.Message().Name()) || strings.ToLower(seg) == string(f.Name()) {
						return false, false
					}
					continue
				}
				if seg == f.TextName() { // the name of a group field is its message name
					fd = f
				}
				continue
			}
			if string(f.Name()) == seg {
				fd = f
			}
		}
		if fd == nil {
			return false, true
		}
		md = nil
		if fd.Message() != nil && !fd.IsList() && !fd.IsMap() {
			md = fd.Message()
		}
	}
	return true, true
}

func c44RandWalk(r *core.Rand, md protoreflect.MessageDescriptor) string {
	var segs []string
	for d := 0; d < 5 && md != nil && md.Fields().Len() > 0; d++ {
		fd := md.Fields().Get(r.Intn(md.Fields().Len()))
		// prefer message fields to get depth
		for t := 0; t < 3 && fd.Message() == nil; t++ {
			fd = md.Fields().Get(r.Intn(md.Fields().Len()))
		}
		name := string(fd.Name())
		if fd.Kind() == protoreflect.GroupKind && r.Chance(3, 4) {
			name = string(fd.Message().Name())
		}
		segs = append(segs, name)
		md = fd.Message()
		if (fd.IsList() || fd.IsMap()) && r.Chance(2, 3) {
			break
		}
		if md == nil || r.Chance(1, 3) {
			break
		}
	}
	p := strings.Join(segs, ".")
	if p == "" {
		return p
	}
	switch r.Intn(12) {
	case 0:
		p += "."
	case 1:
		p += ".nosuchfield"
	case 2:
		p = "." + p
	case 3:
		p = strings.Replace(p, ".", "..", 1)
	case 4:
		p = strings.ToUpper(p[:1]) + p[1:]
	case 5:
		if md != nil && md.Fields().Len() > 0 {
			p += "." + string(md.Fields().Get(0).JSONName())
		}
	case 6:
		p = ""
	case 7:
		p += ".value"
	}
	return p
}

func c44Descriptors(c *core.Ctx, b core.Batch) {
	types := shard(codecTypes(b), b.N, 16)
	per := c.Scale(12, 200)
	for ti, mt := range types {
		md := mt.Descriptor()
		name := string(md.FullName())
		m := mt.New().Interface()
		for k := 0; k < per; k++ {
			r := c.Rng(uint64(ti)<<20 | uint64(k))
			n := 1 + r.Intn(4)
			var paths []string
			wantN := -1
			judged := true
			for i := 0; i < n; i++ {
				p := c44RandWalk(r, md)
				paths = append(paths, p)
				v, j := c44PathValid(md, p)
				if wantN < 0 {
					if !j {
						judged = false
						break
					}
					if v {
						c.Count("valid_paths")
						if strings.Contains(p, ".") {
							c.Count("valid_depth2")
						}
					} else {
						c.Count("invalid_paths")
						wantN = i
					}
				}
			}
			if !judged {
				c.Count("unjudged_delimited")
				continue
			}
			if wantN < 0 {
				wantN = len(paths)
			}
			c.Eval()
			c.Count("append_calls")
			c.DistinctStr(c44Key("A:"+name, paths))
			c.Log("C44 append type=%s paths=%q", name, paths)
			pre := []string{"kept"}
			x := &fieldmaskpb.FieldMask{Paths: cp(pre)}
			var err error
			if !c.NoPanic("append:panic:"+name, map[string]any{"paths": paths}, func() { err = x.Append(m, paths...) }) {
				continue
			}
			det := map[string]any{"type": name, "paths": paths, "want_valid_prefix": wantN, "got": x.Paths, "err": errStr(err)}
			if (err == nil) != (wantN == len(paths)) {
				c.Violation(fmt.Sprintf("append:error-want-%v:%s", wantN != len(paths), name), det)
			}
			if len(x.Paths) != 1+wantN || x.Paths[0] != "kept" || strings.Join(x.Paths[1:], "\x00") != strings.Join(paths[:wantN], "\x00") {
				c.Violation("append:appended-paths:"+name, det)
			}
			y, err2 := fieldmaskpb.New(m, paths...)
			if (err2 == nil) != (err == nil) || strings.Join(y.GetPaths(), "\x00") != strings.Join(paths[:wantN], "\x00") {
				c.Violation("new:differs-from-append:"+name, det)
			}
			z := &fieldmaskpb.FieldMask{Paths: cp(paths)}
			if z.IsValid(m) != (wantN == len(paths)) {
				c.Violation(fmt.Sprintf("isvalid:want-%v:%s", wantN == len(paths), name), det)
			}
			if c.WantSample() && wantN > 0 && wantN < len(paths) {
				c.Sample(map[string]any{"op": "Append", "type": name, "paths": paths, "valid_prefix": wantN})
			}
		}
	}
	var nilMask *fieldmaskpb.FieldMask
	if nilMask.IsValid(proto.Message(&fieldmaskpb.FieldMask{})) {
		c.Violation("isvalid:nil-mask-valid", nil)
	}
}

func runC44(c *core.Ctx, b core.Batch) {
	alpha := c44Alphabet(c.Scale(3, 4))
	na := len(alpha)
	// exhaustive part, sharded by the first path
	for i := b.N; i < na; i += 16 {
		c44Normalize(c, []string{alpha[i]})
		for j := 0; j < na; j++ {
			c44Normalize(c, []string{alpha[i], alpha[j]})
			c44UnionIntersect(c, [][]string{{alpha[i]}, {alpha[j]}})
			for k := 0; k < na; k++ {
				c44Normalize(c, []string{alpha[i], alpha[j], alpha[k]})
				c44UnionIntersect(c, [][]string{{alpha[i], alpha[j]}, {alpha[k]}})
				c44UnionIntersect(c, [][]string{{alpha[k]}, {alpha[i], alpha[j]}})
			}
		}
	}
	if b.N == 0 {
		c44Normalize(c, nil)
		c44UnionIntersect(c, [][]string{nil, nil})
		c44UnionIntersect(c, [][]string{nil, {"a"}})
		c.Count(fmt.Sprintf("alphabet_size_%d", na))
	}
	// random part: longer lists, more masks
	segs := []string{"a", "b", "c", "ab", "a_b"}
	n := c.Scale(6000, 300000)
	for k := 0; k < n; k++ {
		r := c.Rng(uint64(k) | 1<<40)
		mk := func() []string {
			var m []string
			for i, l := 0, r.Intn(7); i < l; i++ {
				var p []string
				for d, dl := 0, 1+r.Intn(4); d < dl; d++ {
					p = append(p, segs[r.Intn(len(segs)-r.Intn(3))])
				}
				m = append(m, strings.Join(p, "."))
			}
			return m
		}
		c44Normalize(c, mk())
		var ms [][]string
		for i, l := 0, 2+r.Intn(3); i < l; i++ {
			ms = append(ms, mk())
		}
		c44UnionIntersect(c, ms)
	}
	c44Descriptors(c, b)
}
