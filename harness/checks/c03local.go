package checks

import (
	"fmt"
	"reflect"

	"google.golang.org/protobuf/proto"
	"google.golang.org/protobuf/reflect/protodesc"
	"google.golang.org/protobuf/reflect/protoreflect"
	"google.golang.org/protobuf/reflect/protoregistry"
	"google.golang.org/protobuf/runtime/protoiface"
	"google.golang.org/protobuf/runtime/protoimpl"
	"google.golang.org/protobuf/types/descriptorpb"
	"google.golang.org/protobuf/types/dynamicpb"
	"google.golang.org/protobuf/verif/core"
	"google.golang.org/protobuf/verif/gen"
)

// c03LocalResolver: extensions of a generated message that only a
// caller-supplied UnmarshalOptions.Resolver knows (declared in a dynamic file;
// two of them hand-declared with generated Go message types), set at several
// nesting levels. Decoding with that resolver, into the generated type and into
// dynamicpb, lazily and eagerly, must resolve them at every level.
func c03LocalResolver(c *core.Ctx, extendee string, idx int) {
	emt := gen.TypeByName(extendee)
	if emt == nil {
		return
	}
	emd := emt.Descriptor()
	nmd := emd.Messages().ByName("NestedMessage")
	if nmd == nil || nmd.Fields().ByName("corecursive") == nil {
		return
	}
	var nmt protoreflect.MessageType
	if t, err := protoregistry.GlobalTypes.FindMessageByName(nmd.FullName()); err == nil {
		nmt = t
	} else {
		return
	}
	pkg := fmt.Sprintf("verifloc03x%d", idx)
	opt := descriptorpb.FieldDescriptorProto_LABEL_OPTIONAL.Enum()
	rep := descriptorpb.FieldDescriptorProto_LABEL_REPEATED.Enum()
	x := func(name string, num int32, l *descriptorpb.FieldDescriptorProto_Label, t descriptorpb.FieldDescriptorProto_Type, tn protoreflect.FullName) *descriptorpb.FieldDescriptorProto {
		f := &descriptorpb.FieldDescriptorProto{Name: proto.String(name), Number: proto.Int32(num), Label: l, Type: t.Enum(), Extendee: proto.String("." + string(emd.FullName()))}
		if tn != "" {
			f.TypeName = proto.String("." + string(tn))
		}
		return f
	}
	fdp := &descriptorpb.FileDescriptorProto{Name: proto.String(pkg + "/ext.proto"), Package: proto.String(pkg), Syntax: proto.String("proto2"),
		Dependency: []string{emd.ParentFile().Path()},
		Extension: []*descriptorpb.FieldDescriptorProto{
			x("loc_i", 50001, opt, descriptorpb.FieldDescriptorProto_TYPE_SINT64, ""),
			x("loc_s", 50002, opt, descriptorpb.FieldDescriptorProto_TYPE_STRING, ""),
			x("loc_m", 50003, opt, descriptorpb.FieldDescriptorProto_TYPE_MESSAGE, emd.FullName()),
			x("loc_rm", 50004, rep, descriptorpb.FieldDescriptorProto_TYPE_MESSAGE, emd.FullName()),
			x("loc_nested", 50005, opt, descriptorpb.FieldDescriptorProto_TYPE_MESSAGE, nmd.FullName()),
			x("gen_m", 50010, opt, descriptorpb.FieldDescriptorProto_TYPE_MESSAGE, emd.FullName()),
			x("gen_nested", 50011, rep, descriptorpb.FieldDescriptorProto_TYPE_MESSAGE, nmd.FullName()),
		}}
	fd, err := protodesc.NewFile(fdp, protoregistry.GlobalFiles)
	if err != nil {
		c.Violation("harness:local-extension-file-invalid", map[string]any{"err": errStr(err), "extendee": extendee})
		return
	}
	dynTypes, genTypes := new(protoregistry.Types), new(protoregistry.Types)
	for i := 0; i < fd.Extensions().Len(); i++ {
		xd := fd.Extensions().Get(i)
		dynTypes.RegisterExtension(dynamicpb.NewExtensionType(xd))
		if xd.Number() < 50010 {
			genTypes.RegisterExtension(dynamicpb.NewExtensionType(xd))
		}
	}
	// the same numbers 50010/50011, declared the way generated code declares extensions: Go message types
	genTypes.RegisterExtension(&protoimpl.ExtensionInfo{ExtendedType: emt.Zero().Interface().(protoiface.MessageV1), ExtensionType: emt.Zero().Interface(), Field: 50010, Name: pkg + ".gen_m", Tag: "bytes,50010,opt,name=gen_m"})
	genTypes.RegisterExtension(&protoimpl.ExtensionInfo{ExtendedType: emt.Zero().Interface().(protoiface.MessageV1), ExtensionType: reflectSliceOf(nmt), Field: 50011, Name: pkg + ".gen_nested", Tag: "bytes,50011,rep,name=gen_nested"})
	for k := 0; k < c.Scale(120, 2500); k++ {
		r := c.Rng(uint64(0x03a)<<32 | uint64(idx)<<24 | uint64(k))
		content := dynamicpb.NewMessage(emd)
		gen.Fill(r, content, gen.MsgOpts{Density: 55, Extensions: true, Resolver: dynTypes, MaxDepth: 4})
		enc, err := proto.MarshalOptions{Deterministic: true, AllowPartial: true}.Marshal(content)
		if err != nil {
			continue
		}
		want := snapOf(content)
		if want.HasUnknownAnywhere() {
			continue // the content itself must be fully resolved
		}
		c.Eval()
		c.Count("local_resolver_cases")
		c.DistinctBytes([]byte(extendee), enc)
		c.Log("C03 local-resolver extendee=%s wire=%s", extendee, core.Hex(enc))
		for _, tgt := range []struct {
			name string
			mk   func() protoreflect.Message
			res  *protoregistry.Types
		}{
			{"generated", func() protoreflect.Message { return emt.New() }, genTypes},
			{"dynamicpb", func() protoreflect.Message { return dynamicpb.NewMessage(emd) }, dynTypes},
		} {
			for _, nolazy := range []bool{false, true} {
				m2 := tgt.mk()
				var uerr error
				d := map[string]any{"extendee": extendee, "wire": core.Hex(enc), "target": tgt.name, "nolazy": nolazy}
				if !c.NoPanic("rt:local-resolver:unmarshal-panic:"+tgt.name, d, func() {
					uerr = proto.UnmarshalOptions{AllowPartial: true, NoLazyDecoding: nolazy, Resolver: tgt.res}.Unmarshal(enc, m2.Interface())
				}) {
					continue
				}
				c.Count("local_resolver_decodes")
				if uerr != nil {
					d["err"] = errStr(uerr)
					c.Violation("rt:local-resolver:unmarshal-error:"+tgt.name, d)
					continue
				}
				var got string
				if !c.NoPanic("rt:local-resolver:access-panic:"+tgt.name, d, func() { got = snapOf(m2).String() }) {
					continue
				}
				if got != want.String() {
					d["want"], d["got"] = clip(want.String(), 1500), clip(got, 1500)
					c.Violation("rt:local-resolver:extension-not-resolved-or-content-differs:"+tgt.name+":"+firstDiff(want, snapOf(m2)), d)
					continue
				}
				if out, err := (proto.MarshalOptions{Deterministic: true, AllowPartial: true}).Marshal(m2.Interface()); err != nil || string(out) != string(enc) {
					d["out"] = core.Hex(out)
					c.Violation("rt:local-resolver:remarshal-differs:"+tgt.name, d)
				}
			}
		}
	}
}

// reflectSliceOf returns a nil slice value of the Go pointer type of mt ([]*T)(nil).
func reflectSliceOf(mt protoreflect.MessageType) any {
	return reflect.Zero(reflect.SliceOf(reflect.TypeOf(mt.Zero().Interface()))).Interface()
}
