package checks

import (
	"bytes"
	"encoding/base64"
	"encoding/json"
	"fmt"
	"math"
	"math/big"
	"strings"

	"google.golang.org/protobuf/encoding/protojson"
	"google.golang.org/protobuf/reflect/protoreflect"
	"google.golang.org/protobuf/types/dynamicpb"
	"google.golang.org/protobuf/verif/core"
	"google.golang.org/protobuf/verif/gen"
	"google.golang.org/protobuf/verif/model"
)

func init() {
	core.Register(&core.Check{
		ID:     "C22",
		Rule:   "cases: (numeric kind, position, literal, quoted?) where literals are (a) every alternative notation (exponent -25..+25, trailing fraction zeros, upper/lower E, explicit +) of boundary and PRNG integers around each type's limits, (b) those values perturbed by a fraction, (c) PRNG sign/int/frac/exp compositions with digit counts around 19-21, (d) float literals around MaxFloat32/64, the smallest subnormals and rounding ties, (e) syntactically invalid near-numbers; positions: singular, repeated element, map value, wrapper message, dynamicpb; plus base64 strings for bytes fields (all byte strings <= 2 and PRNG), enum names and numbers, and the marshal side (64-bit as strings, bytes as padded standard base64, enums by name or number); distinct = distinct (kind, literal, quoted); non-trivial = literal denotes a non-zero value or is invalid",
		Assume: []string{"math/big exact arithmetic and big.Rat.Float32/Float64 correct rounding", "model/jsonref.go number grammar (RFC 8259 section 6)", "encoding/base64 and encoding/json of the Go standard library"},
		Batches: func(tier string) []core.Batch {
			var bs []core.Batch
			for i := 0; i < 12; i++ {
				bs = append(bs, core.Batch{Cfg: "base", Name: fmt.Sprintf("num-%02d", i), Kind: "num", N: i})
			}
			bs = append(bs, core.Batch{Cfg: "base", Name: "bytes", Kind: "bytes"}, core.Batch{Cfg: "base", Name: "enum", Kind: "enum"}, core.Batch{Cfg: "base", Name: "marshal", Kind: "marshal"})
			return bs
		},
		Gates: func(tier string) map[string]int64 {
			return map[string]int64{"int_accept": 20000, "int_reject_range": 5000, "int_reject_nonintegral": 5000, "int_reject_syntax": 2000, "float_accept": 10000, "float_reject_overflow": 300,
				"float_tie": 100, "quoted": 10000, "alt_notation": 10000, "zero_int_part_exp": 500, "bytes_accept": 5000, "bytes_reject": 100, "enum_name": 10, "enum_number": 100, "marshal_64_string": 1000, "pos:list": 2000, "pos:map": 2000, "pos:wrapper": 1000, "pos:dynamic": 2000}
		},
		Run: runC22,
	})
}

type c22Kind struct {
	kind     protoreflect.Kind
	bits     int
	signed   bool
	float    bool
	min, max *big.Int
}

var c22Kinds = func() []c22Kind {
	two := big.NewInt(2)
	p := func(n int64) *big.Int { return new(big.Int).Exp(two, big.NewInt(n), nil) }
	m1 := func(x *big.Int) *big.Int { return new(big.Int).Sub(x, big.NewInt(1)) }
	i32 := c22Kind{bits: 32, signed: true, min: new(big.Int).Neg(p(31)), max: m1(p(31))}
	i64 := c22Kind{bits: 64, signed: true, min: new(big.Int).Neg(p(63)), max: m1(p(63))}
	u32 := c22Kind{bits: 32, min: new(big.Int), max: m1(p(32))}
	u64 := c22Kind{bits: 64, min: new(big.Int), max: m1(p(64))}
	w := func(k c22Kind, kind protoreflect.Kind) c22Kind { k.kind = kind; return k }
	return []c22Kind{
		w(i32, protoreflect.Int32Kind), w(i64, protoreflect.Int64Kind), w(u32, protoreflect.Uint32Kind), w(u64, protoreflect.Uint64Kind),
		w(i32, protoreflect.Sint32Kind), w(i64, protoreflect.Sint64Kind), w(u32, protoreflect.Fixed32Kind), w(u64, protoreflect.Fixed64Kind),
		w(i32, protoreflect.Sfixed32Kind), w(i64, protoreflect.Sfixed64Kind),
		{kind: protoreflect.FloatKind, bits: 32, float: true}, {kind: protoreflect.DoubleKind, bits: 64, float: true},
	}
}()

// c22Pos is one way to place a literal of a kind in a document.
type c22Pos struct {
	name string
	mt   protoreflect.MessageType
	dyn  bool
	fd   protoreflect.FieldDescriptor
	wrap func(lit string) string
	get  func(m protoreflect.Message) (protoreflect.Value, bool)
}

func c22Positions(k protoreflect.Kind) []c22Pos {
	var out []c22Pos
	mt := gen.TypeByName("goproto.proto.test3.TestAllTypes")
	fs := mt.Descriptor().Fields()
	for i := 0; i < fs.Len(); i++ {
		fd := fs.Get(i)
		jn := fd.JSONName()
		switch {
		case fd.IsMap():
			if fd.MapValue().Kind() != k {
				continue
			}
			key := "5"
			if fd.MapKey().Kind() == protoreflect.StringKind {
				key = "k"
			}
			kk := fd.MapKey()
			out = append(out, c22Pos{name: "map", mt: mt, fd: fd,
				wrap: func(l string) string { return `{"` + jn + `":{"` + key + `":` + l + `}}` },
				get: func(m protoreflect.Message) (protoreflect.Value, bool) {
					mp := m.Get(fd).Map()
					if mp.Len() != 1 {
						return protoreflect.Value{}, false
					}
					var mk protoreflect.MapKey
					switch kk.Kind() {
					case protoreflect.StringKind:
						mk = protoreflect.ValueOfString("k").MapKey()
					case protoreflect.Int32Kind, protoreflect.Sint32Kind, protoreflect.Sfixed32Kind:
						mk = protoreflect.ValueOfInt32(5).MapKey()
					case protoreflect.Int64Kind, protoreflect.Sint64Kind, protoreflect.Sfixed64Kind:
						mk = protoreflect.ValueOfInt64(5).MapKey()
					case protoreflect.Uint32Kind, protoreflect.Fixed32Kind:
						mk = protoreflect.ValueOfUint32(5).MapKey()
					default:
						mk = protoreflect.ValueOfUint64(5).MapKey()
					}
					if !mp.Has(mk) {
						return protoreflect.Value{}, false
					}
					return mp.Get(mk), true
				}})
		case fd.Kind() != k || fd.ContainingOneof() != nil:
			continue
		case fd.IsList():
			out = append(out, c22Pos{name: "list", mt: mt, fd: fd,
				wrap: func(l string) string { return `{"` + jn + `":[` + l + `]}` },
				get: func(m protoreflect.Message) (protoreflect.Value, bool) {
					ls := m.Get(fd).List()
					if ls.Len() != 1 {
						return protoreflect.Value{}, false
					}
					return ls.Get(0), true
				}})
		default:
			p := c22Pos{name: "singular", mt: mt, fd: fd,
				wrap: func(l string) string { return `{"` + jn + `": ` + l + `}` },
				get:  func(m protoreflect.Message) (protoreflect.Value, bool) { return m.Get(fd), true }}
			out = append(out, p)
			pd := p
			pd.name, pd.dyn = "dynamic", true
			out = append(out, pd)
		}
	}
	// wrapper types
	wn := map[protoreflect.Kind]string{protoreflect.Int32Kind: "Int32Value", protoreflect.Int64Kind: "Int64Value", protoreflect.Uint32Kind: "UInt32Value",
		protoreflect.Uint64Kind: "UInt64Value", protoreflect.FloatKind: "FloatValue", protoreflect.DoubleKind: "DoubleValue"}[k]
	if wn != "" {
		wt := gen.TypeByName("google.protobuf." + wn)
		vf := wt.Descriptor().Fields().ByName("value")
		out = append(out, c22Pos{name: "wrapper", mt: wt, fd: vf,
			wrap: func(l string) string { return l },
			get:  func(m protoreflect.Message) (protoreflect.Value, bool) { return m.Get(vf), true }})
	}
	return out
}

func (p c22Pos) decode(doc string) (protoreflect.Message, error) {
	var m protoreflect.Message
	if p.dyn {
		m = dynamicpb.NewMessage(p.mt.Descriptor())
	} else {
		m = p.mt.New()
	}
	err := protojson.Unmarshal([]byte(doc), m.Interface())
	return m, err
}

// c22Expect is the oracle: does kind k accept literal lit (bare or quoted),
// and with which value.
func c22Expect(k c22Kind, lit string, quoted bool) (accept bool, ival *big.Int, fbits uint64, class string) {
	if k.float && quoted {
		switch lit {
		case "NaN":
			return true, nil, math.Float64bits(math.NaN()), "special"
		case "Infinity":
			return true, nil, math.Float64bits(math.Inf(1)), "special"
		case "-Infinity":
			return true, nil, math.Float64bits(math.Inf(-1)), "special"
		}
	}
	n, ok := model.ParseNumLit(lit)
	if !ok {
		return false, nil, 0, "syntax"
	}
	if !k.float {
		v, integral, huge := n.Integer()
		if !integral {
			return false, nil, 0, "nonintegral"
		}
		if huge || v.Cmp(k.min) < 0 || v.Cmp(k.max) > 0 {
			return false, nil, 0, "range"
		}
		return true, v, 0, "ok"
	}
	r, cl := n.Rat()
	var f float64
	switch {
	case cl > 0:
		return false, nil, 0, "overflow"
	case cl < 0:
		f = 0
	case k.bits == 32:
		f32, _ := r.Float32()
		f = float64(f32)
	default:
		f, _ = r.Float64()
	}
	if math.IsInf(f, 0) {
		return false, nil, 0, "overflow"
	}
	if f == 0 && n.Neg {
		f = math.Copysign(0, -1)
	}
	return true, nil, math.Float64bits(f), "ok"
}

func c22Check(c *core.Ctx, k c22Kind, p c22Pos, lit string, quoted bool, tag string) {
	c.Eval()
	doc := lit
	if quoted {
		doc = `"` + lit + `"`
	}
	doc = p.wrap(doc)
	accept, iv, fb, class := c22Expect(k, lit, quoted)
	c.Log("C22 kind=%v pos=%s doc=%s", k.kind, p.name, doc)
	var m protoreflect.Message
	var err error
	if !c.NoPanic("num:panic:"+k.kind.String(), map[string]any{"doc": doc}, func() { m, err = p.decode(doc) }) {
		return
	}
	if class != "ok" || lit != "0" {
		c.DistinctStr(k.kind.String() + "/" + lit + fmt.Sprint(quoted))
	}
	c.Count("pos:" + p.name)
	if quoted {
		c.Count("quoted")
	}
	kc := "int"
	if k.float {
		kc = "float"
	}
	if accept {
		c.Count(kc + "_accept")
	} else {
		c.Count(kc + "_reject_" + class)
	}
	if tag != "" {
		c.Count(tag)
	}
	shape := c22Shape(lit)
	if (err == nil) != accept {
		c.Violation(fmt.Sprintf("num:%s:want-accept=%v:%s:%s:%s", kc, accept, class, shape, tagOr(tag)), map[string]any{"kind": k.kind.String(), "pos": p.name, "doc": doc, "err": errStr(err), "quoted": quoted})
		return
	}
	if !accept {
		return
	}
	v, ok := p.get(m)
	if !ok {
		c.Violation("num:value-missing:"+k.kind.String()+":"+p.name, map[string]any{"doc": doc})
		return
	}
	if k.float {
		var got float64
		if k.bits == 32 {
			got = float64(float32(v.Float()))
		} else {
			got = v.Float()
		}
		gb := math.Float64bits(got)
		if gb != fb && !(math.IsNaN(got) && math.IsNaN(math.Float64frombits(fb))) {
			c.Violation(fmt.Sprintf("num:float-value:%s:%s", k.kind, shape), map[string]any{"doc": doc, "got": got, "want": math.Float64frombits(fb), "got_bits": fmt.Sprintf("%016x", gb), "want_bits": fmt.Sprintf("%016x", fb)})
		}
		return
	}
	var got *big.Int
	if k.signed {
		got = big.NewInt(v.Int())
	} else {
		got = new(big.Int).SetUint64(v.Uint())
	}
	if got.Cmp(iv) != 0 {
		c.Violation(fmt.Sprintf("num:int-value:%s:%s", k.kind, shape), map[string]any{"doc": doc, "got": got.String(), "want": iv.String()})
	}
	if c.WantSample() && strings.ContainsAny(lit, "eE") && strings.Contains(lit, ".") && len(lit) > 12 {
		c.Sample(map[string]any{"kind": k.kind.String(), "pos": p.name, "doc": doc, "decoded": got.String()})
	}
}

func tagOr(t string) string {
	if t == "" {
		return "-"
	}
	return t
}

// c22Shape classifies a literal's notation (stable part of a fingerprint).
func c22Shape(lit string) string {
	s := ""
	t := strings.TrimPrefix(lit, "-")
	if strings.HasPrefix(t, "0.") {
		s += "zero-int-part,"
	}
	if strings.Contains(lit, ".") {
		s += "frac,"
	}
	if i := strings.IndexAny(lit, "eE"); i >= 0 {
		e := lit[i+1:]
		switch {
		case e == "" || e == "+" || e == "-":
			s += "exp-no-digits"
		case strings.HasPrefix(e, "-"):
			s += "exp-neg"
		default:
			s += "exp-pos"
		}
	}
	if s == "" {
		s = "plain"
	}
	return strings.TrimSuffix(s, ",")
}

// altNotations writes integer v (decimal digits, no sign) times 10^0 in
// other notations: mantissa * 10^e for e in [-25,25].
func altNotation(r *core.Rand, digits string, neg bool, e int) string {
	var mant string
	switch {
	case e == 0:
		mant = digits
	case e > 0: // move the point e places to the left
		if len(digits) > e {
			mant = digits[:len(digits)-e] + "." + digits[len(digits)-e:]
		} else {
			mant = "0." + strings.Repeat("0", e-len(digits)) + digits
		}
	default:
		if digits == "0" {
			mant = "0"
		} else {
			mant = digits + strings.Repeat("0", -e)
		}
	}
	if r.Chance(1, 4) {
		if !strings.Contains(mant, ".") {
			mant += "."
		}
		mant += strings.Repeat("0", 1+r.Intn(3))
	}
	mant = strings.TrimSuffix(mant, ".")
	exp := ""
	if e != 0 || r.Chance(1, 5) {
		exp = []string{"e", "E"}[r.Intn(2)]
		switch {
		case e < 0:
			exp += "-"
		case r.Bool():
			exp += "+"
		}
		if r.Chance(1, 6) {
			exp += "0"
		}
		if e < 0 {
			exp += fmt.Sprint(-e)
		} else {
			exp += fmt.Sprint(e)
		}
	}
	if neg {
		return "-" + mant + exp
	}
	return mant + exp
}

var c22BadNumbers = []string{"", "-", "+1", "01", "-01", "1.", ".5", "-.5", "1e", "1E", "1e+", "1e-", "1.e3", "1.5e", "0x10", "1_0", "1,0", "1 0", " 1", "1 ", "Infinity", "NaN", "-Infinity", "inf", "nan",
	"1e1.5", "1ee2", "--1", "1-", "00", "0e", "0.e1", "1.0e+", "١", "1f", "1d", "1L", "0b1", "0o7", "1e0x1", "+0", "-+1", "1.2.3", "true", "null", "{}", "[1]"}

func runC22(c *core.Ctx, b core.Batch) {
	switch b.Kind {
	case "bytes":
		c22Bytes(c)
		return
	case "enum":
		c22Enum(c)
		return
	case "marshal":
		c22Marshal(c)
		return
	}
	k := c22Kinds[b.N]
	poss := c22Positions(k.kind)
	if len(poss) < 3 {
		c.Violation("harness:positions:"+k.kind.String(), nil)
		return
	}
	pi := 0
	next := func() c22Pos { pi++; return poss[pi%len(poss)] }
	// (e) invalid near-numbers, every position, bare and quoted
	for _, p := range poss {
		for _, bad := range c22BadNumbers {
			if bad == "" || strings.ContainsAny(bad, "{[, ") || bad == "true" || bad == "null" {
				if bad != "" {
					c22Check(c, k, p, bad, true, "")
				}
				continue
			}
			c22Check(c, k, p, bad, false, "")
			c22Check(c, k, p, bad, true, "")
		}
		c22Check(c, k, p, "", true, "")
	}
	// boundary integers
	var bounds []*big.Int
	for _, kk := range c22Kinds[:4] {
		for d := int64(-2); d <= 2; d++ {
			bounds = append(bounds, new(big.Int).Add(kk.min, big.NewInt(d)), new(big.Int).Add(kk.max, big.NewInt(d)))
		}
	}
	for e := 0; e <= 21; e++ {
		p10 := new(big.Int).Exp(big.NewInt(10), big.NewInt(int64(e)), nil)
		for _, mul := range []int64{1, 2, 4, 9, -1, -4, -9, 18, 92} {
			bounds = append(bounds, new(big.Int).Mul(p10, big.NewInt(mul)))
		}
	}
	bounds = append(bounds, big.NewInt(0), big.NewInt(100), big.NewInt(-100), big.NewInt(12300), big.NewInt(1<<24), big.NewInt(1<<53), big.NewInt(1<<53+1))
	emit := func(r *core.Rand, v *big.Int) {
		neg := v.Sign() < 0
		digits := new(big.Int).Abs(v).String()
		for e := -25; e <= 25; e++ {
			lit := altNotation(r, digits, neg, e)
			tag := "alt_notation"
			c22Check(c, k, next(), lit, r.Chance(1, 3), tag)
			if strings.HasPrefix(strings.TrimPrefix(lit, "-"), "0.") && strings.ContainsAny(lit, "eE") {
				c.Count("zero_int_part_exp")
			}
		}
		// (b) perturb by a fraction: not integral any more
		for _, fr := range []string{".5", ".000000000000000000001", ".9", ".1e0", ".25e1", "5e-1"} {
			lit := v.String()
			if strings.HasPrefix(fr, ".") {
				lit += fr
			} else {
				lit += fr // e.g. 125e-1
			}
			c22Check(c, k, next(), lit, r.Chance(1, 3), "")
		}
	}
	for i, v := range bounds {
		emit(c.SysRng(uint64(i)), v)
	}
	nrand := c.Scale(300, 6000)
	for i := 0; i < nrand; i++ {
		r := c.Rng(uint64(i))
		var v *big.Int
		switch r.Intn(4) {
		case 0:
			v = new(big.Int).SetUint64(r.Uint64Boundary())
		case 1:
			v = big.NewInt(int64(r.Uint64Boundary()))
		case 2:
			v = new(big.Int).Add(bounds[r.Intn(len(bounds))], big.NewInt(int64(r.Intn(2001)-1000)))
		default: // trailing zeros
			v = new(big.Int).Mul(big.NewInt(int64(r.Intn(1000))), new(big.Int).Exp(big.NewInt(10), big.NewInt(int64(r.Intn(20))), nil))
			if r.Bool() {
				v.Neg(v)
			}
		}
		emit(r, v)
	}
	// (c) free compositions
	ncomp := c.Scale(20000, 400000)
	for i := 0; i < ncomp; i++ {
		r := c.Rng(uint64(1<<40 | i))
		var sb strings.Builder
		if r.Chance(1, 3) {
			sb.WriteByte('-')
		}
		nd := []int{1, 1, 2, 5, 9, 10, 18, 19, 20, 21, 22, 30}[r.Intn(12)]
		if r.Chance(1, 5) {
			sb.WriteByte('0')
		} else {
			sb.WriteByte(byte('1' + r.Intn(9)))
			for j := 1; j < nd; j++ {
				sb.WriteByte(byte('0' + r.Intn(10)*r.Intn(2)))
			}
		}
		if r.Chance(1, 2) {
			sb.WriteByte('.')
			nf := 1 + r.Intn(24)
			for j := 0; j < nf; j++ {
				sb.WriteByte(byte('0' + r.Intn(10)*r.Intn(2)*r.Intn(2)))
			}
		}
		if r.Chance(2, 3) {
			sb.WriteByte("eE"[r.Intn(2)])
			sb.WriteString([]string{"", "+", "-"}[r.Intn(3)])
			switch r.Intn(10) {
			case 0:
				sb.WriteString(fmt.Sprint(r.Intn(400)))
			case 1:
				sb.WriteString([]string{"2147483647", "2147483648", "4294967296", "99999999999999999999", "0000000000000000000001"}[r.Intn(5)])
			default:
				sb.WriteString(fmt.Sprint(r.Intn(45)))
			}
		}
		c22Check(c, k, next(), sb.String(), r.Chance(1, 4), "")
	}
	if !k.float {
		return
	}
	// (d) float limits and ties
	type fl struct{ lit, tag string }
	var fls []fl
	add := func(tag string, lits ...string) {
		for _, l := range lits {
			fls = append(fls, fl{l, tag}, fl{"-" + l, tag})
		}
	}
	add("", "3.4028234663852886e38", "3.4028235e38", "3.40282356e38", "3.4028235677973366e38", "3.4028235677973367e38", "3.4028236e38", "3.5e38", "1e39",
		"1.7976931348623157e308", "1.7976931348623158e308", "1.797693134862315807e308", "1.797693134862315808e308", "1.7976931348623159e308", "1.8e308", "1e309", "1e400", "1e5000", "1e5001", "1e99999", "1e2147483648",
		"1e-45", "1.4e-45", "7e-46", "7.006492321624085e-46", "7.0064923216240853e-46", "7.0064923216240854e-46", "1e-46", "1e-324", "4.9e-324", "2.4703282292062327e-324", "2.4703282292062328e-324", "2.5e-324", "1e-400", "1e-5001", "1e-99999",
		"0.0", "0e0", "0e999999", "0.0e-999999")
	// ties: exact midpoints between adjacent float32 values are exactly representable as decimals
	for i := 0; i < c.Scale(400, 4000); i++ {
		r := c.Rng(uint64(2<<40 | i))
		bits := uint32(r.Uint64())&0x7fffffff | 1
		if bits>>23 >= 254 || bits>>23 < 100 || bits>>23 > 160 {
			bits = bits&0x007fffff | uint32(100+r.Intn(60))<<23
		}
		a := new(big.Rat).SetFloat64(float64(math.Float32frombits(bits)))
		bb := new(big.Rat).SetFloat64(float64(math.Float32frombits(bits + 1)))
		mid := new(big.Rat).Add(a, bb)
		mid.Quo(mid, big.NewRat(2, 1))
		lit := mid.FloatString(200)
		lit = strings.TrimRight(strings.TrimRight(lit, "0"), ".")
		fls = append(fls, fl{lit, "float_tie"})
		// just above / below the tie
		fls = append(fls, fl{lit + "0000000000000000000000000001", ""})
	}
	for i := 0; i < c.Scale(400, 4000); i++ {
		r := c.Rng(uint64(3<<40 | i))
		f := math.Float64frombits(r.Uint64() & 0x7fffffffffffffff)
		if math.IsInf(f, 0) || math.IsNaN(f) {
			continue
		}
		a := new(big.Rat).SetFloat64(f)
		nb := math.Nextafter(f, math.Inf(1))
		if math.IsInf(nb, 0) {
			continue
		}
		bb := new(big.Rat).SetFloat64(nb)
		mid := new(big.Rat).Add(a, bb)
		mid.Quo(mid, big.NewRat(2, 1))
		e := big.NewFloat(0).SetRat(mid).Text('e', 40)
		_ = e
		if f > 1e-30 && f < 1e30 {
			lit := strings.TrimRight(strings.TrimRight(mid.FloatString(160), "0"), ".")
			fls = append(fls, fl{lit, "float_tie"})
		}
		fls = append(fls, fl{fmt.Sprintf("%.17g", f), ""}, fl{fmt.Sprintf("%.9g", f), ""})
	}
	for i, x := range fls {
		if x.lit == "" || x.lit == "-" {
			continue
		}
		c22Check(c, k, next(), x.lit, i%3 == 0, x.tag)
	}
}

func c22BytesPositions() []c22Pos {
	mt := gen.TypeByName("goproto.proto.test3.TestAllTypes")
	fs := mt.Descriptor().Fields()
	sb, rb, mb := fs.ByName("singular_bytes"), fs.ByName("repeated_bytes"), fs.ByName("map_string_bytes")
	wt := gen.TypeByName("google.protobuf.BytesValue")
	vf := wt.Descriptor().Fields().ByName("value")
	return []c22Pos{
		{name: "singular", mt: mt, fd: sb, wrap: func(l string) string { return `{"singularBytes":` + l + `}` }, get: func(m protoreflect.Message) (protoreflect.Value, bool) { return m.Get(sb), true }},
		{name: "dynamic", dyn: true, mt: mt, fd: sb, wrap: func(l string) string { return `{"singularBytes":` + l + `}` }, get: func(m protoreflect.Message) (protoreflect.Value, bool) { return m.Get(sb), true }},
		{name: "list", mt: mt, fd: rb, wrap: func(l string) string { return `{"repeatedBytes":[` + l + `]}` }, get: func(m protoreflect.Message) (protoreflect.Value, bool) {
			if m.Get(rb).List().Len() != 1 {
				return protoreflect.Value{}, false
			}
			return m.Get(rb).List().Get(0), true
		}},
		{name: "map", mt: mt, fd: mb, wrap: func(l string) string { return `{"mapStringBytes":{"k":` + l + `}}` }, get: func(m protoreflect.Message) (protoreflect.Value, bool) {
			return m.Get(mb).Map().Get(protoreflect.ValueOfString("k").MapKey()), m.Get(mb).Map().Len() == 1
		}},
		{name: "wrapper", mt: wt, fd: vf, wrap: func(l string) string { return l }, get: func(m protoreflect.Message) (protoreflect.Value, bool) { return m.Get(vf), true }},
	}
}

func c22Bytes(c *core.Ctx) {
	poss := c22BytesPositions()
	encs := []*base64.Encoding{base64.StdEncoding, base64.URLEncoding, base64.RawStdEncoding, base64.RawURLEncoding}
	encNames := []string{"std", "url", "rawstd", "rawurl"}
	pi := 0
	tryStr := func(s string, want []byte, mustAccept bool, tag string) {
		pi++
		p := poss[pi%len(poss)]
		c.Eval()
		qb, _ := json.Marshal(s)
		doc := p.wrap(string(qb))
		c.Log("C22 bytes pos=%s doc=%s", p.name, doc)
		c.DistinctStr("b/" + s)
		var m protoreflect.Message
		var err error
		if !c.NoPanic("bytes:panic", map[string]any{"doc": doc}, func() { m, err = p.decode(doc) }) {
			return
		}
		if err != nil {
			c.Count("bytes_reject")
			if mustAccept {
				c.Violation("bytes:reference-encoding-rejected:"+tag, map[string]any{"doc": doc, "err": errStr(err), "bytes": core.Hex(want)})
			}
			return
		}
		c.Count("bytes_accept")
		v, ok := p.get(m)
		if !ok {
			c.Violation("bytes:value-missing:"+p.name, map[string]any{"doc": doc})
			return
		}
		got := v.Bytes()
		if mustAccept {
			if !bytes.Equal(got, want) {
				c.Violation("bytes:wrong-value:"+tag, map[string]any{"doc": doc, "got": core.Hex(got), "want": core.Hex(want)})
			}
			return
		}
		// accepted: some reference decoder must accept with that value
		for _, e := range encs {
			if d, e2 := e.DecodeString(s); e2 == nil && bytes.Equal(d, got) {
				return
			}
		}
		c.Violation("bytes:accepted-but-no-reference-decoder-agrees", map[string]any{"doc": doc, "got": core.Hex(got)})
	}
	all := func(raw []byte) {
		for i, e := range encs {
			tryStr(e.EncodeToString(raw), raw, true, encNames[i])
		}
	}
	all(nil)
	for a := 0; a < 256; a++ {
		all([]byte{byte(a)})
	}
	step := c.Scale(7, 1)
	for x := 0; x < 65536; x += step {
		all([]byte{byte(x >> 8), byte(x)})
	}
	for i := 0; i < c.Scale(3000, 60000); i++ {
		r := c.Rng(uint64(i))
		raw := r.Bytes(r.Intn(40))
		all(raw)
		if c.WantSample() && len(raw) > 5 {
			c.Sample(map[string]any{"bytes": core.Hex(raw), "accepted_forms": []string{base64.StdEncoding.EncodeToString(raw), base64.RawURLEncoding.EncodeToString(raw)}})
		}
	}
	// arbitrary strings over the base64 alphabets and junk
	alpha := "AZaz09+/-_= \n.!"
	for i := 0; i < c.Scale(20000, 400000); i++ {
		r := c.Rng(uint64(1<<40 | i))
		n := r.Intn(10)
		bs := make([]byte, n)
		for j := range bs {
			bs[j] = alpha[r.Intn(len(alpha))]
		}
		tryStr(string(bs), nil, false, "")
	}
	// non-string tokens are not bytes
	for _, p := range poss {
		for _, l := range []string{"1", "true", "null", "[]", "{}"} {
			if l == "null" {
				continue // null means "absent" for fields
			}
			if _, err := p.decode(p.wrap(l)); err == nil {
				c.Violation("bytes:non-string-accepted:"+l, map[string]any{"pos": p.name})
			}
			c.Eval()
		}
	}
}

func c22Enum(c *core.Ctx) {
	for _, mt := range gen.Types("goproto.proto.test3.TestAllTypes", "goproto.proto.test.TestAllTypes", "goproto.proto.testeditions.TestAllTypes", "goproto.proto.enums.", "pb2.Enums", "pb3.Enums") {
		md := mt.Descriptor()
		if md.IsMapEntry() {
			continue
		}
		fs := md.Fields()
		for i := 0; i < fs.Len(); i++ {
			fd := fs.Get(i)
			if fd.Kind() != protoreflect.EnumKind || fd.IsMap() {
				continue
			}
			wrap := func(l string) string { return `{"` + fd.JSONName() + `":` + l + `}` }
			get := func(m protoreflect.Message) (protoreflect.EnumNumber, bool) {
				return m.Get(fd).Enum(), m.Has(fd) || fd.HasPresence() == false
			}
			if fd.IsList() {
				wrap = func(l string) string { return `{"` + fd.JSONName() + `":[` + l + `]}` }
				get = func(m protoreflect.Message) (protoreflect.EnumNumber, bool) {
					if m.Get(fd).List().Len() != 1 {
						return 0, false
					}
					return m.Get(fd).List().Get(0).Enum(), true
				}
			}
			dec := func(l string, discard bool) (protoreflect.Message, error) {
				m := mt.New()
				err := protojson.UnmarshalOptions{DiscardUnknown: discard}.Unmarshal([]byte(wrap(l)), m.Interface())
				return m, err
			}
			vals := fd.Enum().Values()
			for j := 0; j < vals.Len(); j++ {
				ev := vals.Get(j)
				c.Eval()
				c.Count("enum_name")
				c.DistinctStr(string(fd.FullName()) + "/" + string(ev.Name()))
				m, err := dec(`"`+string(ev.Name())+`"`, false)
				if err != nil {
					c.Violation("enum:declared-name-rejected:"+string(fd.FullName()), map[string]any{"name": string(ev.Name()), "err": errStr(err)})
				} else if n, ok := get(m); !ok || n != ev.Number() {
					c.Violation("enum:name-wrong-number:"+string(fd.FullName()), map[string]any{"name": string(ev.Name()), "got": int32(n), "want": int32(ev.Number())})
				}
				for _, bad := range []string{strings.ToLower(string(ev.Name())) + "x", string(ev.Name()) + " ", " " + string(ev.Name())} {
					c.Eval()
					if vals.ByName(protoreflect.Name(bad)) != nil {
						continue
					}
					if _, err := dec(`"`+bad+`"`, false); err == nil {
						c.Violation("enum:undeclared-name-accepted:"+string(fd.FullName()), map[string]any{"name": bad})
					}
				}
			}
			// numbers: any int32-valued JSON number
			nums := []string{"0", "1", "-1", "2147483647", "-2147483648", "1e2", "100.0", "1.5e1", "12300e-2", "0.00021e5", "0.0000000000000000000021e23"}
			for j := 0; j < 20; j++ {
				nums = append(nums, fmt.Sprint(int32(c.Rng(uint64(i*100+j)).Uint64())))
			}
			for _, l := range nums {
				c.Eval()
				c.Count("enum_number")
				c.DistinctStr(string(fd.FullName()) + "#" + l)
				n, _ := model.ParseNumLit(l)
				want, _, _ := n.Integer()
				m, err := dec(l, false)
				if err != nil {
					c.Violation("enum:int32-number-rejected:"+c22Shape(l), map[string]any{"field": string(fd.FullName()), "lit": l, "err": errStr(err)})
				} else if got, ok := get(m); !ok || int64(got) != want.Int64() {
					c.Violation("enum:number-wrong-value:"+c22Shape(l), map[string]any{"field": string(fd.FullName()), "lit": l, "got": int32(got), "want": want.String()})
				}
			}
			for _, l := range []string{"2147483648", "-2147483649", "1.5", "1e10", "1e-1", "0.5", "true", "[]", "{}", "1e", "01"} {
				c.Eval()
				if _, err := dec(l, false); err == nil {
					c.Violation("enum:bad-number-accepted:"+l, map[string]any{"field": string(fd.FullName())})
				}
			}
		}
	}
}

func c22Marshal(c *core.Ctx) {
	mt := gen.TypeByName("goproto.proto.test3.TestAllTypes")
	md := mt.Descriptor()
	fs := md.Fields()
	for i := 0; i < c.Scale(3000, 60000); i++ {
		r := c.Rng(uint64(i))
		dyn := i%2 == 1
		m := newOf(mt, dyn)
		var picked []protoreflect.FieldDescriptor
		for j := 0; j < fs.Len(); j++ {
			fd := fs.Get(j)
			if fd.IsMap() || fd.IsList() || fd.ContainingOneof() != nil || fd.Message() != nil || fd.Kind() == protoreflect.StringKind || fd.Kind() == protoreflect.BoolKind {
				continue
			}
			if r.Chance(1, 2) {
				continue
			}
			m.Set(fd, gen.RandScalar(r, fd, gen.MsgOpts{}))
			picked = append(picked, fd)
		}
		enumNums := i%3 == 0
		out, err := protojson.MarshalOptions{UseEnumNumbers: enumNums}.Marshal(m.Interface())
		c.Eval()
		if err != nil {
			c.Violation("marshal:error", map[string]any{"err": errStr(err)})
			continue
		}
		var doc map[string]json.RawMessage
		if e := json.Unmarshal(out, &doc); e != nil {
			c.Violation("marshal:not-an-object", map[string]any{"out": string(out)})
			continue
		}
		for _, fd := range picked {
			if !m.Has(fd) {
				continue
			}
			raw, ok := doc[fd.JSONName()]
			if !ok {
				c.Violation("marshal:populated-field-missing:"+string(fd.Name()), map[string]any{"out": string(out)})
				continue
			}
			raw = bytes.TrimSpace(raw)
			v := m.Get(fd)
			c.DistinctStr(string(fd.Name()) + string(raw))
			switch fd.Kind() {
			case protoreflect.Int64Kind, protoreflect.Sint64Kind, protoreflect.Sfixed64Kind:
				c.Count("marshal_64_string")
				if string(raw) != `"`+fmt.Sprint(v.Int())+`"` {
					c.Violation("marshal:int64-not-decimal-string", map[string]any{"field": string(fd.Name()), "raw": string(raw), "value": v.Int()})
				}
			case protoreflect.Uint64Kind, protoreflect.Fixed64Kind:
				c.Count("marshal_64_string")
				if string(raw) != `"`+fmt.Sprint(v.Uint())+`"` {
					c.Violation("marshal:uint64-not-decimal-string", map[string]any{"field": string(fd.Name()), "raw": string(raw), "value": v.Uint()})
				}
			case protoreflect.Int32Kind, protoreflect.Sint32Kind, protoreflect.Sfixed32Kind:
				if string(raw) != fmt.Sprint(v.Int()) {
					c.Violation("marshal:int32-not-decimal-number", map[string]any{"field": string(fd.Name()), "raw": string(raw), "value": v.Int()})
				}
			case protoreflect.Uint32Kind, protoreflect.Fixed32Kind:
				if string(raw) != fmt.Sprint(v.Uint()) {
					c.Violation("marshal:uint32-not-decimal-number", map[string]any{"field": string(fd.Name()), "raw": string(raw), "value": v.Uint()})
				}
			case protoreflect.BytesKind:
				if string(raw) != `"`+base64.StdEncoding.EncodeToString(v.Bytes())+`"` {
					c.Violation("marshal:bytes-not-padded-std-base64", map[string]any{"raw": string(raw), "bytes": core.Hex(v.Bytes())})
				}
			case protoreflect.EnumKind:
				ev := fd.Enum().Values().ByNumber(v.Enum())
				want := fmt.Sprint(int32(v.Enum()))
				if ev != nil && !enumNums {
					want = `"` + string(ev.Name()) + `"`
				}
				if string(raw) != want {
					c.Violation("marshal:enum-form", map[string]any{"raw": string(raw), "want": want, "enum_numbers": enumNums})
				}
			case protoreflect.FloatKind, protoreflect.DoubleKind:
				f := v.Float()
				switch {
				case math.IsNaN(f):
					if string(raw) != `"NaN"` {
						c.Violation("marshal:nan-form", map[string]any{"raw": string(raw)})
					}
				case math.IsInf(f, 1):
					if string(raw) != `"Infinity"` {
						c.Violation("marshal:inf-form", map[string]any{"raw": string(raw)})
					}
				case math.IsInf(f, -1):
					if string(raw) != `"-Infinity"` {
						c.Violation("marshal:neginf-form", map[string]any{"raw": string(raw)})
					}
				default:
					if !model.IsJSONNumber(string(raw)) {
						c.Violation("marshal:float-not-a-json-number", map[string]any{"raw": string(raw), "value": f})
						break
					}
					// the written number denotes a value that rounds back to f
					n, _ := model.ParseNumLit(string(raw))
					rat, cl := n.Rat()
					var back float64
					if cl == 0 {
						if fd.Kind() == protoreflect.FloatKind {
							b32, _ := rat.Float32()
							back = float64(b32)
						} else {
							back, _ = rat.Float64()
						}
					}
					if cl != 0 || (back != f) {
						c.Violation("marshal:float-literal-does-not-round-back:"+fd.Kind().String(), map[string]any{"raw": string(raw), "value": f, "bits": fmt.Sprintf("%016x", math.Float64bits(f))})
					}
				}
			}
		}
		if c.WantSample() && len(picked) > 6 {
			c.Sample(map[string]any{"marshal_output": clip(string(out), 500)})
		}
	}
}
