package checks

import (
	"fmt"
	"math"
	"math/big"
	"time"

	"google.golang.org/protobuf/types/known/durationpb"
	"google.golang.org/protobuf/types/known/timestamppb"
	"google.golang.org/protobuf/verif/core"
)

func init() {
	core.Register(&core.Check{
		ID:     "C43",
		Rule:   "cases: (seconds, nanos) pairs from boundary x boundary grids (int64/int32 extremes, +-10000 years, the int64-nanosecond overflow edge, 0/+-1, +-1e9 nanos, mixed signs) plus PRNG pairs near those boundaries and uniform; every time.Duration boundary plus PRNG values; time.Time values built by time.Unix in UTC, fixed zones and with a monotonic reading; distinct = distinct (helper, seconds, nanos) or (helper, value); non-trivial = at least one non-zero component",
		Assume: []string{"math/big arithmetic", "time.Unix/time.Date of the Go standard library (used to derive the year 1 and year 9999 bounds independently)"},
		Batches: func(tier string) []core.Batch {
			bs := []core.Batch{{Cfg: "base", Name: "grid", Kind: "grid"}}
			for i := 0; i < 7; i++ {
				bs = append(bs, core.Batch{Cfg: "base", Name: fmt.Sprintf("rand-%d", i), Kind: "rand", N: i})
			}
			return bs
		},
		Gates: func(tier string) map[string]int64 {
			return map[string]int64{"asduration": 10000, "asduration_clamped": 100, "asduration_mixed_sign": 100, "dur_valid": 100, "dur_invalid": 100,
				"ts_valid": 100, "ts_invalid": 100, "dur_new": 1000, "ts_new": 1000}
		},
		Run: runC43,
	})
}

var (
	bigE9     = big.NewInt(1e9)
	bigMaxI64 = big.NewInt(math.MaxInt64)
	bigMinI64 = big.NewInt(math.MinInt64)
)

func c43Duration(c *core.Ctx, secs int64, nanos int32) {
	c.Eval()
	c.Count("asduration")
	if secs != 0 || nanos != 0 {
		c.DistinctStr(fmt.Sprintf("d/%d/%d", secs, nanos))
	}
	c.Log("C43 duration secs=%d nanos=%d", secs, nanos)
	x := &durationpb.Duration{Seconds: secs, Nanos: nanos}
	exact := new(big.Int).Mul(big.NewInt(secs), bigE9)
	exact.Add(exact, big.NewInt(int64(nanos)))
	want := exact
	switch {
	case exact.Cmp(bigMaxI64) > 0:
		want = bigMaxI64
		c.Count("asduration_clamped")
	case exact.Cmp(bigMinI64) < 0:
		want = bigMinI64
		c.Count("asduration_clamped")
	}
	if (secs > 0 && nanos < 0) || (secs < 0 && nanos > 0) {
		c.Count("asduration_mixed_sign")
	}
	var got time.Duration
	if !c.NoPanic("duration:AsDuration-panic", map[string]any{"secs": secs, "nanos": nanos}, func() { got = x.AsDuration() }) {
		return
	}
	if int64(got) != want.Int64() {
		class := "exact"
		if want != exact {
			class = "clamp"
		} else if (secs > 0 && nanos < 0) || (secs < 0 && nanos > 0) {
			class = "exact-mixed-signs"
		}
		if c.WantSample() {
			_ = class
		}
		c.Violation("duration:AsDuration:"+class, map[string]any{"secs": secs, "nanos": nanos, "got": int64(got), "want": want.String()})
	}
	// validity: |secs| <= 10000 years, |nanos| <= 999999999, signs agree
	const abs = int64(10000) * 36525 * 24 * 3600 / 100
	valid := secs >= -abs && secs <= abs && nanos >= -999999999 && nanos <= 999999999 &&
		!(secs > 0 && nanos < 0) && !(secs < 0 && nanos > 0)
	err := x.CheckValid()
	if valid {
		c.Count("dur_valid")
	} else {
		c.Count("dur_invalid")
	}
	if (err == nil) != valid {
		c.Violation(fmt.Sprintf("duration:CheckValid:want-valid=%v", valid), map[string]any{"secs": secs, "nanos": nanos, "err": errStr(err)})
	}
	if x.IsValid() != (err == nil) {
		c.Violation("duration:IsValid-disagrees-with-CheckValid", map[string]any{"secs": secs, "nanos": nanos})
	}
	if c.WantSample() && secs > 1e9 && nanos < 0 {
		c.Sample(map[string]any{"helper": "Duration.AsDuration", "secs": secs, "nanos": nanos, "got": int64(got), "exact": exact.String(), "valid": valid})
	}
}

func c43NewDuration(c *core.Ctx, d time.Duration) {
	c.Eval()
	c.Count("dur_new")
	if d != 0 {
		c.DistinctStr(fmt.Sprintf("nd/%d", int64(d)))
	}
	c.Log("C43 durationpb.New d=%d", int64(d))
	x := durationpb.New(d)
	if got := x.AsDuration(); got != d {
		c.Violation("duration:New-AsDuration", map[string]any{"d": int64(d), "got": int64(got), "secs": x.Seconds, "nanos": x.Nanos})
	}
	exact := new(big.Int).Mul(big.NewInt(x.Seconds), bigE9)
	exact.Add(exact, big.NewInt(int64(x.Nanos)))
	if exact.Cmp(big.NewInt(int64(d))) != 0 {
		c.Violation("duration:New-inexact", map[string]any{"d": int64(d), "secs": x.Seconds, "nanos": x.Nanos})
	}
	// every time.Duration is within 10000 years: New must produce a valid (normalised) Duration
	if err := x.CheckValid(); err != nil {
		c.Violation("duration:New-invalid", map[string]any{"d": int64(d), "secs": x.Seconds, "nanos": x.Nanos, "err": errStr(err)})
	}
}

var (
	c43MinTS = time.Date(1, 1, 1, 0, 0, 0, 0, time.UTC).Unix()
	c43MaxTS = time.Date(9999, 12, 31, 23, 59, 59, 0, time.UTC).Unix()
)

func c43Timestamp(c *core.Ctx, secs int64, nanos int32) {
	c.Eval()
	if secs != 0 || nanos != 0 {
		c.DistinctStr(fmt.Sprintf("t/%d/%d", secs, nanos))
	}
	c.Log("C43 timestamp secs=%d nanos=%d", secs, nanos)
	x := &timestamppb.Timestamp{Seconds: secs, Nanos: nanos}
	valid := secs >= c43MinTS && secs <= c43MaxTS && nanos >= 0 && nanos <= 999999999
	err := x.CheckValid()
	if valid {
		c.Count("ts_valid")
	} else {
		c.Count("ts_invalid")
	}
	if (err == nil) != valid {
		c.Violation(fmt.Sprintf("timestamp:CheckValid:want-valid=%v", valid), map[string]any{"secs": secs, "nanos": nanos, "err": errStr(err)})
	}
	if x.IsValid() != (err == nil) {
		c.Violation("timestamp:IsValid-disagrees-with-CheckValid", map[string]any{"secs": secs, "nanos": nanos})
	}
	// AsTime is the instant secs*1e9+nanos after the epoch, in UTC (checked where time.Time
	// can represent the instant without internal overflow)
	if secs > -(1<<55) && secs < 1<<55 {
		var t time.Time
		if !c.NoPanic("timestamp:AsTime-panic", map[string]any{"secs": secs, "nanos": nanos}, func() { t = x.AsTime() }) {
			return
		}
		got := new(big.Int).Mul(big.NewInt(t.Unix()), bigE9)
		got.Add(got, big.NewInt(int64(t.Nanosecond())))
		exact := new(big.Int).Mul(big.NewInt(secs), bigE9)
		exact.Add(exact, big.NewInt(int64(nanos)))
		if got.Cmp(exact) != 0 || t.Location() != time.UTC {
			c.Violation("timestamp:AsTime", map[string]any{"secs": secs, "nanos": nanos, "got": t.String()})
		}
		if valid {
			// a valid Timestamp survives AsTime -> New unchanged
			y := timestamppb.New(t)
			if y.Seconds != secs || y.Nanos != nanos {
				c.Violation("timestamp:AsTime-New", map[string]any{"secs": secs, "nanos": nanos, "got_secs": y.Seconds, "got_nanos": y.Nanos})
			}
		}
		if c.WantSample() && valid && nanos > 0 {
			c.Sample(map[string]any{"helper": "Timestamp.AsTime", "secs": secs, "nanos": nanos, "time": t.Format(time.RFC3339Nano)})
		}
	}
}

func c43NewTimestamp(c *core.Ctx, t time.Time, what string) {
	c.Eval()
	c.Count("ts_new")
	c.DistinctStr(fmt.Sprintf("nt/%d/%d/%s", t.Unix(), t.Nanosecond(), what))
	c.Log("C43 timestamppb.New t=%d.%09d %s", t.Unix(), t.Nanosecond(), what)
	x := timestamppb.New(t)
	back := x.AsTime()
	if !back.Equal(t) || back.Unix() != t.Unix() || back.Nanosecond() != t.Nanosecond() {
		c.Violation("timestamp:New-AsTime:"+what, map[string]any{"unix": t.Unix(), "nsec": t.Nanosecond(), "got": back.String()})
	}
	if x.Nanos < 0 || x.Nanos > 999999999 {
		c.Violation("timestamp:New-nanos-range:"+what, map[string]any{"unix": t.Unix(), "nsec": t.Nanosecond(), "nanos": x.Nanos})
	}
}

func c43SecsBoundaries() []int64 {
	const abs = 315576000000
	const edge = math.MaxInt64 / 1000000000 // 9223372036
	base := []int64{0, 1, 2, 59, 60, abs, edge, math.MaxInt32, 1 << 32, 1 << 55, 1 << 62, math.MaxInt64, 62135596800, 253402300799, 62135596800 + 253402300799}
	var out []int64
	seen := map[int64]bool{}
	add := func(v int64) {
		if !seen[v] {
			seen[v] = true
			out = append(out, v)
		}
	}
	for _, b := range base {
		for d := int64(-3); d <= 3; d++ {
			add(b + d)  // wraps at MaxInt64: still a legal int64 case
			add(-b + d) // ditto
		}
	}
	add(math.MinInt64)
	return out
}

func c43NanosBoundaries() []int32 {
	base := []int32{0, 1, 2, 500000000, 999999998, 999999999, 1000000000, 1000000001, 1999999999, 2000000000, math.MaxInt32 - 1, math.MaxInt32}
	var out []int32
	for _, b := range base {
		out = append(out, b)
		if b != 0 {
			out = append(out, -b)
		}
	}
	return append(out, math.MinInt32)
}

func runC43(c *core.Ctx, b core.Batch) {
	secsB := c43SecsBoundaries()
	nanosB := c43NanosBoundaries()
	if b.Kind == "grid" {
		for _, s := range secsB {
			for _, n := range nanosB {
				c43Duration(c, s, n)
				c43Timestamp(c, s, n)
			}
		}
		durs := []int64{0, 1, 999999999, 1000000000, 1000000001, 1999999999, 2000000000, math.MaxInt64, math.MaxInt64 - 1, math.MaxInt64 / 1000000000 * 1000000000}
		for _, d := range durs {
			for dd := int64(-2); dd <= 2; dd++ {
				c43NewDuration(c, time.Duration(d+dd))
				c43NewDuration(c, time.Duration(-d+dd))
			}
		}
		c43NewDuration(c, time.Duration(math.MinInt64))
		zones := []*time.Location{time.UTC, time.FixedZone("east", 14*3600), time.FixedZone("west", -12*3600+1800)}
		for _, s := range secsB {
			if s < -(1<<55) || s > 1<<55 {
				continue
			}
			for _, n := range []int64{0, 1, 999999999, 500000000} {
				for zi, z := range zones {
					c43NewTimestamp(c, time.Unix(s, n).In(z), fmt.Sprintf("zone%d", zi))
				}
			}
		}
		// a time with a monotonic clock reading
		now := time.Now()
		c43NewTimestamp(c, now, "monotonic")
		// typed nil helpers
		var dn *durationpb.Duration
		var tn *timestamppb.Timestamp
		c.Eval()
		if dn.CheckValid() == nil || dn.IsValid() || tn.CheckValid() == nil || tn.IsValid() {
			c.Violation("nil:reported-valid", nil)
		}
		if dn.AsDuration() != 0 || !tn.AsTime().Equal(time.Unix(0, 0)) {
			c.Violation("nil:nonzero-conversion", nil)
		}
		return
	}
	n := c.Scale(40000, 2000000)
	for k := 0; k < n; k++ {
		r := c.Rng(uint64(k))
		var s int64
		var ns int32
		switch r.Intn(4) {
		case 0: // near a boundary
			s = secsB[r.Intn(len(secsB))] + int64(r.Intn(2001)) - 1000
		case 1: // around the int64-nanosecond edge, where only the sum decides
			s = int64(r.Intn(40)) - 20 + math.MaxInt64/1000000000
			if r.Bool() {
				s = -s
			}
		case 2:
			s = int64(r.Uint64())
		default:
			s = int64(r.Uint64()) >> uint(r.Intn(64))
		}
		switch r.Intn(4) {
		case 0:
			ns = nanosB[r.Intn(len(nanosB))]
		case 1:
			ns = int32(r.Intn(1999999999)) - 999999999
		case 2:
			ns = int32(r.Uint64())
		default:
			ns = int32(r.Intn(1000000000))
		}
		c43Duration(c, s, ns)
		c43Timestamp(c, s, ns)
		d := time.Duration(int64(r.Uint64()) >> uint(r.Intn(64)))
		c43NewDuration(c, d)
		ts := int64(r.Uint64()) >> uint(9+r.Intn(55))
		c43NewTimestamp(c, time.Unix(ts, int64(r.Intn(1000000000))).In(time.FixedZone("z", (r.Intn(27)-12)*3600)), "rand")
	}
}
