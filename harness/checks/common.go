package checks

import (
	"fmt"
	"math"
	"strings"

	"google.golang.org/protobuf/proto"
	"google.golang.org/protobuf/reflect/protoreflect"
	"google.golang.org/protobuf/reflect/protoregistry"
	"google.golang.org/protobuf/types/dynamicpb"
	"google.golang.org/protobuf/verif/core"
	"google.golang.org/protobuf/verif/gen"
	"google.golang.org/protobuf/verif/model"
)

// legacyBuild reports whether the worker runs in a protolegacy configuration.
func legacyBuild(b core.Batch) bool { return strings.HasPrefix(b.Cfg, "legacy") }

// codecTypes: corpus types usable by the binary/JSON/text codec monitors in
// this build configuration. MessageSet-involving types need protolegacy.
func codecTypes(b core.Batch) []protoreflect.MessageType {
	var out []protoreflect.MessageType
	for _, mt := range gen.AllTypes() {
		md := mt.Descriptor()
		n := string(md.FullName())
		_ = n
		if gen.InvolvesIrregular(md) { // irregular: hand-written aberrant message
			continue
		}
		if md.IsMapEntry() {
			continue
		}
		if !legacyBuild(b) && gen.InvolvesMessageSet(md) {
			continue
		}
		out = append(out, mt)
	}
	return out
}

// shard returns the types of this batch (index % total == n).
func shard(ts []protoreflect.MessageType, n, total int) []protoreflect.MessageType {
	var out []protoreflect.MessageType
	for i, t := range ts {
		if i%total == n {
			out = append(out, t)
		}
	}
	return out
}

func stdBatches(cfgs []string, n int) []core.Batch {
	var bs []core.Batch
	for _, cfg := range cfgs {
		for i := 0; i < n; i++ {
			bs = append(bs, core.Batch{Cfg: cfg, Name: fmt.Sprintf("%s-%02d", cfg, i), Kind: "std", N: i})
		}
	}
	return bs
}

// flavour classifies a generated type by API flavour from its Go package.
func flavour(md protoreflect.MessageDescriptor) string {
	p := string(md.ParentFile().Package())
	switch {
	case strings.HasSuffix(p, "opaque") || strings.Contains(p, "_opaque") || strings.HasPrefix(p, "opaque."):
		return "opaque"
	case strings.HasSuffix(p, "hybrid") || strings.Contains(p, "_hybrid") || strings.HasPrefix(p, "hybrid."):
		return "hybrid"
	}
	return "open"
}

func syntaxOf(md protoreflect.MessageDescriptor) string {
	return md.ParentFile().Syntax().String()
}

// newOf creates a fresh message of the type, generated or dynamic twin.
func newOf(mt protoreflect.MessageType, dynamic bool) protoreflect.Message {
	if dynamic {
		return dynamicpb.NewMessage(mt.Descriptor())
	}
	return mt.New()
}

func detBytes(m protoreflect.Message) ([]byte, error) {
	return proto.MarshalOptions{Deterministic: true, AllowPartial: true}.Marshal(m.Interface())
}

func snapOf(m protoreflect.Message) *model.Snap { return model.Of(m) }

// snapAny is snapOf with resolvable Any payloads compared as messages.
func snapAny(m protoreflect.Message) *model.Snap {
	return model.OfExpandAny(m, func(url string, value []byte) protoreflect.Message {
		i := strings.LastIndexByte(url, '/')
		mt, err := protoregistry.GlobalTypes.FindMessageByName(protoreflect.FullName(url[i+1:]))
		if err != nil || url == "" {
			return nil
		}
		inner := mt.New()
		if (proto.UnmarshalOptions{AllowPartial: true}).Unmarshal(value, inner.Interface()) != nil {
			return nil
		}
		return inner
	})
}

func errStr(err error) string {
	if err == nil {
		return ""
	}
	s := err.Error()
	// the "proto:" prefix carries a randomised space; normalise for display only
	s = strings.ReplaceAll(s, " ", " ")
	if len(s) > 300 {
		s = s[:300]
	}
	return s
}

// kindCell names the coverage cell of a field.
func kindCell(fd protoreflect.FieldDescriptor) string {
	card := "singular"
	switch {
	case fd.IsMap():
		card = "map"
	case fd.IsList():
		if fd.IsPacked() {
			card = "packed"
		} else {
			card = "repeated"
		}
	case fd.ContainingOneof() != nil && !fd.ContainingOneof().IsSynthetic():
		card = "oneof"
	}
	if fd.IsExtension() {
		card = "ext-" + card
	}
	return fd.Kind().String() + "/" + card
}

// countCells adds the coverage cells of the populated fields of m.
func countCells(c *core.Ctx, prefix string, m protoreflect.Message, depth int) {
	m.Range(func(fd protoreflect.FieldDescriptor, v protoreflect.Value) bool {
		c.Count(prefix + kindCell(fd))
		if depth < 2 && fd.Message() != nil && !fd.IsMap() && !fd.IsList() {
			countCells(c, prefix, v.Message(), depth+1)
		}
		return true
	})
	if len(m.GetUnknown()) > 0 {
		c.Count(prefix + "unknown")
	}
}

// caseDetail renders a message for a violation record.
func caseDetail(m protoreflect.Message) map[string]any {
	b, err := detBytes(m)
	return map[string]any{"type": string(m.Descriptor().FullName()), "det_bytes": core.Hex(b), "marshal_err": errStr(err), "snapshot": clip(snapOf(m).String(), 2000)}
}

func clip(s string, n int) string {
	if len(s) > n {
		return s[:n] + "..."
	}
	return s
}

// fpType makes a fingerprint component out of a type name and a field.
func fpField(fd protoreflect.FieldDescriptor) string {
	return string(fd.FullName())
}

// firstDiff describes the first differing field of two snapshots (for
// fingerprints: the field kind/cardinality where round trips diverge).
func firstDiff(a, b *model.Snap) string {
	if a.Type != b.Type {
		return "type"
	}
	am := map[int32]*model.Node{}
	for _, n := range a.Fields {
		am[n.Num] = n
	}
	bm := map[int32]*model.Node{}
	for _, n := range b.Fields {
		bm[n.Num] = n
	}
	for _, n := range a.Fields {
		o, ok := bm[n.Num]
		if !ok {
			return fmt.Sprintf("%s.%s(missing-right)", a.Type, n.Name)
		}
		if d := nodeDiff(a.Type, n, o); d != "" {
			return d
		}
	}
	for _, n := range b.Fields {
		if _, ok := am[n.Num]; !ok {
			return fmt.Sprintf("%s.%s(missing-left)", a.Type, n.Name)
		}
	}
	if fmt.Sprint(a.Unknown) != fmt.Sprint(b.Unknown) {
		return a.Type + ".<unknown>"
	}
	return ""
}

func nodeDiff(typ string, a, b *model.Node) string {
	here := fmt.Sprintf("%s.%s", typ, a.Name)
	switch {
	case a.IsMap:
		if len(a.Map) != len(b.Map) {
			return here + "(map-len)"
		}
		for i := range a.Map {
			if a.Map[i].K != b.Map[i].K {
				return here + "(map-key)"
			}
			if d := valDiff(here, a.Map[i].V, b.Map[i].V); d != "" {
				return d
			}
		}
	case a.IsList:
		if len(a.List) != len(b.List) {
			return here + "(list-len)"
		}
		for i := range a.List {
			if d := valDiff(here, a.List[i], b.List[i]); d != "" {
				return d
			}
		}
	case a.M != nil:
		if b.M == nil {
			return here
		}
		return firstDiff(a.M, b.M)
	default:
		if a.S != b.S {
			return here
		}
	}
	return ""
}

func valDiff(here string, a, b model.Val) string {
	if a.M != nil && b.M != nil {
		return firstDiff(a.M, b.M)
	}
	if a.S != b.S {
		return here
	}
	return ""
}

func nil2global() *protoregistry.Types { return protoregistry.GlobalTypes }

func float32frombits(b uint32) float32 { return math.Float32frombits(b) }
func float64frombits(b uint64) float64 { return math.Float64frombits(b) }

// schemaDynTypes returns dynamicpb message types of n PRNG-generated schemas
// (every non-map-entry message, nested ones included): message shapes that no
// linked type has.
func schemaDynTypes(c *core.Ctx, tag uint64, n int) []protoreflect.MessageType {
	var out []protoreflect.MessageType
	for i := 0; i < n; i++ {
		r := c.Rng(tag<<32 | uint64(i))
		o := gen.SchemaOpts{Prefix: fmt.Sprintf("verifdyn%d.s%d", tag, i), Features: i%2 == 0, NumFiles: 1 + i%2, NoServices: true}
		_, _, fds, _, err := gen.GenValidSchema(r, o)
		if err != nil {
			continue
		}
		var walk func(ms protoreflect.MessageDescriptors)
		walk = func(ms protoreflect.MessageDescriptors) {
			for j := 0; j < ms.Len(); j++ {
				md := ms.Get(j)
				if md.IsMapEntry() {
					continue
				}
				out = append(out, dynamicpb.NewMessageType(md))
				walk(md.Messages())
			}
		}
		for _, fd := range fds {
			walk(fd.Messages())
		}
	}
	return out
}
