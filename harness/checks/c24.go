package checks

import (
	"fmt"
	"math"
	"strings"

	"google.golang.org/protobuf/encoding/prototext"
	"google.golang.org/protobuf/internal/encoding/text"
	"google.golang.org/protobuf/proto"
	"google.golang.org/protobuf/reflect/protoreflect"
	"google.golang.org/protobuf/types/known/wrapperspb"
	"google.golang.org/protobuf/verif/core"
	"google.golang.org/protobuf/verif/gen"
)

func init() {
	core.Register(&core.Check{
		ID:         "C24",
		Rule:       "cases: (local resolver) a dynamic schema known to a caller-supplied Resolver only - Any values embedding a message with extensions declared at file scope and inside a message, an extension of message type and a nested Any - marshalled (must be expanded) and parsed back with that Resolver under the 8 option sets; (a) PRNG-filled messages (boundary scalars, NaN payloads, +-Inf, -0, 64-bit extremes, strings incl. non-UTF-8 in proto2 fields, extensions, groups, maps, oneofs, expanded and unexpanded Any, unknown fields sprinkled at several depths) of every linked message type (generated and dynamicpb) under the 8 combinations of Multiline, Indent, EmitASCII; oracle: Unmarshal(Marshal(m)) is Equal and snapshot-equal (floats by bit pattern, NaNs equal) to m without unknown fields; (b) float32 bit patterns through prototext on FloatValue and through the text encoder/tokenizer directly: a 2^20-stride sample plus a +-2 neighbourhood of every power of two and of 4096 PRNG patterns in quick, all 2^32 in thorough; 10^5 (quick) / 10^7 (thorough) doubles; distinct = distinct (type, options, output) or bit patterns; non-trivial = populated message / non-zero pattern",
		Assume:     []string{"proto.Equal and model/snapshot.go (bit-pattern float comparison)"},
		Exhaustive: func(tier string) bool { return false },
		Batches: func(tier string) []core.Batch {
			bs := stdBatches([]string{"base"}, 12)
			if tier == "thorough" {
				bs = append(bs, stdBatches([]string{"legacy"}, 4)...)
			}
			for i := 0; i < 16; i++ {
				bs = append(bs, core.Batch{Cfg: "base", Name: fmt.Sprintf("f32-%02d", i), Kind: "f32", N: i})
			}
			return bs
		},
		Gates: func(tier string) map[string]int64 {
			return map[string]int64{"roundtrips": 10000, "dynamic": 1000, "with_unknown": 300, "with_any_expanded": 5, "with_extension": 10, "float32_patterns": 500000, "float32_via_prototext": 50000, "float64_patterns": 50000,
				"opt:0": 500, "opt:1": 500, "opt:2": 500, "opt:3": 500, "opt:4": 500, "opt:5": 500, "opt:6": 500, "opt:7": 500, "local_resolver_roundtrips": 60, "local_resolver_extensions_inside_any": 200}
		},
		Run: runC24,
	})
}

func c24Opts(i int) prototext.MarshalOptions {
	o := prototext.MarshalOptions{Multiline: i&1 != 0, EmitASCII: i&4 != 0}
	if i&2 != 0 {
		o.Indent = []string{" ", "\t", "   "}[(i>>2+i)%3]
	}
	return o
}

func runC24(c *core.Ctx, b core.Batch) {
	if b.Kind == "f32" {
		c24Floats(c, b)
		return
	}
	nb := 12
	if b.Cfg != "base" {
		nb = 4
	}
	if b.Cfg == "base" && b.N == 0 {
		c24Local(c)
	}
	types := shard(codecTypes(b), b.N, nb)
	per := c.Scale(16, 200)
	for ti, mt := range types {
		for k := 0; k < per; k++ {
			r := c.Rng(uint64(ti)<<24 | uint64(k))
			dyn := k%4 == 3
			m := newOf(mt, dyn)
			fo := fillOptsFor(k)
			fo.Unknown = false
			fo.AnyUTF8 = k%2 == 0 // proto2 strings may hold arbitrary bytes: text escapes them
			gen.Fill(r, m, fo)
			want := proto.Clone(m.Interface()).ProtoReflect()
			if k%3 == 0 && sprinkleUnknown(r, m, 0) > 0 {
				c.Count("with_unknown")
			}
			for j := 0; j < 2; j++ {
				c24Case(c, mt, m, want, dyn, (k*2+j+ti)%8)
			}
		}
	}
}

// c24Local round-trips Any values whose embedded message and its extensions
// are known to a caller-supplied resolver only.
func c24Local(c *core.Ctx) {
	la, err := newLocalAny(24)
	if err != nil {
		c.Violation("harness:local-schema-invalid", map[string]any{"err": errStr(err)})
		return
	}
	for k := 0; k < c.Scale(200, 4000); k++ {
		r := c.Rng(uint64(0x24a)<<32 | uint64(k))
		want, nx := la.content(r, false)
		ws := la.snap(want)
		opts := c24Opts(k % 8)
		opts.Resolver = la.types
		opts.AllowPartial = true
		c.Eval()
		c.Count("local_resolver_roundtrips")
		c.CountN("local_resolver_extensions_inside_any", int64(nx))
		c.Log("C24 local-resolver case=%d opts=%d snapshot=%s", k, k%8, clip(ws.String(), 4000))
		var out []byte
		var err error
		if !c.NoPanic("text:local-resolver:marshal-panic", map[string]any{"snapshot": clip(ws.String(), 2000)}, func() { out, err = opts.Marshal(want.Interface()) }) {
			continue
		}
		if err != nil {
			c.Violation("text:local-resolver:marshal-error", map[string]any{"err": errStr(err), "snapshot": clip(ws.String(), 2000)})
			continue
		}
		c.DistinctBytes([]byte("local"), out)
		if !strings.Contains(string(out), "[type.googleapis.com/"+la.pkg+".Host]") {
			c.Violation("text:local-resolver:any-not-expanded", map[string]any{"text": clip(string(out), 2000)})
			continue
		}
		got := la.carrier.New()
		var uerr error
		if !c.NoPanic("text:local-resolver:unmarshal-panic", map[string]any{"text": clip(string(out), 3000)}, func() {
			uerr = prototext.UnmarshalOptions{AllowPartial: true, Resolver: la.types}.Unmarshal(out, got.Interface())
		}) {
			continue
		}
		if uerr != nil {
			c.Violation("text:local-resolver:unmarshal-error-on-own-output", map[string]any{"err": errStr(uerr), "text": clip(string(out), 3000)})
			continue
		}
		if gs := la.snap(got); gs.String() != ws.String() {
			c.Violation("text:local-resolver:roundtrip:"+firstDiff(ws, gs), map[string]any{"text": clip(string(out), 3000), "want": clip(ws.String(), 1500), "got": clip(gs.String(), 1500)})
		}
	}
}

func c24Case(c *core.Ctx, mt protoreflect.MessageType, src, want protoreflect.Message, dyn bool, oi int) {
	name := string(mt.Descriptor().FullName())
	c.Eval()
	c.Count("roundtrips")
	c.Count(fmt.Sprintf("opt:%d", oi))
	if dyn {
		c.Count("dynamic")
	}
	ws := snapAny(want)
	partial := proto.CheckInitialized(want.Interface()) != nil
	opts := c24Opts(oi)
	opts.AllowPartial = partial
	c.Log("C24 type=%s opts=%d dyn=%v snapshot=%s", name, oi, dyn, clip(ws.String(), 6000))
	var out []byte
	var err error
	if !c.NoPanic("text:marshal-panic:"+name, map[string]any{"opts": oi}, func() { out, err = opts.Marshal(src.Interface()) }) {
		return
	}
	if err != nil {
		// invalid UTF-8 in a validated string cannot occur (generator) - any error is a violation
		c.Violation("text:marshal-error:"+name, map[string]any{"err": errStr(err), "opts": oi, "snapshot": clip(ws.String(), 2000)})
		return
	}
	if ws.NumPopulated() > 0 {
		c.DistinctBytes([]byte(name), []byte{byte(oi)}, out)
	}
	if oi == 0 {
		if hasKind(want, func(m protoreflect.Message) bool {
			return m.Descriptor().FullName() == "google.protobuf.Any" && m.Get(m.Descriptor().Fields().ByNumber(1)).String() != ""
		}, 0) {
			c.Count("with_any_expanded")
		}
		want.Range(func(fd protoreflect.FieldDescriptor, _ protoreflect.Value) bool {
			if fd.IsExtension() {
				c.Count("with_extension")
				return false
			}
			return true
		})
	}
	if oi&4 != 0 {
		for _, ch := range out {
			if ch >= 0x80 {
				c.Violation("text:emitascii-non-ascii-byte:"+name, map[string]any{"text": clip(string(out), 1000)})
				break
			}
		}
	}
	got := newOf(mt, dyn)
	var uerr error
	if !c.NoPanic("text:unmarshal-panic:"+name, map[string]any{"text": clip(string(out), 3000)}, func() {
		uerr = prototext.UnmarshalOptions{AllowPartial: partial}.Unmarshal(out, got.Interface())
	}) {
		return
	}
	if uerr != nil {
		c.Violation("text:unmarshal-error-on-own-output:"+name, map[string]any{"err": errStr(uerr), "opts": oi, "text": clip(string(out), 3000)})
		return
	}
	gs := snapAny(got)
	eq := proto.Equal(want.Interface(), got.Interface())
	if gs.String() != ws.String() {
		c.Violation("text:roundtrip:"+firstDiff(ws, gs), map[string]any{"opts": oi, "text": clip(string(out), 3000), "want": clip(ws.String(), 1500), "got": clip(gs.String(), 1500), "dynamic": dyn})
	} else if !eq && snapOf(got).String() == snapOf(want).String() {
		c.Violation("text:equal-false-snapshot-same:"+name, map[string]any{"opts": oi, "text": clip(string(out), 3000)})
	}
	if c.WantSample() && ws.NumPopulated() > 3 && oi > 0 {
		c.Sample(map[string]any{"type": name, "options": fmt.Sprintf("%+v", opts), "text": clip(string(out), 600), "roundtrip_equal": eq})
	}
}

// c24F32 checks one float32 bit pattern through the text encoder and
// tokenizer, and (full) through prototext on a FloatValue.
func c24F32(c *core.Ctx, bits uint32, full bool) {
	f := math.Float32frombits(bits)
	c.Count("float32_patterns")
	enc, _ := text.NewEncoder(nil, "", [2]byte{}, false)
	enc.WriteName("value")
	enc.WriteFloat(float64(f), 32)
	dec := text.NewDecoder(enc.Bytes())
	dec.Read() // name
	tok, err := dec.Read()
	var back float32
	ok := false
	if err == nil {
		back, ok = tok.Float32()
	}
	same := ok && (math.Float32bits(back) == bits || (f != f && back != back))
	if !same {
		c.Violation(fmt.Sprintf("float32:tokenizer-roundtrip:bits=%08x", bits), map[string]any{"text": string(enc.Bytes()), "back_bits": fmt.Sprintf("%08x", math.Float32bits(back)), "ok": ok, "err": errStr(err)})
	}
	if !full {
		return
	}
	c.Count("float32_via_prototext")
	out, merr := prototext.Marshal(wrapperspb.Float(f))
	var w wrapperspb.FloatValue
	uerr := merr
	if merr == nil {
		uerr = prototext.Unmarshal(out, &w)
	}
	if uerr != nil || !(math.Float32bits(w.Value) == bits || (f != f && w.Value != w.Value)) {
		c.Violation(fmt.Sprintf("float32:prototext-roundtrip:bits=%08x", bits), map[string]any{"text": string(out), "back_bits": fmt.Sprintf("%08x", math.Float32bits(w.Value)), "err": errStr(uerr)})
	}
}

func c24Floats(c *core.Ctx, b core.Batch) {
	if c.Quick() {
		// stride sample: 2^20 patterns spread over the whole space, shifted by the seed
		off := uint32(c.Seed*2654435761) & 0xfff
		for i := uint32(b.N); i < 1<<20; i += 16 {
			bits := i<<12 | off
			c.EvalN(1)
			c24F32(c, bits, i%8 == uint32(b.N)%8)
			if i%4096 == uint32(b.N) {
				c.Distinct(uint64(bits))
			}
		}
		// neighbourhoods: every exponent boundary, and PRNG patterns
		for e := uint32(0); e < 256; e++ {
			if int(e)%16 != b.N {
				continue
			}
			for d := -2; d <= 2; d++ {
				for _, sign := range []uint32{0, 1 << 31} {
					c.EvalN(1)
					c24F32(c, (e<<23+uint32(d))|sign, true)
				}
			}
		}
		for i := 0; i < 4096; i++ {
			r := c.Rng(uint64(i))
			base := uint32(r.Uint64())
			for d := -2; d <= 2; d++ {
				c.EvalN(1)
				c24F32(c, base+uint32(d), true)
			}
		}
	} else {
		lo := uint64(b.N) << 28
		hi := lo + 1<<28
		for x := lo; x < hi; x++ {
			c24F32(c, uint32(x), x&0x3f == 0)
			if x&0xfffff == 0 {
				c.Distinct(x)
			}
		}
		c.EvalN(1 << 28)
	}
	// doubles
	n := c.Scale(8000, 700000)
	for i := 0; i < n; i++ {
		r := c.Rng(uint64(1<<40 | i))
		var bits uint64
		switch r.Intn(3) {
		case 0:
			bits = r.Uint64()
		case 1:
			bits = uint64(r.Intn(2048))<<52 | uint64(r.Intn(5)) | uint64(r.Intn(2))<<63
		default:
			bits = math.Float64bits(float64(math.Float32frombits(uint32(r.Uint64())))) + uint64(r.Intn(3)) - 1
		}
		f := math.Float64frombits(bits)
		c.Eval()
		c.Count("float64_patterns")
		c.Distinct(bits)
		out, merr := prototext.Marshal(wrapperspb.Double(f))
		var w wrapperspb.DoubleValue
		uerr := merr
		if merr == nil {
			uerr = prototext.Unmarshal(out, &w)
		}
		if uerr != nil || !(math.Float64bits(w.Value) == bits || (f != f && w.Value != w.Value)) {
			c.Violation(fmt.Sprintf("float64:prototext-roundtrip:bits=%016x", bits), map[string]any{"text": string(out), "back_bits": fmt.Sprintf("%016x", math.Float64bits(w.Value)), "err": errStr(uerr)})
		}
		if c.WantSample() && i > 10 {
			c.Sample(map[string]any{"float64_bits": fmt.Sprintf("%016x", bits), "text": string(out)})
		}
	}
}
