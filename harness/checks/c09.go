package checks

import (
	"fmt"
	"strings"

	"google.golang.org/protobuf/encoding/protowire"
	"google.golang.org/protobuf/proto"
	"google.golang.org/protobuf/reflect/protodesc"
	"google.golang.org/protobuf/reflect/protoreflect"
	"google.golang.org/protobuf/reflect/protoregistry"
	"google.golang.org/protobuf/types/descriptorpb"
	"google.golang.org/protobuf/types/dynamicpb"
	"google.golang.org/protobuf/verif/core"
	"google.golang.org/protobuf/verif/gen"
	"google.golang.org/protobuf/verif/model"
)

func init() {
	core.Register(&core.Check{
		ID:     "C09",
		Rule:   "cases: for every linked type that stores unknown fields: well-formed encodings carrying unknown records of every wire type (incl. groups, non-minimal tags, known numbers with a wrong wire type) at any depth; (a) GetUnknown after decode (lazy, eager, dynamicpb) equals the reference split of the input, in input order; (b) Marshal (deterministic, default and lazy pass-through) re-emits each record exactly once; (c) schema-evolution triangle against a dynamic subset schema obtained by deleting random fields/extensions at any depth; (d) DiscardUnknown leaves no unknown bytes anywhere in the tree; distinct = distinct (type,input); non-trivial = input has at least one unknown record",
		Assume: []string{"model/schemaref.go reference split", "protodesc.NewFile builds the subset schema faithfully (C34/C35 check it)"},
		Batches: func(tier string) []core.Batch {
			if tier == "thorough" {
				return append(stdBatches([]string{"base"}, 16), stdBatches([]string{"legacy"}, 8)...)
			}
			return stdBatches([]string{"base"}, 16)
		},
		Gates: func(tier string) map[string]int64 {
			return map[string]int64{"split_compares": 5000, "reemit_compares": 5000, "triangles": 1500, "discard_walks": 3000, "unknown_records": 5000, "unknown_wiretype:3": 100, "subset_fields_deleted": 1000, "lazy_passthrough_reemit": 100, "wrong_wiretype_on_lazy_field": 50}
		},
		Run: runC09,
	})
}

// orderedUnknown parses raw unknown bytes in order (number, type, value bytes).
func orderedUnknown(b []byte) ([]model.UField, bool) {
	var out []model.UField
	for len(b) > 0 {
		num, typ, n := protowire.ConsumeTag(b)
		if n < 0 {
			return out, false
		}
		m := protowire.ConsumeFieldValue(num, typ, b[n:])
		if m < 0 {
			return out, false
		}
		out = append(out, model.UField{Num: int32(num), Typ: typ, Val: string(b[n : n+m])})
		b = b[n+m:]
	}
	return out, true
}

func ufEqual(a, b []model.UField) bool {
	if len(a) != len(b) {
		return false
	}
	for i := range a {
		if a[i] != b[i] {
			return false
		}
	}
	return true
}

func ufString(u []model.UField) string {
	var sb strings.Builder
	for _, x := range u {
		fmt.Fprintf(&sb, "%d/%d:%x ", x.Num, x.Typ, x.Val)
	}
	return clip(sb.String(), 800)
}

func runC09(c *core.Ctx, b core.Batch) {
	types := shard(codecTypes(b), b.N, nbOf(b, c.Tier))
	per := c.Scale(30, 400)
	for ti, mt := range types {
		if !gen.KeepsUnknown(mt.New()) {
			c.Count("types_without_unknown_storage")
			continue
		}
		if gen.InvolvesMessageSet(mt.Descriptor()) {
			// a MessageSet keeps unresolved items as (type id, payload), discards any
			// other field it does not know and re-emits items in canonical form:
			// its own format, decided by C47, not the verbatim preservation of C09
			c.Count("types_with_messageset_skipped")
			continue
		}
		name := string(mt.Descriptor().FullName())
		var subMD protoreflect.MessageDescriptor
		for k := 0; k < per; k++ {
			r := c.Rng(uint64(ti)<<24 | uint64(k))
			fo := fillOptsFor(k)
			fo.Unknown = true
			fo.NoRequired = true
			var ops []string
			hist := func(s string) { ops = append(ops, s) }
			in := gen.ValidWire(r, mt, fo, 1+r.Intn(4), hist)
			if lf := gen.LazyFields(mt); len(lf) > 0 && k%2 == 0 {
				// lazily decoded fields: a record with their number but a wrong wire type
				in = c17Input(r, mt, lf, fo, hist)
				in = gen.InsertWrongType(r, in, mt.Descriptor(), lf[r.Intn(len(lf))].Number(), protowire.BytesType)
				hist("wrong-wiretype-on-lazy-field")
				c.Count("wrong_wiretype_on_lazy_field")
			}
			if k%8 == 0 || subMD == nil {
				subMD = subsetOf(c, r, mt.Descriptor())
			}
			c09Case(c, r, mt, name, in, ops, subMD, k)
		}
	}
}

func c09Case(c *core.Ctx, r *core.Rand, mt protoreflect.MessageType, name string, in []byte, ops []string, subMD protoreflect.MessageDescriptor, k int) {
	md := mt.Descriptor()
	ref := model.NewSchemaRef()
	if ref.Check(md, in, protowire.DefaultRecursionLimit) != model.VOK {
		c.Count("generator_produced_invalid")
		return
	}
	c.Eval()
	detail := func(extra ...any) map[string]any {
		d := map[string]any{"type": name, "input": core.Hex(in), "ops": ops}
		for i := 0; i+1 < len(extra); i += 2 {
			d[fmt.Sprint(extra[i])] = extra[i+1]
		}
		return d
	}
	c.Log("C09 type=%s input=%s", name, core.Hex(in))
	want := ref.TopUnknown
	if len(want) > 0 {
		c.DistinctBytes([]byte(name), in)
		c.CountN("unknown_records", int64(len(want)))
		for _, u := range want {
			c.Count(fmt.Sprintf("unknown_wiretype:%d", u.Typ))
		}
	}
	if c.WantSample() && len(want) > 1 {
		c.Sample(map[string]any{"type": name, "input": core.Hex(in), "ops": ops, "expected_top_level_unknown": ufString(want)})
	}
	uo := proto.UnmarshalOptions{AllowPartial: true}
	var full protoreflect.Message
	for vi, variant := range []struct {
		nolazy, dyn bool
	}{{false, false}, {true, false}, {false, true}} {
		m := newOf(mt, variant.dyn)
		o := uo
		o.NoLazyDecoding = variant.nolazy
		if err := o.Unmarshal(in, m.Interface()); err != nil {
			c.Violation("unknown:decode-error:"+name, detail("err", errStr(err)))
			return
		}
		if vi == 0 {
			full = m
		}
		// (a) split in input order
		got, ok := orderedUnknown(m.GetUnknown())
		if !ok {
			c.Violation("unknown:stored-unknown-malformed:"+name, detail("unknown", core.Hex(m.GetUnknown())))
			continue
		}
		if !ref.ClosedEnumSeen {
			c.Count("split_compares")
			if !ufEqual(got, want) {
				c.Violation(fmt.Sprintf("unknown:split:dyn=%v:%s", variant.dyn, name), detail("want", ufString(want), "got", ufString(got), "nolazy", variant.nolazy))
			}
		}
		// (b) re-emission exactly once, deterministic and default (pass-through when lazy)
		for _, det := range []bool{false, true} { // default first: deterministic marshaling expands lazy fields
			enc, err := proto.MarshalOptions{AllowPartial: true, Deterministic: det}.Marshal(m.Interface())
			if err != nil {
				c.Violation("unknown:marshal-error:"+name, detail("err", errStr(err)))
				continue
			}
			c.Count("reemit_compares")
			if !det && !variant.nolazy && !variant.dyn && len(gen.LazyFields(mt)) > 0 {
				c.Count("lazy_passthrough_reemit")
			}
			ref2 := model.NewSchemaRef()
			if ref2.Check(md, enc, protowire.DefaultRecursionLimit) != model.VOK {
				c.Violation("unknown:marshal-output-invalid:"+name, detail("output", core.Hex(enc)))
				continue
			}
			if !ref.ClosedEnumSeen && !ufEqual(ref2.TopUnknown, want) {
				c.Violation(fmt.Sprintf("unknown:reemit:det=%v:dyn=%v:%s", det, variant.dyn, name), detail("want", ufString(want), "reemitted", ufString(ref2.TopUnknown), "output", core.Hex(enc), "nolazy", variant.nolazy))
			}
			// whole tree: decode of the output equals the message
			m2 := newOf(mt, false)
			if err := uo.Unmarshal(enc, m2.Interface()); err != nil {
				c.Violation("unknown:reemit-undecodable:"+name, detail("output", core.Hex(enc), "err", errStr(err)))
			} else if a, b := snapOf(m2), snapOf(m); a.String() != b.String() {
				c.Violation("unknown:reemit-tree:"+firstDiff(b, a), detail("output", core.Hex(enc), "nolazy", variant.nolazy, "dyn", variant.dyn, "det", det))
			}
		}
	}
	// (c) schema evolution triangle
	if subMD != nil && full != nil {
		sub := dynamicpb.NewMessage(subMD)
		o := uo
		if k%2 == 0 {
			o.Resolver = emptyTypes
		}
		if err := o.Unmarshal(in, sub); err != nil {
			c.Violation("unknown:subset-decode-error:"+name, detail("err", errStr(err)))
		} else if enc, err := (proto.MarshalOptions{AllowPartial: true, Deterministic: k%4 < 2}).Marshal(sub); err != nil {
			c.Violation("unknown:subset-marshal-error:"+name, detail("err", errStr(err)))
		} else {
			c.Count("triangles")
			m3 := mt.New()
			if err := uo.Unmarshal(enc, m3.Interface()); err != nil {
				c.Violation("unknown:triangle-redecode-error:"+name, detail("err", errStr(err), "via_subset", core.Hex(enc)))
			} else if !proto.Equal(m3.Interface(), full.Interface()) {
				a, bb := snapOf(full), snapOf(m3)
				c.Violation("unknown:triangle:"+firstDiff(a, bb), detail("via_subset", core.Hex(enc), "direct", clip(a.String(), 1200), "via", clip(bb.String(), 1200)))
			}
		}
	}
	// (d) DiscardUnknown: no unknown bytes anywhere (lazy fields, list elements, map values, extensions forced)
	for _, variant := range []struct{ nolazy, dyn bool }{{false, false}, {true, false}, {false, true}} {
		m := newOf(mt, variant.dyn)
		if err := (proto.UnmarshalOptions{AllowPartial: true, DiscardUnknown: true, NoLazyDecoding: variant.nolazy}).Unmarshal(in, m.Interface()); err != nil {
			c.Violation("unknown:discard-decode-error:"+name, detail("err", errStr(err)))
			continue
		}
		c.Count("discard_walks")
		// before anything expands lazily kept submessages: what Marshal emits must be free of unknown fields too
		if enc, err := (proto.MarshalOptions{AllowPartial: true}).Marshal(m.Interface()); err == nil {
			chk := newOf(mt, false)
			if err := (proto.UnmarshalOptions{AllowPartial: true, NoLazyDecoding: true}).Unmarshal(enc, chk.Interface()); err != nil {
				c.Violation("unknown:discard-marshal-undecodable:"+name, detail("output", core.Hex(enc), "err", errStr(err)))
			} else if cs := snapOf(chk); cs.HasUnknownAnywhere() {
				where := ""
				cs.Walk(func(x *model.Snap) {
					if len(x.Unknown) > 0 && where == "" {
						where = x.Type
					}
				})
				c.Violation(fmt.Sprintf("unknown:discard-marshal-reemits-unknown:dyn=%v:in=%s", variant.dyn, where), detail("nolazy", variant.nolazy, "output", core.Hex(enc)))
			}
			if sz := (proto.MarshalOptions{AllowPartial: true}).Size(m.Interface()); sz != len(enc) {
				c.Count("discard_size_differs_from_len")
			}
		}
		s := snapOf(m)
		if s.HasUnknownAnywhere() {
			where := ""
			s.Walk(func(x *model.Snap) {
				if len(x.Unknown) > 0 && where == "" {
					where = x.Type
				}
			})
			c.Violation(fmt.Sprintf("unknown:discard-left-unknown:dyn=%v:in=%s", variant.dyn, where), detail("nolazy", variant.nolazy))
		}
		if full != nil && s.Known() != snapOf(full).Known() {
			c.Violation("unknown:discard-changed-known-content:"+name, detail("nolazy", variant.nolazy, "dyn", variant.dyn))
		}
	}
}

var emptyTypes = &protoregistry.Types{}

// subsetOf builds a dynamic schema for md in which random fields (outside
// oneofs, not required) of md and of its nested messages are deleted.
func subsetOf(c *core.Ctx, r *core.Rand, md protoreflect.MessageDescriptor) protoreflect.MessageDescriptor {
	fdp := protodesc.ToFileDescriptorProto(md.ParentFile())
	fdp.Name = proto.String("verif_subset/" + fdp.GetName())
	deleted := 0
	var prune func(dp *descriptorpb.DescriptorProto)
	prune = func(dp *descriptorpb.DescriptorProto) {
		if dp.GetOptions().GetMapEntry() {
			return
		}
		var keep []*descriptorpb.FieldDescriptorProto
		for _, f := range dp.Field {
			if f.OneofIndex == nil && f.GetLabel() != descriptorpb.FieldDescriptorProto_LABEL_REQUIRED && f.GetOptions().GetFeatures().GetFieldPresence().String() != "LEGACY_REQUIRED" && r.Chance(1, 3) {
				deleted++
				continue
			}
			keep = append(keep, f)
		}
		dp.Field = keep
		for _, n := range dp.NestedType {
			prune(n)
		}
	}
	// locate the message by its path of names below the package
	rel := strings.TrimPrefix(string(md.FullName()), string(md.ParentFile().Package())+".")
	parts := strings.Split(rel, ".")
	var cur *descriptorpb.DescriptorProto
	list := fdp.MessageType
	for _, p := range parts {
		cur = nil
		for _, dp := range list {
			if dp.GetName() == p {
				cur = dp
			}
		}
		if cur == nil {
			c.Count("subset_lookup_failed")
			return nil
		}
		list = cur.NestedType
	}
	// prune the whole file's messages so nested references shrink too
	for _, dp := range fdp.MessageType {
		prune(dp)
	}
	// map fields whose entry type lost nothing are fine; unused nested map entries of
	// deleted map fields are left in place (harmless).
	fd, err := protodesc.FileOptions{AllowUnresolvable: false}.New(fdp, protoregistry.GlobalFiles)
	if err != nil {
		c.Count("subset_newfile_failed")
		return nil
	}
	c.CountN("subset_fields_deleted", int64(deleted))
	var out protoreflect.MessageDescriptor
	msgs := fd.Messages()
	for i, p := range parts {
		out = msgs.ByName(protoreflect.Name(p))
		if out == nil {
			return nil
		}
		if i < len(parts)-1 {
			msgs = out.Messages()
		}
	}
	return out
}
