package checks

import (
	"bytes"
	"sort"

	"google.golang.org/protobuf/encoding/protowire"
	"google.golang.org/protobuf/proto"
	"google.golang.org/protobuf/reflect/protoreflect"
	"google.golang.org/protobuf/verif/core"
	"google.golang.org/protobuf/verif/gen"
)

func init() {
	core.Register(&core.Check{
		ID:     "C04",
		Rule:   "cases: PRNG-filled messages of every linked type (generated, dynamicpb, and lazily decoded copies) x all MarshalOptions combinations (Deterministic, AllowPartial, UseCachedSize after a fresh Size) x prefixes with and without spare capacity; every third message is checked again after it was sized and then partly emptied in place through reflection (fields cleared, submessages emptied but left present, no Reset); distinct = distinct (type, deterministic encoding); non-trivial = non-empty encoding",
		Assume: []string{"none beyond len()"},
		Batches: func(tier string) []core.Batch {
			if tier == "thorough" {
				return append(stdBatches([]string{"base"}, 16), stdBatches([]string{"legacy"}, 8)...)
			}
			return stdBatches([]string{"base"}, 16)
		},
		Gates: func(tier string) map[string]int64 {
			return map[string]int64{"size_checks": 5000, "lazy_copies": 100, "nonminimal_lazy": 20, "append_prefix": 1000, "sized_then_emptied": 800}
		},
		Run: runC04,
	})
}

func runC04(c *core.Ctx, b core.Batch) {
	types := shard(codecTypes(b), b.N, nbOf(b, c.Tier))
	per := c.Scale(20, 300)
	for ti, mt := range types {
		keeps := gen.KeepsUnknown(mt.New())
		for k := 0; k < per; k++ {
			r := c.Rng(uint64(ti)<<24 | uint64(k))
			dyn := k%5 == 4
			m := newOf(mt, dyn)
			fo := fillOptsFor(k)
			fo.Unknown = keeps
			gen.Fill(r, m, fo)
			c04Check(c, r, m, "filled")
			if k%3 == 1 {
				// the same message, sized above, then partly emptied in place (no Reset):
				// submessages that now encode to nothing must not keep their old size
				if emptyInPlace(r, m, 0) > 0 {
					c.Count("sized_then_emptied")
					c04Check(c, r, m, "sized-then-emptied")
				}
			}
			if k%2 == 0 && !dyn {
				// a lazily decoded, not yet accessed copy (minimal encoding: Size must be exact)
				enc, err := proto.MarshalOptions{AllowPartial: true}.Marshal(m.Interface())
				if err == nil {
					m2 := mt.New()
					if (proto.UnmarshalOptions{AllowPartial: true}).Unmarshal(enc, m2.Interface()) == nil {
						c.Count("lazy_copies")
						c04Check(c, r, m2, "lazy-copy")
					}
				}
			}
		}
	}
	// documented exception: lazily decoded submessages that arrived non-minimally
	// encoded: Size may over-estimate, never under-estimate, and output decodes equal.
	if b.N != 0 {
		return
	}
	for _, mt := range gen.LazyTypes() {
		name := string(mt.Descriptor().FullName())
		c.Count("lazy_type:" + name)
		for k := 0; k < c.Scale(20, 400); k++ {
			r := c.Rng(uint64(HashName(name))<<8 | uint64(k))
			m := mt.New()
			gen.Fill(r, m, gen.MsgOpts{Density: 60})
			enc, err := proto.MarshalOptions{AllowPartial: true, Deterministic: true}.Marshal(m.Interface())
			if err != nil {
				continue
			}
			nm := nonMinimalLengths(enc, m.Descriptor(), r)
			m2 := mt.New()
			if err := (proto.UnmarshalOptions{AllowPartial: true}).Unmarshal(nm, m2.Interface()); err != nil {
				c.Violation("size:nonminimal-rejected:"+name, map[string]any{"wire": core.Hex(nm), "err": errStr(err)})
				continue
			}
			c.Eval()
			c.Count("nonminimal_lazy")
			sz := proto.MarshalOptions{AllowPartial: true}.Size(m2.Interface())
			out, err := proto.MarshalOptions{AllowPartial: true}.Marshal(m2.Interface())
			if err != nil {
				c.Violation("size:nonminimal-marshal-error:"+name, map[string]any{"wire": core.Hex(nm), "err": errStr(err)})
				continue
			}
			if sz < len(out) {
				c.Violation("size:nonminimal-underestimate:"+name, map[string]any{"wire": core.Hex(nm), "size": sz, "len": len(out)})
			}
			m3 := mt.New()
			if err := (proto.UnmarshalOptions{AllowPartial: true}).Unmarshal(out, m3.Interface()); err != nil || !proto.Equal(m3.Interface(), m.Interface()) {
				c.Violation("size:nonminimal-redecode:"+name, map[string]any{"wire": core.Hex(nm), "out": core.Hex(out), "err": errStr(err)})
			}
		}
	}
}

func HashName(s string) uint32 { return uint32(core.HashStr(s)) }

// nonMinimalLengths re-encodes the top-level length prefixes of
// length-delimited fields with padded varints (valid, non-minimal).
func nonMinimalLengths(b []byte, md protoreflect.MessageDescriptor, r *core.Rand) []byte {
	var out []byte
	for len(b) > 0 {
		num, typ, n := protowire.ConsumeTag(b)
		if n < 0 {
			return append(out, b...)
		}
		m := protowire.ConsumeFieldValue(num, typ, b[n:])
		if m < 0 {
			return append(out, b...)
		}
		if typ == protowire.BytesType {
			v, _ := protowire.ConsumeBytes(b[n:])
			out = append(out, b[:n]...)
			out = append(out, nonMinimalVarint(uint64(len(v)), 1+r.Intn(2))...)
			out = append(out, v...)
		} else {
			out = append(out, b[:n+m]...)
		}
		b = b[n+m:]
	}
	return out
}

func c04Check(c *core.Ctx, r *core.Rand, m protoreflect.Message, origin string) {
	name := string(m.Descriptor().FullName())
	first := true
	var ref []byte
	for _, det := range []bool{true, false} {
		for _, partial := range []bool{true, false} {
			if !partial && proto.CheckInitialized(m.Interface()) != nil {
				continue
			}
			for _, cached := range []bool{false, true} {
				o := proto.MarshalOptions{Deterministic: det, AllowPartial: partial}
				c.Eval()
				c.Count("size_checks")
				c.Log("C04 type=%s origin=%s det=%v partial=%v cached=%v snap=%s", name, origin, det, partial, cached, clip(snapOf(m).Known(), 3000))
				sz := o.Size(m.Interface())
				if cached {
					o.UseCachedSize = true // legal: Size was just called, no mutation since
				}
				var out []byte
				var err error
				if !c.NoPanic("size:marshal-panic:"+name, nil, func() { out, err = o.Marshal(m.Interface()) }) {
					continue
				}
				if err != nil {
					c.Violation("size:marshal-error:"+name, map[string]any{"err": errStr(err), "origin": origin})
					continue
				}
				if sz != len(out) {
					c.Violation("size:mismatch:"+name, map[string]any{"size": sz, "len": len(out), "origin": origin, "det": det, "cached": cached, "wire": core.Hex(out)})
				}
				if first {
					first = false
					if len(out) > 0 {
						c.DistinctBytes([]byte(name), out)
					}
					if c.WantSample() && len(out) > 4 {
						c.Sample(map[string]any{"type": name, "origin": origin, "size": sz, "wire": core.Hex(out)})
					}
				}
				if det && ref == nil {
					ref = out
				}
				// MarshalAppend: prefix kept, remainder are exactly those bytes
				pl := r.Intn(5)
				prefix := r.Bytes(pl)
				var buf []byte
				if r.Bool() {
					buf = append(make([]byte, 0, pl+r.Intn(2*len(out)+8)), prefix...)
				} else {
					buf = append([]byte{}, prefix...)
					buf = buf[:pl:pl]
				}
				c.Count("append_prefix")
				o.UseCachedSize = false
				app, err := o.MarshalAppend(buf, m.Interface())
				if err != nil {
					c.Violation("size:append-error:"+name, map[string]any{"err": errStr(err)})
					continue
				}
				if len(app) != pl+len(out) || !bytes.Equal(app[:pl], prefix) {
					c.Violation("size:append-prefix:"+name, map[string]any{"prefix": core.Hex(prefix), "got": core.Hex(app), "marshal": core.Hex(out)})
				} else if det && !bytes.Equal(app[pl:], out) {
					c.Violation("size:append-differs:"+name, map[string]any{"prefix": core.Hex(prefix), "got": core.Hex(app), "marshal": core.Hex(out)})
				}
			}
		}
	}
}

// emptyInPlace clears fields of m and of its submessages through reflection,
// leaving emptied submessages present; returns the number of Clear calls.
func emptyInPlace(r *core.Rand, m protoreflect.Message, depth int) int {
	type item struct {
		fd protoreflect.FieldDescriptor
		v  protoreflect.Value
	}
	var items []item
	m.Range(func(fd protoreflect.FieldDescriptor, v protoreflect.Value) bool {
		items = append(items, item{fd, v})
		return true
	})
	sort.Slice(items, func(i, j int) bool { return items[i].fd.Number() < items[j].fd.Number() })
	n := 0
	all := func(sub protoreflect.Message) {
		var fds []protoreflect.FieldDescriptor
		sub.Range(func(fd protoreflect.FieldDescriptor, _ protoreflect.Value) bool { fds = append(fds, fd); return true })
		for _, fd := range fds {
			sub.Clear(fd)
			n++
		}
		if len(sub.GetUnknown()) > 0 {
			sub.SetUnknown(nil)
			n++
		}
	}
	sub := func(sm protoreflect.Message) {
		if !sm.IsValid() {
			return
		}
		if r.Chance(1, 2) || depth >= 3 {
			all(sm)
		} else {
			n += emptyInPlace(r, sm, depth+1)
		}
	}
	for _, it := range items {
		fd, v := it.fd, it.v
		switch {
		case fd.IsMap():
			if fd.MapValue().Message() != nil {
				var keys []protoreflect.MapKey
				v.Map().Range(func(k protoreflect.MapKey, _ protoreflect.Value) bool { keys = append(keys, k); return true })
				sort.Slice(keys, func(i, j int) bool { return keys[i].String() < keys[j].String() })
				for _, k := range keys {
					sub(v.Map().Get(k).Message())
				}
			} else if r.Chance(1, 3) {
				m.Clear(fd)
				n++
			}
		case fd.IsList():
			if fd.Message() != nil {
				for i := 0; i < v.List().Len(); i++ {
					sub(v.List().Get(i).Message())
				}
			} else if r.Chance(1, 3) {
				m.Clear(fd)
				n++
			}
		case fd.Message() != nil:
			sub(m.Mutable(fd).Message())
		default:
			if r.Chance(1, 3) {
				m.Clear(fd)
				n++
			}
		}
	}
	return n
}
