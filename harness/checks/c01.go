package checks

import (
	"bytes"
	"fmt"
	"math"
	"math/bits"

	"google.golang.org/protobuf/encoding/protowire"
	"google.golang.org/protobuf/verif/core"
	"google.golang.org/protobuf/verif/model"
)

func init() {
	core.Register(&core.Check{
		ID:     "C01",
		Rule:   "cases: every bit length 0..64 x {2^k-1,2^k,2^k+1}+random varints, zigzag, fixed, bool, tags (all numbers x types in thorough, strided in quick), random byte strings and group bodies; distinct = distinct (primitive,value) pairs; non-trivial = value reaches the encoder",
		Assume: []string{"reference LEB128 (model/wireref.go) is correct", "Go math/bits"},
		Batches: func(tier string) []core.Batch {
			bs := []core.Batch{{Cfg: "base", Name: "varint", Kind: "varint"}, {Cfg: "base", Name: "misc", Kind: "misc"}}
			n := 16
			for i := 0; i < n; i++ {
				bs = append(bs, core.Batch{Cfg: "base", Name: fmt.Sprintf("tags-%d", i), Kind: "tags", N: i})
			}
			return bs
		},
		Gates: func(tier string) map[string]int64 {
			return map[string]int64{"varint_len_1": 1, "varint_len_10": 1, "bitlen_64": 1, "bitlen_0": 1, "tags": 1000}
		},
		Run: runC01,
	})
}

var c01Len [12]int64
var c01Bits [65]int64

func c01Flush(c *core.Ctx) {
	for i, n := range c01Len {
		if n > 0 {
			c.CountN(fmt.Sprintf("varint_len_%d", i), n)
		}
	}
	for i, n := range c01Bits {
		if n > 0 {
			c.CountN(fmt.Sprintf("bitlen_%d", i), n)
		}
	}
}

func c01Varint(c *core.Ctx, v uint64) {
	c.Eval()
	c.Distinct(v*2654435761 + 1)
	b := protowire.AppendVarint(nil, v)
	ref := model.RefAppendVarint(nil, v)
	c01Len[len(b)]++
	c01Bits[bits.Len64(v)]++
	bad := func(what string) {
		c.Violation("varint:"+what, map[string]any{"value": v, "got": core.Hex(b), "ref": core.Hex(ref)})
	}
	if !bytes.Equal(b, ref) {
		bad("append-differs-from-LEB128")
	}
	want := 1
	if bl := bits.Len64(v); bl > 0 {
		want = (bl + 6) / 7
	}
	if len(b) != want {
		bad("not-shortest")
	}
	if protowire.SizeVarint(v) != len(b) {
		bad("SizeVarint")
	}
	// with junk after and with a prefix (append must keep the prefix)
	pre := []byte{0xde, 0xad}
	pb := protowire.AppendVarint(pre[:2:2], v)
	if !bytes.Equal(pb[:2], pre) || !bytes.Equal(pb[2:], b) {
		bad("append-prefix")
	}
	for _, junk := range [][]byte{nil, {0}, {0xff, 0xff}} {
		in := append(append([]byte{}, b...), junk...)
		g, n := protowire.ConsumeVarint(in)
		if n != len(b) || g != v {
			bad("consume")
		}
	}
	// zigzag bijection both directions
	if protowire.EncodeZigZag(protowire.DecodeZigZag(v)) != v {
		bad("zigzag-enc-dec")
	}
	x := int64(v)
	if protowire.DecodeZigZag(protowire.EncodeZigZag(x)) != x {
		bad("zigzag-dec-enc")
	}
	// reference zigzag
	var rz uint64
	if x >= 0 {
		rz = uint64(x) * 2
	} else {
		rz = uint64(-(x+1))*2 + 1
	}
	if protowire.EncodeZigZag(x) != rz {
		bad("zigzag-value")
	}
	// fixed
	f32 := protowire.AppendFixed32(nil, uint32(v))
	if len(f32) != protowire.SizeFixed32() || len(f32) != 4 {
		bad("fixed32-size")
	}
	if g, n := protowire.ConsumeFixed32(append(f32, 9)); n != 4 || g != uint32(v) {
		bad("fixed32-consume")
	}
	if uint32(f32[0])|uint32(f32[1])<<8|uint32(f32[2])<<16|uint32(f32[3])<<24 != uint32(v) {
		bad("fixed32-le")
	}
	f64 := protowire.AppendFixed64(nil, v)
	if len(f64) != protowire.SizeFixed64() || len(f64) != 8 {
		bad("fixed64-size")
	}
	if g, n := protowire.ConsumeFixed64(append(f64, 9)); n != 8 || g != v {
		bad("fixed64-consume")
	}
	var le uint64
	for i := 0; i < 8; i++ {
		le |= uint64(f64[i]) << (8 * uint(i))
	}
	if le != v {
		bad("fixed64-le")
	}
	// bool
	if protowire.DecodeBool(v) != (v != 0) {
		bad("bool-decode")
	}
}

func c01Tag(c *core.Ctx, num protowire.Number, typ protowire.Type) {
	c.Eval()
	c.Count("tags")
	x := protowire.EncodeTag(num, typ)
	if x != uint64(num)<<3|uint64(typ) {
		c.Violation("tag:encode", map[string]any{"num": num, "typ": typ})
	}
	n2, t2 := protowire.DecodeTag(x)
	if n2 != num || t2 != typ {
		c.Violation("tag:decode-encode", map[string]any{"num": num, "typ": typ, "gotnum": n2, "gottyp": t2})
	}
	b := protowire.AppendTag(nil, num, typ)
	if len(b) != protowire.SizeTag(num) || len(b) != model.RefSizeVarint(x) {
		c.Violation("tag:size", map[string]any{"num": num, "typ": typ, "len": len(b), "size": protowire.SizeTag(num)})
	}
	n3, t3, n := protowire.ConsumeTag(append(b, 0x80))
	if n != len(b) || n3 != num || t3 != typ {
		c.Violation("tag:consume", map[string]any{"num": num, "typ": typ, "n": n})
	}
}

func runC01(c *core.Ctx, b core.Batch) {
	switch b.Kind {
	case "varint":
		for k := 0; k <= 64; k++ {
			var base uint64
			if k == 64 {
				base = 0
			} else {
				base = 1 << uint(k)
			}
			for _, v := range []uint64{base - 1, base, base + 1} {
				c01Varint(c, v)
			}
			for _, m := range []uint64{0x7f, 0x80, 0x3fff, 0x4000} {
				c01Varint(c, base|m)
			}
		}
		for _, v := range []uint64{0, math.MaxUint64, math.MaxInt64, 1 << 63, math.MaxUint32, math.MaxInt32, uint64(1<<31 + 0), uint64(math.MaxUint64 - 1)} {
			c01Varint(c, v)
		}
		c.Sample(map[string]any{"varint": uint64(300), "bytes": core.Hex(protowire.AppendVarint(nil, 300))})
		n := c.Scale(300000, 20000000)
		r := c.Rng(0)
		for i := 0; i < n; i++ {
			v := r.Uint64() >> uint(r.Intn(64))
			if i%7 == 0 {
				v = r.Uint64Boundary()
			}
			c01Varint(c, v)
		}
		c01Flush(c)
		if protowire.EncodeBool(true) != 1 || protowire.EncodeBool(false) != 0 {
			c.Violation("bool:encode", nil)
		}
	case "misc":
		r := c.Rng(0)
		n := c.Scale(20000, 1000000)
		for i := 0; i < n; i++ {
			c.Eval()
			v := r.Bytes(r.Intn(300))
			if i%50 == 0 {
				v = r.Bytes(16384 + r.Intn(10))
			}
			c.DistinctBytes(v)
			bb := protowire.AppendBytes([]byte{1}, v)
			if len(bb)-1 != protowire.SizeBytes(len(v)) {
				c.Violation("bytes:size", map[string]any{"len": len(v)})
			}
			g, k := protowire.ConsumeBytes(append(bb[1:len(bb):len(bb)], 0xff))
			if k != len(bb)-1 || !bytes.Equal(g, v) {
				c.Violation("bytes:consume", map[string]any{"len": len(v)})
			}
			ss := protowire.AppendString(nil, string(v))
			if !bytes.Equal(ss, bb[1:]) {
				c.Violation("string:append", map[string]any{"len": len(v)})
			}
			gs, k2 := protowire.ConsumeString(ss)
			if k2 != len(ss) || gs != string(v) {
				c.Violation("string:consume", map[string]any{"len": len(v)})
			}
			// group: body of well-formed fields
			var body []byte
			nf := r.Intn(4)
			for j := 0; j < nf; j++ {
				body = appendRandWireField(r, body, 3)
			}
			num := protowire.Number(1 + r.Intn(1<<29-1))
			if i%3 == 0 {
				num = protowire.Number(1 + r.Intn(20))
			}
			gb := protowire.AppendGroup(nil, num, body)
			if len(gb) != protowire.SizeGroup(num, len(body)) {
				c.Violation("group:size", map[string]any{"num": num, "body": core.Hex(body)})
			}
			gv, gn := protowire.ConsumeGroup(num, append(gb, 1, 2))
			if gn != len(gb) || !bytes.Equal(gv, body) {
				c.Violation("group:consume", map[string]any{"num": num, "body": core.Hex(body), "n": gn})
			}
			// non-minimal end tag: body must still be returned exactly
			endTag := protowire.EncodeTag(num, protowire.EndGroupType)
			nm := append(append([]byte{}, body...), nonMinimalVarint(endTag, 1+r.Intn(3))...)
			if len(nm)-len(body) <= 10 {
				gv2, gn2 := protowire.ConsumeGroup(num, nm)
				if gn2 != len(nm) || !bytes.Equal(gv2, body) {
					c.Violation("group:consume-nonminimal-end", map[string]any{"num": num, "body": core.Hex(body), "n": gn2, "in": core.Hex(nm)})
				}
			}
			if c.WantSample() {
				c.Sample(map[string]any{"group_num": num, "body": core.Hex(body), "encoded": core.Hex(gb)})
			}
		}
	case "tags":
		// all numbers 1..2^29-1 x 8 types in thorough; strided in quick.
		// protowire's own domain extends to MaxInt32 (MessageSet), also sampled.
		stride := uint64(c.Scale(4099, 1))
		lo := uint64(1) + uint64(b.N)*(1<<29)/16
		hi := uint64(1) + uint64(b.N+1)*(1<<29)/16
		if hi > 1<<29 {
			hi = 1 << 29
		}
		for n := lo; n < hi; n += stride {
			for t := 0; t < 8; t++ {
				c01Tag(c, protowire.Number(n), protowire.Type(t))
			}
		}
		c.Distinct(lo)
		c.Distinct(hi)
		for _, n := range []uint64{1, 15, 16, 2047, 2048, 262143, 262144, 1<<25 - 1, 1 << 25, 1<<29 - 1, 1 << 29, math.MaxInt32} {
			for t := 0; t < 8; t++ {
				c01Tag(c, protowire.Number(n), protowire.Type(t))
				c.Distinct(n<<3 | uint64(t))
			}
		}
		if b.N == 0 {
			c.Sample(map[string]any{"tag_num": 1<<29 - 1, "typ": 2, "bytes": core.Hex(protowire.AppendTag(nil, 1<<29-1, 2))})
		}
	}
}

func nonMinimalVarint(v uint64, extra int) []byte {
	b := model.RefAppendVarint(nil, v)
	for i := 0; i < extra; i++ {
		b[len(b)-1] |= 0x80
		b = append(b, 0)
	}
	return b
}

// appendRandWireField appends a random well-formed field (any wire type).
func appendRandWireField(r *core.Rand, b []byte, depth int) []byte {
	num := protowire.Number(1 + r.Intn(1<<29-1))
	if r.Bool() {
		num = protowire.Number(1 + r.Intn(64))
	}
	k := r.Intn(5)
	if depth <= 0 && k == 4 {
		k = 0
	}
	switch k {
	case 0:
		b = protowire.AppendTag(b, num, protowire.VarintType)
		b = protowire.AppendVarint(b, r.Uint64Boundary())
	case 1:
		b = protowire.AppendTag(b, num, protowire.Fixed32Type)
		b = protowire.AppendFixed32(b, uint32(r.Uint64()))
	case 2:
		b = protowire.AppendTag(b, num, protowire.Fixed64Type)
		b = protowire.AppendFixed64(b, r.Uint64())
	case 3:
		b = protowire.AppendTag(b, num, protowire.BytesType)
		b = protowire.AppendBytes(b, r.Bytes(r.Intn(10)))
	case 4:
		b = protowire.AppendTag(b, num, protowire.StartGroupType)
		n := r.Intn(3)
		for i := 0; i < n; i++ {
			b = appendRandWireField(r, b, depth-1)
		}
		b = protowire.AppendTag(b, num, protowire.EndGroupType)
	}
	return b
}
