package checks

import (
	"fmt"
	"strings"

	"google.golang.org/protobuf/proto"
	"google.golang.org/protobuf/reflect/protodesc"
	"google.golang.org/protobuf/reflect/protoreflect"
	"google.golang.org/protobuf/reflect/protoregistry"
	"google.golang.org/protobuf/types/descriptorpb"
	"google.golang.org/protobuf/types/dynamicpb"
	"google.golang.org/protobuf/types/known/anypb"
	"google.golang.org/protobuf/verif/core"
	"google.golang.org/protobuf/verif/gen"
	"google.golang.org/protobuf/verif/model"
)

// localAny is a schema known to a caller-supplied resolver only (nothing of it
// is in the global registries): a message Host with an extension range,
// extensions of it declared at file scope and inside a message, and a Carrier
// holding google.protobuf.Any fields.
type localAny struct {
	types   *protoregistry.Types
	host    protoreflect.MessageType
	carrier protoreflect.MessageType
	pkg     string
}

func newLocalAny(n int) (*localAny, error) {
	pkg := fmt.Sprintf("verifloc%d", n)
	opt := descriptorpb.FieldDescriptorProto_LABEL_OPTIONAL.Enum()
	rep := descriptorpb.FieldDescriptorProto_LABEL_REPEATED.Enum()
	fld := func(name string, num int32, l *descriptorpb.FieldDescriptorProto_Label, t descriptorpb.FieldDescriptorProto_Type, tn string) *descriptorpb.FieldDescriptorProto {
		f := &descriptorpb.FieldDescriptorProto{Name: proto.String(name), Number: proto.Int32(num), Label: l, Type: t.Enum(), JsonName: proto.String(gen.JSONCamel(name))}
		if tn != "" {
			f.TypeName = proto.String(tn)
		}
		return f
	}
	ext := func(f *descriptorpb.FieldDescriptorProto) *descriptorpb.FieldDescriptorProto {
		f.Extendee = proto.String("." + pkg + ".Host")
		f.JsonName = nil
		return f
	}
	fdp := &descriptorpb.FileDescriptorProto{Name: proto.String(pkg + "/local.proto"), Package: proto.String(pkg), Syntax: proto.String("proto2"),
		Dependency: []string{"google/protobuf/any.proto"},
		MessageType: []*descriptorpb.DescriptorProto{
			{Name: proto.String("Host"),
				Field: []*descriptorpb.FieldDescriptorProto{
					fld("name", 1, opt, descriptorpb.FieldDescriptorProto_TYPE_STRING, ""),
					fld("child", 2, opt, descriptorpb.FieldDescriptorProto_TYPE_MESSAGE, "."+pkg+".Host"),
					fld("nums", 3, rep, descriptorpb.FieldDescriptorProto_TYPE_FIXED32, ""),
					fld("inner_any", 4, opt, descriptorpb.FieldDescriptorProto_TYPE_MESSAGE, ".google.protobuf.Any"),
				},
				ExtensionRange: []*descriptorpb.DescriptorProto_ExtensionRange{{Start: proto.Int32(100), End: proto.Int32(200)}}},
			{Name: proto.String("Scope"), Extension: []*descriptorpb.FieldDescriptorProto{
				ext(fld("nested_ext", 110, opt, descriptorpb.FieldDescriptorProto_TYPE_BYTES, "")),
			}},
			{Name: proto.String("Carrier"), Field: []*descriptorpb.FieldDescriptorProto{
				fld("one", 1, opt, descriptorpb.FieldDescriptorProto_TYPE_MESSAGE, ".google.protobuf.Any"),
				fld("many", 2, rep, descriptorpb.FieldDescriptorProto_TYPE_MESSAGE, ".google.protobuf.Any"),
				fld("label", 3, opt, descriptorpb.FieldDescriptorProto_TYPE_STRING, ""),
			}},
		},
		Extension: []*descriptorpb.FieldDescriptorProto{
			ext(fld("ext_i", 100, opt, descriptorpb.FieldDescriptorProto_TYPE_SINT32, "")),
			ext(fld("ext_s", 101, opt, descriptorpb.FieldDescriptorProto_TYPE_STRING, "")),
			ext(fld("ext_m", 102, opt, descriptorpb.FieldDescriptorProto_TYPE_MESSAGE, "."+pkg+".Host")),
			ext(fld("ext_r", 103, rep, descriptorpb.FieldDescriptorProto_TYPE_INT64, "")),
			ext(fld("ext_d", 104, opt, descriptorpb.FieldDescriptorProto_TYPE_DOUBLE, "")),
		},
	}
	fd, err := protodesc.NewFile(fdp, protoregistry.GlobalFiles)
	if err != nil {
		return nil, err
	}
	la := &localAny{types: new(protoregistry.Types), pkg: pkg}
	la.host = dynamicpb.NewMessageType(fd.Messages().ByName("Host"))
	la.carrier = dynamicpb.NewMessageType(fd.Messages().ByName("Carrier"))
	for _, mt := range []protoreflect.MessageType{la.host, la.carrier, dynamicpb.NewMessageType(fd.Messages().ByName("Scope"))} {
		if err := la.types.RegisterMessage(mt); err != nil {
			return nil, err
		}
	}
	anyMT, err := protoregistry.GlobalTypes.FindMessageByName("google.protobuf.Any")
	if err != nil {
		return nil, err
	}
	la.types.RegisterMessage(anyMT)
	xs := fd.Extensions()
	for i := 0; i < xs.Len(); i++ {
		la.types.RegisterExtension(dynamicpb.NewExtensionType(xs.Get(i)))
	}
	sx := fd.Messages().ByName("Scope").Extensions()
	for i := 0; i < sx.Len(); i++ {
		la.types.RegisterExtension(dynamicpb.NewExtensionType(sx.Get(i)))
	}
	return la, nil
}

// content draws a Carrier whose Any fields hold Host messages with extensions
// set (also nested: an extension of message type, an Any inside the Host).
func (la *localAny) content(r *core.Rand, jsonSafe bool) (carrier protoreflect.Message, extensionsSet int) {
	var fillHost func(depth int) protoreflect.Message
	fillHost = func(depth int) protoreflect.Message {
		h := la.host.New()
		fo := gen.MsgOpts{Density: 70, Extensions: true, Resolver: la.types, JSONSafe: jsonSafe, MaxDepth: 2}
		gen.Fill(r, h, fo)
		// the Any inside the Host is set by hand (the generic filler knows global types only)
		ia := h.Descriptor().Fields().ByName("inner_any")
		h.Clear(ia)
		if depth < 2 && r.Chance(1, 3) {
			h.Set(ia, protoreflect.ValueOfMessage(la.pack(fillHost(depth+1))))
		}
		h.Range(func(fd protoreflect.FieldDescriptor, _ protoreflect.Value) bool {
			if fd.IsExtension() {
				extensionsSet++
			}
			return true
		})
		return h
	}
	cm := la.carrier.New()
	cd := cm.Descriptor().Fields()
	cm.Set(cd.ByName("one"), protoreflect.ValueOfMessage(la.pack(fillHost(0))))
	l := cm.Mutable(cd.ByName("many")).List()
	for i := 0; i < r.Intn(3); i++ {
		l.Append(protoreflect.ValueOfMessage(la.pack(fillHost(0))))
	}
	cm.Set(cd.ByName("label"), protoreflect.ValueOfString(gen.RandIdent(r)))
	return cm, extensionsSet
}

func (la *localAny) pack(h protoreflect.Message) protoreflect.Message {
	b, _ := proto.MarshalOptions{Deterministic: true, AllowPartial: true}.Marshal(h.Interface())
	a := &anypb.Any{TypeUrl: "type.googleapis.com/" + string(h.Descriptor().FullName()), Value: b}
	return a.ProtoReflect()
}

// snap renders a message with Any payloads resolved through the local types
// (extensions inside the payload included).
func (la *localAny) snap(m protoreflect.Message) *model.Snap {
	return model.OfExpandAny(m, func(url string, value []byte) protoreflect.Message {
		i := strings.LastIndexByte(url, '/')
		mt, err := la.types.FindMessageByName(protoreflect.FullName(url[i+1:]))
		if err != nil || url == "" {
			return nil
		}
		inner := mt.New()
		if (proto.UnmarshalOptions{AllowPartial: true, Resolver: la.types}).Unmarshal(value, inner.Interface()) != nil {
			return nil
		}
		return inner
	})
}
