package checks

import (
	"fmt"
	"sort"
	"strings"

	"google.golang.org/protobuf/proto"
	"google.golang.org/protobuf/reflect/protodesc"
	"google.golang.org/protobuf/reflect/protoreflect"
	"google.golang.org/protobuf/reflect/protoregistry"
	"google.golang.org/protobuf/types/descriptorpb"
	"google.golang.org/protobuf/types/dynamicpb"
	"google.golang.org/protobuf/verif/core"
	"google.golang.org/protobuf/verif/gen"
)

func init() {
	core.Register(&core.Check{
		ID:     "C33",
		Rule:   "cases: histories of up to 40 operations on fresh local protoregistry.Files and Types registries over a universe of 6-14 file descriptors per history: files of 2-3 generated schemas sharing one package prefix (so paths, packages, declaration names and extension numbers overlap) plus derived conflict files (a package named like a declaration, a declaration named like a package component, an enum value named like a message of the enclosing package, same path with other content, an enum named like a message); operations: RegisterFile / RegisterMessage / RegisterEnum / RegisterExtension (incl. repeats) interleaved with lookups; after every operation the registry is compared with an abstract name table: success iff no path, package-vs-declaration, declaration-name or extension-number conflict; a failed registration changes nothing; every declaration of every registered file (nested messages, fields, oneofs, enum values in the enclosing scope, extensions, services, methods) is found by full name with pointer identity; every unregistered name, package name, name prefix and near miss is NotFound; counts and ranges equal the model's sets; distinct = distinct (history, step); non-trivial = step after at least one successful registration",
		Assume: []string{"the 120-line name-table model in checks/c33.go, transcribing the property statement", "descriptor accessors (C36) to enumerate the declarations of a file"},
		Batches: func(tier string) []core.Batch {
			var bs []core.Batch
			for i := 0; i < 12; i++ {
				bs = append(bs, core.Batch{Cfg: "base", Name: fmt.Sprintf("hist-%02d", i), Kind: "hist", N: i})
			}
			return bs
		},
		Gates: func(tier string) map[string]int64 {
			return map[string]int64{"histories": 300, "register_ok": 1500, "register_conflict:path": 100, "register_conflict:package-vs-declaration": 50, "conflict_packages_through_nested_declarations": 60, "register_conflict:declaration-name": 200, "lookups_found": 50000, "lookups_notfound": 20000,
				"types_register_ok": 2000, "types_conflict:name": 100, "types_conflict:extension-number": 20, "types_conflict_distinct_name_same_number": 20, "types_lookups": 20000, "conflict_files": 500}
		},
		Run: runC33,
	})
}

// nameTable is the abstract model of protoregistry.Files.
type nameTable struct {
	paths    map[string]protoreflect.FileDescriptor
	packages map[protoreflect.FullName][]protoreflect.FileDescriptor // package markers (all prefixes) -> files exactly in that package
	top      map[protoreflect.FullName]bool                          // top-level declaration names (incl. enum values)
	all      map[protoreflect.FullName]protoreflect.Descriptor       // every declaration of every registered file
	files    []protoreflect.FileDescriptor
}

func newNameTable() *nameTable {
	return &nameTable{paths: map[string]protoreflect.FileDescriptor{}, packages: map[protoreflect.FullName][]protoreflect.FileDescriptor{}, top: map[protoreflect.FullName]bool{}, all: map[protoreflect.FullName]protoreflect.Descriptor{}}
}

func topLevelNames(fd protoreflect.FileDescriptor) []protoreflect.FullName {
	var out []protoreflect.FullName
	for i := 0; i < fd.Enums().Len(); i++ {
		e := fd.Enums().Get(i)
		out = append(out, e.FullName())
		for j := 0; j < e.Values().Len(); j++ {
			out = append(out, e.Values().Get(j).FullName())
		}
	}
	for i := 0; i < fd.Messages().Len(); i++ {
		out = append(out, fd.Messages().Get(i).FullName())
	}
	for i := 0; i < fd.Extensions().Len(); i++ {
		out = append(out, fd.Extensions().Get(i).FullName())
	}
	for i := 0; i < fd.Services().Len(); i++ {
		out = append(out, fd.Services().Get(i).FullName())
	}
	return out
}

// allDecls lists every declaration of a file with its full name.
func allDecls(fd protoreflect.FileDescriptor) map[protoreflect.FullName]protoreflect.Descriptor {
	out := map[protoreflect.FullName]protoreflect.Descriptor{}
	var enums func(es protoreflect.EnumDescriptors)
	enums = func(es protoreflect.EnumDescriptors) {
		for i := 0; i < es.Len(); i++ {
			e := es.Get(i)
			out[e.FullName()] = e
			for j := 0; j < e.Values().Len(); j++ {
				out[e.Values().Get(j).FullName()] = e.Values().Get(j)
			}
		}
	}
	var msgs func(ms protoreflect.MessageDescriptors)
	msgs = func(ms protoreflect.MessageDescriptors) {
		for i := 0; i < ms.Len(); i++ {
			m := ms.Get(i)
			out[m.FullName()] = m
			for j := 0; j < m.Fields().Len(); j++ {
				out[m.Fields().Get(j).FullName()] = m.Fields().Get(j)
			}
			for j := 0; j < m.Oneofs().Len(); j++ {
				out[m.Oneofs().Get(j).FullName()] = m.Oneofs().Get(j)
			}
			for j := 0; j < m.Extensions().Len(); j++ {
				out[m.Extensions().Get(j).FullName()] = m.Extensions().Get(j)
			}
			enums(m.Enums())
			msgs(m.Messages())
		}
	}
	enums(fd.Enums())
	msgs(fd.Messages())
	for i := 0; i < fd.Extensions().Len(); i++ {
		out[fd.Extensions().Get(i).FullName()] = fd.Extensions().Get(i)
	}
	for i := 0; i < fd.Services().Len(); i++ {
		s := fd.Services().Get(i)
		out[s.FullName()] = s
		for j := 0; j < s.Methods().Len(); j++ {
			out[s.Methods().Get(j).FullName()] = s.Methods().Get(j)
		}
	}
	return out
}

// register returns the conflict class ("" = success).
func (t *nameTable) register(fd protoreflect.FileDescriptor) string {
	if _, dup := t.paths[fd.Path()]; dup {
		return "path"
	}
	for p := fd.Package(); p != ""; p = p.Parent() {
		if t.top[p] {
			return "package-vs-declaration"
		}
	}
	for _, n := range topLevelNames(fd) {
		if t.top[n] {
			return "declaration-name"
		}
		if _, isPkg := t.packages[n]; isPkg {
			return "package-vs-declaration"
		}
	}
	t.paths[fd.Path()] = fd
	for p := fd.Package(); p != ""; p = p.Parent() {
		if _, ok := t.packages[p]; !ok {
			t.packages[p] = nil
		}
	}
	t.packages[fd.Package()] = append(t.packages[fd.Package()], fd)
	for _, n := range topLevelNames(fd) {
		t.top[n] = true
	}
	for n, d := range allDecls(fd) {
		t.all[n] = d
	}
	t.files = append(t.files, fd)
	return ""
}

func buildOne(p *descriptorpb.FileDescriptorProto, res protodesc.Resolver) protoreflect.FileDescriptor {
	fd, err := protodesc.FileOptions{AllowUnresolvable: true}.New(p, res)
	if err != nil {
		return nil
	}
	return fd
}

// c33Universe builds the files of one history.
func c33Universe(c *core.Ctx, r *core.Rand, prefix string) (fds []protoreflect.FileDescriptor) {
	nsch := 2 + r.Intn(2)
	for si := 0; si < nsch; si++ {
		s := gen.GenSchema(r.Fork(uint64(si)), gen.SchemaOpts{Prefix: prefix, Features: si == 0, NumFiles: 1 + r.Intn(3), MaxFields: 4})
		reg := &protoregistry.Files{}
		for _, p := range s.Files {
			fd, err := protodesc.NewFile(p, fallbackResolver{reg})
			if err != nil {
				break
			}
			reg.RegisterFile(fd)
			fds = append(fds, fd)
		}
	}
	if len(fds) == 0 {
		return nil
	}
	// derived conflict files
	mk := func(path string, pkg string, f func(p *descriptorpb.FileDescriptorProto)) {
		p := &descriptorpb.FileDescriptorProto{Name: proto.String(path), Package: proto.String(pkg), Syntax: proto.String("proto3")}
		if pkg == "" {
			p.Package = nil
		}
		f(p)
		if fd := buildOne(p, nil); fd != nil {
			fds = append(fds, fd)
			c.Count("conflict_files")
		}
	}
	var someMsg protoreflect.MessageDescriptor
	for _, fd := range fds {
		if fd.Messages().Len() > 0 && (someMsg == nil || r.Chance(1, 3)) {
			someMsg = fd.Messages().Get(r.Intn(fd.Messages().Len()))
		}
	}
	base := fds[r.Intn(len(fds))]
	if someMsg != nil {
		n := someMsg.FullName()
		// a package named like a declaration
		mk(prefix+"/clash_pkg.proto", string(n), func(p *descriptorpb.FileDescriptorProto) {
			p.MessageType = []*descriptorpb.DescriptorProto{{Name: proto.String("Inner")}}
		})
		// a package nested below a declaration
		mk(prefix+"/clash_pkg_deep.proto", string(n)+".deep.er", func(p *descriptorpb.FileDescriptorProto) {
			p.MessageType = []*descriptorpb.DescriptorProto{{Name: proto.String("Inner")}}
		})
		// packages running through declarations nested in that message (and one component
		// below them): the failed registration must not shadow the nested declarations
		deep := 0
		var walk func(md protoreflect.MessageDescriptor)
		walk = func(md protoreflect.MessageDescriptor) {
			for i := 0; i < md.Messages().Len() && deep < 4; i++ {
				nm := md.Messages().Get(i)
				if nm.IsMapEntry() {
					continue
				}
				deep++
				pkg := string(nm.FullName())
				if deep%2 == 0 {
					pkg += ".below"
				}
				if nm.Fields().Len() > 0 && deep%3 == 0 {
					pkg = string(nm.Fields().Get(0).FullName()) + ".under_field"
				}
				mk(fmt.Sprintf("%s/clash_pkg_nested%d.proto", prefix, deep), pkg, func(p *descriptorpb.FileDescriptorProto) {
					p.MessageType = []*descriptorpb.DescriptorProto{{Name: proto.String("Inner")}}
				})
				walk(nm)
			}
		}
		walk(someMsg)
		if deep > 0 {
			c.Count("conflict_packages_through_nested_declarations")
		}
		// an enum value named like that message, in the same package
		mk(prefix+"/clash_enum_value.proto", string(n.Parent()), func(p *descriptorpb.FileDescriptorProto) {
			p.EnumType = []*descriptorpb.EnumDescriptorProto{{Name: proto.String("ClashHolderEnum"), Value: []*descriptorpb.EnumValueDescriptorProto{{Name: proto.String(string(n.Name())), Number: proto.Int32(0)}}}}
		})
		// an enum named like that message
		mk(prefix+"/clash_enum_name.proto", string(n.Parent()), func(p *descriptorpb.FileDescriptorProto) {
			p.EnumType = []*descriptorpb.EnumDescriptorProto{{Name: proto.String(string(n.Name())), Value: []*descriptorpb.EnumValueDescriptorProto{{Name: proto.String("CLASH_ENUM_NAME_ZERO"), Number: proto.Int32(0)}}}}
		})
		// a service named like that message
		mk(prefix+"/clash_service_name.proto", string(n.Parent()), func(p *descriptorpb.FileDescriptorProto) {
			p.Service = []*descriptorpb.ServiceDescriptorProto{{Name: proto.String(string(n.Name()))}}
		})
	}
	if pk := base.Package(); pk.Parent() != "" {
		// a declaration named like a package component
		mk(prefix+"/clash_decl_vs_pkg.proto", string(pk.Parent()), func(p *descriptorpb.FileDescriptorProto) {
			p.MessageType = []*descriptorpb.DescriptorProto{{Name: proto.String(string(pk.Name()))}}
		})
	}
	// an extension with a fresh name but the extendee and number of an existing one
	{
		all := &protoregistry.Files{}
		for _, fd := range fds {
			all.RegisterFile(fd) // conflicting ones are simply left out of the resolver
		}
		var exts []protoreflect.ExtensionDescriptor
		for _, fd := range fds {
			for _, d := range allDecls(fd) {
				if x, ok := d.(protoreflect.FieldDescriptor); ok && x.IsExtension() && !x.ContainingMessage().IsPlaceholder() {
					if _, err := all.FindDescriptorByName(x.ContainingMessage().FullName()); err == nil {
						exts = append(exts, x)
					}
				}
			}
		}
		sort.Slice(exts, func(i, j int) bool { return exts[i].FullName() < exts[j].FullName() })
		for k := 0; k < 2 && len(exts) > 0; k++ {
			x := exts[r.Intn(len(exts))]
			p := &descriptorpb.FileDescriptorProto{Name: proto.String(fmt.Sprintf("%s/clash_ext_number_%d.proto", prefix, k)), Package: proto.String(prefix + ".extclash"), Dependency: []string{x.ContainingMessage().ParentFile().Path()},
				Extension: []*descriptorpb.FieldDescriptorProto{{Name: proto.String(fmt.Sprintf("same_number_ext_%d", k)), Number: proto.Int32(int32(x.Number())), Label: descriptorpb.FieldDescriptorProto_LABEL_OPTIONAL.Enum(), Type: descriptorpb.FieldDescriptorProto_TYPE_INT32.Enum(), Extendee: proto.String("." + string(x.ContainingMessage().FullName()))}}}
			if fd := buildOne(p, all); fd != nil {
				fds = append(fds, fd)
				c.Count("conflict_files")
				c.Count("same_number_extension_files")
			}
		}
	}
	// same path, other content
	mk(base.Path(), string(base.Package())+".otherpkg", func(p *descriptorpb.FileDescriptorProto) {
		p.MessageType = []*descriptorpb.DescriptorProto{{Name: proto.String("SamePathOther")}}
	})
	// harmless files: same package as an existing file, fresh names; and an unrelated package
	mk(prefix+"/fresh_same_pkg.proto", string(base.Package()), func(p *descriptorpb.FileDescriptorProto) {
		p.MessageType = []*descriptorpb.DescriptorProto{{Name: proto.String("FreshSamePkg"), Field: []*descriptorpb.FieldDescriptorProto{{Name: proto.String("x"), Number: proto.Int32(1), Label: descriptorpb.FieldDescriptorProto_LABEL_OPTIONAL.Enum(), Type: descriptorpb.FieldDescriptorProto_TYPE_INT32.Enum()}}}}
	})
	mk(prefix+"/no_package.proto", "", func(p *descriptorpb.FileDescriptorProto) {
		p.MessageType = []*descriptorpb.DescriptorProto{{Name: proto.String("NoPkg" + strings.ReplaceAll(prefix, ".", "_"))}}
	})
	return fds
}

func runC33(c *core.Ctx, b core.Batch) {
	n := c.Scale(40, 800)
	for h := 0; h < n; h++ {
		r := c.Rng(uint64(h))
		prefix := fmt.Sprintf("c33.b%d.h%d", b.N, h)
		fds := c33Universe(c, r, prefix)
		if len(fds) < 3 {
			continue
		}
		c.Count("histories")
		c33Files(c, r, prefix, fds)
		c33Types(c, r, prefix, fds)
	}
}

func c33Files(c *core.Ctx, r *core.Rand, prefix string, fds []protoreflect.FileDescriptor) {
	reg := &protoregistry.Files{}
	model := newNameTable()
	// universe of names to probe
	var names []protoreflect.FullName
	seen := map[protoreflect.FullName]bool{}
	add := func(n protoreflect.FullName) {
		if n != "" && !seen[n] {
			seen[n] = true
			names = append(names, n)
		}
	}
	var pkgs []protoreflect.FullName
	for _, fd := range fds {
		for n := range allDecls(fd) {
			add(n)
			add(n + "x")
			add(n.Parent())
			add(n.Parent().Parent())
			add(n + ".key")
			if i := strings.LastIndexByte(string(n), '.'); i > 0 {
				add(protoreflect.FullName(string(n[:i]) + "." + strings.ToUpper(string(n[i+1:i+2])) + string(n[i+2:])))
			}
		}
		for p := fd.Package(); p != ""; p = p.Parent() {
			add(p)
			pkgs = append(pkgs, p)
		}
	}
	pkgs = append(pkgs, "", "nosuch.pkg")
	sort.Slice(names, func(i, j int) bool { return names[i] < names[j] })
	var hist []string
	verify := func(step int, full bool) {
		detail := func() map[string]any { return map[string]any{"history": hist, "step": step, "universe": prefix} }
		if got := reg.NumFiles(); got != len(model.files) {
			d := detail()
			d["got"], d["want"] = got, len(model.files)
			c.Violation("files:numfiles", d)
		}
		// RangeFiles
		got := map[protoreflect.FileDescriptor]int{}
		reg.RangeFiles(func(fd protoreflect.FileDescriptor) bool { got[fd]++; return true })
		if len(got) != len(model.files) {
			c.Violation("files:rangefiles-count", detail())
		}
		for _, fd := range model.files {
			if got[fd] != 1 {
				c.Violation("files:rangefiles-missing-or-repeated", detail())
			}
		}
		for _, fd := range fds {
			want, ok := model.paths[fd.Path()]
			f, err := reg.FindFileByPath(fd.Path())
			if ok != (err == nil) || (ok && f != want) {
				d := detail()
				d["path"] = fd.Path()
				c.Violation("files:findfilebypath", d)
			}
			if !ok && err != protoregistry.NotFound {
				c.Violation("files:findfilebypath-error-not-notfound", detail())
			}
		}
		for _, p := range pkgs {
			want := model.packages[p]
			if gotN := reg.NumFilesByPackage(p); gotN != len(want) {
				d := detail()
				d["package"], d["got"], d["want"] = string(p), gotN, len(want)
				c.Violation("files:numfilesbypackage", d)
			}
			cnt := 0
			okAll := true
			reg.RangeFilesByPackage(p, func(fd protoreflect.FileDescriptor) bool {
				cnt++
				found := false
				for _, w := range want {
					found = found || w == fd
				}
				okAll = okAll && found
				return true
			})
			if cnt != len(want) || !okAll {
				c.Violation("files:rangefilesbypackage", detail())
			}
		}
		// names
		probe := func(nm protoreflect.FullName) {
			want, ok := model.all[nm]
			d, err := reg.FindDescriptorByName(nm)
			c.Eval()
			if ok {
				c.Count("lookups_found")
			} else {
				c.Count("lookups_notfound")
			}
			switch {
			case ok && err != nil:
				dd := detail()
				dd["name"], dd["kind"] = string(nm), fmt.Sprintf("%T", want)
				c.Violation("files:registered-declaration-not-found:"+c33Kind(want), dd)
			case ok && d != want:
				dd := detail()
				dd["name"] = string(nm)
				c.Violation("files:found-other-descriptor:"+c33Kind(want), dd)
			case !ok && err == nil:
				dd := detail()
				dd["name"], dd["found"] = string(nm), fmt.Sprintf("%T %s", d, d.FullName())
				c.Violation("files:unregistered-name-found", dd)
			case !ok && err != protoregistry.NotFound:
				c.Violation("files:lookup-error-not-notfound", detail())
			}
		}
		if full {
			for _, nm := range names {
				probe(nm)
			}
		} else {
			for k := 0; k < 40; k++ {
				probe(names[r.Intn(len(names))])
			}
		}
	}
	steps := 10 + r.Intn(30)
	for step := 0; step < steps; step++ {
		fd := fds[r.Intn(len(fds))]
		hist = append(hist, fd.Path()+"|"+string(fd.Package()))
		c.Log("C33 files universe=%s step=%d register %s", prefix, step, fd.Path())
		var err error
		if !c.NoPanic("files:registerfile-panic", map[string]any{"history": hist}, func() { err = reg.RegisterFile(fd) }) {
			return
		}
		class := model.register(fd)
		c.DistinctStr(fmt.Sprintf("%s/%d", prefix, step))
		if class == "" {
			c.Count("register_ok")
		} else {
			c.Count("register_conflict:" + class)
		}
		if (err == nil) != (class == "") {
			c.Violation(fmt.Sprintf("files:registerfile:want-conflict=%q:got-error=%v", class, err != nil), map[string]any{"history": hist, "file": fd.Path(), "package": string(fd.Package()), "err": errStr(err), "universe": prefix})
			return // model and registry have diverged
		}
		verify(step, step == steps-1 || step%8 == 7)
	}
	if c.WantSample() && len(model.files) > 2 {
		c.Sample(map[string]any{"universe": prefix, "history": hist, "registered_files": len(model.files), "names_probed": len(names)})
	}
}

func c33Kind(d protoreflect.Descriptor) string {
	switch d.(type) {
	case protoreflect.MessageDescriptor:
		if d.Parent() != d.ParentFile() {
			return "nested-message"
		}
		return "message"
	case protoreflect.EnumDescriptor:
		return "enum"
	case protoreflect.EnumValueDescriptor:
		return "enum-value"
	case protoreflect.FieldDescriptor:
		if d.(protoreflect.FieldDescriptor).IsExtension() {
			return "extension"
		}
		return "field"
	case protoreflect.OneofDescriptor:
		return "oneof"
	case protoreflect.ServiceDescriptor:
		return "service"
	case protoreflect.MethodDescriptor:
		return "method"
	}
	return "other"
}

func c33Types(c *core.Ctx, r *core.Rand, prefix string, fds []protoreflect.FileDescriptor) {
	reg := &protoregistry.Types{}
	type ent struct {
		kind string
		typ  any
	}
	byName := map[protoreflect.FullName]ent{}
	extByNum := map[string]protoreflect.ExtensionType{}
	nm, ne, nx := 0, 0, 0
	// candidate types
	type cand struct {
		kind string
		d    protoreflect.Descriptor
	}
	var cands []cand
	for _, fd := range fds {
		for _, d := range allDecls(fd) {
			switch x := d.(type) {
			case protoreflect.MessageDescriptor:
				if !x.IsMapEntry() {
					cands = append(cands, cand{"message", x})
				}
			case protoreflect.EnumDescriptor:
				cands = append(cands, cand{"enum", x})
			case protoreflect.FieldDescriptor:
				if x.IsExtension() && !x.ContainingMessage().IsPlaceholder() {
					cands = append(cands, cand{"extension", x})
				}
			}
		}
	}
	sort.Slice(cands, func(i, j int) bool {
		if cands[i].d.FullName() != cands[j].d.FullName() {
			return cands[i].d.FullName() < cands[j].d.FullName()
		}
		return cands[i].d.ParentFile().Path()+cands[i].kind < cands[j].d.ParentFile().Path()+cands[j].kind
	})
	if len(cands) == 0 {
		return
	}
	var hist []string
	steps := 15 + r.Intn(30)
	for step := 0; step < steps; step++ {
		cd := cands[r.Intn(len(cands))]
		name := cd.d.FullName()
		hist = append(hist, cd.kind+":"+string(name))
		c.Log("C33 types universe=%s step=%d register %s %s", prefix, step, cd.kind, name)
		var err error
		var typ any
		wantClass := ""
		ok := c.NoPanic("types:register-panic", map[string]any{"history": hist}, func() {
			switch cd.kind {
			case "message":
				mt := dynamicpb.NewMessageType(cd.d.(protoreflect.MessageDescriptor))
				typ = mt
				err = reg.RegisterMessage(mt)
			case "enum":
				et := dynamicpb.NewEnumType(cd.d.(protoreflect.EnumDescriptor))
				typ = et
				err = reg.RegisterEnum(et)
			case "extension":
				xt := dynamicpb.NewExtensionType(cd.d.(protoreflect.ExtensionDescriptor))
				typ = xt
				err = reg.RegisterExtension(xt)
			}
		})
		if !ok {
			return
		}
		key := ""
		if cd.kind == "extension" {
			xd := cd.d.(protoreflect.FieldDescriptor)
			key = fmt.Sprintf("%s/%d", xd.ContainingMessage().FullName(), xd.Number())
			if prev, dup := extByNum[key]; dup {
				wantClass = "extension-number"
				if prev.TypeDescriptor().FullName() != name {
					if _, nameTaken := byName[name]; !nameTaken {
						c.Count("types_conflict_distinct_name_same_number")
					}
				}
			}
		}
		if _, dup := byName[name]; dup && wantClass == "" {
			wantClass = "name"
		}
		c.Eval()
		c.DistinctStr(fmt.Sprintf("%s/t%d", prefix, step))
		if wantClass == "" {
			c.Count("types_register_ok")
			byName[name] = ent{cd.kind, typ}
			switch cd.kind {
			case "message":
				nm++
			case "enum":
				ne++
			default:
				nx++
				extByNum[key] = typ.(protoreflect.ExtensionType)
			}
		} else {
			c.Count("types_conflict:" + wantClass)
		}
		if (err == nil) != (wantClass == "") {
			c.Violation(fmt.Sprintf("types:register-%s:want-conflict=%q:got-error=%v", cd.kind, wantClass, err != nil), map[string]any{"history": hist, "err": errStr(err)})
			return
		}
		// observations
		detail := func() map[string]any { return map[string]any{"history": hist, "universe": prefix} }
		if reg.NumMessages() != nm || reg.NumEnums() != ne || reg.NumExtensions() != nx {
			d := detail()
			d["got"] = []int{reg.NumMessages(), reg.NumEnums(), reg.NumExtensions()}
			d["want"] = []int{nm, ne, nx}
			c.Violation("types:counts", d)
		}
		cm, ce, cx := 0, 0, 0
		reg.RangeMessages(func(mt protoreflect.MessageType) bool {
			cm++
			if e, ok := byName[mt.Descriptor().FullName()]; !ok || e.typ != any(mt) {
				c.Violation("types:rangemessages-unknown-entry", detail())
			}
			return true
		})
		reg.RangeEnums(func(et protoreflect.EnumType) bool {
			ce++
			if e, ok := byName[et.Descriptor().FullName()]; !ok || e.typ != any(et) {
				c.Violation("types:rangeenums-unknown-entry", detail())
			}
			return true
		})
		reg.RangeExtensions(func(xt protoreflect.ExtensionType) bool {
			cx++
			if e, ok := byName[xt.TypeDescriptor().FullName()]; !ok || e.typ != any(xt) {
				c.Violation("types:rangeextensions-unknown-entry", detail())
			}
			return true
		})
		if cm != nm || ce != ne || cx != nx {
			c.Violation("types:range-counts", detail())
		}
		for k := 0; k < 25; k++ {
			q := cands[r.Intn(len(cands))]
			qn := q.d.FullName()
			if k%5 == 4 {
				qn += "x"
			}
			e, have := byName[qn]
			c.Count("types_lookups")
			mt, errM := reg.FindMessageByName(qn)
			mu, errU := reg.FindMessageByURL("type.googleapis.com/" + string(qn))
			et, errE := reg.FindEnumByName(qn)
			xt, errX := reg.FindExtensionByName(qn)
			chk := func(kind string, got any, err error) {
				switch {
				case !have:
					if err != protoregistry.NotFound {
						d := detail()
						d["name"] = string(qn)
						c.Violation("types:find-"+kind+"-unregistered-not-notfound", d)
					}
				case e.kind == kind:
					if err != nil || got != e.typ {
						d := detail()
						d["name"] = string(qn)
						c.Violation("types:find-"+kind+"-registered-not-found", d)
					}
				default: // registered under another kind: an error that is not NotFound
					if err == nil || err == protoregistry.NotFound {
						d := detail()
						d["name"], d["registered_as"] = string(qn), e.kind
						c.Violation("types:find-"+kind+"-wrong-kind-verdict", d)
					}
				}
			}
			chk("message", any(mt), errM)
			if (errM == nil) != (errU == nil) || (errM == nil && any(mu) != any(mt)) {
				c.Violation("types:findmessagebyurl-disagrees", detail())
			}
			chk("enum", any(et), errE)
			chk("extension", any(xt), errX)
			if xd, ok := q.d.(protoreflect.FieldDescriptor); ok && xd.IsExtension() {
				key := fmt.Sprintf("%s/%d", xd.ContainingMessage().FullName(), xd.Number())
				want, have := extByNum[key]
				got, err := reg.FindExtensionByNumber(xd.ContainingMessage().FullName(), xd.Number())
				if have != (err == nil) || (have && got != want) || (!have && err != protoregistry.NotFound) {
					d := detail()
					d["key"] = key
					c.Violation("types:findextensionbynumber", d)
				}
				cnt := 0
				for k2 := range extByNum {
					if strings.HasPrefix(k2, string(xd.ContainingMessage().FullName())+"/") {
						cnt++
					}
				}
				if reg.NumExtensionsByMessage(xd.ContainingMessage().FullName()) != cnt {
					c.Violation("types:numextensionsbymessage", detail())
				}
				seen := 0
				reg.RangeExtensionsByMessage(xd.ContainingMessage().FullName(), func(x protoreflect.ExtensionType) bool {
					seen++
					k3 := fmt.Sprintf("%s/%d", x.TypeDescriptor().ContainingMessage().FullName(), x.TypeDescriptor().Number())
					if extByNum[k3] != x {
						c.Violation("types:rangeextensionsbymessage-unknown-entry", detail())
					}
					return true
				})
				if seen != cnt {
					c.Violation("types:rangeextensionsbymessage-count", detail())
				}
			}
		}
	}
}
