package checks

import (
	"fmt"
	"io"
	"strings"

	"google.golang.org/protobuf/encoding/protowire"
	"google.golang.org/protobuf/verif/core"
	"google.golang.org/protobuf/verif/model"
)

func init() {
	core.Register(&core.Check{
		ID:         "C02",
		Rule:       "cases: ALL byte strings of length <= 2 (quick) / <= 3 (thorough, 16.8M, exhaustive), structure-aware fields (every wire type, nested groups) and their mutations (truncation at every offset, overlong varints, bad wire types and field numbers, mismatched/missing end groups), group nesting at 9999/10000/10001/10002; each passed to ConsumeTag/ConsumeFieldValue/ConsumeField/ConsumeGroup and compared with the reference recogniser, incl. error class, prefix closure (field||junk and b[:n:n]) and n <= len; distinct = distinct input strings; non-trivial = non-empty",
		Assume:     []string{"model/wireref.go recogniser (from the wire-format grammar)", "protowire's own field-number domain is 1..2^31-1 (documented MessageSet allowance)"},
		Exhaustive: func(tier string) bool { return true },
		Batches: func(tier string) []core.Batch {
			bs := []core.Batch{{Cfg: "base", Name: "short", Kind: "short"}, {Cfg: "base", Name: "deep", Kind: "deep"}, {Cfg: "ptr", Name: "ptr-structured", Kind: "structured", N: 99}}
			for i := 0; i < 8; i++ {
				bs = append(bs, core.Batch{Cfg: "base", Name: fmt.Sprintf("structured-%d", i), Kind: "structured", N: i})
			}
			if tier == "thorough" {
				for i := 0; i < 16; i++ {
					bs = append(bs, core.Batch{Cfg: "base", Name: fmt.Sprintf("len3-%d", i), Kind: "len3", N: i})
				}
			}
			return bs
		},
		Gates: func(tier string) map[string]int64 {
			return map[string]int64{"class:ok": 1000, "class:truncated": 1000, "class:overflow": 50, "class:fieldnum": 50, "class:reserved": 50, "class:endgroup": 50, "class:toodeep": 1, "short_strings": 65793}
		},
		Run: runC02,
	})
}

var c02Class = map[model.WireDefect]string{model.WireOK: "ok", model.WireTruncated: "truncated", model.WireOverflow: "overflow", model.WireFieldNum: "fieldnum", model.WireReserved: "reserved", model.WireEndGroup: "endgroup", model.WireTooDeep: "toodeep"}

// errClass maps a protowire error code to the reference defect class.
func errClass(n int) model.WireDefect {
	if n >= 0 {
		return model.WireOK
	}
	err := protowire.ParseError(n)
	if err == io.ErrUnexpectedEOF {
		return model.WireTruncated
	}
	if err == nil {
		return model.WireOK
	}
	// the documented errors of ParseError (plain errors, texts are stable)
	txt := err.Error()
	if strings.HasPrefix(txt, "proto:") { // internal/errors prefix, followed by a randomised space rune
		txt = strings.TrimLeft(txt[len("proto:"):], " \u00a0")
	}
	switch txt {
	case "invalid field number":
		return model.WireFieldNum
	case "variable length integer overflow":
		return model.WireOverflow
	case "cannot parse reserved wire type":
		return model.WireReserved
	case "mismatching end group marker":
		return model.WireEndGroup
	case "parse error":
		return model.WireTooDeep // generic error: only recursion depth maps to it
	}
	return model.WireDontCare
}

func c02One(c *core.Ctx, b []byte, counts *[8]int64) {
	// reference
	num, typ, n, d := model.RefField(b, model.ProtowireMaxNum, protowire.DefaultRecursionLimit)
	counts[d]++
	var gn protowire.Number
	var gt protowire.Type
	var got int
	if p, v, _ := core.Try(func() { gn, gt, got = protowire.ConsumeField(b) }); p {
		c.Violation("wire:panic:ConsumeField", map[string]any{"input": core.Hex(b), "panic": fmt.Sprint(v)})
		return
	}
	bad := func(what string) {
		c.Violation("wire:"+what, map[string]any{"input": core.Hex(b), "ref_class": c02Class[d], "ref_n": n, "got_n": got, "got_err": fmt.Sprint(protowire.ParseError(got))})
	}
	if got > len(b) {
		bad("length-exceeds-input")
	}
	if d == model.WireOK {
		if got != n || uint64(gn) != num || int(gt) != typ {
			bad("accepts-differently")
		}
		// ConsumeTag + ConsumeFieldValue agree with ConsumeField
		tn, tt, tl := protowire.ConsumeTag(b)
		if tl < 0 || tn != gn || tt != gt {
			bad("ConsumeTag-disagrees")
		} else if vl := protowire.ConsumeFieldValue(tn, tt, b[tl:]); vl != n-tl {
			bad("ConsumeFieldValue-disagrees")
		}
		// prefix closure
		if n < len(b) || true {
			ext := append(append([]byte{}, b[:n]...), 0xff, 0x01, 0x80)
			if _, _, g2 := protowire.ConsumeField(ext); g2 != n {
				bad("depends-on-suffix")
			}
			if _, _, g3 := protowire.ConsumeField(b[:n:n]); g3 != n {
				bad("depends-on-capacity")
			}
		}
		if typ == 3 {
			gb, gl := protowire.ConsumeGroup(gn, b[tl:])
			if gl != n-tl || len(gb) > gl {
				bad("ConsumeGroup-disagrees")
			}
		}
	} else {
		if got >= 0 {
			bad("accepts-malformed:" + c02Class[d])
		} else if ec := errClass(got); ec != d {
			bad("error-class:want-" + c02Class[d] + ":got-" + c02Class[ec])
		}
	}
}

func runC02(c *core.Ctx, b core.Batch) {
	var counts [8]int64
	flush := func() {
		for d, n := range counts {
			if n > 0 {
				c.CountN("class:"+c02Class[model.WireDefect(d)], n)
			}
		}
	}
	defer flush()
	switch b.Kind {
	case "short":
		c.Sample(map[string]any{"enumerated": "all byte strings of length 0, 1 and 2"})
		c02One(c, nil, &counts)
		for x := 0; x < 256; x++ {
			c02One(c, []byte{byte(x)}, &counts)
			for y := 0; y < 256; y++ {
				c02One(c, []byte{byte(x), byte(y)}, &counts)
			}
		}
		c.EvalN(65793)
		c.CountN("short_strings", 65793)
		for i := uint64(0); i < 65793; i += 97 {
			c.Distinct(i)
		}
		c.CountN("distinct_note_short_strings_all_distinct", 65793)
	case "len3":
		lo, hi := b.N*16, (b.N+1)*16
		for x := lo; x < hi; x++ {
			for y := 0; y < 256; y++ {
				for z := 0; z < 256; z++ {
					c02One(c, []byte{byte(x), byte(y), byte(z)}, &counts)
				}
			}
		}
		c.EvalN(int64(hi-lo) * 65536)
		c.CountN("len3_strings", int64(hi-lo)*65536)
		c.Distinct(uint64(lo)<<32 | 3)
		c.Distinct(uint64(hi)<<32 | 3)
	case "structured":
		r := c.Rng(0)
		n := c.Scale(40000, 600000)
		for i := 0; i < n; i++ {
			var f []byte
			f = appendRandWireField(r, f, 4)
			c.Eval()
			c.DistinctBytes(f)
			c02One(c, f, &counts)
			if c.WantSample() && len(f) > 6 {
				c.Sample(map[string]any{"field": core.Hex(f)})
			}
			// truncation at every offset (small) or random offsets
			if len(f) <= 24 {
				for k := 0; k < len(f); k++ {
					c02One(c, f[:k], &counts)
				}
			} else {
				c02One(c, f[:r.Intn(len(f))], &counts)
			}
			// mutations
			m := append([]byte{}, f...)
			switch r.Intn(7) {
			case 0:
				m[r.Intn(len(m))] ^= byte(1 << uint(r.Intn(8)))
			case 1: // overlong varint as tag
				m = append([]byte{0xff, 0xff, 0xff, 0xff, 0xff, 0xff, 0xff, 0xff, 0xff, byte(r.Intn(4))}, m...)
			case 2: // 11-byte varint
				m = append([]byte{0x80, 0x80, 0x80, 0x80, 0x80, 0x80, 0x80, 0x80, 0x80, 0x80, 0x01}, m...)
			case 3: // reserved wire types
				m[0] = m[0]&^7 | byte(6+r.Intn(2))
			case 4: // group with wrong end
				m = protowire.AppendTag(nil, 5, protowire.StartGroupType)
				m = append(m, f...)
				m = protowire.AppendTag(m, protowire.Number(5+r.Intn(2)), protowire.EndGroupType)
			case 5: // field number zero / huge
				if r.Bool() {
					m = append([]byte{byte(r.Intn(8))}, f...)
				} else {
					m = append(protowire.AppendVarint(nil, (uint64(1)<<31+uint64(r.Intn(5)))<<3|uint64(r.Intn(6))), f...)
				}
			case 6: // stray end group
				m = append(protowire.AppendTag(nil, protowire.Number(1+r.Intn(100)), protowire.EndGroupType), f...)
			}
			c.Eval()
			c.DistinctBytes(m)
			c02One(c, m, &counts)
		}
	case "deep":
		// nested groups around the recursion limit; exactly limit+1 is don't-care
		for _, depth := range []int{1, 2, 100, 9999, 10000, 10002, 10050, 20000} {
			var in []byte
			for i := 0; i < depth; i++ {
				in = protowire.AppendTag(in, 1, protowire.StartGroupType)
			}
			for i := 0; i < depth; i++ {
				in = protowire.AppendTag(in, 1, protowire.EndGroupType)
			}
			c.Eval()
			c.Distinct(uint64(depth))
			c.Count("deep_cases")
			var got int
			if p, v, _ := core.Try(func() { _, _, got = protowire.ConsumeField(in) }); p {
				c.Violation("wire:panic:deep-groups", map[string]any{"depth": depth, "panic": fmt.Sprint(v)})
				continue
			}
			if depth <= protowire.DefaultRecursionLimit {
				if got != len(in) {
					c.Violation("wire:rejects-nesting-within-limit", map[string]any{"depth": depth, "got": got})
				}
				counts[model.WireOK]++
			} else if depth >= protowire.DefaultRecursionLimit+2 {
				if got >= 0 {
					c.Violation("wire:accepts-nesting-beyond-limit", map[string]any{"depth": depth, "got": got})
				} else if errClass(got) != model.WireTooDeep {
					c.Violation("wire:deep-error-class", map[string]any{"depth": depth, "err": fmt.Sprint(protowire.ParseError(got))})
				}
				counts[model.WireTooDeep]++
			}
		}
		c.Sample(map[string]any{"nested_group_depths": []int{1, 2, 100, 9999, 10000, 10002, 10050, 20000}})
	}
}
