package checks

import (
	"bytes"
	"compress/gzip"
	"fmt"
	"io"
	"reflect"

	"google.golang.org/protobuf/internal/filedesc"
	"google.golang.org/protobuf/proto"
	"google.golang.org/protobuf/reflect/protodesc"
	"google.golang.org/protobuf/reflect/protoreflect"
	"google.golang.org/protobuf/reflect/protoregistry"
	"google.golang.org/protobuf/types/descriptorpb"
	"google.golang.org/protobuf/verif/core"
	"google.golang.org/protobuf/verif/gen"
	"google.golang.org/protobuf/verif/model"
)

func init() {
	core.Register(&core.Check{
		ID:     "C37",
		Rule:   "cases: (a) every linked file whose generated Go types still expose the compressed raw descriptor (legacy Descriptor()/EnumDescriptor() methods): the descriptor the compact builder made from those bytes vs protodesc.NewFile of the FileDescriptorProto decoded from the same bytes; other linked files via ToFileDescriptorProto; (b) PRNG-generated valid multi-file schemas (as in C34): filedesc.Builder on Marshal(p) with a local file registry vs protodesc.NewFile(p); oracle: deep accessor snapshots equal line by line after touching every lazily decoded accessor (options compared as deterministic bytes); distinct = distinct raw descriptors; non-trivial = at least one message or enum",
		Assume: []string{"harness/model/descsnap.go", "proto.Unmarshal of descriptor.proto messages (C03/C06)"},
		Batches: func(tier string) []core.Batch {
			bs := []core.Batch{{Cfg: "base", Name: "linked", Kind: "linked"}, {Cfg: "legacy", Name: "linked-legacy", Kind: "linked"}}
			for i := 0; i < 8; i++ {
				bs = append(bs, core.Batch{Cfg: "base", Name: fmt.Sprintf("gen-%d", i), Kind: "gen", N: i})
			}
			return bs
		},
		Gates: func(tier string) map[string]int64 {
			return map[string]int64{"linked_files": 150, "linked_from_raw_bytes": 40, "linked_compared": 150, "gen_files": 500, "gen_compared": 500, "gen_snapshot_lines": 50000}
		},
		Run: runC37,
	})
}

// rawDescOf finds the raw (uncompressed) descriptor bytes of a linked file
// through the legacy Descriptor()/EnumDescriptor() methods of its Go types.
func rawDescOf(fd protoreflect.FileDescriptor) []byte {
	var gz []byte
	try := func(v any) {
		if gz != nil || v == nil {
			return
		}
		rv := reflect.ValueOf(v)
		for _, name := range []string{"Descriptor", "EnumDescriptor"} {
			m := rv.MethodByName(name)
			if !m.IsValid() || m.Type().NumIn() != 0 || m.Type().NumOut() != 2 || m.Type().Out(0) != reflect.TypeOf([]byte(nil)) {
				continue
			}
			func() {
				defer func() { recover() }()
				out := m.Call(nil)
				gz = out[0].Bytes()
			}()
			if gz != nil {
				return
			}
		}
	}
	protoregistry.GlobalTypes.RangeMessages(func(mt protoreflect.MessageType) bool {
		if mt.Descriptor().ParentFile() == fd {
			try(mt.Zero().Interface())
		}
		return gz == nil
	})
	if gz == nil {
		protoregistry.GlobalTypes.RangeEnums(func(et protoreflect.EnumType) bool {
			if et.Descriptor().ParentFile() == fd {
				try(et.New(0))
			}
			return gz == nil
		})
	}
	if gz == nil {
		return nil
	}
	zr, err := gzip.NewReader(bytes.NewReader(gz))
	if err != nil {
		return nil
	}
	raw, err := io.ReadAll(zr)
	if err != nil {
		return nil
	}
	return raw
}

// localFiles is a FileRegistry for filedesc.Builder over a private registry
// with fallback to the global one.
type localFiles struct{ reg *protoregistry.Files }

func (l localFiles) FindFileByPath(p string) (protoreflect.FileDescriptor, error) {
	return fallbackResolver{l.reg}.FindFileByPath(p)
}
func (l localFiles) FindDescriptorByName(n protoreflect.FullName) (protoreflect.Descriptor, error) {
	return fallbackResolver{l.reg}.FindDescriptorByName(n)
}
func (l localFiles) RegisterFile(fd protoreflect.FileDescriptor) error { return l.reg.RegisterFile(fd) }

// buildBoth builds every file of a schema with the compact builder and with
// protodesc (two separate registries).
func buildBoth(c *core.Ctx, s *gen.Schema, fpPrefix string) (bfds, pfds []protoreflect.FileDescriptor, ok bool) {
	breg, preg := &protoregistry.Files{}, &protoregistry.Files{}
	ok = true
	for _, p := range s.Files {
		raw, err := proto.MarshalOptions{Deterministic: true}.Marshal(p)
		if err != nil {
			return nil, nil, false
		}
		// the builder does not validate: its descriptor exists whatever protodesc says
		var bfd protoreflect.FileDescriptor
		if !c.NoPanic(fpPrefix+":builder-panic", map[string]any{"raw": core.Hex(raw)}, func() {
			bfd = filedesc.Builder{RawDescriptor: raw, FileRegistry: localFiles{breg}}.Build().File
		}) {
			return bfds, pfds, false
		}
		bfds = append(bfds, bfd)
		if !ok {
			continue
		}
		pfd, err := protodesc.NewFile(p, fallbackResolver{preg})
		if err != nil {
			// the generator is valid by construction (C34 demands acceptance of its output):
			// a rejection is reported, and the builder's descriptors are still returned
			c.Count("gen_rejected_by_protodesc")
			c.Violation(fpPrefix+":valid-schema-rejected-by-protodesc:"+c34ErrClass(err), map[string]any{"err": errStr(err), "proto": core.Hex(raw), "text": clip(p.String(), 3000)})
			ok = false
			continue
		}
		preg.RegisterFile(pfd)
		pfds = append(pfds, pfd)
	}
	return bfds, pfds, ok
}

func runC37(c *core.Ctx, b core.Batch) {
	if b.Kind == "linked" {
		for _, fd := range linkedFiles() {
			path := fd.Path()
			c.Eval()
			c.Count("linked_files")
			if !legacyBuild(b) && fileHasMessageSet(fd) {
				c.Count("linked_skipped_messageset")
				continue
			}
			c.Log("C37 linked %s", path)
			var p *descriptorpb.FileDescriptorProto
			how := "to-proto"
			if raw := rawDescOf(fd); raw != nil {
				p = &descriptorpb.FileDescriptorProto{}
				if err := proto.Unmarshal(raw, p); err != nil {
					c.Violation("linked:raw-descriptor-does-not-decode:"+path, map[string]any{"err": errStr(err)})
					continue
				}
				if p.GetName() != path {
					p = nil // not this file's descriptor (defensive)
				} else {
					how = "raw"
					c.Count("linked_from_raw_bytes")
					c.DistinctBytes(raw)
				}
			}
			if p == nil {
				p = protodesc.ToFileDescriptorProto(fd)
				c.DistinctStr(path)
			}
			d2, err := protodesc.NewFile(p, protoregistry.GlobalFiles)
			if err != nil {
				c.Count("linked_skipped_not_rebuildable")
				continue
			}
			s1, s2 := model.SnapFile(fd, model.DescSnapOpts{}), model.SnapFile(d2, model.DescSnapOpts{})
			c.Count("linked_compared")
			if x, y := s1.Diff(s2); x != "" || y != "" {
				c.Violation("linked:builder-vs-protodesc:"+model.DiffKey(x+y)+":"+path, map[string]any{"builder": x, "protodesc": y, "source": how})
			}
			if c.WantSample() && how == "raw" && fd.Messages().Len() > 2 {
				c.Sample(map[string]any{"file": path, "source": how, "snapshot_lines": len(s1.Lines), "equal": true})
			}
		}
		return
	}
	n := c.Scale(150, 3000)
	for i := 0; i < n; i++ {
		r := c.Rng(uint64(i))
		o := gen.SchemaOpts{Prefix: fmt.Sprintf("c37.b%d.s%d", b.N, i), Features: i%2 == 0, JSONCollisions: i%5 == 0, LaxTargets: i%7 == 0}
		s := gen.GenSchema(r, o)
		c.Log("C37 gen %s", o.Prefix)
		bfds, pfds, ok := buildBoth(c, s, "gen")
		if !ok {
			continue
		}
		for fi := range bfds {
			c.Eval()
			c.Count("gen_files")
			raw, _ := proto.MarshalOptions{Deterministic: true}.Marshal(s.Files[fi])
			c.DistinctBytes(raw)
			var s1, s2 *model.DescSnap
			if !c.NoPanic("gen:builder-accessor-panic", map[string]any{"raw": core.Hex(raw)}, func() { s1 = model.SnapFile(bfds[fi], model.DescSnapOpts{}) }) {
				continue
			}
			s2 = model.SnapFile(pfds[fi], model.DescSnapOpts{})
			c.Count("gen_compared")
			c.CountN("gen_snapshot_lines", int64(len(s1.Lines)))
			if x, y := s1.Diff(s2); x != "" || y != "" {
				c.Violation("gen:builder-vs-protodesc:"+model.DiffKey(x+y), map[string]any{"builder": x, "protodesc": y, "raw": core.Hex(raw), "proto_text": clip(s.Files[fi].String(), 3000)})
			}
			if c.WantSample() && i > 3 && len(s1.Lines) > 200 {
				c.Sample(map[string]any{"schema": o.Prefix, "file": s.Files[fi].GetName(), "snapshot_lines": len(s1.Lines), "equal": true})
			}
		}
	}
}
