package checks

import (
	"fmt"

	"google.golang.org/protobuf/encoding/protojson"
	"google.golang.org/protobuf/encoding/prototext"
	"google.golang.org/protobuf/proto"
	"google.golang.org/protobuf/reflect/protoreflect"
	"google.golang.org/protobuf/runtime/protoiface"
	"google.golang.org/protobuf/runtime/protoimpl"
	"google.golang.org/protobuf/verif/core"
	"google.golang.org/protobuf/verif/gen"
)

func init() {
	core.Register(&core.Check{
		ID:     "C10",
		Rule:   "cases: message trees over every linked type that (transitively) has required fields (proto2 required, editions LEGACY_REQUIRED, open/hybrid/opaque, lazy variants, message extensions, dynamicpb twins): (i) fully initialised trees, (ii) the same tree with exactly one required field cleared, for every required position in the tree (systematic), (iii) random subsets of required fields at every depth; each checked through CheckInitialized, binary Marshal/Unmarshal (lazy and eager, incl. the initialized flag), protojson and prototext Marshal/Unmarshal, all without AllowPartial; distinct = distinct (type, deterministic bytes); non-trivial = tree holds at least one message with required fields",
		Assume: []string{"reference walk missingRequired() over protoreflect Has/Range", "content is otherwise JSON/text representable (generator restriction), so an error can only stem from required fields"},
		Batches: func(tier string) []core.Batch {
			tag := core.Batch{Cfg: "base", Name: "tagonly", Kind: "tagonly"}
			if tier == "thorough" {
				return append(append(stdBatches([]string{"base"}, 8), stdBatches([]string{"refl"}, 4)...), tag)
			}
			return append(stdBatches([]string{"base"}, 8), tag)
		},
		Gates: func(tier string) map[string]int64 {
			return map[string]int64{"trees": 2000, "missing_trees": 800, "complete_trees": 300, "single_cleared": 300, "entry:binary-unmarshal-lazy": 1000, "missing_at_depth:2": 50, "missing_in:list": 20, "missing_in:map": 20, "missing_in:extension": 10}
		},
		Run: runC10,
	})
}

// missingRequired is the reference: does any message of the tree lack a
// required field? where records the kind of position of the first one.
func missingRequired(m protoreflect.Message, depth int, pos string, where *[]string) bool {
	md := m.Descriptor()
	missing := false
	// by cardinality, field by field (not through RequiredNumbers, which the library itself uses)
	for i := 0; i < md.Fields().Len(); i++ {
		if fd := md.Fields().Get(i); fd.Cardinality() == protoreflect.Required && !m.Has(fd) {
			missing = true
			*where = append(*where, fmt.Sprintf("%d|%s", depth, pos))
		}
	}
	m.Range(func(fd protoreflect.FieldDescriptor, v protoreflect.Value) bool {
		if fd.Message() == nil {
			return true
		}
		p := "singular"
		if fd.IsExtension() {
			p = "extension"
		}
		switch {
		case fd.IsMap():
			if fd.MapValue().Message() == nil {
				return true
			}
			v.Map().Range(func(_ protoreflect.MapKey, mv protoreflect.Value) bool {
				if missingRequired(mv.Message(), depth+1, "map", where) {
					missing = true
				}
				return true
			})
		case fd.IsList():
			for i := 0; i < v.List().Len(); i++ {
				if missingRequired(v.List().Get(i).Message(), depth+1, "list", where) {
					missing = true
				}
			}
		default:
			if missingRequired(v.Message(), depth+1, p, where) {
				missing = true
			}
		}
		return true
	})
	return missing
}

// requiredSites lists (message, field) pairs of populated required fields.
type reqSite struct {
	m  protoreflect.Message
	fd protoreflect.FieldDescriptor
}

func requiredSites(m protoreflect.Message, out *[]reqSite) {
	md := m.Descriptor()
	rn := md.RequiredNumbers()
	for i := 0; i < rn.Len(); i++ {
		fd := md.Fields().ByNumber(rn.Get(i))
		if m.Has(fd) {
			*out = append(*out, reqSite{m, fd})
		}
	}
	m.Range(func(fd protoreflect.FieldDescriptor, v protoreflect.Value) bool {
		if fd.Message() == nil {
			return true
		}
		switch {
		case fd.IsMap():
			if fd.MapValue().Message() != nil {
				v.Map().Range(func(_ protoreflect.MapKey, mv protoreflect.Value) bool {
					requiredSites(mv.Message(), out)
					return true
				})
			}
		case fd.IsList():
			for i := 0; i < v.List().Len(); i++ {
				requiredSites(v.List().Get(i).Message(), out)
			}
		default:
			requiredSites(v.Message(), out)
		}
		return true
	})
}

// ---- struct-tag-only messages with required fields, two of them on a cycle ----

type C10TagReq struct {
	A *int32  `protobuf:"varint,1,req,name=a"`
	B *string `protobuf:"bytes,2,opt,name=b"`
}

func (*C10TagReq) Reset()         {}
func (*C10TagReq) String() string { return "C10TagReq" }
func (*C10TagReq) ProtoMessage()  {}

// C10CycA reaches the required field of C10CycR through its second field only;
// its first field leads into the cycle A -> B -> A.
type C10CycA struct {
	B *C10CycB   `protobuf:"bytes,1,opt,name=b"`
	R *C10CycR   `protobuf:"bytes,2,opt,name=r"`
	L []*C10CycB `protobuf:"bytes,3,rep,name=l"`
}

func (*C10CycA) Reset()         {}
func (*C10CycA) String() string { return "C10CycA" }
func (*C10CycA) ProtoMessage()  {}

type C10CycB struct {
	A *C10CycA `protobuf:"bytes,1,opt,name=a"`
	N *int64   `protobuf:"varint,2,opt,name=n"`
}

func (*C10CycB) Reset()         {}
func (*C10CycB) String() string { return "C10CycB" }
func (*C10CycB) ProtoMessage()  {}

type C10CycR struct {
	X *int32   `protobuf:"varint,1,req,name=x"`
	Y *C10CycA `protobuf:"bytes,2,opt,name=y"`
}

func (*C10CycR) Reset()         {}
func (*C10CycR) String() string { return "C10CycR" }
func (*C10CycR) ProtoMessage()  {}

// c10TagOnly: the cycle's entry type is used first (as a program whose first
// message is a C10CycA would), then trees rooted at every type.
func c10TagOnly(c *core.Ctx) {
	wrap := func(v any) protoreflect.MessageType { return protoimpl.X.ProtoMessageV2Of(v).ProtoReflect().Type() }
	var a, bb, rr, tr protoreflect.MessageType
	if !c.NoPanic("required:tagonly-wrap-panic", nil, func() {
		a = wrap(&C10CycA{})
		_ = proto.CheckInitialized(a.New().Interface())
		bb, rr, tr = wrap(&C10CycB{}), wrap(&C10CycR{}), wrap(&C10TagReq{})
	}) {
		return
	}
	for ti, mt := range []protoreflect.MessageType{bb, a, rr, tr} {
		name := string(mt.Descriptor().FullName())
		c.Count("tagonly_types")
		for k := 0; k < c.Scale(150, 2000); k++ {
			r := c.Rng(uint64(0x10a)<<32 | uint64(ti)<<24 | uint64(k))
			dyn := k%4 == 3
			m := newOf(mt, dyn)
			fo := gen.MsgOpts{JSONSafe: true, Density: 40 + 15*(k%4), MaxDepth: 2 + k%4, NoRequired: k%2 == 0}
			gen.Fill(r, m, fo)
			c.Count("tagonly_trees")
			c10Check(c, mt, name, m, dyn, "tagonly")
		}
	}
}

func runC10(c *core.Ctx, b core.Batch) {
	if b.Kind == "tagonly" {
		c10TagOnly(c)
		return
	}
	var types []protoreflect.MessageType
	for _, mt := range codecTypes(b) {
		if hasRequiredAnywhere(mt.Descriptor()) {
			types = append(types, mt)
		}
	}
	nb := 8
	if b.Cfg == "refl" {
		nb = 4
	}
	types = shard(types, b.N, nb)
	per := c.Scale(40, 240)
	for ti, mt := range types {
		name := string(mt.Descriptor().FullName())
		for k := 0; k < per; k++ {
			r := c.Rng(uint64(ti)<<24 | uint64(k))
			dyn := k%5 == 4
			fo := gen.MsgOpts{JSONSafe: true, Extensions: true, Density: 15 + 15*(k%5), MaxDepth: 2 + k%3, OnlyDeclaredEnums: true}
			switch k % 3 {
			case 0: // fully initialised, then clear one required field per site
				m := newOf(mt, dyn)
				gen.Fill(r, m, fo)
				c10Check(c, mt, name, m, dyn, "complete")
				var sites []reqSite
				requiredSites(m, &sites)
				if len(sites) > 0 {
					lim := len(sites)
					if c.Quick() && lim > 6 {
						lim = 6
					}
					if lim > 16 {
						lim = 16 // every check walks the whole tree through seven entry points: bound the thorough tier too
					}
					for _, si := range r.Perm(len(sites))[:lim] {
						m2 := newOf(mt, dyn)
						gen.Fill(c.Rng(uint64(ti)<<24|uint64(k)), m2, fo)
						var s2 []reqSite
						requiredSites(m2, &s2)
						if len(s2) != len(sites) {
							c.Count("regeneration_mismatch")
							break
						}
						s2[si].m.Clear(s2[si].fd)
						c.Count("single_cleared")
						c10Check(c, mt, name, m2, dyn, "one-cleared")
					}
				}
			default: // random subsets
				fo.NoRequired = true
				fo.Density = 30 + 20*(k%4)
				m := newOf(mt, dyn)
				gen.Fill(r, m, fo)
				c10Check(c, mt, name, m, dyn, "random-subset")
			}
		}
	}
}

// hasRequiredAnywhere: required fields reachable through fields or registered extensions.
func hasRequiredAnywhere(md protoreflect.MessageDescriptor) bool {
	if gen.HasRequired(md) {
		return true
	}
	if md.ExtensionRanges().Len() > 0 {
		for _, xt := range gen.ExtensionsOf(nil2global(), md.FullName()) {
			if m := xt.TypeDescriptor().Message(); m != nil && gen.HasRequired(m) {
				return true
			}
		}
	}
	return false
}

func c10Check(c *core.Ctx, mt protoreflect.MessageType, name string, m protoreflect.Message, dyn bool, origin string) {
	var where []string
	missing := missingRequired(m, 0, "top", &where)
	c.Eval()
	c.Count("trees")
	if missing {
		c.Count("missing_trees")
		for _, w := range where {
			var d int
			var p string
			fmt.Sscanf(w, "%d|%s", &d, &p)
			c.Count(fmt.Sprintf("missing_at_depth:%d", d))
			c.Count("missing_in:" + p)
		}
	} else {
		c.Count("complete_trees")
	}
	enc, err := proto.MarshalOptions{AllowPartial: true, Deterministic: true}.Marshal(m.Interface())
	if err != nil {
		c.Violation("required:partial-marshal-error:"+name, map[string]any{"err": errStr(err)})
		return
	}
	c.DistinctBytes([]byte(name), enc)
	if c.WantSample() && missing && len(enc) > 4 {
		c.Sample(map[string]any{"type": name, "dynamic": dyn, "wire": core.Hex(enc), "missing_required_at": where, "origin": origin})
	}
	c.Log("C10 type=%s dyn=%v wire=%s", name, dyn, core.Hex(enc))
	verdict := func(entry string, err error) {
		c.Count("entry:" + entry)
		if (err != nil) != missing {
			c.Violation(fmt.Sprintf("required:%s:missing=%v:error=%v:dyn=%v:%s", entry, missing, err != nil, dyn, name),
				map[string]any{"type": name, "wire": core.Hex(enc), "missing_at": where, "err": errStr(err), "origin": origin, "dynamic": dyn})
		}
	}
	c.NoPanic("required:panic:"+name, map[string]any{"wire": core.Hex(enc)}, func() {
		verdict("CheckInitialized", proto.CheckInitialized(m.Interface()))
		_, e := proto.Marshal(m.Interface())
		verdict("binary-marshal", e)
		_, e = proto.MarshalOptions{Deterministic: true}.Marshal(m.Interface())
		verdict("binary-marshal-det", e)
		for _, nolazy := range []bool{false, true} {
			m2 := newOf(mt, dyn)
			out, e := proto.UnmarshalOptions{NoLazyDecoding: nolazy}.UnmarshalState(protoiface.UnmarshalInput{Buf: enc, Message: m2})
			entry := "binary-unmarshal-lazy"
			if nolazy {
				entry = "binary-unmarshal-eager"
			}
			verdict(entry, e)
			if missing && out.Flags&protoiface.UnmarshalInitialized != 0 {
				c.Violation("required:initialized-flag-on-partial:"+name, map[string]any{"wire": core.Hex(enc), "nolazy": nolazy})
			}
			// the lazily decoded (unexpanded) copy must give the same verdicts
			m3 := newOf(mt, dyn)
			if (proto.UnmarshalOptions{AllowPartial: true, NoLazyDecoding: nolazy}).Unmarshal(enc, m3.Interface()) == nil {
				verdict(entry+"+CheckInitialized", proto.CheckInitialized(m3.Interface()))
				_, e := proto.Marshal(m3.Interface())
				verdict(entry+"+Marshal", e)
			}
		}
		// Merge-decoding into the tree: the verdict is about the resulting message
		// (empty input leaves it as it is; its own encoding merged into it keeps
		// every required field that was set and none that was not)
		for _, in := range [][]byte{nil, enc} {
			dst := proto.Clone(m.Interface())
			entry := "merge-decode-empty-input"
			if in != nil {
				entry = "merge-decode-own-encoding"
			}
			verdict(entry, proto.UnmarshalOptions{Merge: true}.Unmarshal(in, dst))
		}
		// JSON
		if js, e := (protojson.MarshalOptions{AllowPartial: true}).Marshal(m.Interface()); e == nil {
			_, e2 := protojson.Marshal(m.Interface())
			verdict("json-marshal", e2)
			verdict("json-unmarshal", protojson.Unmarshal(js, newOf(mt, dyn).Interface()))
		} else {
			c.Count("json_not_representable")
		}
		// text
		if tx, e := (prototext.MarshalOptions{AllowPartial: true}).Marshal(m.Interface()); e == nil {
			_, e2 := prototext.Marshal(m.Interface())
			verdict("text-marshal", e2)
			verdict("text-unmarshal", prototext.Unmarshal(tx, newOf(mt, dyn).Interface()))
		} else {
			c.Count("text_not_representable")
		}
	})
}
