// Package checks holds one monitor per property; each file registers itself.
package checks
