package checks

import (
	"fmt"
	"unicode/utf8"

	"google.golang.org/protobuf/encoding/protowire"
	"google.golang.org/protobuf/internal/impl"
	"google.golang.org/protobuf/proto"
	"google.golang.org/protobuf/reflect/protoreflect"
	"google.golang.org/protobuf/reflect/protoregistry"
	"google.golang.org/protobuf/runtime/protoiface"
	"google.golang.org/protobuf/verif/core"
	"google.golang.org/protobuf/verif/gen"
	"google.golang.org/protobuf/verif/model"
)

func init() {
	core.Register(&core.Check{
		ID:     "C06",
		Rule:   "cases: for every linked message type: well-formed encodings (rewritten by reorder/duplicate/non-minimal/pack-toggle/wrong-wire-type/unknown transformations), 1-3 hostile mutations of them (truncate, flipped bytes and wire types, overlong varints, bogus lengths, bad field numbers, stray/missing end-group, splice), raw random bytes, and nesting chains at RecursionLimit-1/limit/limit+1 (messages, groups, map entries) for limits 1..8 and default; each decoded generated (lazy and eager) and dynamicpb, inside a poisoned larger buffer, and passed to impl.Validate; distinct = distinct (type, input bytes); non-trivial = non-empty input",
		Assume: []string{"model/schemaref.go + model/wireref.go (spec-derived recogniser)", "depth accounting: messages on the path incl. top-level, groups and map entries"},
		Batches: func(tier string) []core.Batch {
			if tier == "thorough" {
				return append(append(stdBatches([]string{"base"}, 16), stdBatches([]string{"ptr", "race"}, 8)...), stdBatches([]string{"legacy", "asan"}, 8)...)
			}
			return append(stdBatches([]string{"base"}, 16), stdBatches([]string{"ptr"}, 4)...)
		},
		Gates: func(tier string) map[string]int64 {
			return map[string]int64{"inputs": 20000, "verdict:ok": 3000, "verdict:malformed": 3000, "verdict:too-deep": 50, "verdict:bad-utf8": 20, "validate:valid": 1000, "validate:invalid": 1000, "depth_cases": 100, "poison_compares": 5000}
		},
		Run: runC06,
	})
}

func runC06(c *core.Ctx, b core.Batch) {
	types := shard(codecTypes(b), b.N, nbOf(b, c.Tier))
	per := c.Scale(100, 800)
	if b.Cfg != "base" {
		per = c.Scale(12, 100)
	}
	for ti, mt := range types {
		name := string(mt.Descriptor().FullName())
		keeps := gen.KeepsUnknown(mt.New())
		for k := 0; k < per; k++ {
			r := c.Rng(uint64(ti)<<24 | uint64(k))
			fo := fillOptsFor(k)
			fo.NoRequired = true
			fo.Unknown = keeps
			var ops []string
			hist := func(s string) { ops = append(ops, s) }
			in := gen.ValidWire(r, mt, fo, r.Intn(5), hist)
			switch k % 4 {
			case 1, 2:
				for i := 0; i < 1+r.Intn(3); i++ {
					in = gen.Mutate(r, in, hist)
				}
			case 3:
				if r.Chance(1, 2) {
					in = gen.ConfuseWire(r, in, mt.Descriptor(), hist)
				} else if r.Bool() {
					in = r.Bytes(r.Intn(40))
					hist("raw-random")
				} else {
					in = gen.Mutate(r, in, hist)
				}
			}
			limit := 0
			if k%5 == 0 {
				limit = 1 + r.Intn(8)
			}
			c06Input(c, mt, name, in, limit, ops, k)
		}
		if ti%4 == 0 {
			c06Depth(c, mt, name)
		}
	}
}

func c06Input(c *core.Ctx, mt protoreflect.MessageType, name string, in []byte, limit int, ops []string, k int) {
	md := mt.Descriptor()
	budget := limit
	if budget == 0 {
		budget = protowire.DefaultRecursionLimit
	}
	ref := model.NewSchemaRef()
	verdict := ref.Check(md, in, budget)
	c.Eval()
	c.Count("inputs")
	c.Count("verdict:" + verdict.String())
	if len(in) > 0 {
		c.DistinctBytes([]byte(name), in)
	}
	if k%16 == 0 {
		for _, o := range ops {
			c.Count("op:" + o)
		}
	}
	if c.WantSample() && len(in) > 3 && k%4 == 1 {
		c.Sample(map[string]any{"type": name, "input": core.Hex(in), "ops": ops, "reference_verdict": verdict.String(), "recursion_limit": limit})
	}
	detail := func() map[string]any {
		return map[string]any{"type": name, "input": core.Hex(in), "ops": ops, "limit": limit, "reference": verdict.String()}
	}
	type res struct {
		err  error
		snap string
		init bool
		m    protoreflect.Message
	}
	decode := func(buf []byte, nolazy, dyn bool) (res, bool) {
		var out res
		m := newOf(mt, dyn)
		c.Log("C06 type=%s limit=%d nolazy=%v dyn=%v input=%s", name, limit, nolazy, dyn, core.Hex(buf))
		ok := c.NoPanic(fmt.Sprintf("decode:panic:dyn=%v:%s", dyn, name), detail(), func() {
			o, err := proto.UnmarshalOptions{AllowPartial: true, NoLazyDecoding: nolazy, RecursionLimit: limit}.UnmarshalState(protoiface.UnmarshalInput{Buf: buf, Message: m})
			out.err = err
			out.init = o.Flags&protoiface.UnmarshalInitialized != 0
			if err == nil {
				if out.init && proto.CheckInitialized(m.Interface()) != nil {
					c.Violation("decode:partial-reported-initialized:"+name, detail())
				}
				out.snap = snapOf(m).String()
				out.m = m
			}
		})
		return out, ok
	}
	var results []res
	for _, nolazy := range []bool{false, true} {
		r, ok := decode(in, nolazy, false)
		if !ok {
			return
		}
		results = append(results, r)
		if verdict != model.VDontCare {
			if (r.err != nil) != (verdict != model.VOK) {
				d := detail()
				d["err"] = errStr(r.err)
				d["nolazy"] = nolazy
				what := name
				if verdict == model.VBadUTF8 && r.err == nil && onlyRepeatedStringExtOffends(r.m) {
					// the recorded C13 defect, met with a mutated input
					what = "repeated-string-extension-not-utf8-validated-on-fast-path"
				}
				c.Violation(fmt.Sprintf("decode:verdict:ref=%s:got-error=%v:%s", verdict, r.err != nil, what), d)
			}
		}
	}
	if len(results) == 2 && (results[0].err == nil) == (results[1].err == nil) && results[0].snap != results[1].snap {
		c.Count("lazy_eager_snapshot_differs") // C17's business; only counted here
	}
	// poisoned tail: the same bytes as a prefix of a larger array must give the same result
	big := make([]byte, len(in), len(in)+64)
	copy(big, in)
	tailPoison := big[len(in) : len(in)+64]
	for i := range tailPoison {
		tailPoison[i] = []byte{0x08, 0x01, 0x12, 0x00, 0xff, 0x80, 0x0b, 0x0c}[i%8]
	}
	c.Count("poison_compares")
	if rp, ok := decode(big[:len(in)], false, false); ok && len(results) > 0 {
		if (rp.err == nil) != (results[0].err == nil) || rp.snap != results[0].snap {
			c.Violation("decode:depends-on-bytes-past-input:"+name, detail())
		}
	}
	// validator agreement
	var st impl.ValidationStatus
	var vout protoiface.UnmarshalOutput
	if c.NoPanic("validate:panic:"+name, detail(), func() {
		vout, st = impl.Validate(mt, protoiface.UnmarshalInput{Buf: in, Depth: limit, Resolver: protoregistry.GlobalTypes})
	}) && len(results) > 0 {
		uerr := results[0].err
		switch st {
		case impl.ValidationValid:
			c.Count("validate:valid")
			if uerr != nil {
				d := detail()
				d["err"] = errStr(uerr)
				c.Violation("validate:valid-but-unmarshal-fails:"+name, d)
			}
			if vout.Flags&protoiface.UnmarshalInitialized != 0 {
				m := mt.New()
				if (proto.UnmarshalOptions{AllowPartial: true, RecursionLimit: limit}).Unmarshal(in, m.Interface()) == nil && proto.CheckInitialized(m.Interface()) != nil {
					c.Violation("validate:partial-reported-initialized:"+name, detail())
				}
			}
		case impl.ValidationInvalid:
			c.Count("validate:invalid")
			if uerr == nil {
				what := name
				if verdict == model.VBadUTF8 && onlyRepeatedStringExtOffends(results[0].m) {
					what = "repeated-string-extension-not-utf8-validated-on-fast-path"
				}
				c.Violation("validate:invalid-but-unmarshal-succeeds:"+what, detail())
			}
		default:
			c.Count("validate:" + st.String())
			if len(name) < 18 || name[:18] != "google.golang.org." {
				c.Count("validate_unknown_on_nonlegacy_type")
			}
		}
	}
	// reflection path totality (dynamicpb has no fast path)
	if k%3 == 0 {
		if rd, ok := decode(in, false, true); ok && verdict != model.VDontCare {
			if (rd.err != nil) != (verdict != model.VOK) {
				d := detail()
				d["err"] = errStr(rd.err)
				c.Violation(fmt.Sprintf("decode-dynamic:verdict:ref=%s:got-error=%v:%s", verdict, rd.err != nil, name), d)
			}
		}
	}
}

// c06Depth builds nesting chains through a self-recursive message field,
// group or map value of the type and decodes them at limits around the depth.
func c06Depth(c *core.Ctx, mt protoreflect.MessageType, name string) {
	md := mt.Descriptor()
	fds := md.Fields()
	for i := 0; i < fds.Len(); i++ {
		fd := fds.Get(i)
		var step func(inner []byte) []byte
		per := 1 // messages added per nesting step
		switch {
		case fd.IsMap() && fd.MapValue().Message() == md:
			per = 2
			step = func(inner []byte) []byte {
				var e []byte
				e = protowire.AppendTag(e, 2, protowire.BytesType)
				e = protowire.AppendBytes(e, inner)
				var o []byte
				o = protowire.AppendTag(o, fd.Number(), protowire.BytesType)
				return protowire.AppendBytes(o, e)
			}
		case fd.Message() == md && fd.Kind() == protoreflect.GroupKind:
			step = func(inner []byte) []byte {
				var o []byte
				o = protowire.AppendTag(o, fd.Number(), protowire.StartGroupType)
				o = append(o, inner...)
				return protowire.AppendTag(o, fd.Number(), protowire.EndGroupType)
			}
		case fd.Message() == md && !fd.IsMap():
			step = func(inner []byte) []byte {
				var o []byte
				o = protowire.AppendTag(o, fd.Number(), protowire.BytesType)
				return protowire.AppendBytes(o, inner)
			}
		default:
			continue
		}
		for steps := 0; steps <= 5; steps++ {
			var in []byte
			for s := 0; s < steps; s++ {
				in = step(in)
			}
			depth := 1 + steps*per
			for _, limit := range []int{depth - 1, depth, depth + 1} {
				if limit < 1 {
					continue
				}
				c.Count("depth_cases")
				c.Count("depth_field:" + kindCell(fd))
				c06Input(c, mt, name, in, limit, []string{fmt.Sprintf("nest:%s x%d depth=%d", fd.Name(), steps, depth)}, 3)
			}
		}
		// default limit, deep chain (cheap types only)
		if fd.Message() == md && !fd.IsMap() && fd.Kind() != protoreflect.GroupKind {
			var in []byte
			for s := 0; s < 120; s++ {
				in = step(in)
			}
			c06Input(c, mt, name, in, 100, []string{"nest-deep-120/limit-100"}, 1)
			c06Input(c, mt, name, in, 0, []string{"nest-deep-120/default"}, 1)
		}
	}
}

// onlyRepeatedStringExtOffends reports whether the decoded message holds invalid
// UTF-8 in a validated repeated string extension and in no other validated
// string (the recorded C13 defect: that value coder does not validate).
func onlyRepeatedStringExtOffends(m protoreflect.Message) bool {
	if m == nil {
		return false
	}
	inRepExt, elsewhere := 0, 0
	bad := func(s string) bool { return !utf8.ValidString(s) }
	enforce := func(fd protoreflect.FieldDescriptor) bool {
		if fd.Kind() != protoreflect.StringKind {
			return false
		}
		x, ok := fd.(interface{ EnforceUTF8() bool })
		return !ok || x.EnforceUTF8()
	}
	var walk func(m protoreflect.Message, depth int)
	walk = func(m protoreflect.Message, depth int) {
		if depth > 12 {
			return
		}
		m.Range(func(fd protoreflect.FieldDescriptor, v protoreflect.Value) bool {
			switch {
			case fd.IsMap():
				v.Map().Range(func(k protoreflect.MapKey, mv protoreflect.Value) bool {
					if enforce(fd.MapKey()) && bad(k.String()) {
						elsewhere++
					}
					if enforce(fd.MapValue()) && bad(mv.String()) {
						elsewhere++
					}
					if fd.MapValue().Message() != nil {
						walk(mv.Message(), depth+1)
					}
					return true
				})
			case fd.IsList():
				for i := 0; i < v.List().Len(); i++ {
					if enforce(fd) && bad(v.List().Get(i).String()) {
						if fd.IsExtension() {
							inRepExt++
						} else {
							elsewhere++
						}
					}
					if fd.Message() != nil {
						walk(v.List().Get(i).Message(), depth+1)
					}
				}
			case fd.Message() != nil:
				walk(v.Message(), depth+1)
			default:
				if enforce(fd) && bad(v.String()) {
					elsewhere++
				}
			}
			return true
		})
	}
	walk(m, 0)
	return inRepExt > 0 && elsewhere == 0
}
