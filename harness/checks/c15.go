package checks

import (
	"fmt"

	"google.golang.org/protobuf/proto"
	"google.golang.org/protobuf/reflect/protoreflect"
	"google.golang.org/protobuf/verif/core"
	"google.golang.org/protobuf/verif/gen"
	"google.golang.org/protobuf/verif/model"
)

func init() {
	core.Register(&core.Check{
		ID:     "C15",
		Rule:   "cases: for every linked type (all flavours + dynamicpb): a PRNG history of <= 12 steps (reflection sets/clears/list/map/unknown/extension writes via the lock-step engine, lazy and eager decodes, merge-decodes, Merge, FAILED decodes of truncated/mutated input that leave partial state) followed by Unmarshal(b) without Merge -> must equal (Equal, snapshot, deterministic bytes) a decode of b into a fresh message; then proto.Reset -> must equal a new message (Equal, Size 0, empty Range, no unknown, no extensions), also through the generated Reset method; distinct = distinct (type, history digest, b); non-trivial = history left the message populated before the final Unmarshal/Reset",
		Assume: []string{"snapshot model", "a fresh message decoded from b is the reference"},
		Batches: func(tier string) []core.Batch {
			if tier == "thorough" {
				return append(stdBatches([]string{"base"}, 16), stdBatches([]string{"ptr"}, 4)...)
			}
			return stdBatches([]string{"base"}, 16)
		},
		Gates: func(tier string) map[string]int64 {
			return map[string]int64{"histories": 5000, "dirty_before_unmarshal": 3000, "step:failed-decode": 500, "step:lazy-decode": 300, "resets": 5000, "generated_reset": 1000}
		},
		Run: runC15,
	})
}

func runC15(c *core.Ctx, b core.Batch) {
	nb := 16
	if b.Cfg != "base" {
		nb = 4
	}
	types := shard(codecTypes(b), b.N, nb)
	if b.Cfg == "base" && b.N == 1 {
		// dynamicpb over PRNG-generated schemas: message shapes no linked type has
		dt := schemaDynTypes(c, 0x15, c.Scale(6, 60))
		c.CountN("generated_schema_dynamic_types", int64(len(dt)))
		types = append(types, dt...)
	}
	per := c.Scale(10, 120)
	for ti, mt := range types {
		name := string(mt.Descriptor().FullName())
		keeps := gen.KeepsUnknown(mt.New())
		for k := 0; k < per; k++ {
			r := c.Rng(uint64(ti)<<24 | uint64(k))
			dyn := k%5 == 4
			m := newOf(mt, dyn)
			e := newEngine(c, r, m, "erase")
			var hist []string
			c.Eval()
			c.Count("histories")
			fo := fillOptsFor(k)
			fo.Unknown = keeps
			fo.NoRequired = true
			n := 1 + r.Intn(12)
			failed := false
			ok := c.NoPanic("erase:panic-in-history:"+name, map[string]any{"dynamic": dyn}, func() {
				for i := 0; i < n; i++ {
					c.Log("C15 type=%s dyn=%v history=%v ops=%v", name, dyn, hist, e.log)
					switch r.Intn(8) {
					case 0, 1, 2:
						e.mod = snapOf(m) // external steps bypass the model: resynchronise it
						e.step()
						hist = append(hist, "op")
					case 3: // decode (lazy by default) merging into current state
						in := gen.ValidWire(r, mt, fo, r.Intn(3), nil)
						nolazy := r.Bool()
						if !nolazy {
							c.Count("step:lazy-decode")
						}
						proto.UnmarshalOptions{Merge: true, AllowPartial: true, NoLazyDecoding: nolazy}.Unmarshal(in, m.Interface())
						hist = append(hist, fmt.Sprintf("merge-decode(nolazy=%v) %x", nolazy, in))
					case 4: // failed decode leaves partial state behind
						in := gen.ValidWire(r, mt, fo, r.Intn(3), nil)
						for j := 0; j < 1+r.Intn(2); j++ {
							in = gen.Mutate(r, in, nil)
						}
						err := proto.UnmarshalOptions{Merge: r.Bool(), AllowPartial: true}.Unmarshal(in, m.Interface())
						hist = append(hist, fmt.Sprintf("decode(err=%v) %x", err != nil, in))
						if err != nil {
							// the content after a failed decode is unspecified: do not read or merge into
							// it; the property only requires that Unmarshal and Reset erase it
							c.Count("step:failed-decode")
							failed = true
							return
						}
					case 5:
						x := mt.New()
						gen.Fill(r.Fork(4), x, fo)
						proto.Merge(m.Interface(), x.Interface())
						hist = append(hist, "merge")
					case 6: // replace by fresh decode without merge (also an erase)
						in := gen.ValidWire(r, mt, fo, r.Intn(3), nil)
						proto.UnmarshalOptions{AllowPartial: true}.Unmarshal(in, m.Interface())
						hist = append(hist, fmt.Sprintf("decode %x", in))
					case 7:
						// observe (forces lazy expansion, fills size caches)
						proto.Size(m.Interface())
						snapOf(m)
						hist = append(hist, "observe")
					}
				}
			})
			if !ok {
				continue
			}
			dirty := failed || snapOf(m).NumPopulated() > 0
			if dirty {
				c.Count("dirty_before_unmarshal")
			}
			detail := func(extra ...any) map[string]any {
				d := map[string]any{"type": name, "dynamic": dyn, "history": hist, "engine_ops": e.log}
				for i := 0; i+1 < len(extra); i += 2 {
					d[fmt.Sprint(extra[i])] = extra[i+1]
				}
				return d
			}
			// final Unmarshal without Merge
			final := gen.ValidWire(r, mt, fo, r.Intn(3), nil)
			for _, nolazy := range []bool{false, true} {
				target := m
				if nolazy {
					if failed {
						continue
					}
					// second variant works on a clone of the dirty state
					target = proto.Clone(m.Interface()).ProtoReflect()
				}
				fresh := newOf(mt, dyn)
				e1 := proto.UnmarshalOptions{AllowPartial: true, NoLazyDecoding: nolazy}.Unmarshal(final, fresh.Interface())
				var e2 error
				if !c.NoPanic("erase:panic-unmarshal-over-state:"+name, detail("final", core.Hex(final)), func() {
					e2 = proto.UnmarshalOptions{AllowPartial: true, NoLazyDecoding: nolazy}.Unmarshal(final, target.Interface())
				}) {
					continue
				}
				if (e1 != nil) != (e2 != nil) {
					c.Violation("erase:unmarshal-verdict-depends-on-prior-state:"+name, detail("final", core.Hex(final)))
					continue
				}
				if e1 != nil {
					continue
				}
				a, bb := snapOf(fresh), snapOf(target)
				if a.String() != bb.String() {
					c.Violation("erase:unmarshal-keeps-prior-state:"+firstDiff(a, bb), detail("final", core.Hex(final), "fresh", clip(a.String(), 1000), "reused", clip(bb.String(), 1000), "nolazy", nolazy))
				} else if !proto.Equal(fresh.Interface(), target.Interface()) {
					c.Violation("erase:unmarshal-not-equal-to-fresh:"+name, detail("final", core.Hex(final)))
				} else {
					d1, _ := detBytes(fresh)
					d2, _ := detBytes(target)
					if string(d1) != string(d2) {
						c.Violation("erase:unmarshal-det-bytes-differ:"+name, detail("final", core.Hex(final)))
					}
				}
				if dirty {
					c.DistinctBytes([]byte(name), []byte(fmt.Sprint(hist)), final)
				}
			}
			// Reset
			for vi, target := range []protoreflect.Message{m, func() protoreflect.Message {
				x := newOf(mt, dyn)
				gen.Fill(r.Fork(8), x, fo)
				return x
			}()} {
				c.Count("resets")
				how := "proto.Reset"
				if !c.NoPanic("erase:panic-reset:"+name, detail(), func() {
					if mv, ok := method(target, "Reset"); ok && vi == 1 && !dyn {
						mv.Call(nil)
						how = "generated Reset"
						c.Count("generated_reset")
					} else {
						proto.Reset(target.Interface())
					}
				}) {
					continue
				}
				s := snapOf(target)
				empty := newOf(mt, dyn)
				switch {
				case s.NumPopulated() != 0:
					c.Violation("erase:reset-left-content:"+firstDiff(model.NewSnap(mt.Descriptor()), s), detail("how", how, "left", clip(s.String(), 800)))
				case !proto.Equal(target.Interface(), empty.Interface()):
					c.Violation("erase:reset-not-equal-to-new:"+name, detail("how", how))
				case proto.Size(target.Interface()) != 0:
					c.Violation("erase:reset-size-nonzero:"+name, detail("how", how, "size", proto.Size(target.Interface())))
				case len(target.GetUnknown()) != 0:
					c.Violation("erase:reset-left-unknown:"+name, detail("how", how))
				}
				if enc, err := (proto.MarshalOptions{AllowPartial: true}).Marshal(target.Interface()); err != nil || len(enc) != 0 {
					c.Violation("erase:reset-marshal-nonempty:"+name, detail("how", how, "bytes", core.Hex(enc)))
				}
			}
			if c.WantSample() && len(hist) > 3 {
				c.Sample(map[string]any{"type": name, "dynamic": dyn, "history": hist, "final": core.Hex(final)})
			}
		}
	}
}
