package checks

import (
	"bytes"
	"compress/gzip"
	"fmt"
	"strings"
	"sync"

	"google.golang.org/protobuf/encoding/protojson"
	"google.golang.org/protobuf/encoding/prototext"
	"google.golang.org/protobuf/proto"
	"google.golang.org/protobuf/reflect/protodesc"
	"google.golang.org/protobuf/reflect/protoreflect"
	"google.golang.org/protobuf/runtime/protoimpl"
	"google.golang.org/protobuf/types/descriptorpb"
	"google.golang.org/protobuf/types/dynamicpb"
	"google.golang.org/protobuf/verif/core"
)

// A legacy enum known through EnumDescriptor() only (gzipped descriptor and the
// declaration path), nested three messages deep behind siblings that also
// declare an enum called Kind: path {0, 1, 1, 0} = Outer.Second.Inner.Kind.
const c46DeepSchema = `
name: "verifc46/deep.proto" package: "verifc46" syntax: "proto2"
message_type { name: "Outer"
  nested_type { name: "First"
    enum_type { name: "Kind" value { name: "FIRST_ZERO" number: 0 } value { name: "FIRST_ONE" number: 1 } } }
  nested_type { name: "Second"
    nested_type { name: "Pad" enum_type { name: "Kind" value { name: "PAD_ZERO" number: 0 } } }
    nested_type { name: "Inner"
      enum_type { name: "Kind" value { name: "DEEP_ZERO" number: 0 } value { name: "DEEP_ONE" number: 1 } value { name: "DEEP_TWO" number: 2 } } }
    enum_type { name: "Kind" value { name: "SECOND_ZERO" number: 0 } value { name: "SECOND_ONE" number: 1 } } } }
message_type { name: "Holder"
  field { name: "kind" number: 1 label: LABEL_OPTIONAL type: TYPE_ENUM type_name: ".verifc46.Outer.Second.Inner.Kind" json_name: "kind" }
  field { name: "kinds" number: 2 label: LABEL_REPEATED type: TYPE_ENUM type_name: ".verifc46.Outer.Second.Inner.Kind" json_name: "kinds" }
  field { name: "mid" number: 3 label: LABEL_OPTIONAL type: TYPE_ENUM type_name: ".verifc46.Outer.Second.Kind" json_name: "mid" } }
`

var (
	c46DeepOnce sync.Once
	c46DeepGZ   []byte
	c46DeepFDP  *descriptorpb.FileDescriptorProto
)

func c46DeepInit() {
	c46DeepOnce.Do(func() {
		c46DeepFDP = &descriptorpb.FileDescriptorProto{}
		if err := prototext.Unmarshal([]byte(c46DeepSchema), c46DeepFDP); err != nil {
			panic(err)
		}
		raw, _ := proto.MarshalOptions{Deterministic: true}.Marshal(c46DeepFDP)
		var buf bytes.Buffer
		zw := gzip.NewWriter(&buf)
		zw.Write(raw)
		zw.Close()
		c46DeepGZ = buf.Bytes()
	})
}

// C46DeepKind is Outer.Second.Inner.Kind.
type C46DeepKind int32

func (C46DeepKind) EnumDescriptor() ([]byte, []int) {
	c46DeepInit()
	return c46DeepGZ, []int{0, 1, 1, 0}
}
func (x C46DeepKind) String() string { return fmt.Sprintf("C46DeepKind(%d)", int32(x)) }

// C46MidKind is Outer.Second.Kind (path of length three).
type C46MidKind int32

func (C46MidKind) EnumDescriptor() ([]byte, []int) { c46DeepInit(); return c46DeepGZ, []int{0, 1, 0} }
func (x C46MidKind) String() string                { return fmt.Sprintf("C46MidKind(%d)", int32(x)) }

// C46DeepHolder is known through its struct tags only.
type C46DeepHolder struct {
	Kind  *C46DeepKind  `protobuf:"varint,1,opt,name=kind,enum=verifc46.Outer.Second.Inner.Kind"`
	Kinds []C46DeepKind `protobuf:"varint,2,rep,name=kinds,enum=verifc46.Outer.Second.Inner.Kind"`
	Mid   *C46MidKind   `protobuf:"varint,3,opt,name=mid,enum=verifc46.Outer.Second.Kind"`
}

func (*C46DeepHolder) Reset()         {}
func (*C46DeepHolder) String() string { return "C46DeepHolder" }
func (*C46DeepHolder) ProtoMessage()  {}

// c46DeepEnums: the enum descriptors the runtime derives for the legacy enum
// types must be the ones their paths name, and a struct-tag-only message using
// them must exchange text and JSON with a dynamicpb message of the schema.
func c46DeepEnums(c *core.Ctx) {
	c46DeepInit()
	fd, err := protodesc.NewFile(c46DeepFDP, nil)
	if err != nil {
		c.Violation("harness:deep-enum-schema-invalid", map[string]any{"err": errStr(err)})
		return
	}
	var mt protoreflect.MessageType
	if !c.NoPanic("tagonly:deep-enum-wrap-panic", nil, func() { mt = protoimpl.X.ProtoMessageV2Of(&C46DeepHolder{}).ProtoReflect().Type() }) {
		return
	}
	c.Count("deep_enum_types")
	for fname, want := range map[string]string{"kind": "verifc46.Outer.Second.Inner.Kind", "kinds": "verifc46.Outer.Second.Inner.Kind", "mid": "verifc46.Outer.Second.Kind"} {
		f := mt.Descriptor().Fields().ByName(protoreflect.Name(fname))
		if f == nil || f.Enum() == nil {
			c.Violation("tagonly:deep-enum-field-without-enum", map[string]any{"field": fname})
			continue
		}
		ref, _ := fd.Messages().ByName("Holder").Fields().ByName(protoreflect.Name(fname)).Enum(), 0
		var gotVals, wantVals []string
		for i := 0; i < f.Enum().Values().Len(); i++ {
			gotVals = append(gotVals, fmt.Sprintf("%s=%d", f.Enum().Values().Get(i).Name(), f.Enum().Values().Get(i).Number()))
		}
		for i := 0; i < ref.Values().Len(); i++ {
			wantVals = append(wantVals, fmt.Sprintf("%s=%d", ref.Values().Get(i).Name(), ref.Values().Get(i).Number()))
		}
		c.Eval()
		c.Count("deep_enum_descriptor_compares")
		if string(f.Enum().FullName()) != want || strings.Join(gotVals, ",") != strings.Join(wantVals, ",") {
			c.Violation("tagonly:legacy-enum-descriptor-is-not-the-one-its-path-names", map[string]any{"field": fname, "got": string(f.Enum().FullName()), "want": want, "got_values": gotVals, "want_values": wantVals})
		}
	}
	hmd := fd.Messages().ByName("Holder")
	for k := 0; k < 27; k++ {
		content := dynamicpb.NewMessage(hmd)
		content.Set(hmd.Fields().ByName("kind"), protoreflect.ValueOfEnum(protoreflect.EnumNumber(k%3)))
		l := content.Mutable(hmd.Fields().ByName("kinds")).List()
		l.Append(protoreflect.ValueOfEnum(protoreflect.EnumNumber(k / 3 % 3)))
		l.Append(protoreflect.ValueOfEnum(protoreflect.EnumNumber(k / 9 % 3)))
		content.Set(hmd.Fields().ByName("mid"), protoreflect.ValueOfEnum(protoreflect.EnumNumber(k%2)))
		tb, _ := prototext.Marshal(content)
		jb, _ := protojson.Marshal(content)
		c.Eval()
		c.Count("deep_enum_contents")
		c.DistinctBytes([]byte("deep"), tb)
		m := mt.New()
		d := map[string]any{"text": string(tb), "json": string(jb)}
		if !c.NoPanic("tagonly:deep-enum-panic", d, func() {
			if e := prototext.Unmarshal(tb, m.Interface()); e != nil {
				d["err"] = errStr(e)
				c.Violation("tagonly:deep-enum-rejects-text-of-handwritten-schema", d)
				return
			}
			t2, _ := prototext.Marshal(m.Interface())
			if strings.Join(strings.Fields(string(t2)), " ") != strings.Join(strings.Fields(string(tb)), " ") {
				d["got"] = string(t2)
				c.Violation("tagonly:deep-enum-text-differs-from-handwritten-schema", d)
			}
			m2 := mt.New()
			if e := protojson.Unmarshal(jb, m2.Interface()); e != nil {
				d["err"] = errStr(e)
				c.Violation("tagonly:deep-enum-rejects-json-of-handwritten-schema", d)
				return
			}
			j2, _ := protojson.Marshal(m2.Interface())
			va, _ := jsonParse(j2)
			vb, _ := jsonParse(jb)
			if fmt.Sprint(va) != fmt.Sprint(vb) {
				d["got"] = string(j2)
				c.Violation("tagonly:deep-enum-json-differs-from-handwritten-schema", d)
			}
		}) {
			return
		}
	}
}
