package checks

import (
	"fmt"
	"math"
	"strings"
	"unicode/utf8"

	"google.golang.org/protobuf/encoding/protojson"
	"google.golang.org/protobuf/proto"
	"google.golang.org/protobuf/reflect/protoreflect"
	"google.golang.org/protobuf/reflect/protoregistry"
	"google.golang.org/protobuf/verif/core"
	"google.golang.org/protobuf/verif/gen"
)

func init() {
	core.Register(&core.Check{
		ID:     "C20",
		Rule:   "cases: (local resolver) a dynamic schema known to a caller-supplied Resolver only - Any values embedding a message with extensions declared at file scope and inside a message, an extension of message type and a nested Any - marshalled and parsed back with that Resolver under the option combinations; (runes) every rune of the basic plane and a sample beyond it, followed by a hex digit, as string field value and map key through Marshal and Unmarshal; PRNG-filled JSON-representable messages (in-range Timestamp/Duration, valid UTF-8, reversible FieldMask paths, set finite Values, resolvable nested Any, NaN/+-Inf/-0, 64-bit extremes, unknown numbers of open enums, extensions, groups, maps of every key kind, unknown fields sprinkled at several depths) of every linked message type (generated and dynamicpb) under all 64 combinations of Multiline, Indent, UseProtoNames, UseEnumNumbers, EmitUnpopulated, EmitDefaultValues; plus non-representable content (out-of-range or sign-mismatched Timestamp/Duration, invalid UTF-8, unset/non-finite Value, irreversible FieldMask, unresolvable or malformed Any) for the marshal-error direction; distinct = distinct (type, option set, output); non-trivial = at least one populated field",
		Assume: []string{"proto.Equal (C30) and model/snapshot.go equality", "the classifier of non-representable content in checks/c20.go (transcribes the property statement)"},
		Batches: func(tier string) []core.Batch {
			if tier == "thorough" {
				return append(stdBatches([]string{"base"}, 16), stdBatches([]string{"legacy"}, 4)...)
			}
			return stdBatches([]string{"base"}, 16)
		},
		Gates: func(tier string) map[string]int64 {
			g := map[string]int64{"roundtrips": 20000, "dynamic": 1000, "with_unknown": 500, "with_any": 5, "with_extension": 10, "nonrep_cases": 500, "nonrep_marshal_error": 100, "local_resolver_roundtrips": 60, "local_resolver_extensions_inside_any": 200, "rune_roundtrips": 30000}
			for i := 0; i < 64; i++ {
				g[fmt.Sprintf("opt:%02d", i)] = 100
			}
			return g
		},
		Run: runC20,
	})
}

func c20Opts(i int) protojson.MarshalOptions {
	o := protojson.MarshalOptions{
		Multiline:         i&1 != 0,
		UseProtoNames:     i&4 != 0,
		UseEnumNumbers:    i&8 != 0,
		EmitUnpopulated:   i&16 != 0,
		EmitDefaultValues: i&32 != 0,
	}
	if i&2 != 0 {
		o.Indent = []string{" ", "\t", "    ", " \t"}[(i>>2)%4]
	}
	return o
}

// sprinkleUnknown adds unknown fields to m and to some nested messages
// (never inside Any payloads: those are opaque bytes).
func sprinkleUnknown(r *core.Rand, m protoreflect.Message, depth int) int {
	n := 0
	if gen.KeepsUnknown(m) && r.Chance(1, 2) && m.Descriptor().FullName().Parent() != "google.protobuf" {
		m.SetUnknown(gen.RandUnknown(r, m.Descriptor(), protoregistry.GlobalTypes))
		if len(m.GetUnknown()) > 0 {
			n++
		}
	}
	if depth > 3 {
		return n
	}
	m.Range(func(fd protoreflect.FieldDescriptor, v protoreflect.Value) bool {
		if fd.Message() == nil {
			return true
		}
		switch {
		case fd.IsList():
			for i := 0; i < v.List().Len(); i++ {
				n += sprinkleUnknown(r, v.List().Get(i).Message(), depth+1)
			}
		case fd.IsMap():
			if fd.MapValue().Message() != nil {
				v.Map().Range(func(k protoreflect.MapKey, mv protoreflect.Value) bool {
					n += sprinkleUnknown(r, mv.Message(), depth+1)
					return true
				})
			}
		default:
			n += sprinkleUnknown(r, v.Message(), depth+1)
		}
		return true
	})
	return n
}

func hasKind(m protoreflect.Message, pred func(protoreflect.Message) bool, depth int) bool {
	if pred(m) {
		return true
	}
	if depth > 6 {
		return false
	}
	found := false
	m.Range(func(fd protoreflect.FieldDescriptor, v protoreflect.Value) bool {
		if fd.Message() == nil {
			return true
		}
		switch {
		case fd.IsList():
			for i := 0; i < v.List().Len() && !found; i++ {
				found = hasKind(v.List().Get(i).Message(), pred, depth+1)
			}
		case fd.IsMap():
			if fd.MapValue().Message() != nil {
				v.Map().Range(func(k protoreflect.MapKey, mv protoreflect.Value) bool {
					found = found || hasKind(mv.Message(), pred, depth+1)
					return !found
				})
			}
		default:
			found = hasKind(v.Message(), pred, depth+1)
		}
		return !found
	})
	return found
}

// c20Gen produces the JSON-representable workload shared by C20 and C21.
// f receives the message with unknown fields (src), the same content without
// them (want), and the option index.
func c20Gen(c *core.Ctx, b core.Batch, nb, per int, f func(mt protoreflect.MessageType, src, want protoreflect.Message, dyn bool, oi int)) {
	types := shard(codecTypes(b), b.N, nb)
	for ti, mt := range types {
		for k := 0; k < per; k++ {
			r := c.Rng(uint64(ti)<<24 | uint64(k))
			dyn := k%4 == 3
			m := newOf(mt, dyn)
			fo := gen.MsgOpts{JSONSafe: true, Extensions: true}
			switch k % 5 {
			case 0:
				fo.Density = 10
			case 1:
				fo.Density = 35
			case 2:
				fo.Density = 70
				fo.MaxDepth = 2
			case 3:
				fo.Density = 100
				fo.MaxDepth = 1
			case 4:
				fo.Density = 25
				fo.MaxDepth = 4
			}
			gen.Fill(r, m, fo)
			want := proto.Clone(m.Interface()).ProtoReflect()
			if k%3 == 0 {
				if sprinkleUnknown(r, m, 0) > 0 {
					c.Count("with_unknown")
				}
			}
			// the option index cycles with the case so every type sees every combination over time
			for j := 0; j < 4; j++ {
				oi := (k*4 + j + ti) % 64
				f(mt, m, want, dyn, oi)
			}
		}
	}
}

func runC20(c *core.Ctx, b core.Batch) {
	nb := 16
	if b.Cfg != "base" {
		nb = 4
	}
	per := c.Scale(20, 240)
	c20Gen(c, b, nb, per, func(mt protoreflect.MessageType, src, want protoreflect.Message, dyn bool, oi int) {
		c20Case(c, mt, src, want, dyn, oi)
	})
	c20NonRepresentable(c, b)
	if b.Cfg == "base" && b.N == 0 {
		c20Local(c)
		c20Runes(c)
	}
}

// c20Runes round-trips strings holding every rune of the basic plane (and a
// sample beyond it), each followed by a hex digit, as field value and map key.
func c20Runes(c *core.Ctx) {
	t3 := gen.TypeByName("goproto.proto.test3.TestAllTypes")
	if t3 == nil {
		return
	}
	fs, fm := t3.Descriptor().Fields().ByName("singular_string"), t3.Descriptor().Fields().ByName("map_string_string")
	for i := 0; i < 0x10000+c.Scale(1000, 40000); i++ {
		rn := rune(i)
		if i >= 0x10000 {
			r := c.Rng(uint64(0x20e)<<32 | uint64(i))
			rn = rune(0x10000 + r.Intn(0x100000))
		}
		if rn >= 0xd800 && rn <= 0xdfff {
			continue
		}
		s := "a" + string(rn) + "b" + string(rn) + "0"
		m := t3.New()
		m.Set(fs, protoreflect.ValueOfString(s))
		m.Mutable(fm).Map().Set(protoreflect.ValueOfString(s).MapKey(), protoreflect.ValueOfString(s))
		c.Eval()
		c.Count("rune_roundtrips")
		out, err := protojson.MarshalOptions{Multiline: i%2 == 0}.Marshal(m.Interface())
		d := map[string]any{"rune": fmt.Sprintf("U+%04X", rn), "json": clip(string(out), 300)}
		if err != nil {
			d["err"] = errStr(err)
			c.Violation("json:rune:marshal-error-on-representable:"+c21RuneClass(rn), d)
			continue
		}
		got := t3.New()
		if e := protojson.Unmarshal(out, got.Interface()); e != nil {
			d["err"] = errStr(e)
			c.Violation("json:rune:unmarshal-error-on-own-output:"+c21RuneClass(rn), d)
			continue
		}
		if !proto.Equal(got.Interface(), m.Interface()) {
			c.Violation("json:rune:roundtrip-differs:"+c21RuneClass(rn), d)
		}
	}
}

// c20Local round-trips Any values whose embedded message and its extensions
// are known to a caller-supplied resolver only.
func c20Local(c *core.Ctx) {
	la, err := newLocalAny(20)
	if err != nil {
		c.Violation("harness:local-schema-invalid", map[string]any{"err": errStr(err)})
		return
	}
	for k := 0; k < c.Scale(200, 4000); k++ {
		r := c.Rng(uint64(0x20a)<<32 | uint64(k))
		want, nx := la.content(r, true)
		ws := la.snap(want)
		opts := c20Opts(k % 64)
		opts.Resolver = la.types
		opts.AllowPartial = true
		c.Eval()
		c.Count("local_resolver_roundtrips")
		c.CountN("local_resolver_extensions_inside_any", int64(nx))
		c.Log("C20 local-resolver case=%d opts=%d snapshot=%s", k, k%64, clip(ws.String(), 4000))
		var out []byte
		var err error
		if !c.NoPanic("json:local-resolver:marshal-panic", map[string]any{"snapshot": clip(ws.String(), 2000)}, func() { out, err = opts.Marshal(want.Interface()) }) {
			continue
		}
		if err != nil {
			c.Violation("json:local-resolver:marshal-error", map[string]any{"err": errStr(err), "snapshot": clip(ws.String(), 2000)})
			continue
		}
		c.DistinctBytes([]byte("local"), out)
		got := la.carrier.New()
		var uerr error
		if !c.NoPanic("json:local-resolver:unmarshal-panic", map[string]any{"json": clip(string(out), 3000)}, func() {
			uerr = protojson.UnmarshalOptions{AllowPartial: true, Resolver: la.types}.Unmarshal(out, got.Interface())
		}) {
			continue
		}
		if uerr != nil {
			c.Violation("json:local-resolver:unmarshal-error-on-own-output", map[string]any{"err": errStr(uerr), "json": clip(string(out), 3000)})
			continue
		}
		if gs := la.snap(got); gs.String() != ws.String() {
			c.Violation("json:local-resolver:roundtrip:"+firstDiff(ws, gs), map[string]any{"json": clip(string(out), 3000), "want": clip(ws.String(), 1500), "got": clip(gs.String(), 1500)})
		}
	}
}

func c20Case(c *core.Ctx, mt protoreflect.MessageType, src, want protoreflect.Message, dyn bool, oi int) {
	name := string(mt.Descriptor().FullName())
	opts := c20Opts(oi)
	c.Eval()
	c.Count("roundtrips")
	c.Count(fmt.Sprintf("opt:%02d", oi))
	if dyn {
		c.Count("dynamic")
	}
	ws := snapOf(want)
	c.Log("C20 type=%s opts=%d dyn=%v snapshot=%s", name, oi, dyn, clip(ws.String(), 6000))
	var out []byte
	var err error
	// recursive required types cannot be filled to the bottom: partial on both sides
	partial := proto.CheckInitialized(want.Interface()) != nil
	opts.AllowPartial = partial
	if !c.NoPanic("json:marshal-panic:"+name, map[string]any{"opts": oi}, func() { out, err = opts.Marshal(src.Interface()) }) {
		return
	}
	if err != nil {
		c.Violation("json:marshal-error-on-representable:"+name, map[string]any{"err": errStr(err), "opts": oi, "snapshot": clip(ws.String(), 2000)})
		return
	}
	if ws.NumPopulated() > 0 {
		c.DistinctBytes([]byte(name), []byte{byte(oi)}, out)
	}
	if oi == 0 {
		if hasKind(want, func(m protoreflect.Message) bool {
			return m.Descriptor().FullName() == "google.protobuf.Any" && m.Get(m.Descriptor().Fields().ByNumber(1)).String() != ""
		}, 0) {
			c.Count("with_any")
		}
		want.Range(func(fd protoreflect.FieldDescriptor, _ protoreflect.Value) bool {
			if fd.IsExtension() {
				c.Count("with_extension")
				return false
			}
			return true
		})
	}
	got := newOf(mt, dyn)
	var uerr error
	if !c.NoPanic("json:unmarshal-panic:"+name, map[string]any{"json": clip(string(out), 3000)}, func() { uerr = protojson.UnmarshalOptions{AllowPartial: partial}.Unmarshal(out, got.Interface()) }) {
		return
	}
	if uerr != nil {
		c.Violation("json:unmarshal-error-on-own-output:"+name+":"+c20OptClass(oi), map[string]any{"err": errStr(uerr), "opts": oi, "json": clip(string(out), 3000)})
		return
	}
	// resolvable Any payloads are compared as messages: JSON re-serialises them, and
	// it cannot carry the sign or payload of a NaN that sits inside the payload bytes
	gs := snapAny(got)
	ws = snapAny(want)
	eq := proto.Equal(want.Interface(), got.Interface()) || snapOf(got).String() != snapOf(want).String()
	if gs.String() != ws.String() {
		d := firstDiff(ws, gs)
		if cls := c20NullClass(d, oi); cls != "" {
			c.Violation("json:roundtrip:emitunpopulated-null-for-unset-field-of-type:"+cls, map[string]any{"field": d, "opts": oi, "json": clip(string(out), 3000), "dynamic": dyn})
			return
		}
		c.Violation("json:roundtrip:"+c20OptClass(oi)+":"+d, map[string]any{"opts": oi, "json": clip(string(out), 3000), "want": clip(ws.String(), 1500), "got": clip(gs.String(), 1500), "dynamic": dyn})
	} else if !eq {
		c.Violation("json:equal-false-snapshot-same:"+name, map[string]any{"opts": oi, "json": clip(string(out), 3000)})
	}
	if c.WantSample() && ws.NumPopulated() > 3 && oi > 0 {
		c.Sample(map[string]any{"type": name, "options": fmt.Sprintf("%+v", opts), "json": clip(string(out), 700), "roundtrip_equal": eq})
	}
}

// c20NullClass recognises one precise class of round-trip difference: under
// EmitUnpopulated an unset field whose JSON form for "set" is itself null
// (google.protobuf.Value message fields, explicit-presence NullValue enum
// fields) is printed as null and parsed back as populated.
func c20NullClass(diff string, oi int) string {
	if oi&16 == 0 || !strings.HasSuffix(diff, "(missing-left)") {
		return ""
	}
	d, err := protoregistry.GlobalFiles.FindDescriptorByName(protoreflect.FullName(strings.TrimSuffix(diff, "(missing-left)")))
	if err != nil {
		return ""
	}
	fd, ok := d.(protoreflect.FieldDescriptor)
	if !ok || fd.IsList() || fd.IsMap() || fd.ContainingOneof() != nil {
		return ""
	}
	if fd.Message() != nil && fd.Message().FullName() == "google.protobuf.Value" {
		return "google.protobuf.Value"
	}
	if fd.Enum() != nil && fd.Enum().FullName() == "google.protobuf.NullValue" && fd.HasPresence() {
		return "google.protobuf.NullValue"
	}
	return ""
}

// c20OptClass names the option bits that change content (not layout).
func c20OptClass(oi int) string {
	var s []string
	if oi&4 != 0 {
		s = append(s, "protonames")
	}
	if oi&8 != 0 {
		s = append(s, "enumnumbers")
	}
	if oi&16 != 0 {
		s = append(s, "emitunpopulated")
	}
	if oi&32 != 0 {
		s = append(s, "emitdefaults")
	}
	if len(s) == 0 {
		return "plain"
	}
	return strings.Join(s, "+")
}

// c20NonRepresentable: content the mapping cannot represent must make Marshal
// fail (each class of the property statement), under several option sets.
func c20NonRepresentable(c *core.Ctx, b core.Batch) {
	type bad struct {
		class string
		mk    func(r *core.Rand) proto.Message
	}
	newT := func(n string) protoreflect.Message { return gen.TypeByName(n).New() }
	setF := func(m protoreflect.Message, name string, v protoreflect.Value) {
		m.Set(m.Descriptor().Fields().ByName(protoreflect.Name(name)), v)
	}
	cases := []bad{
		{"timestamp-seconds-range", func(r *core.Rand) proto.Message {
			m := newT("google.protobuf.Timestamp")
			setF(m, "seconds", protoreflect.ValueOfInt64([]int64{253402300800, -62135596801, math.MaxInt64, math.MinInt64}[r.Intn(4)]))
			return m.Interface()
		}},
		{"timestamp-nanos-range", func(r *core.Rand) proto.Message {
			m := newT("google.protobuf.Timestamp")
			setF(m, "seconds", protoreflect.ValueOfInt64(int64(r.Intn(1000))))
			setF(m, "nanos", protoreflect.ValueOfInt32([]int32{-1, 1000000000, math.MaxInt32, math.MinInt32}[r.Intn(4)]))
			return m.Interface()
		}},
		{"duration-seconds-range", func(r *core.Rand) proto.Message {
			m := newT("google.protobuf.Duration")
			setF(m, "seconds", protoreflect.ValueOfInt64([]int64{315576000001, -315576000001, math.MaxInt64, math.MinInt64}[r.Intn(4)]))
			return m.Interface()
		}},
		{"duration-nanos-range", func(r *core.Rand) proto.Message {
			m := newT("google.protobuf.Duration")
			setF(m, "nanos", protoreflect.ValueOfInt32([]int32{1000000000, -1000000000, math.MaxInt32, math.MinInt32}[r.Intn(4)]))
			return m.Interface()
		}},
		{"duration-sign-mismatch", func(r *core.Rand) proto.Message {
			m := newT("google.protobuf.Duration")
			s := int64(1 + r.Intn(1000))
			n := int32(1 + r.Intn(999999999))
			if r.Bool() {
				s = -s
			} else {
				n = -n
			}
			setF(m, "seconds", protoreflect.ValueOfInt64(s))
			setF(m, "nanos", protoreflect.ValueOfInt32(n))
			return m.Interface()
		}},
		{"invalid-utf8-proto3-string", func(r *core.Rand) proto.Message {
			m := newT("goproto.proto.test3.TestAllTypes")
			setF(m, "singular_string", protoreflect.ValueOfString(gen.InvalidString(r)))
			return m.Interface()
		}},
		{"invalid-utf8-string-value", func(r *core.Rand) proto.Message {
			m := newT("google.protobuf.Value")
			setF(m, "string_value", protoreflect.ValueOfString(gen.InvalidString(r)))
			return m.Interface()
		}},
		{"value-unset", func(r *core.Rand) proto.Message { return newT("google.protobuf.Value").Interface() }},
		{"value-unset-in-list", func(r *core.Rand) proto.Message {
			m := newT("google.protobuf.ListValue")
			l := m.Mutable(m.Descriptor().Fields().ByName("values")).List()
			l.Append(l.NewElement())
			return m.Interface()
		}},
		{"value-non-finite", func(r *core.Rand) proto.Message {
			m := newT("google.protobuf.Value")
			setF(m, "number_value", protoreflect.ValueOfFloat64([]float64{math.NaN(), math.Inf(1), math.Inf(-1)}[r.Intn(3)]))
			return m.Interface()
		}},
		{"fieldmask-irreversible", func(r *core.Rand) proto.Message {
			m := newT("google.protobuf.FieldMask")
			l := m.Mutable(m.Descriptor().Fields().ByName("paths")).List()
			l.Append(protoreflect.ValueOfString([]string{"foo__bar", "fooBar", "foo_Bar", "foo_1", "foo_", "foo_1x_", "a.b__c"}[r.Intn(7)]))
			return m.Interface()
		}},
		{"any-unresolvable", func(r *core.Rand) proto.Message {
			m := newT("google.protobuf.Any")
			setF(m, "type_url", protoreflect.ValueOfString("type.googleapis.com/no.such.Type"))
			setF(m, "value", protoreflect.ValueOfBytes([]byte{8, 1}))
			return m.Interface()
		}},
		{"any-malformed-value", func(r *core.Rand) proto.Message {
			m := newT("google.protobuf.Any")
			setF(m, "type_url", protoreflect.ValueOfString("type.googleapis.com/goproto.proto.test3.TestAllTypes"))
			setF(m, "value", protoreflect.ValueOfBytes([][]byte{{0x08}, {0xff, 0xff}, {0x0a, 0x05, 1}, {0x0f}}[r.Intn(4)]))
			return m.Interface()
		}},
		{"any-empty-url-with-value", func(r *core.Rand) proto.Message {
			m := newT("google.protobuf.Any")
			setF(m, "value", protoreflect.ValueOfBytes([]byte{8, 1}))
			return m.Interface()
		}},
	}
	holder := gen.TypeByName("goproto.proto.test3.TestAllTypes") // not a WKT holder; nesting is done through Any and KnownTypes below
	_ = holder
	known := gen.TypeByName("pb2.KnownTypes")
	n := c.Scale(40, 400)
	for ci, bc := range cases {
		for i := 0; i < n; i++ {
			if i%16 != c.B.N%16 && c.B.Cfg == "base" {
				continue
			}
			r := c.Rng(uint64(900+ci)<<24 | uint64(i))
			inner := bc.mk(r)
			msgs := []proto.Message{inner}
			// nest it: inside pb2.KnownTypes (a field of that WKT type) when one exists
			if known != nil {
				km := known.New()
				fs := km.Descriptor().Fields()
				for j := 0; j < fs.Len(); j++ {
					fd := fs.Get(j)
					if fd.Message() != nil && !fd.IsList() && !fd.IsMap() && fd.Message().FullName() == inner.ProtoReflect().Descriptor().FullName() {
						km.Set(fd, protoreflect.ValueOfMessage(proto.Clone(inner).ProtoReflect()))
						msgs = append(msgs, km.Interface())
						break
					}
				}
			}
			for mi, m := range msgs {
				oi := (i*3 + mi*7) % 64
				c.Eval()
				c.Count("nonrep_cases")
				c.DistinctStr(fmt.Sprintf("nonrep/%s/%d/%d/%d", bc.class, i, mi, oi))
				c.Log("C20 nonrep class=%s i=%d nest=%d opts=%d", bc.class, i, mi, oi)
				var err error
				var out []byte
				if !c.NoPanic("json:nonrep-marshal-panic:"+bc.class, nil, func() { out, err = c20Opts(oi).Marshal(m) }) {
					continue
				}
				if err != nil {
					c.Count("nonrep_marshal_error")
					continue
				}
				c.Violation(fmt.Sprintf("json:non-representable-marshalled:%s:nested=%v", bc.class, mi > 0), map[string]any{"json": clip(string(out), 500), "opts": oi})
			}
		}
	}
}

var _ = utf8.ValidString
