package checks

import (
	"fmt"

	"google.golang.org/protobuf/encoding/protojson"
	"google.golang.org/protobuf/encoding/prototext"
	"google.golang.org/protobuf/encoding/protowire"
	"google.golang.org/protobuf/proto"
	"google.golang.org/protobuf/reflect/protoreflect"
	"google.golang.org/protobuf/verif/core"
	"google.golang.org/protobuf/verif/gen"
	"google.golang.org/protobuf/verif/model"
)

func init() {
	core.Register(&core.Check{
		ID:     "C11",
		Rule:   "cases: EVERY field of every linked type (open, hybrid, opaque, legacy, dynamicpb twin; systematic round-robin) x set/clear sequences of length <= 4 drawn from {set non-zero, set zero value (incl. -0.0), clear, mutable, generated SetX/ClearX}; after every step: reflection Has vs the presence discipline (explicit once set, implicit iff bit pattern non-zero, repeated/map iff non-empty, oneof iff selected), generated HasX/GetX vs reflection, top-level tag set of the binary encoding (implicit zero never encoded, explicit default encoded), and Has after binary, JSON and text round trips; distinct = distinct (type, field, sequence); non-trivial = at least one set operation",
		Assume: []string{"harness/model/msgmodel.go presence rules", "protowire tag scan of the encoding"},
		Batches: func(tier string) []core.Batch {
			if tier == "thorough" {
				return append(stdBatches([]string{"base"}, 16), stdBatches([]string{"ptr"}, 4)...)
			}
			return stdBatches([]string{"base"}, 16)
		},
		Gates: func(tier string) map[string]int64 {
			return map[string]int64{"sequences": 20000, "presence:explicit": 3000, "presence:implicit": 2000, "presence:repeated": 1000, "presence:oneof": 500, "generated_has_checks": 1000, "generated_set_calls": 500, "roundtrip:json": 2000, "roundtrip:text": 2000, "negzero_sets": 50, "opaque_presence_word:2": 1}
		},
		Run: runC11,
	})
}

func presenceClass(fd protoreflect.FieldDescriptor) string {
	switch {
	case fd.IsMap() || fd.IsList():
		return "repeated"
	case fd.ContainingOneof() != nil && !fd.ContainingOneof().IsSynthetic():
		return "oneof"
	case fd.HasPresence():
		return "explicit"
	}
	return "implicit"
}

func topLevelTags(b []byte) map[protowire.Number]bool {
	out := map[protowire.Number]bool{}
	for len(b) > 0 {
		num, typ, n := protowire.ConsumeTag(b)
		if n < 0 {
			return out
		}
		m := protowire.ConsumeFieldValue(num, typ, b[n:])
		if m < 0 {
			return out
		}
		out[num] = true
		b = b[n+m:]
	}
	return out
}

func runC11(c *core.Ctx, b core.Batch) {
	nb := 16
	if b.Cfg != "base" {
		nb = 4
	}
	types := shard(codecTypes(b), b.N, nb)
	if b.Cfg == "base" && b.N == 1 {
		// dynamicpb over PRNG-generated schemas: message shapes no linked type has
		dt := schemaDynTypes(c, 0x11, c.Scale(6, 60))
		c.CountN("generated_schema_dynamic_types", int64(len(dt)))
		types = append(types, dt...)
	}
	for ti, mt := range types {
		md := mt.Descriptor()
		fds := md.Fields()
		reps := c.Scale(8, 60)
		if fds.Len() > 60 {
			reps = c.Scale(4, 30)
		}
		for fi := 0; fi < fds.Len(); fi++ {
			fd := fds.Get(fi)
			if fi >= 64 {
				c.Count(fmt.Sprintf("opaque_presence_word:%d", fi/32))
			}
			for k := 0; k < reps; k++ {
				r := c.Rng(uint64(ti)<<32 | uint64(fi)<<8 | uint64(k))
				dyn := k%4 == 3
				c11Sequence(c, r, mt, fd, dyn)
			}
		}
	}
}

func c11Sequence(c *core.Ctx, r *core.Rand, mt protoreflect.MessageType, fd protoreflect.FieldDescriptor, dyn bool) {
	m := newOf(mt, dyn)
	mod := model.NewSnap(mt.Descriptor())
	name := string(mt.Descriptor().FullName())
	cls := presenceClass(fd)
	var log []string
	c.Eval()
	c.Count("sequences")
	c.Count("presence:" + cls)
	fo := gen.MsgOpts{JSONSafe: true, MaxDepth: 1, Density: 30, OnlyDeclaredEnums: true}
	bad := func(what string, extra ...any) {
		d := map[string]any{"type": name, "field": string(fd.Name()), "ops": append([]string{}, log...), "dynamic": dyn, "presence_class": cls}
		for i := 0; i+1 < len(extra); i += 2 {
			d[fmt.Sprint(extra[i])] = extra[i+1]
		}
		c.Violation(fmt.Sprintf("presence:%s:%s:%s:dyn=%v", what, cls, kindCell(fd), dyn), d)
	}
	n := 1 + r.Intn(4)
	sets := 0
	for i := 0; i < n; i++ {
		c.Log("C11 type=%s field=%s dyn=%v ops=%v", name, fd.Name(), dyn, log)
		ok := c.NoPanic("presence:panic:"+name, map[string]any{"field": string(fd.Name()), "ops": log}, func() {
			// one operation
			switch {
			case fd.IsMap():
				switch r.Intn(3) {
				case 0, 1:
					k := gen.RandScalar(r, fd.MapKey(), gen.MsgOpts{}).MapKey()
					mp := m.Mutable(fd).Map()
					var v protoreflect.Value
					if fd.MapValue().Message() != nil {
						v = mp.NewValue()
					} else {
						v = gen.RandScalar(r, fd.MapValue(), fo)
					}
					log = append(log, "map-set")
					mv := model.Val{S: "x"}
					mp.Set(k, v)
					mod.MapSet(fd, model.ScalarString(fd.MapKey().Kind(), k.Value()), mv)
					sets++
				case 2:
					log = append(log, "clear")
					m.Clear(fd)
					mod.Clear(fd)
				}
			case fd.IsList():
				switch r.Intn(4) {
				case 0, 1:
					l := m.Mutable(fd).List()
					var v protoreflect.Value
					if fd.Message() != nil {
						v = l.NewElement()
					} else {
						v = gen.RandScalar(r, fd, fo)
					}
					log = append(log, "append")
					l.Append(v)
					mod.ListAppend(fd, model.Val{S: "x"})
					sets++
				case 2:
					log = append(log, "truncate-0")
					m.Mutable(fd).List().Truncate(0)
					mod.ListTruncate(fd, 0)
				case 3:
					log = append(log, "clear")
					m.Clear(fd)
					mod.Clear(fd)
				}
			case fd.Message() != nil:
				switch r.Intn(4) {
				case 0:
					log = append(log, "set-empty-message")
					m.Set(fd, m.NewField(fd))
					mod.SetMessage(fd, model.NewSnap(fd.Message()))
					sets++
				case 1:
					log = append(log, "mutable")
					m.Mutable(fd)
					mod.MutableMessage(fd)
					sets++
				case 2:
					v := m.NewField(fd)
					gen.Fill(r.Fork(3), v.Message(), fo)
					if !dyn && genSet(m, fd, v) {
						log = append(log, "generated-Set(filled)")
						c.Count("generated_set_calls")
					} else {
						log = append(log, "set-filled-message")
						m.Set(fd, v)
					}
					mod.SetMessage(fd, model.NewSnap(fd.Message()))
					sets++
				case 3:
					if !dyn && r.Bool() && genClear(m, fd) {
						log = append(log, "generated-Clear")
					} else {
						log = append(log, "clear")
						m.Clear(fd)
					}
					mod.Clear(fd)
				}
			default:
				switch r.Intn(5) {
				case 0, 1:
					v := gen.RandScalar(r, fd, fo)
					if (fd.Kind() == protoreflect.FloatKind || fd.Kind() == protoreflect.DoubleKind) && r.Chance(1, 4) {
						if fd.Kind() == protoreflect.FloatKind {
							v = protoreflect.ValueOfFloat32(float32frombits(0x80000000))
						} else {
							v = protoreflect.ValueOfFloat64(float64frombits(1 << 63))
						}
						c.Count("negzero_sets")
					}
					if !dyn && r.Bool() && genSet(m, fd, v) {
						log = append(log, "generated-Set("+model.ScalarString(fd.Kind(), v)+")")
						c.Count("generated_set_calls")
					} else {
						log = append(log, "set("+model.ScalarString(fd.Kind(), v)+")")
						m.Set(fd, v)
					}
					mod.SetScalar(fd, v)
					sets++
				case 2:
					v := zeroOf(fd)
					if !dyn && r.Bool() && genSet(m, fd, v) {
						log = append(log, "generated-Set(zero)")
						c.Count("generated_set_calls")
					} else {
						log = append(log, "set(zero)")
						m.Set(fd, v)
					}
					mod.SetScalar(fd, v)
					sets++
				case 3, 4:
					if !dyn && r.Bool() && genClear(m, fd) {
						log = append(log, "generated-Clear")
					} else {
						log = append(log, "clear")
						m.Clear(fd)
					}
					mod.Clear(fd)
				}
			}
			// observations
			want := mod.Has(fd)
			if got := m.Has(fd); got != want {
				bad(fmt.Sprintf("has:real=%v", got))
				return
			}
			if !dyn {
				if gh, ok := genHas(m, fd); ok {
					c.Count("generated_has_checks")
					if gh != want {
						bad(fmt.Sprintf("generated-HasX:got=%v", gh))
					}
				}
				if fd.Message() == nil && !fd.IsList() && !fd.IsMap() {
					if gv, ok := genGet(m, fd); ok {
						if a, b := model.ScalarString(fd.Kind(), gv), model.ScalarString(fd.Kind(), m.Get(fd)); a != b {
							bad("generated-GetX-differs", "getter", a, "reflection", b)
						}
					}
				}
			}
			// other members of the oneof must be unpopulated
			if od := fd.ContainingOneof(); od != nil {
				for j := 0; j < od.Fields().Len(); j++ {
					if o := od.Fields().Get(j); o.Number() != fd.Number() && m.Has(o) {
						bad("oneof-sibling-populated")
					}
				}
			}
			enc, err := proto.MarshalOptions{AllowPartial: true}.Marshal(m.Interface())
			if err != nil {
				bad("marshal-error", "err", errStr(err))
				return
			}
			if tags := topLevelTags(enc); tags[fd.Number()] != want {
				bad(fmt.Sprintf("encoded-tag-present=%v-but-has=%v", tags[fd.Number()], want), "wire", core.Hex(enc))
			}
			// round trips keep presence
			m2 := newOf(mt, dyn)
			if err := (proto.UnmarshalOptions{AllowPartial: true}).Unmarshal(enc, m2.Interface()); err != nil {
				bad("reunmarshal-error", "err", errStr(err))
			} else if m2.Has(fd) != want {
				bad("binary-roundtrip-has", "wire", core.Hex(enc))
			}
			if js, err := (protojson.MarshalOptions{AllowPartial: true}).Marshal(m.Interface()); err == nil {
				m3 := newOf(mt, dyn)
				if err := (protojson.UnmarshalOptions{AllowPartial: true}).Unmarshal(js, m3.Interface()); err != nil {
					bad("json-reparse-error", "json", clip(string(js), 500), "err", errStr(err))
				} else {
					c.Count("roundtrip:json")
					if m3.Has(fd) != want {
						bad("json-roundtrip-has", "json", clip(string(js), 500))
					}
				}
			} else {
				c.Count("json_marshal_failed")
			}
			if tx, err := (prototext.MarshalOptions{AllowPartial: true}).Marshal(m.Interface()); err == nil {
				m4 := newOf(mt, dyn)
				if err := (prototext.UnmarshalOptions{AllowPartial: true}).Unmarshal(tx, m4.Interface()); err != nil {
					bad("text-reparse-error", "text", clip(string(tx), 500), "err", errStr(err))
				} else {
					c.Count("roundtrip:text")
					if m4.Has(fd) != want {
						bad("text-roundtrip-has", "text", clip(string(tx), 500))
					}
				}
			}
		})
		if !ok {
			return
		}
	}
	if sets > 0 {
		c.DistinctStr(name + "|" + string(fd.Name()) + "|" + fmt.Sprint(log, dyn))
	}
	if c.WantSample() && len(log) > 2 {
		c.Sample(map[string]any{"type": name, "field": string(fd.Name()), "presence_class": cls, "ops": log, "final_has": mod.Has(fd)})
	}
}
