package checks

import (
	"bytes"
	"fmt"
	"sort"
	"strings"

	"google.golang.org/protobuf/proto"
	"google.golang.org/protobuf/reflect/protopath"
	"google.golang.org/protobuf/reflect/protorange"
	"google.golang.org/protobuf/reflect/protoreflect"
	"google.golang.org/protobuf/reflect/protoregistry"
	"google.golang.org/protobuf/types/known/anypb"
	"google.golang.org/protobuf/verif/core"
	"google.golang.org/protobuf/verif/gen"
)

func init() {
	core.Register(&core.Check{
		ID:     "C32",
		Rule:   "cases: PRNG-filled messages of every corpus type (generated and dynamicpb; lists, maps of every key kind, oneofs, extensions, groups, unknown fields, Any with resolvable, unresolvable and undecodable bodies) ranged with Stable and unstable order; the recorded push/pop sequence is compared with a reference depth-first traversal; then Break and Terminate are returned from the callback at every push and pop position of the traversal (at most 40 positions per message in quick and 120 in thorough, PRNG-chosen beyond that); distinct = distinct (type, deterministic encoding, injection kind); non-trivial = at least one populated field",
		Assume: []string{"reference traversal in harness/checks/c32.go (field number order, generic map-key order)", "protopath.Path.String as event identity", "protoreflect.Value.Equal"},
		Batches: func(tier string) []core.Batch {
			return stdBatches([]string{"base"}, 16)
		},
		Gates: func(tier string) map[string]int64 {
			return map[string]int64{"ranges": 3000, "events": 200000, "break_injections": 20000, "terminate_injections": 20000, "any_expanded": 50, "any_not_expanded": 20, "step_MapIndex": 1000, "step_ListIndex": 1000, "step_UnknownAccess": 100, "break_skipped_subtree": 1000, "unstable_ranges": 1000}
		},
		Run: runC32,
	})
}

// c32Ev is one callback. id identifies the step chain (hash of the chain of step strings);
// path is only filled where it is needed for display.
type c32Ev struct {
	push   bool
	id     uint64
	parent uint64
	depth  int
	path   string
}

type c32Key struct {
	push bool
	id   uint64
}

func (e c32Ev) key() c32Key { return c32Key{e.push, e.id} }
func (e c32Ev) same(o c32Ev) bool {
	return e.push == o.push && e.id == o.id && e.depth == o.depth && e.parent == o.parent
}

func (e c32Ev) String() string {
	p := e.path
	if p == "" {
		p = fmt.Sprintf("#%x", e.id)
	}
	if e.push {
		return "push " + p
	}
	return "pop " + p
}

func c32ChainID(parent uint64, s protopath.Step) uint64 {
	return core.HashStr(s.String()) ^ (parent*0x9e3779b97f4a7c15 + 0x7f4a7c15)
}

// c32Ref: the reference traversal (Stable order).
type c32Ref struct {
	evs   []c32Ev
	ids   []uint64
	path  protopath.Path
	res   *protoregistry.Types
	count func(string)
}

func (w *c32Ref) push(s protopath.Step) {
	w.path = append(w.path, s)
	var parent uint64
	if len(w.ids) > 0 {
		parent = w.ids[len(w.ids)-1]
	}
	w.ids = append(w.ids, c32ChainID(parent, s))
	w.evs = append(w.evs, c32Ev{true, w.ids[len(w.ids)-1], parent, len(w.path), w.path.String()})
	w.count("step_" + s.Kind().String())
}
func (w *c32Ref) pop() {
	var parent uint64
	if len(w.ids) > 1 {
		parent = w.ids[len(w.ids)-2]
	}
	w.evs = append(w.evs, c32Ev{false, w.ids[len(w.ids)-1], parent, len(w.path), w.path.String()})
	w.path = w.path[:len(w.path)-1]
	w.ids = w.ids[:len(w.ids)-1]
}

func (w *c32Ref) message(m protoreflect.Message) {
	if m.Descriptor().FullName() == "google.protobuf.Any" {
		fds := m.Descriptor().Fields()
		url := m.Get(fds.ByNumber(1)).String()
		val := m.Get(fds.ByNumber(2)).Bytes()
		if mt, err := w.res.FindMessageByURL(url); err == nil {
			m2 := mt.New()
			if (proto.UnmarshalOptions{AllowPartial: true, Resolver: w.res}).Unmarshal(val, m2.Interface()) == nil {
				w.count("any_expanded")
				w.push(protopath.AnyExpand(m2.Descriptor()))
				w.message(m2)
				w.pop()
				return
			}
		}
		w.count("any_not_expanded")
	}
	type fv struct {
		fd protoreflect.FieldDescriptor
		v  protoreflect.Value
	}
	var fs []fv
	m.Range(func(fd protoreflect.FieldDescriptor, v protoreflect.Value) bool {
		fs = append(fs, fv{fd, v})
		return true
	})
	sort.Slice(fs, func(i, j int) bool { return fs[i].fd.Number() < fs[j].fd.Number() })
	for _, f := range fs {
		w.push(protopath.FieldAccess(f.fd))
		switch {
		case f.fd.IsMap():
			var keys []protoreflect.MapKey
			f.v.Map().Range(func(k protoreflect.MapKey, _ protoreflect.Value) bool {
				keys = append(keys, k)
				return true
			})
			sort.Slice(keys, func(i, j int) bool { return c32KeyLess(keys[i], keys[j]) })
			for _, k := range keys {
				w.push(protopath.MapIndex(k))
				if f.fd.MapValue().Message() != nil {
					w.message(f.v.Map().Get(k).Message())
				}
				w.pop()
			}
		case f.fd.IsList():
			for i := 0; i < f.v.List().Len(); i++ {
				w.push(protopath.ListIndex(i))
				if f.fd.Message() != nil {
					w.message(f.v.List().Get(i).Message())
				}
				w.pop()
			}
		case f.fd.Message() != nil:
			w.message(f.v.Message())
		}
		w.pop()
	}
	if len(m.GetUnknown()) > 0 {
		w.push(protopath.UnknownAccess())
		w.pop()
	}
}

func c32KeyLess(a, b protoreflect.MapKey) bool {
	switch x := a.Interface().(type) {
	case bool:
		return !x && b.Bool()
	case int32, int64:
		return a.Int() < b.Int()
	case uint32, uint64:
		return a.Uint() < b.Uint()
	case string:
		return x < b.String()
	}
	return false
}

// c32StepValue applies the last step to its parent value.
func c32StepValue(p protopath.Values, root protoreflect.Message, res *protoregistry.Types) (ok bool, why string) {
	n := len(p.Path)
	if n != len(p.Values) || n == 0 {
		return false, "path/values length"
	}
	s, v := p.Path[n-1], p.Values[n-1]
	if n == 1 {
		if s.Kind() != protopath.RootStep || v.Message() != root {
			return false, "root"
		}
		return true, ""
	}
	parent := p.Values[n-2]
	switch s.Kind() {
	case protopath.FieldAccessStep:
		pm, isMsg := parent.Interface().(protoreflect.Message)
		if !isMsg || !pm.Has(s.FieldDescriptor()) || !v.Equal(pm.Get(s.FieldDescriptor())) {
			return false, "field-access"
		}
	case protopath.UnknownAccessStep:
		pm, isMsg := parent.Interface().(protoreflect.Message)
		if !isMsg || !bytes.Equal(v.Bytes(), pm.GetUnknown()) {
			return false, "unknown-access"
		}
	case protopath.ListIndexStep:
		pl, isList := parent.Interface().(protoreflect.List)
		if !isList || s.ListIndex() >= pl.Len() || !v.Equal(pl.Get(s.ListIndex())) {
			return false, "list-index"
		}
	case protopath.MapIndexStep:
		pm, isMap := parent.Interface().(protoreflect.Map)
		if !isMap || !pm.Has(s.MapIndex()) || !v.Equal(pm.Get(s.MapIndex())) {
			return false, "map-index"
		}
	case protopath.AnyExpandStep:
		pm, isMsg := parent.Interface().(protoreflect.Message)
		if !isMsg || pm.Descriptor().FullName() != "google.protobuf.Any" {
			return false, "any-expand-parent"
		}
		var a anypb.Any
		a.TypeUrl = pm.Get(pm.Descriptor().Fields().ByNumber(1)).String()
		a.Value = pm.Get(pm.Descriptor().Fields().ByNumber(2)).Bytes()
		want, err := anypb.UnmarshalNew(&a, proto.UnmarshalOptions{AllowPartial: true, Resolver: res})
		if err != nil || !proto.Equal(want, v.Message().Interface()) || s.MessageDescriptor() != v.Message().Descriptor() {
			return false, "any-expand"
		}
	default:
		return false, "step-kind"
	}
	return true, ""
}

func c32Record(c *core.Ctx, m protoreflect.Message, stable bool, inject int, injectErr error, fpSuffix string, det func() map[string]any) ([]c32Ev, error, bool) {
	var evs []c32Ev
	var ids []uint64
	n := 0
	ok := true
	cb := func(push bool) func(protopath.Values) error {
		return func(p protopath.Values) error {
			// the monitor keeps its own stack of chain ids; a callback whose path length does not fit
			// the stack is recorded with id 0 and fails the comparison
			d := len(p.Path)
			var e c32Ev
			switch {
			case push && d == len(ids)+1 && d > 0:
				var parent uint64
				if d > 1 {
					parent = ids[d-2]
				}
				ids = append(ids, c32ChainID(parent, p.Path[d-1]))
				e = c32Ev{true, ids[d-1], parent, d, ""}
			case !push && d == len(ids) && d > 0:
				var parent uint64
				if d > 1 {
					parent = ids[d-2]
				}
				// a pop must present the same chain as the push it closes
				id := ids[d-1]
				if c32ChainID(parent, p.Path[d-1]) != id {
					id = 0
				}
				e = c32Ev{false, id, parent, d, ""}
				ids = ids[:d-1]
			default:
				e = c32Ev{push, 0, 0, d, ""}
			}
			if inject < 0 {
				e.path = p.Path.String()
			}
			evs = append(evs, e)
			if push && inject < 0 {
				if good, why := c32StepValue(p, m, nil2global()); !good {
					d := det()
					d["path"] = p.Path.String()
					c.Violation("range:step-value:"+why+":"+fpSuffix, d)
				}
			}
			n++
			if n-1 == inject {
				return injectErr
			}
			return nil
		}
	}
	var err error
	if !c.NoPanic("range:panic:"+fpSuffix, det(), func() {
		err = protorange.Options{Stable: stable}.Range(m, cb(true), cb(false))
	}) {
		ok = false
	}
	return evs, err, ok
}

func c32Balanced(evs []c32Ev) string {
	var stack []uint64
	for i, e := range evs {
		if e.id == 0 {
			return fmt.Sprintf("callback path does not continue the open steps at event %d", i)
		}
		if e.push {
			if e.depth != len(stack)+1 {
				return fmt.Sprintf("push depth at event %d", i)
			}
			if len(stack) > 0 && e.parent != stack[len(stack)-1] {
				return fmt.Sprintf("push not under open step at event %d", i)
			}
			stack = append(stack, e.id)
		} else {
			if len(stack) == 0 || stack[len(stack)-1] != e.id {
				return fmt.Sprintf("pop does not match open step at event %d", i)
			}
			stack = stack[:len(stack)-1]
		}
	}
	if len(stack) != 0 {
		return "unclosed steps"
	}
	return ""
}

func evStrings(evs []c32Ev) []string {
	var out []string
	for i, e := range evs {
		if i >= 60 {
			out = append(out, fmt.Sprintf("... %d more", len(evs)-i))
			break
		}
		out = append(out, e.String())
	}
	return out
}

func c32One(c *core.Ctx, r *core.Rand, m protoreflect.Message) {
	name := string(m.Descriptor().FullName())
	enc, _ := detBytes(m)
	det := func() map[string]any {
		return map[string]any{"type": name, "det_bytes": core.Hex(enc)}
	}
	c.Log("C32 type=%s wire=%x", name, enc)
	ref := &c32Ref{res: nil2global(), count: c.Count}
	ref.push(protopath.Root(m.Descriptor()))
	ref.message(m)
	ref.pop()
	full := ref.evs
	nontrivial := len(full) > 2

	// 1. plain stable traversal
	c.Eval()
	c.Count("ranges")
	got, err, ok := c32Record(c, m, true, -1, nil, name, det)
	if !ok {
		return
	}
	c.CountN("events", int64(len(got)))
	if nontrivial {
		c.DistinctBytes([]byte(name), enc, []byte("plain"))
	}
	if err != nil {
		d := det()
		d["err"] = errStr(err)
		c.Violation("range:error:"+name, d)
		return
	}
	if why := c32Balanced(got); why != "" {
		d := det()
		d["why"], d["events"] = why, evStrings(got)
		c.Violation("range:unbalanced:"+name, d)
		return
	}
	if len(got) != len(full) {
		d := det()
		d["events"], d["reference"] = evStrings(got), evStrings(full)
		c.Violation("range:traversal-differs:"+name, d)
		return
	}
	for i := range got {
		if !got[i].same(full[i]) || got[i].path != full[i].path {
			d := det()
			d["at"], d["got"], d["want"] = i, got[i].String(), full[i].String()
			c.Violation("range:traversal-differs:"+name, d)
			return
		}
	}
	if c.WantSample() && len(full) > 8 && len(full) < 40 {
		c.Sample(map[string]any{"type": name, "det_bytes": core.Hex(enc), "events": evStrings(full)})
	}
	// 2. unstable order: balanced, same multiset of visited paths
	c.Eval()
	c.Count("unstable_ranges")
	un, err, ok := c32Record(c, m, false, -1, nil, name, det)
	if ok {
		a, b := evStrings2(un), evStrings2(full)
		sort.Strings(a)
		sort.Strings(b)
		if err != nil || c32Balanced(un) != "" || strings.Join(a, "\n") != strings.Join(b, "\n") {
			d := det()
			d["err"] = errStr(err)
			c.Violation("range:unstable-order-visits-differ:"+name, d)
		}
	}
	// 3. Break / Terminate at every position
	pos := make([]int, 0, len(full))
	for i := range full {
		pos = append(pos, i)
	}
	if maxPos := c.Scale(40, 120); len(pos) > maxPos {
		perm := r.Perm(len(pos))
		pos = perm[:maxPos]
	}
	for _, i := range pos {
		c32Inject(c, m, full, i, true, name, det)
		c32Inject(c, m, full, i, false, name, det)
	}
	if nontrivial {
		c.DistinctBytes([]byte(name), enc, []byte("break"))
		c.DistinctBytes([]byte(name), enc, []byte("terminate"))
	}
}

func evStrings2(evs []c32Ev) []string {
	out := make([]string, len(evs))
	for i, e := range evs {
		out[i] = e.String()
	}
	return out
}

// c32Inject returns Break or Terminate from the i-th callback and checks the rest of the traversal.
func c32Inject(c *core.Ctx, m protoreflect.Message, full []c32Ev, i int, isBreak bool, name string, det func() map[string]any) {
	c.Eval()
	kind, ierr := "terminate", protorange.Terminate
	if isBreak {
		kind, ierr = "break", protorange.Break
		c.Count("break_injections")
	} else {
		c.Count("terminate_injections")
	}
	got, err, ok := c32Record(c, m, true, i, ierr, name, det)
	if !ok {
		return
	}
	fail := func(why string) {
		d := det()
		at := "pop"
		if full[i].push {
			at = "push"
		}
		d["inject_at"], d["inject_event"], d["why"], d["events"] = i, full[i].String(), why, evStrings(got)
		c.Violation("range:"+kind+"-at-"+at+":"+why+":"+name, d)
	}
	if err != nil {
		fail("Range-returned-error")
		return
	}
	if why := c32Balanced(got); why != "" {
		fail("unbalanced")
		return
	}
	if len(got) <= i {
		fail("stopped-before-injection")
		return
	}
	for k := 0; k <= i; k++ {
		if !got[k].same(full[k]) {
			fail("prefix-differs")
			return
		}
	}
	rest := got[i+1:]
	if !isBreak {
		// Terminate: only the pops of the steps still open, innermost first
		var open []c32Ev
		for k := 0; k <= i; k++ {
			if full[k].push {
				open = append(open, full[k])
			} else {
				open = open[:len(open)-1]
			}
		}
		if len(rest) != len(open) {
			fail("not-exactly-the-open-pops")
			return
		}
		for k, e := range rest {
			w := open[len(open)-1-k]
			if e.push || e.id != w.id {
				fail("not-exactly-the-open-pops")
				return
			}
		}
		return
	}
	// Break at event i of value X (depth d): required = everything that is neither inside X
	// nor a later sibling of X in the same container; later siblings are optional (not judged:
	// upstream's tests fix loop-break semantics, the documentation says children only).
	x := full[i]
	// end of X
	endX := i
	if x.push {
		for k := i + 1; k < len(full); k++ {
			if !full[k].push && full[k].depth == x.depth && full[k].id == x.id {
				endX = k
				break
			}
		}
		if endX > i+1 {
			c.Count("break_skipped_subtree")
		}
	}
	// end of the container of X: the pop of the enclosing step
	endParent := len(full)
	for k := endX + 1; k < len(full); k++ {
		if !full[k].push && full[k].depth == x.depth-1 {
			endParent = k
			break
		}
	}
	var required []c32Ev
	optional := map[c32Key]bool{}
	if x.push {
		required = append(required, full[endX]) // the pop of X itself
	}
	for k := endX + 1; k < len(full); k++ {
		if k < endParent {
			optional[full[k].key()] = true
			continue
		}
		required = append(required, full[k])
	}
	// rest must contain required as a subsequence, and nothing besides required and optional events
	ri := 0
	for _, e := range rest {
		if ri < len(required) && e.same(required[ri]) {
			ri++
			continue
		}
		if !optional[e.key()] {
			if x.push && e.depth > x.depth && ri == 0 {
				fail("visited-inside-broken-subtree")
			} else {
				fail("unexpected-event-after-break")
			}
			return
		}
	}
	if ri != len(required) {
		fail("skipped-values-outside-the-broken-subtree")
	}
}

func runC32(c *core.Ctx, b core.Batch) {
	types := shard(codecTypes(b), b.N, 16)
	per := c.Scale(4, 100)
	for ti, mt := range types {
		for k := 0; k < per; k++ {
			r := c.Rng(uint64(ti)<<20 | uint64(k))
			m := newOf(mt, k%3 == 2)
			fo := fillOptsFor(k)
			fo.Unknown = gen.KeepsUnknown(m)
			if fo.BigLists {
				fo.BigLists = false
			}
			gen.Fill(r, m, fo)
			c32One(c, r, m)
		}
	}
	// Any bodies: resolvable, unresolvable URL, undecodable value
	if b.N == 0 {
		anyT := gen.TypeByName("goproto.proto.test.TestAllTypes")
		for k := 0; k < c.Scale(60, 600); k++ {
			r := c.Rng(uint64(k) | 1<<44)
			inner := anyT.New()
			gen.Fill(r, inner, gen.MsgOpts{Density: 20, Unknown: true})
			a, err := anypb.New(inner.Interface())
			if err != nil {
				continue
			}
			switch k % 3 {
			case 1:
				a.TypeUrl = "type.googleapis.com/no.such.Type"
			case 2:
				a.Value = append(a.Value, 0x0f) // invalid wire type: cannot be decoded
			}
			c32One(c, r, a.ProtoReflect())
		}
	}
}
