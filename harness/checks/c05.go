package checks

import (
	"bytes"
	"fmt"

	"google.golang.org/protobuf/proto"
	"google.golang.org/protobuf/reflect/protoreflect"
	"google.golang.org/protobuf/verif/core"
	"google.golang.org/protobuf/verif/gen"
)

func init() {
	core.Register(&core.Check{
		ID:     "C05",
		Rule:   "cases: PRNG-filled messages (map- and extension-heavy profiles) of every linked type; each content is marshalled deterministically from: the original (twice), a Clone, a rebuild with permuted field-assignment and map-insertion order, a lazy and an eager decode, a dynamicpb transfer, and in 3 separate worker processes (digests joined offline); converse: any two messages of one case with identical deterministic bytes must be Equal and snapshot-equal; distinct = distinct (type, deterministic encoding); non-trivial = at least one populated field",
		Assume: []string{"snapshot model equality", "FNV-64 digests do not collide on the joined records"},
		Batches: func(tier string) []core.Batch {
			bs := stdBatches([]string{"base"}, 16)
			for i := 0; i < 3; i++ {
				bs = append(bs, core.Batch{Cfg: "base", Name: fmt.Sprintf("proc-%d", i), Kind: "proc", N: i, Env: map[string]string{"GOMAXPROCS": fmt.Sprint(1 << (2 * i))}})
			}
			return bs
		},
		Gates: func(tier string) map[string]int64 {
			return map[string]int64{"det_compares": 5000, "maps_multi": 100, "ext_multi": 20, "xproc_joined": 500, "converse_pairs": 5000}
		},
		Run:  runC05,
		Post: postC05,
	})
}

// rebuild copies content into a fresh message assigning fields and map
// entries in a permuted order.
func rebuild(r *core.Rand, src protoreflect.Message, dst protoreflect.Message) {
	type fv struct {
		fd protoreflect.FieldDescriptor
		v  protoreflect.Value
	}
	var fs []fv
	src.Range(func(fd protoreflect.FieldDescriptor, v protoreflect.Value) bool {
		fs = append(fs, fv{fd, v})
		return true
	})
	for _, i := range r.Perm(len(fs)) {
		fd, v := fs[i].fd, fs[i].v
		switch {
		case fd.IsMap():
			type kv struct {
				k protoreflect.MapKey
				v protoreflect.Value
			}
			var es []kv
			v.Map().Range(func(k protoreflect.MapKey, v protoreflect.Value) bool { es = append(es, kv{k, v}); return true })
			dm := dst.Mutable(fd).Map()
			for _, j := range r.Perm(len(es)) {
				if fd.MapValue().Message() != nil {
					nv := dm.NewValue()
					rebuild(r, es[j].v.Message(), nv.Message())
					dm.Set(es[j].k, nv)
				} else {
					dm.Set(es[j].k, es[j].v)
				}
			}
		case fd.IsList():
			dl := dst.Mutable(fd).List()
			sl := v.List()
			for j := 0; j < sl.Len(); j++ {
				if fd.Message() != nil {
					nv := dl.NewElement()
					rebuild(r, sl.Get(j).Message(), nv.Message())
					dl.Append(nv)
				} else {
					dl.Append(sl.Get(j))
				}
			}
		case fd.Message() != nil:
			nv := dst.NewField(fd)
			rebuild(r, v.Message(), nv.Message())
			dst.Set(fd, nv)
		default:
			dst.Set(fd, v)
		}
	}
	if u := src.GetUnknown(); len(u) > 0 {
		dst.SetUnknown(append(protoreflect.RawFields(nil), u...))
	}
}

func c05Fill(k int) gen.MsgOpts {
	o := fillOptsFor(k)
	o.Unknown = false // "valid" content: unknown fields that the schema does not know are still fine but order is input-defined
	if k%2 == 0 {
		o.Density = 70
	}
	return o
}

func runC05(c *core.Ctx, b core.Batch) {
	all := codecTypes(b)
	if b.Kind == "proc" {
		// identical case list in every process: seed-derived only
		per := c.Scale(2, 12)
		for ti, mt := range all {
			for k := 0; k < per; k++ {
				r := core.NewRand(c.Seed, 0xC05, uint64(ti), uint64(k))
				m := mt.New()
				gen.Fill(r, m, c05Fill(k))
				enc, err := detBytes(m)
				if err != nil {
					continue
				}
				c.Eval()
				c.Emit(fmt.Sprintf("%d/%d", ti, k), fmt.Sprintf("%016x %d", core.HashBytes(enc), len(enc)))
			}
		}
		return
	}
	types := shard(all, b.N, 16)
	per := c.Scale(16, 200)
	for ti, mt := range types {
		name := string(mt.Descriptor().FullName())
		for k := 0; k < per; k++ {
			r := c.Rng(uint64(ti)<<24 | uint64(k))
			dyn := k%5 == 4
			m := newOf(mt, dyn)
			gen.Fill(r, m, c05Fill(k))
			// coverage: multi-entry maps and >=2 extensions
			m.Range(func(fd protoreflect.FieldDescriptor, v protoreflect.Value) bool {
				if fd.IsMap() && v.Map().Len() >= 2 {
					c.Count("maps_multi")
					c.Count("mapkey:" + fd.MapKey().Kind().String())
				}
				return true
			})
			nx := 0
			m.Range(func(fd protoreflect.FieldDescriptor, v protoreflect.Value) bool {
				if fd.IsExtension() {
					nx++
				}
				return true
			})
			if nx >= 2 {
				c.Count("ext_multi")
			}
			ref, err := detBytes(m)
			if err != nil {
				c.Violation("det:marshal-error:"+name, map[string]any{"err": errStr(err)})
				continue
			}
			if snapOf(m).NumPopulated() > 0 {
				c.DistinctBytes([]byte(name), ref)
			}
			if c.WantSample() && len(ref) > 8 {
				c.Sample(map[string]any{"type": name, "det_bytes": core.Hex(ref)})
			}
			variants := map[string]protoreflect.Message{}
			variants["same-again"] = m
			variants["clone"] = proto.Clone(m.Interface()).ProtoReflect()
			rb := newOf(mt, dyn)
			rebuild(r, m, rb)
			variants["rebuild-permuted"] = rb
			rb2 := newOf(mt, !dyn)
			rebuild(r, m, rb2)
			variants["rebuild-other-impl"] = rb2
			for _, nolazy := range []bool{false, true} {
				d := mt.New()
				if err := (proto.UnmarshalOptions{NoLazyDecoding: nolazy, AllowPartial: true}).Unmarshal(ref, d.Interface()); err != nil {
					c.Violation("det:redecode-error:"+name, map[string]any{"err": errStr(err), "wire": core.Hex(ref)})
					continue
				}
				variants[fmt.Sprintf("decode-nolazy=%v", nolazy)] = d
			}
			// default (non-deterministic) marshal output decoded again
			if nd, err := (proto.MarshalOptions{AllowPartial: true}).Marshal(m.Interface()); err == nil {
				d := mt.New()
				if (proto.UnmarshalOptions{AllowPartial: true}).Unmarshal(nd, d.Interface()) == nil {
					variants["decode-of-default-marshal"] = d
				}
			}
			encs := map[string][]byte{}
			for vn, vm := range variants {
				c.Eval()
				c.Count("det_compares")
				enc, err := detBytes(vm)
				if err != nil {
					c.Violation("det:variant-marshal-error:"+vn+":"+name, map[string]any{"err": errStr(err)})
					continue
				}
				encs[vn] = enc
				if !bytes.Equal(enc, ref) {
					c.Violation("det:differs:"+vn+":"+name, map[string]any{"ref": core.Hex(ref), "got": core.Hex(enc), "snapshot": clip(snapOf(m).String(), 1500)})
				}
			}
			// converse: identical deterministic bytes => Equal (and same snapshot)
			want := snapOf(m).String()
			for vn, vm := range variants {
				if !bytes.Equal(encs[vn], ref) {
					continue
				}
				c.Count("converse_pairs")
				if !proto.Equal(m.Interface(), vm.Interface()) {
					c.Violation("det:same-bytes-not-equal:"+vn+":"+name, map[string]any{"bytes": core.Hex(ref), "a": clip(want, 1200), "b": clip(snapOf(vm).String(), 1200)})
				} else if s := snapOf(vm).String(); s != want {
					c.Violation("det:same-bytes-snapshot-differs:"+vn+":"+firstDiff(snapOf(m), snapOf(vm)), map[string]any{"bytes": core.Hex(ref), "a": clip(want, 1200), "b": clip(s, 1200)})
				}
			}
		}
	}
}

func postC05(p *core.PostCtx) {
	// join the per-process digests by case id
	byCase := map[string]map[string]string{}
	for batch, recs := range p.Records {
		for _, r := range recs {
			if byCase[r.Key] == nil {
				byCase[r.Key] = map[string]string{}
			}
			byCase[r.Key][batch] = r.Val
		}
	}
	for k, m := range byCase {
		if len(m) < 3 {
			continue
		}
		p.Count("xproc_joined", 1)
		p.Evals++
		var first string
		for _, v := range m {
			if first == "" {
				first = v
			} else if v != first {
				p.Violation("det:cross-process-differs", map[string]any{"case": k, "digests": m})
			}
		}
	}
}
