package checks

import (
	"fmt"
	"google.golang.org/protobuf/reflect/protodesc"
	"google.golang.org/protobuf/types/descriptorpb"
	"google.golang.org/protobuf/types/dynamicpb"
	"strings"

	"google.golang.org/protobuf/encoding/protojson"
	"google.golang.org/protobuf/encoding/prototext"
	"google.golang.org/protobuf/proto"
	"google.golang.org/protobuf/reflect/protoreflect"
	"google.golang.org/protobuf/verif/core"
	"google.golang.org/protobuf/verif/gen"
	"google.golang.org/protobuf/verif/model"
)

func init() {
	core.Register(&core.Check{
		ID:      "C12",
		Rule:    "cases: (oneof positions) 48 dynamic message types with 0..3 plain fields before a oneof of 2..5 members of every member kind, 0..2 plain fields and a second oneof after it, driven through the same histories; every real oneof of every linked type (open/hybrid/opaque/legacy/dynamicpb) x PRNG histories (<= 8 steps) of: reflection Set/Mutable/Clear of a member, generated SetX/ClearX, Merge from a message holding another member, merge-decoding wire data with 1-3 members (last wins; same message member merges); after every step at most one member is populated, WhichOneof names it and its value equals the model's; plus JSON and text documents naming two members of one oneof (built by splicing two single-member documents) must be rejected while each single-member document is accepted; distinct = distinct (type, oneof, history); non-trivial = >= 2 member-changing steps",
		Assume:  []string{"msgmodel oneof semantics (set clears siblings; decode: last member on the wire wins)"},
		Batches: func(tier string) []core.Batch { return stdBatches([]string{"base"}, 8) },
		Gates: func(tier string) map[string]int64 {
			return map[string]int64{"histories": 2000, "step:decode": 500, "step:merge": 500, "step:generated-set": 100, "json_two_members": 300, "text_two_members": 300, "member_kind:message": 100, "member_kind:bytes": 20, "member_kind:enum": 20, "oneof_position_shapes": 48, "oneof_position_histories": 1200}
		},
		Run: runC12,
	})
}

// c12Shapes builds dynamic message types whose oneofs sit at every position:
// L leading plain fields, a oneof of M members, T plain fields, a second oneof.
func c12Shapes() ([]protoreflect.MessageType, error) {
	opt := descriptorpb.FieldDescriptorProto_LABEL_OPTIONAL.Enum()
	fdp := &descriptorpb.FileDescriptorProto{Name: proto.String("verifc12/shapes.proto"), Package: proto.String("verifc12"), Syntax: proto.String("proto2"),
		EnumType: []*descriptorpb.EnumDescriptorProto{{Name: proto.String("Kind"), Value: []*descriptorpb.EnumValueDescriptorProto{{Name: proto.String("K0"), Number: proto.Int32(0)}, {Name: proto.String("K1"), Number: proto.Int32(1)}}}}}
	kinds := []descriptorpb.FieldDescriptorProto_Type{descriptorpb.FieldDescriptorProto_TYPE_STRING, descriptorpb.FieldDescriptorProto_TYPE_BYTES, descriptorpb.FieldDescriptorProto_TYPE_MESSAGE, descriptorpb.FieldDescriptorProto_TYPE_ENUM, descriptorpb.FieldDescriptorProto_TYPE_SINT64, descriptorpb.FieldDescriptorProto_TYPE_BOOL}
	for l := 0; l <= 3; l++ {
		for m := 2; m <= 5; m++ {
			for t := 0; t <= 2; t++ {
				name := fmt.Sprintf("S%d_%d_%d", l, m, t)
				md := &descriptorpb.DescriptorProto{Name: proto.String(name), OneofDecl: []*descriptorpb.OneofDescriptorProto{{Name: proto.String("payload")}, {Name: proto.String("tail")}}}
				num := int32(1)
				add := func(prefix string, typ descriptorpb.FieldDescriptorProto_Type, oneof int) {
					f := &descriptorpb.FieldDescriptorProto{Name: proto.String(fmt.Sprintf("%s%d", prefix, num)), Number: proto.Int32(num), Label: opt, Type: typ.Enum(), JsonName: proto.String(fmt.Sprintf("%s%d", prefix, num))}
					switch typ {
					case descriptorpb.FieldDescriptorProto_TYPE_MESSAGE:
						f.TypeName = proto.String(".verifc12." + name)
					case descriptorpb.FieldDescriptorProto_TYPE_ENUM:
						f.TypeName = proto.String(".verifc12.Kind")
					}
					if oneof >= 0 {
						f.OneofIndex = proto.Int32(int32(oneof))
					}
					md.Field = append(md.Field, f)
					num++
				}
				for i := 0; i < l; i++ {
					add("lead", descriptorpb.FieldDescriptorProto_TYPE_INT32, -1)
				}
				for i := 0; i < m; i++ {
					add("mem", kinds[(i+l)%len(kinds)], 0)
				}
				for i := 0; i < t; i++ {
					add("mid", descriptorpb.FieldDescriptorProto_TYPE_STRING, -1)
				}
				add("tl", descriptorpb.FieldDescriptorProto_TYPE_INT32, 1)
				add("tl", descriptorpb.FieldDescriptorProto_TYPE_MESSAGE, 1)
				fdp.MessageType = append(fdp.MessageType, md)
			}
		}
	}
	fd, err := protodesc.NewFile(fdp, nil)
	if err != nil {
		return nil, err
	}
	var out []protoreflect.MessageType
	for i := 0; i < fd.Messages().Len(); i++ {
		out = append(out, dynamicpb.NewMessageType(fd.Messages().Get(i)))
	}
	return out, nil
}

func runC12(c *core.Ctx, b core.Batch) {
	if b.Cfg == "base" && b.N == 0 {
		shapes, err := c12Shapes()
		if err != nil {
			c.Violation("harness:oneof-shape-schema-invalid", map[string]any{"err": errStr(err)})
		}
		for si, mt := range shapes {
			c.Count("oneof_position_shapes")
			ods := mt.Descriptor().Oneofs()
			for oi := 0; oi < ods.Len(); oi++ {
				for k := 0; k < c.Scale(40, 600); k++ {
					r := c.Rng(uint64(0x12a)<<40 | uint64(si)<<24 | uint64(oi)<<16 | uint64(k))
					c12History(c, r, mt, ods.Get(oi), false)
					c.Count("oneof_position_histories")
					if k%3 == 0 {
						c12TwoMembers(c, r, mt, ods.Get(oi), false)
					}
				}
			}
		}
	}
	var types []protoreflect.MessageType
	for _, mt := range codecTypes(b) {
		ods := mt.Descriptor().Oneofs()
		for i := 0; i < ods.Len(); i++ {
			if !ods.Get(i).IsSynthetic() {
				types = append(types, mt)
				break
			}
		}
	}
	types = shard(types, b.N, 8)
	per := c.Scale(300, 3000)
	for ti, mt := range types {
		ods := mt.Descriptor().Oneofs()
		for oi := 0; oi < ods.Len(); oi++ {
			od := ods.Get(oi)
			if od.IsSynthetic() {
				continue
			}
			for k := 0; k < per; k++ {
				r := c.Rng(uint64(ti)<<32 | uint64(oi)<<16 | uint64(k))
				c12History(c, r, mt, od, k%4 == 3)
				if k%3 == 0 {
					c12TwoMembers(c, r, mt, od, k%2 == 1)
				}
			}
		}
	}
}

func c12Value(r *core.Rand, m protoreflect.Message, fd protoreflect.FieldDescriptor, fo gen.MsgOpts) protoreflect.Value {
	if fd.Message() != nil {
		v := m.NewField(fd)
		gen.Fill(r.Fork(5), v.Message(), fo)
		return v
	}
	return gen.RandScalar(r, fd, fo)
}

func c12History(c *core.Ctx, r *core.Rand, mt protoreflect.MessageType, od protoreflect.OneofDescriptor, dyn bool) {
	m := newOf(mt, dyn)
	mod := model.NewSnap(mt.Descriptor())
	name := string(mt.Descriptor().FullName())
	fo := gen.MsgOpts{MaxDepth: 1, Density: 30, NoRequired: true, AnyUTF8: true}
	var log []string
	c.Eval()
	c.Count("histories")
	members := od.Fields()
	changes := 0
	bad := func(what string, extra ...any) {
		d := map[string]any{"type": name, "oneof": string(od.Name()), "ops": append([]string{}, log...), "dynamic": dyn, "model": clip(mod.String(), 600), "real": clip(snapOf(m).String(), 600)}
		for i := 0; i+1 < len(extra); i += 2 {
			d[fmt.Sprint(extra[i])] = extra[i+1]
		}
		c.Violation(fmt.Sprintf("oneof:%s:%s:dyn=%v", what, od.FullName(), dyn), d)
	}
	n := 2 + r.Intn(7)
	for i := 0; i < n; i++ {
		fd := members.Get(r.Intn(members.Len()))
		c.Count("member_kind:" + fd.Kind().String())
		c.Log("C12 type=%s oneof=%s dyn=%v ops=%v", name, od.Name(), dyn, log)
		ok := c.NoPanic("oneof:panic:"+name, map[string]any{"ops": log, "oneof": string(od.Name())}, func() {
			switch op := r.Intn(7); op {
			case 0, 1:
				v := c12Value(r, m, fd, fo)
				if !dyn && r.Bool() && genSet(m, fd, v) {
					log = append(log, "generated-Set "+string(fd.Name()))
					c.Count("step:generated-set")
				} else {
					log = append(log, "set "+string(fd.Name()))
					m.Set(fd, v)
				}
				if fd.Message() != nil {
					mod.SetMessage(fd, snapOf(v.Message()))
				} else {
					mod.SetScalar(fd, v)
				}
				changes++
			case 2:
				if fd.Message() == nil {
					return
				}
				log = append(log, "mutable "+string(fd.Name()))
				m.Mutable(fd)
				mod.MutableMessage(fd)
				changes++
			case 3:
				if !dyn && r.Bool() && genClear(m, fd) {
					log = append(log, "generated-Clear "+string(fd.Name()))
				} else {
					log = append(log, "clear "+string(fd.Name()))
					m.Clear(fd)
				}
				mod.Clear(fd)
			case 4: // Merge from a message holding fd
				src := newOf(mt, dyn && r.Bool())
				src.Set(fd, c12Value(r, src, fd, fo))
				log = append(log, "merge-from{"+string(fd.Name())+"}")
				c.Count("step:merge")
				want := model.MergeSnap(mod, snapOf(src))
				proto.Merge(m.Interface(), src.Interface())
				*mod = *want
				changes++
			case 5, 6: // merge-decode wire with 1..3 members
				var wire []byte
				var names []string
				wantMod := model.CloneSnap(mod)
				for j := 0; j < 1+r.Intn(3); j++ {
					f2 := members.Get(r.Intn(members.Len()))
					one := newOf(mt, true)
					one.Set(f2, c12Value(r, one, f2, fo))
					enc, err := proto.MarshalOptions{AllowPartial: true}.Marshal(one.Interface())
					if err != nil {
						return
					}
					wire = append(wire, enc...)
					names = append(names, string(f2.Name()))
					wantMod = model.MergeSnap(wantMod, snapOf(one))
				}
				log = append(log, fmt.Sprintf("merge-decode%v %x", names, wire))
				c.Count("step:decode")
				if err := (proto.UnmarshalOptions{Merge: true, AllowPartial: true}).Unmarshal(wire, m.Interface()); err != nil {
					bad("decode-error", "err", errStr(err))
					return
				}
				*mod = *wantMod
				changes++
			}
			// invariants after every step
			cnt := 0
			for j := 0; j < members.Len(); j++ {
				if m.Has(members.Get(j)) {
					cnt++
				}
			}
			var wn protoreflect.FieldNumber
			if w := m.WhichOneof(od); w != nil {
				wn = w.Number()
			}
			if cnt > 1 {
				bad("several-members-populated", "count", cnt)
			}
			if mw := mod.WhichOneof(od); wn != mw {
				bad("which", "which", wn, "model_which", mw)
			} else if got, want := snapOf(m).String(), mod.String(); got != want {
				bad("value:" + firstDiff(mod, snapOf(m)))
			}
		})
		if !ok {
			return
		}
	}
	if changes >= 2 {
		c.DistinctStr(name + "|" + string(od.Name()) + "|" + strings.Join(log, ";"))
	}
	if c.WantSample() && len(log) > 3 {
		c.Sample(map[string]any{"type": name, "oneof": string(od.Name()), "dynamic": dyn, "history": log})
	}
}

// c12TwoMembers: JSON and text documents naming two members must be rejected.
func c12TwoMembers(c *core.Ctx, r *core.Rand, mt protoreflect.MessageType, od protoreflect.OneofDescriptor, dyn bool) {
	members := od.Fields()
	if members.Len() < 2 {
		return
	}
	name := string(mt.Descriptor().FullName())
	i := r.Intn(members.Len())
	j := (i + 1 + r.Intn(members.Len()-1)) % members.Len()
	fo := gen.MsgOpts{MaxDepth: 1, Density: 30, JSONSafe: true, OnlyDeclaredEnums: true}
	one := func(fd protoreflect.FieldDescriptor) protoreflect.Message {
		m := newOf(mt, dyn)
		m.Set(fd, c12Value(r, m, fd, fo))
		return m
	}
	a, b := one(members.Get(i)), one(members.Get(j))
	detail := map[string]any{"type": name, "oneof": string(od.Name()), "members": []string{string(members.Get(i).Name()), string(members.Get(j).Name())}, "dynamic": dyn}
	// JSON
	ja, e1 := protojson.MarshalOptions{AllowPartial: true, UseProtoNames: r.Bool()}.Marshal(a.Interface())
	jb, e2 := protojson.MarshalOptions{AllowPartial: true, UseProtoNames: r.Bool()}.Marshal(b.Interface())
	if e1 == nil && e2 == nil {
		sa, sb := strings.TrimSpace(string(ja)), strings.TrimSpace(string(jb))
		// a member printed as JSON null does not name the member
		if len(sa) > 2 && len(sb) > 2 && !strings.HasSuffix(strings.TrimSpace(sa[:len(sa)-1]), "null") && !strings.HasSuffix(strings.TrimSpace(sb[:len(sb)-1]), "null") {
			doc := sa[:len(sa)-1] + "," + sb[1:]
			c.Eval()
			c.Count("json_two_members")
			if err := (protojson.UnmarshalOptions{AllowPartial: true}).Unmarshal([]byte(sa), newOf(mt, dyn).Interface()); err != nil {
				c.Count("json_single_member_rejected")
			} else if err := (protojson.UnmarshalOptions{AllowPartial: true}).Unmarshal([]byte(doc), newOf(mt, dyn).Interface()); err == nil {
				detail["json"] = clip(doc, 600)
				c.Violation(fmt.Sprintf("oneof:json-accepts-two-members:%s:dyn=%v", od.FullName(), dyn), detail)
			}
		}
	}
	// text
	ta, e1 := prototext.MarshalOptions{AllowPartial: true}.Marshal(a.Interface())
	tb, e2 := prototext.MarshalOptions{AllowPartial: true}.Marshal(b.Interface())
	if e1 == nil && e2 == nil && len(ta) > 0 && len(tb) > 0 {
		doc := string(ta) + "\n" + string(tb)
		c.Eval()
		c.Count("text_two_members")
		if err := (prototext.UnmarshalOptions{AllowPartial: true}).Unmarshal(ta, newOf(mt, dyn).Interface()); err != nil {
			c.Count("text_single_member_rejected")
		} else if err := (prototext.UnmarshalOptions{AllowPartial: true}).Unmarshal([]byte(doc), newOf(mt, dyn).Interface()); err == nil {
			detail["text"] = clip(doc, 600)
			c.Violation(fmt.Sprintf("oneof:text-accepts-two-members:%s:dyn=%v", od.FullName(), dyn), detail)
		}
	}
}
