package checks

import (
	"fmt"
	"math"

	"google.golang.org/protobuf/proto"
	"google.golang.org/protobuf/reflect/protodesc"
	"google.golang.org/protobuf/reflect/protoreflect"
	"google.golang.org/protobuf/reflect/protoregistry"
	"google.golang.org/protobuf/types/descriptorpb"
	"google.golang.org/protobuf/verif/core"
	"google.golang.org/protobuf/verif/gen"
)

func init() {
	core.Register(&core.Check{
		ID:     "C35",
		Rule:   "cases: PRNG-generated valid multi-file schemas (base, accepted) and, for each file, (a) reflection-driven random edits of the FileDescriptorProto (any field of any nested descriptor message set to a random / boundary / type-confused value, elements duplicated, removed, reordered or swapped between lists, indices made negative or out of range, names emptied or made non-identifiers, options flipped) - NewFile must return without panicking under both AllowUnresolvable settings; (b) one targeted injection per class of definite schema error (90 injectors, each clause for every kind of declaration it applies to - messages and enums, fields and extensions, map key and map value: duplicate names/numbers, invalid/overlapping ranges, reserved names/numbers, field in extension range, malformed map entries and groups, empty/non-consecutive oneofs, proto3-forbidden constructs, unresolvable references, packed/enum/presence/default combinations, bad indices and names) - NewFile must reject while the untouched base is accepted; distinct = distinct mutated protos; non-trivial = every case (all differ from the base)",
		Assume: []string{"each injector's precondition scan guarantees that the injected construct is one of the property's definite errors (injectors that find no applicable site are skipped and counted)"},
		Batches: func(tier string) []core.Batch {
			var bs []core.Batch
			for i := 0; i < 12; i++ {
				bs = append(bs, core.Batch{Cfg: "base", Name: fmt.Sprintf("gen-%02d", i), Kind: "gen", N: i})
			}
			return bs
		},
		Gates: func(tier string) map[string]int64 {
			return map[string]int64{"bases_accepted": 300, "random_edits": 20000, "random_edit_rejected": 3000, "random_edit_accepted": 1000, "injections": 5000, "inj:duplicate-field-number": 50, "inj:non-consecutive-oneof": 50, "inj:map-entry-three-fields": 20, "inj:unresolvable-field-type": 50, "inj:group-in-proto3": 10, "inj:field-number-in-extension-range": 20}
		},
		Run: runC35,
	})
}

// randEdit applies one random structural edit somewhere in the message tree.
func randEdit(r *core.Rand, m protoreflect.Message, depth int) bool {
	fds := m.Descriptor().Fields()
	// collect populated message-valued children to descend into
	type child struct{ m protoreflect.Message }
	var kids []child
	m.Range(func(fd protoreflect.FieldDescriptor, v protoreflect.Value) bool {
		if fd.Message() == nil || fd.IsMap() {
			return true
		}
		if fd.IsList() {
			for i := 0; i < v.List().Len(); i++ {
				kids = append(kids, child{v.List().Get(i).Message()})
			}
		} else {
			kids = append(kids, child{v.Message()})
		}
		return true
	})
	if len(kids) > 0 && depth < 8 && r.Chance(3, 4) {
		return randEdit(r, kids[r.Intn(len(kids))].m, depth+1)
	}
	fd := fds.Get(r.Intn(fds.Len()))
	if fd.IsMap() {
		return false
	}
	scalar := func() protoreflect.Value {
		switch fd.Kind() {
		case protoreflect.BoolKind:
			return protoreflect.ValueOfBool(r.Bool())
		case protoreflect.EnumKind:
			if r.Bool() {
				vs := fd.Enum().Values()
				return protoreflect.ValueOfEnum(vs.Get(r.Intn(vs.Len())).Number())
			}
			return protoreflect.ValueOfEnum(protoreflect.EnumNumber([]int32{-1, 0, 19, 99, math.MaxInt32, math.MinInt32}[r.Intn(6)]))
		case protoreflect.Int32Kind:
			return protoreflect.ValueOfInt32([]int32{0, -1, 1, 2, 3, 19000, 19999, 536870911, 536870912, math.MaxInt32, math.MinInt32, int32(r.Intn(10)), -int32(r.Intn(5))}[r.Intn(13)])
		case protoreflect.Int64Kind:
			return protoreflect.ValueOfInt64(int64(r.Uint64Boundary()))
		case protoreflect.Uint64Kind:
			return protoreflect.ValueOfUint64(r.Uint64Boundary())
		case protoreflect.DoubleKind:
			return protoreflect.ValueOfFloat64(gen.RandFloat64(r, gen.MsgOpts{}))
		case protoreflect.StringKind:
			pool := []string{"", ".", "..", "a", ".a", "a.", "a..b", "1a", "a-b", "é", "\xff", "M1", ".M1", "key", "value", "proto2", "proto3", "editions", "proto4", "google/protobuf/descriptor.proto", ".google.protobuf.FileOptions", "nan", "inf", "-inf", "1e999", "true", "TRUE", "\\", "\\x", "\\400", "0x10", "9223372036854775808", "-1", "a b", "_", "A", "FooEntry", "f1", "F1"}
			return protoreflect.ValueOfString(pool[r.Intn(len(pool))])
		case protoreflect.BytesKind:
			return protoreflect.ValueOfBytes(r.Bytes(r.Intn(5)))
		}
		return protoreflect.Value{}
	}
	switch {
	case fd.IsList():
		l := m.Mutable(fd).List()
		switch r.Intn(6) {
		case 0: // remove one
			if l.Len() == 0 {
				return false
			}
			i := r.Intn(l.Len())
			var keep []protoreflect.Value
			for j := 0; j < l.Len(); j++ {
				if j != i {
					keep = append(keep, l.Get(j))
				}
			}
			l.Truncate(0)
			for _, v := range keep {
				l.Append(v)
			}
		case 1: // duplicate one
			if l.Len() == 0 {
				return false
			}
			v := l.Get(r.Intn(l.Len()))
			if fd.Message() != nil {
				v = protoreflect.ValueOfMessage(proto.Clone(v.Message().Interface()).ProtoReflect())
			}
			l.Append(v)
		case 2: // swap two
			if l.Len() < 2 {
				return false
			}
			i, j := r.Intn(l.Len()), r.Intn(l.Len())
			a, b := l.Get(i), l.Get(j)
			if fd.Message() != nil {
				a = protoreflect.ValueOfMessage(proto.Clone(a.Message().Interface()).ProtoReflect())
				b = protoreflect.ValueOfMessage(proto.Clone(b.Message().Interface()).ProtoReflect())
			}
			l.Set(i, b)
			l.Set(j, a)
		case 3: // append an empty / random element
			if fd.Message() != nil {
				l.Append(l.NewElement())
			} else if v := scalar(); v.IsValid() {
				l.Append(v)
			}
		case 4: // clear
			m.Clear(fd)
		case 5: // change one scalar element
			if l.Len() == 0 || fd.Message() != nil {
				return false
			}
			if v := scalar(); v.IsValid() {
				l.Set(r.Intn(l.Len()), v)
			}
		}
		return true
	case fd.Message() != nil:
		if m.Has(fd) && r.Bool() {
			m.Clear(fd)
		} else {
			m.Set(fd, m.NewField(fd))
		}
		return true
	default:
		if m.Has(fd) && r.Chance(1, 3) {
			m.Clear(fd)
			return true
		}
		if v := scalar(); v.IsValid() {
			m.Set(fd, v)
			return true
		}
	}
	return false
}

type injector struct {
	name string
	// needsResolution: accepted when AllowUnresolvable is set
	needsResolution bool
	apply           func(r *core.Rand, p *descriptorpb.FileDescriptorProto) bool
}

func allMsgs(p *descriptorpb.FileDescriptorProto) []*descriptorpb.DescriptorProto {
	var out []*descriptorpb.DescriptorProto
	var walk func(ms []*descriptorpb.DescriptorProto)
	walk = func(ms []*descriptorpb.DescriptorProto) {
		for _, m := range ms {
			out = append(out, m)
			walk(m.NestedType)
		}
	}
	walk(p.MessageType)
	return out
}

func allEnums(p *descriptorpb.FileDescriptorProto) []*descriptorpb.EnumDescriptorProto {
	out := append([]*descriptorpb.EnumDescriptorProto(nil), p.EnumType...)
	for _, m := range allMsgs(p) {
		out = append(out, m.EnumType...)
	}
	return out
}

func plainMsgs(p *descriptorpb.FileDescriptorProto) []*descriptorpb.DescriptorProto {
	var out []*descriptorpb.DescriptorProto
	for _, m := range allMsgs(p) {
		if !m.GetOptions().GetMapEntry() {
			out = append(out, m)
		}
	}
	return out
}

func pickMsg(r *core.Rand, ms []*descriptorpb.DescriptorProto, pred func(*descriptorpb.DescriptorProto) bool) *descriptorpb.DescriptorProto {
	var c []*descriptorpb.DescriptorProto
	for _, m := range ms {
		if pred(m) {
			c = append(c, m)
		}
	}
	if len(c) == 0 {
		return nil
	}
	return c[r.Intn(len(c))]
}

func isP3(p *descriptorpb.FileDescriptorProto) bool { return p.GetSyntax() == "proto3" }
func isP2(p *descriptorpb.FileDescriptorProto) bool {
	return p.GetSyntax() == "" || p.GetSyntax() == "proto2"
}

func maxNum(m *descriptorpb.DescriptorProto) int32 {
	mx := int32(0)
	for _, f := range m.Field {
		if f.GetNumber() > mx {
			mx = f.GetNumber()
		}
	}
	for _, x := range m.ExtensionRange {
		if x.GetEnd() > mx {
			mx = x.GetEnd()
		}
	}
	for _, x := range m.ReservedRange {
		if x.GetEnd() > mx {
			mx = x.GetEnd()
		}
	}
	return mx
}

func pickEnum(r *core.Rand, p *descriptorpb.FileDescriptorProto, pred func(*descriptorpb.EnumDescriptorProto) bool) *descriptorpb.EnumDescriptorProto {
	var c []*descriptorpb.EnumDescriptorProto
	for _, e := range allEnums(p) {
		if pred(e) {
			c = append(c, e)
		}
	}
	if len(c) == 0 {
		return nil
	}
	return c[r.Intn(len(c))]
}

func pickExt(r *core.Rand, p *descriptorpb.FileDescriptorProto, pred func(*descriptorpb.FieldDescriptorProto) bool) *descriptorpb.FieldDescriptorProto {
	c := []*descriptorpb.FieldDescriptorProto{}
	for _, x := range p.Extension {
		if pred(x) {
			c = append(c, x)
		}
	}
	for _, m := range allMsgs(p) {
		for _, x := range m.Extension {
			if pred(x) {
				c = append(c, x)
			}
		}
	}
	if len(c) == 0 {
		return nil
	}
	return c[r.Intn(len(c))]
}

// fullNameOf returns the leading-dot full name of a message of the file.
func fullNameOf(p *descriptorpb.FileDescriptorProto, target *descriptorpb.DescriptorProto) string {
	var found string
	var walk func(prefix string, ms []*descriptorpb.DescriptorProto)
	walk = func(prefix string, ms []*descriptorpb.DescriptorProto) {
		for _, m := range ms {
			n := prefix + "." + m.GetName()
			if m == target {
				found = n
			}
			walk(n, m.NestedType)
		}
	}
	pre := ""
	if p.GetPackage() != "" {
		pre = "." + p.GetPackage()
	}
	walk(pre, p.MessageType)
	return found
}

// mapEntryInjector applies edit to one map-entry message of the file.
func mapEntryInjector(name string, edit func(r *core.Rand, p *descriptorpb.FileDescriptorProto, e *descriptorpb.DescriptorProto) bool) injector {
	return injector{name, false, func(r *core.Rand, p *descriptorpb.FileDescriptorProto) bool {
		e := pickMsg(r, allMsgs(p), func(m *descriptorpb.DescriptorProto) bool { return m.GetOptions().GetMapEntry() && len(m.Field) == 2 })
		if e == nil {
			return false
		}
		return edit(r, p, e)
	}}
}

// setScalarDefault gives a scalar field a default value of its own kind.
func setScalarDefault(f *descriptorpb.FieldDescriptorProto) bool {
	switch f.GetType() {
	case descriptorpb.FieldDescriptorProto_TYPE_STRING:
		f.DefaultValue = proto.String("dflt")
	case descriptorpb.FieldDescriptorProto_TYPE_BOOL:
		f.DefaultValue = proto.String("true")
	case descriptorpb.FieldDescriptorProto_TYPE_MESSAGE, descriptorpb.FieldDescriptorProto_TYPE_GROUP, descriptorpb.FieldDescriptorProto_TYPE_ENUM, descriptorpb.FieldDescriptorProto_TYPE_BYTES:
		return false
	default:
		f.DefaultValue = proto.String("7")
	}
	return true
}

func newField(name string, num int32, t descriptorpb.FieldDescriptorProto_Type) *descriptorpb.FieldDescriptorProto {
	return &descriptorpb.FieldDescriptorProto{Name: proto.String(name), Number: proto.Int32(num), Label: descriptorpb.FieldDescriptorProto_LABEL_OPTIONAL.Enum(), Type: t.Enum(), JsonName: proto.String(gen.JSONCamel(name))}
}

func plainField(r *core.Rand, m *descriptorpb.DescriptorProto, pred func(*descriptorpb.FieldDescriptorProto) bool) *descriptorpb.FieldDescriptorProto {
	var c []*descriptorpb.FieldDescriptorProto
	for _, f := range m.Field {
		if pred(f) {
			c = append(c, f)
		}
	}
	if len(c) == 0 {
		return nil
	}
	return c[r.Intn(len(c))]
}

var c35Injectors = []injector{
	{"duplicate-message-name", false, func(r *core.Rand, p *descriptorpb.FileDescriptorProto) bool {
		if len(p.MessageType) == 0 {
			return false
		}
		p.MessageType = append(p.MessageType, &descriptorpb.DescriptorProto{Name: proto.String(p.MessageType[r.Intn(len(p.MessageType))].GetName())})
		return true
	}},
	{"duplicate-nested-message-name", false, func(r *core.Rand, p *descriptorpb.FileDescriptorProto) bool {
		m := pickMsg(r, plainMsgs(p), func(m *descriptorpb.DescriptorProto) bool { return len(m.NestedType) > 0 })
		if m == nil {
			return false
		}
		m.NestedType = append(m.NestedType, &descriptorpb.DescriptorProto{Name: proto.String(m.NestedType[0].GetName())})
		return true
	}},
	{"message-enum-name-clash", false, func(r *core.Rand, p *descriptorpb.FileDescriptorProto) bool {
		if len(p.MessageType) == 0 {
			return false
		}
		p.EnumType = append(p.EnumType, &descriptorpb.EnumDescriptorProto{Name: proto.String(p.MessageType[0].GetName()), Value: []*descriptorpb.EnumValueDescriptorProto{{Name: proto.String("CLASH_ZERO_V"), Number: proto.Int32(0)}}})
		return true
	}},
	{"duplicate-field-name", false, func(r *core.Rand, p *descriptorpb.FileDescriptorProto) bool {
		m := pickMsg(r, plainMsgs(p), func(m *descriptorpb.DescriptorProto) bool { return len(m.Field) > 0 && maxNum(m) < 500000000 })
		if m == nil {
			return false
		}
		m.Field = append(m.Field, newField(m.Field[r.Intn(len(m.Field))].GetName(), maxNum(m)+1, descriptorpb.FieldDescriptorProto_TYPE_INT32))
		return true
	}},
	{"duplicate-field-number", false, func(r *core.Rand, p *descriptorpb.FileDescriptorProto) bool {
		m := pickMsg(r, plainMsgs(p), func(m *descriptorpb.DescriptorProto) bool { return len(m.Field) > 0 })
		if m == nil {
			return false
		}
		m.Field = append(m.Field, newField("dup_number_field_zz", m.Field[r.Intn(len(m.Field))].GetNumber(), descriptorpb.FieldDescriptorProto_TYPE_INT32))
		return true
	}},
	{"duplicate-enum-value-name", false, func(r *core.Rand, p *descriptorpb.FileDescriptorProto) bool {
		es := allEnums(p)
		if len(es) == 0 {
			return false
		}
		e := es[r.Intn(len(es))]
		e.Value = append(e.Value, &descriptorpb.EnumValueDescriptorProto{Name: proto.String(e.Value[0].GetName()), Number: proto.Int32(77777)})
		return true
	}},
	{"duplicate-enum-number-without-alias", false, func(r *core.Rand, p *descriptorpb.FileDescriptorProto) bool {
		for _, e := range allEnums(p) {
			if !e.GetOptions().GetAllowAlias() {
				e.Value = append(e.Value, &descriptorpb.EnumValueDescriptorProto{Name: proto.String("DUP_NUMBER_ZZ"), Number: proto.Int32(e.Value[len(e.Value)-1].GetNumber())})
				return true
			}
		}
		return false
	}},
	{"allow-alias-without-aliases", false, func(r *core.Rand, p *descriptorpb.FileDescriptorProto) bool {
		for _, e := range allEnums(p) {
			if !e.GetOptions().GetAllowAlias() {
				if e.Options == nil {
					e.Options = &descriptorpb.EnumOptions{}
				}
				e.Options.AllowAlias = proto.Bool(true)
				return true
			}
		}
		return false
	}},
	{"empty-enum", false, func(r *core.Rand, p *descriptorpb.FileDescriptorProto) bool {
		p.EnumType = append(p.EnumType, &descriptorpb.EnumDescriptorProto{Name: proto.String("EmptyEnumZz")})
		return true
	}},
	{"enum-value-uses-reserved-name", false, func(r *core.Rand, p *descriptorpb.FileDescriptorProto) bool {
		es := allEnums(p)
		if len(es) == 0 {
			return false
		}
		e := es[r.Intn(len(es))]
		e.ReservedName = append(e.ReservedName, e.Value[len(e.Value)-1].GetName())
		return true
	}},
	{"enum-value-uses-reserved-number", false, func(r *core.Rand, p *descriptorpb.FileDescriptorProto) bool {
		es := allEnums(p)
		if len(es) == 0 {
			return false
		}
		e := es[r.Intn(len(es))]
		n := e.Value[len(e.Value)-1].GetNumber()
		e.ReservedRange = append(e.ReservedRange, &descriptorpb.EnumDescriptorProto_EnumReservedRange{Start: proto.Int32(n), End: proto.Int32(n)})
		return true
	}},
	{"enum-reserved-range-start-after-end", false, func(r *core.Rand, p *descriptorpb.FileDescriptorProto) bool {
		es := allEnums(p)
		if len(es) == 0 {
			return false
		}
		e := es[r.Intn(len(es))]
		e.ReservedRange = append(e.ReservedRange, &descriptorpb.EnumDescriptorProto_EnumReservedRange{Start: proto.Int32(900010), End: proto.Int32(900001)})
		return true
	}},
	{"open-enum-first-value-nonzero", false, func(r *core.Rand, p *descriptorpb.FileDescriptorProto) bool {
		if !isP3(p) {
			return false
		}
		p.EnumType = append(p.EnumType, &descriptorpb.EnumDescriptorProto{Name: proto.String("NonZeroFirstZz"), Value: []*descriptorpb.EnumValueDescriptorProto{{Name: proto.String("NZF_ONE"), Number: proto.Int32(1)}}})
		return true
	}},
	{"reserved-range-start-not-before-end", false, func(r *core.Rand, p *descriptorpb.FileDescriptorProto) bool {
		m := pickMsg(r, plainMsgs(p), func(m *descriptorpb.DescriptorProto) bool { return maxNum(m) < 400000000 })
		if m == nil {
			return false
		}
		s := maxNum(m) + 10
		m.ReservedRange = append(m.ReservedRange, &descriptorpb.DescriptorProto_ReservedRange{Start: proto.Int32(s), End: proto.Int32(s - int32(r.Intn(2)))})
		return true
	}},
	{"reserved-range-out-of-bounds", false, func(r *core.Rand, p *descriptorpb.FileDescriptorProto) bool {
		m := pickMsg(r, plainMsgs(p), func(m *descriptorpb.DescriptorProto) bool { return maxNum(m) < 400000000 })
		if m == nil {
			return false
		}
		if r.Bool() {
			m.ReservedRange = append(m.ReservedRange, &descriptorpb.DescriptorProto_ReservedRange{Start: proto.Int32(0), End: proto.Int32(1)})
		} else {
			m.ReservedRange = append(m.ReservedRange, &descriptorpb.DescriptorProto_ReservedRange{Start: proto.Int32(536870911), End: proto.Int32(536870913)})
		}
		return true
	}},
	{"overlapping-reserved-ranges", false, func(r *core.Rand, p *descriptorpb.FileDescriptorProto) bool {
		m := pickMsg(r, plainMsgs(p), func(m *descriptorpb.DescriptorProto) bool { return maxNum(m) < 400000000 })
		if m == nil {
			return false
		}
		s := maxNum(m) + 10
		m.ReservedRange = append(m.ReservedRange, &descriptorpb.DescriptorProto_ReservedRange{Start: proto.Int32(s), End: proto.Int32(s + 10)}, &descriptorpb.DescriptorProto_ReservedRange{Start: proto.Int32(s + 9), End: proto.Int32(s + 20)})
		return true
	}},
	{"overlapping-extension-ranges", false, func(r *core.Rand, p *descriptorpb.FileDescriptorProto) bool {
		if isP3(p) {
			return false
		}
		m := pickMsg(r, plainMsgs(p), func(m *descriptorpb.DescriptorProto) bool { return maxNum(m) < 400000000 })
		if m == nil {
			return false
		}
		s := maxNum(m) + 10
		m.ExtensionRange = append(m.ExtensionRange, &descriptorpb.DescriptorProto_ExtensionRange{Start: proto.Int32(s), End: proto.Int32(s + 10)}, &descriptorpb.DescriptorProto_ExtensionRange{Start: proto.Int32(s + 5), End: proto.Int32(s + 6)})
		return true
	}},
	{"reserved-and-extension-ranges-overlap", false, func(r *core.Rand, p *descriptorpb.FileDescriptorProto) bool {
		if isP3(p) {
			return false
		}
		m := pickMsg(r, plainMsgs(p), func(m *descriptorpb.DescriptorProto) bool { return maxNum(m) < 400000000 })
		if m == nil {
			return false
		}
		s := maxNum(m) + 10
		m.ExtensionRange = append(m.ExtensionRange, &descriptorpb.DescriptorProto_ExtensionRange{Start: proto.Int32(s), End: proto.Int32(s + 10)})
		m.ReservedRange = append(m.ReservedRange, &descriptorpb.DescriptorProto_ReservedRange{Start: proto.Int32(s + 9), End: proto.Int32(s + 12)})
		return true
	}},
	{"field-uses-reserved-name", false, func(r *core.Rand, p *descriptorpb.FileDescriptorProto) bool {
		m := pickMsg(r, plainMsgs(p), func(m *descriptorpb.DescriptorProto) bool { return len(m.Field) > 0 })
		if m == nil {
			return false
		}
		m.ReservedName = append(m.ReservedName, m.Field[r.Intn(len(m.Field))].GetName())
		return true
	}},
	{"field-uses-reserved-number", false, func(r *core.Rand, p *descriptorpb.FileDescriptorProto) bool {
		m := pickMsg(r, plainMsgs(p), func(m *descriptorpb.DescriptorProto) bool { return len(m.Field) > 0 })
		if m == nil {
			return false
		}
		n := m.Field[r.Intn(len(m.Field))].GetNumber()
		// a reserved range covering exactly that number, not overlapping anything else declared
		for _, x := range m.ReservedRange {
			if n >= x.GetStart() && n < x.GetEnd() {
				return false
			}
		}
		m.ReservedRange = append(m.ReservedRange, &descriptorpb.DescriptorProto_ReservedRange{Start: proto.Int32(n), End: proto.Int32(n + 1)})
		return true
	}},
	{"field-number-in-extension-range", false, func(r *core.Rand, p *descriptorpb.FileDescriptorProto) bool {
		m := pickMsg(r, plainMsgs(p), func(m *descriptorpb.DescriptorProto) bool { return len(m.ExtensionRange) > 0 })
		if m == nil {
			return false
		}
		x := m.ExtensionRange[r.Intn(len(m.ExtensionRange))]
		n := x.GetStart()
		if r.Bool() {
			n = x.GetEnd() - 1
		}
		if n >= 19000 && n <= 19999 {
			return false
		}
		m.Field = append(m.Field, newField("in_ext_range_zz", n, descriptorpb.FieldDescriptorProto_TYPE_BOOL))
		return true
	}},
	{"field-number-invalid", false, func(r *core.Rand, p *descriptorpb.FileDescriptorProto) bool {
		m := pickMsg(r, plainMsgs(p), func(m *descriptorpb.DescriptorProto) bool { return true })
		if m == nil {
			return false
		}
		m.Field = append(m.Field, newField("bad_number_zz", []int32{0, -1, -19000, 536870912, 536870913, math.MaxInt32}[r.Intn(6)], descriptorpb.FieldDescriptorProto_TYPE_BOOL))
		return true
	}},
	{"field-with-extendee", false, func(r *core.Rand, p *descriptorpb.FileDescriptorProto) bool {
		m := pickMsg(r, plainMsgs(p), func(m *descriptorpb.DescriptorProto) bool { return len(m.Field) > 0 })
		if m == nil {
			return false
		}
		m.Field[r.Intn(len(m.Field))].Extendee = proto.String("." + p.GetPackage() + "." + p.MessageType[0].GetName())
		return true
	}},
	{"map-entry-wrong-key-name", false, func(r *core.Rand, p *descriptorpb.FileDescriptorProto) bool {
		m := pickMsg(r, allMsgs(p), func(m *descriptorpb.DescriptorProto) bool { return m.GetOptions().GetMapEntry() })
		if m == nil {
			return false
		}
		m.Field[0].Name = proto.String("kee")
		m.Field[0].JsonName = proto.String("kee")
		return true
	}},
	{"map-entry-three-fields", false, func(r *core.Rand, p *descriptorpb.FileDescriptorProto) bool {
		m := pickMsg(r, allMsgs(p), func(m *descriptorpb.DescriptorProto) bool { return m.GetOptions().GetMapEntry() })
		if m == nil {
			return false
		}
		m.Field = append(m.Field, newField("third", 3, descriptorpb.FieldDescriptorProto_TYPE_INT32))
		return true
	}},
	{"map-entry-bad-key-kind", false, func(r *core.Rand, p *descriptorpb.FileDescriptorProto) bool {
		m := pickMsg(r, allMsgs(p), func(m *descriptorpb.DescriptorProto) bool { return m.GetOptions().GetMapEntry() })
		if m == nil {
			return false
		}
		m.Field[0].Type = []descriptorpb.FieldDescriptorProto_Type{descriptorpb.FieldDescriptorProto_TYPE_FLOAT, descriptorpb.FieldDescriptorProto_TYPE_DOUBLE, descriptorpb.FieldDescriptorProto_TYPE_BYTES}[r.Intn(3)].Enum()
		return true
	}},
	{"map-entry-key-number", false, func(r *core.Rand, p *descriptorpb.FileDescriptorProto) bool {
		m := pickMsg(r, allMsgs(p), func(m *descriptorpb.DescriptorProto) bool { return m.GetOptions().GetMapEntry() })
		if m == nil {
			return false
		}
		m.Field[0].Number = proto.Int32(3)
		return true
	}},
	{"map-field-not-repeated", false, func(r *core.Rand, p *descriptorpb.FileDescriptorProto) bool {
		for _, m := range plainMsgs(p) {
			for _, f := range m.Field {
				for _, n := range m.NestedType {
					if n.GetOptions().GetMapEntry() && f.GetTypeName() != "" && len(f.GetTypeName()) > len(n.GetName()) && f.GetTypeName()[len(f.GetTypeName())-len(n.GetName())-1:] == "."+n.GetName() {
						f.Label = descriptorpb.FieldDescriptorProto_LABEL_OPTIONAL.Enum()
						return true
					}
				}
			}
		}
		return false
	}},
	{"map-entry-name-mismatch", false, func(r *core.Rand, p *descriptorpb.FileDescriptorProto) bool {
		for _, m := range plainMsgs(p) {
			for _, f := range m.Field {
				for _, n := range m.NestedType {
					if n.GetOptions().GetMapEntry() && f.GetTypeName() != "" && len(f.GetTypeName()) > len(n.GetName()) && f.GetTypeName()[len(f.GetTypeName())-len(n.GetName())-1:] == "."+n.GetName() {
						f.Name = proto.String(f.GetName() + "_renamed")
						f.JsonName = proto.String(gen.JSONCamel(f.GetName()))
						return true
					}
				}
			}
		}
		return false
	}},
	// every clause of a well-formed map entry, for the key and for the value field
	mapEntryInjector("map-entry-wrong-value-name", func(r *core.Rand, p *descriptorpb.FileDescriptorProto, e *descriptorpb.DescriptorProto) bool {
		e.Field[1].Name = proto.String("val")
		e.Field[1].JsonName = proto.String("val")
		return true
	}),
	mapEntryInjector("map-entry-value-number", func(r *core.Rand, p *descriptorpb.FileDescriptorProto, e *descriptorpb.DescriptorProto) bool {
		e.Field[1].Number = proto.Int32(3)
		return true
	}),
	mapEntryInjector("map-entry-fields-swapped", func(r *core.Rand, p *descriptorpb.FileDescriptorProto, e *descriptorpb.DescriptorProto) bool {
		if e.Field[0].GetType() == e.Field[1].GetType() && e.Field[0].GetTypeName() == e.Field[1].GetTypeName() {
			return false
		}
		e.Field[0], e.Field[1] = e.Field[1], e.Field[0]
		return true
	}),
	mapEntryInjector("map-entry-key-label", func(r *core.Rand, p *descriptorpb.FileDescriptorProto, e *descriptorpb.DescriptorProto) bool {
		e.Field[0].Label = descriptorpb.FieldDescriptorProto_LABEL_REPEATED.Enum()
		return true
	}),
	mapEntryInjector("map-entry-value-label", func(r *core.Rand, p *descriptorpb.FileDescriptorProto, e *descriptorpb.DescriptorProto) bool {
		e.Field[1].Label = descriptorpb.FieldDescriptorProto_LABEL_REPEATED.Enum()
		return true
	}),
	mapEntryInjector("map-entry-key-in-oneof", func(r *core.Rand, p *descriptorpb.FileDescriptorProto, e *descriptorpb.DescriptorProto) bool {
		e.OneofDecl = append(e.OneofDecl, &descriptorpb.OneofDescriptorProto{Name: proto.String("oo_zz")})
		e.Field[0].OneofIndex = proto.Int32(int32(len(e.OneofDecl) - 1))
		return true
	}),
	mapEntryInjector("map-entry-value-in-oneof", func(r *core.Rand, p *descriptorpb.FileDescriptorProto, e *descriptorpb.DescriptorProto) bool {
		e.OneofDecl = append(e.OneofDecl, &descriptorpb.OneofDescriptorProto{Name: proto.String("oo_zz")})
		e.Field[1].OneofIndex = proto.Int32(int32(len(e.OneofDecl) - 1))
		return true
	}),
	mapEntryInjector("map-entry-key-default", func(r *core.Rand, p *descriptorpb.FileDescriptorProto, e *descriptorpb.DescriptorProto) bool {
		return setScalarDefault(e.Field[0])
	}),
	mapEntryInjector("map-entry-value-default", func(r *core.Rand, p *descriptorpb.FileDescriptorProto, e *descriptorpb.DescriptorProto) bool {
		return setScalarDefault(e.Field[1])
	}),
	mapEntryInjector("map-entry-extension-range", func(r *core.Rand, p *descriptorpb.FileDescriptorProto, e *descriptorpb.DescriptorProto) bool {
		e.ExtensionRange = append(e.ExtensionRange, &descriptorpb.DescriptorProto_ExtensionRange{Start: proto.Int32(100), End: proto.Int32(200)})
		return true
	}),
	mapEntryInjector("map-entry-nested-declaration", func(r *core.Rand, p *descriptorpb.FileDescriptorProto, e *descriptorpb.DescriptorProto) bool {
		switch r.Intn(2) {
		case 0:
			e.NestedType = append(e.NestedType, &descriptorpb.DescriptorProto{Name: proto.String("InnerZz")})
		default:
			e.EnumType = append(e.EnumType, &descriptorpb.EnumDescriptorProto{Name: proto.String("InnerEzz"), Value: []*descriptorpb.EnumValueDescriptorProto{{Name: proto.String("INNER_EZZ_ZERO"), Number: proto.Int32(0)}}})
		}
		return true
	}),
	{"group-in-proto3", false, func(r *core.Rand, p *descriptorpb.FileDescriptorProto) bool {
		if !isP3(p) || len(p.MessageType) == 0 || p.MessageType[0].GetOptions().GetMapEntry() || maxNum(p.MessageType[0]) > 400000000 {
			return false
		}
		m := p.MessageType[0]
		p.MessageType = append(p.MessageType, &descriptorpb.DescriptorProto{Name: proto.String("Grpzz")})
		f := newField("grpzz", maxNum(m)+1, descriptorpb.FieldDescriptorProto_TYPE_GROUP)
		f.TypeName = proto.String("." + p.GetPackage() + ".Grpzz")
		m.Field = append(m.Field, f)
		return true
	}},
	{"group-name-mismatch", false, func(r *core.Rand, p *descriptorpb.FileDescriptorProto) bool {
		if !isP2(p) {
			return false
		}
		for _, m := range plainMsgs(p) {
			for _, f := range m.Field {
				if f.GetType() == descriptorpb.FieldDescriptorProto_TYPE_GROUP {
					f.Name = proto.String(f.GetName() + "x")
					f.JsonName = proto.String(f.GetName())
					return true
				}
			}
		}
		return false
	}},
	{"empty-oneof", false, func(r *core.Rand, p *descriptorpb.FileDescriptorProto) bool {
		m := pickMsg(r, plainMsgs(p), func(m *descriptorpb.DescriptorProto) bool {
			for _, f := range m.Field {
				if f.GetProto3Optional() {
					return false // keep synthetic ordering out of the picture
				}
			}
			return true
		})
		if m == nil {
			return false
		}
		m.OneofDecl = append(m.OneofDecl, &descriptorpb.OneofDescriptorProto{Name: proto.String("empty_oneof_zz")})
		return true
	}},
	{"non-consecutive-oneof", false, func(r *core.Rand, p *descriptorpb.FileDescriptorProto) bool {
		m := pickMsg(r, plainMsgs(p), func(m *descriptorpb.DescriptorProto) bool {
			if maxNum(m) > 400000000 {
				return false
			}
			for _, f := range m.Field {
				if f.GetProto3Optional() {
					return false
				}
			}
			return true
		})
		if m == nil {
			return false
		}
		oi := int32(len(m.OneofDecl))
		m.OneofDecl = append(m.OneofDecl, &descriptorpb.OneofDescriptorProto{Name: proto.String("split_oneof_zz")})
		n := maxNum(m)
		a, b, c := newField("so_a_zz", n+1, descriptorpb.FieldDescriptorProto_TYPE_INT32), newField("so_b_zz", n+2, descriptorpb.FieldDescriptorProto_TYPE_INT32), newField("so_c_zz", n+3, descriptorpb.FieldDescriptorProto_TYPE_INT32)
		a.OneofIndex, c.OneofIndex = proto.Int32(oi), proto.Int32(oi)
		m.Field = append(m.Field, a, b, c)
		return true
	}},
	{"oneof-field-repeated", false, func(r *core.Rand, p *descriptorpb.FileDescriptorProto) bool {
		for _, m := range plainMsgs(p) {
			for _, f := range m.Field {
				if f.OneofIndex != nil && !f.GetProto3Optional() {
					f.Label = descriptorpb.FieldDescriptorProto_LABEL_REPEATED.Enum()
					f.DefaultValue = nil
					return true
				}
			}
		}
		return false
	}},
	{"oneof-index-out-of-range", false, func(r *core.Rand, p *descriptorpb.FileDescriptorProto) bool {
		m := pickMsg(r, plainMsgs(p), func(m *descriptorpb.DescriptorProto) bool { return len(m.Field) > 0 })
		if m == nil {
			return false
		}
		f := plainField(r, m, func(f *descriptorpb.FieldDescriptorProto) bool {
			return f.OneofIndex == nil && f.GetLabel() == descriptorpb.FieldDescriptorProto_LABEL_OPTIONAL
		})
		if f == nil {
			return false
		}
		f.OneofIndex = proto.Int32([]int32{int32(len(m.OneofDecl)), -1, math.MaxInt32, math.MinInt32}[r.Intn(4)])
		return true
	}},
	{"proto3-required", false, func(r *core.Rand, p *descriptorpb.FileDescriptorProto) bool {
		if !isP3(p) {
			return false
		}
		m := pickMsg(r, plainMsgs(p), func(m *descriptorpb.DescriptorProto) bool { return maxNum(m) < 400000000 })
		if m == nil {
			return false
		}
		f := newField("req_zz", maxNum(m)+1, descriptorpb.FieldDescriptorProto_TYPE_INT32)
		f.Label = descriptorpb.FieldDescriptorProto_LABEL_REQUIRED.Enum()
		m.Field = append(m.Field, f)
		return true
	}},
	{"proto3-extension-range", false, func(r *core.Rand, p *descriptorpb.FileDescriptorProto) bool {
		if !isP3(p) {
			return false
		}
		m := pickMsg(r, plainMsgs(p), func(m *descriptorpb.DescriptorProto) bool { return maxNum(m) < 400000000 })
		if m == nil {
			return false
		}
		s := maxNum(m) + 5
		m.ExtensionRange = append(m.ExtensionRange, &descriptorpb.DescriptorProto_ExtensionRange{Start: proto.Int32(s), End: proto.Int32(s + 5)})
		return true
	}},
	{"proto3-optional-outside-proto3", false, func(r *core.Rand, p *descriptorpb.FileDescriptorProto) bool {
		if isP3(p) {
			return false
		}
		m := pickMsg(r, plainMsgs(p), func(m *descriptorpb.DescriptorProto) bool { return maxNum(m) < 400000000 })
		if m == nil {
			return false
		}
		f := newField("p3opt_zz", maxNum(m)+1, descriptorpb.FieldDescriptorProto_TYPE_INT32)
		f.Proto3Optional = proto.Bool(true)
		m.OneofDecl = append(m.OneofDecl, &descriptorpb.OneofDescriptorProto{Name: proto.String("_p3opt_zz")})
		f.OneofIndex = proto.Int32(int32(len(m.OneofDecl) - 1))
		m.Field = append(m.Field, f)
		return true
	}},
	{"unresolvable-field-type", true, func(r *core.Rand, p *descriptorpb.FileDescriptorProto) bool {
		m := pickMsg(r, plainMsgs(p), func(m *descriptorpb.DescriptorProto) bool { return maxNum(m) < 400000000 })
		if m == nil {
			return false
		}
		f := newField("unres_zz", maxNum(m)+1, descriptorpb.FieldDescriptorProto_TYPE_MESSAGE)
		f.TypeName = proto.String(".no.such.pkg.Missing")
		m.Field = append(m.Field, f)
		return true
	}},
	{"unresolvable-import", true, func(r *core.Rand, p *descriptorpb.FileDescriptorProto) bool {
		p.Dependency = append(p.Dependency, "no/such/file_zz.proto")
		return true
	}},
	{"unresolvable-extendee", true, func(r *core.Rand, p *descriptorpb.FileDescriptorProto) bool {
		if isP3(p) {
			return false
		}
		x := newField("ext_unres_zz", 100, descriptorpb.FieldDescriptorProto_TYPE_INT32)
		x.JsonName = nil
		x.Extendee = proto.String(".no.such.pkg.Missing")
		p.Extension = append(p.Extension, x)
		return true
	}},
	{"unresolvable-method-type", true, func(r *core.Rand, p *descriptorpb.FileDescriptorProto) bool {
		if len(p.MessageType) == 0 {
			return false
		}
		in := "." + p.GetPackage() + "." + p.MessageType[0].GetName()
		p.Service = append(p.Service, &descriptorpb.ServiceDescriptorProto{Name: proto.String("UnresSvcZz"), Method: []*descriptorpb.MethodDescriptorProto{{Name: proto.String("Do"), InputType: proto.String(in), OutputType: proto.String(".no.such.pkg.Missing")}}})
		return true
	}},
	{"packed-on-unpackable", false, func(r *core.Rand, p *descriptorpb.FileDescriptorProto) bool {
		if p.GetSyntax() == "editions" {
			return false
		}
		m := pickMsg(r, plainMsgs(p), func(m *descriptorpb.DescriptorProto) bool { return maxNum(m) < 400000000 })
		if m == nil {
			return false
		}
		f := newField("packed_zz", maxNum(m)+1, []descriptorpb.FieldDescriptorProto_Type{descriptorpb.FieldDescriptorProto_TYPE_STRING, descriptorpb.FieldDescriptorProto_TYPE_BYTES}[r.Intn(2)])
		f.Label = descriptorpb.FieldDescriptorProto_LABEL_REPEATED.Enum()
		f.Options = &descriptorpb.FieldOptions{Packed: proto.Bool(true)}
		m.Field = append(m.Field, f)
		return true
	}},
	{"extension-required", false, func(r *core.Rand, p *descriptorpb.FileDescriptorProto) bool {
		for _, x := range p.Extension {
			x.Label = descriptorpb.FieldDescriptorProto_LABEL_REQUIRED.Enum()
			x.DefaultValue = nil
			return true
		}
		return false
	}},
	{"extension-outside-range", false, func(r *core.Rand, p *descriptorpb.FileDescriptorProto) bool {
		for _, x := range p.Extension {
			// only when the extendee is declared in this very file (its ranges are then known)
			for _, m := range plainMsgs(p) {
				if len(m.ExtensionRange) > 0 && len(x.GetExtendee()) > len(m.GetName()) && x.GetExtendee()[len(x.GetExtendee())-len(m.GetName())-1:] == "."+m.GetName() {
					n := int32(1)
					for _, xr := range m.ExtensionRange {
						if n >= xr.GetStart() && n < xr.GetEnd() {
							return false
						}
					}
					x.Number = proto.Int32(n)
					return true
				}
			}
		}
		return false
	}},
	{"extension-custom-json-name", false, func(r *core.Rand, p *descriptorpb.FileDescriptorProto) bool {
		for _, x := range p.Extension {
			x.JsonName = proto.String("customJsonNameZz")
			return true
		}
		return false
	}},
	{"extension-in-oneof", false, func(r *core.Rand, p *descriptorpb.FileDescriptorProto) bool {
		for _, x := range p.Extension {
			x.OneofIndex = proto.Int32(0)
			return true
		}
		return false
	}},
	{"invalid-message-name", false, func(r *core.Rand, p *descriptorpb.FileDescriptorProto) bool {
		p.MessageType = append(p.MessageType, &descriptorpb.DescriptorProto{Name: proto.String([]string{"", "1Bad", "a-b", "a.b", "a b", "é"}[r.Intn(6)])})
		return true
	}},
	{"invalid-field-name", false, func(r *core.Rand, p *descriptorpb.FileDescriptorProto) bool {
		m := pickMsg(r, plainMsgs(p), func(m *descriptorpb.DescriptorProto) bool { return maxNum(m) < 400000000 })
		if m == nil {
			return false
		}
		m.Field = append(m.Field, newField([]string{"", "1bad", "a-b", "a.b"}[r.Intn(4)], maxNum(m)+1, descriptorpb.FieldDescriptorProto_TYPE_INT32))
		return true
	}},
	{"invalid-package-name", false, func(r *core.Rand, p *descriptorpb.FileDescriptorProto) bool {
		p.Package = proto.String([]string{"a..b", ".a", "a.", "1a", "a-b"}[r.Intn(5)])
		return true
	}},
	{"public-dependency-index-out-of-range", false, func(r *core.Rand, p *descriptorpb.FileDescriptorProto) bool {
		p.PublicDependency = append(p.PublicDependency, []int32{int32(len(p.Dependency)), -1, math.MaxInt32}[r.Intn(3)])
		return true
	}},
	{"duplicate-import", false, func(r *core.Rand, p *descriptorpb.FileDescriptorProto) bool {
		if len(p.Dependency) == 0 {
			return false
		}
		p.Dependency = append(p.Dependency, p.Dependency[0])
		return true
	}},
	{"bad-default-value", false, func(r *core.Rand, p *descriptorpb.FileDescriptorProto) bool {
		if isP3(p) {
			return false
		}
		m := pickMsg(r, plainMsgs(p), func(m *descriptorpb.DescriptorProto) bool { return maxNum(m) < 400000000 })
		if m == nil {
			return false
		}
		f := newField("baddef_zz", maxNum(m)+1, descriptorpb.FieldDescriptorProto_TYPE_INT32)
		f.DefaultValue = proto.String([]string{"abc", "1.5", "2147483648", "", "0x10", "1e3"}[r.Intn(6)])
		m.Field = append(m.Field, f)
		return true
	}},
	{"default-on-message-field", false, func(r *core.Rand, p *descriptorpb.FileDescriptorProto) bool {
		if isP3(p) || len(p.MessageType) == 0 {
			return false
		}
		m := pickMsg(r, plainMsgs(p), func(m *descriptorpb.DescriptorProto) bool { return maxNum(m) < 400000000 })
		if m == nil {
			return false
		}
		f := newField("msgdef_zz", maxNum(m)+1, descriptorpb.FieldDescriptorProto_TYPE_MESSAGE)
		f.TypeName = proto.String("." + p.GetPackage() + "." + p.MessageType[0].GetName())
		f.DefaultValue = proto.String("x")
		m.Field = append(m.Field, f)
		return true
	}},
	{"unknown-default-enum-value", true, func(r *core.Rand, p *descriptorpb.FileDescriptorProto) bool {
		if isP3(p) {
			return false
		}
		for _, m := range plainMsgs(p) {
			for _, f := range m.Field {
				if f.GetType() == descriptorpb.FieldDescriptorProto_TYPE_ENUM && f.DefaultValue != nil {
					f.DefaultValue = proto.String("NO_SUCH_VALUE_ZZ")
					return true
				}
			}
		}
		return false
	}},
	{"invalid-syntax", false, func(r *core.Rand, p *descriptorpb.FileDescriptorProto) bool {
		p.Syntax = proto.String([]string{"proto4", "proto1", "PROTO3", "edition"}[r.Intn(4)])
		return true
	}},
	{"editions-unsupported-edition", false, func(r *core.Rand, p *descriptorpb.FileDescriptorProto) bool {
		if p.GetSyntax() != "editions" {
			return false
		}
		p.Edition = []descriptorpb.Edition{descriptorpb.Edition_EDITION_1_TEST_ONLY, descriptorpb.Edition_EDITION_99999_TEST_ONLY, descriptorpb.Edition_EDITION_MAX, descriptorpb.Edition_EDITION_LEGACY}[r.Intn(4)].Enum()
		return true
	}},
	{"invalid-cardinality", false, func(r *core.Rand, p *descriptorpb.FileDescriptorProto) bool {
		m := pickMsg(r, plainMsgs(p), func(m *descriptorpb.DescriptorProto) bool { return len(m.Field) > 0 })
		if m == nil {
			return false
		}
		f := plainField(r, m, func(f *descriptorpb.FieldDescriptorProto) bool {
			return f.OneofIndex == nil && f.GetOptions().GetFeatures() == nil
		})
		if f == nil {
			return false
		}
		f.Label = descriptorpb.FieldDescriptorProto_Label([]int32{0, 4, -1, 99}[r.Intn(4)]).Enum()
		return true
	}},
	{"message-set-in-proto3", false, func(r *core.Rand, p *descriptorpb.FileDescriptorProto) bool {
		if !isP3(p) {
			return false
		}
		p.MessageType = append(p.MessageType, &descriptorpb.DescriptorProto{Name: proto.String("MsetZz"), Options: &descriptorpb.MessageOptions{MessageSetWireFormat: proto.Bool(true)}})
		return true
	}},
	// symmetric variants of clauses covered above for one kind of declaration only
	{"overlapping-enum-reserved-ranges", false, func(r *core.Rand, p *descriptorpb.FileDescriptorProto) bool {
		e := pickEnum(r, p, func(e *descriptorpb.EnumDescriptorProto) bool { return len(e.ReservedRange) > 0 })
		if e == nil {
			return false
		}
		x := e.ReservedRange[r.Intn(len(e.ReservedRange))]
		// inclusive ends: sharing one number is an overlap
		nr := &descriptorpb.EnumDescriptorProto_EnumReservedRange{Start: proto.Int32(x.GetEnd()), End: proto.Int32(x.GetEnd() + 3)}
		if r.Bool() {
			nr = &descriptorpb.EnumDescriptorProto_EnumReservedRange{Start: proto.Int32(x.GetStart() - 3), End: proto.Int32(x.GetStart())}
		}
		if r.Bool() {
			e.ReservedRange = append(e.ReservedRange, nr)
		} else {
			e.ReservedRange = append([]*descriptorpb.EnumDescriptorProto_EnumReservedRange{nr}, e.ReservedRange...)
		}
		return true
	}},
	{"extension-range-start-not-before-end", false, func(r *core.Rand, p *descriptorpb.FileDescriptorProto) bool {
		if isP3(p) {
			return false
		}
		m := pickMsg(r, plainMsgs(p), func(m *descriptorpb.DescriptorProto) bool {
			return maxNum(m) < 400000000 && !m.GetOptions().GetMessageSetWireFormat()
		})
		if m == nil {
			return false
		}
		n := maxNum(m) + 5
		if n >= 19000 && n <= 20010 {
			n = 20011
		}
		end := n - int32(r.Intn(3)) // end == start (empty) or before it
		m.ExtensionRange = append(m.ExtensionRange, &descriptorpb.DescriptorProto_ExtensionRange{Start: proto.Int32(n), End: proto.Int32(end)})
		return true
	}},
	{"extension-range-out-of-bounds", false, func(r *core.Rand, p *descriptorpb.FileDescriptorProto) bool {
		if isP3(p) {
			return false
		}
		m := pickMsg(r, plainMsgs(p), func(m *descriptorpb.DescriptorProto) bool {
			return maxNum(m) < 400000000 && !m.GetOptions().GetMessageSetWireFormat()
		})
		if m == nil {
			return false
		}
		x := &descriptorpb.DescriptorProto_ExtensionRange{Start: proto.Int32(maxNum(m) + 30000), End: proto.Int32(536870913)}
		if r.Bool() && len(m.Field) == 0 && len(m.ExtensionRange) == 0 && len(m.ReservedRange) == 0 {
			x = &descriptorpb.DescriptorProto_ExtensionRange{Start: proto.Int32(0), End: proto.Int32(10)}
		}
		m.ExtensionRange = append(m.ExtensionRange, x)
		return true
	}},
	{"group-message-in-other-scope", false, func(r *core.Rand, p *descriptorpb.FileDescriptorProto) bool {
		if !isP2(p) {
			return false
		}
		m := pickMsg(r, plainMsgs(p), func(m *descriptorpb.DescriptorProto) bool {
			return maxNum(m) < 400000000 && !m.GetOptions().GetMessageSetWireFormat()
		})
		if m == nil {
			return false
		}
		// the group's message is declared at file scope, the field inside a message
		p.MessageType = append(p.MessageType, &descriptorpb.DescriptorProto{Name: proto.String("Grpyy")})
		f := newField("grpyy", maxNum(m)+1, descriptorpb.FieldDescriptorProto_TYPE_GROUP)
		f.TypeName = proto.String("." + p.GetPackage() + ".Grpyy")
		m.Field = append(m.Field, f)
		return true
	}},
	{"group-message-name-lowercase", false, func(r *core.Rand, p *descriptorpb.FileDescriptorProto) bool {
		if !isP2(p) {
			return false
		}
		m := pickMsg(r, plainMsgs(p), func(m *descriptorpb.DescriptorProto) bool {
			return maxNum(m) < 400000000 && !m.GetOptions().GetMessageSetWireFormat()
		})
		if m == nil {
			return false
		}
		m.NestedType = append(m.NestedType, &descriptorpb.DescriptorProto{Name: proto.String("grpww")})
		f := newField("grpww", maxNum(m)+1, descriptorpb.FieldDescriptorProto_TYPE_GROUP)
		f.TypeName = proto.String(fullNameOf(p, m) + ".grpww")
		m.Field = append(m.Field, f)
		return true
	}},
	{"proto3-optional-repeated", false, func(r *core.Rand, p *descriptorpb.FileDescriptorProto) bool {
		for _, m := range plainMsgs(p) {
			if f := plainField(r, m, func(f *descriptorpb.FieldDescriptorProto) bool { return f.GetProto3Optional() }); f != nil {
				f.Label = descriptorpb.FieldDescriptorProto_LABEL_REPEATED.Enum()
				return true
			}
		}
		return false
	}},
	{"proto3-optional-shared-oneof", false, func(r *core.Rand, p *descriptorpb.FileDescriptorProto) bool {
		for _, m := range plainMsgs(p) {
			f := plainField(r, m, func(f *descriptorpb.FieldDescriptorProto) bool { return f.GetProto3Optional() })
			if f == nil || maxNum(m) > 400000000 {
				continue
			}
			// a second field next to it joins its synthetic oneof
			g := newField("joins_zz", maxNum(m)+1, descriptorpb.FieldDescriptorProto_TYPE_INT32)
			g.OneofIndex = proto.Int32(f.GetOneofIndex())
			g.Proto3Optional = proto.Bool(true)
			var out []*descriptorpb.FieldDescriptorProto
			for _, x := range m.Field {
				out = append(out, x)
				if x == f {
					out = append(out, g)
				}
			}
			m.Field = out
			return true
		}
		return false
	}},
	{"synthetic-oneof-before-real-oneof", false, func(r *core.Rand, p *descriptorpb.FileDescriptorProto) bool {
		for _, m := range plainMsgs(p) {
			f := plainField(r, m, func(f *descriptorpb.FieldDescriptorProto) bool { return f.GetProto3Optional() })
			if f == nil || maxNum(m) > 400000000 {
				continue
			}
			// a real oneof declared after the synthetic ones
			oi := int32(len(m.OneofDecl))
			m.OneofDecl = append(m.OneofDecl, &descriptorpb.OneofDescriptorProto{Name: proto.String("late_real_zz")})
			a, b := newField("late_a_zz", maxNum(m)+1, descriptorpb.FieldDescriptorProto_TYPE_INT32), newField("late_b_zz", maxNum(m)+2, descriptorpb.FieldDescriptorProto_TYPE_STRING)
			a.OneofIndex, b.OneofIndex = proto.Int32(oi), proto.Int32(oi)
			m.Field = append(m.Field, a, b)
			return true
		}
		return false
	}},
	{"default-with-implicit-presence", false, func(r *core.Rand, p *descriptorpb.FileDescriptorProto) bool {
		if !isP3(p) {
			return false
		}
		for _, m := range plainMsgs(p) {
			f := plainField(r, m, func(f *descriptorpb.FieldDescriptorProto) bool {
				return f.GetLabel() == descriptorpb.FieldDescriptorProto_LABEL_OPTIONAL && !f.GetProto3Optional() && f.OneofIndex == nil
			})
			if f != nil && setScalarDefault(f) {
				return true
			}
		}
		return false
	}},
	{"default-on-repeated-field", false, func(r *core.Rand, p *descriptorpb.FileDescriptorProto) bool {
		for _, m := range plainMsgs(p) {
			f := plainField(r, m, func(f *descriptorpb.FieldDescriptorProto) bool {
				return f.GetLabel() == descriptorpb.FieldDescriptorProto_LABEL_REPEATED && f.GetTypeName() == ""
			})
			if f != nil && setScalarDefault(f) {
				return true
			}
		}
		return false
	}},
	{"extension-packed-on-unpackable", false, func(r *core.Rand, p *descriptorpb.FileDescriptorProto) bool {
		x := pickExt(r, p, func(x *descriptorpb.FieldDescriptorProto) bool {
			return x.GetLabel() == descriptorpb.FieldDescriptorProto_LABEL_REPEATED && (x.GetType() == descriptorpb.FieldDescriptorProto_TYPE_STRING || x.GetType() == descriptorpb.FieldDescriptorProto_TYPE_BYTES || x.GetType() == descriptorpb.FieldDescriptorProto_TYPE_MESSAGE)
		})
		if x == nil {
			x = pickExt(r, p, func(x *descriptorpb.FieldDescriptorProto) bool {
				return x.GetLabel() == descriptorpb.FieldDescriptorProto_LABEL_OPTIONAL && x.GetType() == descriptorpb.FieldDescriptorProto_TYPE_INT32
			})
		}
		if x == nil {
			return false
		}
		if x.Options == nil {
			x.Options = &descriptorpb.FieldOptions{}
		}
		x.Options.Packed = proto.Bool(true)
		return true
	}},
	{"extension-number-invalid", false, func(r *core.Rand, p *descriptorpb.FileDescriptorProto) bool {
		x := pickExt(r, p, func(x *descriptorpb.FieldDescriptorProto) bool { return true })
		if x == nil {
			return false
		}
		x.Number = proto.Int32([]int32{0, -5, 536870912, 19500}[r.Intn(4)])
		return true
	}},
	{"duplicate-enum-name", false, func(r *core.Rand, p *descriptorpb.FileDescriptorProto) bool {
		if len(p.EnumType) == 0 {
			return false
		}
		e := proto.Clone(p.EnumType[r.Intn(len(p.EnumType))]).(*descriptorpb.EnumDescriptorProto)
		for _, v := range e.Value {
			v.Name = proto.String(v.GetName() + "_DUPZZ")
		}
		p.EnumType = append(p.EnumType, e)
		return true
	}},
	{"duplicate-service-or-method-name", false, func(r *core.Rand, p *descriptorpb.FileDescriptorProto) bool {
		if len(p.Service) == 0 {
			return false
		}
		sv := p.Service[r.Intn(len(p.Service))]
		if len(sv.Method) > 0 && r.Bool() {
			sv.Method = append(sv.Method, proto.Clone(sv.Method[r.Intn(len(sv.Method))]).(*descriptorpb.MethodDescriptorProto))
			return true
		}
		p.Service = append(p.Service, proto.Clone(sv).(*descriptorpb.ServiceDescriptorProto))
		return true
	}},
	{"oneof-name-clash", false, func(r *core.Rand, p *descriptorpb.FileDescriptorProto) bool {
		m := pickMsg(r, plainMsgs(p), func(m *descriptorpb.DescriptorProto) bool {
			if len(m.OneofDecl) == 0 || len(m.Field) == 0 {
				return false
			}
			for _, f := range m.Field {
				if f.GetProto3Optional() {
					return false
				}
			}
			return true
		})
		if m == nil {
			return false
		}
		// the oneof takes the name of a field of the same message (one scope)
		o := m.OneofDecl[r.Intn(len(m.OneofDecl))]
		o.Name = proto.String(m.Field[r.Intn(len(m.Field))].GetName())
		return true
	}},
	{"duplicate-extension-name", false, func(r *core.Rand, p *descriptorpb.FileDescriptorProto) bool {
		if len(p.Extension) == 0 {
			return false
		}
		x := proto.Clone(p.Extension[r.Intn(len(p.Extension))]).(*descriptorpb.FieldDescriptorProto)
		p.Extension = append(p.Extension, x)
		return true
	}},
	{"enum-value-without-number", false, func(r *core.Rand, p *descriptorpb.FileDescriptorProto) bool {
		e := pickEnum(r, p, func(e *descriptorpb.EnumDescriptorProto) bool { return len(e.Value) > 1 })
		if e == nil {
			return false
		}
		e.Value[1+r.Intn(len(e.Value)-1)].Number = nil
		return true
	}},
	{"duplicate-reserved-name", false, func(r *core.Rand, p *descriptorpb.FileDescriptorProto) bool {
		if r.Bool() {
			if e := pickEnum(r, p, func(e *descriptorpb.EnumDescriptorProto) bool { return len(e.ReservedName) > 0 }); e != nil {
				e.ReservedName = append(e.ReservedName, e.ReservedName[r.Intn(len(e.ReservedName))])
				return true
			}
		}
		m := pickMsg(r, plainMsgs(p), func(m *descriptorpb.DescriptorProto) bool { return len(m.ReservedName) > 0 })
		if m == nil {
			return false
		}
		m.ReservedName = append(m.ReservedName, m.ReservedName[r.Intn(len(m.ReservedName))])
		return true
	}},
	{"duplicate-public-dependency", false, func(r *core.Rand, p *descriptorpb.FileDescriptorProto) bool {
		if len(p.PublicDependency) == 0 {
			return false
		}
		p.PublicDependency = append(p.PublicDependency, p.PublicDependency[0])
		return true
	}},
	{"closed-enum-in-proto3-field", false, func(r *core.Rand, p *descriptorpb.FileDescriptorProto) bool {
		if !isP3(p) {
			return false
		}
		// descriptor.proto's enums are proto2 (closed)
		m := pickMsg(r, plainMsgs(p), func(m *descriptorpb.DescriptorProto) bool { return maxNum(m) < 400000000 })
		if m == nil {
			return false
		}
		has := false
		for _, d := range p.Dependency {
			has = has || d == "google/protobuf/descriptor.proto"
		}
		if !has {
			p.Dependency = append(p.Dependency, "google/protobuf/descriptor.proto")
		}
		f := newField("closed_zz", maxNum(m)+1, descriptorpb.FieldDescriptorProto_TYPE_ENUM)
		f.TypeName = proto.String(".google.protobuf.FieldDescriptorProto.Type")
		m.Field = append(m.Field, f)
		return true
	}},
}

func runC35(c *core.Ctx, b core.Batch) {
	n := c.Scale(40, 900)
	seenClass := map[string]bool{}
	for i := 0; i < n; i++ {
		r := c.Rng(uint64(i))
		o := gen.SchemaOpts{Prefix: fmt.Sprintf("c35.b%d.s%d", b.N, i), Features: i%2 == 0}
		if i%4 == 1 {
			o.Syntax = 3
		}
		if i%4 == 2 {
			o.Syntax = 2
		}
		s := gen.GenSchema(r, o)
		reg := &protoregistry.Files{}
		for fi, p := range s.Files {
			fd, err := protodesc.NewFile(p, fallbackResolver{reg})
			if err != nil {
				c.Count("base_rejected")
				break
			}
			c.Count("bases_accepted")
			c.Log("C35 base %s file %d", o.Prefix, fi)
			try := func(q *descriptorpb.FileDescriptorProto, allowUnres bool, fp string) (error, bool) {
				var e error
				raw, _ := proto.MarshalOptions{Deterministic: true}.Marshal(q)
				c.Log("C35 %s allow=%v proto=%s", fp, allowUnres, core.Hex(raw))
				ok := c.NoPanic("validate:panic:"+fp, map[string]any{"proto": core.Hex(raw), "allow_unresolvable": allowUnres, "text": clip(q.String(), 3000)}, func() {
					_, e = protodesc.FileOptions{AllowUnresolvable: allowUnres}.New(q, fallbackResolver{reg})
				})
				return e, ok
			}
			// (a) random edits
			for k := 0; k < c.Scale(25, 60); k++ {
				q := proto.Clone(p).(*descriptorpb.FileDescriptorProto)
				rr := r.Fork(uint64(1000 + k))
				edits := 1 + rr.Intn(3)
				done := 0
				for e := 0; e < edits*4 && done < edits; e++ {
					if randEdit(rr, q.ProtoReflect(), 0) {
						done++
					}
				}
				if done == 0 || proto.Equal(p, q) {
					continue
				}
				c.Eval()
				c.Count("random_edits")
				qb, _ := proto.MarshalOptions{Deterministic: true}.Marshal(q)
				c.DistinctBytes(qb)
				for _, allow := range []bool{false, true} {
					if e, ok := try(q, allow, "random-edit"); ok {
						if e != nil {
							c.Count("random_edit_rejected")
						} else {
							c.Count("random_edit_accepted")
						}
					}
				}
			}
			// (b) targeted injections
			for ii, inj := range c35Injectors {
				q := proto.Clone(p).(*descriptorpb.FileDescriptorProto)
				if !inj.apply(r.Fork(uint64(5000+ii)), q) {
					c.Count("injector_not_applicable")
					continue
				}
				c.Eval()
				c.Count("injections")
				if !seenClass[inj.name] {
					seenClass[inj.name] = true
				}
				c.Count("inj:" + inj.name)
				qb, _ := proto.MarshalOptions{Deterministic: true}.Marshal(q)
				c.DistinctBytes(qb)
				for _, allow := range []bool{false, true} {
					e, ok := try(q, allow, "inject:"+inj.name)
					if !ok {
						continue
					}
					if e == nil && !(allow && inj.needsResolution) {
						c.Violation(fmt.Sprintf("validate:invalid-schema-accepted:%s:allow-unresolvable=%v", inj.name, allow), map[string]any{"proto": core.Hex(qb), "text": clip(q.String(), 3000), "syntax": p.GetSyntax()})
					}
				}
				if c.WantSample() && ii == 3 {
					c.Sample(map[string]any{"base": p.GetName(), "injection": inj.name, "rejected": true})
				}
			}
			reg.RegisterFile(fd)
		}
	}
	c.CountN("injection_classes_seen_local", int64(len(seenClass)))
}
