package checks

import (
	"fmt"
	"go/ast"
	"go/importer"
	"go/parser"
	"go/token"
	"go/types"
	"io"
	"os"
	"os/exec"
	"path/filepath"
	"regexp"
	"sort"
	"strings"

	"google.golang.org/protobuf/cmd/protoc-gen-go/internal_gengo"
	"google.golang.org/protobuf/compiler/protogen"
	"google.golang.org/protobuf/proto"
	"google.golang.org/protobuf/types/descriptorpb"
	"google.golang.org/protobuf/types/pluginpb"
	"google.golang.org/protobuf/verif/core"
	"google.golang.org/protobuf/verif/gen"
)

// c42tc judges generated code with the Go type checker (go/types over the
// export data of the repository's packages): the generator runs in-process
// (protogen + internal_gengo), its output is parsed and type-checked.
type c42tc struct {
	exports map[string]string
	imp     types.Importer
	fset    *token.FileSet
}

func newC42TC() (*c42tc, error) {
	args := []string{"list"}
	if mf := os.Getenv("VERIF_MODFILE"); mf != "" {
		args = append(args, "-modfile="+mf)
	}
	args = append(args, "-tags", "verif", "-export", "-deps", "-f", "{{.ImportPath}}={{.Export}}",
		"google.golang.org/protobuf/runtime/protoimpl", "google.golang.org/protobuf/reflect/protoreflect", "google.golang.org/protobuf/runtime/protoiface",
		"google.golang.org/protobuf/types/descriptorpb", "google.golang.org/protobuf/types/gofeaturespb", "reflect", "sync", "unsafe")
	cmd := exec.Command("go", args...)
	cmd.Dir = filepath.Join(os.Getenv("VERIF_DIR"), "harness")
	cmd.Env = goEnv()
	out, err := cmd.Output()
	if err != nil {
		msg := ""
		if ee, ok := err.(*exec.ExitError); ok {
			msg = clip(string(ee.Stderr), 1500)
		}
		return nil, fmt.Errorf("go list -export: %v: %s", err, msg)
	}
	t := &c42tc{exports: map[string]string{}, fset: token.NewFileSet()}
	for _, l := range strings.Split(string(out), "\n") {
		if i := strings.Index(l, "="); i > 0 && len(l) > i+1 {
			t.exports[l[:i]] = l[i+1:]
		}
	}
	t.imp = importer.ForCompiler(t.fset, "gc", func(path string) (io.ReadCloser, error) {
		f, ok := t.exports[path]
		if !ok {
			return nil, fmt.Errorf("no export data for %s", path)
		}
		return os.Open(f)
	})
	return t, nil
}

var (
	reTCRedec = regexp.MustCompile(`^(\w+) redeclared`)
	reTCDigit = regexp.MustCompile(`[0-9]+`)
)

// generate runs the generator in-process; returns file name -> content.
func c42Generate(req *pluginpb.CodeGeneratorRequest) (map[string]string, *protogen.Plugin, error) {
	plugin, err := protogen.Options{}.New(req)
	if err != nil {
		return nil, nil, err
	}
	for _, f := range plugin.Files {
		if f.Generate {
			internal_gengo.GenerateFile(plugin, f)
		}
	}
	resp := plugin.Response()
	if resp.Error != nil {
		return nil, plugin, fmt.Errorf("%s", resp.GetError())
	}
	out := map[string]string{}
	for _, f := range resp.File {
		out[f.GetName()] = f.GetContent()
	}
	return out, plugin, nil
}

// check type-checks one generated package; returns the distinct error classes.
func (t *c42tc) check(fdp *descriptorpb.FileDescriptorProto, level string, files map[string]string) (classes map[string]string) {
	classes = map[string]string{}
	var names []string
	for n := range files {
		names = append(names, n)
	}
	sort.Strings(names)
	var errs []string
	// the hybrid level emits two mutually exclusive files (build tag protoopaque): each is a package of its own
	for _, n := range names {
		f, err := parser.ParseFile(t.fset, n, files[n], 0)
		if err != nil {
			classes["generated-source-does-not-parse"] = errStr(err)
			return
		}
		conf := types.Config{Importer: t.imp, Error: func(err error) {
			if te, ok := err.(types.Error); ok {
				errs = append(errs, te.Msg)
			} else {
				errs = append(errs, err.Error())
			}
		}}
		conf.Check("example.com/c42/p", t.fset, []*ast.File{f}, nil)
	}
	if len(errs) == 0 {
		return
	}
	// the declaration-level errors are the causes; uses of a clashing name follow from them
	var sameName []string
	redeclared := map[string]bool{}
	for _, e := range errs {
		switch {
		case strings.HasPrefix(e, "field and method with the same name"):
			sameName = append(sameName, e)
		case reTCRedec.MatchString(e):
			redeclared[reTCRedec.FindStringSubmatch(e)[1]] = true
		}
	}
	if len(sameName) > 0 {
		classes["field-and-method-with-the-same-name"] = strings.Join(sameName, "; ")
	}
	if len(redeclared) > 0 {
		cl := "redeclared"
		if c42AllOneofWrappers(fdp, level, redeclared) {
			cl = "oneof-wrapper-vs-oneof-wrapper"
		}
		var l []string
		for n := range redeclared {
			l = append(l, n)
		}
		sort.Strings(l)
		classes[cl] = strings.Join(l, ", ")
	}
	if len(classes) == 0 {
		// some other type error: keep its text without names and numbers
		e := reTCDigit.ReplaceAllString(errs[0], "N")
		classes["type-error:"+clip(e, 60)] = strings.Join(errs, "; ")
	}
	return
}

// c42AllOneofWrappers: every redeclared package-level name is the wrapper type of at least two oneof members.
func c42AllOneofWrappers(fdp *descriptorpb.FileDescriptorProto, level string, names map[string]bool) bool {
	req := &pluginpb.CodeGeneratorRequest{FileToGenerate: []string{fdp.GetName()}, ProtoFile: []*descriptorpb.FileDescriptorProto{fdp}, Parameter: proto.String("default_api_level=" + level)}
	var plugin *protogen.Plugin
	var err error
	if p, _, _ := core.Try(func() { plugin, err = protogen.Options{}.New(req) }); p || err != nil {
		return false
	}
	count := map[string]int{}
	var walk func(ms []*protogen.Message)
	walk = func(ms []*protogen.Message) {
		for _, m := range ms {
			for _, f := range m.Fields {
				if f.Oneof != nil && !f.Oneof.Desc.IsSynthetic() {
					count[f.GoIdent.GoName]++
				}
			}
			walk(m.Messages)
		}
	}
	for _, f := range plugin.Files {
		walk(f.Messages)
	}
	for n := range names {
		// the opaque code also declares an unexported twin of each wrapper type
		if count[n] < 2 && count[strings.ToUpper(n[:1])+n[1:]] < 2 {
			return false
		}
	}
	return true
}

// c42JSONConflict: two fields of one message share a default JSON name (protoc
// rejects that outside proto2, so such a schema is not a valid input).
func c42JSONConflict(fdp *descriptorpb.FileDescriptorProto) bool {
	if fdp.GetSyntax() == "proto2" || fdp.GetSyntax() == "" {
		return false
	}
	var bad func(ms []*descriptorpb.DescriptorProto) bool
	bad = func(ms []*descriptorpb.DescriptorProto) bool {
		for _, m := range ms {
			seen := map[string]bool{}
			for _, f := range m.Field {
				j := strings.ToLower(gen.JSONCamel(f.GetName()))
				if seen[j] {
					return true
				}
				seen[j] = true
			}
			if bad(m.NestedType) {
				return true
			}
		}
		return false
	}
	return bad(fdp.MessageType)
}

// c42TypeCheck: the generator's output for the hostile-name schema, at the
// hybrid and opaque API levels, must be accepted by the Go type checker.
func c42TypeCheck(c *core.Ctx, t *c42tc, fdp *descriptorpb.FileDescriptorProto) {
	if c42JSONConflict(fdp) {
		c.Count("typecheck_skipped_json_name_conflict")
		return
	}
	text := clip(fdp.String(), 3000)
	for _, level := range []string{"API_HYBRID", "API_OPAQUE"} {
		req := &pluginpb.CodeGeneratorRequest{FileToGenerate: []string{fdp.GetName()}, Parameter: proto.String("default_api_level=" + level), ProtoFile: []*descriptorpb.FileDescriptorProto{fdp}}
		var files map[string]string
		var err error
		c.Eval()
		c.Log("C42 typecheck %s level=%s", fdp.GetName(), level)
		if !c.NoPanic("names:generator-panic:"+level, map[string]any{"proto": text}, func() { files, _, err = c42Generate(req) }) {
			continue
		}
		if err != nil {
			if files == nil && strings.Contains(errStr(err), "unparsable Go source") {
				c.Violation("names:generator-output-unparsable:"+level, map[string]any{"proto": text, "err": clip(errStr(err), 600)})
			} else {
				c.Count("typecheck_generator_refused")
			}
			continue
		}
		c.Count("typechecked_files:" + strings.ToLower(strings.TrimPrefix(level, "API_")))
		for cl, what := range t.check(fdp, level, files) {
			// a recorded cause recognised on the schema as it is needs no minimisation
			if redeclaredWrappers := cl == "oneof-wrapper-vs-oneof-wrapper"; redeclaredWrappers {
				c.Violation("names:typecheck:"+level+":"+cl, map[string]any{"errors": clip(what, 1500), "proto": text})
				continue
			}
			if ks := c42KnownShape(fdp, level, cl, what); ks != nil {
				for _, k := range ks {
					c.Violation("names:typecheck:"+level+":"+k, map[string]any{"errors": clip(what, 1500), "proto": text})
				}
				continue
			}
			// otherwise the classes are decided on the minimised schema and its own error list
			min := t.minimise(fdp, level, cl)
			c.Count("typecheck_minimisations")
			minWhat := what
			mreq := &pluginpb.CodeGeneratorRequest{FileToGenerate: []string{min.GetName()}, Parameter: proto.String("default_api_level=" + level), ProtoFile: []*descriptorpb.FileDescriptorProto{min}}
			if mf, _, e := c42Generate(mreq); e == nil {
				if w, ok := t.check(min, level, mf)[cl]; ok {
					minWhat = w
				}
			}
			if ks := c42KnownShape(min, level, cl, minWhat); ks != nil {
				for _, k := range ks {
					c.Violation("names:typecheck:"+level+":"+k, map[string]any{"errors": clip(what, 1500), "proto": text, "minimal": c42MinShape(min)})
				}
				continue
			}
			c.Violation("names:typecheck:"+level+":"+cl, map[string]any{"errors": clip(what, 1500), "proto": text, "minimal": c42MinShape(min), "minimal_proto": clip(min.String(), 2000)})
		}
	}
}

// failsWith reports whether the generator output for fdp at level has a type error of the class.
func (t *c42tc) failsWith(fdp *descriptorpb.FileDescriptorProto, level, class string) bool {
	req := &pluginpb.CodeGeneratorRequest{FileToGenerate: []string{fdp.GetName()}, Parameter: proto.String("default_api_level=" + level), ProtoFile: []*descriptorpb.FileDescriptorProto{fdp}}
	var files map[string]string
	var err error
	if p, _, _ := core.Try(func() { files, _, err = c42Generate(req) }); p || err != nil {
		return false
	}
	_, ok := t.check(fdp, level, files)[class]
	return ok
}

// minimise greedily removes messages, nested types, enums, fields and oneofs
// while the type error of the class persists.
func (t *c42tc) minimise(fdp *descriptorpb.FileDescriptorProto, level, class string) *descriptorpb.FileDescriptorProto {
	cur := proto.Clone(fdp).(*descriptorpb.FileDescriptorProto)
	try := func(edit func(f *descriptorpb.FileDescriptorProto) bool) bool {
		cand := proto.Clone(cur).(*descriptorpb.FileDescriptorProto)
		if !edit(cand) {
			return false
		}
		if t.failsWith(cand, level, class) {
			cur = cand
			return true
		}
		return false
	}
	for changed := true; changed; {
		changed = false
		for mi := len(cur.MessageType) - 1; mi >= 0; mi-- {
			if try(func(f *descriptorpb.FileDescriptorProto) bool {
				f.MessageType = append(f.MessageType[:mi], f.MessageType[mi+1:]...)
				return true
			}) {
				changed = true
				continue
			}
			m := cur.MessageType[mi]
			if len(m.NestedType) > 0 && try(func(f *descriptorpb.FileDescriptorProto) bool { f.MessageType[mi].NestedType = nil; return true }) {
				changed = true
			}
			if len(m.EnumType) > 0 && try(func(f *descriptorpb.FileDescriptorProto) bool { f.MessageType[mi].EnumType = nil; return true }) {
				changed = true
			}
			for fi := len(cur.MessageType[mi].Field) - 1; fi >= 0; fi-- {
				if try(func(f *descriptorpb.FileDescriptorProto) bool {
					mm := f.MessageType[mi]
					rem := mm.Field[fi]
					mm.Field = append(mm.Field[:fi], mm.Field[fi+1:]...)
					if rem.OneofIndex != nil {
						oi := rem.GetOneofIndex()
						left := 0
						for _, o := range mm.Field {
							if o.OneofIndex != nil && o.GetOneofIndex() == oi {
								left++
							}
						}
						if left == 0 {
							mm.OneofDecl = append(mm.OneofDecl[:oi], mm.OneofDecl[oi+1:]...)
							for _, o := range mm.Field {
								if o.OneofIndex != nil && o.GetOneofIndex() > oi {
									o.OneofIndex = proto.Int32(o.GetOneofIndex() - 1)
								}
							}
						}
					}
					return true
				}) {
					changed = true
				}
			}
			// turn what is left into plain optional int32 fields where that keeps the error
			for fi := range cur.MessageType[mi].Field {
				fd := cur.MessageType[mi].Field[fi]
				if fd.GetType() != descriptorpb.FieldDescriptorProto_TYPE_INT32 || fd.GetLabel() != descriptorpb.FieldDescriptorProto_LABEL_OPTIONAL {
					if try(func(f *descriptorpb.FileDescriptorProto) bool {
						x := f.MessageType[mi].Field[fi]
						x.Type = descriptorpb.FieldDescriptorProto_TYPE_INT32.Enum()
						x.TypeName = nil
						x.Label = descriptorpb.FieldDescriptorProto_LABEL_OPTIONAL.Enum()
						return true
					}) {
						changed = true
					}
				}
			}
		}
	}
	return cur
}

// c42MinShape renders the member names of a (minimised) file: message by message,
// fields (with their oneof), oneofs and nested types.
func c42MinShape(fdp *descriptorpb.FileDescriptorProto) string {
	var parts []string
	for _, m := range fdp.MessageType {
		var l []string
		for _, f := range m.Field {
			s := f.GetName()
			if f.GetLabel() == descriptorpb.FieldDescriptorProto_LABEL_REPEATED {
				s += "[]"
			}
			if f.GetType() == descriptorpb.FieldDescriptorProto_TYPE_MESSAGE {
				s += "{}"
			}
			if f.OneofIndex != nil {
				s += "@" + m.OneofDecl[f.GetOneofIndex()].GetName()
			}
			l = append(l, s)
		}
		for _, n := range m.NestedType {
			l = append(l, "nested:"+n.GetName())
		}
		parts = append(parts, fdp.GetSyntax()+"("+strings.Join(l, " ")+")")
	}
	return strings.Join(parts, " ")
}

var (
	reTCMethod  = regexp.MustCompile(`method (\w+)\.(\w+) already declared`)
	reTCSameNam = regexp.MustCompile(`field and method with the same name (\w+)`)
)

// c42decl is one member (exported struct field or method) the generator declares for a message.
type c42decl struct {
	name, scheme, origin string // scheme: "old" (struct-field naming of the open API) or "new" (opaque accessor naming)
	oneofGetter          bool
	camel                string // the resolved CamelCase the new scheme works with
}

// c42Decls lists what a hybrid (or opaque) message declares, from protogen's public naming API.
func c42Decls(m *protogen.Message, hybrid bool) (decls []c42decl, camels map[string]bool) {
	camels = map[string]bool{}
	seenOneof := map[*protogen.Oneof]bool{}
	for _, f := range m.Fields {
		origin := "field:" + string(f.Desc.Name())
		camel := f.BuilderFieldName()
		camels[camel] = true
		member := f.Oneof != nil && !f.Oneof.Desc.IsSynthetic()
		if hybrid && !member {
			decls = append(decls, c42decl{name: f.GoName, scheme: "old", origin: origin, camel: camel})
		}
		get, compat := f.MethodName("Get")
		decls = append(decls, c42decl{name: get, scheme: "new", origin: origin, camel: camel})
		if compat != "" {
			decls = append(decls, c42decl{name: compat, scheme: "old", origin: origin, camel: camel})
		}
		for _, op := range []string{"Set", "Has", "Clear"} {
			if n, _ := f.MethodName(op); n != "" && (op == "Set" || f.Desc.HasPresence()) {
				decls = append(decls, c42decl{name: n, scheme: "new", origin: origin, camel: camel})
			}
		}
		if member && !seenOneof[f.Oneof] {
			seenOneof[f.Oneof] = true
			o := f.Oneof
			oorigin := "oneof:" + string(o.Desc.Name())
			ocamel := strings.TrimPrefix(strings.TrimPrefix(o.MethodName("Which"), "Which"), "_")
			camels[ocamel] = true
			if hybrid {
				decls = append(decls, c42decl{name: o.GoName, scheme: "old", origin: oorigin, camel: ocamel})
				decls = append(decls, c42decl{name: "Get" + o.GoName, scheme: "old", origin: oorigin, camel: ocamel, oneofGetter: true})
			}
			for _, op := range []string{"Which", "Has", "Clear"} {
				decls = append(decls, c42decl{name: o.MethodName(op), scheme: "new", origin: oorigin, camel: ocamel})
			}
		}
	}
	return
}

// c42KnownShape explains the member clashes the type checker reports by the
// recorded causes, on protogen's own naming of the schema:
//
//	old-scheme-name-not-seen-by-clash-detection (hybrid): the name is declared
//	once by the struct-field naming scheme of the open API (struct field,
//	compatibility getter, oneof getter) and once by the opaque accessor
//	naming, and it is not one of the CamelCase names the opaque clash
//	detection looks at (opaqueNewMessageHook compares <Op>+CamelCase with
//	CamelCase names only);
//	oneof-camelcase-equals-member-camelcase: two accessors of the opaque
//	naming coincide because a oneof and a field (or another oneof) have the
//	same CamelCase (CamelCase conflicts are resolved between fields only);
//	oneof-getter-vs-struct-field (hybrid): both declarations come from the
//	open-API naming and one is a oneof getter (the recorded protogen finding).
//
// Every clash name must be explained, otherwise "" is returned.
func c42KnownShape(fdp *descriptorpb.FileDescriptorProto, level, class, errors string) []string {
	type clash struct{ recv, name string }
	var clashes []clash
	for _, m := range reTCMethod.FindAllStringSubmatch(errors, -1) {
		clashes = append(clashes, clash{m[1], m[2]})
	}
	for _, m := range reTCSameNam.FindAllStringSubmatch(errors, -1) {
		clashes = append(clashes, clash{"", m[1]})
	}
	if len(clashes) == 0 || (!strings.HasPrefix(class, "type-error:method ") && class != "field-and-method-with-the-same-name") {
		return nil
	}
	// the hybrid level emits a second file (build tag protoopaque) that follows the opaque naming
	type lvlMsg struct {
		m      *protogen.Message
		hybrid bool
	}
	var msgs []lvlMsg
	levels := []string{level}
	if level == "API_HYBRID" {
		levels = append(levels, "API_OPAQUE")
	}
	for _, lv := range levels {
		req := &pluginpb.CodeGeneratorRequest{FileToGenerate: []string{fdp.GetName()}, ProtoFile: []*descriptorpb.FileDescriptorProto{fdp}, Parameter: proto.String("default_api_level=" + lv)}
		var plugin *protogen.Plugin
		var err error
		if p, _, _ := core.Try(func() { plugin, err = protogen.Options{}.New(req) }); p || err != nil {
			return nil
		}
		var walk func(ms []*protogen.Message)
		walk = func(ms []*protogen.Message) {
			for _, m := range ms {
				if !m.Desc.IsMapEntry() {
					msgs = append(msgs, lvlMsg{m, lv == "API_HYBRID"})
					walk(m.Messages)
				}
			}
		}
		for _, f := range plugin.Files {
			walk(f.Messages)
		}
	}
	found := map[string]bool{}
	for _, cl := range clashes {
		explained := ""
		for _, lm := range msgs {
			m := lm.m
			if cl.recv != "" && m.GoIdent.GoName != cl.recv {
				continue
			}
			decls, camels := c42Decls(m, lm.hybrid)
			var ds []c42decl
			for _, d := range decls {
				if d.name == cl.name {
					ds = append(ds, d)
				}
			}
			for i := range ds {
				for j := range ds {
					a, b := ds[i], ds[j]
					if a.origin == b.origin {
						continue
					}
					switch {
					case a.scheme == "old" && b.scheme == "new" && !camels[a.name]:
						explained = "old-scheme-name-not-seen-by-clash-detection"
					case explained == "" && a.scheme == "new" && b.scheme == "new" && a.camel == b.camel && (strings.HasPrefix(a.origin, "oneof:") || strings.HasPrefix(b.origin, "oneof:")):
						explained = "oneof-camelcase-equals-member-camelcase"
					case explained == "" && a.scheme == "old" && b.scheme == "old" && (a.oneofGetter || b.oneofGetter):
						explained = "oneof-getter-vs-struct-field"
					}
				}
			}
			if explained != "" {
				break
			}
		}
		if explained == "" {
			return nil
		}
		found[explained] = true
	}
	var l []string
	for k := range found {
		l = append(l, k)
	}
	sort.Strings(l)
	return l
}
