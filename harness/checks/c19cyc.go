package checks

// Mutually recursive struct-tag-only messages for C19: C19CycA reaches C19CycB
// through its first field and declares many more fields after it, so that deriving
// its descriptor takes a while after the inner type has been derived.

type C19CycA struct {
	B    *C19CycB   `protobuf:"bytes,1,opt,name=b"`
	F2   *int32     `protobuf:"varint,2,opt,name=f2"`
	F3   *string    `protobuf:"bytes,3,opt,name=f3"`
	F4   *int64     `protobuf:"zigzag64,4,opt,name=f4"`
	F5   *uint32    `protobuf:"fixed32,5,opt,name=f5"`
	F6   []byte     `protobuf:"bytes,6,opt,name=f6"`
	F7   *bool      `protobuf:"varint,7,opt,name=f7"`
	F8   *float64   `protobuf:"fixed64,8,opt,name=f8"`
	F9   *int32     `protobuf:"varint,9,opt,name=f9"`
	F10  *string    `protobuf:"bytes,10,opt,name=f10"`
	F11  *int64     `protobuf:"zigzag64,11,opt,name=f11"`
	F12  *uint32    `protobuf:"fixed32,12,opt,name=f12"`
	F13  []byte     `protobuf:"bytes,13,opt,name=f13"`
	F14  *bool      `protobuf:"varint,14,opt,name=f14"`
	F15  *float64   `protobuf:"fixed64,15,opt,name=f15"`
	F16  *int32     `protobuf:"varint,16,opt,name=f16"`
	L17  *C19Leaf1  `protobuf:"bytes,17,opt,name=l17"`
	F18  *string    `protobuf:"bytes,18,opt,name=f18"`
	F19  *int64     `protobuf:"zigzag64,19,opt,name=f19"`
	F20  *uint32    `protobuf:"fixed32,20,opt,name=f20"`
	F21  []byte     `protobuf:"bytes,21,opt,name=f21"`
	F22  *bool      `protobuf:"varint,22,opt,name=f22"`
	F23  *float64   `protobuf:"fixed64,23,opt,name=f23"`
	F24  *int32     `protobuf:"varint,24,opt,name=f24"`
	F25  *string    `protobuf:"bytes,25,opt,name=f25"`
	F26  *int64     `protobuf:"zigzag64,26,opt,name=f26"`
	F27  *uint32    `protobuf:"fixed32,27,opt,name=f27"`
	F28  []byte     `protobuf:"bytes,28,opt,name=f28"`
	F29  *bool      `protobuf:"varint,29,opt,name=f29"`
	F30  *float64   `protobuf:"fixed64,30,opt,name=f30"`
	F31  *int32     `protobuf:"varint,31,opt,name=f31"`
	F32  *string    `protobuf:"bytes,32,opt,name=f32"`
	L33  *C19Leaf2  `protobuf:"bytes,33,opt,name=l33"`
	F34  *int64     `protobuf:"zigzag64,34,opt,name=f34"`
	F35  *uint32    `protobuf:"fixed32,35,opt,name=f35"`
	F36  []byte     `protobuf:"bytes,36,opt,name=f36"`
	F37  *bool      `protobuf:"varint,37,opt,name=f37"`
	F38  *float64   `protobuf:"fixed64,38,opt,name=f38"`
	F39  *int32     `protobuf:"varint,39,opt,name=f39"`
	F40  *string    `protobuf:"bytes,40,opt,name=f40"`
	F41  *int64     `protobuf:"zigzag64,41,opt,name=f41"`
	F42  *uint32    `protobuf:"fixed32,42,opt,name=f42"`
	F43  []byte     `protobuf:"bytes,43,opt,name=f43"`
	F44  *bool      `protobuf:"varint,44,opt,name=f44"`
	F45  *float64   `protobuf:"fixed64,45,opt,name=f45"`
	F46  *int32     `protobuf:"varint,46,opt,name=f46"`
	F47  *string    `protobuf:"bytes,47,opt,name=f47"`
	F48  *int64     `protobuf:"zigzag64,48,opt,name=f48"`
	L49  *C19Leaf3  `protobuf:"bytes,49,opt,name=l49"`
	F50  *uint32    `protobuf:"fixed32,50,opt,name=f50"`
	F51  []byte     `protobuf:"bytes,51,opt,name=f51"`
	F52  *bool      `protobuf:"varint,52,opt,name=f52"`
	F53  *float64   `protobuf:"fixed64,53,opt,name=f53"`
	F54  *int32     `protobuf:"varint,54,opt,name=f54"`
	F55  *string    `protobuf:"bytes,55,opt,name=f55"`
	F56  *int64     `protobuf:"zigzag64,56,opt,name=f56"`
	F57  *uint32    `protobuf:"fixed32,57,opt,name=f57"`
	F58  []byte     `protobuf:"bytes,58,opt,name=f58"`
	F59  *bool      `protobuf:"varint,59,opt,name=f59"`
	F60  *float64   `protobuf:"fixed64,60,opt,name=f60"`
	F61  *int32     `protobuf:"varint,61,opt,name=f61"`
	F62  *string    `protobuf:"bytes,62,opt,name=f62"`
	F63  *int64     `protobuf:"zigzag64,63,opt,name=f63"`
	F64  *uint32    `protobuf:"fixed32,64,opt,name=f64"`
	L65  *C19Leaf1  `protobuf:"bytes,65,opt,name=l65"`
	F66  []byte     `protobuf:"bytes,66,opt,name=f66"`
	F67  *bool      `protobuf:"varint,67,opt,name=f67"`
	F68  *float64   `protobuf:"fixed64,68,opt,name=f68"`
	F69  *int32     `protobuf:"varint,69,opt,name=f69"`
	F70  *string    `protobuf:"bytes,70,opt,name=f70"`
	F71  *int64     `protobuf:"zigzag64,71,opt,name=f71"`
	F72  *uint32    `protobuf:"fixed32,72,opt,name=f72"`
	F73  []byte     `protobuf:"bytes,73,opt,name=f73"`
	F74  *bool      `protobuf:"varint,74,opt,name=f74"`
	F75  *float64   `protobuf:"fixed64,75,opt,name=f75"`
	F76  *int32     `protobuf:"varint,76,opt,name=f76"`
	F77  *string    `protobuf:"bytes,77,opt,name=f77"`
	F78  *int64     `protobuf:"zigzag64,78,opt,name=f78"`
	F79  *uint32    `protobuf:"fixed32,79,opt,name=f79"`
	F80  []byte     `protobuf:"bytes,80,opt,name=f80"`
	L81  *C19Leaf2  `protobuf:"bytes,81,opt,name=l81"`
	F82  *bool      `protobuf:"varint,82,opt,name=f82"`
	F83  *float64   `protobuf:"fixed64,83,opt,name=f83"`
	F84  *int32     `protobuf:"varint,84,opt,name=f84"`
	F85  *string    `protobuf:"bytes,85,opt,name=f85"`
	F86  *int64     `protobuf:"zigzag64,86,opt,name=f86"`
	F87  *uint32    `protobuf:"fixed32,87,opt,name=f87"`
	F88  []byte     `protobuf:"bytes,88,opt,name=f88"`
	F89  *bool      `protobuf:"varint,89,opt,name=f89"`
	F90  *float64   `protobuf:"fixed64,90,opt,name=f90"`
	F91  *int32     `protobuf:"varint,91,opt,name=f91"`
	F92  *string    `protobuf:"bytes,92,opt,name=f92"`
	F93  *int64     `protobuf:"zigzag64,93,opt,name=f93"`
	F94  *uint32    `protobuf:"fixed32,94,opt,name=f94"`
	F95  []byte     `protobuf:"bytes,95,opt,name=f95"`
	F96  *bool      `protobuf:"varint,96,opt,name=f96"`
	L97  *C19Leaf3  `protobuf:"bytes,97,opt,name=l97"`
	Back []*C19CycB `protobuf:"bytes,98,rep,name=back"`
}

func (*C19CycA) Reset()         {}
func (*C19CycA) String() string { return "C19CycA" }
func (*C19CycA) ProtoMessage()  {}

type C19CycB struct {
	A *C19CycA `protobuf:"bytes,1,opt,name=a"`
	N *int64   `protobuf:"varint,2,opt,name=n"`
}

func (*C19CycB) Reset()         {}
func (*C19CycB) String() string { return "C19CycB" }
func (*C19CycB) ProtoMessage()  {}

type C19Leaf1 struct {
	X1  *int64   `protobuf:"zigzag64,1,opt,name=x1"`
	X2  *uint32  `protobuf:"fixed32,2,opt,name=x2"`
	X3  []byte   `protobuf:"bytes,3,opt,name=x3"`
	X4  *bool    `protobuf:"varint,4,opt,name=x4"`
	X5  *float64 `protobuf:"fixed64,5,opt,name=x5"`
	X6  *int32   `protobuf:"varint,6,opt,name=x6"`
	X7  *string  `protobuf:"bytes,7,opt,name=x7"`
	X8  *int64   `protobuf:"zigzag64,8,opt,name=x8"`
	X9  *uint32  `protobuf:"fixed32,9,opt,name=x9"`
	X10 []byte   `protobuf:"bytes,10,opt,name=x10"`
	X11 *bool    `protobuf:"varint,11,opt,name=x11"`
	X12 *float64 `protobuf:"fixed64,12,opt,name=x12"`
}

func (*C19Leaf1) Reset()         {}
func (*C19Leaf1) String() string { return "C19Leaf1" }
func (*C19Leaf1) ProtoMessage()  {}

type C19Leaf2 struct {
	X1  *uint32  `protobuf:"fixed32,1,opt,name=x1"`
	X2  []byte   `protobuf:"bytes,2,opt,name=x2"`
	X3  *bool    `protobuf:"varint,3,opt,name=x3"`
	X4  *float64 `protobuf:"fixed64,4,opt,name=x4"`
	X5  *int32   `protobuf:"varint,5,opt,name=x5"`
	X6  *string  `protobuf:"bytes,6,opt,name=x6"`
	X7  *int64   `protobuf:"zigzag64,7,opt,name=x7"`
	X8  *uint32  `protobuf:"fixed32,8,opt,name=x8"`
	X9  []byte   `protobuf:"bytes,9,opt,name=x9"`
	X10 *bool    `protobuf:"varint,10,opt,name=x10"`
	X11 *float64 `protobuf:"fixed64,11,opt,name=x11"`
	X12 *int32   `protobuf:"varint,12,opt,name=x12"`
}

func (*C19Leaf2) Reset()         {}
func (*C19Leaf2) String() string { return "C19Leaf2" }
func (*C19Leaf2) ProtoMessage()  {}

type C19Leaf3 struct {
	X1  []byte   `protobuf:"bytes,1,opt,name=x1"`
	X2  *bool    `protobuf:"varint,2,opt,name=x2"`
	X3  *float64 `protobuf:"fixed64,3,opt,name=x3"`
	X4  *int32   `protobuf:"varint,4,opt,name=x4"`
	X5  *string  `protobuf:"bytes,5,opt,name=x5"`
	X6  *int64   `protobuf:"zigzag64,6,opt,name=x6"`
	X7  *uint32  `protobuf:"fixed32,7,opt,name=x7"`
	X8  []byte   `protobuf:"bytes,8,opt,name=x8"`
	X9  *bool    `protobuf:"varint,9,opt,name=x9"`
	X10 *float64 `protobuf:"fixed64,10,opt,name=x10"`
	X11 *int32   `protobuf:"varint,11,opt,name=x11"`
	X12 *string  `protobuf:"bytes,12,opt,name=x12"`
}

func (*C19Leaf3) Reset()         {}
func (*C19Leaf3) String() string { return "C19Leaf3" }
func (*C19Leaf3) ProtoMessage()  {}
