package checks

import (
	"reflect"

	"google.golang.org/protobuf/internal/strs"
	"google.golang.org/protobuf/reflect/protoreflect"
)

// Access to the generated Go API (methods and struct fields) through reflect.

func goName(fd protoreflect.FieldDescriptor) string { return strs.GoCamelCase(string(fd.Name())) }

func method(m protoreflect.Message, name string) (reflect.Value, bool) {
	v := reflect.ValueOf(m.Interface())
	mv := v.MethodByName(name)
	return mv, mv.IsValid()
}

// genHas calls the generated HasX method if the type has one.
func genHas(m protoreflect.Message, fd protoreflect.FieldDescriptor) (has, ok bool) {
	mv, ok := method(m, "Has"+goName(fd))
	if !ok || mv.Type().NumIn() != 0 || mv.Type().NumOut() != 1 || mv.Type().Out(0).Kind() != reflect.Bool {
		return false, false
	}
	return mv.Call(nil)[0].Bool(), true
}

// genClear calls the generated ClearX method if present.
func genClear(m protoreflect.Message, fd protoreflect.FieldDescriptor) bool {
	mv, ok := method(m, "Clear"+goName(fd))
	if !ok || mv.Type().NumIn() != 0 {
		return false
	}
	mv.Call(nil)
	return true
}

// goValue converts a protoreflect scalar/message value to a reflect.Value assignable to t.
func goValue(fd protoreflect.FieldDescriptor, v protoreflect.Value, t reflect.Type) (reflect.Value, bool) {
	switch {
	case fd.Message() != nil:
		rv := reflect.ValueOf(v.Message().Interface())
		if !rv.Type().AssignableTo(t) {
			return reflect.Value{}, false
		}
		return rv, true
	case fd.Kind() == protoreflect.EnumKind:
		rv := reflect.New(t).Elem()
		if rv.Kind() != reflect.Int32 {
			return reflect.Value{}, false
		}
		rv.SetInt(int64(v.Enum()))
		return rv, true
	case fd.Kind() == protoreflect.BytesKind:
		if t.Kind() != reflect.Slice {
			return reflect.Value{}, false
		}
		return reflect.ValueOf(v.Bytes()), true
	}
	rv := reflect.ValueOf(v.Interface())
	if !rv.Type().ConvertibleTo(t) || rv.Kind() != t.Kind() {
		return reflect.Value{}, false
	}
	return rv.Convert(t), true
}

// genSet calls the generated SetX(value) method (hybrid/opaque API) for a singular field.
func genSet(m protoreflect.Message, fd protoreflect.FieldDescriptor, v protoreflect.Value) bool {
	mv, ok := method(m, "Set"+goName(fd))
	if !ok || mv.Type().NumIn() != 1 {
		return false
	}
	arg, ok := goValue(fd, v, mv.Type().In(0))
	if !ok {
		return false
	}
	mv.Call([]reflect.Value{arg})
	return true
}

// genGet calls GetX() and converts a scalar result back to a protoreflect.Value.
func genGet(m protoreflect.Message, fd protoreflect.FieldDescriptor) (protoreflect.Value, bool) {
	mv, ok := method(m, "Get"+goName(fd))
	if !ok || mv.Type().NumIn() != 0 || mv.Type().NumOut() != 1 {
		return protoreflect.Value{}, false
	}
	out := mv.Call(nil)[0]
	switch fd.Kind() {
	case protoreflect.BoolKind:
		if out.Kind() == reflect.Bool {
			return protoreflect.ValueOfBool(out.Bool()), true
		}
	case protoreflect.EnumKind:
		if out.Kind() == reflect.Int32 {
			return protoreflect.ValueOfEnum(protoreflect.EnumNumber(out.Int())), true
		}
	case protoreflect.Int32Kind, protoreflect.Sint32Kind, protoreflect.Sfixed32Kind:
		if out.Kind() == reflect.Int32 {
			return protoreflect.ValueOfInt32(int32(out.Int())), true
		}
	case protoreflect.Int64Kind, protoreflect.Sint64Kind, protoreflect.Sfixed64Kind:
		if out.Kind() == reflect.Int64 {
			return protoreflect.ValueOfInt64(out.Int()), true
		}
	case protoreflect.Uint32Kind, protoreflect.Fixed32Kind:
		if out.Kind() == reflect.Uint32 {
			return protoreflect.ValueOfUint32(uint32(out.Uint())), true
		}
	case protoreflect.Uint64Kind, protoreflect.Fixed64Kind:
		if out.Kind() == reflect.Uint64 {
			return protoreflect.ValueOfUint64(out.Uint()), true
		}
	case protoreflect.FloatKind:
		if out.Kind() == reflect.Float32 {
			return protoreflect.ValueOfFloat32(float32(out.Float())), true
		}
	case protoreflect.DoubleKind:
		if out.Kind() == reflect.Float64 {
			return protoreflect.ValueOfFloat64(out.Float()), true
		}
	case protoreflect.StringKind:
		if out.Kind() == reflect.String {
			return protoreflect.ValueOfString(out.String()), true
		}
	case protoreflect.BytesKind:
		if out.Kind() == reflect.Slice && out.Type().Elem().Kind() == reflect.Uint8 {
			return protoreflect.ValueOfBytes(out.Bytes()), true
		}
	}
	return protoreflect.Value{}, false
}
