package checks

import (
	"google.golang.org/protobuf/proto"
	"google.golang.org/protobuf/reflect/protoreflect"
	"google.golang.org/protobuf/verif/core"
	"google.golang.org/protobuf/verif/model"
)

func init() {
	core.Register(&core.Check{
		ID:     "C28",
		Rule:   "cases: PRNG operation histories (<= 20 legal protoreflect operations: Set, set-to-zero, Clear, Mutable, NewField+Set, list Append/Set/Truncate/AppendMutable, map Set/Clear/Mutable, SetUnknown, extension fields through the same calls and proto.*Extension) applied in lock step to a real message (every linked type: open, hybrid, opaque, legacy; and its dynamicpb twin) and to the abstract message model; after EVERY operation all observables are compared: Has for every field and extension, Get defaults of unpopulated scalars, read-only empty composites, WhichOneof and member count of every oneof, full Range content (exactly once), list/map contents, unknown bytes; distinct = distinct (type, history); non-trivial = history of >= 3 applied operations",
		Assume: []string{"harness/model/msgmodel.go (abstract message transcribing the protoreflect contract)"},
		Batches: func(tier string) []core.Batch {
			if tier == "thorough" {
				return append(stdBatches([]string{"base"}, 16), stdBatches([]string{"race"}, 4)...)
			}
			return stdBatches([]string{"base"}, 16)
		},
		Gates: func(tier string) map[string]int64 {
			return map[string]int64{"histories": 3000, "ops_applied": 40000, "opfield:message/oneof": 100, "opfield:string/map": 0, "opfield:message/map": 100, "opfield:int32/ext-singular": 5, "dynamic_histories": 500, "extension_api_checks": 200}
		},
		Run: runC28,
	})
}

func runC28(c *core.Ctx, b core.Batch) {
	nb := 16
	if b.Cfg == "race" {
		nb = 4
	}
	types := shard(codecTypes(b), b.N, nb)
	if b.Cfg == "base" && b.N == 0 {
		// dynamic message types with oneofs at every position (see c12Shapes)
		if shapes, err := c12Shapes(); err == nil {
			for i, mt := range shapes {
				if i%4 == 0 || !c.Quick() {
					types = append(types, mt)
					c.Count("oneof_position_shapes")
				}
			}
		}
	}
	if b.Cfg == "base" && b.N == 1 {
		// dynamicpb over PRNG-generated schemas
		dt := schemaDynTypes(c, 0x28, c.Scale(8, 80))
		c.CountN("generated_schema_dynamic_types", int64(len(dt)))
		types = append(types, dt...)
	}
	per := c.Scale(40, 400)
	if b.Cfg == "race" {
		per = c.Scale(4, 30)
	}
	for ti, mt := range types {
		for k := 0; k < per; k++ {
			r := c.Rng(uint64(ti)<<24 | uint64(k))
			dyn := k%4 == 3
			m := newOf(mt, dyn)
			e := newEngine(c, r, m, "reflect")
			if dyn {
				e.fp = "reflect-dynamicpb"
				c.Count("dynamic_histories")
			}
			c.Count("histories")
			c.Eval()
			n := 3 + r.Intn(18)
			for i := 0; i < n && !e.bad; i++ {
				c.Log("C28 type=%s dyn=%v ops=%v", e.name, dyn, e.log)
				before := len(e.log)
				ok := c.NoPanic(e.fp+":panic:"+e.name, map[string]any{"ops": e.log}, func() { e.step() })
				if !ok {
					break
				}
				if len(e.log) > before {
					c.Count("ops_applied")
				}
				if !c.NoPanic(e.fp+":panic-in-observers:"+e.name, map[string]any{"ops": e.log}, func() { e.verify() }) {
					break
				}
			}
			if !e.bad {
				c28Extensions(c, e)
				c28ReadOnly(c, e)
				if len(e.log) >= 3 {
					c.DistinctStr(e.name + "|" + e.mod.String() + "|" + e.log[0])
				}
				if c.WantSample() && len(e.log) > 5 {
					c.Sample(map[string]any{"type": e.name, "dynamic": dyn, "history": e.log, "final_model": clip(e.mod.String(), 400)})
				}
			}
		}
	}
}

// c28Extensions cross-checks proto.HasExtension/GetExtension/ClearExtension with the model.
func c28Extensions(c *core.Ctx, e *opEngine) {
	for _, xt := range e.xts {
		xd := xt.TypeDescriptor()
		c.Count("extension_api_checks")
		ok := c.NoPanic(e.fp+":panic-extension-api:"+e.name, map[string]any{"ops": e.log, "ext": string(xd.FullName())}, func() {
			has := proto.HasExtension(e.real.Interface(), xt)
			if has != e.mod.Has(xd) {
				e.violation("HasExtension:"+kindCell(xd), map[string]any{"ext": string(xd.FullName())})
			}
			proto.RangeExtensions(e.real.Interface(), func(t protoreflect.ExtensionType, v any) bool {
				if !e.mod.Has(t.TypeDescriptor()) {
					e.violation("RangeExtensions-visits-unpopulated:"+kindCell(t.TypeDescriptor()), nil)
				}
				return true
			})
			if has && e.r.Chance(1, 3) {
				proto.ClearExtension(e.real.Interface(), xt)
				e.mod.Clear(xd)
				e.note("ClearExtension %s", xd.FullName())
				e.verify()
			}
		})
		if !ok {
			return
		}
	}
}

// c28ReadOnly: mutating the empty composite of an unpopulated field must panic and change nothing.
func c28ReadOnly(c *core.Ctx, e *opEngine) {
	fds := e.real.Descriptor().Fields()
	for i := 0; i < fds.Len(); i++ {
		fd := fds.Get(i)
		if e.mod.Has(fd) || (fd.Message() == nil && !fd.IsList()) {
			continue
		}
		v := e.real.Get(fd)
		panicked, _, _ := core.Try(func() {
			switch {
			case fd.IsMap():
				return // needs a key; covered by list/message
			case fd.IsList():
				if fd.Message() != nil {
					v.List().AppendMutable()
				} else {
					v.List().Append(zeroOf(fd))
				}
			default:
				sub := v.Message()
				sfds := sub.Descriptor().Fields()
				for j := 0; j < sfds.Len(); j++ {
					if sf := sfds.Get(j); sf.Message() == nil && !sf.IsList() {
						sub.Set(sf, zeroOf(sf))
						return
					}
				}
				panic("no scalar subfield to set") // treated as panicked: nothing to test
			}
		})
		c.Count("readonly_probes")
		if fd.IsMap() {
			continue
		}
		if !panicked {
			e.violation("readonly-composite-accepted-mutation:"+kindCell(fd), map[string]any{"field": string(fd.FullName())})
		}
		if e.real.Has(fd) {
			e.violation("readonly-composite-mutation-populated-field:"+kindCell(fd), map[string]any{"field": string(fd.FullName())})
		}
		if i > 12 {
			break
		}
	}
	_ = model.NewSnap
}
