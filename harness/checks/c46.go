package checks

import (
	"bytes"
	"fmt"
	"reflect"
	"regexp"
	"sort"
	"strings"

	"google.golang.org/protobuf/encoding/protojson"
	"google.golang.org/protobuf/encoding/prototext"
	"google.golang.org/protobuf/proto"
	"google.golang.org/protobuf/reflect/protodesc"
	"google.golang.org/protobuf/reflect/protoreflect"
	"google.golang.org/protobuf/runtime/protoimpl"
	"google.golang.org/protobuf/types/descriptorpb"
	"google.golang.org/protobuf/types/dynamicpb"
	"google.golang.org/protobuf/verif/core"
	"google.golang.org/protobuf/verif/gen"
)

func init() {
	core.Register(&core.Check{
		ID:     "C46",
		Rule:   "cases: the twelve historical generations of the legacy test schema (6 x proto2, 6 x proto3; github.com/golang/protobuf-era generated code wrapped by the runtime) and five hand-written struct-tag-only message types, one with three oneofs interleaved with plain fields (every tag form: varint/zigzag32/zigzag64/fixed32/fixed64/bytes/group, opt/req/rep, packed, def=, enum=, oneof=, protobuf_key/protobuf_val maps, proto3): one logical content (PRNG, keyed by field number) is placed into every generation through protoreflect and through the exported Go struct fields (reflect, by protobuf tag, incl. oneof wrapper structs); oracle: identical deterministic bytes across generations and routes and equal to dynamicpb of the derived descriptor, equal reflection snapshot, JSON and text vs the dynamicpb twin, every generation decodes every other's bytes to the same content, struct fields read back through reflect agree with protoreflect Get, derived message descriptors of all generations agree accessor by accessor (generation names masked, oneof indices and membership included); two legacy enum types known through EnumDescriptor() only (gzipped descriptor + declaration path of length three and four, behind sibling messages that declare enums of the same name) must resolve to the enum their path names and exchange text and JSON with the hand-written schema; the descriptor derived from the three-oneof struct equals a hand-written schema line by line, and wire, JSON and text written by a dynamicpb message of that hand-written schema (contents setting several oneofs at once) are read by the struct-tag-only type to the same content and back; distinct = distinct (type, content bytes); non-trivial = at least one populated field",
		Assume: []string{"dynamicpb of the derived descriptor as the reference implementation", "reflect-based struct-field driver shared with C29"},
		Batches: func(tier string) []core.Batch {
			bs := stdBatches([]string{"base"}, 6)
			return append(bs, core.Batch{Cfg: "base", Name: "tagonly", Kind: "tagonly"}, core.Batch{Cfg: "legacy", Name: "tagonly-legacy", Kind: "tagonly"})
		},
		Gates: func(tier string) map[string]int64 {
			return map[string]int64{"generations": 12, "families": 10, "contents": 150, "built_via_reflection": 900, "built_via_struct_fields": 900, "struct_fields_set": 20000, "cross_generation_decodes": 6000, "dynamic_twin_compares": 1500, "struct_reads": 20000, "descriptor_compares": 50, "tagonly_contents": 500, "tagonly_types": 4, "independent_descriptor_compares": 1, "independent_contents_with_two_oneofs_set": 100, "independent_decodes:wire": 120, "independent_decodes:json": 120, "independent_decodes:text": 120, "independent_contents_missing_required": 50, "deep_enum_descriptor_compares": 3, "deep_enum_contents": 27}
		},
		Run: runC46,
	})
}

var reGeneration = regexp.MustCompile(`proto[23]_20[0-9]{6}(_[0-9a-f]{8})?`)

func legacyGenerations() map[string]map[string]protoreflect.MessageType {
	// syntax+suffix -> generation -> type
	out := map[string]map[string]protoreflect.MessageType{}
	for _, mt := range gen.AllTypes() {
		n := string(mt.Descriptor().FullName())
		if !strings.HasPrefix(n, "google.golang.org.proto") {
			continue
		}
		g := reGeneration.FindString(n)
		if g == "" {
			continue
		}
		key := g[:6] + "|" + strings.TrimPrefix(n, "google.golang.org."+g)
		if out[key] == nil {
			out[key] = map[string]protoreflect.MessageType{}
		}
		out[key][g] = mt
	}
	return out
}

func runC46(c *core.Ctx, b core.Batch) {
	if b.Kind == "tagonly" {
		c46TagOnly(c)
		return
	}
	fams := legacyGenerations()
	var keys []string
	gens := map[string]bool{}
	for k, v := range fams {
		keys = append(keys, k)
		for g := range v {
			gens[g] = true
		}
	}
	sort.Strings(keys)
	if b.N == 0 {
		c.CountN("generations", int64(len(gens)))
	}
	for ki, key := range keys {
		if ki%6 != b.N {
			continue
		}
		fam := fams[key]
		var gnames []string
		for g := range fam {
			gnames = append(gnames, g)
		}
		sort.Strings(gnames)
		newest := fam[gnames[len(gnames)-1]]
		c.Count("families")
		// derived descriptors agree across generations
		ref := c46DescLines(newest.Descriptor())
		for _, g := range gnames {
			c.Count("descriptor_compares")
			got := c46DescLines(fam[g].Descriptor())
			for i := 0; i < len(ref) && i < len(got); i++ {
				if ref[i] != got[i] {
					c.Violation("legacy:derived-descriptor-differs-between-generations:"+key, map[string]any{"generation": g, "newest": ref[i], "this": got[i]})
					break
				}
			}
			if len(ref) != len(got) {
				c.Violation("legacy:derived-descriptor-size-differs:"+key, map[string]any{"generation": g, "lines": []int{len(ref), len(got)}})
			}
		}
		per := c.Scale(40, 400)
		for k := 0; k < per; k++ {
			r := c.Rng(uint64(ki)<<24 | uint64(k))
			fo := fillOptsFor(k)
			fo.ByNumber = true
			fo.Unknown = true
			content := gen.Dynamic(newest.Descriptor())
			gen.Fill(r, content, fo)
			c46Case(c, key, fam, gnames, content, k)
		}
	}
}

// c46DescLines: accessor snapshot of a message descriptor with generation names masked.
func c46DescLines(md protoreflect.MessageDescriptor) []string {
	var out []string
	var walk func(md protoreflect.MessageDescriptor, depth int)
	walk = func(md protoreflect.MessageDescriptor, depth int) {
		out = append(out, fmt.Sprintf("message %s mapentry=%v fields=%d oneofs=%d extranges=%d", md.FullName(), md.IsMapEntry(), md.Fields().Len(), md.Oneofs().Len(), md.ExtensionRanges().Len()))
		for i := 0; i < md.Fields().Len(); i++ {
			f := md.Fields().Get(i)
			line := fmt.Sprintf(" field %s #%d %v %v json=%s presence=%v packed=%v list=%v map=%v hasdef=%v", f.Name(), f.Number(), f.Kind(), f.Cardinality(), f.JSONName(), f.HasPresence(), f.IsPacked(), f.IsList(), f.IsMap(), f.HasDefault())
			if f.HasDefault() && f.Message() == nil {
				line += " def=" + fmt.Sprint(f.Default().Interface())
			}
			if f.ContainingOneof() != nil {
				line += fmt.Sprintf(" oneof=%s@%d", f.ContainingOneof().Name(), f.ContainingOneof().Index())
			}
			if f.Enum() != nil {
				line += fmt.Sprintf(" enum=%s values=%d", f.Enum().FullName(), f.Enum().Values().Len())
			}
			if f.Message() != nil {
				line += " msg=" + string(f.Message().FullName())
			}
			out = append(out, line)
		}
		rq := " required="
		for i := 0; i < md.RequiredNumbers().Len(); i++ {
			rq += fmt.Sprintf("%d,", md.RequiredNumbers().Get(i))
		}
		out = append(out, rq)
		for i := 0; i < md.Oneofs().Len(); i++ {
			o := md.Oneofs().Get(i)
			line := fmt.Sprintf(" oneof[%d] %s index=%d synthetic=%v members=", i, o.Name(), o.Index(), o.IsSynthetic())
			for j := 0; j < o.Fields().Len(); j++ {
				line += fmt.Sprintf("%s#%d,", o.Fields().Get(j).Name(), o.Fields().Get(j).Number())
			}
			if md.Oneofs().ByName(o.Name()) != o {
				line += " BYNAME-MISMATCH"
			}
			out = append(out, line)
		}
		if depth < 2 {
			for i := 0; i < md.Messages().Len(); i++ {
				walk(md.Messages().Get(i), depth+1)
			}
		}
	}
	walk(md, 0)
	for i := range out {
		out[i] = reGeneration.ReplaceAllString(out[i], "GEN")
	}
	return out
}

func maskGen(s string) string { return reGeneration.ReplaceAllString(s, "GEN") }

func c46Case(c *core.Ctx, key string, fam map[string]protoreflect.MessageType, gnames []string, content protoreflect.Message, kk int) {
	c.Eval()
	c.Count("contents")
	ref, err := detBytes(content)
	if err != nil {
		return
	}
	wantSnap := maskGen(snapOf(content).String())
	// generations that cannot hold unknown fields (early proto3 code has no XXX_unrecognized)
	// are compared on the content without them
	stripped := proto.Clone(content.Interface()).ProtoReflect()
	stripUnknownDeep(stripped)
	refStripped, _ := detBytes(stripped)
	wantSnapStripped := maskGen(snapOf(stripped).String())
	keeps := map[string]bool{}
	for _, g := range gnames {
		keeps[g] = gen.KeepsUnknown(fam[g].New())
	}
	if snapOf(content).NumPopulated() > 0 {
		c.DistinctBytes([]byte(key), ref)
	}
	c.Log("C46 family=%s content=%s", key, core.Hex(ref))
	k := &c29mat{c: c}
	type built struct {
		label string
		m     protoreflect.Message
		enc   []byte
	}
	var all []built
	for _, g := range gnames {
		for _, route := range []string{"reflect", "struct"} {
			var m protoreflect.Message
			label := g + "/" + route
			if !c.NoPanic("legacy:materialise-panic:"+route, map[string]any{"family": key, "generation": g, "content": core.Hex(ref)}, func() { m = k.materialise(route, fam[g], content) }) {
				continue
			}
			if route == "reflect" {
				c.Count("built_via_reflection")
			} else {
				c.Count("built_via_struct_fields")
			}
			enc, err := detBytes(m)
			d := map[string]any{"family": key, "generation_route": label, "content": core.Hex(ref), "got": core.Hex(enc)}
			if err != nil {
				c.Violation("legacy:marshal-error:"+route, d)
				continue
			}
			wantEnc, wantS := ref, wantSnap
			if !keeps[g] {
				wantEnc, wantS = refStripped, wantSnapStripped
				c.Count("generation_without_unknown_fields")
			}
			if !bytes.Equal(enc, wantEnc) {
				c.Violation("legacy:deterministic-bytes-differ:"+route+":"+c29DiffField(stringer(wantS), stringer(maskGen(snapOf(m).String()))), d)
				continue
			}
			if proto.Size(m.Interface()) != len(enc) {
				c.Violation("legacy:size:"+route, d)
			}
			all = append(all, built{label, m, enc})
			// dynamicpb twin of this generation's derived descriptor
			c.Count("dynamic_twin_compares")
			dyn := dynamicpb.NewMessage(fam[g].Descriptor())
			if e := (proto.UnmarshalOptions{AllowPartial: true}).Unmarshal(enc, dyn); e != nil {
				c.Violation("legacy:dynamicpb-twin-rejects-bytes", d)
				continue
			}
			if snapOf(dyn).String() != snapOf(m).String() {
				c.Violation("legacy:reflection-view-differs-from-dynamicpb-twin:"+route+":"+c29DiffField(snapOf(dyn), snapOf(m)), d)
			}
			if kk%2 == 0 {
				ja, e1 := protojson.MarshalOptions{AllowPartial: true}.Marshal(m.Interface())
				jb, e2 := protojson.MarshalOptions{AllowPartial: true}.Marshal(dyn)
				va, _ := jsonParse(ja)
				vb, _ := jsonParse(jb)
				if (e1 == nil) != (e2 == nil) || (e1 == nil && fmt.Sprint(va) != fmt.Sprint(vb)) {
					d["json"] = clip(string(ja), 1000)
					c.Violation("legacy:json-differs-from-dynamicpb-twin:"+route, d)
				}
				ta, e1 := prototext.MarshalOptions{AllowPartial: true}.Marshal(m.Interface())
				tb, e2 := prototext.MarshalOptions{AllowPartial: true}.Marshal(dyn)
				if (e1 == nil) != (e2 == nil) || (e1 == nil && strings.Join(strings.Fields(string(ta)), " ") != strings.Join(strings.Fields(string(tb)), " ")) {
					d["text"] = clip(string(ta), 1000)
					c.Violation("legacy:text-differs-from-dynamicpb-twin:"+route, d)
				}
			}
			// struct fields read back through reflect agree with protoreflect
			c46ReadBack(c, key, label, m)
		}
	}
	c.CountN("struct_fields_set", int64(k.set))
	c.CountN("struct_field_fallbacks", int64(k.fallback))
	// every generation decodes every other's bytes to the same content
	for _, x := range all {
		if !strings.HasSuffix(x.label, "/struct") && kk%3 != 0 {
			continue
		}
		for _, g := range gnames {
			c.Count("cross_generation_decodes")
			m2 := fam[g].New()
			if e := (proto.UnmarshalOptions{AllowPartial: true}).Unmarshal(x.enc, m2.Interface()); e != nil {
				c.Violation("legacy:cross-generation-decode-error", map[string]any{"family": key, "from": x.label, "into": g, "wire": core.Hex(x.enc)})
				continue
			}
			wantS := wantSnap
			if !keeps[g] || !keeps[strings.SplitN(x.label, "/", 2)[0]] {
				wantS = wantSnapStripped
			}
			if got := maskGen(snapOf(m2).String()); got != wantS {
				c.Violation("legacy:cross-generation-content-differs:"+c29DiffField(stringer(wantS), stringer(got)), map[string]any{"family": key, "from": x.label, "into": g, "wire": core.Hex(x.enc)})
			}
		}
	}
	if c.WantSample() && len(ref) > 20 {
		var labels []string
		for _, x := range all {
			labels = append(labels, x.label)
		}
		c.Sample(map[string]any{"family": key, "content_wire": core.Hex(ref), "built": labels, "identical_bytes": true})
	}
}

type stringer string

func (s stringer) String() string { return string(s) }

// c46ReadBack compares exported struct fields (read through reflect) with protoreflect Get.
func c46ReadBack(c *core.Ctx, key, label string, m protoreflect.Message) {
	rv := structPtrOf(m)
	if !rv.IsValid() {
		return
	}
	st := rv.Elem()
	tt := st.Type()
	md := m.Descriptor()
	for i := 0; i < tt.NumField(); i++ {
		sf := tt.Field(i)
		num := tagNumber(sf.Tag.Get("protobuf"))
		if !sf.IsExported() || num == 0 {
			continue
		}
		fd := md.Fields().ByNumber(protoreflect.FieldNumber(num))
		if fd == nil || fd.IsMap() || fd.IsList() || fd.Message() != nil {
			continue
		}
		c.Count("struct_reads")
		fv := st.Field(i)
		has := true
		if fv.Kind() == reflect.Ptr {
			has = !fv.IsNil()
			if has {
				fv = fv.Elem()
			}
		} else if fv.Kind() == reflect.Slice {
			has = !fv.IsNil()
		}
		if fd.HasPresence() && has != m.Has(fd) {
			c.Violation("legacy:struct-field-presence-vs-reflection:"+kindCell(fd), map[string]any{"family": key, "built": label, "field": string(fd.Name())})
			continue
		}
		if !has {
			continue
		}
		g := m.Get(fd)
		same := true
		switch fd.Kind() {
		case protoreflect.BoolKind:
			same = fv.Bool() == g.Bool()
		case protoreflect.EnumKind:
			same = fv.Int() == int64(g.Enum())
		case protoreflect.Int32Kind, protoreflect.Sint32Kind, protoreflect.Sfixed32Kind, protoreflect.Int64Kind, protoreflect.Sint64Kind, protoreflect.Sfixed64Kind:
			same = fv.Int() == g.Int()
		case protoreflect.Uint32Kind, protoreflect.Fixed32Kind, protoreflect.Uint64Kind, protoreflect.Fixed64Kind:
			same = fv.Uint() == g.Uint()
		case protoreflect.FloatKind, protoreflect.DoubleKind:
			a, b := fv.Float(), g.Float()
			same = a == b || (a != a && b != b)
		case protoreflect.StringKind:
			same = fv.String() == g.String()
		case protoreflect.BytesKind:
			same = bytes.Equal(fv.Bytes(), g.Bytes())
		}
		if !same {
			c.Violation("legacy:struct-field-value-vs-reflection:"+kindCell(fd), map[string]any{"family": key, "built": label, "field": string(fd.Name())})
		}
	}
}

// ---- hand-written struct-tag-only messages ----

type TagEnum int32

type TagInner struct {
	A *int32   `protobuf:"varint,1,opt,name=a"`
	S []string `protobuf:"bytes,2,rep,name=s"`
}

func (*TagInner) Reset()         {}
func (*TagInner) String() string { return "TagInner" }
func (*TagInner) ProtoMessage()  {}

type TagOnly2 struct {
	OptInt32         *int32              `protobuf:"varint,1,opt,name=opt_int32,json=optInt32"`
	OptSint32        *int32              `protobuf:"zigzag32,2,opt,name=opt_sint32"`
	OptSint64        *int64              `protobuf:"zigzag64,3,opt,name=opt_sint64"`
	OptFixed32       *uint32             `protobuf:"fixed32,4,opt,name=opt_fixed32"`
	OptSfixed64      *int64              `protobuf:"fixed64,5,opt,name=opt_sfixed64"`
	OptFloat         *float32            `protobuf:"fixed32,6,opt,name=opt_float"`
	OptDouble        *float64            `protobuf:"fixed64,7,opt,name=opt_double,def=1.5"`
	OptString        *string             `protobuf:"bytes,8,opt,name=opt_string,def=hello"`
	OptBytes         []byte              `protobuf:"bytes,9,opt,name=opt_bytes"`
	OptBool          *bool               `protobuf:"varint,10,opt,name=opt_bool,def=1"`
	ReqUint64        *uint64             `protobuf:"varint,11,req,name=req_uint64"`
	RepInt64         []int64             `protobuf:"varint,12,rep,name=rep_int64"`
	PackedSint       []int32             `protobuf:"zigzag32,13,rep,packed,name=packed_sint"`
	PackedFix        []uint64            `protobuf:"fixed64,14,rep,packed,name=packed_fix"`
	RepString        []string            `protobuf:"bytes,15,rep,name=rep_string"`
	Inner            *TagInner           `protobuf:"bytes,16,opt,name=inner"`
	RepInner         []*TagInner         `protobuf:"bytes,17,rep,name=rep_inner"`
	Group            *TagInner           `protobuf:"group,18,opt,name=Group,json=group"`
	MapSI            map[string]int32    `protobuf:"bytes,19,rep,name=map_si" protobuf_key:"bytes,1,opt,name=key" protobuf_val:"zigzag32,2,opt,name=value"`
	MapIM            map[int64]*TagInner `protobuf:"bytes,20,rep,name=map_im" protobuf_key:"fixed64,1,opt,name=key" protobuf_val:"bytes,2,opt,name=value"`
	OptUint32        *uint32             `protobuf:"varint,70,opt,name=opt_uint32,def=7"`
	XXX_unrecognized []byte
}

func (*TagOnly2) Reset()         {}
func (*TagOnly2) String() string { return "TagOnly2" }
func (*TagOnly2) ProtoMessage()  {}

type TagOnly3 struct {
	Int32   int32             `protobuf:"varint,1,opt,name=int32,proto3"`
	Sint64  int64             `protobuf:"zigzag64,2,opt,name=sint64,proto3"`
	Str     string            `protobuf:"bytes,3,opt,name=str,proto3"`
	Bytes   []byte            `protobuf:"bytes,4,opt,name=bytes,proto3"`
	Double  float64           `protobuf:"fixed64,5,opt,name=double,proto3"`
	Bool    bool              `protobuf:"varint,6,opt,name=bool,proto3"`
	Rep     []uint32          `protobuf:"varint,7,rep,packed,name=rep,proto3"`
	RepStr  []string          `protobuf:"bytes,8,rep,name=rep_str,proto3"`
	Sub     *TagOnly3         `protobuf:"bytes,9,opt,name=sub,proto3"`
	Map     map[uint32]string `protobuf:"bytes,10,rep,name=map,proto3" protobuf_key:"varint,1,opt,name=key,proto3" protobuf_val:"bytes,2,opt,name=value,proto3"`
	Fixed32 uint32            `protobuf:"fixed32,65,opt,name=fixed32,proto3"`
}

func (*TagOnly3) Reset()         {}
func (*TagOnly3) String() string { return "TagOnly3" }
func (*TagOnly3) ProtoMessage()  {}

// TagOnly4: three oneofs interleaved with plain fields.
type TagOnly4 struct {
	Before           *int32            `protobuf:"varint,1,opt,name=before"`
	First            isTagOnly4_First  `protobuf_oneof:"first"`
	Mid              *string           `protobuf:"bytes,5,opt,name=mid"`
	Second           isTagOnly4_Second `protobuf_oneof:"second"`
	After            *uint32           `protobuf:"varint,9,opt,name=after"`
	Third            isTagOnly4_Third  `protobuf_oneof:"third"`
	Req              *int64            `protobuf:"varint,12,req,name=req"`
	XXX_unrecognized []byte
}

type isTagOnly4_First interface{ isTagOnly4_First() }
type isTagOnly4_Second interface{ isTagOnly4_Second() }
type isTagOnly4_Third interface{ isTagOnly4_Third() }

type TagOnly4_A1 struct {
	A1 int32 `protobuf:"varint,2,opt,name=a1,oneof"`
}
type TagOnly4_A2 struct {
	A2 string `protobuf:"bytes,3,opt,name=a2,oneof"`
}
type TagOnly4_A3 struct {
	A3 *TagInner `protobuf:"bytes,4,opt,name=a3,oneof"`
}
type TagOnly4_B1 struct {
	B1 bool `protobuf:"varint,6,opt,name=b1,oneof"`
}
type TagOnly4_B2 struct {
	B2 []byte `protobuf:"bytes,7,opt,name=b2,oneof"`
}
type TagOnly4_B3 struct {
	B3 int64 `protobuf:"zigzag64,8,opt,name=b3,oneof"`
}
type TagOnly4_C1 struct {
	C1 float64 `protobuf:"fixed64,10,opt,name=c1,oneof"`
}
type TagOnly4_C2 struct {
	C2 uint32 `protobuf:"varint,11,opt,name=c2,oneof"`
}

func (*TagOnly4_A1) isTagOnly4_First()  {}
func (*TagOnly4_A2) isTagOnly4_First()  {}
func (*TagOnly4_A3) isTagOnly4_First()  {}
func (*TagOnly4_B1) isTagOnly4_Second() {}
func (*TagOnly4_B2) isTagOnly4_Second() {}
func (*TagOnly4_B3) isTagOnly4_Second() {}
func (*TagOnly4_C1) isTagOnly4_Third()  {}
func (*TagOnly4_C2) isTagOnly4_Third()  {}

func (*TagOnly4) Reset()         {}
func (*TagOnly4) String() string { return "TagOnly4" }
func (*TagOnly4) ProtoMessage()  {}
func (*TagOnly4) XXX_OneofWrappers() []interface{} {
	return []interface{}{(*TagOnly4_A1)(nil), (*TagOnly4_A2)(nil), (*TagOnly4_A3)(nil), (*TagOnly4_B1)(nil), (*TagOnly4_B2)(nil), (*TagOnly4_B3)(nil), (*TagOnly4_C1)(nil), (*TagOnly4_C2)(nil)}
}

// tagOnly4Schema is the schema TagOnly4's tags spell, written down by hand
// (not derived from the struct): the independent side of the comparison.
const tagOnly4Schema = `
name: "verifind/tagonly4.proto" package: "verifind" syntax: "proto2"
message_type { name: "TagInner"
  field { name: "a" number: 1 label: LABEL_OPTIONAL type: TYPE_INT32 json_name: "a" }
  field { name: "s" number: 2 label: LABEL_REPEATED type: TYPE_STRING json_name: "s" } }
message_type { name: "TagOnly4"
  field { name: "before" number: 1 label: LABEL_OPTIONAL type: TYPE_INT32 json_name: "before" }
  field { name: "a1" number: 2 label: LABEL_OPTIONAL type: TYPE_INT32 oneof_index: 0 json_name: "a1" }
  field { name: "a2" number: 3 label: LABEL_OPTIONAL type: TYPE_STRING oneof_index: 0 json_name: "a2" }
  field { name: "a3" number: 4 label: LABEL_OPTIONAL type: TYPE_MESSAGE type_name: ".verifind.TagInner" oneof_index: 0 json_name: "a3" }
  field { name: "mid" number: 5 label: LABEL_OPTIONAL type: TYPE_STRING json_name: "mid" }
  field { name: "b1" number: 6 label: LABEL_OPTIONAL type: TYPE_BOOL oneof_index: 1 json_name: "b1" }
  field { name: "b2" number: 7 label: LABEL_OPTIONAL type: TYPE_BYTES oneof_index: 1 json_name: "b2" }
  field { name: "b3" number: 8 label: LABEL_OPTIONAL type: TYPE_SINT64 oneof_index: 1 json_name: "b3" }
  field { name: "after" number: 9 label: LABEL_OPTIONAL type: TYPE_UINT32 json_name: "after" }
  field { name: "c1" number: 10 label: LABEL_OPTIONAL type: TYPE_DOUBLE oneof_index: 2 json_name: "c1" }
  field { name: "c2" number: 11 label: LABEL_OPTIONAL type: TYPE_UINT32 oneof_index: 2 json_name: "c2" }
  field { name: "req" number: 12 label: LABEL_REQUIRED type: TYPE_INT64 json_name: "req" }
  oneof_decl { name: "first" } oneof_decl { name: "second" } oneof_decl { name: "third" } }
`

var reAberrantPkg = regexp.MustCompile(`(google_golang_org[A-Za-z0-9_.]*\.|verifind\.)`)

// c46Independent compares the descriptor derived from TagOnly4's struct tags,
// and the type's behaviour on contents setting several oneofs at once, with a
// dynamicpb message of the hand-written schema.
func c46Independent(c *core.Ctx, mt protoreflect.MessageType) {
	fdp := &descriptorpb.FileDescriptorProto{}
	if err := prototext.Unmarshal([]byte(tagOnly4Schema), fdp); err != nil {
		c.Violation("harness:tagonly4-schema-unparsable", map[string]any{"err": errStr(err)})
		return
	}
	fd, err := protodesc.NewFile(fdp, nil)
	if err != nil {
		c.Violation("harness:tagonly4-schema-invalid", map[string]any{"err": errStr(err)})
		return
	}
	ind := fd.Messages().ByName("TagOnly4")
	mask := func(ls []string) []string {
		for i := range ls {
			ls[i] = reAberrantPkg.ReplaceAllString(ls[i], "")
		}
		return ls
	}
	want, got := mask(c46DescLines(ind)), mask(c46DescLines(mt.Descriptor()))
	c.Count("independent_descriptor_compares")
	for i := 0; i < len(want) || i < len(got); i++ {
		w, g := "", ""
		if i < len(want) {
			w = want[i]
		}
		if i < len(got) {
			g = got[i]
		}
		if w != g {
			c.Violation("tagonly:derived-descriptor-differs-from-handwritten-schema", map[string]any{"handwritten": w, "derived": g})
			break
		}
	}
	per := c.Scale(300, 4000)
	for k := 0; k < per; k++ {
		r := c.Rng(uint64(0x46)<<32 | uint64(k))
		fo := fillOptsFor(k)
		fo.Unknown = false
		fo.ByNumber = true
		content := dynamicpb.NewMessage(ind)
		gen.Fill(r, content, fo)
		ref, err := detBytes(content)
		if err != nil {
			continue
		}
		if k%3 == 0 {
			content.Clear(ind.Fields().ByName("req"))
			ref, _ = detBytes(content)
		}
		c.Eval()
		c.Count("independent_contents")
		// required-field verdicts: the struct-tag-only message holding this content
		// must be judged like the hand-written schema judges it
		{
			tm := mt.New()
			if (proto.UnmarshalOptions{AllowPartial: true}).Unmarshal(ref, tm.Interface()) == nil {
				wantErr := proto.CheckInitialized(content) != nil
				if wantErr {
					c.Count("independent_contents_missing_required")
				}
				_, merr := proto.Marshal(tm.Interface())
				if gotErr := proto.CheckInitialized(tm.Interface()) != nil; gotErr != wantErr || (merr != nil) != wantErr {
					c.Violation("tagonly:required-verdict-differs-from-handwritten-schema", map[string]any{"content": core.Hex(ref), "handwritten_reports_missing": wantErr, "checkinitialized_error": gotErr, "marshal_error": merr != nil})
				}
			}
		}
		nset := 0
		for i := 0; i < ind.Oneofs().Len(); i++ {
			if content.WhichOneof(ind.Oneofs().Get(i)) != nil {
				nset++
			}
		}
		if nset >= 2 {
			c.Count("independent_contents_with_two_oneofs_set")
		}
		c.DistinctBytes([]byte("ind"), ref)
		c.Log("C46 independent content=%s", core.Hex(ref))
		d := map[string]any{"content": core.Hex(ref), "oneofs_set": nset}
		jb, e1 := protojson.MarshalOptions{AllowPartial: true}.Marshal(content)
		tb, e2 := prototext.MarshalOptions{AllowPartial: true}.Marshal(content)
		if e1 != nil || e2 != nil {
			continue
		}
		// wire, JSON and text written by the handwritten-schema message are read by the tag-only type
		type route struct {
			name string
			dec  func(m proto.Message) error
		}
		for _, rt := range []route{
			{"wire", func(m proto.Message) error { return proto.UnmarshalOptions{AllowPartial: true}.Unmarshal(ref, m) }},
			{"json", func(m proto.Message) error { return protojson.UnmarshalOptions{AllowPartial: true}.Unmarshal(jb, m) }},
			{"text", func(m proto.Message) error { return prototext.UnmarshalOptions{AllowPartial: true}.Unmarshal(tb, m) }},
		} {
			m := mt.New()
			var derr error
			if !c.NoPanic("tagonly:independent-panic:"+rt.name, d, func() { derr = rt.dec(m.Interface()) }) {
				continue
			}
			c.Count("independent_decodes:" + rt.name)
			if derr != nil {
				dd := map[string]any{"content": core.Hex(ref), "oneofs_set": nset, "err": errStr(derr), "json": clip(string(jb), 600), "text": clip(string(tb), 600)}
				c.Violation("tagonly:rejects-output-of-handwritten-schema:"+rt.name, dd)
				continue
			}
			// the expected content is what the handwritten schema reads from the same input
			// (JSON and text do not carry NaN payloads)
			exp := dynamicpb.NewMessage(ind)
			if rt.dec(exp) != nil {
				continue
			}
			expBytes, _ := detBytes(exp)
			enc, err := detBytes(m)
			if err != nil || !bytes.Equal(enc, expBytes) {
				dd := map[string]any{"content": core.Hex(ref), "got": core.Hex(enc), "want": core.Hex(expBytes), "route": rt.name}
				c.Violation("tagonly:content-differs-from-handwritten-schema:"+rt.name, dd)
				continue
			}
			// and back: its JSON / text are read by the handwritten schema
			j2, e1 := protojson.MarshalOptions{AllowPartial: true}.Marshal(m.Interface())
			t2, e2 := prototext.MarshalOptions{AllowPartial: true}.Marshal(m.Interface())
			back := dynamicpb.NewMessage(ind)
			if e1 != nil || (protojson.UnmarshalOptions{AllowPartial: true}).Unmarshal(j2, back) != nil || !proto.Equal(back, exp) {
				c.Violation("tagonly:json-not-read-back-by-handwritten-schema:"+rt.name, map[string]any{"content": core.Hex(ref), "json": clip(string(j2), 600)})
			}
			back = dynamicpb.NewMessage(ind)
			if e2 != nil || (prototext.UnmarshalOptions{AllowPartial: true}).Unmarshal(t2, back) != nil || !proto.Equal(back, exp) {
				c.Violation("tagonly:text-not-read-back-by-handwritten-schema:"+rt.name, map[string]any{"content": core.Hex(ref), "text": clip(string(t2), 600)})
			}
			// WhichOneof agrees oneof by oneof
			for i := 0; i < ind.Oneofs().Len() && i < m.Descriptor().Oneofs().Len(); i++ {
				a, b := content.WhichOneof(ind.Oneofs().Get(i)), m.WhichOneof(m.Descriptor().Oneofs().Get(i))
				if (a == nil) != (b == nil) || (a != nil && a.Number() != b.Number()) {
					c.Violation("tagonly:whichoneof-differs-from-handwritten-schema", map[string]any{"content": core.Hex(ref), "oneof": i})
				}
			}
		}
	}
}

func c46TagOnly(c *core.Ctx) {
	c46DeepEnums(c)
	types := []any{&TagInner{}, &TagOnly2{}, &TagOnly3{}, &TagOnly2{}, &TagOnly4{}}
	seen := map[string]bool{}
	for ti, zero := range types {
		var mt protoreflect.MessageType
		if !c.NoPanic("tagonly:wrap-panic", map[string]any{"type": fmt.Sprintf("%T", zero)}, func() { mt = protoimpl.X.ProtoMessageV2Of(zero).ProtoReflect().Type() }) {
			continue
		}
		md := mt.Descriptor()
		name := fmt.Sprintf("%T", zero)
		if !seen[name] {
			seen[name] = true
			c.Count("tagonly_types")
		}
		c.Count("tagonly_types_runs")
		// derived descriptor: spot checks of the tag parser
		expect := map[string]string{}
		switch zero.(type) {
		case *TagOnly2:
			expect = map[string]string{"opt_sint32": "sint32", "opt_sint64": "sint64", "opt_fixed32": "fixed32", "opt_sfixed64": "fixed64", "opt_float": "float", "opt_double": "double", "packed_sint": "sint32", "packed_fix": "fixed64", "Group": "group", "group": "group", "req_uint64": "uint64", "map_si": "message", "inner": "message"}
		case *TagOnly3:
			expect = map[string]string{"sint64": "sint64", "double": "double", "fixed32": "fixed32", "rep": "uint32"}
		}
		for fname, kind := range expect {
			fd := md.Fields().ByName(protoreflect.Name(fname))
			if fd == nil {
				if fname == "Group" || fname == "group" {
					continue
				}
				c.Violation("tagonly:derived-descriptor-lacks-field", map[string]any{"type": name, "field": fname})
				continue
			}
			got := fd.Kind().String()
			// Go's float32/float64 with fixed32/fixed64 tags derive float/double; integers derive fixed/sfixed
			ok := got == kind || (kind == "fixed64" && (got == "sfixed64" || got == "fixed64")) || (kind == "fixed32" && (got == "fixed32" || got == "sfixed32"))
			if !ok {
				c.Violation("tagonly:derived-kind:"+fname, map[string]any{"type": name, "got": got, "want": kind})
			}
		}
		if t2, ok := zero.(*TagOnly2); ok {
			_ = t2
			for fname, packed := range map[string]bool{"packed_sint": true, "packed_fix": true, "rep_int64": false} {
				if fd := md.Fields().ByName(protoreflect.Name(fname)); fd == nil || fd.IsPacked() != packed {
					c.Violation("tagonly:derived-packed:"+fname, nil)
				}
			}
			if fd := md.Fields().ByName("req_uint64"); fd == nil || fd.Cardinality() != protoreflect.Required {
				c.Violation("tagonly:derived-required", nil)
			}
			for fname, def := range map[string]string{"opt_double": "1.5", "opt_string": "hello", "opt_bool": "true", "opt_uint32": "7"} {
				if fd := md.Fields().ByName(protoreflect.Name(fname)); fd == nil || !fd.HasDefault() || fmt.Sprint(fd.Default().Interface()) != def {
					c.Violation("tagonly:derived-default:"+fname, nil)
				}
			}
		}
		if _, ok := zero.(*TagOnly4); ok {
			c46Independent(c, mt)
		}
		per := c.Scale(200, 4000)
		for k := 0; k < per; k++ {
			r := c.Rng(uint64(ti)<<24 | uint64(k))
			fo := fillOptsFor(k)
			fo.Unknown = false // these structs (or their nested ones) have no XXX_unrecognized field to hold unknown bytes
			fo.ByNumber = true
			content := dynamicpb.NewMessage(md)
			gen.Fill(r, content, fo)
			ref, err := detBytes(content)
			if err != nil {
				continue
			}
			c.Eval()
			c.Count("tagonly_contents")
			c.DistinctBytes([]byte(name), ref)
			c.Log("C46 tagonly type=%s content=%s", name, core.Hex(ref))
			km := &c29mat{c: c}
			for _, route := range []string{"reflect", "struct"} {
				var m protoreflect.Message
				if !c.NoPanic("tagonly:materialise-panic:"+route, map[string]any{"type": name, "content": core.Hex(ref)}, func() { m = km.materialise(route, mt, content) }) {
					continue
				}
				enc, err := detBytes(m)
				d := map[string]any{"type": name, "route": route, "content": core.Hex(ref), "got": core.Hex(enc)}
				if err != nil || !bytes.Equal(enc, ref) {
					c.Violation("tagonly:deterministic-bytes-differ-from-dynamicpb:"+route+":"+c29DiffField(snapOf(content), snapOf(m)), d)
					continue
				}
				if snapOf(m).String() != snapOf(content).String() {
					c.Violation("tagonly:reflection-view-differs-from-dynamicpb:"+route, d)
				}
				m2 := mt.New()
				if e := (proto.UnmarshalOptions{AllowPartial: true}).Unmarshal(ref, m2.Interface()); e != nil || !proto.Equal(m.Interface(), m2.Interface()) {
					c.Violation("tagonly:decode-of-dynamicpb-bytes-differs:"+route, d)
				}
				ja, e1 := protojson.MarshalOptions{AllowPartial: true}.Marshal(m.Interface())
				jb, e2 := protojson.MarshalOptions{AllowPartial: true}.Marshal(content.Interface())
				va, _ := jsonParse(ja)
				vb, _ := jsonParse(jb)
				if (e1 == nil) != (e2 == nil) || (e1 == nil && fmt.Sprint(va) != fmt.Sprint(vb)) {
					c.Violation("tagonly:json-differs-from-dynamicpb:"+route, d)
				}
				c46ReadBack(c, name, route, m)
			}
			c.CountN("struct_fields_set", int64(km.set))
		}
	}
}

func stripUnknownDeep(m protoreflect.Message) {
	m.SetUnknown(nil)
	m.Range(func(fd protoreflect.FieldDescriptor, v protoreflect.Value) bool {
		if fd.Message() == nil {
			return true
		}
		switch {
		case fd.IsList():
			for i := 0; i < v.List().Len(); i++ {
				stripUnknownDeep(v.List().Get(i).Message())
			}
		case fd.IsMap():
			if fd.MapValue().Message() != nil {
				v.Map().Range(func(_ protoreflect.MapKey, mv protoreflect.Value) bool { stripUnknownDeep(mv.Message()); return true })
			}
		default:
			stripUnknownDeep(v.Message())
		}
		return true
	})
}
