package checks

import (
	"fmt"

	"google.golang.org/protobuf/proto"
	"google.golang.org/protobuf/reflect/protoreflect"
	"google.golang.org/protobuf/verif/core"
	"google.golang.org/protobuf/verif/gen"
)

func init() {
	core.Register(&core.Check{
		ID:     "C03",
		Rule:   "cases: (local resolver) extensions of the generated TestAllExtensions types (open proto2; editions open, hybrid, opaque) that only a caller-supplied UnmarshalOptions.Resolver knows - scalar, string, message-typed, repeated message, NestedMessage (leading back to the extendee), two of them declared with generated Go message types - set at several nesting levels, decoded with that resolver into the generated type and dynamicpb, lazily and eagerly: same snapshot as the content, same deterministic bytes; PRNG-filled messages (boundary scalars, NaN, -0.0, unknown fields, extensions, maps, oneofs, groups) of every linked message type, generated and dynamicpb, marshalled (deterministic and default) and decoded lazily and eagerly, plus default Marshal of a not-yet-accessed lazy decode; distinct = distinct deterministic encodings; non-trivial = at least one populated field",
		Assume: []string{"protoreflect accessors read a message faithfully (C28/C29 cross-check them)", "model/snapshot.go equality"},
		Batches: func(tier string) []core.Batch {
			if tier == "thorough" {
				return append(stdBatches([]string{"base", "race"}, 16), stdBatches([]string{"legacy", "ptr"}, 8)...)
			}
			return append(stdBatches([]string{"base"}, 16), stdBatches([]string{"ptr"}, 4)...)
		},
		Gates: func(tier string) map[string]int64 {
			return map[string]int64{"roundtrips": 1000, "lazy_passthrough": 100, "cell:message/singular": 10, "cell:message/map": 5, "cell:group/singular": 1, "cell:unknown": 10, "dynamic": 100, "local_resolver_cases": 150, "local_resolver_decodes": 600}
		},
		Run: runC03,
	})
}

func nbOf(b core.Batch, tier string) int {
	switch b.Cfg {
	case "base", "race":
		return 16
	case "ptr":
		if tier == "thorough" {
			return 8
		}
		return 4
	}
	return 8
}

// fillOptsFor derives a content profile from the case index.
func fillOptsFor(k int) gen.MsgOpts {
	o := gen.MsgOpts{Unknown: true, Extensions: true, AnyUTF8: true}
	switch k % 6 {
	case 0:
		o.Density = 8
	case 1:
		o.Density = 30
	case 2:
		o.Density = 60
	case 3:
		o.Density = 100
		o.MaxDepth = 2
	case 4:
		o.Density = 40
		o.BigLists = true
	case 5:
		o.Density = 25
		o.MaxDepth = 5
	}
	return o
}

func runC03(c *core.Ctx, b core.Batch) {
	if b.Cfg == "base" && b.N == 0 {
		for i, e := range []string{"goproto.proto.test.TestAllExtensions", "goproto.proto.testeditions.TestAllExtensions", "hybrid.goproto.proto.testeditions.TestAllExtensions", "opaque.goproto.proto.testeditions.TestAllExtensions"} {
			c03LocalResolver(c, e, i)
		}
	}
	types := shard(codecTypes(b), b.N, nbOf(b, c.Tier))
	per := c.Scale(24, 300)
	if b.Cfg != "base" {
		per = c.Scale(6, 60)
	}
	for ti, mt := range types {
		md := mt.Descriptor()
		for k := 0; k < per; k++ {
			r := c.Rng(uint64(ti)<<24 | uint64(k))
			dyn := k%4 == 3
			m := newOf(mt, dyn)
			fo := fillOptsFor(k)
			fo.Unknown = gen.KeepsUnknown(mt.New())
			gen.Fill(r, m, fo)
			c03Case(c, mt, m, dyn, k)
		}
		_ = md
	}
}

func c03Case(c *core.Ctx, mt protoreflect.MessageType, m protoreflect.Message, dyn bool, k int) {
	md := mt.Descriptor()
	name := string(md.FullName())
	want := snapOf(m)
	if want.NumPopulated() > 0 {
		db, _ := detBytes(m)
		c.DistinctBytes([]byte(name), db)
	}
	if dyn {
		c.Count("dynamic")
	}
	c.Count("flavour:" + flavour(md))
	c.Count("syntax:" + syntaxOf(md))
	if k%8 == 0 {
		countCells(c, "cell:", m, 0)
	}
	partial := proto.CheckInitialized(m.Interface()) != nil
	if partial {
		c.Count("partial_uninitializable")
	}
	for _, det := range []bool{true, false} {
		var enc []byte
		var err error
		c.Log("C03 marshal type=%s det=%v snapshot=%s", name, det, clip(want.String(), 4000))
		if !c.NoPanic("rt:marshal-panic:"+name, nil, func() {
			enc, err = proto.MarshalOptions{Deterministic: det, AllowPartial: partial}.Marshal(m.Interface())
		}) {
			return
		}
		if err != nil {
			c.Violation("rt:marshal-error:"+name, map[string]any{"err": errStr(err), "case": caseDetail(m)})
			return
		}
		if c.WantSample() && want.NumPopulated() > 2 {
			c.Sample(map[string]any{"type": name, "dynamic": dyn, "wire": core.Hex(enc), "snapshot": clip(want.String(), 600)})
		}
		for _, nolazy := range []bool{false, true} {
			for _, tdyn := range []bool{dyn, !dyn} {
				if tdyn != dyn && (k%3 != 0 || !det) {
					continue
				}
				c.Eval()
				c.Count("roundtrips")
				m2 := newOf(mt, tdyn)
				c.Log("C03 unmarshal type=%s nolazy=%v dyn=%v wire=%s", name, nolazy, tdyn, core.Hex(enc))
				var uerr error
				if !c.NoPanic("rt:unmarshal-panic:"+name, map[string]any{"wire": core.Hex(enc)}, func() {
					uerr = proto.UnmarshalOptions{NoLazyDecoding: nolazy, AllowPartial: partial}.Unmarshal(enc, m2.Interface())
				}) {
					continue
				}
				if uerr != nil {
					c.Violation("rt:unmarshal-error:"+name, map[string]any{"err": errStr(uerr), "wire": core.Hex(enc), "nolazy": nolazy})
					continue
				}
				if !nolazy && !tdyn && k%2 == 0 {
					// lazy pass-through: default Marshal before any access must still
					// decode to the original
					c.Count("lazy_passthrough")
					var enc2 []byte
					var e2 error
					c.NoPanic("rt:passthrough-panic:"+name, map[string]any{"wire": core.Hex(enc)}, func() {
						enc2, e2 = proto.MarshalOptions{AllowPartial: partial}.Marshal(m2.Interface())
					})
					if e2 != nil {
						c.Violation("rt:passthrough-marshal-error:"+name, map[string]any{"err": errStr(e2), "wire": core.Hex(enc)})
					} else {
						m3 := newOf(mt, false)
						if e3 := (proto.UnmarshalOptions{AllowPartial: partial}).Unmarshal(enc2, m3.Interface()); e3 != nil {
							c.Violation("rt:passthrough-reunmarshal-error:"+name, map[string]any{"err": errStr(e3), "wire": core.Hex(enc), "wire2": core.Hex(enc2)})
						} else if got := snapOf(m3); got.String() != want.String() {
							c.Violation("rt:passthrough:"+firstDiff(want, got), map[string]any{"wire": core.Hex(enc), "wire2": core.Hex(enc2), "want": clip(want.String(), 1500), "got": clip(got.String(), 1500)})
						}
					}
				}
				eq := proto.Equal(m.Interface(), m2.Interface())
				got := snapOf(m2)
				if got.String() != want.String() {
					c.Violation("rt:snapshot:"+firstDiff(want, got), map[string]any{"wire": core.Hex(enc), "nolazy": nolazy, "target_dynamic": tdyn, "src_dynamic": dyn, "want": clip(want.String(), 1500), "got": clip(got.String(), 1500)})
				} else if !eq {
					c.Violation("rt:equal-false-snapshot-same:"+name, map[string]any{"wire": core.Hex(enc), "nolazy": nolazy, "target_dynamic": tdyn, "snapshot": clip(want.String(), 1500)})
				}
				if eq && got.String() != want.String() {
					c.Count("equal_true_snapshot_differs")
				}
			}
		}
	}
}

var _ = fmt.Sprint
