package checks

import (
	"fmt"

	"github.com/google/go-cmp/cmp"
	"google.golang.org/protobuf/encoding/protowire"
	"google.golang.org/protobuf/proto"
	"google.golang.org/protobuf/reflect/protoreflect"
	"google.golang.org/protobuf/testing/protocmp"
	"google.golang.org/protobuf/verif/core"
	"google.golang.org/protobuf/verif/gen"
	"google.golang.org/protobuf/verif/model"
)

func init() {
	core.Register(&core.Check{
		ID:      "C30",
		Rule:    "cases: for every linked type, PRNG-filled messages m, an independent second message, and near-miss mutants of m (one nested scalar changed, +0/-0 swapped, NaN payload changed, nil/empty bytes swapped, one list element or map entry added/removed, unknown records permuted across and within field numbers); checked: reflexivity, symmetry, transitivity over {m, Clone, decode(encode), dynamicpb transfer}, and agreement of proto.Equal with protoreflect.Value.Equal, with Equal of dynamicpb transfers, with the independent snapshot equality, and with cmp.Equal+protocmp.Transform (no NaN/Any/unknown); distinct = distinct (type, bytes(a), bytes(b)); non-trivial = both populated",
		Assume:  []string{"model/eqsnap.go transcribes the documented Equal semantics", "go-cmp"},
		Batches: func(tier string) []core.Batch { return stdBatches([]string{"base"}, 16) },
		Gates: func(tier string) map[string]int64 {
			return map[string]int64{"pairs": 10000, "extension_set_pairs": 300, "equal_true": 3000, "equal_false": 3000, "mutant:scalar": 300, "mutant:zero-sign": 20, "mutant:nan-payload": 20, "mutant:unknown-across": 100, "mutant:unknown-within": 50, "protocmp_compares": 1000}
		},
		Run: runC30,
	})
}

// leafSites collects (message, field) pairs of populated scalar singular fields in the tree.
type leaf struct {
	m  protoreflect.Message
	fd protoreflect.FieldDescriptor
}

func collectLeaves(m protoreflect.Message, out *[]leaf, lists *[]leaf, depth int) {
	m.Range(func(fd protoreflect.FieldDescriptor, v protoreflect.Value) bool {
		switch {
		case fd.IsMap():
			*lists = append(*lists, leaf{m, fd})
			if fd.MapValue().Message() != nil && depth < 4 {
				v.Map().Range(func(_ protoreflect.MapKey, mv protoreflect.Value) bool {
					collectLeaves(mv.Message(), out, lists, depth+1)
					return true
				})
			}
		case fd.IsList():
			*lists = append(*lists, leaf{m, fd})
			if fd.Message() != nil && depth < 4 {
				for i := 0; i < v.List().Len(); i++ {
					collectLeaves(v.List().Get(i).Message(), out, lists, depth+1)
				}
			}
		case fd.Message() != nil:
			if depth < 4 {
				collectLeaves(v.Message(), out, lists, depth+1)
			}
		default:
			*out = append(*out, leaf{m, fd})
		}
		return true
	})
}

func hasNaNOrAnyOrUnknown(s *model.Snap) bool {
	bad := false
	s.Walk(func(x *model.Snap) {
		if len(x.Unknown) > 0 || x.Type == "google.protobuf.Any" {
			bad = true
		}
		for _, n := range x.Fields {
			if n.S == "NaN" {
				bad = true
			}
			for _, e := range n.List {
				if e.S == "NaN" {
					bad = true
				}
			}
			for _, e := range n.Map {
				if e.V.S == "NaN" {
					bad = true
				}
			}
		}
	})
	return bad
}

func runC30(c *core.Ctx, b core.Batch) {
	types := shard(codecTypes(b), b.N, 16)
	if b.Cfg == "base" && b.N == 1 {
		// dynamicpb over PRNG-generated schemas: message shapes no linked type has
		dt := schemaDynTypes(c, 0x30, c.Scale(6, 60))
		c.CountN("generated_schema_dynamic_types", int64(len(dt)))
		types = append(types, dt...)
	}
	per := c.Scale(16, 200)
	for ti, mt := range types {
		name := string(mt.Descriptor().FullName())
		keeps := gen.KeepsUnknown(mt.New())
		for k := 0; k < per; k++ {
			r := c.Rng(uint64(ti)<<24 | uint64(k))
			fo := fillOptsFor(k)
			fo.Unknown = keeps
			fo.NoRequired = true
			m := mt.New()
			gen.Fill(r, m, fo)
			other := mt.New()
			gen.Fill(r, other, fillOptsFor(k+1))
			c30Pair(c, mt, name, m, m, "self")
			c30Pair(c, mt, name, m, other, "independent")
			cl := proto.Clone(m.Interface()).ProtoReflect()
			c30Pair(c, mt, name, m, cl, "clone")
			enc, err := detBytes(m)
			if err != nil {
				continue
			}
			dec := mt.New()
			dyn := newOf(mt, true)
			if (proto.UnmarshalOptions{AllowPartial: true}).Unmarshal(enc, dec.Interface()) == nil {
				c30Pair(c, mt, name, m, dec, "decode-of-encode")
			}
			if (proto.UnmarshalOptions{AllowPartial: true}).Unmarshal(enc, dyn.Interface()) == nil {
				c30Pair(c, mt, name, m, dyn, "dynamic-transfer")
				c30Pair(c, mt, name, dyn, dec, "dynamic-vs-decoded")
			}
			// transitivity over the equivalence class {m, cl, dec, dyn}
			class := []protoreflect.Message{m, cl, dec, dyn}
			for i := range class {
				for j := range class {
					for l := range class {
						if proto.Equal(class[i].Interface(), class[j].Interface()) && proto.Equal(class[j].Interface(), class[l].Interface()) && !proto.Equal(class[i].Interface(), class[l].Interface()) {
							c.Violation("equal:not-transitive:"+name, map[string]any{"bytes": core.Hex(enc), "i": i, "j": j, "l": l})
						}
					}
				}
			}
			// extension-set near misses: same number of extension entries, different key
			// sets; valid-but-empty repeated extension entries next to populated ones
			if k < 6 {
				c30ExtensionSets(c, r, mt, name)
			}
			// near-miss mutants
			for mu := 0; mu < 3; mu++ {
				mut := proto.Clone(m.Interface()).ProtoReflect()
				kind := c30Mutate(r, mut, keeps)
				if kind == "" {
					continue
				}
				c.Count("mutant:" + kind)
				c30Pair(c, mt, name, m, mut, "mutant:"+kind)
			}
		}
	}
}

// c30Mutate changes one thing; returns the kind of change ("" if none possible).
func c30Mutate(r *core.Rand, m protoreflect.Message, keepsUnknown bool) string {
	var leaves, lists []leaf
	collectLeaves(m, &leaves, &lists, 0)
	switch r.Intn(7) {
	case 0, 1:
		if len(leaves) == 0 {
			return ""
		}
		l := leaves[r.Intn(len(leaves))]
		old := l.m.Get(l.fd)
		for i := 0; i < 20; i++ {
			v := gen.RandScalar(r, l.fd, gen.MsgOpts{AnyUTF8: true})
			if !v.Equal(old) {
				l.m.Set(l.fd, v)
				return "scalar"
			}
		}
		return ""
	case 2: // flip the sign of a zero float / change NaN payload
		for _, i := range r.Perm(len(leaves)) {
			l := leaves[i]
			if l.fd.Kind() != protoreflect.FloatKind && l.fd.Kind() != protoreflect.DoubleKind {
				continue
			}
			f := l.m.Get(l.fd).Float()
			if f == 0 && l.fd.HasPresence() {
				if l.fd.Kind() == protoreflect.FloatKind {
					l.m.Set(l.fd, protoreflect.ValueOfFloat32(-float32(f)))
				} else {
					l.m.Set(l.fd, protoreflect.ValueOfFloat64(-f))
				}
				return "zero-sign"
			}
			if f != f {
				if l.fd.Kind() == protoreflect.FloatKind {
					l.m.Set(l.fd, protoreflect.ValueOfFloat32(float32frombits(0x7fc00123)))
				} else {
					l.m.Set(l.fd, protoreflect.ValueOfFloat64(float64frombits(0x7ff8000000000abc)))
				}
				return "nan-payload"
			}
		}
		return ""
	case 3: // grow or shrink a list / map
		if len(lists) == 0 {
			return ""
		}
		l := lists[r.Intn(len(lists))]
		if l.fd.IsList() {
			lv := l.m.Mutable(l.fd).List()
			if r.Bool() && lv.Len() > 0 {
				lv.Truncate(lv.Len() - 1)
				return "list-shrink"
			}
			if l.fd.Message() != nil {
				lv.Append(lv.NewElement())
			} else {
				lv.Append(gen.RandScalar(r, l.fd, gen.MsgOpts{}))
			}
			return "list-grow"
		}
		mv := l.m.Mutable(l.fd).Map()
		var first protoreflect.MapKey
		mv.Range(func(k protoreflect.MapKey, _ protoreflect.Value) bool { first = k; return false })
		if first.IsValid() {
			mv.Clear(first)
			return "map-remove"
		}
		return ""
	case 4: // unknown records permuted across numbers (must stay Equal)
		if !keepsUnknown {
			return ""
		}
		a := protowire.AppendVarint(protowire.AppendTag(nil, 19001, protowire.VarintType), 1)
		b := protowire.AppendVarint(protowire.AppendTag(nil, 19002, protowire.VarintType), 2)
		a2 := protowire.AppendVarint(protowire.AppendTag(nil, 19001, protowire.VarintType), 3)
		m.SetUnknown(append(append(append(protoreflect.RawFields{}, a...), b...), a2...))
		return "unknown-setup"
	case 5:
		if len(leaves) == 0 {
			return ""
		}
		// clear a populated singular scalar
		l := leaves[r.Intn(len(leaves))]
		l.m.Clear(l.fd)
		return "clear"
	case 6:
		// swap empty and nil bytes in a populated explicit-presence bytes field
		for _, i := range r.Perm(len(leaves)) {
			l := leaves[i]
			if l.fd.Kind() == protoreflect.BytesKind && l.fd.HasPresence() && len(l.m.Get(l.fd).Bytes()) == 0 {
				l.m.Set(l.fd, protoreflect.ValueOfBytes([]byte{}))
				return "empty-bytes"
			}
		}
		return ""
	}
	return ""
}

func c30Pair(c *core.Ctx, mt protoreflect.MessageType, name string, a, b protoreflect.Message, how string) {
	c.Eval()
	c.Count("pairs")
	sa, sb := snapOf(a), snapOf(b)
	want := sa.EqKey() == sb.EqKey()
	ea, _ := detBytes(a)
	eb, _ := detBytes(b)
	if sa.NumPopulated() > 0 && sb.NumPopulated() > 0 {
		c.DistinctBytes([]byte(name), ea, []byte{1}, eb)
	}
	detail := func() map[string]any {
		return map[string]any{"type": name, "relation": how, "a": core.Hex(ea), "b": core.Hex(eb), "snapshot_equal": want, "first_diff": firstDiff(sa, sb)}
	}
	var ab, ba, aa bool
	if !c.NoPanic("equal:panic:"+name, detail(), func() {
		ab = proto.Equal(a.Interface(), b.Interface())
		ba = proto.Equal(b.Interface(), a.Interface())
		aa = proto.Equal(a.Interface(), a.Interface())
	}) {
		return
	}
	if ab {
		c.Count("equal_true")
	} else {
		c.Count("equal_false")
	}
	if !aa {
		c.Violation("equal:not-reflexive:"+name, detail())
	}
	if ab != ba {
		c.Violation("equal:not-symmetric:"+name, detail())
	}
	if ab != want {
		c.Violation(fmt.Sprintf("equal:vs-model:%s:equal=%v:%s", how, ab, firstDiffOrType(sa, sb, name)), detail())
	}
	if how == "clone" || how == "decode-of-encode" || how == "dynamic-transfer" || how == "self" {
		if !ab {
			c.Violation("equal:false-for-"+how+":"+firstDiffOrType(sa, sb, name), detail())
		}
	}
	// reflection-based equality
	if rv := protoreflect.ValueOfMessage(a).Equal(protoreflect.ValueOfMessage(b)); rv != ab {
		d := detail()
		d["value_equal"] = rv
		c.Violation("equal:vs-protoreflect.Value.Equal:"+name, d)
	}
	// unknown-field permutations on copies
	if how == "mutant:unknown-setup" {
		u := b.GetUnknown()
		recs, ok := orderedUnknown(u)
		if ok && len(recs) == 3 {
			enc := func(order ...int) protoreflect.RawFields {
				var out protoreflect.RawFields
				for _, i := range order {
					out = protowire.AppendTag(out, protowire.Number(recs[i].Num), recs[i].Typ)
					out = append(out, recs[i].Val...)
				}
				return out
			}
			x := proto.Clone(b.Interface()).ProtoReflect()
			x.SetUnknown(enc(1, 0, 2)) // across numbers: still equal
			c.Count("mutant:unknown-across")
			if !proto.Equal(b.Interface(), x.Interface()) {
				c.Violation("equal:unknown-interleaving-between-numbers-matters:"+name, detail())
			}
			y := proto.Clone(b.Interface()).ProtoReflect()
			y.SetUnknown(enc(2, 1, 0)) // within number 19001: order swapped -> different
			c.Count("mutant:unknown-within")
			if proto.Equal(b.Interface(), y.Interface()) {
				c.Violation("equal:unknown-order-within-number-ignored:"+name, detail())
			}
		}
	}
	// protocmp
	if !hasNaNOrAnyOrUnknown(sa) && !hasNaNOrAnyOrUnknown(sb) {
		c.Count("protocmp_compares")
		var ce bool
		if c.NoPanic("equal:panic-protocmp:"+name, detail(), func() { ce = cmp.Equal(a.Interface(), b.Interface(), protocmp.Transform()) }) && ce != ab {
			d := detail()
			d["cmp_equal"] = ce
			c.Violation("equal:vs-protocmp:"+how+":"+firstDiffOrType(sa, sb, name), d)
		}
	}
	if c.WantSample() && how == "mutant:scalar" {
		c.Sample(detail())
	}
}

func firstDiffOrType(a, b *model.Snap, name string) string {
	if d := firstDiff(a, b); d != "" {
		return d
	}
	return name
}

// c30ExtensionSets builds pairs of messages whose extension maps have equal
// sizes but different keys, including entries that are valid but empty lists
// (Mutable without Append, Set of an empty list, Truncate(0)).
func c30ExtensionSets(c *core.Ctx, r *core.Rand, mt protoreflect.MessageType, name string) {
	md := mt.Descriptor()
	if md.ExtensionRanges().Len() == 0 || gen.IsMessageSet(md) {
		return
	}
	xts := gen.ExtensionsOf(nil2global(), md.FullName())
	var lists, singles []protoreflect.ExtensionType
	for _, xt := range xts {
		xd := xt.TypeDescriptor()
		if xd.Message() != nil && gen.InvolvesMessageSet(xd.Message()) {
			continue
		}
		if xd.IsList() {
			lists = append(lists, xt)
		} else if !xd.IsMap() {
			singles = append(singles, xt)
		}
	}
	if len(lists) == 0 || len(lists)+len(singles) < 2 {
		return
	}
	setSingle := func(m protoreflect.Message, xt protoreflect.ExtensionType) {
		xd := xt.TypeDescriptor()
		if xd.Message() != nil {
			v := m.NewField(xd)
			gen.Fill(r, v.Message(), gen.MsgOpts{Density: 30, MaxDepth: 1})
			m.Set(xd, v)
			return
		}
		m.Set(xd, gen.RandScalar(r, xd, gen.MsgOpts{}))
	}
	emptyList := func(m protoreflect.Message, xt protoreflect.ExtensionType, how int) {
		xd := xt.TypeDescriptor()
		switch how % 3 {
		case 0:
			m.Mutable(xd) // valid, empty
		case 1:
			m.Set(xd, m.NewField(xd))
		default:
			l := m.Mutable(xd).List()
			if xd.Message() != nil {
				l.Append(l.NewElement())
			} else {
				l.Append(gen.RandScalar(r, xd, gen.MsgOpts{}))
			}
			l.Truncate(0)
		}
	}
	for how := 0; how < 3; how++ {
		for _, dyn := range []bool{false, true} {
			// x: one empty-list entry; y: one populated other extension
			x, y := newOf(mt, dyn), newOf(mt, dyn)
			le := lists[r.Intn(len(lists))]
			emptyList(x, le, how)
			var other protoreflect.ExtensionType
			for tries := 0; tries < 10 && (other == nil || other == le); tries++ {
				all := append(append([]protoreflect.ExtensionType{}, lists...), singles...)
				other = all[r.Intn(len(all))]
			}
			if other == nil || other == le {
				continue
			}
			if other.TypeDescriptor().IsList() {
				l := y.Mutable(other.TypeDescriptor()).List()
				if other.TypeDescriptor().Message() != nil {
					l.Append(l.NewElement())
				} else {
					l.Append(gen.RandScalar(r, other.TypeDescriptor(), gen.MsgOpts{}))
				}
			} else {
				setSingle(y, other)
			}
			c.Count("extension_set_pairs")
			c30Pair(c, mt, name, x, y, "extension-sets:empty-list-vs-other")
			c30Pair(c, mt, name, y, x, "extension-sets:empty-list-vs-other")
			c30Pair(c, mt, name, x, newOf(mt, dyn), "extension-sets:empty-list-vs-empty-message")
			// both hold the same populated extension, x additionally an empty list, y additionally another one
			if len(singles) > 0 {
				x2, y2 := proto.Clone(x.Interface()).ProtoReflect(), proto.Clone(y.Interface()).ProtoReflect()
				sx := singles[r.Intn(len(singles))]
				if sx != other {
					v := gen.RandScalar
					_ = v
					setSingle(x2, sx)
					y2.Set(sx.TypeDescriptor(), c26CloneValue(sx.TypeDescriptor(), x2.Get(sx.TypeDescriptor())))
					c.Count("extension_set_pairs")
					c30Pair(c, mt, name, x2, y2, "extension-sets:shared-plus-empty-list-vs-shared-plus-other")
					c30Pair(c, mt, name, y2, x2, "extension-sets:shared-plus-empty-list-vs-shared-plus-other")
				}
			}
		}
	}
}
