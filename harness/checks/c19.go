package checks

import (
	"bufio"
	"crypto/sha256"
	"encoding/json"
	"fmt"
	"os"
	"os/exec"
	"path/filepath"
	"regexp"
	"runtime"
	"sort"
	"strings"
	"sync"
	"sync/atomic"
	"time"

	"github.com/anishathalye/porcupine"
	"google.golang.org/protobuf/encoding/protojson"
	"google.golang.org/protobuf/internal/filedesc"
	"google.golang.org/protobuf/internal/impl"
	"google.golang.org/protobuf/proto"
	"google.golang.org/protobuf/reflect/protoreflect"
	"google.golang.org/protobuf/reflect/protoregistry"
	"google.golang.org/protobuf/runtime/protoimpl"
	"google.golang.org/protobuf/types/dynamicpb"
	"google.golang.org/protobuf/verif/core"
	"google.golang.org/protobuf/verif/gen"
	"google.golang.org/protobuf/verif/model"
	"google.golang.org/protobuf/verif/mon"
)

func init() {
	core.Register(&core.Check{
		ID:     "C19",
		Rule:   "cases: schedules, each in a FRESH child process of the race-detector build (first use happens once per process): 4-16 goroutines released by a barrier make first use, in different PRNG orders, of two mutually recursive struct-tag-only messages (even goroutines enter at the cycle's entry type, which declares ninety more fields after the cycle-closing one; odd goroutines arrive at the inner type after a PRNG delay) and of a PRNG pool of 48 message types (generated open/hybrid/opaque, legacy wrappers), their files (every L2 accessor and lookup map), enum and extension types, and the global registries (lookups, ranges, registration of dynamic types under unique and under deliberately conflicting names), with GOMAXPROCS in {1,2,4,16} and PRNG delays injected by the verif hooks at MessageInfo.initOnce / File.lazyInitOnce entry, under the lock and just before the done flag is published; monitors: race-detector report blocks (halt_on_error=0, counted from the log), recovered panics, every goroutine's descriptor digest (deep accessor snapshot) and behaviour digest (deterministic bytes and JSON of fixed content) vs the digests computed by a sequential process of the same binary, hook trace (contended initialisations, exactly one initialiser per MessageInfo / File), and the registry operation history (call/return stamps from one atomic clock) checked with porcupine against a per-name register-once model; distinct = distinct (schedule, goroutine, item); non-trivial = schedule with at least one contended initialisation",
		Assume: []string{"the Go race detector", "porcupine v1.3.0 (linearizability checker)", "digests of a single-goroutine process as the sequential reference"},
		Batches: func(tier string) []core.Batch {
			n := 4
			if tier == "thorough" {
				n = 16
			}
			var bs []core.Batch
			for i := 0; i < n; i++ {
				bs = append(bs, core.Batch{Cfg: "race", Name: fmt.Sprintf("sched-%02d", i), Kind: "sched", N: i})
			}
			return bs
		},
		Gates: func(tier string) map[string]int64 {
			return map[string]int64{"schedules": 8, "child_processes": 8, "goroutines": 60, "first_use_ops": 3000, "digests_compared": 3000, "contended_message_inits": 20, "contended_file_inits": 5, "registry_ops": 800, "registry_conflicting_registrations": 20, "histories_checked": 8, "hook_delays": 200}
		},
		Run: runC19,
	})
}

// ---------- child side ----------

type c19Params struct {
	Seed       uint64   `json:"seed"`
	Schedule   int      `json:"schedule"`
	Goroutines int      `json:"goroutines"`
	Pool       int      `json:"pool"`
	Names      []string `json:"names"` // the pool, chosen by the parent: the child must not touch descriptors before the barrier
	Out        string   `json:"out"`
}

type c19Op struct {
	G      int    `json:"g"`
	Kind   string `json:"kind"` // register | find
	Name   string `json:"name"`
	Call   int64  `json:"call"`
	Return int64  `json:"ret"`
	OK     bool   `json:"ok"`
}

type c19ChildReport struct {
	Digests           map[string]map[string]string `json:"digests"` // goroutine -> item -> digest
	Panics            []string                     `json:"panics"`
	Ops               []c19Op                      `json:"ops"`
	ContendedMsg      int64                        `json:"contended_msg"`
	ContendedFile     int64                        `json:"contended_file"`
	MultiInitMsg      []string                     `json:"multi_init_msg"`
	MultiInitFile     []string                     `json:"multi_init_file"`
	Delays            int64                        `json:"delays"`
	FirstUseOps       int64                        `json:"first_use_ops"`
	InitsObserved     int64                        `json:"inits_observed"`
	FileInitsObserved int64                        `json:"file_inits_observed"`
}

// c19Items lists the items of the schedule's pool in a deterministic order.
func c19Pool(seed uint64, schedule, size int) []protoreflect.MessageType {
	all := gen.AllTypes()
	var cands []protoreflect.MessageType
	for _, mt := range all {
		md := mt.Descriptor()
		if md.IsMapEntry() || gen.InvolvesIrregular(md) || gen.InvolvesMessageSet(md) {
			continue
		}
		cands = append(cands, mt)
	}
	r := core.NewRand(seed, 0xC19, uint64(schedule))
	perm := r.Perm(len(cands))
	var out []protoreflect.MessageType
	for _, i := range perm[:size] {
		out = append(out, cands[i])
	}
	// always include a few families with lazy fields, legacy wrappers and extensions
	for _, n := range []string{"goproto.proto.test.TestAllTypes", "opaque.goproto.proto.testeditions.TestAllTypes", "hybrid.goproto.proto.test3.TestAllTypes", "google.golang.org.proto2_20160225.Message", "google.golang.org.proto3_20190205.Message", "goproto.proto.test.TestAllExtensions", "google.protobuf.FileDescriptorProto", "pb2.KnownTypes"} {
		if mt := gen.TypeByName(n); mt != nil {
			out = append(out, mt)
		}
	}
	return out
}

// c19Digest performs first use of one message type (and its file) and returns digests.
func c19Digest(mt protoreflect.MessageType) (string, int) {
	md := mt.Descriptor()
	name := string(md.FullName())
	ops := 0
	h := sha256.New()
	// descriptor view of the whole file (L2 accessors, options, lookup maps)
	fd := md.ParentFile()
	if fd != nil {
		s := model.SnapFile(fd, model.DescSnapOpts{})
		for _, l := range s.Lines {
			h.Write([]byte(l))
			h.Write([]byte{'\n'})
		}
		ops++
		// keyed lookups (sync.Once maps)
		for i := 0; i < md.Fields().Len(); i++ {
			f := md.Fields().Get(i)
			if md.Fields().ByName(f.Name()) == nil || md.Fields().ByNumber(f.Number()) == nil || md.Fields().ByJSONName(f.JSONName()) == nil || md.Fields().ByTextName(f.TextName()) == nil {
				h.Write([]byte("lookup-failed:" + string(f.Name())))
			}
		}
		ops++
	}
	// behaviour: fixed content, deterministic bytes, JSON, decode, reflection, clone, equal
	r := core.NewRand(7, core.HashStr(name))
	m := mt.New()
	gen.Fill(r, m, gen.MsgOpts{JSONSafe: true, Extensions: true, Density: 35, MaxDepth: 2, OnlyDeclaredEnums: true})
	b, err := proto.MarshalOptions{Deterministic: true, AllowPartial: true}.Marshal(m.Interface())
	h.Write(b)
	fmt.Fprintf(h, "|%v|%d|", err != nil, proto.Size(m.Interface()))
	m2 := mt.New()
	e2 := proto.UnmarshalOptions{AllowPartial: true}.Unmarshal(b, m2.Interface())
	fmt.Fprintf(h, "%v|%v|", e2 != nil, proto.Equal(m.Interface(), m2.Interface()))
	j, e3 := protojson.MarshalOptions{AllowPartial: true}.Marshal(m2.Interface())
	h.Write(j)
	fmt.Fprintf(h, "|%v|", e3 != nil)
	h.Write([]byte(model.Of(proto.Clone(m2.Interface()).ProtoReflect()).String()))
	// extension types of this message
	for _, xt := range gen.ExtensionsOf(protoregistry.GlobalTypes, md.FullName()) {
		xd := xt.TypeDescriptor()
		fmt.Fprintf(h, "x%d:%v:%v;", xd.Number(), xd.Kind(), m2.Has(xd))
	}
	// enums of the file through the registry
	if fd != nil {
		for i := 0; i < fd.Enums().Len(); i++ {
			if et, err := protoregistry.GlobalTypes.FindEnumByName(fd.Enums().Get(i).FullName()); err == nil {
				fmt.Fprintf(h, "e%s:%d;", et.Descriptor().Name(), et.Descriptor().Values().Len())
			}
		}
	}
	ops += 6
	return fmt.Sprintf("%x", h.Sum(nil)[:12]), ops
}

// C19Child is the entry point of the child process (`verifrun c19child <json>`).
func C19Child(arg string) int {
	var p c19Params
	if err := json.Unmarshal([]byte(arg), &p); err != nil {
		fmt.Fprintln(os.Stderr, "bad params", err)
		return 3
	}
	rep := c19ChildReport{Digests: map[string]map[string]string{}}
	var mu sync.Mutex
	var clock atomic.Int64
	// hook sinks: contention accounting + delay injection
	var delays atomic.Int64
	type st struct {
		entered  atomic.Int32
		inits    atomic.Int32
		contend  atomic.Bool
		publishd atomic.Bool
	}
	var msgSt, fileSt sync.Map
	dr := core.NewRand(p.Seed, 0xDE1A, uint64(p.Schedule))
	var drMu sync.Mutex
	delay := func(max int) {
		drMu.Lock()
		d := dr.Intn(max + 1)
		drMu.Unlock()
		if d > 0 {
			delays.Add(1)
			time.Sleep(time.Duration(d) * time.Microsecond)
		} else {
			runtime.Gosched()
		}
	}
	concurrent := p.Goroutines > 1
	mon.SetInit(func(stage int, mi *impl.MessageInfo) {
		v, _ := msgSt.LoadOrStore(mi, &st{})
		s := v.(*st)
		switch stage {
		case 0:
			if s.entered.Add(1) > 1 && !s.publishd.Load() {
				s.contend.Store(true)
			}
			if concurrent {
				delay(150)
			}
		case 1:
			s.inits.Add(1)
			if concurrent {
				delay(300)
			}
		case 2:
			if concurrent {
				delay(200)
			}
			s.publishd.Store(true)
		}
	})
	filedesc.SetVerifFileInitSink(func(stage int, fd *filedesc.File) {
		v, _ := fileSt.LoadOrStore(fd, &st{})
		s := v.(*st)
		switch stage {
		case 0:
			if s.entered.Add(1) > 1 && !s.publishd.Load() {
				s.contend.Store(true)
			}
			if concurrent {
				delay(150)
			}
		case 1:
			s.inits.Add(1)
			if concurrent {
				delay(300)
			}
		case 2:
			if concurrent {
				delay(200)
			}
			s.publishd.Store(true)
		}
	})
	var pool []protoreflect.MessageType
	for _, n := range p.Names {
		if mt, err := protoregistry.GlobalTypes.FindMessageByName(protoreflect.FullName(n)); err == nil {
			pool = append(pool, mt)
		}
	}
	// registry names: unique per goroutine and shared (conflicting) ones
	regNames := func(g int) []string {
		var out []string
		for i := 0; i < 6; i++ {
			out = append(out, fmt.Sprintf("c19.s%d.unique.g%d.M%d", p.Schedule, g, i))
		}
		for i := 0; i < 6; i++ {
			out = append(out, fmt.Sprintf("c19.s%d.shared.M%d", p.Schedule, i))
		}
		return out
	}
	mkType := func(full string) protoreflect.MessageType {
		i := strings.LastIndexByte(full, '.')
		fdp := gen.SimpleFile("c19/"+full+".proto", full[:i], full[i+1:])
		fd, err := gen.BuildFile(fdp)
		if err != nil {
			return nil
		}
		return dynamicpb.NewMessageType(fd.Messages().Get(0))
	}
	var start, wg sync.WaitGroup
	start.Add(1)
	var firstUse atomic.Int64
	for g := 0; g < p.Goroutines; g++ {
		wg.Add(1)
		go func(g int) {
			defer wg.Done()
			r := core.NewRand(p.Seed, 0x60, uint64(p.Schedule), uint64(g))
			order := r.Perm(len(pool))
			digs := map[string]string{}
			var ops []c19Op
			names := regNames(g)
			// pre-build the dynamic types outside the timed section
			types := map[string]protoreflect.MessageType{}
			for _, n := range names {
				types[n] = mkType(n)
			}
			start.Wait()
			// first use of two mutually recursive struct-tag-only messages: even goroutines
			// start at the cycle's entry, odd ones arrive at the inner type a little later
			func() {
				defer func() {
					if x := recover(); x != nil {
						mu.Lock()
						rep.Panics = append(rep.Panics, fmt.Sprintf("g%d struct-tag cycle: %v", g, x))
						mu.Unlock()
					}
				}()
				first, second := any(&C19CycA{}), any(&C19CycB{})
				if g%2 == 1 {
					first, second = second, first
					if concurrent {
						delay(2500)
					}
				}
				for _, v := range []any{first, second} {
					mt := protoimpl.X.ProtoMessageV2Of(v).ProtoReflect().Type()
					d, n := c19Digest(mt)
					digs[string(mt.Descriptor().FullName())] = d
					firstUse.Add(int64(n))
				}
			}()
			for k, idx := range order {
				mt := pool[idx]
				func() {
					defer func() {
						if x := recover(); x != nil {
							mu.Lock()
							rep.Panics = append(rep.Panics, fmt.Sprintf("g%d %s: %v", g, mt.Descriptor().FullName(), x))
							mu.Unlock()
						}
					}()
					d, n := c19Digest(mt)
					digs[string(mt.Descriptor().FullName())] = d
					firstUse.Add(int64(n))
				}()
				// interleave registry traffic
				if k < len(names)*2 {
					n := names[(k/2)%len(names)]
					if k%2 == 0 && types[n] != nil {
						op := c19Op{G: g, Kind: "register", Name: n, Call: clock.Add(1)}
						// a conflict on the global registry panics by default (documented policy): that is the "failed" outcome
						okReg := false
						func() {
							defer func() { recover() }()
							okReg = protoregistry.GlobalTypes.RegisterMessage(types[n]) == nil
						}()
						op.Return, op.OK = clock.Add(1), okReg
						ops = append(ops, op)
					} else {
						op := c19Op{G: g, Kind: "find", Name: n, Call: clock.Add(1)}
						_, err := protoregistry.GlobalTypes.FindMessageByName(protoreflect.FullName(n))
						op.Return, op.OK = clock.Add(1), err == nil
						ops = append(ops, op)
					}
					// plain lookups and ranges of linked types
					if _, err := protoregistry.GlobalTypes.FindMessageByName(mt.Descriptor().FullName()); err != nil {
						digs["registry-lookup-failed:"+string(mt.Descriptor().FullName())] = "x"
					}
					if k%8 == 0 {
						cnt := 0
						protoregistry.GlobalFiles.RangeFiles(func(protoreflect.FileDescriptor) bool { cnt++; return cnt < 40 })
					}
				}
			}
			mu.Lock()
			rep.Digests[fmt.Sprint(g)] = digs
			rep.Ops = append(rep.Ops, ops...)
			mu.Unlock()
		}(g)
	}
	start.Done()
	wg.Wait()
	rep.Delays = delays.Load()
	rep.FirstUseOps = firstUse.Load()
	msgSt.Range(func(k, v any) bool {
		s := v.(*st)
		rep.InitsObserved++
		if s.contend.Load() {
			rep.ContendedMsg++
		}
		if s.inits.Load() > 1 {
			rep.MultiInitMsg = append(rep.MultiInitMsg, fmt.Sprint(k.(*impl.MessageInfo).GoReflectType))
		}
		return true
	})
	fileSt.Range(func(k, v any) bool {
		s := v.(*st)
		rep.FileInitsObserved++
		if s.contend.Load() {
			rep.ContendedFile++
		}
		if s.inits.Load() > 1 {
			rep.MultiInitFile = append(rep.MultiInitFile, k.(*filedesc.File).Path())
		}
		return true
	})
	f, err := os.Create(p.Out)
	if err != nil {
		return 3
	}
	defer f.Close()
	w := bufio.NewWriter(f)
	json.NewEncoder(w).Encode(&rep)
	w.Flush()
	return 0
}

// ---------- parent side ----------

var reRaceFrame = regexp.MustCompile(`(?m)^  ([A-Za-z0-9_./()*\[\]-]+)\(\)$`)

func c19RaceSignatures(logs string) []string {
	var out []string
	seen := map[string]bool{}
	for _, blk := range strings.Split(logs, "WARNING: DATA RACE")[1:] {
		fr := reRaceFrame.FindAllStringSubmatch(blk, -1)
		var a, b string
		// first frame after each access header
		parts := strings.SplitN(blk, "Previous ", 2)
		if f := reRaceFrame.FindStringSubmatch(parts[0]); f != nil {
			a = f[1]
		}
		if len(parts) > 1 {
			if f := reRaceFrame.FindStringSubmatch(parts[1]); f != nil {
				b = f[1]
			}
		}
		if a == "" && len(fr) > 0 {
			a = fr[0][1]
		}
		if a > b {
			a, b = b, a
		}
		sig := a + " <-> " + b
		if !seen[sig] {
			seen[sig] = true
			out = append(out, sig)
		}
	}
	sort.Strings(out)
	return out
}

func runC19(c *core.Ctx, b core.Batch) {
	self, err := os.Executable()
	if err != nil {
		c.Violation("harness:no-executable", nil)
		return
	}
	nsched := c.Scale(3, 8)
	refDigest := map[string]string{} // computed lazily by this (single-goroutine) process: the sequential reference
	for s := 0; s < nsched; s++ {
		schedule := b.N*100 + s
		gor := []int{4, 8, 16, 6}[s%4]
		gmp := []int{16, 4, 2, 1}[(s+b.N)%4]
		out := filepath.Join(c.Dir, fmt.Sprintf("child-%d.json", schedule))
		racelog := filepath.Join(c.Dir, fmt.Sprintf("race-%d", schedule))
		var names []string
		for _, mt := range c19Pool(c.Seed, schedule, 40) {
			names = append(names, string(mt.Descriptor().FullName()))
		}
		arg, _ := json.Marshal(c19Params{Seed: c.Seed, Schedule: schedule, Goroutines: gor, Pool: 40, Names: names, Out: out})
		c.Log("C19 schedule=%d goroutines=%d gomaxprocs=%d", schedule, gor, gmp)
		cmd := exec.Command("timeout", "-s", "QUIT", "600", self, "c19child", string(arg))
		cmd.Env = append(os.Environ(), fmt.Sprintf("GOMAXPROCS=%d", gmp), "GORACE=halt_on_error=0 log_path="+racelog)
		stderrPath := filepath.Join(c.Dir, fmt.Sprintf("child-%d.stderr", schedule))
		ef, _ := os.Create(stderrPath)
		cmd.Stdout, cmd.Stderr = ef, ef
		runErr := cmd.Run()
		ef.Close()
		c.Eval()
		c.Count("schedules")
		c.Count("child_processes")
		c.CountN("goroutines", int64(gor))
		c.Count(fmt.Sprintf("gomaxprocs:%d", gmp))
		// race reports
		var logs strings.Builder
		if m, _ := filepath.Glob(racelog + ".*"); len(m) > 0 {
			for _, f := range m {
				if bb, e := os.ReadFile(f); e == nil {
					logs.Write(bb)
				}
			}
		}
		if eb, e := os.ReadFile(stderrPath); e == nil {
			logs.Write(eb)
		}
		nraces := strings.Count(logs.String(), "WARNING: DATA RACE")
		c.CountN("race_reports", int64(nraces))
		if nraces > 0 {
			for _, sig := range c19RaceSignatures(logs.String()) {
				c.Violation("firstuse:data-race:"+sig, map[string]any{"schedule": schedule, "goroutines": gor, "gomaxprocs": gmp, "reports": nraces, "excerpt": clip(logs.String(), 3000)})
			}
		}
		raw, rerr := os.ReadFile(out)
		if runErr != nil || rerr != nil {
			// a crash of the child (fatal error: concurrent map writes, runtime throw, timeout)
			ex := clip(logs.String(), 3000)
			if strings.Contains(ex, "fatal error") || strings.Contains(ex, "panic:") {
				c.Violation("firstuse:child-crashed:"+c41ErrClass(ex), map[string]any{"schedule": schedule, "stderr": ex})
			} else {
				c.Count("child_inconclusive")
			}
			continue
		}
		var rep c19ChildReport
		if json.Unmarshal(raw, &rep) != nil {
			c.Count("child_inconclusive")
			continue
		}
		for _, p := range rep.Panics {
			c.Violation("firstuse:panic:"+reNumbers.ReplaceAllString(clip(p, 80), "N"), map[string]any{"schedule": schedule, "panic": p})
		}
		c.CountN("contended_message_inits", rep.ContendedMsg)
		c.CountN("contended_file_inits", rep.ContendedFile)
		c.CountN("hook_delays", rep.Delays)
		c.CountN("first_use_ops", rep.FirstUseOps)
		c.CountN("message_inits_observed", rep.InitsObserved)
		c.CountN("file_inits_observed", rep.FileInitsObserved)
		for _, n := range rep.MultiInitMsg {
			c.Violation("firstuse:message-info-initialised-more-than-once", map[string]any{"schedule": schedule, "type": n})
		}
		for _, n := range rep.MultiInitFile {
			c.Violation("firstuse:file-lazy-init-ran-more-than-once", map[string]any{"schedule": schedule, "file": n})
		}
		// digests vs the sequential reference (this process, one goroutine)
		for g, digs := range rep.Digests {
			for item, d := range digs {
				if strings.HasPrefix(item, "registry-lookup-failed:") {
					c.Violation("firstuse:linked-type-not-found-in-registry", map[string]any{"schedule": schedule, "item": item})
					continue
				}
				want, ok := refDigest[item]
				if !ok {
					if mt := gen.TypeByName(item); mt != nil {
						want, _ = c19Digest(mt)
						refDigest[item] = want
					} else {
						// the struct-tag-only cycle types, derived here by one goroutine
						for _, v := range []any{&C19CycA{}, &C19CycB{}} {
							if mt := protoimpl.X.ProtoMessageV2Of(v).ProtoReflect().Type(); string(mt.Descriptor().FullName()) == item {
								want, _ = c19Digest(mt)
								refDigest[item] = want
								c.Count("struct_tag_cycle_reference_digests")
							}
						}
					}
				}
				c.Count("digests_compared")
				c.DistinctStr(fmt.Sprintf("%d/%s/%s", schedule, g, item))
				if d != want {
					c.Violation("firstuse:digest-differs-from-sequential-process", map[string]any{"schedule": schedule, "goroutine": g, "item": item, "got": d, "want": want, "goroutines": gor, "gomaxprocs": gmp})
				}
			}
		}
		// registry history: linearizable against register-once per name
		c19CheckHistory(c, schedule, rep.Ops)
		if c.WantSample() {
			c.Sample(map[string]any{"schedule": schedule, "goroutines": gor, "gomaxprocs": gmp, "contended_message_inits": rep.ContendedMsg, "contended_file_inits": rep.ContendedFile, "delays_injected": rep.Delays, "race_reports": nraces, "registry_ops": len(rep.Ops), "digests": len(rep.Digests)})
		}
	}
}

var reNumbers = regexp.MustCompile(`[0-9]+`)

type c19In struct {
	Kind, Name string
}

func c19CheckHistory(c *core.Ctx, schedule int, ops []c19Op) {
	if len(ops) == 0 {
		return
	}
	c.CountN("registry_ops", int64(len(ops)))
	byName := map[string][]c19Op{}
	for _, o := range ops {
		byName[o.Name] = append(byName[o.Name], o)
		if o.Kind == "register" && strings.Contains(o.Name, ".shared.") {
			c.Count("registry_conflicting_registrations")
		}
	}
	modelM := porcupine.Model{
		Partition: func(history []porcupine.Operation) [][]porcupine.Operation {
			m := map[string][]porcupine.Operation{}
			var keys []string
			for _, o := range history {
				k := o.Input.(c19In).Name
				if _, ok := m[k]; !ok {
					keys = append(keys, k)
				}
				m[k] = append(m[k], o)
			}
			sort.Strings(keys)
			var out [][]porcupine.Operation
			for _, k := range keys {
				out = append(out, m[k])
			}
			return out
		},
		Init: func() any { return false },
		Step: func(state, input, output any) (bool, any) {
			in, registered, ok := input.(c19In), state.(bool), output.(bool)
			if in.Kind == "register" {
				if registered {
					return !ok, true // a second registration must fail
				}
				return ok, true // the first must succeed
			}
			return ok == registered, registered
		},
		DescribeOperation: func(input, output any) string { return fmt.Sprintf("%v -> %v", input, output) },
	}
	var hist []porcupine.Operation
	for _, o := range ops {
		hist = append(hist, porcupine.Operation{ClientId: o.G, Input: c19In{o.Kind, o.Name}, Call: o.Call, Output: o.OK, Return: o.Return})
	}
	res, _ := porcupine.CheckOperationsVerbose(modelM, hist, 60*time.Second)
	switch res {
	case porcupine.Ok:
		c.Count("histories_checked")
	case porcupine.Illegal:
		// find the offending name for the fingerprint detail
		bad := ""
		for n, l := range byName {
			var h []porcupine.Operation
			for _, o := range l {
				h = append(h, porcupine.Operation{ClientId: o.G, Input: c19In{o.Kind, o.Name}, Call: o.Call, Output: o.OK, Return: o.Return})
			}
			if porcupine.CheckOperations(modelM, h) != true {
				bad = n
				break
			}
		}
		kind := "unique-name"
		if strings.Contains(bad, ".shared.") {
			kind = "shared-name"
		}
		c.Violation("firstuse:registry-history-not-linearizable:"+kind, map[string]any{"schedule": schedule, "name": bad, "ops": byName[bad]})
	default:
		c.Count("history_check_inconclusive")
	}
}
