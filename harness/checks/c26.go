package checks

import (
	"fmt"
	"strings"

	"google.golang.org/protobuf/encoding/protojson"
	"google.golang.org/protobuf/encoding/prototext"
	"google.golang.org/protobuf/proto"
	"google.golang.org/protobuf/reflect/protoreflect"
	"google.golang.org/protobuf/verif/core"
	"google.golang.org/protobuf/verif/gen"
)

func init() {
	core.Register(&core.Check{
		ID:     "C26",
		Rule:   "cases: for every linked message type, (a) totality: JSON and text documents produced by the marshalers from PRNG-filled messages, then mutated (token and byte level: deletions, duplications, swaps, junk, truncation) and raw PRNG bytes / token soups, decoded with and without DiscardUnknown - no panic or crash; (b) uniqueness: documents that by construction set one non-repeated field twice (same name, JSON name + proto name, [extension] name, group name, field numbers above 64) or two members of one oneof - must be rejected; (c) depth: documents nested to RecursionLimit+2 and beyond (limits 1,2,3,5,10,100 and the default) through recursive message cycles, Value/ListValue/Struct, Any in Any, and through the skip paths (unknown fields under DiscardUnknown, reserved field names, unknown lists) - must be rejected, while the same shape at limit-2 is accepted; distinct = distinct documents; non-trivial = document longer than 2 bytes",
		Assume: []string{"documents are built by the library's own marshalers from single-field messages and concatenated, so 'sets the field twice' holds by construction"},
		Batches: func(tier string) []core.Batch {
			bs := stdBatches([]string{"base"}, 12)
			bs = append(bs, core.Batch{Cfg: "base", Name: "depth", Kind: "depth"}, core.Batch{Cfg: "base", Name: "soup", Kind: "soup"})
			return bs
		},
		Gates: func(tier string) map[string]int64 {
			return map[string]int64{"decodes_json": 30000, "decodes_text": 30000, "dup_json": 3000, "dup_text": 3000, "dup_json_mixed_names": 500, "dup_number_over_64": 200, "dup_extension": 10, "oneof_pairs_json": 300, "oneof_pairs_text": 300,
				"depth_must_reject": 200, "depth_shallow_accepted": 100, "depth_skip_path": 60, "depth_cycles": 10, "singles_ok": 3000}
		},
		Run: runC26,
	})
}

func runC26(c *core.Ctx, b core.Batch) {
	switch b.Kind {
	case "depth":
		c26Depth(c)
	case "soup":
		c26Soup(c)
	default:
		c26Types(c, b)
	}
}

func c26DecodeJSON(c *core.Ctx, mt protoreflect.MessageType, dyn bool, doc []byte, discard bool) error {
	c.Count("decodes_json")
	c.Eval()
	name := string(mt.Descriptor().FullName())
	c.Log("C26 json type=%s discard=%v doc=%q", name, discard, clip(string(doc), 20000))
	var err error
	c.NoPanic("total:json-panic:"+name, map[string]any{"doc": clip(string(doc), 2000), "discard": discard}, func() {
		err = protojson.UnmarshalOptions{DiscardUnknown: discard, AllowPartial: true}.Unmarshal(doc, newOf(mt, dyn).Interface())
	})
	return err
}

func c26DecodeText(c *core.Ctx, mt protoreflect.MessageType, dyn bool, doc []byte, discard bool) error {
	c.Count("decodes_text")
	c.Eval()
	name := string(mt.Descriptor().FullName())
	c.Log("C26 text type=%s discard=%v doc=%q", name, discard, clip(string(doc), 20000))
	var err error
	c.NoPanic("total:text-panic:"+name, map[string]any{"doc": clip(string(doc), 2000), "discard": discard}, func() {
		err = prototext.UnmarshalOptions{DiscardUnknown: discard, AllowPartial: true}.Unmarshal(doc, newOf(mt, dyn).Interface())
	})
	return err
}

func c26Mutate(r *core.Rand, doc []byte, jsonish bool) []byte {
	if len(doc) == 0 {
		return []byte{byte(r.Intn(256))}
	}
	out := append([]byte(nil), doc...)
	n := 1 + r.Intn(3)
	for i := 0; i < n && len(out) > 0; i++ {
		p := r.Intn(len(out))
		switch r.Intn(8) {
		case 0:
			out = append(out[:p], out[p+1:]...)
		case 1:
			junk := []string{"{", "}", "[", "]", ":", ",", "\"", "\\", "<", ">", "#", "-", "e", "0x", ".", "\x00", "\xff", "null", "inf", "nan", "[type.googleapis.com/", "@type", ";", "'", "\n"}[r.Intn(25)]
			out = append(out[:p], append([]byte(junk), out[p:]...)...)
		case 2:
			out[p] = byte(r.Intn(256))
		case 3:
			out = out[:p]
		case 4:
			q := r.Intn(len(out))
			if q < p {
				p, q = q, p
			}
			seg := append([]byte(nil), out[p:q]...)
			out = append(out[:q], append(seg, out[q:]...)...)
		case 5:
			q := r.Intn(len(out))
			out[p], out[q] = out[q], out[p]
		case 6:
			q := p + r.Intn(len(out)-p)
			out = append(out[:p], out[q:]...)
		case 7:
			out[p] ^= 1 << uint(r.Intn(8))
		}
	}
	return out
}

// c26Singles builds messages with exactly one top-level field populated, one
// per (singular non-map, non-list) field and extension of mt.
func c26Singles(r *core.Rand, mt protoreflect.MessageType, dyn bool) (fds []protoreflect.FieldDescriptor, msgs []protoreflect.Message) {
	md := mt.Descriptor()
	var all []protoreflect.FieldDescriptor
	for i := 0; i < md.Fields().Len(); i++ {
		all = append(all, md.Fields().Get(i))
	}
	if md.ExtensionRanges().Len() > 0 && !gen.IsMessageSet(md) {
		for _, xt := range gen.ExtensionsOf(nil2global(), md.FullName()) {
			all = append(all, xt.TypeDescriptor())
		}
	}
	for _, fd := range all {
		if fd.IsList() || fd.IsMap() || fd.IsWeak() {
			continue
		}
		if fd.Message() != nil && gen.IsMessageSet(fd.Message()) {
			continue
		}
		m := newOf(mt, dyn)
		full := newOf(mt, dyn)
		// fill a full message and copy just this field, so values are diverse
		gen.Fill(r, full, gen.MsgOpts{JSONSafe: true, Density: 100, MaxDepth: 1, Extensions: true, OnlyDeclaredEnums: true})
		if fd.ContainingOneof() != nil || !full.Has(fd) {
			// oneof members are mutually exclusive in `full`: set directly
			single := newOf(mt, dyn)
			c26SetOne(r, single, fd)
			m = single
		} else {
			m.Set(fd, c26CloneValue(fd, full.Get(fd)))
		}
		if !m.Has(fd) {
			continue
		}
		fds = append(fds, fd)
		msgs = append(msgs, m)
	}
	return
}

func c26CloneValue(fd protoreflect.FieldDescriptor, v protoreflect.Value) protoreflect.Value {
	if fd.Message() != nil {
		return protoreflect.ValueOfMessage(proto.Clone(v.Message().Interface()).ProtoReflect())
	}
	return v
}

func c26SetOne(r *core.Rand, m protoreflect.Message, fd protoreflect.FieldDescriptor) {
	if fd.Message() != nil {
		v := m.NewField(fd)
		gen.Fill(r, v.Message(), gen.MsgOpts{JSONSafe: true, Density: 30, MaxDepth: 1, OnlyDeclaredEnums: true})
		if fd.Message().FullName() == "google.protobuf.Value" && !v.Message().IsValid() {
			return
		}
		m.Set(fd, v)
		return
	}
	for i := 0; i < 20; i++ {
		v := gen.RandScalar(r, fd, gen.MsgOpts{JSONSafe: true, OnlyDeclaredEnums: true})
		m.Set(fd, v)
		if m.Has(fd) {
			return
		}
	}
}

// jsonInner strips the outer braces of a compact JSON object.
func jsonInner(b []byte) (string, bool) {
	s := strings.TrimSpace(string(b))
	if len(s) < 2 || s[0] != '{' || s[len(s)-1] != '}' {
		return "", false
	}
	in := strings.TrimSpace(s[1 : len(s)-1])
	return in, in != ""
}

func c26Types(c *core.Ctx, b core.Batch) {
	types := shard(codecTypes(b), b.N, 12)
	per := c.Scale(4, 60)
	for ti, mt := range types {
		md := mt.Descriptor()
		name := string(md.FullName())
		wkt := md.FullName().Parent() == "google.protobuf" && md.ParentFile().Path() != "google/protobuf/descriptor.proto" && md.ParentFile().Path() != "google/protobuf/compiler/plugin.proto"
		for k := 0; k < per; k++ {
			r := c.Rng(uint64(ti)<<24 | uint64(k))
			dyn := k%3 == 2
			// (a) totality on mutated marshal outputs
			m := newOf(mt, dyn)
			gen.Fill(r, m, gen.MsgOpts{JSONSafe: true, Extensions: true, Density: 20 + 20*(k%4), MaxDepth: 2})
			jdoc, jerr := protojson.MarshalOptions{AllowPartial: true, Multiline: k%2 == 0}.Marshal(m.Interface())
			tdoc, terr := prototext.MarshalOptions{AllowPartial: true, Multiline: k%2 == 1}.Marshal(m.Interface())
			if jerr == nil {
				c.DistinctBytes([]byte(name), jdoc)
				c26DecodeJSON(c, mt, dyn, jdoc, false)
				for i := 0; i < 10; i++ {
					mu := c26Mutate(r, jdoc, true)
					c26DecodeJSON(c, mt, dyn, mu, i%2 == 0)
					c26DecodeText(c, mt, dyn, mu, i%2 == 1) // cross-feeding
				}
			}
			if terr == nil {
				c26DecodeText(c, mt, dyn, tdoc, false)
				for i := 0; i < 10; i++ {
					mu := c26Mutate(r, tdoc, false)
					c26DecodeText(c, mt, dyn, mu, i%2 == 0)
				}
			}
			for i := 0; i < 4; i++ {
				raw := r.Bytes(r.Intn(40))
				c26DecodeJSON(c, mt, dyn, raw, i%2 == 0)
				c26DecodeText(c, mt, dyn, raw, i%2 == 0)
			}
			if wkt || k >= c.Scale(1, 12) {
				continue // WKTs have special JSON forms (not objects keyed by field names)
			}
			// (b) uniqueness
			fds, singles := c26Singles(r, mt, dyn)
			type form struct {
				fd        protoreflect.FieldDescriptor
				json1, jp string // JSON-name form and proto-name form (inner of the object)
				text      string
				jok, tok  bool
			}
			var forms []form
			for i, fd := range fds {
				var f form
				f.fd = fd
				if j1, e := (protojson.MarshalOptions{AllowPartial: true}).Marshal(singles[i].Interface()); e == nil {
					if j2, e2 := (protojson.MarshalOptions{AllowPartial: true, UseProtoNames: true}).Marshal(singles[i].Interface()); e2 == nil {
						var ok1, ok2 bool
						f.json1, ok1 = jsonInner(j1)
						f.jp, ok2 = jsonInner(j2)
						f.jok = ok1 && ok2
					}
				}
				if t1, e := (prototext.MarshalOptions{AllowPartial: true}).Marshal(singles[i].Interface()); e == nil && len(t1) > 0 {
					f.text, f.tok = string(t1), true
				}
				// the single-field document itself must be accepted (otherwise the duplicate test is vacuous)
				if f.jok {
					if e := c26DecodeJSON(c, mt, dyn, []byte("{"+f.json1+"}"), false); e != nil {
						f.jok = false
						c.Count("single_json_rejected")
					} else {
						c.Count("singles_ok")
					}
				}
				if f.tok {
					if e := c26DecodeText(c, mt, dyn, []byte(f.text), false); e != nil {
						f.tok = false
						c.Count("single_text_rejected")
					} else {
						c.Count("singles_ok")
					}
				}
				forms = append(forms, f)
			}
			for _, f := range forms {
				fd := f.fd
				cls := kindCell(fd)
				if fd.IsExtension() {
					cls = "extension/" + cls
				}
				if f.jok {
					docs := []string{"{" + f.json1 + "," + f.json1 + "}", "{" + f.json1 + ", " + f.jp + "}", "{" + f.jp + "," + f.json1 + "}"}
					for di, doc := range docs {
						c.Count("dup_json")
						if di > 0 && f.json1 != f.jp {
							c.Count("dup_json_mixed_names")
						}
						if fd.Number() >= 64 {
							c.Count("dup_number_over_64")
						}
						if fd.IsExtension() {
							c.Count("dup_extension")
						}
						c.DistinctStr(doc)
						for _, discard := range []bool{false, true} {
							if e := c26DecodeJSON(c, mt, dyn, []byte(doc), discard); e == nil {
								c.Violation(fmt.Sprintf("unique:json-duplicate-accepted:%s:mixed-names=%v:number>=64=%v", cls, di > 0 && f.json1 != f.jp, fd.Number() >= 64), map[string]any{"type": name, "field": string(fd.FullName()), "doc": clip(doc, 1000), "discard": discard})
							}
						}
					}
				}
				if f.tok {
					for _, sep := range []string{" ", "\n", ", ", "; "} {
						doc := strings.TrimSpace(f.text) + sep + f.text
						c.Count("dup_text")
						if fd.Number() >= 64 {
							c.Count("dup_number_over_64")
						}
						if fd.IsExtension() {
							c.Count("dup_extension")
						}
						c.DistinctStr(doc)
						if e := c26DecodeText(c, mt, dyn, []byte(doc), sep == " "); e == nil {
							c.Violation(fmt.Sprintf("unique:text-duplicate-accepted:%s:number>=64=%v", cls, fd.Number() >= 64), map[string]any{"type": name, "field": string(fd.FullName()), "doc": clip(doc, 1000)})
						}
					}
					if c.WantSample() && fd.Message() != nil {
						c.Sample(map[string]any{"type": name, "field": string(fd.Name()), "duplicate_text_document": clip(strings.TrimSpace(f.text)+" "+f.text, 300), "rejected": true})
					}
				}
			}
			// oneof pairs
			for i := range forms {
				for j := range forms {
					a, bb := forms[i], forms[j]
					if i == j || a.fd.ContainingOneof() == nil || a.fd.ContainingOneof() != bb.fd.ContainingOneof() || a.fd.ContainingOneof().IsSynthetic() {
						continue
					}
					cls := "oneof:" + kindCell(a.fd) + "+" + kindCell(bb.fd)
					if a.jok && bb.jok {
						c.Count("oneof_pairs_json")
						doc := "{" + a.json1 + "," + bb.jp + "}"
						if e := c26DecodeJSON(c, mt, dyn, []byte(doc), false); e == nil {
							c.Violation("unique:json-two-oneof-members-accepted:"+cls, map[string]any{"type": name, "doc": clip(doc, 1000)})
						}
					}
					if a.tok && bb.tok {
						c.Count("oneof_pairs_text")
						doc := a.text + " " + bb.text
						if e := c26DecodeText(c, mt, dyn, []byte(doc), false); e == nil {
							c.Violation("unique:text-two-oneof-members-accepted:"+cls, map[string]any{"type": name, "doc": clip(doc, 1000)})
						}
					}
				}
			}
		}
	}
}

// c26Cycle finds a cycle of singular message/group fields from md back to md
// (length <= 3).
func c26Cycle(md protoreflect.MessageDescriptor) []protoreflect.FieldDescriptor {
	var dfs func(cur protoreflect.MessageDescriptor, path []protoreflect.FieldDescriptor) []protoreflect.FieldDescriptor
	dfs = func(cur protoreflect.MessageDescriptor, path []protoreflect.FieldDescriptor) []protoreflect.FieldDescriptor {
		if len(path) >= 3 {
			return nil
		}
		for i := 0; i < cur.Fields().Len(); i++ {
			fd := cur.Fields().Get(i)
			if fd.Message() == nil || fd.IsList() || fd.IsMap() || fd.Message().FullName().Parent() == "google.protobuf" {
				continue
			}
			p := append(append([]protoreflect.FieldDescriptor(nil), path...), fd)
			if fd.Message() == md {
				return p
			}
			if r := dfs(fd.Message(), p); r != nil {
				return r
			}
		}
		return nil
	}
	return dfs(md, nil)
}

func textFieldName(fd protoreflect.FieldDescriptor) string {
	if fd.Kind() == protoreflect.GroupKind {
		return string(fd.Message().Name())
	}
	return string(fd.Name())
}

func c26Depth(c *core.Ctx) {
	limits := []int{1, 2, 3, 5, 10, 100, 0} // 0 = default (10000)
	type shape struct {
		name   string
		mt     protoreflect.MessageType
		json   func(n int) string // document nesting n levels (n messages deep where applicable)
		text   func(n int) string
		disc   bool
		skip   bool
		factor int // levels consumed per n (lower bound 1)
	}
	var shapes []shape
	// recursive cycles of real message types
	ncy := 0
	for _, mt := range gen.AllTypes() {
		md := mt.Descriptor()
		if gen.InvolvesMessageSet(md) || gen.InvolvesIrregular(md) || md.IsMapEntry() {
			continue
		}
		cyc := c26Cycle(md)
		if cyc == nil {
			continue
		}
		ncy++
		if ncy%7 != 0 && !strings.Contains(string(md.FullName()), "TestAllTypes") && ncy > 40 {
			continue
		}
		c.Count("depth_cycles")
		mt := mt
		shapes = append(shapes, shape{name: "cycle:" + string(md.FullName()), mt: mt,
			json: func(n int) string {
				var sb, cl strings.Builder
				sb.WriteString("{")
				cl.WriteString("}")
				for i := 1; i < n; i++ {
					fmt.Fprintf(&sb, `"%s":{`, cyc[(i-1)%len(cyc)].JSONName())
					cl.WriteString("}")
				}
				return sb.String() + cl.String()
			},
			text: func(n int) string {
				var sb, cl strings.Builder
				for i := 1; i < n; i++ {
					fmt.Fprintf(&sb, `%s {`, textFieldName(cyc[(i-1)%len(cyc)]))
					cl.WriteString("}")
				}
				return sb.String() + cl.String()
			}})
	}
	t3 := gen.TypeByName("goproto.proto.test3.TestAllTypes")
	t2 := gen.TypeByName("goproto.proto.test.TestAllTypes")
	rep := func(open, mid, close string) func(n int) string {
		return func(n int) string { return strings.Repeat(open, n) + mid + strings.Repeat(close, n) }
	}
	wrapJ := func(pre string, f func(n int) string, post string) func(n int) string {
		return func(n int) string { return pre + f(n) + post }
	}
	shapes = append(shapes,
		shape{name: "json:listvalue-arrays", mt: gen.TypeByName("google.protobuf.ListValue"), json: rep("[", "", "]")},
		shape{name: "json:value-arrays", mt: gen.TypeByName("google.protobuf.Value"), json: rep("[", "1", "]")},
		shape{name: "json:struct-objects", mt: gen.TypeByName("google.protobuf.Struct"), json: rep(`{"a":`, "1", "}")},
		shape{name: "json:value-objects", mt: gen.TypeByName("google.protobuf.Value"), json: rep(`{"a":`, "null", "}")},
		shape{name: "json:any-in-any", mt: gen.TypeByName("google.protobuf.Any"), json: rep(`{"@type":"type.googleapis.com/google.protobuf.Any","value":`, "{}", "}")},
		shape{name: "json:unknown-objects", mt: t3, disc: true, skip: true, json: wrapJ(`{"unk":`, rep(`{"a":`, "1", "}"), "}")},
		shape{name: "json:unknown-arrays", mt: t3, disc: true, skip: true, json: wrapJ(`{"unk":`, rep(`[`, "1", "]"), "}")},
		shape{name: "json:unknown-mixed", mt: t2, disc: true, skip: true, json: wrapJ(`{"unk":`, rep(`[{"a":`, "1", "}]"), "}")},
		shape{name: "json:unknown-in-any", mt: gen.TypeByName("google.protobuf.Any"), disc: true, skip: true, json: wrapJ(`{"@type":"type.googleapis.com/goproto.proto.test3.TestAllTypes","unk":`, rep(`{"a":`, "1", "}"), "}")},
		shape{name: "text:unknown-messages", mt: t3, disc: true, skip: true, text: rep("unk {", "", "}")},
		shape{name: "text:unknown-messages-colon", mt: t2, disc: true, skip: true, text: rep("unk: <", "", ">")},
		shape{name: "text:unknown-lists", mt: t3, disc: true, skip: true, text: wrapJ("unk: ", rep("[{a: ", "1", "}]"), "")},
		shape{name: "text:any-in-any", mt: gen.TypeByName("google.protobuf.Any"), text: rep("[type.googleapis.com/google.protobuf.Any] {", "", "}")},
		shape{name: "text:listvalue", mt: gen.TypeByName("google.protobuf.ListValue"), text: rep("values { list_value {", "", "} }")},
	)
	if rt := gen.TypeByName("goproto.proto.test.TestReservedFields"); rt != nil && rt.Descriptor().ReservedNames().Len() > 0 {
		rn := string(rt.Descriptor().ReservedNames().Get(0))
		shapes = append(shapes, shape{name: "text:reserved-name", mt: rt, skip: true, text: rep(rn+" {", "", "}")})
	}
	for _, sh := range shapes {
		for _, lim := range limits {
			eff := lim
			if eff == 0 {
				eff = 10000
			}
			if eff == 10000 && strings.HasPrefix(sh.name, "cycle:") && !strings.Contains(sh.name, "test3.TestAllTypes") && c.Quick() {
				continue
			}
			for _, format := range []string{"json", "text"} {
				mk := sh.json
				if format == "text" {
					mk = sh.text
				}
				if mk == nil {
					continue
				}
				dec := func(doc string) (err error) {
					c.Eval()
					c.Log("C26 depth shape=%s limit=%d format=%s len=%d", sh.name, lim, format, len(doc))
					c.NoPanic("depth:panic:"+sh.name, map[string]any{"limit": lim, "format": format}, func() {
						if format == "json" {
							err = protojson.UnmarshalOptions{DiscardUnknown: sh.disc, AllowPartial: true, RecursionLimit: lim}.Unmarshal([]byte(doc), sh.mt.New().Interface())
						} else {
							err = prototext.UnmarshalOptions{DiscardUnknown: sh.disc, AllowPartial: true, RecursionLimit: lim}.Unmarshal([]byte(doc), sh.mt.New().Interface())
						}
					})
					return
				}
				// shallow sanity: the shape is otherwise acceptable
				if eff >= 3 {
					sn := eff - 2
					if strings.Contains(sh.name, "value") || strings.Contains(sh.name, "struct") || strings.Contains(sh.name, "any") || strings.Contains(sh.name, "mixed") || strings.Contains(sh.name, "lists") {
						sn = eff/2 - 2 // these shapes consume two levels per repetition
					}
					if sn >= 1 {
						if e := dec(mk(sn)); e == nil {
							c.Count("depth_shallow_accepted")
						} else {
							c.Count("depth_shallow_rejected:" + sh.name)
						}
					}
				}
				for _, n := range []int{eff + 2, eff + 5, 2*eff + 2} {
					doc := mk(n)
					c.DistinctStr(fmt.Sprintf("%s/%d/%s/%d", sh.name, lim, format, n))
					c.Count("depth_must_reject")
					if sh.skip {
						c.Count("depth_skip_path")
					}
					if e := dec(doc); e == nil {
						class := sh.name
						if strings.HasPrefix(class, "cycle:") {
							class = "cycle"
						}
						c.Violation(fmt.Sprintf("depth:%s-accepted-beyond-limit:%s", format, class), map[string]any{"shape": sh.name, "limit": lim, "nesting": n, "doc_prefix": clip(doc, 200)})
					}
					if c.WantSample() && sh.skip && lim == 5 {
						c.Sample(map[string]any{"shape": sh.name, "limit": lim, "nesting": n, "document": clip(doc, 200), "rejected": true})
					}
				}
			}
		}
	}
}

func c26Soup(c *core.Ctx) {
	jpool := []string{"{", "}", "[", "]", ",", ":", `"a"`, `"@type"`, `"value"`, "1", "-1", "1e5", "true", "null", `""`, " ", `"type.googleapis.com/google.protobuf.Any"`, `"type.googleapis.com/google.protobuf.Value"`, `"singularInt32"`, `"recursiveMessage"`, `"1s"`, `"x,y"`, `"\ud800"`}
	tpool := []string{"{", "}", "<", ">", "[", "]", ",", ";", ":", "a", "singular_int32", "recursive_message", "1", "-", "inf", "nan", "0x1", "1.5f", `"s"`, `'s'`, "[type.googleapis.com/google.protobuf.Any]", "[a.b]", "#c\n", " ", "type_url", "value", "\"\\xff\"", "optional_nested_enum", "FOO"}
	types := []protoreflect.MessageType{gen.TypeByName("goproto.proto.test3.TestAllTypes"), gen.TypeByName("goproto.proto.test.TestAllTypes"), gen.TypeByName("google.protobuf.Any"), gen.TypeByName("google.protobuf.Value"),
		gen.TypeByName("google.protobuf.Struct"), gen.TypeByName("pb2.KnownTypes"), gen.TypeByName("google.protobuf.FieldMask"), gen.TypeByName("google.protobuf.Timestamp"), gen.TypeByName("pb2.Nests"), gen.TypeByName("pb3.Maps")}
	for i := 0; i < c.Scale(40000, 600000); i++ {
		r := c.Rng(uint64(i))
		mt := types[r.Intn(len(types))]
		if mt == nil {
			continue
		}
		n := 1 + r.Intn(12)
		var sb strings.Builder
		pool := jpool
		if i%2 == 1 {
			pool = tpool
		}
		for j := 0; j < n; j++ {
			sb.WriteString(pool[r.Intn(len(pool))])
			if i%2 == 1 {
				sb.WriteByte(' ')
			}
		}
		if i%2 == 0 {
			c26DecodeJSON(c, mt, i%3 == 0, []byte(sb.String()), i%4 < 2)
		} else {
			c26DecodeText(c, mt, i%3 == 0, []byte(sb.String()), i%4 < 2)
		}
		if i%64 == 0 {
			c.DistinctStr(sb.String())
		}
	}
}
