package checks

import (
	"bytes"
	"encoding/json"
	"fmt"
	"reflect"
	"strings"

	"google.golang.org/protobuf/encoding/protojson"
	"google.golang.org/protobuf/proto"
	"google.golang.org/protobuf/reflect/protoreflect"
	"google.golang.org/protobuf/types/dynamicpb"
	"google.golang.org/protobuf/verif/core"
	"google.golang.org/protobuf/verif/gen"
	"google.golang.org/protobuf/verif/model"
)

func init() {
	core.Register(&core.Check{
		ID:         "C21",
		Rule:       "cases: (runes) every rune of the basic plane and a sample beyond it, followed by a hex digit, marshalled in every string context (wrapper, Struct key and value, string field, map key; compact and multiline): valid JSON that encoding/json reads back as the same string; (a) every Marshal output of the C20 workload (all linked types x 64 option sets): accepted by the RFC 8259 recogniser and by encoding/json.Valid, and the compact and Multiline/Indent outputs of one message parse (UseNumber) to the same JSON value; (b) inputs offered to protojson.Unmarshal with targets structpb.Value (any JSON value), a typed message, a typed message with DiscardUnknown (skip path) and Any: marshal outputs mutated at token level (bad numbers, escapes, literals, structure), token soups, and every byte string up to length 3 (quick) / 4 (thorough) over a 22-character JSON alphabet placed at top level, inside an array, as an object value and as an unknown-field value; every accepted input must be valid JSON per both judges; distinct = distinct documents; non-trivial = document is not a bare literal",
		Assume:     []string{"model/jsonref.go (RFC 8259 grammar recogniser)", "encoding/json.Valid and Decoder.UseNumber of the Go standard library"},
		Exhaustive: func(tier string) bool { return false },
		Batches: func(tier string) []core.Batch {
			var bs []core.Batch
			for i := 0; i < 8; i++ {
				bs = append(bs, core.Batch{Cfg: "base", Name: fmt.Sprintf("out-%02d", i), Kind: "out", N: i})
			}
			for i := 0; i < 8; i++ {
				bs = append(bs, core.Batch{Cfg: "base", Name: fmt.Sprintf("mut-%02d", i), Kind: "mut", N: i})
			}
			for i := 0; i < 16; i++ {
				bs = append(bs, core.Batch{Cfg: "base", Name: fmt.Sprintf("enum-%02d", i), Kind: "enum", N: i})
			}
			bs = append(bs, core.Batch{Cfg: "base", Name: "soup", Kind: "soup"})
			return bs
		},
		Gates: func(tier string) map[string]int64 {
			return map[string]int64{"outputs": 5000, "layout_pairs": 1000, "inputs": 100000, "accepted": 5000, "rejected": 50000, "accepted_after_mutation": 100, "mut:number": 500, "mut:escape": 100, "mut:literal": 100, "mut:structure": 500,
				"target:value": 10000, "target:typed": 10000, "target:discard": 10000, "target:any": 1000, "escape_grammar_cases": 10000, "enumerated_strings": 8000, "invalid_json_offered": 50000, "rune_outputs": 90000}
		},
		Run: runC21,
	})
}

func runC21(c *core.Ctx, b core.Batch) {
	switch b.Kind {
	case "out":
		c21Outputs(c, b)
	case "mut":
		c21Mutations(c, b)
	case "enum":
		c21Enumerate(c, b)
	case "soup":
		c21Soup(c)
		c21Runes(c)
	}
}

// c21Runes marshals every rune of the basic plane (and a sample beyond it),
// followed by a hex digit, in the string contexts of the mapping: the output
// must be valid JSON that an independent parser reads back as the same string.
func c21Runes(c *core.Ctx) {
	wrap := gen.TypeByName("google.protobuf.StringValue")
	strct := gen.TypeByName("google.protobuf.Struct")
	t3 := gen.TypeByName("goproto.proto.test3.TestAllTypes")
	if wrap == nil || strct == nil || t3 == nil {
		return
	}
	check := func(ctx string, rn rune, s string, m proto.Message, multiline bool, pick func(v any) (string, bool)) {
		c.Eval()
		c.Count("rune_outputs")
		out, err := protojson.MarshalOptions{Multiline: multiline}.Marshal(m)
		if err != nil {
			c.Violation("out:rune:marshal-error:"+ctx, map[string]any{"rune": fmt.Sprintf("U+%04X", rn), "err": errStr(err)})
			return
		}
		d := map[string]any{"rune": fmt.Sprintf("U+%04X", rn), "json": clip(string(out), 300), "context": ctx}
		if !model.JSONValidUTF8(out) || !json.Valid(out) {
			c.Violation("out:rune:invalid-json:"+ctx+":"+c21RuneClass(rn), d)
			return
		}
		var v any
		if json.Unmarshal(out, &v) != nil {
			c.Violation("out:rune:invalid-json:"+ctx+":"+c21RuneClass(rn), d)
			return
		}
		if got, ok := pick(v); !ok || got != s {
			d["parsed"] = fmt.Sprintf("%q", got)
			c.Violation("out:rune:denotes-another-string:"+ctx+":"+c21RuneClass(rn), d)
		}
	}
	for i := 0; i < 0x10000+c.Scale(2000, 60000); i++ {
		rn := rune(i)
		if i >= 0x10000 {
			r := c.Rng(uint64(0x21e)<<32 | uint64(i))
			rn = rune(0x10000 + r.Intn(0x100000))
		}
		if rn >= 0xd800 && rn <= 0xdfff {
			continue
		}
		for _, tail := range []string{"b", "0"} {
			s := "a" + string(rn) + tail
			multiline := i%2 == 0
			// wrapper
			w := wrap.New()
			w.Set(w.Descriptor().Fields().ByName("value"), protoreflect.ValueOfString(s))
			check("wrapper", rn, s, w.Interface(), multiline, func(v any) (string, bool) { x, ok := v.(string); return x, ok })
			if tail == "0" && i%4 != 0 {
				continue
			}
			// Struct key and string value
			st := strct.New()
			vmt := st.Descriptor().Fields().ByName("fields").MapValue().Message()
			val := dynamicpbOrGlobal(vmt)
			val.Set(val.Descriptor().Fields().ByName("string_value"), protoreflect.ValueOfString(s))
			st.Mutable(st.Descriptor().Fields().ByName("fields")).Map().Set(protoreflect.ValueOfString(s).MapKey(), protoreflect.ValueOfMessage(val))
			check("struct-key-and-value", rn, s, st.Interface(), multiline, func(v any) (string, bool) {
				mm, ok := v.(map[string]any)
				if !ok || len(mm) != 1 {
					return "", false
				}
				for k, x := range mm {
					xs, ok := x.(string)
					if !ok || xs != k {
						return k + "|" + fmt.Sprint(x), false
					}
					return k, true
				}
				return "", false
			})
			// plain field and map key
			tm := t3.New()
			tm.Set(tm.Descriptor().Fields().ByName("singular_string"), protoreflect.ValueOfString(s))
			tm.Mutable(tm.Descriptor().Fields().ByName("map_string_string")).Map().Set(protoreflect.ValueOfString(s).MapKey(), protoreflect.ValueOfString(s))
			check("field-and-map-key", rn, s, tm.Interface(), multiline, func(v any) (string, bool) {
				mm, ok := v.(map[string]any)
				if !ok {
					return "", false
				}
				f, _ := mm["singularString"].(string)
				mp, _ := mm["mapStringString"].(map[string]any)
				for k, x := range mp {
					if xs, _ := x.(string); xs != k || k != f {
						return k + "|" + fmt.Sprint(x), false
					}
				}
				return f, len(mp) == 1
			})
		}
	}
}

func c21RuneClass(rn rune) string {
	switch {
	case rn < 0x20:
		return "control"
	case rn < 0x80:
		return "ascii"
	case rn < 0x100:
		return "latin1"
	case rn == 0x2028 || rn == 0x2029:
		return "line-separator"
	case rn < 0x10000:
		return "bmp"
	}
	return "astral"
}

func dynamicpbOrGlobal(md protoreflect.MessageDescriptor) protoreflect.Message {
	if mt := gen.TypeByName(string(md.FullName())); mt != nil {
		return mt.New()
	}
	return dynamicpb.NewMessage(md)
}

func jsonParse(b []byte) (any, error) {
	d := json.NewDecoder(bytes.NewReader(b))
	d.UseNumber()
	var v any
	if err := d.Decode(&v); err != nil {
		return nil, err
	}
	if d.More() {
		return nil, fmt.Errorf("trailing data")
	}
	return v, nil
}

// (a) outputs
func c21Outputs(c *core.Ctx, b core.Batch) {
	per := c.Scale(6, 80)
	c20Gen(c, b, 8, per, func(mt protoreflect.MessageType, src, want protoreflect.Message, dyn bool, oi int) {
		name := string(mt.Descriptor().FullName())
		opts := c20Opts(oi)
		opts.AllowPartial = true
		out, err := opts.Marshal(src.Interface())
		if err != nil {
			return
		}
		c.Eval()
		c.Count("outputs")
		c.Log("C21 out type=%s opts=%d json=%s", name, oi, clip(string(out), 8000))
		if len(out) > 4 {
			c.DistinctBytes(out)
		}
		ok1, ok2 := model.JSONValidUTF8(out), json.Valid(out)
		if !ok1 || !ok2 {
			c.Violation("out:invalid-json:"+name, map[string]any{"json": clip(string(out), 3000), "opts": oi, "rfc8259_recogniser": ok1, "encoding_json_valid": ok2})
			return
		}
		// layout independence: same content options, compact vs this layout
		if oi&3 != 0 {
			{
				co := c20Opts(oi &^ 3)
				co.AllowPartial = true
				cout, cerr := co.Marshal(src.Interface())
				if cerr != nil {
					c.Violation("out:compact-fails-multiline-succeeds:"+name, map[string]any{"err": errStr(cerr)})
					return
				}
				v1, e1 := jsonParse(out)
				v2, e2 := jsonParse(cout)
				c.Count("layout_pairs")
				if e1 != nil || e2 != nil || !reflect.DeepEqual(v1, v2) {
					c.Violation("out:multiline-and-compact-differ-as-json-values:"+name, map[string]any{"multiline": clip(string(out), 2000), "compact": clip(string(cout), 2000), "opts": oi})
				}
				if c.WantSample() && len(out) > 60 {
					c.Sample(map[string]any{"type": name, "compact": clip(string(cout), 300), "multiline": clip(string(out), 300), "same_value": true})
				}
			}
		}
	})
}

// c21Targets offers one document to the four kinds of target.
type c21Target struct {
	name string
	mk   func() proto.Message
	opts protojson.UnmarshalOptions
	wrap func(doc string) string
}

var c21Targets = []c21Target{
	{"value", func() proto.Message { return gen.TypeByName("google.protobuf.Value").New().Interface() }, protojson.UnmarshalOptions{}, func(d string) string { return d }},
	{"value", func() proto.Message { return gen.TypeByName("google.protobuf.ListValue").New().Interface() }, protojson.UnmarshalOptions{}, func(d string) string { return "[" + d + "]" }},
	{"value", func() proto.Message { return gen.TypeByName("google.protobuf.Struct").New().Interface() }, protojson.UnmarshalOptions{}, func(d string) string { return `{"k":` + d + `}` }},
	{"discard", func() proto.Message { return gen.TypeByName("goproto.proto.test3.TestAllTypes").New().Interface() }, protojson.UnmarshalOptions{DiscardUnknown: true}, func(d string) string { return `{"unknownKey":` + d + `}` }},
	{"discard", func() proto.Message { return gen.TypeByName("goproto.proto.test.TestAllTypes").New().Interface() }, protojson.UnmarshalOptions{DiscardUnknown: true, AllowPartial: true}, func(d string) string { return `{"a":1,"zz":` + d + `,"optionalInt32":1}` }},
	{"typed", func() proto.Message { return gen.TypeByName("goproto.proto.test3.TestAllTypes").New().Interface() }, protojson.UnmarshalOptions{}, func(d string) string { return `{"singularInt32":` + d + `}` }},
	{"typed", func() proto.Message { return gen.TypeByName("goproto.proto.test3.TestAllTypes").New().Interface() }, protojson.UnmarshalOptions{}, func(d string) string { return `{"repeatedDouble":[` + d + `]}` }},
	{"typed", func() proto.Message { return gen.TypeByName("goproto.proto.test3.TestAllTypes").New().Interface() }, protojson.UnmarshalOptions{}, func(d string) string { return `{"singularString":` + d + `}` }},
	{"typed", func() proto.Message { return gen.TypeByName("goproto.proto.test3.TestAllTypes").New().Interface() }, protojson.UnmarshalOptions{}, func(d string) string { return `{"mapStringString":` + d + `}` }},
	{"typed", func() proto.Message { return gen.TypeByName("goproto.proto.test3.TestAllTypes").New().Interface() }, protojson.UnmarshalOptions{}, func(d string) string { return `{"singularNestedMessage":` + d + `}` }},
	{"typed", func() proto.Message { return gen.TypeByName("goproto.proto.test3.TestAllTypes").New().Interface() }, protojson.UnmarshalOptions{}, func(d string) string { return d }},
	{"typed", func() proto.Message { return gen.TypeByName("pb2.KnownTypes").New().Interface() }, protojson.UnmarshalOptions{}, func(d string) string { return `{"optDuration":` + d + `,"optInt64":` + d + `,"optBool":` + d + `}` }},
	{"any", func() proto.Message { return gen.TypeByName("google.protobuf.Any").New().Interface() }, protojson.UnmarshalOptions{}, func(d string) string {
		return `{"@type":"type.googleapis.com/google.protobuf.Value","value":` + d + `}`
	}},
	{"any", func() proto.Message { return gen.TypeByName("google.protobuf.Any").New().Interface() }, protojson.UnmarshalOptions{}, func(d string) string {
		return `{"value":` + d + `,"@type":"type.googleapis.com/google.protobuf.Value"}`
	}},
	{"any", func() proto.Message { return gen.TypeByName("google.protobuf.Any").New().Interface() }, protojson.UnmarshalOptions{DiscardUnknown: true}, func(d string) string {
		return `{"zz":` + d + `,"@type":"type.googleapis.com/goproto.proto.test3.TestAllTypes"}`
	}},
}

// c21Offer gives doc to one target and judges acceptance.
func c21Offer(c *core.Ctx, t c21Target, doc string, tag string) {
	full := t.wrap(doc)
	c.Eval()
	c.Count("inputs")
	c.Count("target:" + t.name)
	if len(doc) > 5 {
		c.DistinctStr(t.name + full)
	}
	valid := model.JSONValid([]byte(full))
	if !valid {
		c.Count("invalid_json_offered")
	}
	c.Log("C21 in target=%s doc=%q", t.name, clip(full, 8000))
	m := t.mk()
	var err error
	if !c.NoPanic("in:panic:"+t.name, map[string]any{"doc": clip(full, 2000)}, func() { err = t.opts.Unmarshal([]byte(full), m) }) {
		return
	}
	if err != nil {
		c.Count("rejected")
		return
	}
	c.Count("accepted")
	if tag != "" {
		c.Count("accepted_after_mutation")
	}
	jv := json.Valid([]byte(full))
	if !valid || !jv {
		c.Violation(fmt.Sprintf("in:accepted-invalid-json:%s:%s", t.name, c21Defect(doc)), map[string]any{"doc": clip(full, 2000), "rfc8259_recogniser": valid, "encoding_json_valid": jv, "mutation": tag})
	}
}

// c21Defect names the first grammar defect class of a fragment (fingerprint).
func c21Defect(doc string) string {
	switch {
	case strings.Contains(doc, "e,") || strings.Contains(doc, "e]") || strings.Contains(doc, "e}") || strings.HasSuffix(doc, "e") || strings.HasSuffix(doc, "E") || strings.Contains(doc, "e+") && !strings.ContainsAny(after(doc, "e+"), "0123456789") || strings.Contains(doc, "e-") && !strings.ContainsAny(after(doc, "e-"), "0123456789"):
		return "exponent-without-digits"
	case strings.Contains(doc, `\`):
		return "escape"
	case strings.ContainsAny(doc, "0123456789"):
		return "number-or-structure"
	}
	return "structure"
}

func after(s, sep string) string {
	i := strings.Index(s, sep)
	if i < 0 {
		return ""
	}
	e := i + len(sep) + 1
	if e > len(s) {
		e = len(s)
	}
	return s[i+len(sep) : e]
}

var (
	c21BadNumbers  = []string{"1e", "1E", "1e+", "1e-", "1.5e", "01", "-01", "1.", ".5", "-.5", "-", "+1", "0x10", "1.e3", "1e1.5", "--1", "Infinity", "NaN", "-Infinity", "00", "0e", "1_0", "1e+,", "-0e-"}
	c21BadStrings  = []string{`"\x41"`, `"\u12"`, `"\u12G4"`, `"\`, `"abc`, `"\a"`, `"\'"`, `'a'`, "\"a\tb\"", "\"a\nb\"", "\"\x00\"", `"\U00010000"`, `"\ud800"`, `"\u{41}"`, `"a"b"`}
	c21BadLiterals = []string{"tru", "True", "TRUE", "nul", "nulll", "Null", "falsee", "fals", "undefined", "None", "nil", "truefalse", "t", "n"}
)

// c21Tokens splits a valid JSON document into tokens (strings kept whole).
func c21Tokens(doc []byte) []string {
	var toks []string
	i := 0
	for i < len(doc) {
		ch := doc[i]
		switch {
		case ch == ' ' || ch == '\t' || ch == '\n' || ch == '\r':
			i++
		case ch == '"':
			j := i + 1
			for j < len(doc) && doc[j] != '"' {
				if doc[j] == '\\' {
					j++
				}
				j++
			}
			if j >= len(doc) {
				j = len(doc) - 1
			}
			toks = append(toks, string(doc[i:j+1]))
			i = j + 1
		case strings.IndexByte("{}[],:", ch) >= 0:
			toks = append(toks, string(ch))
			i++
		default:
			j := i
			for j < len(doc) && strings.IndexByte("{}[],: \t\n\r\"", doc[j]) < 0 {
				j++
			}
			toks = append(toks, string(doc[i:j]))
			i = j
		}
	}
	return toks
}

// (b1) token-level mutations of marshal outputs
func c21Mutations(c *core.Ctx, b core.Batch) {
	per := c.Scale(4, 40)
	n := 0
	c20Gen(c, b, 8, per, func(mt protoreflect.MessageType, src, want protoreflect.Message, dyn bool, oi int) {
		if oi%4 != 0 { // compact and one multiline form are enough as mutation seeds
			return
		}
		opts := c20Opts(oi)
		opts.AllowPartial = true
		out, err := opts.Marshal(src.Interface())
		if err != nil || len(out) > 20000 {
			return
		}
		toks := c21Tokens(out)
		if len(toks) < 3 {
			return
		}
		n++
		r := c.Rng(uint64(n))
		self := c21Target{"typed", func() proto.Message { return newOf(mt, dyn).Interface() }, protojson.UnmarshalOptions{AllowPartial: true}, func(d string) string { return d }}
		selfDiscard := c21Target{"discard", func() proto.Message { return newOf(mt, dyn).Interface() }, protojson.UnmarshalOptions{AllowPartial: true, DiscardUnknown: true}, func(d string) string { return d }}
		val := c21Targets[0]
		for k := 0; k < 12; k++ {
			mt2 := append([]string(nil), toks...)
			tag := ""
			pos := r.Intn(len(mt2))
			switch r.Intn(10) {
			case 0, 1, 2: // replace a scalar token (or any token) with a bad number
				for tries := 0; tries < 8 && strings.ContainsAny(mt2[pos], "{}[],:"); tries++ {
					pos = r.Intn(len(mt2))
				}
				mt2[pos] = c21BadNumbers[r.Intn(len(c21BadNumbers))]
				tag = "mut:number"
			case 3:
				for tries := 0; tries < 8 && strings.ContainsAny(mt2[pos], "{}[],:"); tries++ {
					pos = r.Intn(len(mt2))
				}
				mt2[pos] = c21BadStrings[r.Intn(len(c21BadStrings))]
				tag = "mut:escape"
			case 4:
				for tries := 0; tries < 8 && strings.ContainsAny(mt2[pos], "{}[],:"); tries++ {
					pos = r.Intn(len(mt2))
				}
				mt2[pos] = c21BadLiterals[r.Intn(len(c21BadLiterals))]
				tag = "mut:literal"
			case 5: // delete a token
				mt2 = append(mt2[:pos], mt2[pos+1:]...)
				tag = "mut:structure"
			case 6: // duplicate a token
				mt2 = append(mt2[:pos+1], mt2[pos:]...)
				tag = "mut:structure"
			case 7: // insert structural junk
				junk := []string{",", ":", "]", "}", "[", "{", "//x\n", "/* c */", "\ufeff", ";", "=", "\x0b", "\x0c", " "}[r.Intn(14)]
				mt2 = append(mt2[:pos], append([]string{junk}, mt2[pos:]...)...)
				tag = "mut:structure"
			case 8: // truncate
				mt2 = mt2[:pos]
				tag = "mut:structure"
			case 9: // swap two tokens
				q := r.Intn(len(mt2))
				mt2[pos], mt2[q] = mt2[q], mt2[pos]
				tag = "mut:structure"
			}
			c.Count(tag)
			sep := []string{"", " ", "\n"}[r.Intn(3)]
			doc := strings.Join(mt2, sep)
			c21Offer(c, self, doc, tag)
			c21Offer(c, selfDiscard, doc, tag)
			c21Offer(c, val, doc, tag)
			if c.WantSample() && k == 0 {
				c.Sample(map[string]any{"mutation": tag, "document": clip(doc, 300), "valid_json": model.JSONValid([]byte(doc))})
			}
		}
	})
}

const c21Alphabet = "{}[],:\"\\-+.019eEtn a\n"

// (b2) every string up to a length over the JSON alphabet, in every target
func c21Enumerate(c *core.Ctx, b core.Batch) {
	maxLen := c.Scale(3, 4)
	al := c21Alphabet
	var rec func(prefix []byte, idx *int)
	idx := 0
	rec = func(prefix []byte, idx *int) {
		if len(prefix) > 0 {
			*idx++
			if *idx%16 == b.N {
				c.Count("enumerated_strings")
				doc := string(prefix)
				for _, t := range c21Targets {
					c21Offer(c, t, doc, "")
				}
			}
		}
		if len(prefix) == maxLen {
			return
		}
		for i := 0; i < len(al); i++ {
			rec(append(prefix, al[i]), idx)
		}
	}
	rec(nil, &idx)
	// number-shaped strings of length up to 6 over a smaller alphabet (targets the number grammar)
	nal := "-+.01eE"
	var rec2 func(prefix []byte)
	rec2 = func(prefix []byte) {
		if len(prefix) >= 4 {
			idx++
			if idx%16 == b.N {
				c.Count("enumerated_strings")
				for _, t := range c21Targets {
					for _, suffix := range []string{"", " ", ",1"} {
						if suffix == ",1" && t.name != "value" {
							continue
						}
						c21Offer(c, t, string(prefix)+suffix, "")
					}
				}
			}
		}
		if len(prefix) == c.Scale(5, 6) {
			return
		}
		for i := 0; i < len(nal); i++ {
			rec2(append(prefix, nal[i]))
		}
	}
	rec2(nil)
}

// c21Escapes: systematic string-escape grammar corners - a \u escape (BMP,
// high or low surrogate) followed by every two-byte "introducer" over a small
// alphabet and four hex digits; every one-character escape; truncated escapes.
func c21Escapes(c *core.Ctx) {
	firsts := []string{`\ud83d`, `\uD83D`, `\udbff`, `\ud800`, `\ude00`, `\u0041`, `\uffff`}
	intro := []byte{'\\', 'u', 'U', 'x', 'q', '"', '/', 'd', ' ', '0'}
	tails := []string{"de00", "dc00", "dfff", "0041", "d83d", "zzzz", "de0", ""}
	targets := []c21Target{c21Targets[0], c21Targets[2], c21Targets[3], c21Targets[7], c21Targets[8]}
	for _, f := range firsts {
		for _, a := range intro {
			for _, b := range intro {
				for _, t := range tails {
					doc := `"` + f + string([]byte{a, b}) + t + `"`
					for _, tg := range targets {
						c.Count("escape_grammar_cases")
						c21Offer(c, tg, doc, "")
					}
				}
			}
		}
	}
	for ch := 0; ch < 256; ch++ {
		for _, tg := range targets {
			c.Count("escape_grammar_cases")
			c21Offer(c, tg, `"a\`+string([]byte{byte(ch)})+`b"`, "")
			c21Offer(c, tg, `"\u00`+string([]byte{byte(ch)})+`1"`, "")
		}
	}
}

// (b3) token soups
func c21Soup(c *core.Ctx) {
	c21Escapes(c)
	pool := []string{"{", "}", "[", "]", ",", ":", `"a"`, `"b"`, `"@type"`, `"value"`, "1", "-1", "1.5", "1e5", "1e", "true", "false", "null", `""`, " ", "\n", `"A"`, `"😀"`, "0", "-", "1E+2", `"singularInt32"`, `"type.googleapis.com/google.protobuf.Value"`}
	for i := 0; i < c.Scale(60000, 1000000); i++ {
		r := c.Rng(uint64(i))
		n := 1 + r.Intn(9)
		var sb strings.Builder
		for j := 0; j < n; j++ {
			sb.WriteString(pool[r.Intn(len(pool))])
		}
		t := c21Targets[r.Intn(len(c21Targets))]
		c21Offer(c, t, sb.String(), "")
	}
}
