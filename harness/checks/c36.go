package checks

import (
	"fmt"
	"strings"

	"google.golang.org/protobuf/reflect/protoreflect"
	"google.golang.org/protobuf/verif/core"
	"google.golang.org/protobuf/verif/gen"
)

func init() {
	core.Register(&core.Check{
		ID:     "C36",
		Rule:   "cases: every descriptor of every linked file and of PRNG-generated valid schemas built both by the compact builder and by protodesc (incl. schemas whose sibling fields share a JSON name and enums with aliases): Get(i).Index()==i for every list, ByName/ByNumber/ByJSONName/ByTextName vs a first-match linear scan for every declared key plus near-miss keys, FullName vs parent scope + Name, Parent/ParentFile chains, Has() of reserved/extension/enum ranges at every boundary +-1 vs linear membership, ReservedNames.Has, RequiredNumbers vs required fields, oneof<->field and map key/value links; distinct = distinct descriptors visited; non-trivial = descriptor with at least one child",
		Assume: []string{"linear scans over List.Get(i) as the reference for keyed lookups"},
		Batches: func(tier string) []core.Batch {
			bs := []core.Batch{{Cfg: "base", Name: "linked", Kind: "linked"}}
			for i := 0; i < 8; i++ {
				bs = append(bs, core.Batch{Cfg: "base", Name: fmt.Sprintf("gen-%d", i), Kind: "gen", N: i})
			}
			return bs
		},
		Gates: func(tier string) map[string]int64 {
			return map[string]int64{"files": 500, "messages": 3000, "fields": 10000, "enums": 500, "lookups_by_name": 20000, "lookups_by_number": 10000, "lookups_by_json": 10000, "lookups_by_text": 10000, "json_name_collisions": 20, "enum_aliases": 30, "oneof_field_lists": 200,
				"range_probes": 3000, "required_sets": 1000, "map_links": 300, "builder_files": 200, "protodesc_files": 200}
		},
		Run: runC36,
	})
}

type c36 struct {
	c      *core.Ctx
	origin string
}

func (k *c36) bad(what string, d protoreflect.Descriptor, detail map[string]any) {
	if detail == nil {
		detail = map[string]any{}
	}
	detail["descriptor"] = string(d.FullName())
	detail["origin"] = k.origin
	k.c.Violation("views:"+what+":"+k.origin, detail)
}

// nameList abstracts the keyed lists.
type namedList struct {
	n      int
	get    func(i int) protoreflect.Descriptor
	byName func(protoreflect.Name) protoreflect.Descriptor
}

func isNilDesc(d protoreflect.Descriptor) bool {
	return d == nil || (fmt.Sprintf("%v", d) == "<nil>")
}

func (k *c36) names(owner protoreflect.Descriptor, what string, l namedList, indexIsPosition bool) {
	for i := 0; i < l.n; i++ {
		d := l.get(i)
		if indexIsPosition && d.Index() != i {
			k.bad(what+"-index", owner, map[string]any{"position": i, "index": d.Index()})
		}
		// first element with that name
		first := -1
		for j := 0; j < l.n; j++ {
			if l.get(j).Name() == d.Name() {
				first = j
				break
			}
		}
		k.c.Count("lookups_by_name")
		got := l.byName(d.Name())
		if isNilDesc(got) || got != l.get(first) {
			k.bad(what+"-byname-not-first", owner, map[string]any{"name": string(d.Name()), "want_position": first})
		}
		for _, miss := range []protoreflect.Name{d.Name() + "x", protoreflect.Name(strings.ToUpper(string(d.Name())) + "_"), "", d.Name()[:len(d.Name())-1]} {
			found := false
			for j := 0; j < l.n; j++ {
				if l.get(j).Name() == miss {
					found = true
				}
			}
			if !found && !isNilDesc(l.byName(miss)) {
				k.bad(what+"-byname-finds-undeclared", owner, map[string]any{"name": string(miss)})
			}
		}
	}
}

func (k *c36) fullName(d protoreflect.Descriptor, scope protoreflect.FullName) {
	want := protoreflect.FullName(d.Name())
	if scope != "" {
		want = scope + "." + want
	}
	if d.FullName() != want {
		k.bad("fullname", d, map[string]any{"want": string(want)})
	}
}

func (k *c36) chain(d protoreflect.Descriptor, file protoreflect.FileDescriptor) {
	cur := d
	for steps := 0; steps < 64; steps++ {
		if f, ok := cur.(protoreflect.FileDescriptor); ok {
			if f != file || d.ParentFile() != file {
				k.bad("parent-chain-ends-at-other-file", d, nil)
			}
			return
		}
		cur = cur.Parent()
		if cur == nil {
			k.bad("parent-chain-nil", d, nil)
			return
		}
	}
	k.bad("parent-chain-too-long", d, nil)
}

func (k *c36) fieldList(owner protoreflect.Descriptor, what string, fs protoreflect.FieldDescriptors, indexIsPosition bool) {
	k.names(owner, what, namedList{fs.Len(), func(i int) protoreflect.Descriptor { return fs.Get(i) }, func(n protoreflect.Name) protoreflect.Descriptor {
		if f := fs.ByName(n); f != nil {
			return f
		}
		return nil
	}}, indexIsPosition)
	for i := 0; i < fs.Len(); i++ {
		f := fs.Get(i)
		firstNum, firstJSON, firstText := -1, -1, -1
		for j := 0; j < fs.Len(); j++ {
			g := fs.Get(j)
			if firstNum < 0 && g.Number() == f.Number() {
				firstNum = j
			}
			if firstJSON < 0 && g.JSONName() == f.JSONName() {
				firstJSON = j
			}
			if firstText < 0 && g.TextName() == f.TextName() {
				firstText = j
			}
		}
		if firstJSON != i {
			k.c.Count("json_name_collisions")
		}
		k.c.Count("lookups_by_number")
		if got := fs.ByNumber(f.Number()); got == nil || got != fs.Get(firstNum) {
			k.bad(what+"-bynumber-not-first", owner, map[string]any{"number": int32(f.Number())})
		}
		k.c.Count("lookups_by_json")
		if got := fs.ByJSONName(f.JSONName()); got == nil || got != fs.Get(firstJSON) {
			k.bad(what+"-byjsonname-not-first", owner, map[string]any{"json_name": f.JSONName(), "want_position": firstJSON, "got": descNameOrNil(got)})
		}
		k.c.Count("lookups_by_text")
		if got := fs.ByTextName(f.TextName()); got == nil || got != fs.Get(firstText) {
			k.bad(what+"-bytextname-not-first", owner, map[string]any{"text_name": f.TextName()})
		}
		for _, n := range []protoreflect.FieldNumber{f.Number() + 1, f.Number() - 1, 0, 536870911} {
			declared := false
			for j := 0; j < fs.Len(); j++ {
				declared = declared || fs.Get(j).Number() == n
			}
			if !declared && fs.ByNumber(n) != nil {
				k.bad(what+"-bynumber-finds-undeclared", owner, map[string]any{"number": int32(n)})
			}
		}
		for _, s := range []string{f.JSONName() + "X", "", strings.ToUpper(f.JSONName())} {
			declared := false
			for j := 0; j < fs.Len(); j++ {
				declared = declared || fs.Get(j).JSONName() == s
			}
			if !declared && fs.ByJSONName(s) != nil {
				k.bad(what+"-byjsonname-finds-undeclared", owner, map[string]any{"json_name": s})
			}
			declared = false
			for j := 0; j < fs.Len(); j++ {
				declared = declared || fs.Get(j).TextName() == s
			}
			if !declared && fs.ByTextName(s) != nil {
				k.bad(what+"-bytextname-finds-undeclared", owner, map[string]any{"text_name": s})
			}
		}
	}
}

func descNameOrNil(d protoreflect.FieldDescriptor) string {
	if d == nil {
		return "<nil>"
	}
	return string(d.Name())
}

func (k *c36) ranges(owner protoreflect.Descriptor, what string, n int, get func(i int) [2]int64, has func(int64) bool, inclusiveEnd bool) {
	probe := func(x int64) {
		want := false
		for i := 0; i < n; i++ {
			r := get(i)
			if inclusiveEnd {
				want = want || (x >= r[0] && x <= r[1])
			} else {
				want = want || (x >= r[0] && x < r[1])
			}
		}
		k.c.Count("range_probes")
		if has(x) != want {
			k.bad(what+"-has", owner, map[string]any{"number": x, "want": want})
		}
	}
	for i := 0; i < n; i++ {
		r := get(i)
		for d := int64(-2); d <= 2; d++ {
			probe(r[0] + d)
			probe(r[1] + d)
		}
		probe((r[0] + r[1]) / 2)
	}
	for _, x := range []int64{0, 1, -1, 536870911, 536870912, 2147483647, -2147483648, 19000, 19999} {
		probe(x)
	}
}

func (k *c36) enums(scope protoreflect.FullName, owner protoreflect.Descriptor, es protoreflect.EnumDescriptors, file protoreflect.FileDescriptor) {
	k.names(owner, "enums", namedList{es.Len(), func(i int) protoreflect.Descriptor { return es.Get(i) }, func(n protoreflect.Name) protoreflect.Descriptor {
		if e := es.ByName(n); e != nil {
			return e
		}
		return nil
	}}, true)
	for i := 0; i < es.Len(); i++ {
		ed := es.Get(i)
		k.c.Count("enums")
		k.c.DistinctStr(k.origin + string(file.Path()) + string(ed.FullName()))
		k.fullName(ed, scope)
		k.chain(ed, file)
		vs := ed.Values()
		k.names(ed, "enum-values", namedList{vs.Len(), func(i int) protoreflect.Descriptor { return vs.Get(i) }, func(n protoreflect.Name) protoreflect.Descriptor {
			if v := vs.ByName(n); v != nil {
				return v
			}
			return nil
		}}, true)
		for j := 0; j < vs.Len(); j++ {
			v := vs.Get(j)
			k.fullName(v, scope) // enum values live in the scope enclosing the enum
			k.chain(v, file)
			if v.Parent() != protoreflect.Descriptor(ed) {
				k.bad("enum-value-parent", v, nil)
			}
			first := -1
			for x := 0; x < vs.Len(); x++ {
				if vs.Get(x).Number() == v.Number() {
					first = x
					break
				}
			}
			if first != j {
				k.c.Count("enum_aliases")
			}
			k.c.Count("lookups_by_number")
			if got := vs.ByNumber(v.Number()); got == nil || got != vs.Get(first) {
				k.bad("enum-values-bynumber-not-first", ed, map[string]any{"number": int32(v.Number()), "want": string(vs.Get(first).Name())})
			}
			for _, n := range []protoreflect.EnumNumber{v.Number() + 1, v.Number() - 1} {
				declared := false
				for x := 0; x < vs.Len(); x++ {
					declared = declared || vs.Get(x).Number() == n
				}
				if !declared && vs.ByNumber(n) != nil {
					k.bad("enum-values-bynumber-finds-undeclared", ed, map[string]any{"number": int32(n)})
				}
			}
		}
		rr := ed.ReservedRanges()
		k.ranges(ed, "enum-reserved-ranges", rr.Len(), func(i int) [2]int64 { return [2]int64{int64(rr.Get(i)[0]), int64(rr.Get(i)[1])} }, func(x int64) bool {
			if x < -2147483648 || x > 2147483647 {
				return false
			}
			return rr.Has(protoreflect.EnumNumber(x))
		}, true)
		rn := ed.ReservedNames()
		for j := 0; j < rn.Len(); j++ {
			if !rn.Has(rn.Get(j)) || rn.Has(rn.Get(j)+"x") && !c36HasName(rn, rn.Get(j)+"x") {
				k.bad("enum-reserved-names-has", ed, map[string]any{"name": string(rn.Get(j))})
			}
		}
	}
}

func c36HasName(rn protoreflect.Names, n protoreflect.Name) bool {
	for i := 0; i < rn.Len(); i++ {
		if rn.Get(i) == n {
			return true
		}
	}
	return false
}

func (k *c36) extensions(scope protoreflect.FullName, owner protoreflect.Descriptor, xs protoreflect.ExtensionDescriptors, file protoreflect.FileDescriptor) {
	k.names(owner, "extensions", namedList{xs.Len(), func(i int) protoreflect.Descriptor { return xs.Get(i) }, func(n protoreflect.Name) protoreflect.Descriptor {
		if x := xs.ByName(n); x != nil {
			return x
		}
		return nil
	}}, true)
	for i := 0; i < xs.Len(); i++ {
		x := xs.Get(i)
		k.fullName(x, scope)
		k.chain(x, file)
		if !x.IsExtension() || x.ContainingOneof() != nil {
			k.bad("extension-flags", x, nil)
		}
	}
}

func (k *c36) messages(scope protoreflect.FullName, owner protoreflect.Descriptor, ms protoreflect.MessageDescriptors, file protoreflect.FileDescriptor) {
	k.names(owner, "messages", namedList{ms.Len(), func(i int) protoreflect.Descriptor { return ms.Get(i) }, func(n protoreflect.Name) protoreflect.Descriptor {
		if m := ms.ByName(n); m != nil {
			return m
		}
		return nil
	}}, true)
	for i := 0; i < ms.Len(); i++ {
		md := ms.Get(i)
		k.c.Count("messages")
		k.c.DistinctStr(k.origin + string(file.Path()) + string(md.FullName()))
		k.fullName(md, scope)
		k.chain(md, file)
		fs := md.Fields()
		k.c.CountN("fields", int64(fs.Len()))
		k.fieldList(md, "fields", fs, true)
		// required numbers
		req := map[protoreflect.FieldNumber]bool{}
		for j := 0; j < fs.Len(); j++ {
			f := fs.Get(j)
			k.fullName(f, md.FullName())
			k.chain(f, file)
			if f.Cardinality() == protoreflect.Required {
				req[f.Number()] = true
			}
			if f.ContainingMessage() != md || f.Parent() != protoreflect.Descriptor(md) {
				k.bad("field-containing-message", f, nil)
			}
			if od := f.ContainingOneof(); od != nil {
				found := false
				for x := 0; x < od.Fields().Len(); x++ {
					found = found || od.Fields().Get(x) == f
				}
				if !found || od.Parent() != protoreflect.Descriptor(md) {
					k.bad("field-oneof-link-not-mutual", f, map[string]any{"oneof": string(od.Name())})
				}
			}
			if f.IsMap() {
				k.c.Count("map_links")
				em := f.Message()
				if em == nil || !em.IsMapEntry() || f.MapKey() == nil || f.MapValue() == nil || f.MapKey() != em.Fields().ByNumber(1) || f.MapValue() != em.Fields().ByNumber(2) {
					k.bad("map-links", f, nil)
				}
			} else if f.MapKey() != nil || f.MapValue() != nil {
				k.bad("map-links-on-non-map", f, nil)
			}
		}
		k.c.Count("required_sets")
		rq := md.RequiredNumbers()
		seen := map[protoreflect.FieldNumber]bool{}
		for j := 0; j < rq.Len(); j++ {
			seen[rq.Get(j)] = true
			if !req[rq.Get(j)] || !rq.Has(rq.Get(j)) {
				k.bad("required-numbers-extra", md, map[string]any{"number": int32(rq.Get(j))})
			}
		}
		for n := range req {
			if !seen[n] || !rq.Has(n) {
				k.bad("required-numbers-missing", md, map[string]any{"number": int32(n)})
			}
		}
		if len(seen) != rq.Len() {
			k.bad("required-numbers-duplicates", md, nil)
		}
		for j := 0; j < fs.Len(); j++ {
			if n := fs.Get(j).Number(); !req[n] && rq.Has(n) {
				k.bad("required-numbers-has-non-required", md, map[string]any{"number": int32(n)})
			}
		}
		// oneofs
		os := md.Oneofs()
		k.names(md, "oneofs", namedList{os.Len(), func(i int) protoreflect.Descriptor { return os.Get(i) }, func(n protoreflect.Name) protoreflect.Descriptor {
			if o := os.ByName(n); o != nil {
				return o
			}
			return nil
		}}, true)
		for j := 0; j < os.Len(); j++ {
			od := os.Get(j)
			k.fullName(od, md.FullName())
			k.chain(od, file)
			k.c.Count("oneof_field_lists")
			ofs := od.Fields()
			k.fieldList(od, "oneof-fields", ofs, false)
			for x := 0; x < ofs.Len(); x++ {
				f := ofs.Get(x)
				if f.ContainingOneof() != od {
					k.bad("oneof-field-link-not-mutual", od, map[string]any{"field": string(f.Name())})
				}
				if f.Index() >= fs.Len() || fs.Get(f.Index()) != f {
					k.bad("oneof-field-index", od, map[string]any{"field": string(f.Name())})
				}
			}
		}
		// ranges
		rr := md.ReservedRanges()
		k.ranges(md, "reserved-ranges", rr.Len(), func(i int) [2]int64 { return [2]int64{int64(rr.Get(i)[0]), int64(rr.Get(i)[1])} }, func(x int64) bool {
			if x < -2147483648 || x > 2147483647 {
				return false
			}
			return rr.Has(protoreflect.FieldNumber(x))
		}, false)
		er := md.ExtensionRanges()
		k.ranges(md, "extension-ranges", er.Len(), func(i int) [2]int64 { return [2]int64{int64(er.Get(i)[0]), int64(er.Get(i)[1])} }, func(x int64) bool {
			if x < -2147483648 || x > 2147483647 {
				return false
			}
			return er.Has(protoreflect.FieldNumber(x))
		}, false)
		rn := md.ReservedNames()
		for j := 0; j < rn.Len(); j++ {
			if !rn.Has(rn.Get(j)) {
				k.bad("reserved-names-has", md, map[string]any{"name": string(rn.Get(j))})
			}
		}
		if rn.Has("surely_not_reserved_zz") {
			k.bad("reserved-names-has-undeclared", md, nil)
		}
		k.enums(md.FullName(), md, md.Enums(), file)
		k.messages(md.FullName(), md, md.Messages(), file)
		k.extensions(md.FullName(), md, md.Extensions(), file)
	}
}

func (k *c36) file(fd protoreflect.FileDescriptor) {
	k.c.Eval()
	k.c.Count("files")
	scope := fd.Package()
	k.enums(scope, fd, fd.Enums(), fd)
	k.messages(scope, fd, fd.Messages(), fd)
	k.extensions(scope, fd, fd.Extensions(), fd)
	sv := fd.Services()
	k.names(fd, "services", namedList{sv.Len(), func(i int) protoreflect.Descriptor { return sv.Get(i) }, func(n protoreflect.Name) protoreflect.Descriptor {
		if s := sv.ByName(n); s != nil {
			return s
		}
		return nil
	}}, true)
	for i := 0; i < sv.Len(); i++ {
		sd := sv.Get(i)
		k.fullName(sd, scope)
		k.chain(sd, fd)
		ms := sd.Methods()
		k.names(sd, "methods", namedList{ms.Len(), func(i int) protoreflect.Descriptor { return ms.Get(i) }, func(n protoreflect.Name) protoreflect.Descriptor {
			if m := ms.ByName(n); m != nil {
				return m
			}
			return nil
		}}, true)
		for j := 0; j < ms.Len(); j++ {
			k.fullName(ms.Get(j), sd.FullName())
			k.chain(ms.Get(j), fd)
		}
	}
}

func runC36(c *core.Ctx, b core.Batch) {
	if b.Kind == "linked" {
		k := &c36{c: c, origin: "linked"}
		for _, fd := range linkedFiles() {
			c.Log("C36 linked %s", fd.Path())
			k.file(fd)
		}
		return
	}
	n := c.Scale(100, 2500)
	for i := 0; i < n; i++ {
		r := c.Rng(uint64(i))
		o := gen.SchemaOpts{Prefix: fmt.Sprintf("c36.b%d.s%d", b.N, i), Features: i%2 == 0, JSONCollisions: i%2 == 1, MaxFields: 4 + i%9}
		s := gen.GenSchema(r, o)
		c.Log("C36 gen %s", o.Prefix)
		bfds, pfds, _ := buildBoth(c, s, "gen")
		for fi := range bfds {
			kb := &c36{c: c, origin: "builder"}
			c.NoPanic("views:panic:builder", map[string]any{"proto_text": clip(s.Files[fi].String(), 2000)}, func() { kb.file(bfds[fi]) })
			c.Count("builder_files")
			if fi >= len(pfds) {
				continue
			}
			kp := &c36{c: c, origin: "protodesc"}
			c.NoPanic("views:panic:protodesc", map[string]any{"proto_text": clip(s.Files[fi].String(), 2000)}, func() { kp.file(pfds[fi]) })
			c.Count("protodesc_files")
			if c.WantSample() && i > 2 {
				c.Sample(map[string]any{"schema": o.Prefix, "file": s.Files[fi].GetName(), "messages": len(s.Files[fi].MessageType), "constructions": "builder+protodesc"})
			}
		}
	}
}
