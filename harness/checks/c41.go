package checks

import (
	"bytes"
	"encoding/json"
	"fmt"
	"os"
	"os/exec"
	"path/filepath"
	"regexp"
	"sort"
	"strings"

	"google.golang.org/protobuf/compiler/protogen"
	"google.golang.org/protobuf/internal/strs"
	"google.golang.org/protobuf/proto"
	"google.golang.org/protobuf/reflect/protodesc"
	"google.golang.org/protobuf/types/descriptorpb"
	"google.golang.org/protobuf/types/pluginpb"
	"google.golang.org/protobuf/verif/c41rt"
	"google.golang.org/protobuf/verif/core"
	"google.golang.org/protobuf/verif/gen"
)

func init() {
	core.Register(&core.Check{
		ID:     "C41",
		Rule:   "cases: PRNG-generated valid multi-file schemas (proto2/proto3/editions; nested types, maps, groups/DELIMITED, real and synthetic oneofs, extension ranges and extensions, enums with aliases, services, defaults, lazy fields, editions feature overrides, hostile names: Go keywords, predeclared identifiers and generated method stems used as exact field names; one message with 70 required fields; plus accessor-name clash schemas: a field foo/bar in every presence style of the syntax (optional, required, implicit, proto3 optional, explicit, LEGACY_REQUIRED, repeated, map, message, DELIMITED, oneof member) next to has_/clear_/set_/get_/which_ siblings of its name and of the oneof's name, each schema its own package, and one fixed three-field pattern bar/get_bar/bar_ at each level) pushed through the real protoc-gen-go binary at API level open, hybrid or opaque (by schema index), written into a scratch Go module: (1) gofmt -l reports nothing, (2) go build of all generated packages and of a program linking them succeeds, (3) that program checks, for every file, that the registered descriptor equals the input FileDescriptorProto, and for every message type that PRNG contents marshal to the same deterministic bytes as dynamicpb, have the same reflection snapshot, Size, JSON and text, round-trip lazily and eagerly, and that mutated wire inputs get the same verdict and content as dynamicpb; distinct = distinct generated files; non-trivial = schema with at least one message",
		Assume: []string{"the Go toolchain (gofmt, go build) as judge of formatting and compilation", "dynamicpb as the reference implementation of a descriptor (C08)", "harness/c41rt (comparison program linked with the generated code)"},
		Batches: func(tier string) []core.Batch {
			n := 1
			if tier == "thorough" {
				n = 10
			}
			var bs []core.Batch
			for i := 0; i < n; i++ {
				bs = append(bs, core.Batch{Cfg: "base", Name: fmt.Sprintf("module-%02d", i), Kind: "module", N: i})
			}
			return bs
		},
		Gates: func(tier string) map[string]int64 {
			return map[string]int64{"schemas": 12, "generated_go_files": 20, "packages": 20, "builds_ok": 1, "rt:files": 20, "rt:message_types": 60, "rt:cases": 300, "rt:descriptor_equal": 20, "rt:api:open": 5, "rt:api:hybrid": 5, "rt:api:opaque": 5, "rt:mutated_inputs": 300, "rt:many_required_messages": 1, "level:open": 3, "level:hybrid": 3, "level:opaque": 3, "clash_schemas": 12, "clash_level:open": 4, "clash_level:hybrid": 4, "clash_level:opaque": 4, "clash_packages_compiled": 12}
		},
		Run: runC41,
	})
}

func goEnv() []string {
	return append(os.Environ(), "GOFLAGS=-mod=mod", "GOPROXY=off", "GOSUMDB=off", "GOTOOLCHAIN=local")
}

func runC41(c *core.Ctx, b core.Batch) {
	plugin, err := buildPlugin(c)
	if err != nil {
		c.Violation("harness:cannot-build-plugin", map[string]any{"err": errStr(err)})
		return
	}
	mod := filepath.Join(c.Dir, "mod")
	os.MkdirAll(mod, 0o755)
	repo := os.Getenv("VERIF_REPO")
	if repo == "" {
		repo = "/repo"
	}
	harness := filepath.Join(os.Getenv("VERIF_DIR"), "harness")
	gomod := fmt.Sprintf("module verifgen\n\ngo 1.23\n\nrequire (\n\tgoogle.golang.org/protobuf v0.0.0\n\tgoogle.golang.org/protobuf/verif v0.0.0\n)\n\nreplace google.golang.org/protobuf => %s\n\nreplace google.golang.org/protobuf/verif => %s\n", repo, harness)
	os.WriteFile(filepath.Join(mod, "go.mod"), []byte(gomod), 0o644)
	if sum, err := os.ReadFile(filepath.Join(harness, "go.sum")); err == nil {
		os.WriteFile(filepath.Join(mod, "go.sum"), sum, 0o644)
	}
	nschemas := c.Scale(18, 30)
	set := &descriptorpb.FileDescriptorSet{}
	var imports []string
	levels := []string{"API_OPEN", "API_HYBRID", "API_OPAQUE"}
	var clashPkgs []clashPkg
	for i := 0; i < nschemas; i++ {
		r := c.Rng(uint64(b.N)<<20 | uint64(i))
		o := gen.SchemaOpts{Prefix: fmt.Sprintf("c41b%ds%d", b.N, i), Codegen: true, Features: i%2 == 0, HostileNames: i%3 != 2, NumFiles: 1 + i%3, NoServices: false}
		if i%4 == 3 {
			o.Syntax = 2
			o.ManyRequired = 70
		}
		s, _, _, _, err := gen.GenValidSchema(r, o)
		if err != nil {
			c.Count("schema_rejected_by_protodesc")
			continue
		}
		level := levels[i%3]
		c.Count("schemas")
		c.Count("level:" + strings.ToLower(strings.TrimPrefix(level, "API_")))
		var names []string
		for _, p := range s.Files {
			names = append(names, p.GetName())
		}
		req := &pluginpb.CodeGeneratorRequest{FileToGenerate: names, ProtoFile: s.Files, Parameter: proto.String("default_api_level=" + level)}
		rb, _ := proto.MarshalOptions{Deterministic: true}.Marshal(req)
		c.Eval()
		c.Log("C41 schema %s level=%s", o.Prefix, level)
		out, err := runPlugin(plugin, rb, 4)
		detail := func() map[string]any {
			var sb strings.Builder
			for _, p := range s.Files {
				sb.WriteString(p.String())
				sb.WriteString("\n")
			}
			return map[string]any{"schema": o.Prefix, "api_level": level, "request": core.Hex(rb), "proto_text": clip(sb.String(), 6000)}
		}
		if err != nil {
			d := detail()
			d["err"] = errStr(err)
			c.Violation("codegen:plugin-failed-on-valid-schema:"+level, d)
			continue
		}
		files, perr, e := respFiles(out)
		if e != nil || perr != "" {
			d := detail()
			d["plugin_error"] = perr
			c.Violation("codegen:plugin-reports-error-on-valid-schema:"+level, d)
			continue
		}
		ok := true
		pkgs := map[string]bool{}
		for name, content := range files {
			if !strings.HasPrefix(name, "verifgen/") {
				d := detail()
				d["file"] = name
				c.Violation("codegen:unexpected-output-path", d)
				ok = false
				continue
			}
			dst := filepath.Join(mod, strings.TrimPrefix(name, "verifgen/"))
			os.MkdirAll(filepath.Dir(dst), 0o755)
			os.WriteFile(dst, []byte(content), 0o644)
			pkgs[filepath.Dir(name)] = true
			c.Count("generated_go_files")
			c.DistinctBytes([]byte(content))
		}
		if !ok {
			continue
		}
		for pk := range pkgs {
			imports = append(imports, pk)
			c.Count("packages")
		}
		set.File = append(set.File, s.Files...)
		if c.WantSample() && len(files) > 1 {
			var fn []string
			for n := range files {
				fn = append(fn, n)
			}
			sort.Strings(fn)
			c.Sample(map[string]any{"schema": o.Prefix, "api_level": level, "generated_files": fn})
		}
	}
	// accessor-name clash schemas: a field next to has_/clear_/set_/get_/which_ siblings
	// of its own name, for every way a field can have presence, at every API level
	nclash := c.Scale(18, 36)
	for i := 0; i < nclash+3; i++ {
		r := c.Rng(uint64(b.N)<<20 | 0x80000 | uint64(i))
		level := levels[i%3]
		syn := []string{"proto2", "proto3", "editions"}[(i/3)%3]
		prefix := fmt.Sprintf("c41b%dclash%d", b.N, i)
		fdp := c41ClashFile(r, prefix, syn, level)
		if i >= nclash {
			// the fixed three-field pattern, alone in its package, at each level
			syn = "proto2"
			fdp = c41PatternFile(prefix)
		}
		if _, err := protodesc.NewFile(fdp, nil); err != nil {
			c.Count("clash_schema_rejected_by_protodesc")
			continue
		}
		c.Count("clash_schemas")
		c.Count("clash_level:" + strings.ToLower(strings.TrimPrefix(level, "API_")))
		req := &pluginpb.CodeGeneratorRequest{FileToGenerate: []string{fdp.GetName()}, ProtoFile: []*descriptorpb.FileDescriptorProto{fdp}, Parameter: proto.String("default_api_level=" + level)}
		rb, _ := proto.MarshalOptions{Deterministic: true}.Marshal(req)
		c.Eval()
		c.Log("C41 clash schema %s level=%s syntax=%s", prefix, level, syn)
		detail := map[string]any{"schema": prefix, "api_level": level, "request": core.Hex(rb), "proto_text": clip(fdp.String(), 6000)}
		out, err := runPlugin(plugin, rb, 4)
		if err != nil {
			detail["err"] = errStr(err)
			c.Violation("codegen:plugin-failed-on-valid-schema:"+level, detail)
			continue
		}
		files, perr, e := respFiles(out)
		if e != nil || perr != "" {
			detail["plugin_error"] = perr
			c.Violation("codegen:plugin-reports-error-on-valid-schema:"+level, detail)
			continue
		}
		// each clash package is compiled alone first, so that a clash is attributed to its schema
		var dsts []string
		pk := ""
		for name, content := range files {
			dst := filepath.Join(mod, strings.TrimPrefix(name, "verifgen/"))
			os.MkdirAll(filepath.Dir(dst), 0o755)
			os.WriteFile(dst, []byte(content), 0o644)
			dsts = append(dsts, dst)
			pk = filepath.Dir(name)
			c.Count("generated_go_files")
			c.DistinctBytes([]byte(content))
		}
		if pk == "" {
			continue
		}
		clashPkgs = append(clashPkgs, clashPkg{pk, level, syn, detail, dsts, fdp})
	}
	if len(clashPkgs) > 0 {
		args := []string{"build"}
		for _, cp := range clashPkgs {
			args = append(args, "./"+strings.TrimPrefix(cp.pkg, "verifgen/"))
		}
		cb := exec.Command("go", args...)
		cb.Dir = mod
		cb.Env = goEnv()
		out, err := cb.CombinedOutput()
		for _, cp := range clashPkgs {
			rel := strings.TrimPrefix(cp.pkg, "verifgen/")
			if err != nil && strings.Contains(string(out), rel+"/") {
				var lines []string
				for _, l := range strings.Split(string(out), "\n") {
					if strings.Contains(l, rel+"/") {
						lines = append(lines, l)
					}
				}
				cp.detail["compiler_output"] = clip(strings.Join(lines, "\n"), 3000)
				class := c41ClashClass(cp.file, cp.level, lines)
				if class == "" {
					class = c41ErrClass(strings.Join(lines, "\n"))
				}
				c.Violation("codegen:accessor-name-clash-does-not-compile:"+cp.level+":"+class, cp.detail)
				// keep the broken package out of the program linking everything
				for _, d := range cp.dsts {
					os.Remove(d)
				}
				continue
			}
			c.Count("clash_packages_compiled")
			imports = append(imports, cp.pkg)
			c.Count("packages")
			set.File = append(set.File, cp.file)
		}
	}
	if len(imports) == 0 {
		return
	}
	sort.Strings(imports)
	// (1) gofmt
	if out, err := exec.Command("gofmt", "-l", mod).CombinedOutput(); err != nil || len(bytes.TrimSpace(out)) > 0 {
		c.Violation("codegen:output-not-gofmt-formatted", map[string]any{"gofmt_l": clip(string(out), 2000), "err": errStr(err)})
	}
	// (2) build a program linking every generated package
	var mb strings.Builder
	mb.WriteString("package main\n\nimport (\n")
	for _, im := range imports {
		fmt.Fprintf(&mb, "\t_ %q\n", im)
	}
	mb.WriteString("\t\"google.golang.org/protobuf/verif/c41rt\"\n)\n\nfunc main() { c41rt.Main() }\n")
	os.MkdirAll(filepath.Join(mod, "cmd", "rt"), 0o755)
	os.WriteFile(filepath.Join(mod, "cmd", "rt", "main.go"), []byte(mb.String()), 0o644)
	build := exec.Command("go", "build", "-o", filepath.Join(c.Dir, "rtprog"), "./cmd/rt")
	build.Dir = mod
	build.Env = goEnv()
	c.Eval()
	if out, err := build.CombinedOutput(); err != nil {
		// attribute the failure to the packages named in the compiler output
		c.Violation("codegen:generated-code-does-not-compile:"+c41ErrClass(string(out)), map[string]any{"compiler_output": clip(string(out), 4000)})
		// also try each package alone so that the others still get judged
		return
	}
	c.Count("builds_ok")
	// the protoopaque build of hybrid code must compile as well
	b2 := exec.Command("go", "build", "-tags", "protoopaque", "./...")
	b2.Dir = mod
	b2.Env = goEnv()
	if out, err := b2.CombinedOutput(); err != nil {
		c.Violation("codegen:generated-code-does-not-compile-with-protoopaque:"+c41ErrClass(string(out)), map[string]any{"compiler_output": clip(string(out), 4000)})
	} else {
		c.Count("builds_ok_protoopaque")
	}
	// (3) run the comparison program
	raw, _ := proto.MarshalOptions{Deterministic: true}.Marshal(set)
	fdsPath := filepath.Join(c.Dir, "fds.bin")
	os.WriteFile(fdsPath, raw, 0o644)
	run := exec.Command(filepath.Join(c.Dir, "rtprog"), fdsPath, fmt.Sprint(c.Seed), fmt.Sprint(c.Scale(6, 40)))
	var stderr bytes.Buffer
	run.Stderr = &stderr
	out, err := run.Output()
	if err != nil {
		c.Violation("codegen:comparison-program-crashed:"+c41ErrClass(stderr.String()), map[string]any{"stderr": clip(stderr.String(), 4000), "err": errStr(err)})
		return
	}
	var rep c41rt.Report
	if e := json.Unmarshal(out, &rep); e != nil {
		c.Violation("harness:comparison-program-output-unparsable", map[string]any{"out": clip(string(out), 1000)})
		return
	}
	c.EvalN(rep.Evaluations)
	for k, v := range rep.Counters {
		c.CountN("rt:"+k, v)
	}
	for _, v := range rep.Violations {
		c.Violation(v.Fingerprint, v.Detail)
	}
	for _, s := range rep.Samples {
		c.Sample(s)
	}
	os.RemoveAll(mod)
	os.Remove(filepath.Join(c.Dir, "rtprog"))
}

type clashPkg struct {
	pkg, level, syn string
	detail          map[string]any
	dsts            []string
	file            *descriptorpb.FileDescriptorProto
}

// c41PatternFile: a field, a get_ sibling (which the struct-field naming renames
// with a trailing underscore) and a field with a trailing underscore.
func c41PatternFile(prefix string) *descriptorpb.FileDescriptorProto {
	opt := descriptorpb.FieldDescriptorProto_LABEL_OPTIONAL.Enum()
	return &descriptorpb.FileDescriptorProto{Name: proto.String(prefix + "/clash.proto"), Package: proto.String(prefix), Syntax: proto.String("proto2"),
		Options: &descriptorpb.FileOptions{GoPackage: proto.String("verifgen/" + prefix + "/f0")},
		MessageType: []*descriptorpb.DescriptorProto{{Name: proto.String("P"), Field: []*descriptorpb.FieldDescriptorProto{
			{Name: proto.String("bar"), Number: proto.Int32(1), Label: opt, Type: descriptorpb.FieldDescriptorProto_TYPE_INT32.Enum(), JsonName: proto.String("bar")},
			{Name: proto.String("get_bar"), Number: proto.Int32(2), Label: opt, Type: descriptorpb.FieldDescriptorProto_TYPE_STRING.Enum(), JsonName: proto.String("getBar")},
			{Name: proto.String("bar_"), Number: proto.Int32(3), Label: opt, Type: descriptorpb.FieldDescriptorProto_TYPE_BOOL.Enum(), JsonName: proto.String("barU")},
		}}}}
}

var reSameName = regexp.MustCompile(`field and method with the same name (\w+)`)

// c41ClashClass names the cause of a compile failure when every "field and
// method with the same name N" of the package is of one recognised kind:
// N is the struct-field name of a field that the struct-field naming scheme
// renamed (GoName != CamelCase(name)) and at the same time <Op>+CamelCase of
// another field. Anything else returns "" (the raw compiler message is used).
func c41ClashClass(fdp *descriptorpb.FileDescriptorProto, level string, lines []string) string {
	names := map[string]bool{}
	for _, l := range lines {
		if m := reSameName.FindStringSubmatch(l); m != nil {
			names[m[1]] = true
		}
	}
	if len(names) == 0 {
		return ""
	}
	req := &pluginpb.CodeGeneratorRequest{FileToGenerate: []string{fdp.GetName()}, ProtoFile: []*descriptorpb.FileDescriptorProto{fdp}, Parameter: proto.String("default_api_level=" + level)}
	var plugin *protogen.Plugin
	var err error
	if p, _, _ := core.Try(func() { plugin, err = protogen.Options{}.New(req) }); p || err != nil {
		return ""
	}
	ops := map[string]bool{}
	for n := range names {
		found := ""
		var walk func(ms []*protogen.Message)
		walk = func(ms []*protogen.Message) {
			for _, m := range ms {
				renamed := false
				for _, f := range m.Fields {
					if f.GoName == n && strs.GoCamelCase(string(f.Desc.Name())) != n {
						renamed = true
					}
				}
				if renamed {
					for _, f := range m.Fields {
						for _, op := range []string{"Get", "Set", "Has", "Clear"} {
							if op+strs.GoCamelCase(string(f.Desc.Name())) == n {
								found = op
							}
						}
					}
				}
				walk(m.Messages)
			}
		}
		for _, f := range plugin.Files {
			walk(f.Messages)
		}
		if found == "" {
			return ""
		}
		ops[found] = true
	}
	var ol []string
	for o := range ops {
		ol = append(ol, o)
	}
	sort.Strings(ol)
	return "accessor-" + strings.Join(ol, "+") + "-equals-struct-field-renamed-by-old-scheme"
}

// c41ClashFile: messages in which a field with presence (by every mechanism the
// syntax offers) sits next to fields named like its generated accessors.
func c41ClashFile(r *core.Rand, prefix, syn, level string) *descriptorpb.FileDescriptorProto {
	fdp := &descriptorpb.FileDescriptorProto{Name: proto.String(prefix + "/clash.proto"), Package: proto.String(prefix), Syntax: proto.String(syn),
		Options: &descriptorpb.FileOptions{GoPackage: proto.String("verifgen/" + prefix + "/f0")}}
	if syn == "editions" {
		fdp.Syntax = proto.String("editions")
		fdp.Edition = descriptorpb.Edition_EDITION_2023.Enum()
	}
	fdp.MessageType = append(fdp.MessageType, &descriptorpb.DescriptorProto{Name: proto.String("Sub"), Field: []*descriptorpb.FieldDescriptorProto{{Name: proto.String("v"), Number: proto.Int32(1), Label: descriptorpb.FieldDescriptorProto_LABEL_OPTIONAL.Enum(), Type: descriptorpb.FieldDescriptorProto_TYPE_INT32.Enum(), JsonName: proto.String("v")}}})
	styles := map[string][]string{
		"proto2":   {"optional", "required", "repeated", "message", "oneof", "oneof-message", "map"},
		"proto3":   {"implicit", "proto3-optional", "repeated", "message", "oneof", "oneof-message", "map"},
		"editions": {"explicit", "implicit", "legacy-required", "repeated", "message", "delimited", "oneof", "oneof-message", "map"},
	}[syn]
	scalar := []descriptorpb.FieldDescriptorProto_Type{descriptorpb.FieldDescriptorProto_TYPE_INT32, descriptorpb.FieldDescriptorProto_TYPE_STRING, descriptorpb.FieldDescriptorProto_TYPE_BYTES, descriptorpb.FieldDescriptorProto_TYPE_BOOL, descriptorpb.FieldDescriptorProto_TYPE_DOUBLE}
	nmsg := 8
	for mi := 0; mi < nmsg; mi++ {
		m := &descriptorpb.DescriptorProto{Name: proto.String(fmt.Sprintf("M%d", mi))}
		num := int32(1)
		var synth []*descriptorpb.FieldDescriptorProto
		hasOneof := false
		add := func(name, style string) {
			f := &descriptorpb.FieldDescriptorProto{Name: proto.String(name), Number: proto.Int32(num), Label: descriptorpb.FieldDescriptorProto_LABEL_OPTIONAL.Enum(), Type: scalar[r.Intn(len(scalar))].Enum(), JsonName: proto.String(gen.JSONCamel(name))}
			num++
			sub := func() {
				f.Type = descriptorpb.FieldDescriptorProto_TYPE_MESSAGE.Enum()
				f.TypeName = proto.String("." + prefix + ".Sub")
			}
			switch style {
			case "required":
				f.Label = descriptorpb.FieldDescriptorProto_LABEL_REQUIRED.Enum()
			case "repeated":
				f.Label = descriptorpb.FieldDescriptorProto_LABEL_REPEATED.Enum()
			case "message":
				sub()
			case "delimited":
				sub()
				f.Options = &descriptorpb.FieldOptions{Features: &descriptorpb.FeatureSet{MessageEncoding: descriptorpb.FeatureSet_DELIMITED.Enum()}}
			case "oneof", "oneof-message":
				if !hasOneof {
					hasOneof = true
					m.OneofDecl = append([]*descriptorpb.OneofDescriptorProto{{Name: proto.String("oo")}}, m.OneofDecl...)
					for _, sf := range synth {
						sf.OneofIndex = proto.Int32(sf.GetOneofIndex() + 1)
					}
				}
				f.OneofIndex = proto.Int32(0)
				if style == "oneof-message" {
					sub()
				}
			case "proto3-optional":
				f.Proto3Optional = proto.Bool(true)
				m.OneofDecl = append(m.OneofDecl, &descriptorpb.OneofDescriptorProto{Name: proto.String("_" + name)})
				f.OneofIndex = proto.Int32(int32(len(m.OneofDecl) - 1))
				synth = append(synth, f)
			case "implicit":
				if syn == "editions" {
					f.Options = &descriptorpb.FieldOptions{Features: &descriptorpb.FeatureSet{FieldPresence: descriptorpb.FeatureSet_IMPLICIT.Enum()}}
				}
			case "legacy-required":
				f.Options = &descriptorpb.FieldOptions{Features: &descriptorpb.FeatureSet{FieldPresence: descriptorpb.FeatureSet_LEGACY_REQUIRED.Enum()}}
			case "map":
				en := gen.JSONCamel(name)
				en = strings.ToUpper(en[:1]) + en[1:] + "Entry"
				m.NestedType = append(m.NestedType, &descriptorpb.DescriptorProto{Name: proto.String(en), Options: &descriptorpb.MessageOptions{MapEntry: proto.Bool(true)}, Field: []*descriptorpb.FieldDescriptorProto{
					{Name: proto.String("key"), Number: proto.Int32(1), Label: descriptorpb.FieldDescriptorProto_LABEL_OPTIONAL.Enum(), Type: descriptorpb.FieldDescriptorProto_TYPE_STRING.Enum(), JsonName: proto.String("key")},
					{Name: proto.String("value"), Number: proto.Int32(2), Label: descriptorpb.FieldDescriptorProto_LABEL_OPTIONAL.Enum(), Type: descriptorpb.FieldDescriptorProto_TYPE_INT32.Enum(), JsonName: proto.String("value")}}})
				f.Label = descriptorpb.FieldDescriptorProto_LABEL_REPEATED.Enum()
				f.Type = descriptorpb.FieldDescriptorProto_TYPE_MESSAGE.Enum()
				f.TypeName = proto.String("." + prefix + "." + m.GetName() + "." + en)
			}
			m.Field = append(m.Field, f)
		}
		// the oneof "oo" gets its own siblings in some messages (get_oo next to a
		// oneof oo in the open API is the recorded C42 finding and is left to C42)
		plain := []string{"optional", "implicit", "explicit"}
		plainStyle := func() string {
			for _, st := range styles {
				for _, p := range plain {
					if st == p {
						return st
					}
				}
			}
			return styles[0]
		}()
		base := []string{"foo", "bar"}[mi%2]
		add(base, styles[(mi+r.Intn(len(styles)))%len(styles)])
		sibs := []string{"has_", "clear_", "set_", "get_", "which_"}
		k := 1 + r.Intn(2)
		first := r.Intn(len(sibs))
		usedGet := false
		for j := 0; j < k; j++ {
			sb := sibs[(first+j*2)%len(sibs)]
			usedGet = usedGet || sb == "get_"
			add(sb+base, plainStyle)
		}
		// base_ has the default JSON name of base: protoc accepts that in proto2 only;
		// next to a get_ sibling it is the fixed pattern of c41PatternFile, kept out of here
		if syn == "proto2" && r.Chance(1, 2) && !usedGet {
			add(base+"_", plainStyle)
			m.Field[len(m.Field)-1].JsonName = proto.String(base + "U")
		}
		if r.Chance(1, 2) {
			if !hasOneof {
				add("member", "oneof")
			}
			pre := []string{"has_", "clear_", "which_", "set_"}[r.Intn(4)]
			add(pre+"oo", plainStyle)
		}
		// a nested message or enum named like the CamelCase of a oneof member
		// (the wrapper type of that member must then be renamed consistently)
		if hasOneof && r.Chance(1, 2) {
			for _, f := range m.Field {
				if f.OneofIndex == nil || f.GetProto3Optional() {
					continue
				}
				nn := strs.GoCamelCase(f.GetName())
				dup := false
				for _, n := range m.NestedType {
					dup = dup || n.GetName() == nn
				}
				if dup {
					continue
				}
				if r.Bool() {
					m.NestedType = append(m.NestedType, &descriptorpb.DescriptorProto{Name: proto.String(nn)})
				} else {
					m.EnumType = append(m.EnumType, &descriptorpb.EnumDescriptorProto{Name: proto.String(nn), Value: []*descriptorpb.EnumValueDescriptorProto{{Name: proto.String(strings.ToUpper(nn) + fmt.Sprintf("_M%d_ZERO", mi)), Number: proto.Int32(0)}}})
				}
				break
			}
		}
		fdp.MessageType = append(fdp.MessageType, m)
	}
	return fdp
}

// c41ErrClass keeps the first compiler / runtime message without positions and counters.
func c41ErrClass(out string) string {
	for _, line := range strings.Split(out, "\n") {
		line = strings.TrimSpace(line)
		if line == "" || strings.HasPrefix(line, "#") {
			continue
		}
		if i := strings.Index(line, ".go:"); i >= 0 {
			rest := line[i+4:]
			if j := strings.Index(rest, ": "); j >= 0 {
				line = rest[j+2:]
			}
		}
		var b []byte
		for i := 0; i < len(line); i++ {
			ch := line[i]
			if ch >= '0' && ch <= '9' {
				if len(b) == 0 || b[len(b)-1] != 'N' {
					b = append(b, 'N')
				}
				continue
			}
			b = append(b, ch)
		}
		return clip(string(b), 70)
	}
	return "unknown"
}
