package checks

import (
	"bytes"
	"encoding/json"
	"fmt"
	"os"
	"os/exec"
	"path/filepath"
	"sort"
	"strings"

	"google.golang.org/protobuf/proto"
	"google.golang.org/protobuf/types/descriptorpb"
	"google.golang.org/protobuf/types/pluginpb"
	"google.golang.org/protobuf/verif/c41rt"
	"google.golang.org/protobuf/verif/core"
	"google.golang.org/protobuf/verif/gen"
)

func init() {
	core.Register(&core.Check{
		ID: "C41",
		Rule: "cases: PRNG-generated valid multi-file schemas (proto2/proto3/editions; nested types, maps, groups/DELIMITED, real and synthetic oneofs, extension ranges and extensions, enums with aliases, services, defaults, lazy fields, editions feature overrides, hostile names: Go keywords, predeclared identifiers and generated method stems used as exact field names; one message with 70 required fields) pushed through the real protoc-gen-go binary at API level open, hybrid or opaque (by schema index), written into a scratch Go module: (1) gofmt -l reports nothing, (2) go build of all generated packages and of a program linking them succeeds, (3) that program checks, for every file, that the registered descriptor equals the input FileDescriptorProto, and for every message type that PRNG contents marshal to the same deterministic bytes as dynamicpb, have the same reflection snapshot, Size, JSON and text, round-trip lazily and eagerly, and that mutated wire inputs get the same verdict and content as dynamicpb; distinct = distinct generated files; non-trivial = schema with at least one message",
		Assume: []string{"the Go toolchain (gofmt, go build) as judge of formatting and compilation", "dynamicpb as the reference implementation of a descriptor (C08)", "harness/c41rt (comparison program linked with the generated code)"},
		Batches: func(tier string) []core.Batch {
			n := 1
			if tier == "thorough" {
				n = 10
			}
			var bs []core.Batch
			for i := 0; i < n; i++ {
				bs = append(bs, core.Batch{Cfg: "base", Name: fmt.Sprintf("module-%02d", i), Kind: "module", N: i})
			}
			return bs
		},
		Gates: func(tier string) map[string]int64 {
			return map[string]int64{"schemas": 12, "generated_go_files": 20, "packages": 20, "builds_ok": 1, "rt:files": 20, "rt:message_types": 60, "rt:cases": 300, "rt:descriptor_equal": 20, "rt:api:open": 5, "rt:api:hybrid": 5, "rt:api:opaque": 5, "rt:mutated_inputs": 300, "rt:many_required_messages": 1, "level:open": 3, "level:hybrid": 3, "level:opaque": 3}
		},
		Run: runC41,
	})
}

func goEnv() []string {
	return append(os.Environ(), "GOFLAGS=-mod=mod", "GOPROXY=off", "GOSUMDB=off", "GOTOOLCHAIN=local")
}

func runC41(c *core.Ctx, b core.Batch) {
	plugin, err := buildPlugin(c)
	if err != nil {
		c.Violation("harness:cannot-build-plugin", map[string]any{"err": errStr(err)})
		return
	}
	mod := filepath.Join(c.Dir, "mod")
	os.MkdirAll(mod, 0o755)
	repo := os.Getenv("VERIF_REPO")
	if repo == "" {
		repo = "/repo"
	}
	harness := filepath.Join(os.Getenv("VERIF_DIR"), "harness")
	gomod := fmt.Sprintf("module verifgen\n\ngo 1.23\n\nrequire (\n\tgoogle.golang.org/protobuf v0.0.0\n\tgoogle.golang.org/protobuf/verif v0.0.0\n)\n\nreplace google.golang.org/protobuf => %s\n\nreplace google.golang.org/protobuf/verif => %s\n", repo, harness)
	os.WriteFile(filepath.Join(mod, "go.mod"), []byte(gomod), 0o644)
	if sum, err := os.ReadFile(filepath.Join(harness, "go.sum")); err == nil {
		os.WriteFile(filepath.Join(mod, "go.sum"), sum, 0o644)
	}
	nschemas := c.Scale(18, 30)
	set := &descriptorpb.FileDescriptorSet{}
	var imports []string
	levels := []string{"API_OPEN", "API_HYBRID", "API_OPAQUE"}
	for i := 0; i < nschemas; i++ {
		r := c.Rng(uint64(b.N)<<20 | uint64(i))
		o := gen.SchemaOpts{Prefix: fmt.Sprintf("c41b%ds%d", b.N, i), Codegen: true, Features: i%2 == 0, HostileNames: i%3 != 2, NumFiles: 1 + i%3, NoServices: false}
		if i%4 == 3 {
			o.Syntax = 2
			o.ManyRequired = 70
		}
		s, _, _, _, err := gen.GenValidSchema(r, o)
		if err != nil {
			c.Count("schema_rejected_by_protodesc")
			continue
		}
		level := levels[i%3]
		c.Count("schemas")
		c.Count("level:" + strings.ToLower(strings.TrimPrefix(level, "API_")))
		var names []string
		for _, p := range s.Files {
			names = append(names, p.GetName())
		}
		req := &pluginpb.CodeGeneratorRequest{FileToGenerate: names, ProtoFile: s.Files, Parameter: proto.String("default_api_level=" + level)}
		rb, _ := proto.MarshalOptions{Deterministic: true}.Marshal(req)
		c.Eval()
		c.Log("C41 schema %s level=%s", o.Prefix, level)
		out, err := runPlugin(plugin, rb, 4)
		detail := func() map[string]any {
			var sb strings.Builder
			for _, p := range s.Files {
				sb.WriteString(p.String())
				sb.WriteString("\n")
			}
			return map[string]any{"schema": o.Prefix, "api_level": level, "request": core.Hex(rb), "proto_text": clip(sb.String(), 6000)}
		}
		if err != nil {
			d := detail()
			d["err"] = errStr(err)
			c.Violation("codegen:plugin-failed-on-valid-schema:"+level, d)
			continue
		}
		files, perr, e := respFiles(out)
		if e != nil || perr != "" {
			d := detail()
			d["plugin_error"] = perr
			c.Violation("codegen:plugin-reports-error-on-valid-schema:"+level, d)
			continue
		}
		ok := true
		pkgs := map[string]bool{}
		for name, content := range files {
			if !strings.HasPrefix(name, "verifgen/") {
				d := detail()
				d["file"] = name
				c.Violation("codegen:unexpected-output-path", d)
				ok = false
				continue
			}
			dst := filepath.Join(mod, strings.TrimPrefix(name, "verifgen/"))
			os.MkdirAll(filepath.Dir(dst), 0o755)
			os.WriteFile(dst, []byte(content), 0o644)
			pkgs[filepath.Dir(name)] = true
			c.Count("generated_go_files")
			c.DistinctBytes([]byte(content))
		}
		if !ok {
			continue
		}
		for pk := range pkgs {
			imports = append(imports, pk)
			c.Count("packages")
		}
		set.File = append(set.File, s.Files...)
		if c.WantSample() && len(files) > 1 {
			var fn []string
			for n := range files {
				fn = append(fn, n)
			}
			sort.Strings(fn)
			c.Sample(map[string]any{"schema": o.Prefix, "api_level": level, "generated_files": fn})
		}
	}
	if len(imports) == 0 {
		return
	}
	sort.Strings(imports)
	// (1) gofmt
	if out, err := exec.Command("gofmt", "-l", mod).CombinedOutput(); err != nil || len(bytes.TrimSpace(out)) > 0 {
		c.Violation("codegen:output-not-gofmt-formatted", map[string]any{"gofmt_l": clip(string(out), 2000), "err": errStr(err)})
	}
	// (2) build a program linking every generated package
	var mb strings.Builder
	mb.WriteString("package main\n\nimport (\n")
	for _, im := range imports {
		fmt.Fprintf(&mb, "\t_ %q\n", im)
	}
	mb.WriteString("\t\"google.golang.org/protobuf/verif/c41rt\"\n)\n\nfunc main() { c41rt.Main() }\n")
	os.MkdirAll(filepath.Join(mod, "cmd", "rt"), 0o755)
	os.WriteFile(filepath.Join(mod, "cmd", "rt", "main.go"), []byte(mb.String()), 0o644)
	build := exec.Command("go", "build", "-o", filepath.Join(c.Dir, "rtprog"), "./cmd/rt")
	build.Dir = mod
	build.Env = goEnv()
	c.Eval()
	if out, err := build.CombinedOutput(); err != nil {
		// attribute the failure to the packages named in the compiler output
		c.Violation("codegen:generated-code-does-not-compile:"+c41ErrClass(string(out)), map[string]any{"compiler_output": clip(string(out), 4000)})
		// also try each package alone so that the others still get judged
		return
	}
	c.Count("builds_ok")
	// the protoopaque build of hybrid code must compile as well
	b2 := exec.Command("go", "build", "-tags", "protoopaque", "./...")
	b2.Dir = mod
	b2.Env = goEnv()
	if out, err := b2.CombinedOutput(); err != nil {
		c.Violation("codegen:generated-code-does-not-compile-with-protoopaque:"+c41ErrClass(string(out)), map[string]any{"compiler_output": clip(string(out), 4000)})
	} else {
		c.Count("builds_ok_protoopaque")
	}
	// (3) run the comparison program
	raw, _ := proto.MarshalOptions{Deterministic: true}.Marshal(set)
	fdsPath := filepath.Join(c.Dir, "fds.bin")
	os.WriteFile(fdsPath, raw, 0o644)
	run := exec.Command(filepath.Join(c.Dir, "rtprog"), fdsPath, fmt.Sprint(c.Seed), fmt.Sprint(c.Scale(6, 40)))
	var stderr bytes.Buffer
	run.Stderr = &stderr
	out, err := run.Output()
	if err != nil {
		c.Violation("codegen:comparison-program-crashed:"+c41ErrClass(stderr.String()), map[string]any{"stderr": clip(stderr.String(), 4000), "err": errStr(err)})
		return
	}
	var rep c41rt.Report
	if e := json.Unmarshal(out, &rep); e != nil {
		c.Violation("harness:comparison-program-output-unparsable", map[string]any{"out": clip(string(out), 1000)})
		return
	}
	c.EvalN(rep.Evaluations)
	for k, v := range rep.Counters {
		c.CountN("rt:"+k, v)
	}
	for _, v := range rep.Violations {
		c.Violation(v.Fingerprint, v.Detail)
	}
	for _, s := range rep.Samples {
		c.Sample(s)
	}
	os.RemoveAll(mod)
	os.Remove(filepath.Join(c.Dir, "rtprog"))
}

// c41ErrClass keeps the first compiler / runtime message without positions and counters.
func c41ErrClass(out string) string {
	for _, line := range strings.Split(out, "\n") {
		line = strings.TrimSpace(line)
		if line == "" || strings.HasPrefix(line, "#") {
			continue
		}
		if i := strings.Index(line, ".go:"); i >= 0 {
			rest := line[i+4:]
			if j := strings.Index(rest, ": "); j >= 0 {
				line = rest[j+2:]
			}
		}
		var b []byte
		for i := 0; i < len(line); i++ {
			ch := line[i]
			if ch >= '0' && ch <= '9' {
				if len(b) == 0 || b[len(b)-1] != 'N' {
					b = append(b, 'N')
				}
				continue
			}
			b = append(b, ch)
		}
		return clip(string(b), 70)
	}
	return "unknown"
}
