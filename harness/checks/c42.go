package checks

import (
	"fmt"
	"go/token"
	"sort"
	"strings"
	"unicode"
	"unicode/utf8"

	"google.golang.org/protobuf/compiler/protogen"
	"google.golang.org/protobuf/encoding/protojson"
	"google.golang.org/protobuf/internal/strs"
	"google.golang.org/protobuf/proto"
	"google.golang.org/protobuf/types/descriptorpb"
	"google.golang.org/protobuf/types/known/fieldmaskpb"
	"google.golang.org/protobuf/types/pluginpb"
	"google.golang.org/protobuf/verif/core"
	"google.golang.org/protobuf/verif/gen"
)

func init() {
	core.Register(&core.Check{
		ID:         "C42",
		Rule:       "cases: (a) every identifier string [A-Za-z_][A-Za-z0-9_]* of length <= 3 (quick) / <= 4 (thorough) and PRNG longer identifiers (also dotted, as used for nested names): GoCamelCase yields an exported Go identifier; (b) GoSanitized on every string of length <= 3 (<= 4) over a 24-character alphabet incl. punctuation, digits, non-ASCII letters, marks and Go keywords, and on PRNG Unicode strings: a valid non-keyword Go identifier; (c) the same identifier strings as FieldMask paths: whenever protojson marshals the path, JSONSnakeCase(JSONCamelCase(s)) == s; (d) protogen name derivation in-process (protogen.Options.New on generated CodeGeneratorRequests, open and opaque API level): messages whose field and oneof names are drawn from a collision-seeking pool (foo / get_foo / Foo / foo_ / _foo / reset / string / descriptor / build / has_x / set_x / clear_x / which_x, oneofs named like camel-cased fields): all struct member names, getter/setter/has/clear/which method names, oneof wrapper, nested-type, enum and enum-value identifiers are valid exported identifiers and pairwise distinct where Go requires it; (e) the same schemas (those protoc would accept: no default-JSON-name conflict outside proto2) and five fixed witness schemas through the generator itself in-process (protogen + internal_gengo) at the hybrid and opaque API levels, each generated file parsed and type-checked with go/types against the export data of the repository's packages: no type error; a clash is explained by a recorded cause only when protogen's public naming API shows it (see known_findings.json), anything else is minimised (greedy removal of messages, fields, oneofs) and reported; distinct = distinct strings / field-name sets; non-trivial = string of length >= 2",
		Assume:     []string{"go/token.IsIdentifier, token.IsExported, token.Lookup", "the naming scheme of generated code transcribed in checks/c42.go (struct members, GetX/SetX/HasX/ClearX/WhichX, Msg_Field wrapper types)", "go/types and the export data written by go list -export as judge of (e)"},
		Exhaustive: func(tier string) bool { return false },
		Batches: func(tier string) []core.Batch {
			var bs []core.Batch
			for i := 0; i < 8; i++ {
				bs = append(bs, core.Batch{Cfg: "base", Name: fmt.Sprintf("strs-%d", i), Kind: "strs", N: i})
			}
			for i := 0; i < 8; i++ {
				bs = append(bs, core.Batch{Cfg: "base", Name: fmt.Sprintf("names-%d", i), Kind: "names", N: i})
			}
			return bs
		},
		Gates: func(tier string) map[string]int64 {
			return map[string]int64{"camelcase": 100000, "sanitized": 10000, "fieldmask_paths": 100000, "fieldmask_accepted": 5000, "protogen_messages": 3000, "protogen_fields": 20000, "protogen_opaque_messages": 1000, "protogen_renamed": 300, "protogen_oneofs": 1000, "typechecked_files:hybrid": 500, "typechecked_files:opaque": 500, "typecheck_witness_schemas": 5}
		},
		Run: runC42,
	})
}

func runC42(c *core.Ctx, b core.Batch) {
	if b.Kind == "names" {
		c42Names(c, b)
		return
	}
	first := "abzAZ_xX"
	rest := "abzAZ_xX019"
	if !c.Quick() {
		first = "abcdefghijklmnopqrstuvwxyzABCDEFGHIJKLMNOPQRSTUVWXYZ_"
		rest = first + "0123456789"
	} else {
		first = "abcdefghijklmnopqrstuvwxyzABCDEFGHIJKLMNOPQRSTUVWXYZ_"
		rest = first + "0123456789"
	}
	maxLen := c.Scale(3, 4)
	idx := 0
	checkIdent := func(s string) {
		c.Eval()
		c.Count("camelcase")
		if len(s) >= 2 && idx%64 == 0 {
			c.DistinctStr(s)
		}
		g := strs.GoCamelCase(s)
		if !token.IsIdentifier(g) || !token.IsExported(g) {
			c.Violation("camel:not-an-exported-identifier:"+c42Shape(s), map[string]any{"input": s, "output": g})
		}
		// FieldMask path property
		c.Count("fieldmask_paths")
		out, err := protojson.Marshal(&fieldmaskpb.FieldMask{Paths: []string{s}})
		if err == nil {
			c.Count("fieldmask_accepted")
			if back := strs.JSONSnakeCase(strs.JSONCamelCase(s)); back != s {
				c.Violation("fieldmask:accepted-path-not-reversible:"+c42Shape(s), map[string]any{"path": s, "json": string(out), "snake_of_camel": back})
			}
			// and parsing gives the path back
			var fm fieldmaskpb.FieldMask
			if e := protojson.Unmarshal(out, &fm); e != nil || len(fm.Paths) != 1 || fm.Paths[0] != s {
				c.Violation("fieldmask:accepted-path-does-not-parse-back:"+c42Shape(s), map[string]any{"path": s, "json": string(out), "back": fm.Paths})
			}
		}
	}
	var rec func(p []byte)
	rec = func(p []byte) {
		if len(p) > 0 {
			idx++
			if idx%8 == b.N {
				checkIdent(string(p))
			}
		}
		if len(p) == maxLen {
			return
		}
		al := rest
		if len(p) == 0 {
			al = first
		}
		for i := 0; i < len(al); i++ {
			rec(append(p, al[i]))
		}
	}
	rec(nil)
	for i := 0; i < c.Scale(20000, 400000); i++ {
		r := c.Rng(uint64(i))
		n := 1 + r.Intn(14)
		bs := make([]byte, 0, n+4)
		for j := 0; j < n; j++ {
			al := "abcxyzABCXYZ___0189"
			if j == 0 {
				al = "abcxyzABCXYZ_"
			}
			ch := al[r.Intn(len(al))]
			bs = append(bs, ch)
			if r.Chance(1, 9) && j > 0 && j < n-1 {
				bs = append(bs, '.')
				bs = append(bs, "abcXYZ_"[r.Intn(7)])
			}
		}
		checkIdent(string(bs))
	}
	// GoSanitized
	sal := []string{"a", "Z", "_", "0", "9", "-", ".", " ", "/", "é", "Ω", "日", "́", "٣", "$", "\x00", "\xff", "go", "if", "func", "type", "range", "map", "\U0001F600"}
	checkSan := func(s string) {
		c.Eval()
		c.Count("sanitized")
		g := strs.GoSanitized(s)
		if !token.IsIdentifier(g) || token.Lookup(g).IsKeyword() {
			c.Violation("sanitized:not-a-valid-non-keyword-identifier:"+c42SanShape(s), map[string]any{"input": fmt.Sprintf("%q", s), "output": fmt.Sprintf("%q", g)})
		}
		if len(s) >= 2 {
			c.DistinctStr("san/" + s)
		}
	}
	sidx := 0
	var rec2 func(p string, n int)
	rec2 = func(p string, n int) {
		sidx++
		if sidx%8 == b.N {
			checkSan(p)
		}
		if n == maxLen {
			return
		}
		for _, x := range sal {
			rec2(p+x, n+1)
		}
	}
	rec2("", 0)
	for _, kw := range []string{"break", "default", "func", "interface", "select", "case", "defer", "go", "map", "struct", "chan", "else", "goto", "package", "switch", "const", "fallthrough", "if", "range", "type", "continue", "for", "import", "return", "var"} {
		checkSan(kw)
		checkSan(kw + "_")
		checkSan("_" + kw)
		checkSan(strings.ToUpper(kw[:1]) + kw[1:])
	}
	for i := 0; i < c.Scale(5000, 200000); i++ {
		r := c.Rng(uint64(1<<40 | i))
		n := r.Intn(8)
		var sb strings.Builder
		for j := 0; j < n; j++ {
			switch r.Intn(5) {
			case 0:
				sb.WriteRune(rune(r.Intn(0x250)))
			case 1:
				sb.WriteRune(rune(0x300 + r.Intn(0x3000)))
			case 2:
				sb.WriteByte(byte(r.Intn(256)))
			default:
				sb.WriteString(sal[r.Intn(len(sal))])
			}
		}
		checkSan(sb.String())
	}
}

func c42Shape(s string) string {
	var b []byte
	for i := 0; i < len(s); i++ {
		ch := s[i]
		switch {
		case ch >= 'a' && ch <= 'z':
			ch = 'a'
		case ch >= 'A' && ch <= 'Z':
			ch = 'A'
		case ch >= '0' && ch <= '9':
			ch = '0'
		}
		if len(b) == 0 || b[len(b)-1] != ch || ch == '_' {
			b = append(b, ch)
		}
	}
	return clip(string(b), 16)
}

func c42SanShape(s string) string {
	if s == "" {
		return "empty"
	}
	if token.Lookup(s).IsKeyword() {
		return "keyword"
	}
	if !utf8.ValidString(s) {
		return "invalid-utf8"
	}
	r, _ := utf8.DecodeRuneInString(s)
	switch {
	case unicode.IsDigit(r):
		return "leading-digit"
	case unicode.IsLetter(r):
		return "leading-letter"
	case unicode.IsMark(r):
		return "leading-mark"
	}
	return "leading-other"
}

var c42Pool = []string{"foo", "get_foo", "Foo", "foo_", "_foo", "getFoo", "GetFoo", "get_get_foo", "reset", "string", "descriptor", "proto_message", "proto_reflect", "marshal", "unmarshal", "build", "has_foo", "set_foo", "clear_foo", "which_foo",
	"foo_bar", "fooBar", "FooBar", "foo__bar", "extension_map", "extension_range_array", "x", "X", "_x", "x_", "get", "Get", "get_", "a1", "a_1", "A1", "state", "size_cache", "unknown_fields", "has", "set", "clear", "which", "bar", "get_bar", "has_bar", "oneof_x", "get_oneof_x", "which_oneof_x"}

// c42Names drives protogen in-process on messages whose names seek collisions.
func c42Names(c *core.Ctx, b core.Batch) {
	tc, err := newC42TC()
	if err != nil {
		c.Violation("harness:no-export-data-for-type-checking", map[string]any{"err": errStr(err)})
		tc = nil
	}
	if tc != nil && b.N == 0 {
		// one fixed witness per recorded cause, so that each is met at every seed
		for wi, w := range [][]string{{"x@X"}, {"bar", "get_bar", "bar_"}, {"Foo", "get_foo", "state@foo_"}, {"getFoo", "descriptor@Foo"}, {"get_@_foo", "get@foo", "nested:Get"}} {
			c42TypeCheck(c, tc, c42Witness(wi, w))
			c.Count("typecheck_witness_schemas")
		}
	}
	n := c.Scale(400, 8000)
	for i := 0; i < n; i++ {
		r := c.Rng(uint64(i))
		fdp := c42NameSchema(r, fmt.Sprintf("c42/b%d_%d.proto", b.N, i), i)
		if tc != nil {
			c42TypeCheck(c, tc, fdp)
		}
		for _, level := range []string{"API_OPEN", "API_OPAQUE"} {
			c.Eval()
			param := "default_api_level=" + level
			req := &pluginpb.CodeGeneratorRequest{FileToGenerate: []string{fdp.GetName()}, Parameter: proto.String(param), ProtoFile: []*descriptorpb.FileDescriptorProto{fdp}}
			var plugin *protogen.Plugin
			var err error
			text := clip(fdp.String(), 3000)
			c.Log("C42 names %s level=%s proto=%s", fdp.GetName(), level, text)
			if !c.NoPanic("names:protogen-panic:"+level, map[string]any{"proto": text}, func() { plugin, err = protogen.Options{}.New(req) }) {
				continue
			}
			if err != nil {
				c.Count("protogen_rejected")
				continue
			}
			for _, f := range plugin.Files {
				if !f.Generate {
					continue
				}
				pkgNames := map[string]string{}
				addPkg := func(what, name string) {
					if !token.IsIdentifier(name) || !token.IsExported(name) {
						c.Violation("names:package-level-identifier-invalid:"+what, map[string]any{"name": name, "proto": text})
					}
					if prev, dup := pkgNames[name]; dup {
						if prev > what {
							prev, what = what, prev
						}
						c.Violation(fmt.Sprintf("names:package-level-clash:%s-vs-%s:%s", prev, what, level), map[string]any{"name": name, "proto": text})
					}
					pkgNames[name] = what
				}
				var walk func(ms []*protogen.Message)
				walk = func(ms []*protogen.Message) {
					for _, m := range ms {
						if m.Desc.IsMapEntry() {
							continue
						}
						c.Count("protogen_messages")
						if level == "API_OPAQUE" {
							c.Count("protogen_opaque_messages")
						}
						addPkg("message", m.GoIdent.GoName)
						if level == "API_OPAQUE" {
							addPkg("builder", m.GoIdent.GoName+"_builder")
						}
						members := map[string]string{} // struct members and methods of the message type
						add := func(what, name string) {
							if !token.IsIdentifier(name) {
								c.Violation("names:member-identifier-invalid:"+what, map[string]any{"name": name, "proto": text})
							}
							if prev, dup := members[name]; dup {
								if prev > what {
									prev, what = what, prev
								}
								fields := []string{}
								for _, fl := range m.Fields {
									fields = append(fields, string(fl.Desc.Name()))
								}
								sort.Strings(fields)
								c.Violation(fmt.Sprintf("names:member-clash:%s-vs-%s:%s", prev, what, level), map[string]any{"name": name, "message_fields": fields, "proto": text})
							}
							members[name] = what
						}
						seenOneof := map[*protogen.Oneof]bool{}
						for _, fl := range m.Fields {
							c.Count("protogen_fields")
							if string(fl.Desc.Name()) != "" && fl.GoName != strs.GoCamelCase(string(fl.Desc.Name())) {
								c.Count("protogen_renamed")
							}
							if fl.Oneof != nil && !fl.Oneof.Desc.IsSynthetic() {
								if !seenOneof[fl.Oneof] {
									seenOneof[fl.Oneof] = true
									c.Count("protogen_oneofs")
									if level == "API_OPEN" {
										add("oneof-struct-field", fl.Oneof.GoName)
										add("oneof-getter", "Get"+fl.Oneof.GoName)
									}
								}
								addPkg("oneof-wrapper", fl.GoIdent.GoName)
								add("getter", "Get"+fl.GoName)
							} else if level == "API_OPEN" {
								add("struct-field", fl.GoName)
								add("getter", "Get"+fl.GoName)
							}
						}
						for _, e := range m.Enums {
							addPkg("enum", e.GoIdent.GoName)
							for _, v := range e.Values {
								addPkg("enum-value", v.GoIdent.GoName)
							}
						}
						walk(m.Messages)
					}
				}
				walk(f.Messages)
				for _, e := range f.Enums {
					addPkg("enum", e.GoIdent.GoName)
					for _, v := range e.Values {
						addPkg("enum-value", v.GoIdent.GoName)
					}
				}
			}
			if c.WantSample() && len(fdp.MessageType[0].Field) > 6 {
				var names []string
				for _, fl := range fdp.MessageType[0].Field {
					names = append(names, fl.GetName())
				}
				c.Sample(map[string]any{"field_names": names, "api_level": level, "file": fdp.GetName()})
			}
			c.DistinctStr(fdp.String() + level)
		}
	}
}

// c42Witness builds a proto2 file with one message from member names ("name" or "name@oneof").
func c42Witness(i int, members []string) *descriptorpb.FileDescriptorProto {
	m := &descriptorpb.DescriptorProto{Name: proto.String("W")}
	oneofs := map[string]int32{}
	for k, mem := range members {
		if nn, ok := strings.CutPrefix(mem, "nested:"); ok {
			m.NestedType = append(m.NestedType, &descriptorpb.DescriptorProto{Name: proto.String(nn)})
			continue
		}
		name, oneof, in := strings.Cut(mem, "@")
		f := &descriptorpb.FieldDescriptorProto{Name: proto.String(name), Number: proto.Int32(int32(k + 1)), Label: descriptorpb.FieldDescriptorProto_LABEL_OPTIONAL.Enum(), Type: descriptorpb.FieldDescriptorProto_TYPE_INT32.Enum(), JsonName: proto.String(fmt.Sprintf("j%d", k))}
		if in {
			if _, ok := oneofs[oneof]; !ok {
				oneofs[oneof] = int32(len(m.OneofDecl))
				m.OneofDecl = append(m.OneofDecl, &descriptorpb.OneofDescriptorProto{Name: proto.String(oneof)})
			}
			f.OneofIndex = proto.Int32(oneofs[oneof])
		}
		m.Field = append(m.Field, f)
	}
	return &descriptorpb.FileDescriptorProto{Name: proto.String(fmt.Sprintf("c42/witness%d.proto", i)), Package: proto.String("c42pkg"), Syntax: proto.String("proto2"),
		Options: &descriptorpb.FileOptions{GoPackage: proto.String("example.com/c42/p")}, MessageType: []*descriptorpb.DescriptorProto{m}}
}

// c42NameSchema draws a file whose messages take their field and oneof names
// from the collision-seeking pool.
func c42NameSchema(r *core.Rand, name string, i int) *descriptorpb.FileDescriptorProto {
	syn := []string{"proto2", "proto3", "editions"}[i%3]
	fdp := &descriptorpb.FileDescriptorProto{Name: proto.String(name), Package: proto.String("c42pkg"), Syntax: proto.String(syn),
		Options: &descriptorpb.FileOptions{GoPackage: proto.String("example.com/c42/p")}}
	if syn == "editions" {
		fdp.Edition = descriptorpb.Edition_EDITION_2023.Enum()
	}
	nmsg := 1 + r.Intn(3)
	for mi := 0; mi < nmsg; mi++ {
		m := &descriptorpb.DescriptorProto{Name: proto.String([]string{"M", "Msg", "M_x", "Get", "M1"}[mi%5] + fmt.Sprint(mi))}
		used := map[string]bool{}
		nf := 2 + r.Intn(9)
		pick := func() string {
			for t := 0; t < 50; t++ {
				s := c42Pool[r.Intn(len(c42Pool))]
				if r.Chance(1, 6) {
					s = gen.RandIdent(r)
				}
				if !used[s] {
					used[s] = true
					return s
				}
			}
			return ""
		}
		num := int32(1)
		noneof := r.Intn(3)
		for oi := 0; oi < noneof; oi++ {
			on := pick()
			if on == "" {
				break
			}
			m.OneofDecl = append(m.OneofDecl, &descriptorpb.OneofDescriptorProto{Name: proto.String(on)})
		}
		addField := func(name string, oneof int) {
			f := &descriptorpb.FieldDescriptorProto{Name: proto.String(name), Number: proto.Int32(num), Label: descriptorpb.FieldDescriptorProto_LABEL_OPTIONAL.Enum(), Type: descriptorpb.FieldDescriptorProto_TYPE_INT32.Enum(), JsonName: proto.String(gen.JSONCamel(name))}
			num++
			switch r.Intn(5) {
			case 0:
				f.Type = descriptorpb.FieldDescriptorProto_TYPE_STRING.Enum()
			case 1:
				if oneof < 0 {
					f.Label = descriptorpb.FieldDescriptorProto_LABEL_REPEATED.Enum()
				}
			case 2:
				f.Type = descriptorpb.FieldDescriptorProto_TYPE_MESSAGE.Enum()
				f.TypeName = proto.String(".c42pkg." + m.GetName())
			}
			if oneof >= 0 {
				f.OneofIndex = proto.Int32(int32(oneof))
			}
			m.Field = append(m.Field, f)
		}
		for fi := 0; fi < nf; fi++ {
			if s := pick(); s != "" {
				addField(s, -1)
			}
		}
		for oi := range m.OneofDecl {
			for k := 0; k < 1+r.Intn(2); k++ {
				s := pick()
				if s == "" {
					s = fmt.Sprintf("fallback_member_%d_%d", oi, k)
				}
				addField(s, oi)
			}
		}
		// nested types named like oneof wrapper types / fields
		if r.Chance(1, 2) && len(m.Field) > 0 {
			nn := strs.GoCamelCase(m.Field[r.Intn(len(m.Field))].GetName())
			if token.IsIdentifier(nn) {
				m.NestedType = append(m.NestedType, &descriptorpb.DescriptorProto{Name: proto.String(nn)})
			}
		}
		if r.Chance(1, 3) {
			m.EnumType = append(m.EnumType, &descriptorpb.EnumDescriptorProto{Name: proto.String("E" + fmt.Sprint(mi)), Value: []*descriptorpb.EnumValueDescriptorProto{{Name: proto.String("E" + fmt.Sprint(mi) + "_ZERO"), Number: proto.Int32(0)}, {Name: proto.String("FOO"), Number: proto.Int32(1)}}})
		}
		fdp.MessageType = append(fdp.MessageType, m)
	}
	return fdp
}
