package checks

import (
	"bytes"
	"fmt"
	"reflect"
	"regexp"
	"strconv"
	"strings"

	"google.golang.org/protobuf/encoding/protojson"
	"google.golang.org/protobuf/encoding/prototext"
	"google.golang.org/protobuf/internal/impl"
	"google.golang.org/protobuf/proto"
	"google.golang.org/protobuf/reflect/protoreflect"
	"google.golang.org/protobuf/runtime/protoimpl"
	"google.golang.org/protobuf/types/descriptorpb"
	"google.golang.org/protobuf/verif/core"
	"google.golang.org/protobuf/verif/gen"

	lazyhybrid "google.golang.org/protobuf/internal/testprotos/lazy/lazy_hybrid"
	lazyopaque "google.golang.org/protobuf/internal/testprotos/lazy/lazy_opaque"
	requiredhybrid "google.golang.org/protobuf/internal/testprotos/required/required_hybrid"
	requiredopaque "google.golang.org/protobuf/internal/testprotos/required/required_opaque"
	test3hybrid "google.golang.org/protobuf/internal/testprotos/test3/test3_hybrid"
	test3opaque "google.golang.org/protobuf/internal/testprotos/test3/test3_opaque"
	testedhybrid "google.golang.org/protobuf/internal/testprotos/testeditions/testeditions_hybrid"
	testedopaque "google.golang.org/protobuf/internal/testprotos/testeditions/testeditions_opaque"
	textedopaque "google.golang.org/protobuf/internal/testprotos/textpbeditions/textpbeditions_opaque"
)

func init() {
	core.Register(&core.Check{
		ID:     "C29",
		Rule:   "cases: for every schema family linked in open, hybrid and opaque form (test3, testeditions, required, enums, lazy, textpbeditions, messageset under protolegacy): one logical content (PRNG, keyed by field number: boundary scalars, NaN, -0, strings, bytes, enums, nested messages, lists, maps, oneof members, extensions, unknown fields) materialised through (1) protoreflect Set on each flavour and on dynamicpb, (2) the generated Go API via reflect: exported struct fields by protobuf tag incl. oneof wrapper types (open, hybrid), SetX methods (hybrid, opaque), _builder structs + Build() (hybrid, opaque; statically referenced builder types); oracle: identical deterministic bytes across all flavours and routes, every flavour decodes every other's bytes to the same field-number-keyed snapshot, generated getters/HasX agree with reflection, JSON and text outputs equal after masking type names; and the concatenation of two consecutive contents' serialisations (one decode of the concatenation; decode of the first then Merge-decode of the second) leaves every flavour with the snapshot and deterministic bytes dynamicpb ends with, without panic (lazy fields stay undecoded between the two occurrences); repeated in the protoopaque build; distinct = distinct (family, content bytes); non-trivial = at least one populated field",
		Assume: []string{"field-number-keyed snapshot (model/snapshot.go)", "reflect-based driver of the generated API in checks/c29.go (falls back to protoreflect Set, counted, when a Go name or type cannot be matched)"},
		Batches: func(tier string) []core.Batch {
			bs := stdBatches([]string{"base"}, 8)
			bs = append(bs, stdBatches([]string{"opaque"}, 4)...)
			bs = append(bs, stdBatches([]string{"legacy"}, 2)...)
			return bs
		},
		Gates: func(tier string) map[string]int64 {
			return map[string]int64{"families": 30, "contents": 1500, "route:reflect": 5000, "route:struct": 1000, "route:setters": 1500, "route:builder": 200, "goapi_fields_set": 10000, "oneof_wrapper_set": 100, "cross_decodes": 10000, "json_text_compared": 1500, "getter_checks": 5000, "concat_decodes": 3000, "families_with_lazy_fields": 6}
		},
		Run: runC29,
	})
}

var c29Builders = map[string]reflect.Type{}

func init() {
	for _, b := range []any{
		test3opaque.TestAllTypes_builder{}, test3opaque.ForeignMessage_builder{}, test3opaque.TestAllTypes_NestedMessage_builder{},
		test3hybrid.TestAllTypes_builder{}, test3hybrid.ForeignMessage_builder{},
		testedopaque.TestAllTypes_builder{}, testedopaque.ForeignMessage_builder{}, testedopaque.TestAllTypes_NestedMessage_builder{}, testedopaque.TestRequired_builder{}, testedopaque.TestManyMessageFieldsMessage_builder{},
		testedhybrid.TestAllTypes_builder{}, testedhybrid.TestRequired_builder{},
		requiredopaque.Int32_builder{}, requiredopaque.Message_builder{}, requiredhybrid.Int32_builder{},
		lazyopaque.Node_builder{}, lazyhybrid.Node_builder{},
		textedopaque.Scalars_builder{}, textedopaque.Nests_builder{}, textedopaque.Enums_builder{}, textedopaque.Nested_builder{}, textedopaque.ImplicitScalars_builder{}, textedopaque.Maps_builder{}, textedopaque.Repeats_builder{},
	} {
		t := reflect.TypeOf(b)
		bm, ok := t.MethodByName("Build")
		if !ok {
			continue
		}
		c29Builders[bm.Type.Out(0).String()] = t // "*pkg.T" -> builder struct type
	}
}

// structPtrOf returns the pointer to the Go struct behind a message (for
// legacy messages: the v1 struct behind the runtime's wrapper).
func structPtrOf(m protoreflect.Message) reflect.Value {
	var v any = m.Interface()
	if _, isWrapper := v.(interface{ ProtoReflect() protoreflect.Message }); isWrapper {
		rv := reflect.ValueOf(v)
		if rv.Kind() == reflect.Ptr && rv.Elem().Kind() == reflect.Struct && rv.Elem().NumField() > 0 && hasProtobufTags(rv.Elem().Type()) {
			return rv
		}
	}
	var v1 any
	if !protoTry(func() { v1 = protoimpl.X.ProtoMessageV1Of(m.Interface()) }) || v1 == nil {
		return reflect.Value{}
	}
	rv := reflect.ValueOf(v1)
	if rv.Kind() == reflect.Ptr && rv.Elem().Kind() == reflect.Struct {
		return rv
	}
	return reflect.Value{}
}

func hasProtobufTags(t reflect.Type) bool {
	for i := 0; i < t.NumField(); i++ {
		if t.Field(i).Tag.Get("protobuf") != "" || t.Field(i).Tag.Get("protobuf_oneof") != "" {
			return true
		}
	}
	return false
}

func protoTry(f func()) (ok bool) {
	defer func() {
		if recover() != nil {
			ok = false
		}
	}()
	f()
	return true
}

// tagNumber extracts the field number of a `protobuf:"kind,N,..."` struct tag.
func tagNumber(tag string) int {
	parts := strings.Split(tag, ",")
	if len(parts) < 2 {
		return 0
	}
	n, _ := strconv.Atoi(parts[1])
	return n
}

type c29mat struct {
	c        *core.Ctx
	fallback int
	set      int
}

// toGo converts a protoreflect value of field fd into a reflect.Value of Go
// type t (the type the generated API uses for that field in some position).
func (k *c29mat) toGo(route string, fd protoreflect.FieldDescriptor, v protoreflect.Value, t reflect.Type, elem bool) (reflect.Value, bool) {
	switch {
	case fd.IsMap() && !elem:
		if t.Kind() != reflect.Map {
			return reflect.Value{}, false
		}
		out := reflect.MakeMap(t)
		ok := true
		v.Map().Range(func(mk protoreflect.MapKey, mv protoreflect.Value) bool {
			kv, ok1 := k.toGo(route, fd.MapKey(), mk.Value(), t.Key(), true)
			vv, ok2 := k.toGo(route, fd.MapValue(), mv, t.Elem(), true)
			if !ok1 || !ok2 {
				ok = false
				return false
			}
			out.SetMapIndex(kv, vv)
			return true
		})
		return out, ok
	case fd.IsList() && !elem:
		if t.Kind() != reflect.Slice {
			return reflect.Value{}, false
		}
		l := v.List()
		out := reflect.MakeSlice(t, 0, l.Len())
		for i := 0; i < l.Len(); i++ {
			ev, ok := k.toGo(route, fd, l.Get(i), t.Elem(), true)
			if !ok {
				return reflect.Value{}, false
			}
			out = reflect.Append(out, ev)
		}
		return out, true
	case fd.Message() != nil:
		if t.Kind() != reflect.Ptr || t.Elem().Kind() != reflect.Struct {
			return reflect.Value{}, false
		}
		var pm proto.Message
		if !protoTry(func() { pm = protoimpl.X.ProtoMessageV2Of(reflect.New(t.Elem()).Interface()) }) || pm == nil {
			return reflect.Value{}, false
		}
		built := k.materialise(route, pm.ProtoReflect().Type(), v.Message())
		rv := structPtrOf(built)
		if !rv.IsValid() || !rv.Type().AssignableTo(t) {
			return reflect.Value{}, false
		}
		return rv, true
	}
	// scalars (possibly behind a pointer)
	if t.Kind() == reflect.Ptr {
		inner, ok := k.toGo(route, fd, v, t.Elem(), true)
		if !ok {
			return reflect.Value{}, false
		}
		p := reflect.New(t.Elem())
		p.Elem().Set(inner)
		return p, true
	}
	switch fd.Kind() {
	case protoreflect.EnumKind:
		if t.Kind() != reflect.Int32 {
			return reflect.Value{}, false
		}
		rv := reflect.New(t).Elem()
		rv.SetInt(int64(v.Enum()))
		return rv, true
	case protoreflect.BytesKind:
		if t.Kind() != reflect.Slice || t.Elem().Kind() != reflect.Uint8 {
			return reflect.Value{}, false
		}
		b := v.Bytes()
		if b == nil {
			b = []byte{}
		}
		return reflect.ValueOf(append([]byte{}, b...)).Convert(t), true
	}
	rv := reflect.ValueOf(v.Interface())
	if rv.Kind() != t.Kind() {
		return reflect.Value{}, false
	}
	return rv.Convert(t), true
}

// materialise builds a message of type mt holding the content of src (any
// implementation with the same field numbers) through the given route.
func (k *c29mat) materialise(route string, mt protoreflect.MessageType, src protoreflect.Message) protoreflect.Message {
	md := mt.Descriptor()
	dst := mt.New()
	viaReflect := func(fd protoreflect.FieldDescriptor, v protoreflect.Value) {
		transferField(dst, fd, v, func(t protoreflect.MessageType, s protoreflect.Message) protoreflect.Message {
			return k.materialise(route, t, s)
		})
	}
	var builder reflect.Value
	if route == "builder" {
		if bt, ok := c29Builders[reflect.TypeOf(dst.Interface()).String()]; ok {
			builder = reflect.New(bt).Elem()
		} else {
			route = "setters"
		}
	}
	var pending []func()
	src.Range(func(sfd protoreflect.FieldDescriptor, v protoreflect.Value) bool {
		var fd protoreflect.FieldDescriptor
		if sfd.IsExtension() {
			// extensions are set through reflection in every flavour
			xt := findExt(md, sfd.Number())
			if xt != nil {
				pending = append(pending, func() { viaReflect(xt.TypeDescriptor(), v) })
			}
			return true
		}
		fd = md.Fields().ByNumber(sfd.Number())
		if fd == nil {
			return true
		}
		done := false
		switch route {
		case "struct":
			done = k.setStructField(route, dst, fd, v)
		case "setters":
			done = k.setViaSetter(route, dst, fd, v)
		case "builder":
			f := builder.FieldByName(goName(fd))
			if f.IsValid() && f.CanSet() {
				if gv, ok := k.toGo("setters", fd, v, f.Type(), false); ok {
					f.Set(gv)
					done = true
				}
			}
		}
		if done {
			k.set++
		} else {
			if route != "reflect" {
				k.fallback++
			}
			fdc, vc := fd, v
			pending = append(pending, func() { viaReflect(fdc, vc) })
		}
		return true
	})
	if route == "builder" && builder.IsValid() {
		out := builder.Addr().MethodByName("Build")
		if !out.IsValid() {
			out = builder.MethodByName("Build")
		}
		res := out.Call(nil)[0].Interface().(proto.Message)
		dst = res.ProtoReflect()
	}
	for _, f := range pending {
		f()
	}
	if u := src.GetUnknown(); len(u) > 0 && gen.KeepsUnknown(dst) {
		dst.SetUnknown(append(protoreflect.RawFields{}, u...))
	}
	return dst
}

func findExt(md protoreflect.MessageDescriptor, num protoreflect.FieldNumber) protoreflect.ExtensionType {
	for _, xt := range gen.ExtensionsOf(nil2global(), md.FullName()) {
		if xt.TypeDescriptor().Number() == num {
			return xt
		}
	}
	return nil
}

// transferField sets dst.fd from a value of another implementation.
func transferField(dst protoreflect.Message, fd protoreflect.FieldDescriptor, v protoreflect.Value, sub func(protoreflect.MessageType, protoreflect.Message) protoreflect.Message) {
	conv := func(efd protoreflect.FieldDescriptor, ev protoreflect.Value, newMsg func() protoreflect.Message) protoreflect.Value {
		if efd.Message() != nil {
			nm := newMsg()
			return protoreflect.ValueOfMessage(sub(nm.Type(), ev.Message()))
		}
		if efd.Kind() == protoreflect.BytesKind {
			return protoreflect.ValueOfBytes(append([]byte{}, ev.Bytes()...))
		}
		return ev
	}
	switch {
	case fd.IsMap():
		mp := dst.Mutable(fd).Map()
		v.Map().Range(func(mk protoreflect.MapKey, mv protoreflect.Value) bool {
			mp.Set(mk, conv(fd.MapValue(), mv, func() protoreflect.Message { return mp.NewValue().Message() }))
			return true
		})
	case fd.IsList():
		l := dst.Mutable(fd).List()
		for i := 0; i < v.List().Len(); i++ {
			l.Append(conv(fd, v.List().Get(i), func() protoreflect.Message { return l.NewElement().Message() }))
		}
	default:
		dst.Set(fd, conv(fd, v, func() protoreflect.Message { return dst.NewField(fd).Message() }))
	}
}

func (k *c29mat) setViaSetter(route string, dst protoreflect.Message, fd protoreflect.FieldDescriptor, v protoreflect.Value) bool {
	mv, ok := method(dst, "Set"+goName(fd))
	if !ok || mv.Type().NumIn() != 1 {
		return false
	}
	gv, ok := k.toGo(route, fd, v, mv.Type().In(0), false)
	if !ok {
		return false
	}
	mv.Call([]reflect.Value{gv})
	return true
}

func (k *c29mat) setStructField(route string, dst protoreflect.Message, fd protoreflect.FieldDescriptor, v protoreflect.Value) bool {
	rv := structPtrOf(dst)
	if !rv.IsValid() || rv.Kind() != reflect.Ptr || rv.Elem().Kind() != reflect.Struct {
		return false
	}
	st := rv.Elem()
	tt := st.Type()
	if od := fd.ContainingOneof(); od != nil && !od.IsSynthetic() {
		// interface-typed field tagged protobuf_oneof:"name"; wrapper struct from MessageInfo.OneofWrappers
		mi, ok := dst.Type().(*impl.MessageInfo)
		if !ok {
			return false
		}
		for i := 0; i < tt.NumField(); i++ {
			sf := tt.Field(i)
			if sf.Tag.Get("protobuf_oneof") != string(od.Name()) || !sf.IsExported() {
				continue
			}
			for _, w := range mi.OneofWrappers {
				wt := reflect.TypeOf(w)
				if wt.Kind() != reflect.Ptr || wt.Elem().Kind() != reflect.Struct || wt.Elem().NumField() != 1 {
					continue
				}
				inner := wt.Elem().Field(0)
				if tagNumber(inner.Tag.Get("protobuf")) != int(fd.Number()) || !wt.Implements(sf.Type) {
					continue
				}
				gv, ok := k.toGo(route, fd, v, inner.Type, false)
				if !ok {
					return false
				}
				wv := reflect.New(wt.Elem())
				wv.Elem().Field(0).Set(gv)
				st.Field(i).Set(wv)
				k.c.Count("oneof_wrapper_set")
				return true
			}
		}
		return false
	}
	for i := 0; i < tt.NumField(); i++ {
		sf := tt.Field(i)
		if !sf.IsExported() || tagNumber(sf.Tag.Get("protobuf")) != int(fd.Number()) {
			continue
		}
		gv, ok := k.toGo(route, fd, v, sf.Type, false)
		if !ok {
			return false
		}
		st.Field(i).Set(gv)
		return true
	}
	return false
}

type c29Family struct {
	open, hybrid, opaque protoreflect.MessageType
}

func c29Families(b core.Batch) []c29Family {
	var out []c29Family
	for _, mt := range codecTypes(b) {
		n := string(mt.Descriptor().FullName())
		if strings.HasPrefix(n, "hybrid.") || strings.HasPrefix(n, "opaque.") {
			continue
		}
		h, o := gen.TypeByName("hybrid."+n), gen.TypeByName("opaque."+n)
		if h == nil || o == nil || mt.Descriptor().IsMapEntry() {
			continue
		}
		out = append(out, c29Family{mt, h, o})
	}
	return out
}

var reFlavourNames = regexp.MustCompile(`(hybrid\.|opaque\.)`)

func runC29(c *core.Ctx, b core.Batch) {
	fams := c29Families(b)
	nb := map[string]int{"base": 8, "opaque": 4, "legacy": 2}[b.Cfg]
	per := c.Scale(8, 120)
	var prev []byte
	for fi, fam := range fams {
		if fi%nb != b.N {
			continue
		}
		c.Count("families")
		if hasLazyField(fam.opaque.Descriptor(), map[protoreflect.FullName]bool{}) {
			c.Count("families_with_lazy_fields")
		}
		name := string(fam.open.Descriptor().FullName())
		for kk := 0; kk < per; kk++ {
			r := c.Rng(uint64(fi)<<24 | uint64(kk))
			fo := fillOptsFor(kk)
			fo.ByNumber = true
			fo.Unknown = true
			// the content is drawn once, on a dynamicpb message of the open descriptor
			content := gen.Dynamic(fam.open.Descriptor())
			gen.Fill(r, content, fo)
			c29Case(c, fam, name, content, kk)
			// the same content arriving as two concatenated serialisations
			// (protobuf defines that as a merge): every flavour must end
			// with the content dynamicpb ends with
			if cur, err := detBytes(content); err == nil {
				if prev != nil {
					c29Concat(c, fam, name, prev, cur)
				}
				prev = cur
			}
		}
		prev = nil
	}
}

func c29Case(c *core.Ctx, fam c29Family, name string, content protoreflect.Message, kk int) {
	c.Eval()
	c.Count("contents")
	want := snapOf(content)
	ref, err := detBytes(content)
	if err != nil {
		return
	}
	if want.NumPopulated() > 0 {
		c.DistinctBytes([]byte(name), ref)
	}
	c.Log("C29 family=%s content=%s", name, core.Hex(ref))
	type built struct {
		label string
		m     protoreflect.Message
	}
	var all []built
	k := &c29mat{c: c}
	add := func(label, route string, mt protoreflect.MessageType) {
		var m protoreflect.Message
		if !c.NoPanic("flavours:materialise-panic:"+label, map[string]any{"family": name, "content": core.Hex(ref)}, func() { m = k.materialise(route, mt, content) }) {
			return
		}
		c.Count("route:" + route)
		all = append(all, built{label, m})
	}
	add("open/reflect", "reflect", fam.open)
	add("hybrid/reflect", "reflect", fam.hybrid)
	add("opaque/reflect", "reflect", fam.opaque)
	add("open/struct", "struct", fam.open)
	add("hybrid/struct", "struct", fam.hybrid)
	add("hybrid/setters", "setters", fam.hybrid)
	add("opaque/setters", "setters", fam.opaque)
	add("hybrid/builder", "builder", fam.hybrid)
	add("opaque/builder", "builder", fam.opaque)
	c.CountN("goapi_fields_set", int64(k.set))
	c.CountN("goapi_fallbacks", int64(k.fallback))
	detail := func(label string, got []byte) map[string]any {
		return map[string]any{"family": name, "flavour_route": label, "content": core.Hex(ref), "got": core.Hex(got)}
	}
	// 1. identical deterministic bytes
	encs := map[string][]byte{}
	for _, x := range all {
		enc, err := detBytes(x.m)
		if err != nil {
			c.Violation("flavours:marshal-error:"+x.label, detail(x.label, nil))
			continue
		}
		encs[x.label] = enc
		if !bytes.Equal(enc, ref) {
			d := detail(x.label, enc)
			d["first_diff"] = firstDiff(want, maskFlavour(snapOf(x.m)))
			c.Violation("flavours:deterministic-bytes-differ:"+x.label+":"+c29DiffField(want, snapOf(x.m)), d)
		}
		if sz := proto.Size(x.m.Interface()); sz != len(enc) {
			c.Violation("flavours:size:"+x.label, detail(x.label, enc))
		}
	}
	// 2. every flavour decodes every other's output to the same snapshot
	wantKey := snapKeyNoType(want)
	for _, x := range all {
		enc := encs[x.label]
		if enc == nil {
			continue
		}
		for _, tgt := range []protoreflect.MessageType{fam.open, fam.hybrid, fam.opaque} {
			for _, dyn := range []bool{false, true} {
				if dyn && kk%3 != 0 {
					continue
				}
				c.Count("cross_decodes")
				m2 := newOf(tgt, dyn)
				if e := (proto.UnmarshalOptions{AllowPartial: true}).Unmarshal(enc, m2.Interface()); e != nil {
					c.Violation("flavours:cross-decode-error:"+flavour(tgt.Descriptor()), detail(x.label, enc))
					continue
				}
				if got := snapKeyNoType(snapOf(m2)); got != wantKey {
					d := detail(x.label, enc)
					d["target"] = string(tgt.Descriptor().FullName())
					d["dynamic"] = dyn
					c.Violation("flavours:cross-decode-content:"+flavour(tgt.Descriptor())+":"+c29DiffField(want, snapOf(m2)), d)
				}
			}
		}
	}
	// 3. generated getters / HasX agree with reflection on each built message
	for _, x := range all {
		md := x.m.Descriptor()
		for i := 0; i < md.Fields().Len(); i++ {
			fd := md.Fields().Get(i)
			if fd.IsList() || fd.IsMap() || fd.Message() != nil {
				continue
			}
			if gv, ok := genGet(x.m, fd); ok {
				c.Count("getter_checks")
				rvv := x.m.Get(fd)
				if !gv.Equal(rvv) && !(fd.Kind() == protoreflect.BytesKind && len(gv.Bytes()) == 0 && len(rvv.Bytes()) == 0) {
					c.Violation("flavours:getter-vs-reflection:"+x.label+":"+kindCell(fd), map[string]any{"family": name, "field": string(fd.Name()), "content": core.Hex(ref)})
				}
			}
			if h, ok := genHas(x.m, fd); ok && h != x.m.Has(fd) {
				c.Violation("flavours:hasx-vs-reflection:"+x.label+":"+kindCell(fd), map[string]any{"family": name, "field": string(fd.Name()), "content": core.Hex(ref)})
			}
		}
	}
	// 4. JSON and text equal modulo type names
	var j0, t0 string
	for i, x := range all {
		if i >= 3 && kk%2 == 1 {
			break
		}
		jb, je := protojson.MarshalOptions{AllowPartial: true}.Marshal(x.m.Interface())
		tb, te := prototext.MarshalOptions{AllowPartial: true}.Marshal(x.m.Interface())
		js, ts := "error", "error"
		if je == nil {
			v, _ := jsonParse(reFlavourNames.ReplaceAll(jb, nil))
			js = fmt.Sprint(v)
		}
		if te == nil {
			ts = strings.Join(strings.Fields(string(reFlavourNames.ReplaceAll(tb, nil))), " ")
		}
		if i == 0 {
			j0, t0 = js, ts
			c.Count("json_text_compared")
			continue
		}
		if js != j0 {
			c.Violation("flavours:json-differs:"+x.label, map[string]any{"family": name, "content": core.Hex(ref), "json": clip(string(jb), 1500)})
		}
		if ts != t0 {
			c.Violation("flavours:text-differs:"+x.label, map[string]any{"family": name, "content": core.Hex(ref), "text": clip(string(tb), 1500)})
		}
	}
	if c.WantSample() && want.NumPopulated() > 3 {
		var labels []string
		for _, x := range all {
			labels = append(labels, x.label)
		}
		c.Sample(map[string]any{"family": name, "content_wire": core.Hex(ref), "built_through": labels, "identical_deterministic_bytes": true, "goapi_fields_set": k.set, "fallbacks_to_reflection": k.fallback})
	}
}

func hasLazyField(md protoreflect.MessageDescriptor, seen map[protoreflect.FullName]bool) bool {
	if seen[md.FullName()] {
		return false
	}
	seen[md.FullName()] = true
	for i := 0; i < md.Fields().Len(); i++ {
		fd := md.Fields().Get(i)
		if fd.Message() == nil {
			continue
		}
		if o, ok := fd.Options().(*descriptorpb.FieldOptions); ok && o.GetLazy() {
			return true
		}
		if hasLazyField(fd.Message(), seen) {
			return true
		}
	}
	return false
}

// c29Concat feeds first||second (and a merge-decode of second into a message
// already holding first) to every flavour and to dynamicpb.
func c29Concat(c *core.Ctx, fam c29Family, name string, first, second []byte) {
	c.Eval()
	in := append(append([]byte{}, first...), second...)
	c.Log("C29 concat family=%s in=%s split=%d", name, core.Hex(in), len(first))
	uo := proto.UnmarshalOptions{AllowPartial: true}
	ref := gen.Dynamic(fam.open.Descriptor())
	if uo.Unmarshal(in, ref.Interface()) != nil {
		return
	}
	want := snapOf(ref)
	wantKey := snapKeyNoType(want)
	wantBytes, werr := detBytes(ref)
	for _, tgt := range []protoreflect.MessageType{fam.open, fam.hybrid, fam.opaque} {
		fl := flavour(tgt.Descriptor())
		for mode := 0; mode < 2; mode++ {
			m := tgt.New()
			detail := map[string]any{"family": name, "input": core.Hex(in), "split_at": len(first), "target": string(tgt.Descriptor().FullName()), "mode": []string{"one-decode-of-concatenation", "decode-then-merge-decode"}[mode]}
			var err error
			ok := c.NoPanic("flavours:concat-panic:"+fl, detail, func() {
				if mode == 0 {
					err = uo.Unmarshal(in, m.Interface())
				} else {
					if err = uo.Unmarshal(first, m.Interface()); err == nil {
						mo := uo
						mo.Merge = true
						err = mo.Unmarshal(second, m.Interface())
					}
				}
			})
			if !ok {
				continue
			}
			c.Count("concat_decodes")
			if err != nil {
				c.Violation("flavours:concat-decode-error:"+fl, detail)
				continue
			}
			var got string
			var enc []byte
			var eerr error
			if !c.NoPanic("flavours:concat-panic-after-decode:"+fl, detail, func() {
				enc, eerr = detBytes(m)
				got = snapKeyNoType(snapOf(m))
			}) {
				continue
			}
			if got != wantKey {
				c.Violation("flavours:concat-content:"+fl+":"+c29DiffField(want, snapOf(m)), detail)
				continue
			}
			if werr == nil && (eerr != nil || !bytes.Equal(enc, wantBytes)) {
				detail["got"] = core.Hex(enc)
				c.Violation("flavours:concat-deterministic-bytes:"+fl, detail)
			}
		}
	}
}

// snapKeyNoType renders a snapshot without message type names (flavour twins
// have different full names).
var reSnapType = regexp.MustCompile(`(hybrid|opaque)\.`)

func snapKeyNoType(s interface{ String() string }) string {
	return reSnapType.ReplaceAllString(s.String(), "")
}

func maskFlavour[T any](s T) T { return s }

func c29DiffField(a, b interface{ String() string }) string {
	x, y := snapKeyNoType(a), snapKeyNoType(b)
	n := len(x)
	if len(y) < n {
		n = len(y)
	}
	i := 0
	for i < n && x[i] == y[i] {
		i++
	}
	// the field number path up to the difference
	j := strings.LastIndexAny(x[:i], "{;")
	e := i
	for e < len(x) && x[e] != ':' && x[e] != ';' && x[e] != '}' {
		e++
	}
	if j < 0 {
		j = 0
	}
	return "field#" + strings.Trim(clip(x[j:e], 12), "{;:")
}
