package checks

import (
	"bytes"
	"fmt"
	"strings"
	"unicode/utf8"

	"google.golang.org/protobuf/encoding/protojson"
	"google.golang.org/protobuf/encoding/prototext"
	"google.golang.org/protobuf/proto"
	"google.golang.org/protobuf/reflect/protoreflect"
	"google.golang.org/protobuf/types/descriptorpb"
	"google.golang.org/protobuf/verif/core"
	"google.golang.org/protobuf/verif/gen"
)

func init() {
	core.Register(&core.Check{
		ID:     "C13",
		Rule:   "cases: every string position (singular, optional, repeated element, oneof member, map key, map value, extension) and every bytes position of every corpus message type, generated (fast path) and dynamicpb (reflection path), x a UTF-8 corpus (ASCII, 2/3/4-byte boundary runes, U+D7FF, U+E000, U+FFFD, U+FFFF, U+10FFFF, NUL; lone continuation, overlong 2/3/4-byte forms, CESU surrogates, > U+10FFFF, truncated sequences, 0xFE/0xFF) plus PRNG strings; each value is set through reflection and marshalled (binary, protojson, prototext), and spliced into otherwise valid binary, text and JSON input that is then unmarshalled; distinct = distinct (field, position, byte string, codec direction); non-trivial = non-ASCII byte string",
		Assume: []string{"unicode/utf8.Valid", "enforced(fd): proto3, or editions with features.utf8_validation resolved by an independent walk over field/message/file options (default VERIFY), proto2 never"},
		Batches: func(tier string) []core.Batch {
			return stdBatches([]string{"base"}, 16)
		},
		Gates: func(tier string) map[string]int64 {
			return map[string]int64{"positions": 800, "enforced_invalid": 1500, "enforced_valid": 800, "unenforced_invalid": 5000, "bytes_invalid": 1500,
				"pos_map-key": 40, "pos_map-value": 20, "pos_repeated": 100, "pos_oneof": 40, "pos_extension": 20, "pos_singular": 400, "editions_fields": 50, "editions_unverified_fields": 1, "dynamic_cases": 5000, "rejected_inputs": 10000, "passed_through": 20000}
		},
		Run: runC13,
	})
}

var c13Valid = [][]byte{
	[]byte("a"), []byte("\x00"), []byte("\x7f"), []byte("\u0080"), []byte("\u07ff"), []byte("\u0800"), []byte("\ud7ff"), []byte("\ue000"), []byte("\ufffd"), []byte("\uffff"),
	[]byte("\U00010000"), []byte("\U0010ffff"), []byte("x\u00e9y\u4e16\U0001F600z"),
}
var c13Invalid = [][]byte{
	{0x80}, {0xbf}, {'a', 0x80, 'b'}, {0xc0, 0x80}, {0xc1, 0xbf}, {0xe0, 0x80, 0x80}, {0xe0, 0x9f, 0xbf}, {0xf0, 0x80, 0x80, 0x80}, {0xf0, 0x8f, 0xbf, 0xbf},
	{0xed, 0xa0, 0x80}, {0xed, 0xbf, 0xbf}, {0xed, 0xa0, 0xbd, 0xed, 0xb8, 0x80}, {0xf4, 0x90, 0x80, 0x80}, {0xf5, 0x80, 0x80, 0x80}, {0xc2}, {0xe2, 0x82}, {0xf0, 0x9f, 0x98},
	{'o', 'k', 0xe2, 0x82}, {0xfe}, {0xff}, {0xf8, 0x88, 0x80, 0x80, 0x80},
}

// c13Enforced resolves the UTF-8 validation requirement independently of internal/strs.
func c13Enforced(fd protoreflect.FieldDescriptor) bool {
	switch fd.Syntax() {
	case protoreflect.Proto2:
		return false
	case protoreflect.Proto3:
		return true
	}
	get := func(fs *descriptorpb.FeatureSet) (descriptorpb.FeatureSet_Utf8Validation, bool) {
		if fs != nil && fs.Utf8Validation != nil {
			return fs.GetUtf8Validation(), true
		}
		return 0, false
	}
	if o, ok := fd.Options().(*descriptorpb.FieldOptions); ok && o != nil {
		if v, set := get(o.GetFeatures()); set {
			return v == descriptorpb.FeatureSet_VERIFY
		}
	}
	for p := fd.Parent(); p != nil; p = p.Parent() {
		switch d := p.(type) {
		case protoreflect.MessageDescriptor:
			if o, ok := d.Options().(*descriptorpb.MessageOptions); ok && o != nil {
				if v, set := get(o.GetFeatures()); set {
					return v == descriptorpb.FeatureSet_VERIFY
				}
			}
		case protoreflect.FileDescriptor:
			if o, ok := d.Options().(*descriptorpb.FileOptions); ok && o != nil {
				if v, set := get(o.GetFeatures()); set {
					return v == descriptorpb.FeatureSet_VERIFY
				}
			}
		}
	}
	return true // edition 2023 default
}

type c13Pos struct {
	fd   protoreflect.FieldDescriptor // the field of the message
	sfd  protoreflect.FieldDescriptor // the string/bytes descriptor (fd, map key or map value)
	kind string                       // singular, repeated, oneof, map-key, map-value, extension
}

func c13Positions(md protoreflect.MessageDescriptor) []c13Pos {
	var out []c13Pos
	isStr := func(fd protoreflect.FieldDescriptor) bool {
		return fd.Kind() == protoreflect.StringKind || fd.Kind() == protoreflect.BytesKind
	}
	add := func(fd protoreflect.FieldDescriptor, ext bool) {
		switch {
		case fd.IsMap():
			if isStr(fd.MapKey()) {
				out = append(out, c13Pos{fd, fd.MapKey(), "map-key"})
			}
			if isStr(fd.MapValue()) {
				out = append(out, c13Pos{fd, fd.MapValue(), "map-value"})
			}
		case !isStr(fd):
		case ext && !fd.IsList():
			out = append(out, c13Pos{fd, fd, "extension"})
		case fd.IsList():
			out = append(out, c13Pos{fd, fd, "repeated"})
		case fd.ContainingOneof() != nil && !fd.ContainingOneof().IsSynthetic():
			out = append(out, c13Pos{fd, fd, "oneof"})
		default:
			out = append(out, c13Pos{fd, fd, "singular"})
		}
	}
	for i := 0; i < md.Fields().Len(); i++ {
		add(md.Fields().Get(i), false)
	}
	if md.ExtensionRanges().Len() > 0 && !gen.IsMessageSet(md) {
		for _, xt := range gen.ExtensionsOf(nil2global(), md.FullName()) {
			add(xt.TypeDescriptor(), true)
		}
	}
	return out
}

func c13Val(sfd protoreflect.FieldDescriptor, s []byte) protoreflect.Value {
	if sfd.Kind() == protoreflect.BytesKind {
		return protoreflect.ValueOfBytes(append([]byte{}, s...))
	}
	return protoreflect.ValueOfString(string(s))
}

func c13Zero(fd protoreflect.FieldDescriptor, m protoreflect.Message, mapfd protoreflect.FieldDescriptor) protoreflect.Value {
	switch fd.Kind() {
	case protoreflect.MessageKind, protoreflect.GroupKind:
		return m.Mutable(mapfd).Map().NewValue()
	case protoreflect.StringKind:
		return protoreflect.ValueOfString("v")
	case protoreflect.BytesKind:
		return protoreflect.ValueOfBytes([]byte("v"))
	}
	return zeroOf(fd)
}

// c13Build puts s at the position in a fresh message.
func c13Build(m protoreflect.Message, p c13Pos, s []byte) {
	switch p.kind {
	case "map-key":
		mp := m.Mutable(p.fd).Map()
		mp.Set(c13Val(p.sfd, s).MapKey(), c13Zero(p.fd.MapValue(), m, p.fd))
	case "map-value":
		mp := m.Mutable(p.fd).Map()
		var k protoreflect.MapKey
		switch p.fd.MapKey().Kind() {
		case protoreflect.StringKind:
			k = protoreflect.ValueOfString("k").MapKey()
		case protoreflect.BoolKind:
			k = protoreflect.ValueOfBool(true).MapKey()
		default:
			k = zeroOf(p.fd.MapKey()).MapKey()
		}
		mp.Set(k, c13Val(p.sfd, s))
	case "repeated":
		l := m.Mutable(p.fd).List()
		l.Append(c13Val(p.sfd, []byte("first")))
		l.Append(c13Val(p.sfd, s))
	default:
		m.Set(p.fd, c13Val(p.sfd, s))
	}
}

// c13Read returns the bytes stored at the position (and whether found).
func c13Read(m protoreflect.Message, p c13Pos, s []byte) ([]byte, bool) {
	rd := func(v protoreflect.Value) []byte {
		if p.sfd.Kind() == protoreflect.BytesKind {
			return v.Bytes()
		}
		return []byte(v.String())
	}
	switch p.kind {
	case "map-key":
		var got []byte
		n := 0
		m.Get(p.fd).Map().Range(func(k protoreflect.MapKey, _ protoreflect.Value) bool {
			got = []byte(k.String())
			n++
			return true
		})
		return got, n == 1
	case "map-value":
		var got []byte
		n := 0
		m.Get(p.fd).Map().Range(func(_ protoreflect.MapKey, v protoreflect.Value) bool {
			got = rd(v)
			n++
			return true
		})
		return got, n == 1
	case "repeated":
		l := m.Get(p.fd).List()
		if l.Len() != 2 {
			return nil, false
		}
		return rd(l.Get(1)), true
	}
	if !m.Has(p.fd) {
		// implicit-presence field holding the empty string
		return rd(m.Get(p.fd)), len(s) == 0
	}
	return rd(m.Get(p.fd)), true
}

func runC13(c *core.Ctx, b core.Batch) {
	types := shard(codecTypes(b), b.N, 16)
	for ti, mt := range types {
		md := mt.Descriptor()
		name := string(md.FullName())
		for pi, p := range c13Positions(md) {
			c.Count("positions")
			c.Count("pos_" + p.kind)
			isBytes := p.sfd.Kind() == protoreflect.BytesKind
			enforced := !isBytes && c13Enforced(p.sfd)
			if md.ParentFile().Syntax() == protoreflect.Editions && !isBytes {
				c.Count("editions_fields")
				if !enforced {
					c.Count("editions_unverified_fields")
				}
			}
			r := c.Rng(uint64(ti)<<20 | uint64(pi))
			var pool [][]byte
			// a rotating subset of the corpus per position (all of it over the whole run) + PRNG strings
			for i, s := range c13Valid {
				if (i+pi+ti)%3 == 0 || !c.Quick() {
					pool = append(pool, s)
				}
			}
			for i, s := range c13Invalid {
				if (i+pi+ti)%3 == 0 || !c.Quick() {
					pool = append(pool, s)
				}
			}
			for i := 0; i < c.Scale(2, 12); i++ {
				pool = append(pool, c25RandString(r))
			}
			for _, s := range pool {
				for _, dyn := range []bool{false, true} {
					c13Case(c, mt, name, p, s, dyn, enforced, isBytes)
				}
			}
		}
	}
}

func c13Case(c *core.Ctx, mt protoreflect.MessageType, name string, p c13Pos, s []byte, dyn, enforced, isBytes bool) {
	valid := utf8.Valid(s)
	reject := enforced && !valid
	c.Eval()
	switch {
	case isBytes && !valid:
		c.Count("bytes_invalid")
	case enforced && !valid:
		c.Count("enforced_invalid")
	case enforced:
		c.Count("enforced_valid")
	case !valid:
		c.Count("unenforced_invalid")
	}
	if dyn {
		c.Count("dynamic_cases")
	}
	fn := string(p.fd.FullName())
	if len(s) > 0 && (s[0] >= 0x80 || len(s) > 1) {
		c.DistinctBytes([]byte(fn), []byte(p.kind), s, []byte{b2i(dyn)})
	}
	c.Log("C13 type=%s field=%s pos=%s dyn=%v bytes=%x", name, fn, p.kind, dyn, s)
	fpBase := fmt.Sprintf("%s:%s:dyn=%v", p.kind, fn, dyn)
	det := func(extra map[string]any) map[string]any {
		d := map[string]any{"type": name, "field": fn, "position": p.kind, "dynamic": dyn, "bytes": core.Hex(s), "valid_utf8": valid, "enforced": enforced}
		for k, v := range extra {
			d[k] = v
		}
		return d
	}
	m := newOf(mt, dyn)
	c13Build(m, p, s)

	// --- marshal side
	wire, err := proto.MarshalOptions{AllowPartial: true}.Marshal(m.Interface())
	if (err != nil) != reject {
		c.Violation(fmt.Sprintf("utf8:binary-marshal:want-reject=%v:%s", reject, fpBase), det(map[string]any{"err": errStr(err)}))
	}
	txt, terr := prototext.MarshalOptions{AllowPartial: true}.Marshal(m.Interface())
	if (terr != nil) != reject {
		c.Violation(fmt.Sprintf("utf8:prototext-marshal:want-reject=%v:%s", reject, fpBase), det(map[string]any{"err": errStr(terr)}))
	}
	_, jerr := protojson.MarshalOptions{AllowPartial: true}.Marshal(m.Interface())
	if reject && jerr == nil {
		c.Violation("utf8:protojson-marshal-accepts-invalid:"+fpBase, det(nil))
	}
	if !isBytes && valid && jerr != nil && !strings.HasPrefix(name, "google.protobuf.") {
		c.Violation("utf8:protojson-marshal-rejects-valid:"+fpBase, det(map[string]any{"err": errStr(jerr)}))
	}

	// --- unmarshal side: splice s into otherwise valid input built with a same-length placeholder
	ph := bytes.Repeat([]byte{'Q'}, len(s))
	if len(s) > 0 {
		mp := newOf(mt, dyn)
		c13Build(mp, p, ph)
		if pw, err := (proto.MarshalOptions{AllowPartial: true}).Marshal(mp.Interface()); err == nil && bytes.Count(pw, ph) == 1 {
			in := bytes.Replace(pw, ph, s, 1)
			m2 := newOf(mt, dyn)
			uerr := proto.UnmarshalOptions{AllowPartial: true}.Unmarshal(in, m2.Interface())
			if (uerr != nil) != reject {
				c.Violation(fmt.Sprintf("utf8:binary-unmarshal:want-reject=%v:%s", reject, fpBase), det(map[string]any{"err": errStr(uerr), "wire": core.Hex(in)}))
			} else if reject {
				c.Count("rejected_inputs")
			} else if got, ok := c13Read(m2, p, s); !ok || !bytes.Equal(got, s) {
				c.Violation("utf8:binary-unmarshal-changes-bytes:"+fpBase, det(map[string]any{"got": core.Hex(got), "wire": core.Hex(in)}))
			} else {
				c.Count("passed_through")
			}
		}
		// text input: the placeholder literal "QQQ" replaced by the escaped literal of s
		if pt, err := (prototext.MarshalOptions{AllowPartial: true}).Marshal(mp.Interface()); err == nil {
			lit := append(append([]byte{'"'}, ph...), '"')
			if bytes.Count(pt, lit) == 1 {
				var esc []byte
				esc = append(esc, '"')
				for _, ch := range s {
					esc = append(esc, fmt.Sprintf("\\x%02x", ch)...)
				}
				esc = append(esc, '"')
				for vi, variant := range [][]byte{esc, append(append([]byte{'"'}, s...), '"')} {
					if vi == 1 && (!valid || bytes.ContainsAny(s, "\"\\\n\x00\r")) {
						continue // raw form only where the bytes need no escaping; the text grammar itself requires raw literal bytes to be valid UTF-8
					}
					in := bytes.Replace(pt, lit, variant, 1)
					m2 := newOf(mt, dyn)
					uerr := prototext.UnmarshalOptions{AllowPartial: true}.Unmarshal(in, m2.Interface())
					// raw control characters inside a literal may be rejected by the grammar itself
					if vi == 1 && uerr != nil && !reject && !isPrintableOrHigh(s) {
						continue
					}
					if (uerr != nil) != reject {
						c.Violation(fmt.Sprintf("utf8:prototext-unmarshal:want-reject=%v:%s", reject, fpBase), det(map[string]any{"err": errStr(uerr), "text": string(in), "raw_literal": vi == 1}))
					} else if reject {
						c.Count("rejected_inputs")
					} else if got, ok := c13Read(m2, p, s); !ok || !bytes.Equal(got, s) {
						c.Violation("utf8:prototext-unmarshal-changes-bytes:"+fpBase, det(map[string]any{"got": core.Hex(got), "text": string(in)}))
					} else {
						c.Count("passed_through")
					}
				}
			}
		}
		// JSON input (strings only): raw bytes inside the JSON string; invalid UTF-8 is never valid JSON
		if !isBytes && !strings.HasPrefix(name, "google.protobuf.") && !bytes.ContainsAny(s, "\"\\") && isPrintableOrHigh(s) {
			if pj, err := (protojson.MarshalOptions{AllowPartial: true}).Marshal(mp.Interface()); err == nil {
				lit := append(append([]byte{'"'}, ph...), '"')
				if bytes.Count(pj, lit) == 1 {
					in := bytes.Replace(pj, lit, append(append([]byte{'"'}, s...), '"'), 1)
					m2 := newOf(mt, dyn)
					uerr := protojson.UnmarshalOptions{AllowPartial: true}.Unmarshal(in, m2.Interface())
					if (uerr != nil) != !valid {
						c.Violation(fmt.Sprintf("utf8:protojson-unmarshal:want-reject=%v:%s", !valid, fpBase), det(map[string]any{"err": errStr(uerr), "json": string(in)}))
					} else if !valid {
						c.Count("rejected_inputs")
					} else if got, ok := c13Read(m2, p, s); !ok || !bytes.Equal(got, s) {
						c.Violation("utf8:protojson-unmarshal-changes-bytes:"+fpBase, det(map[string]any{"got": core.Hex(got), "json": string(in)}))
					}
				}
			}
		}
	}
	// --- accepted values round-trip unchanged through binary and text
	if !reject && err == nil {
		m2 := newOf(mt, dyn)
		if uerr := (proto.UnmarshalOptions{AllowPartial: true}).Unmarshal(wire, m2.Interface()); uerr != nil {
			c.Violation("utf8:binary-roundtrip-error:"+fpBase, det(map[string]any{"err": errStr(uerr)}))
		} else if got, ok := c13Read(m2, p, s); !ok || !bytes.Equal(got, s) {
			c.Violation("utf8:binary-roundtrip-changes-bytes:"+fpBase, det(map[string]any{"got": core.Hex(got)}))
		}
		if terr == nil {
			m3 := newOf(mt, dyn)
			if uerr := (prototext.UnmarshalOptions{AllowPartial: true}).Unmarshal(txt, m3.Interface()); uerr != nil {
				c.Violation("utf8:prototext-roundtrip-error:"+fpBase, det(map[string]any{"err": errStr(uerr), "text": string(txt)}))
			} else if got, ok := c13Read(m3, p, s); !ok || !bytes.Equal(got, s) {
				c.Violation("utf8:prototext-roundtrip-changes-bytes:"+fpBase, det(map[string]any{"got": core.Hex(got), "text": string(txt)}))
			}
		}
	}
	if c.WantSample() && reject && p.kind != "singular" {
		c.Sample(det(map[string]any{"binary_marshal_err": errStr(err), "expected": "rejected by every codec in both directions"}))
	}
}

func isPrintableOrHigh(s []byte) bool {
	for _, ch := range s {
		if ch < 0x20 || ch == 0x7f {
			return false
		}
	}
	return true
}

func b2i(b bool) byte {
	if b {
		return 1
	}
	return 0
}
