package checks

import (
	"fmt"
	"reflect"
	"strings"

	"google.golang.org/protobuf/encoding/protojson"
	"google.golang.org/protobuf/encoding/prototext"
	"google.golang.org/protobuf/proto"
	"google.golang.org/protobuf/reflect/protoreflect"
	"google.golang.org/protobuf/verif/core"
	"google.golang.org/protobuf/verif/gen"
)

func init() {
	core.Register(&core.Check{
		ID:         "C31",
		Rule:       "cases: every generated message type linked into the harness (the whole corpus, all API flavours and build configurations base/protoreflect/protolegacy) x every read-only entry point on its typed nil pointer: proto.Marshal/MarshalAppend/Size/Clone/Equal/CheckInitialized, protojson and prototext Marshal/Format, reflection IsValid/Has/Get/Range/WhichOneof/GetUnknown per field and oneof (and per registered extension), and every generated zero-argument Get*/Has* method called through package reflect; each result is compared with the result on mt.New(); distinct = distinct (type, entry point) pairs; non-trivial = the type has at least one field",
		Assume:     []string{"reflect.DeepEqual on getter results", "the corpus contains every generated type linked into the harness binary (gen.AllTypes ranges protoregistry.GlobalTypes)"},
		Exhaustive: func(tier string) bool { return false },
		Batches: func(tier string) []core.Batch {
			bs := stdBatches([]string{"base"}, 8)
			bs = append(bs, stdBatches([]string{"refl"}, 4)...)
			return append(bs, stdBatches([]string{"legacy"}, 4)...)
		},
		Gates: func(tier string) map[string]int64 {
			return map[string]int64{"types": 1000, "getters": 10000, "has_methods": 500, "fields": 10000, "oneofs": 100, "extensions": 100, "with_required": 10}
		},
		Run: runC31,
	})
}

func stripSpace(b []byte) string {
	return strings.Map(func(r rune) rune {
		if r == ' ' || r == '\n' || r == '\t' {
			return -1
		}
		return r
	}, string(b))
}

func runC31(c *core.Ctx, b core.Batch) {
	nb := 8
	if b.Cfg != "base" {
		nb = 4
	}
	var all []protoreflect.MessageType
	for _, mt := range gen.AllTypes() {
		md := mt.Descriptor()
		if md.IsMapEntry() || gen.InvolvesIrregular(md) {
			continue
		}
		all = append(all, mt)
	}
	for _, mt := range shard(all, b.N, nb) {
		md := mt.Descriptor()
		name := string(md.FullName())
		zero := mt.Zero().Interface()
		rv := reflect.ValueOf(zero)
		if rv.Kind() != reflect.Ptr || !rv.IsNil() {
			c.Count("not_pointer_types") // dynamic or hand-written types: not generated pointer messages
			continue
		}
		nilMsg := reflect.Zero(rv.Type()).Interface().(proto.Message)
		empty := mt.New().Interface()
		c.Count("types")
		hasReq := md.RequiredNumbers().Len() > 0
		if hasReq {
			c.Count("with_required")
		}
		ep := func(what string, f func()) bool {
			c.Eval()
			if md.Fields().Len() > 0 {
				c.DistinctStr(name + "/" + what)
			}
			c.Log("C31 type=%s entry=%s cfg=%s", name, what, b.Cfg)
			return c.NoPanic("nil:panic:"+what+":"+name, map[string]any{"type": name, "entry": what}, f)
		}
		bad := func(what string, det map[string]any) {
			if det == nil {
				det = map[string]any{}
			}
			det["type"] = name
			c.Violation("nil:"+what+":"+name, det)
		}

		// proto package
		ep("Size", func() {
			if n := proto.Size(nilMsg); n != 0 {
				bad("Size-nonzero", map[string]any{"size": n})
			}
		})
		ep("Marshal", func() {
			// errors that do not depend on content (MessageSet without protolegacy) must be the same as on the empty message
			_, eerr := proto.MarshalOptions{AllowPartial: true}.Marshal(empty)
			out, err := proto.MarshalOptions{AllowPartial: true}.Marshal(nilMsg)
			if (err == nil) != (eerr == nil) || len(out) != 0 {
				bad("Marshal", map[string]any{"err": errStr(err), "err_empty": errStr(eerr), "out": core.Hex(out)})
			}
			out, err = proto.MarshalOptions{AllowPartial: true, Deterministic: true}.MarshalAppend([]byte("pre"), nilMsg)
			if (err == nil) != (eerr == nil) || (err == nil && string(out) != "pre") {
				bad("MarshalAppend", map[string]any{"err": errStr(err), "out": core.Hex(out)})
			}
			if !hasReq {
				if _, err := proto.Marshal(nilMsg); (err == nil) != (eerr == nil) {
					bad("Marshal-error-without-required-fields", map[string]any{"err": errStr(err)})
				}
			} else {
				_, e1 := proto.Marshal(nilMsg)
				_, e2 := proto.Marshal(empty)
				if (e1 == nil) != (e2 == nil) {
					bad("Marshal-error-differs-from-empty", map[string]any{"err": errStr(e1), "err_empty": errStr(e2)})
				}
			}
		})
		ep("CheckInitialized", func() {
			err := proto.CheckInitialized(nilMsg)
			if !hasReq && err != nil {
				bad("CheckInitialized-error-without-required-fields", map[string]any{"err": errStr(err)})
			}
			if eerr := proto.CheckInitialized(empty); (eerr == nil) != (err == nil) {
				bad("CheckInitialized-differs-from-empty", map[string]any{"err": errStr(err), "err_empty": errStr(eerr)})
			}
		})
		ep("Clone", func() {
			cl := proto.Clone(nilMsg)
			if cl == nil || proto.Size(cl) != 0 || cl.ProtoReflect().Descriptor() != md {
				bad("Clone", nil)
			}
		})
		ep("Equal", func() {
			if !proto.Equal(nilMsg, nilMsg) {
				bad("Equal-not-reflexive", nil)
			}
			if proto.Equal(nilMsg, empty) || proto.Equal(empty, nilMsg) {
				bad("Equal-nil-equals-valid-empty", nil)
			}
		})
		// text codecs: no panic; when both succeed the output is that of the empty message
		ep("protojson", func() {
			o1, e1 := protojson.MarshalOptions{AllowPartial: true}.Marshal(nilMsg)
			o2, e2 := protojson.MarshalOptions{AllowPartial: true}.Marshal(empty)
			if e1 == nil && e2 == nil && stripSpace(o1) != stripSpace(o2) {
				bad("protojson-differs-from-empty", map[string]any{"nil": string(o1), "empty": string(o2)})
			}
			if (e1 == nil) != (e2 == nil) {
				bad("protojson-error-differs-from-empty", map[string]any{"err": errStr(e1), "err_empty": errStr(e2)})
			}
			_ = protojson.Format(nilMsg)
		})
		ep("prototext", func() {
			o1, e1 := prototext.MarshalOptions{AllowPartial: true}.Marshal(nilMsg)
			o2, e2 := prototext.MarshalOptions{AllowPartial: true}.Marshal(empty)
			if (e1 == nil) != (e2 == nil) || (e1 == nil && stripSpace(o1) != stripSpace(o2)) {
				bad("prototext-differs-from-empty", map[string]any{"nil": string(o1), "empty": string(o2), "err_nil": errStr(e1), "err_empty": errStr(e2)})
			}
			_ = prototext.Format(nilMsg)
			_ = prototext.MarshalOptions{Multiline: true, EmitUnknown: true}.Format(nilMsg)
		})

		// reflection
		var rm protoreflect.Message
		if !ep("ProtoReflect", func() { rm = nilMsg.ProtoReflect() }) {
			continue
		}
		em := empty.ProtoReflect()
		ep("IsValid", func() {
			if rm.IsValid() {
				bad("IsValid-true", nil)
			}
			if rm.Descriptor() != md || rm.Type().Descriptor() != md {
				bad("Descriptor", nil)
			}
			if !em.IsValid() {
				bad("empty-IsValid-false", nil)
			}
		})
		ep("Range", func() {
			n := 0
			rm.Range(func(protoreflect.FieldDescriptor, protoreflect.Value) bool { n++; return true })
			if n != 0 {
				bad("Range-visits", map[string]any{"n": n})
			}
		})
		ep("GetUnknown", func() {
			if len(rm.GetUnknown()) != 0 {
				bad("GetUnknown-nonempty", nil)
			}
		})
		fds := md.Fields()
		for i := 0; i < fds.Len(); i++ {
			fd := fds.Get(i)
			c.Count("fields")
			c31Field(c, ep, bad, rm, em, fd)
		}
		for i := 0; i < md.Oneofs().Len(); i++ {
			od := md.Oneofs().Get(i)
			c.Count("oneofs")
			ep("WhichOneof:"+string(od.Name()), func() {
				if fd := rm.WhichOneof(od); fd != nil {
					bad("WhichOneof-non-nil:"+string(od.Name()), nil)
				}
			})
		}
		for _, xt := range gen.ExtensionsOf(nil2global(), md.FullName()) {
			c.Count("extensions")
			c31Field(c, ep, bad, rm, em, xt.TypeDescriptor())
		}

		// generated methods through package reflect
		ev := reflect.ValueOf(empty)
		nv := reflect.ValueOf(nilMsg)
		t := nv.Type()
		for i := 0; i < t.NumMethod(); i++ {
			mth := t.Method(i)
			isGet, isHas := strings.HasPrefix(mth.Name, "Get"), strings.HasPrefix(mth.Name, "Has")
			if !(isGet || isHas) || mth.Type.NumIn() != 1 || mth.Type.NumOut() != 1 {
				continue
			}
			if isGet {
				c.Count("getters")
			} else {
				c.Count("has_methods")
			}
			ep("method:"+mth.Name, func() {
				r1 := nv.Method(i).Call(nil)[0].Interface()
				r2 := ev.Method(i).Call(nil)[0].Interface()
				if !reflect.DeepEqual(r1, r2) {
					bad("getter-differs-from-empty:"+mth.Name, map[string]any{"nil": fmt.Sprint(r1), "empty": fmt.Sprint(r2)})
				}
			})
		}
		if c.WantSample() && fds.Len() > 3 && md.Oneofs().Len() > 0 {
			c.Sample(map[string]any{"type": name, "go_type": t.String(), "fields": fds.Len(), "oneofs": md.Oneofs().Len(), "methods": t.NumMethod(), "cfg": b.Cfg})
		}
	}
}

func c31Field(c *core.Ctx, ep func(string, func()) bool, bad func(string, map[string]any), rm, em protoreflect.Message, fd protoreflect.FieldDescriptor) {
	fn := string(fd.FullName())
	if !fd.IsExtension() {
		fn = string(fd.Name())
	}
	ep("Has:"+fn, func() {
		if rm.Has(fd) {
			bad("Has-true:"+fn, nil)
		}
	})
	ep("Get:"+fn, func() {
		v := rm.Get(fd)
		w := em.Get(fd)
		switch {
		case fd.IsList():
			if v.List().Len() != 0 || v.List().IsValid() {
				bad("Get-list-not-empty-readonly:"+fn, nil)
			}
		case fd.IsMap():
			if v.Map().Len() != 0 || v.Map().IsValid() {
				bad("Get-map-not-empty-readonly:"+fn, nil)
			}
		case fd.Message() != nil:
			if v.Message().IsValid() {
				bad("Get-message-valid:"+fn, nil)
			}
			if v.Message().Descriptor() != fd.Message() {
				bad("Get-message-descriptor:"+fn, nil)
			}
		case fd.Kind() == protoreflect.BytesKind:
			if string(v.Bytes()) != string(w.Bytes()) {
				bad("Get-default-differs:"+fn, nil)
			}
		default:
			if !v.Equal(w) {
				bad("Get-default-differs:"+fn, map[string]any{"nil": fmt.Sprint(v.Interface()), "empty": fmt.Sprint(w.Interface())})
			}
		}
	})
}
