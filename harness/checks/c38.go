package checks

import (
	"fmt"
	"regexp"
	"sort"
	"strings"

	"google.golang.org/protobuf/encoding/protojson"
	"google.golang.org/protobuf/encoding/prototext"
	"google.golang.org/protobuf/internal/editiondefaults"
	"google.golang.org/protobuf/proto"
	"google.golang.org/protobuf/reflect/protoreflect"
	"google.golang.org/protobuf/types/descriptorpb"
	"google.golang.org/protobuf/verif/core"
	"google.golang.org/protobuf/verif/gen"
	"google.golang.org/protobuf/verif/model"
)

func init() {
	core.Register(&core.Check{
		ID:     "C38",
		Rule:   "cases: (a) PRNG-generated editions/proto2/proto3 schemas with feature overrides at file, message, field, enum and oneof level (strict targets, and lax: field-level features placed on messages), built by both constructions: HasPresence, Cardinality, IsPacked, Kind (DELIMITED => group except maps), IsClosed, EnforceUTF8 of every field/extension/enum vs a reference resolver (edition defaults from the language specification table, nearest override along file-message-field); the embedded FeatureSetDefaults are compared with that table; (b) every pair of linked message types (one from a proto2/proto3 file, one from an editions file) with identical field shape: for structure-aware valid and mutated wire inputs both decode with the same verdict, re-marshal to the same deterministic bytes and print the same JSON and text modulo type names; distinct = distinct (schema file) or (pair, input); non-trivial = file with at least one field / input of at least one byte",
		Assume: []string{"harness/model/featref.go: edition default table (protobuf editions specification) and nearest-override inheritance", "descriptor accessors as the way to read resolved features"},
		Batches: func(tier string) []core.Batch {
			var bs []core.Batch
			for i := 0; i < 8; i++ {
				bs = append(bs, core.Batch{Cfg: "base", Name: fmt.Sprintf("feat-%d", i), Kind: "feat", N: i})
			}
			for i := 0; i < 8; i++ {
				bs = append(bs, core.Batch{Cfg: "base", Name: fmt.Sprintf("twins-%d", i), Kind: "twins", N: i})
			}
			return bs
		},
		Gates: func(tier string) map[string]int64 {
			return map[string]int64{"feat_files": 500, "feat_fields": 5000, "feat_enums": 500, "feat_field_override": 300, "feat_enum_override": 50, "feat_file_override": 100, "feat_message_override": 50, "feat_delimited": 50, "feat_legacy_required": 50, "feat_implicit": 300, "feat_lax_schemas": 30,
				"defaults_checked": 4, "twin_pairs": 2, "twin_inputs": 1000, "twin_accepted": 500, "twin_rejected": 100}
		},
		Run: runC38,
	})
}

func runC38(c *core.Ctx, b core.Batch) {
	if b.Kind == "twins" {
		c38Twins(c, b)
		return
	}
	if b.N == 0 {
		c38EmbeddedDefaults(c)
	}
	n := c.Scale(120, 2500)
	for i := 0; i < n; i++ {
		r := c.Rng(uint64(i))
		o := gen.SchemaOpts{Prefix: fmt.Sprintf("c38.b%d.s%d", b.N, i), Features: true, LaxTargets: i%4 == 0}
		if i%3 == 0 {
			o.Syntax = 2023
		}
		s := gen.GenSchema(r, o)
		c.Log("C38 feat %s", o.Prefix)
		bfds, pfds, ok := buildBoth(c, s, "feat")
		if !ok {
			continue
		}
		if o.LaxTargets {
			c.Count("feat_lax_schemas")
		}
		for fi, p := range s.Files {
			c.Eval()
			c.Count("feat_files")
			pb, _ := proto.MarshalOptions{Deterministic: true}.Marshal(p)
			c.DistinctBytes(pb)
			c38Census(c, p)
			fields, enums := model.ResolveFile(p)
			for ci, fd := range []protoreflect.FileDescriptor{bfds[fi], pfds[fi]} {
				origin := []string{"builder", "protodesc"}[ci]
				for _, fe := range fields {
					d, err := fallbackResolverFor(fd).find(protoreflect.FullName(fe.FullName))
					f, isField := d.(protoreflect.FieldDescriptor)
					if err != nil || !isField {
						c.Violation("feat:field-not-found:"+origin, map[string]any{"field": fe.FullName})
						continue
					}
					c.Count("feat_fields")
					bad := func(what string, got, want any) {
						c.Violation(fmt.Sprintf("feat:%s:%s:%s", what, origin, c38FieldClass(f)), map[string]any{"field": fe.FullName, "got": got, "want": want, "lax_targets": o.LaxTargets, "proto_text": clip(p.String(), 4000)})
					}
					if f.HasPresence() != fe.HasPresence {
						bad("has-presence", f.HasPresence(), fe.HasPresence)
					}
					if (f.Cardinality() == protoreflect.Required) != fe.Required {
						bad("required", f.Cardinality().String(), fe.Required)
					}
					if f.IsPacked() != fe.Packed {
						bad("packed", f.IsPacked(), fe.Packed)
					}
					if (f.Kind() == protoreflect.GroupKind) != fe.Group {
						bad("group-kind", f.Kind().String(), fe.Group)
					}
					if x, ok := f.(interface{ EnforceUTF8() bool }); ok && fe.IsString && x.EnforceUTF8() != fe.EnforceUTF8 {
						bad("enforce-utf8", x.EnforceUTF8(), fe.EnforceUTF8)
					}
				}
				for _, ee := range enums {
					d, err := fallbackResolverFor(fd).find(protoreflect.FullName(ee.FullName))
					e, isEnum := d.(protoreflect.EnumDescriptor)
					if err != nil || !isEnum {
						c.Violation("feat:enum-not-found:"+origin, map[string]any{"enum": ee.FullName})
						continue
					}
					c.Count("feat_enums")
					if e.IsClosed() != ee.Closed {
						c.Violation("feat:enum-closed:"+origin, map[string]any{"enum": ee.FullName, "got": e.IsClosed(), "want": ee.Closed, "proto_text": clip(p.String(), 4000)})
					}
				}
			}
			if c.WantSample() && p.GetSyntax() == "editions" && p.GetOptions().GetFeatures() != nil && len(fields) > 4 {
				c.Sample(map[string]any{"file": p.GetName(), "file_features": p.GetOptions().GetFeatures().String(), "fields_checked": len(fields), "enums_checked": len(enums), "example": fmt.Sprintf("%+v", fields[0])})
			}
		}
	}
}

type fileFinder struct{ fd protoreflect.FileDescriptor }

func fallbackResolverFor(fd protoreflect.FileDescriptor) fileFinder { return fileFinder{fd} }

// find resolves a full name inside one file by walking its declarations.
func (f fileFinder) find(name protoreflect.FullName) (protoreflect.Descriptor, error) {
	var found protoreflect.Descriptor
	var walkM func(ms protoreflect.MessageDescriptors)
	checkF := func(fs interface {
		Len() int
		Get(int) protoreflect.FieldDescriptor
	}) {
		for i := 0; i < fs.Len(); i++ {
			if fs.Get(i).FullName() == name {
				found = fs.Get(i)
			}
		}
	}
	checkE := func(es protoreflect.EnumDescriptors) {
		for i := 0; i < es.Len(); i++ {
			if es.Get(i).FullName() == name {
				found = es.Get(i)
			}
		}
	}
	walkM = func(ms protoreflect.MessageDescriptors) {
		for i := 0; i < ms.Len() && found == nil; i++ {
			m := ms.Get(i)
			if !strings.HasPrefix(string(name), string(m.FullName())+".") {
				continue
			}
			checkF(m.Fields())
			checkF(m.Extensions())
			checkE(m.Enums())
			walkM(m.Messages())
		}
	}
	checkE(f.fd.Enums())
	checkF(f.fd.Extensions())
	walkM(f.fd.Messages())
	if found == nil {
		return nil, fmt.Errorf("not found")
	}
	return found, nil
}

func c38FieldClass(f protoreflect.FieldDescriptor) string {
	s := f.Kind().String()
	switch {
	case f.IsExtension():
		s += "/extension"
	case f.IsMap():
		s += "/map"
	case f.IsList():
		s += "/repeated"
	case f.ContainingOneof() != nil:
		s += "/oneof"
	case f.ContainingMessage().IsMapEntry():
		s += "/map-entry-field"
	}
	return s
}

func c38Census(c *core.Ctx, p *descriptorpb.FileDescriptorProto) {
	if p.GetOptions().GetFeatures() != nil {
		c.Count("feat_file_override")
	}
	var walk func(ms []*descriptorpb.DescriptorProto)
	countF := func(f *descriptorpb.FieldDescriptorProto) {
		fs := f.GetOptions().GetFeatures()
		if fs == nil {
			return
		}
		c.Count("feat_field_override")
		if fs.GetMessageEncoding() == descriptorpb.FeatureSet_DELIMITED {
			c.Count("feat_delimited")
		}
		if fs.GetFieldPresence() == descriptorpb.FeatureSet_LEGACY_REQUIRED {
			c.Count("feat_legacy_required")
		}
		if fs.GetFieldPresence() == descriptorpb.FeatureSet_IMPLICIT {
			c.Count("feat_implicit")
		}
	}
	countE := func(es []*descriptorpb.EnumDescriptorProto) {
		for _, e := range es {
			if e.GetOptions().GetFeatures() != nil {
				c.Count("feat_enum_override")
			}
		}
	}
	walk = func(ms []*descriptorpb.DescriptorProto) {
		for _, m := range ms {
			if m.GetOptions().GetFeatures() != nil {
				c.Count("feat_message_override")
			}
			for _, f := range m.Field {
				countF(f)
			}
			countE(m.EnumType)
			walk(m.NestedType)
		}
	}
	if p.GetOptions().GetFeatures().GetFieldPresence() == descriptorpb.FeatureSet_IMPLICIT || p.GetSyntax() == "proto3" {
		c.Count("feat_implicit")
	}
	walk(p.MessageType)
	countE(p.EnumType)
}

// c38EmbeddedDefaults compares the embedded FeatureSetDefaults with the table.
func c38EmbeddedDefaults(c *core.Ctx) {
	var d descriptorpb.FeatureSetDefaults
	if err := proto.Unmarshal(editiondefaults.Defaults, &d); err != nil {
		c.Violation("defaults:embedded-do-not-decode", map[string]any{"err": errStr(err)})
		return
	}
	for _, ed := range []struct {
		syntax string
		e      descriptorpb.Edition
	}{{"proto2", descriptorpb.Edition_EDITION_PROTO2}, {"proto3", descriptorpb.Edition_EDITION_PROTO3}, {"editions", descriptorpb.Edition_EDITION_2023}, {"editions", descriptorpb.Edition_EDITION_2024}} {
		var pick *descriptorpb.FeatureSetDefaults_FeatureSetEditionDefault
		for _, x := range d.GetDefaults() {
			if x.GetEdition() <= ed.e && (pick == nil || x.GetEdition() > pick.GetEdition()) {
				pick = x
			}
		}
		c.Eval()
		c.Count("defaults_checked")
		if pick == nil {
			c.Violation("defaults:no-entry-for:"+ed.e.String(), nil)
			continue
		}
		fs := proto.Clone(pick.GetFixedFeatures()).(*descriptorpb.FeatureSet)
		if fs == nil {
			fs = &descriptorpb.FeatureSet{}
		}
		proto.Merge(fs, pick.GetOverridableFeatures())
		got := model.Feat{}.Override(fs)
		want := model.EditionDefaults(ed.syntax, ed.e)
		if got != want {
			c.Violation("defaults:embedded-differ-from-specification:"+ed.e.String(), map[string]any{"embedded": got.String(), "specification": want.String()})
		}
	}
}

// shapeOf: the field shape of a message (numbers, names, kinds modulo
// group/message, cardinality modulo required, list/map, target base names).
func shapeOf(md protoreflect.MessageDescriptor) string {
	var parts []string
	for i := 0; i < md.Fields().Len(); i++ {
		f := md.Fields().Get(i)
		k := f.Kind().String()
		t := ""
		if f.Message() != nil {
			k = "message"
			t = string(f.Message().Name())
		}
		if f.Enum() != nil {
			t = string(f.Enum().Name())
		}
		parts = append(parts, fmt.Sprintf("%d:%s:%s:%v:%v:%s:%v", f.Number(), f.Name(), k, f.IsList(), f.IsMap(), t, f.ContainingOneof() != nil && !f.ContainingOneof().IsSynthetic()))
	}
	sort.Strings(parts)
	return strings.Join(parts, ";")
}

type twinPair struct{ a, b protoreflect.MessageType }

func c38Pairs() []twinPair {
	byShape := map[string][]protoreflect.MessageType{}
	for _, mt := range gen.AllTypes() {
		md := mt.Descriptor()
		if md.Fields().Len() < 8 || md.IsMapEntry() || gen.InvolvesMessageSet(md) || gen.InvolvesIrregular(md) || md.ParentFile() == nil {
			continue
		}
		byShape[shapeOf(md)] = append(byShape[shapeOf(md)], mt)
	}
	var out []twinPair
	var keys []string
	for k := range byShape {
		keys = append(keys, k)
	}
	sort.Strings(keys)
	for _, k := range keys {
		ts := byShape[k]
		for _, a := range ts {
			for _, b := range ts {
				sa, sb := a.Descriptor().ParentFile().Syntax(), b.Descriptor().ParentFile().Syntax()
				if sa != protoreflect.Editions && sb == protoreflect.Editions && flavour(a.Descriptor()) == flavour(b.Descriptor()) {
					// semantics must be meant to agree: same presence / packedness / closedness on every field
					if sameSemantics(a.Descriptor(), b.Descriptor()) {
						out = append(out, twinPair{a, b})
					}
				}
			}
		}
	}
	return out
}

func sameSemantics(a, b protoreflect.MessageDescriptor) bool {
	for i := 0; i < a.Fields().Len(); i++ {
		fa := a.Fields().Get(i)
		fb := b.Fields().ByNumber(fa.Number())
		if fb == nil || fa.HasPresence() != fb.HasPresence() || fa.IsPacked() != fb.IsPacked() || fa.Kind() != fb.Kind() || fa.Cardinality() != fb.Cardinality() {
			return false
		}
		if fa.Enum() != nil && fa.Enum().IsClosed() != fb.Enum().IsClosed() {
			return false
		}
		ua, ok1 := fa.(interface{ EnforceUTF8() bool })
		ub, ok2 := fb.(interface{ EnforceUTF8() bool })
		if ok1 && ok2 && ua.EnforceUTF8() != ub.EnforceUTF8() {
			return false
		}
	}
	return true
}

var reTypeNames = regexp.MustCompile(`type\.googleapis\.com/[A-Za-z0-9_.]+|\[[A-Za-z0-9_.]+\]`)

func c38Twins(c *core.Ctx, b core.Batch) {
	pairs := c38Pairs()
	for pi, p := range pairs {
		if pi%8 != b.N {
			continue
		}
		c.Count("twin_pairs")
		na, nb := string(p.a.Descriptor().FullName()), string(p.b.Descriptor().FullName())
		per := c.Scale(600, 12000)
		for k := 0; k < per; k++ {
			r := c.Rng(uint64(pi)<<24 | uint64(k))
			src := p.a
			if k%2 == 1 {
				src = p.b
			}
			in := gen.ValidWire(r, src, gen.MsgOpts{Unknown: true, AnyUTF8: true, NoRequired: k%3 == 0}, k%6, func(string) {})
			switch k % 4 {
			case 1:
				in = gen.Mutate(r, in, func(string) {})
			case 2:
				in = gen.ConfuseWire(r, in, src.Descriptor(), func(string) {})
			}
			c.Eval()
			c.Count("twin_inputs")
			c.DistinctBytes([]byte(na), in)
			c.Log("C38 twins %s %s wire=%s", na, nb, core.Hex(in))
			ma, mb := p.a.New(), p.b.New()
			var ea, eb error
			if !c.NoPanic("twins:panic:"+na, map[string]any{"wire": core.Hex(in)}, func() {
				ea = proto.UnmarshalOptions{AllowPartial: k%5 == 0}.Unmarshal(in, ma.Interface())
				eb = proto.UnmarshalOptions{AllowPartial: k%5 == 0}.Unmarshal(in, mb.Interface())
			}) {
				continue
			}
			if (ea == nil) != (eb == nil) {
				c.Violation("twins:verdict-differs:"+na, map[string]any{"wire": core.Hex(in), "a": na, "b": nb, "err_a": errStr(ea), "err_b": errStr(eb)})
				continue
			}
			if ea != nil {
				c.Count("twin_rejected")
				continue
			}
			c.Count("twin_accepted")
			ba, e1 := proto.MarshalOptions{Deterministic: true, AllowPartial: true}.Marshal(ma.Interface())
			bb, e2 := proto.MarshalOptions{Deterministic: true, AllowPartial: true}.Marshal(mb.Interface())
			if (e1 == nil) != (e2 == nil) || string(ba) != string(bb) {
				c.Violation("twins:deterministic-bytes-differ:"+na, map[string]any{"wire": core.Hex(in), "a": na, "b": nb, "bytes_a": core.Hex(ba), "bytes_b": core.Hex(bb)})
				continue
			}
			if proto.Size(ma.Interface()) != proto.Size(mb.Interface()) {
				c.Violation("twins:size-differs:"+na, map[string]any{"wire": core.Hex(in)})
			}
			ja, e1 := protojson.MarshalOptions{AllowPartial: true}.Marshal(ma.Interface())
			jb, e2 := protojson.MarshalOptions{AllowPartial: true}.Marshal(mb.Interface())
			if (e1 == nil) != (e2 == nil) {
				c.Violation("twins:json-verdict-differs:"+na, map[string]any{"wire": core.Hex(in), "err_a": errStr(e1), "err_b": errStr(e2)})
			} else if e1 == nil {
				va, _ := jsonParse(reTypeNames.ReplaceAll(ja, []byte("T")))
				vb, _ := jsonParse(reTypeNames.ReplaceAll(jb, []byte("T")))
				if fmt.Sprint(va) != fmt.Sprint(vb) {
					c.Violation("twins:json-differs:"+na, map[string]any{"wire": core.Hex(in), "json_a": clip(string(ja), 1500), "json_b": clip(string(jb), 1500)})
				}
			}
			ta, e1 := prototext.MarshalOptions{AllowPartial: true}.Marshal(ma.Interface())
			tb, e2 := prototext.MarshalOptions{AllowPartial: true}.Marshal(mb.Interface())
			if (e1 == nil) != (e2 == nil) {
				c.Violation("twins:text-verdict-differs:"+na, map[string]any{"wire": core.Hex(in), "err_a": errStr(e1), "err_b": errStr(e2)})
			} else if e1 == nil {
				norm := func(x []byte) string {
					return strings.Join(strings.Fields(string(reTypeNames.ReplaceAll(x, []byte("T")))), " ")
				}
				if norm(ta) != norm(tb) {
					c.Violation("twins:text-differs:"+na, map[string]any{"wire": core.Hex(in), "text_a": clip(string(ta), 1500), "text_b": clip(string(tb), 1500)})
				}
			}
			if c.WantSample() && len(in) > 20 {
				c.Sample(map[string]any{"pair": []string{na, nb}, "wire": core.Hex(in), "same_bytes": true, "same_json_text": true})
			}
		}
	}
}
