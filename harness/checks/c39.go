package checks

import (
	"bytes"
	"fmt"
	"math"

	"google.golang.org/protobuf/internal/encoding/defval"
	"google.golang.org/protobuf/proto"
	"google.golang.org/protobuf/reflect/protodesc"
	"google.golang.org/protobuf/reflect/protoreflect"
	"google.golang.org/protobuf/reflect/protoregistry"
	"google.golang.org/protobuf/types/descriptorpb"
	"google.golang.org/protobuf/verif/core"
	"google.golang.org/protobuf/verif/gen"
)

func init() {
	core.Register(&core.Check{
		ID:         "C39",
		Rule:       "cases: (value, kind, format) for both default-value formats (Descriptor, GoTag): float32 bit patterns (2^20-stride sample + neighbourhoods of every exponent boundary and of PRNG patterns in quick, all 2^32 in thorough), doubles (PRNG bit patterns, boundaries), every integer kind at boundaries and PRNG values, all byte strings of length <= 2 plus PRNG bytes, strings, bools, every value of two enums; and field defaults carried through protodesc.NewFile -> ToFileDescriptorProto -> NewFile for files of 512 defaulted fields of every kind; oracle: parsed value identical to the original (floats bit for bit, all NaNs equal); distinct = distinct (kind, format, value); non-trivial = value is not the kind's zero",
		Assume:     []string{"math.Float32bits/Float64bits comparisons"},
		Exhaustive: func(tier string) bool { return false },
		Batches: func(tier string) []core.Batch {
			var bs []core.Batch
			for i := 0; i < 16; i++ {
				bs = append(bs, core.Batch{Cfg: "base", Name: fmt.Sprintf("f32-%02d", i), Kind: "f32", N: i})
			}
			bs = append(bs, core.Batch{Cfg: "base", Name: "scalars", Kind: "scalars"})
			for i := 0; i < 4; i++ {
				bs = append(bs, core.Batch{Cfg: "base", Name: fmt.Sprintf("desc-%d", i), Kind: "desc", N: i})
			}
			return bs
		},
		Gates: func(tier string) map[string]int64 {
			return map[string]int64{"float32": 500000, "float64": 20000, "int": 5000, "bytes": 20000, "string": 500, "enum": 10, "bool": 2, "desc_fields": 5000, "desc_files": 8, "format:descriptor": 100000, "format:gotag": 100000}
		},
		Run: runC39,
	})
}

var c39Formats = []struct {
	f    defval.Format
	name string
}{{defval.Descriptor, "descriptor"}, {defval.GoTag, "gotag"}}

func c39Same(k protoreflect.Kind, a, b protoreflect.Value) bool {
	switch k {
	case protoreflect.FloatKind:
		x, y := float32(a.Float()), float32(b.Float())
		return math.Float32bits(x) == math.Float32bits(y) || (x != x && y != y)
	case protoreflect.DoubleKind:
		x, y := a.Float(), b.Float()
		return math.Float64bits(x) == math.Float64bits(y) || (x != x && y != y)
	case protoreflect.BytesKind:
		return bytes.Equal(a.Bytes(), b.Bytes())
	case protoreflect.EnumKind:
		return a.Enum() == b.Enum()
	case protoreflect.StringKind:
		return a.String() == b.String()
	case protoreflect.BoolKind:
		return a.Bool() == b.Bool()
	case protoreflect.Uint32Kind, protoreflect.Fixed32Kind, protoreflect.Uint64Kind, protoreflect.Fixed64Kind:
		return a.Uint() == b.Uint()
	}
	return a.Int() == b.Int()
}

func c39Show(k protoreflect.Kind, v protoreflect.Value) string {
	switch k {
	case protoreflect.FloatKind:
		return fmt.Sprintf("bits=%08x", math.Float32bits(float32(v.Float())))
	case protoreflect.DoubleKind:
		return fmt.Sprintf("bits=%016x", math.Float64bits(v.Float()))
	case protoreflect.BytesKind:
		return fmt.Sprintf("x%x", v.Bytes())
	}
	return fmt.Sprint(v.Interface())
}

func c39One(c *core.Ctx, k protoreflect.Kind, v protoreflect.Value, ev protoreflect.EnumValueDescriptor, evs protoreflect.EnumValueDescriptors, count string) {
	for _, f := range c39Formats {
		c.Count("format:" + f.name)
		s, err := defval.Marshal(v, ev, k, f.f)
		if err != nil {
			c.Violation(fmt.Sprintf("defval:marshal-error:%v:%s", k, f.name), map[string]any{"value": c39Show(k, v), "err": errStr(err)})
			continue
		}
		back, _, err := defval.Unmarshal(s, k, evs, f.f)
		if err != nil {
			c.Violation(fmt.Sprintf("defval:unmarshal-error-on-own-output:%v:%s", k, f.name), map[string]any{"value": c39Show(k, v), "text": s, "err": errStr(err)})
			continue
		}
		if !c39Same(k, v, back) {
			fp := fmt.Sprintf("defval:roundtrip:%v:%s", k, f.name)
			if k == protoreflect.FloatKind {
				fp += ":" + c39Show(k, v)
			}
			c.Violation(fp, map[string]any{"value": c39Show(k, v), "text": s, "back": c39Show(k, back)})
		}
	}
	c.Count(count)
}

func runC39(c *core.Ctx, b core.Batch) {
	switch b.Kind {
	case "f32":
		c39F32(c, b)
	case "scalars":
		c39Scalars(c)
	case "desc":
		c39Desc(c, b)
	}
}

func c39F32(c *core.Ctx, b core.Batch) {
	one := func(bits uint32) {
		c39One(c, protoreflect.FloatKind, protoreflect.ValueOfFloat32(math.Float32frombits(bits)), nil, nil, "float32")
	}
	if !c.Quick() {
		lo := uint64(b.N) << 28
		for x := lo; x < lo+1<<28; x++ {
			one(uint32(x))
			if x&0xfffff == 0 {
				c.Distinct(x)
			}
		}
		c.EvalN(1 << 28)
		return
	}
	off := uint32(c.Seed*2654435761) & 0xfff
	for i := uint32(b.N); i < 1<<20; i += 16 {
		one(i<<12 | off)
		c.Eval()
		if i%1024 == uint32(b.N) {
			c.Distinct(uint64(i<<12 | off))
		}
	}
	for e := uint32(0); e < 256; e++ {
		if int(e)%16 != b.N {
			continue
		}
		for d := -2; d <= 2; d++ {
			one(e<<23 + uint32(d))
			one((e<<23 + uint32(d)) | 1<<31)
			c.EvalN(2)
		}
	}
	for i := 0; i < 4096; i++ {
		base := uint32(c.Rng(uint64(i)).Uint64())
		for d := -2; d <= 2; d++ {
			one(base + uint32(d))
			c.Eval()
		}
	}
}

func c39Scalars(c *core.Ctx) {
	// doubles
	for i := 0; i < c.Scale(30000, 3000000); i++ {
		r := c.Rng(uint64(i))
		var bits uint64
		switch r.Intn(3) {
		case 0:
			bits = r.Uint64()
		case 1:
			bits = uint64(r.Intn(2048))<<52 | uint64(r.Intn(5)) | uint64(r.Intn(2))<<63
		default:
			bits = math.Float64bits(float64(math.Float32frombits(uint32(r.Uint64())))) + uint64(r.Intn(3)) - 1
		}
		c.Eval()
		c.Distinct(bits)
		c39One(c, protoreflect.DoubleKind, protoreflect.ValueOfFloat64(math.Float64frombits(bits)), nil, nil, "float64")
	}
	// integers
	i32 := []protoreflect.Kind{protoreflect.Int32Kind, protoreflect.Sint32Kind, protoreflect.Sfixed32Kind}
	i64 := []protoreflect.Kind{protoreflect.Int64Kind, protoreflect.Sint64Kind, protoreflect.Sfixed64Kind}
	u32 := []protoreflect.Kind{protoreflect.Uint32Kind, protoreflect.Fixed32Kind}
	u64 := []protoreflect.Kind{protoreflect.Uint64Kind, protoreflect.Fixed64Kind}
	for i := 0; i < c.Scale(3000, 100000); i++ {
		r := c.Rng(uint64(1<<40 | i))
		x := r.Uint64Boundary()
		c.Eval()
		c.Distinct(x)
		c39One(c, i32[i%3], protoreflect.ValueOfInt32(int32(x)), nil, nil, "int")
		c39One(c, i64[i%3], protoreflect.ValueOfInt64(int64(x)), nil, nil, "int")
		c39One(c, u32[i%2], protoreflect.ValueOfUint32(uint32(x)), nil, nil, "int")
		c39One(c, u64[i%2], protoreflect.ValueOfUint64(x), nil, nil, "int")
	}
	for _, x := range []int64{math.MinInt32, math.MaxInt32, math.MinInt64, math.MaxInt64, 0, -1, 1} {
		c39One(c, protoreflect.Int64Kind, protoreflect.ValueOfInt64(x), nil, nil, "int")
		c39One(c, protoreflect.Int32Kind, protoreflect.ValueOfInt32(int32(x)), nil, nil, "int")
		c39One(c, protoreflect.Uint64Kind, protoreflect.ValueOfUint64(uint64(x)), nil, nil, "int")
		c39One(c, protoreflect.Uint32Kind, protoreflect.ValueOfUint32(uint32(x)), nil, nil, "int")
	}
	// bytes: all of length <= 2, then PRNG
	c39One(c, protoreflect.BytesKind, protoreflect.ValueOfBytes(nil), nil, nil, "bytes")
	for a := 0; a < 256; a++ {
		c39One(c, protoreflect.BytesKind, protoreflect.ValueOfBytes([]byte{byte(a)}), nil, nil, "bytes")
	}
	for x := 0; x < 65536; x++ {
		c.Eval()
		c39One(c, protoreflect.BytesKind, protoreflect.ValueOfBytes([]byte{byte(x >> 8), byte(x)}), nil, nil, "bytes")
	}
	for i := 0; i < c.Scale(5000, 200000); i++ {
		r := c.Rng(uint64(2<<40 | i))
		raw := r.Bytes(r.Intn(24))
		if r.Chance(1, 3) { // escape-like content
			raw = []byte([]string{`\`, `\\`, `\n`, `\x41`, `\101`, `"`, `'`, `\'`, `\"`, "\\\n", `A`, `?`, `\?`, "\x00\\0", `\8`}[r.Intn(15)] + string(raw))
		}
		c.Eval()
		c.DistinctBytes(raw)
		c39One(c, protoreflect.BytesKind, protoreflect.ValueOfBytes(raw), nil, nil, "bytes")
		if c.WantSample() && len(raw) > 4 {
			s, _ := defval.Marshal(protoreflect.ValueOfBytes(raw), nil, protoreflect.BytesKind, defval.Descriptor)
			c.Sample(map[string]any{"bytes": core.Hex(raw), "default_value_text": s})
		}
	}
	for i := 0; i < c.Scale(2000, 50000); i++ {
		r := c.Rng(uint64(3<<40 | i))
		c.Eval()
		c39One(c, protoreflect.StringKind, protoreflect.ValueOfString(gen.RandString(r, i%3 != 0)), nil, nil, "string")
	}
	for _, bv := range []bool{true, false} {
		c39One(c, protoreflect.BoolKind, protoreflect.ValueOfBool(bv), nil, nil, "bool")
	}
	for _, en := range []protoreflect.FullName{"goproto.proto.test.TestAllTypes.NestedEnum", "google.protobuf.FieldDescriptorProto.Type", "goproto.proto.test.ForeignEnum"} {
		et, err := protoregistry.GlobalTypes.FindEnumByName(en)
		if err != nil {
			continue
		}
		evs := et.Descriptor().Values()
		for i := 0; i < evs.Len(); i++ {
			ev := evs.Get(i)
			c.Eval()
			c39One(c, protoreflect.EnumKind, protoreflect.ValueOfEnum(ev.Number()), ev, evs, "enum")
		}
	}
}

// c39Desc: defaults through NewFile -> ToFileDescriptorProto -> NewFile.
func c39Desc(c *core.Ctx, b core.Batch) {
	type want struct {
		k protoreflect.Kind
		v protoreflect.Value
	}
	kinds := []protoreflect.Kind{protoreflect.FloatKind, protoreflect.DoubleKind, protoreflect.Int32Kind, protoreflect.Int64Kind, protoreflect.Uint32Kind, protoreflect.Uint64Kind, protoreflect.Sint32Kind, protoreflect.Sint64Kind,
		protoreflect.Fixed32Kind, protoreflect.Fixed64Kind, protoreflect.Sfixed32Kind, protoreflect.Sfixed64Kind, protoreflect.BoolKind, protoreflect.StringKind, protoreflect.BytesKind, protoreflect.EnumKind, protoreflect.FloatKind, protoreflect.BytesKind}
	nfiles := c.Scale(4, 60)
	for fi := 0; fi < nfiles; fi++ {
		r := c.Rng(uint64(b.N*1000 + fi))
		fdp := &descriptorpb.FileDescriptorProto{
			Name: proto.String(fmt.Sprintf("c39/f%d_%d.proto", b.N, fi)), Package: proto.String("c39pkg"), Syntax: proto.String("proto2"),
			EnumType: []*descriptorpb.EnumDescriptorProto{{Name: proto.String("E"), Value: []*descriptorpb.EnumValueDescriptorProto{
				{Name: proto.String("E_ZERO"), Number: proto.Int32(0)}, {Name: proto.String("E_ONE"), Number: proto.Int32(1)}, {Name: proto.String("E_NEG"), Number: proto.Int32(-5)}, {Name: proto.String("E_MAX"), Number: proto.Int32(math.MaxInt32)}}}},
		}
		msg := &descriptorpb.DescriptorProto{Name: proto.String("M")}
		var wants []want
		evals := []int32{0, 1, -5, math.MaxInt32}
		enames := []string{"E_ZERO", "E_ONE", "E_NEG", "E_MAX"}
		for i := 0; i < 512; i++ {
			k := kinds[(i+fi)%len(kinds)]
			f := &descriptorpb.FieldDescriptorProto{Name: proto.String(fmt.Sprintf("f%d", i)), Number: proto.Int32(int32(i + 1)), Label: descriptorpb.FieldDescriptorProto_LABEL_OPTIONAL.Enum(), Type: descriptorpb.FieldDescriptorProto_Type(k).Enum()}
			var v protoreflect.Value
			var ev protoreflect.EnumValueDescriptor
			switch k {
			case protoreflect.FloatKind:
				v = protoreflect.ValueOfFloat32(gen.RandFloat32(r, gen.MsgOpts{}))
				if r.Bool() {
					v = protoreflect.ValueOfFloat32(math.Float32frombits(uint32(r.Uint64())))
				}
			case protoreflect.DoubleKind:
				v = protoreflect.ValueOfFloat64(gen.RandFloat64(r, gen.MsgOpts{}))
				if r.Bool() {
					v = protoreflect.ValueOfFloat64(math.Float64frombits(r.Uint64()))
				}
			case protoreflect.Int32Kind, protoreflect.Sint32Kind, protoreflect.Sfixed32Kind:
				v = protoreflect.ValueOfInt32(int32(r.Uint64Boundary()))
			case protoreflect.Int64Kind, protoreflect.Sint64Kind, protoreflect.Sfixed64Kind:
				v = protoreflect.ValueOfInt64(int64(r.Uint64Boundary()))
			case protoreflect.Uint32Kind, protoreflect.Fixed32Kind:
				v = protoreflect.ValueOfUint32(uint32(r.Uint64Boundary()))
			case protoreflect.Uint64Kind, protoreflect.Fixed64Kind:
				v = protoreflect.ValueOfUint64(r.Uint64Boundary())
			case protoreflect.BoolKind:
				v = protoreflect.ValueOfBool(r.Bool())
			case protoreflect.StringKind:
				v = protoreflect.ValueOfString(gen.RandString(r, true))
			case protoreflect.BytesKind:
				v = protoreflect.ValueOfBytes(append([]byte{}, r.Bytes(r.Intn(12))...))
			case protoreflect.EnumKind:
				j := r.Intn(4)
				v = protoreflect.ValueOfEnum(protoreflect.EnumNumber(evals[j]))
				f.TypeName = proto.String(".c39pkg.E")
				f.DefaultValue = proto.String(enames[j])
			}
			if k != protoreflect.EnumKind {
				s, err := defval.Marshal(v, ev, k, defval.Descriptor)
				if err != nil {
					c.Violation("desc:defval-marshal-error:"+k.String(), map[string]any{"value": c39Show(k, v)})
					continue
				}
				f.DefaultValue = proto.String(s)
			}
			msg.Field = append(msg.Field, f)
			wants = append(wants, want{k, v})
		}
		fdp.MessageType = []*descriptorpb.DescriptorProto{msg}
		c.Log("C39 desc file %s", fdp.GetName())
		d1, err := protodesc.NewFile(fdp, nil)
		if err != nil {
			c.Violation("desc:newfile-error", map[string]any{"err": errStr(err)})
			continue
		}
		p2 := protodesc.ToFileDescriptorProto(d1)
		d2, err := protodesc.NewFile(p2, nil)
		if err != nil {
			c.Violation("desc:newfile-error-on-own-proto", map[string]any{"err": errStr(err)})
			continue
		}
		c.Count("desc_files")
		f1 := d1.Messages().Get(0).Fields()
		f2 := d2.Messages().Get(0).Fields()
		for i, w := range wants {
			c.Eval()
			c.Count("desc_fields")
			c.DistinctStr(fmt.Sprintf("%v/%s", w.k, c39Show(w.k, w.v)))
			a, bb := f1.Get(i), f2.Get(i)
			if !a.HasDefault() || !bb.HasDefault() {
				c.Violation("desc:default-lost:"+w.k.String(), map[string]any{"value": c39Show(w.k, w.v), "text": msg.Field[i].GetDefaultValue()})
				continue
			}
			if !c39Same(w.k, w.v, a.Default()) {
				fp := "desc:default-differs-from-intended:" + w.k.String()
				if w.k == protoreflect.FloatKind {
					fp += ":" + c39Show(w.k, w.v)
				}
				c.Violation(fp, map[string]any{"value": c39Show(w.k, w.v), "text": msg.Field[i].GetDefaultValue(), "default": c39Show(w.k, a.Default())})
			}
			if !c39Same(w.k, a.Default(), bb.Default()) {
				c.Violation("desc:default-changed-by-proto-roundtrip:"+w.k.String(), map[string]any{"first": c39Show(w.k, a.Default()), "second": c39Show(w.k, bb.Default()), "text2": p2.MessageType[0].Field[i].GetDefaultValue()})
			}
			if w.k == protoreflect.EnumKind && (a.DefaultEnumValue() == nil || a.DefaultEnumValue().Number() != w.v.Enum()) {
				c.Violation("desc:default-enum-value-descriptor", map[string]any{"value": c39Show(w.k, w.v)})
			}
		}
	}
}
