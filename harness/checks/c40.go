package checks

import (
	"bytes"
	"crypto/sha256"
	"fmt"
	"os"
	"os/exec"
	"path/filepath"
	"sort"
	"strings"

	"google.golang.org/protobuf/encoding/protowire"
	"google.golang.org/protobuf/proto"
	"google.golang.org/protobuf/reflect/protodesc"
	"google.golang.org/protobuf/reflect/protoreflect"
	"google.golang.org/protobuf/reflect/protoregistry"
	"google.golang.org/protobuf/types/descriptorpb"
	"google.golang.org/protobuf/types/dynamicpb"
	"google.golang.org/protobuf/types/pluginpb"
	"google.golang.org/protobuf/verif/core"
	"google.golang.org/protobuf/verif/gen"
)

func init() {
	core.Register(&core.Check{
		ID:     "C40",
		Rule:   "cases: the real protoc-gen-go binary, built from the repository under test, fed serialized CodeGeneratorRequests (no protoc involved) built from (a) every linked file with its transitive dependencies (b) PRNG-generated multi-file schemas and (c) requests that define custom options in the request itself (an extension of every *Options message whose value message has two map fields) and use them on a file, messages, fields, oneofs, enums, enum values, services and methods with 2..24 map entries each, delivered as unknown bytes of the options messages, under parameter sets {none, paths=source_relative, module=..., default_api_level=API_OPEN/API_HYBRID/API_OPAQUE, M-mappings}; each request is run R=4 times in separate processes with GOMAXPROCS 1/2/7/16 (Go randomises map iteration per process) and the response bytes must be identical; requests naming several files are re-run with permuted file_to_generate and must yield the same file name -> content map; distinct = distinct (request bytes); non-trivial = response with at least one generated file",
		Assume: []string{"byte equality of process outputs", "Go's per-process map iteration randomisation as the source of iteration orders"},
		Batches: func(tier string) []core.Batch {
			var bs []core.Batch
			for i := 0; i < 8; i++ {
				bs = append(bs, core.Batch{Cfg: "base", Name: fmt.Sprintf("linked-%d", i), Kind: "linked", N: i})
			}
			for i := 0; i < 8; i++ {
				bs = append(bs, core.Batch{Cfg: "base", Name: fmt.Sprintf("gen-%d", i), Kind: "gen", N: i})
			}
			return bs
		},
		Gates: func(tier string) map[string]int64 {
			return map[string]int64{"requests": 150, "plugin_processes": 600, "responses_with_files": 100, "generated_files": 200, "permutation_requests": 20, "param:opaque": 20, "param:hybrid": 20, "param:source_relative": 20, "linked_requests": 60, "gen_requests": 60, "optionmap_requests": 8, "names_requests": 40}
		},
		Run: runC40,
	})
}

// buildPlugin builds cmd/protoc-gen-go of the repository under test.
func buildPlugin(c *core.Ctx) (string, error) {
	out := filepath.Join(c.Dir, "protoc-gen-go")
	args := []string{"build"}
	if mf := os.Getenv("VERIF_MODFILE"); mf != "" {
		args = append(args, "-modfile="+mf)
	}
	args = append(args, "-o", out, "google.golang.org/protobuf/cmd/protoc-gen-go")
	cmd := exec.Command("go", args...)
	cmd.Dir = filepath.Join(os.Getenv("VERIF_DIR"), "harness")
	cmd.Env = append(os.Environ(), "GOFLAGS=-mod=mod", "GOPROXY=off", "GOSUMDB=off", "GOTOOLCHAIN=local")
	if b, err := cmd.CombinedOutput(); err != nil {
		return "", fmt.Errorf("go build protoc-gen-go: %v: %s", err, clip(string(b), 2000))
	}
	return out, nil
}

func runPlugin(plugin string, req []byte, gomaxprocs int) ([]byte, error) {
	cmd := exec.Command(plugin)
	cmd.Stdin = bytes.NewReader(req)
	cmd.Env = append(os.Environ(), fmt.Sprintf("GOMAXPROCS=%d", gomaxprocs))
	var stderr bytes.Buffer
	cmd.Stderr = &stderr
	out, err := cmd.Output()
	if err != nil {
		return out, fmt.Errorf("%v: %s", err, clip(stderr.String(), 1500))
	}
	return out, nil
}

// closure returns fd and its transitive dependencies in topological order.
func closure(fds ...protoreflect.FileDescriptor) []*descriptorpb.FileDescriptorProto {
	var out []*descriptorpb.FileDescriptorProto
	seen := map[string]bool{}
	var visit func(fd protoreflect.FileDescriptor)
	visit = func(fd protoreflect.FileDescriptor) {
		if seen[fd.Path()] || fd.IsPlaceholder() {
			return
		}
		seen[fd.Path()] = true
		for i := 0; i < fd.Imports().Len(); i++ {
			visit(fd.Imports().Get(i).FileDescriptor)
		}
		out = append(out, protodesc.ToFileDescriptorProto(fd))
	}
	for _, fd := range fds {
		visit(fd)
	}
	return out
}

func c40Params(i int) (string, string) {
	switch i % 6 {
	case 1:
		return "paths=source_relative", "source_relative"
	case 2:
		return "default_api_level=API_OPAQUE", "opaque"
	case 3:
		return "default_api_level=API_HYBRID", "hybrid"
	case 4:
		return "default_api_level=API_OPEN,paths=source_relative", "source_relative"
	case 5:
		return "paths=import", "import"
	}
	return "", "none"
}

func respFiles(b []byte) (map[string]string, string, error) {
	var r pluginpb.CodeGeneratorResponse
	if err := proto.Unmarshal(b, &r); err != nil {
		return nil, "", err
	}
	m := map[string]string{}
	for _, f := range r.File {
		m[f.GetName()] += f.GetContent()
	}
	return m, r.GetError(), nil
}

func c40Request(c *core.Ctx, plugin string, label string, files []*descriptorpb.FileDescriptorProto, toGen []string, param string, origin string) {
	req := &pluginpb.CodeGeneratorRequest{FileToGenerate: toGen, ProtoFile: files}
	// files without a go_package option need an M mapping (the plugin refuses them otherwise)
	for i, f := range files {
		if f.GetOptions().GetGoPackage() == "" {
			m := fmt.Sprintf("M%s=example.com/verif/nogopkg%d", f.GetName(), i)
			if param == "" {
				param = m
			} else {
				param += "," + m
			}
			c.Count("param:M-mapping")
		}
	}
	if param != "" {
		req.Parameter = proto.String(param)
	}
	rb, err := proto.MarshalOptions{Deterministic: true}.Marshal(req)
	if err != nil {
		return
	}
	c.Eval()
	c.Count("requests")
	c.Count(origin + "_requests")
	c.Log("C40 request %s param=%q files=%v", label, param, toGen)
	var first []byte
	for run, gmp := range []int{1, 2, 7, 16} {
		out, err := runPlugin(plugin, rb, gmp)
		c.Count("plugin_processes")
		if err != nil {
			// a refusal must be as repeatable as a result
			if run == 0 {
				if _, err2 := runPlugin(plugin, rb, 5); err2 != nil {
					c.Count("plugin_refused_request")
					switch msg := errStr(err2); {
					case strings.Contains(msg, "is a MessageSet"):
						c.Count("refused:messageset-needs-protolegacy")
					case strings.Contains(msg, "could not resolve import"):
						c.Count("refused:unregistered-import")
					default:
						c.Count("refused:other")
					}
					return
				}
			}
			c.Violation("codegen:plugin-process-fails-in-some-runs:"+origin, map[string]any{"request": label, "param": param, "err": errStr(err), "run": run})
			return
		}
		if run == 0 {
			first = out
			files, perr, e := respFiles(out)
			if e != nil {
				c.Violation("codegen:response-does-not-decode", map[string]any{"request": label})
				return
			}
			if perr != "" {
				c.Count("responses_with_error")
				if origin == "linked" {
					c.Count("linked_plugin_error")
				}
			}
			if len(files) > 0 {
				c.Count("responses_with_files")
				c.CountN("generated_files", int64(len(files)))
				c.DistinctBytes(rb)
				if c.WantSample() && len(files) > 1 {
					var names []string
					for n := range files {
						names = append(names, n)
					}
					sort.Strings(names)
					c.Sample(map[string]any{"request": label, "parameter": param, "generated": names, "response_sha256": fmt.Sprintf("%x", sha256.Sum256(out)), "runs_compared": 4})
				}
			}
			continue
		}
		if !bytes.Equal(out, first) {
			a, _, _ := respFiles(first)
			bb, _, _ := respFiles(out)
			diff := ""
			for n, x := range a {
				if bb[n] != x {
					diff = n
					break
				}
			}
			c.Violation("codegen:response-differs-between-runs:"+origin, map[string]any{"request": label, "param": param, "gomaxprocs": gmp, "differing_file": diff, "first_diff": c40FirstDiff(a[diff], bb[diff])})
			return
		}
	}
	// permuted file_to_generate
	if len(toGen) >= 2 {
		c.Count("permutation_requests")
		perm := append([]string(nil), toGen...)
		for i, j := 0, len(perm)-1; i < j; i, j = i+1, j-1 {
			perm[i], perm[j] = perm[j], perm[i]
		}
		req2 := proto.Clone(req).(*pluginpb.CodeGeneratorRequest)
		req2.FileToGenerate = perm
		rb2, _ := proto.MarshalOptions{Deterministic: true}.Marshal(req2)
		out2, err := runPlugin(plugin, rb2, 3)
		c.Count("plugin_processes")
		if err != nil {
			c.Violation("codegen:plugin-process-failed-on-permuted-request", map[string]any{"request": label, "err": errStr(err)})
			return
		}
		a, e1, _ := respFiles(first)
		bb, e2, _ := respFiles(out2)
		if e1 != e2 || len(a) != len(bb) {
			c.Violation("codegen:file-set-depends-on-request-order", map[string]any{"request": label, "files_a": len(a), "files_b": len(bb)})
			return
		}
		for n, x := range a {
			if bb[n] != x {
				c.Violation("codegen:content-depends-on-request-order", map[string]any{"request": label, "file": n, "first_diff": c40FirstDiff(x, bb[n])})
				return
			}
		}
	}
}

func c40FirstDiff(a, b string) string {
	la, lb := strings.Split(a, "\n"), strings.Split(b, "\n")
	for i := 0; i < len(la) && i < len(lb); i++ {
		if la[i] != lb[i] {
			return fmt.Sprintf("line %d: %q vs %q", i+1, clip(la[i], 200), clip(lb[i], 200))
		}
	}
	return fmt.Sprintf("lengths %d vs %d lines", len(la), len(lb))
}

func runC40(c *core.Ctx, b core.Batch) {
	plugin, err := buildPlugin(c)
	if err != nil {
		c.Violation("harness:cannot-build-plugin", map[string]any{"err": errStr(err)})
		return
	}
	if b.Kind == "linked" {
		fds := linkedFiles()
		k := 0
		for i, fd := range fds {
			if i%8 != b.N {
				continue
			}
			if !c.Quick() || k%2 == 0 {
				param, tag := c40Params(i)
				c.Count("param:" + tag)
				c40Request(c, plugin, fd.Path(), closure(fd), []string{fd.Path()}, param, "linked")
			}
			k++
		}
		// multi-file requests (files of one directory)
		byDir := map[string][]protoreflect.FileDescriptor{}
		for _, fd := range fds {
			byDir[filepath.Dir(fd.Path())] = append(byDir[filepath.Dir(fd.Path())], fd)
		}
		var dirs []string
		for d, l := range byDir {
			if len(l) >= 2 {
				dirs = append(dirs, d)
			}
		}
		sort.Strings(dirs)
		for i, d := range dirs {
			if i%8 != b.N {
				continue
			}
			var names []string
			for _, fd := range byDir[d] {
				names = append(names, fd.Path())
			}
			param, tag := c40Params(i + 1)
			c.Count("param:" + tag)
			c40Request(c, plugin, "dir:"+d, closure(byDir[d]...), names, param, "linked")
		}
		return
	}
	n := c.Scale(10, 200)
	for i := 0; i < n; i++ {
		r := c.Rng(uint64(i))
		o := gen.SchemaOpts{Prefix: fmt.Sprintf("c40.b%d.s%d", b.N, i), Codegen: true, Features: i%2 == 0, NumFiles: 1 + i%3, HostileNames: i%3 == 0}
		s, _, _, _, err := gen.GenValidSchema(r, o)
		if err != nil {
			c.Count("gen_schema_rejected")
			continue
		}
		var names []string
		for _, p := range s.Files {
			names = append(names, p.GetName())
		}
		param, tag := c40Params(i + b.N)
		c.Count("param:" + tag)
		c40Request(c, plugin, o.Prefix, s.Files, names, param, "gen")
	}
	// (c) custom options defined in the request itself, whose values hold maps
	// with many entries (delivered as unknown bytes of the options messages,
	// the way protoc sends them)
	for i := 0; i < c.Scale(3, 40); i++ {
		r := c.Rng(uint64(0x40c)<<20 | uint64(b.N)<<10 | uint64(i))
		files, names, err := c40OptionMapFiles(r, fmt.Sprintf("c40.b%d.o%d", b.N, i))
		if err != nil {
			c.Violation("harness:option-map-schema-invalid", map[string]any{"err": errStr(err)})
			continue
		}
		param, tag := c40Params(i + b.N)
		c.Count("param:" + tag)
		c40Request(c, plugin, names[len(names)-1], files, names, param, "optionmap")
	}
	// (d) messages whose field and oneof names collide after camel-casing (the
	// collision-seeking generator of C42), at the hybrid and opaque levels where
	// the generator resolves such clashes: several clash groups meeting in one oneof
	for i := 0; i < c.Scale(12, 200); i++ {
		r := c.Rng(uint64(0x40d)<<20 | uint64(b.N)<<10 | uint64(i))
		fdp := c42NameSchema(r, fmt.Sprintf("c40names/b%d_%d.proto", b.N, i), i)
		// make clash groups meet in a oneof: members named _x next to fields X_x
		m := &descriptorpb.DescriptorProto{Name: proto.String("Meet"), OneofDecl: []*descriptorpb.OneofDescriptorProto{{Name: proto.String("u")}}}
		words := []string{"foo", "bar", "baz", "qux", "quux"}
		k := 2 + r.Intn(4)
		num := int32(1)
		for j := 0; j < k; j++ {
			m.Field = append(m.Field, &descriptorpb.FieldDescriptorProto{Name: proto.String("_" + words[j]), Number: proto.Int32(num), Label: descriptorpb.FieldDescriptorProto_LABEL_OPTIONAL.Enum(), Type: descriptorpb.FieldDescriptorProto_TYPE_STRING.Enum(), OneofIndex: proto.Int32(0), JsonName: proto.String("o" + words[j])})
			num++
		}
		for j := 0; j < k; j++ {
			m.Field = append(m.Field, &descriptorpb.FieldDescriptorProto{Name: proto.String("X_" + words[j]), Number: proto.Int32(num), Label: descriptorpb.FieldDescriptorProto_LABEL_OPTIONAL.Enum(), Type: descriptorpb.FieldDescriptorProto_TYPE_INT32.Enum(), JsonName: proto.String("p" + words[j])})
			num++
		}
		fdp.MessageType = append(fdp.MessageType, m)
		if _, err := protodesc.NewFile(fdp, nil); err != nil {
			c.Count("names_schema_rejected")
			continue
		}
		level := []string{"API_HYBRID", "API_OPAQUE"}[i%2]
		c.Count("param:" + strings.ToLower(strings.TrimPrefix(level, "API_")))
		c40Request(c, plugin, fdp.GetName(), []*descriptorpb.FileDescriptorProto{fdp}, []string{fdp.GetName()}, "default_api_level="+level, "names")
	}
}

// c40OptionMapFiles builds descriptor.proto, an options file (message Labels
// with two map fields and a repeated field; one extension of every *Options
// message) and a file using those options everywhere, each value with 2..24
// map entries.
func c40OptionMapFiles(r *core.Rand, prefix string) ([]*descriptorpb.FileDescriptorProto, []string, error) {
	pkg := strings.ReplaceAll(prefix, ".", "_")
	opt := descriptorpb.FieldDescriptorProto_LABEL_OPTIONAL.Enum()
	rep := descriptorpb.FieldDescriptorProto_LABEL_REPEATED.Enum()
	entry := func(name string, kt, vt descriptorpb.FieldDescriptorProto_Type) *descriptorpb.DescriptorProto {
		return &descriptorpb.DescriptorProto{Name: proto.String(name), Options: &descriptorpb.MessageOptions{MapEntry: proto.Bool(true)}, Field: []*descriptorpb.FieldDescriptorProto{
			{Name: proto.String("key"), Number: proto.Int32(1), Label: opt, Type: kt.Enum(), JsonName: proto.String("key")},
			{Name: proto.String("value"), Number: proto.Int32(2), Label: opt, Type: vt.Enum(), JsonName: proto.String("value")}}}
	}
	optsFile := &descriptorpb.FileDescriptorProto{Name: proto.String(prefix + "/opts.proto"), Package: proto.String(pkg + ".opts"), Syntax: proto.String("proto3"),
		Dependency: []string{"google/protobuf/descriptor.proto"},
		Options:    &descriptorpb.FileOptions{GoPackage: proto.String("example.com/verif/" + pkg + "/opts")},
		MessageType: []*descriptorpb.DescriptorProto{{Name: proto.String("Labels"),
			NestedType: []*descriptorpb.DescriptorProto{entry("LabelsEntry", descriptorpb.FieldDescriptorProto_TYPE_STRING, descriptorpb.FieldDescriptorProto_TYPE_STRING), entry("NumsEntry", descriptorpb.FieldDescriptorProto_TYPE_INT32, descriptorpb.FieldDescriptorProto_TYPE_INT64)},
			Field: []*descriptorpb.FieldDescriptorProto{
				{Name: proto.String("labels"), Number: proto.Int32(1), Label: rep, Type: descriptorpb.FieldDescriptorProto_TYPE_MESSAGE.Enum(), TypeName: proto.String("." + pkg + ".opts.Labels.LabelsEntry"), JsonName: proto.String("labels")},
				{Name: proto.String("nums"), Number: proto.Int32(2), Label: rep, Type: descriptorpb.FieldDescriptorProto_TYPE_MESSAGE.Enum(), TypeName: proto.String("." + pkg + ".opts.Labels.NumsEntry"), JsonName: proto.String("nums")},
				{Name: proto.String("tags"), Number: proto.Int32(3), Label: rep, Type: descriptorpb.FieldDescriptorProto_TYPE_STRING.Enum(), JsonName: proto.String("tags")},
			}}}}
	targets := []string{"FileOptions", "MessageOptions", "FieldOptions", "OneofOptions", "EnumOptions", "EnumValueOptions", "ServiceOptions", "MethodOptions"}
	extNum := map[string]int32{}
	for i, t := range targets {
		n := int32(50001 + i)
		extNum[t] = n
		nm := strings.ToLower(strings.TrimSuffix(t, "Options")) + "_labels"
		optsFile.Extension = append(optsFile.Extension, &descriptorpb.FieldDescriptorProto{Name: proto.String(nm), Number: proto.Int32(n), Label: opt, Type: descriptorpb.FieldDescriptorProto_TYPE_MESSAGE.Enum(), TypeName: proto.String("." + pkg + ".opts.Labels"), Extendee: proto.String(".google.protobuf." + t), JsonName: proto.String(gen.JSONCamel(nm))})
	}
	descFile := protodesc.ToFileDescriptorProto(descriptorpb.File_google_protobuf_descriptor_proto)
	reg := new(protoregistry.Files)
	dfd, err := protodesc.NewFile(descFile, reg)
	if err != nil {
		return nil, nil, err
	}
	reg.RegisterFile(dfd)
	ofd, err := protodesc.NewFile(optsFile, reg)
	if err != nil {
		return nil, nil, err
	}
	reg.RegisterFile(ofd)
	labels := ofd.Messages().ByName("Labels")
	value := func(target string) []byte {
		m := dynamicpb.NewMessage(labels)
		lm := m.Mutable(labels.Fields().ByName("labels")).Map()
		for k, n := 0, 2+r.Intn(23); k < n; k++ {
			lm.Set(protoreflect.ValueOfString(fmt.Sprintf("k%d-%s", r.Intn(100000), gen.RandIdent(r))).MapKey(), protoreflect.ValueOfString(gen.RandIdent(r)))
		}
		nm := m.Mutable(labels.Fields().ByName("nums")).Map()
		for k, n := 0, 2+r.Intn(23); k < n; k++ {
			nm.Set(protoreflect.ValueOfInt32(int32(r.Intn(1<<20)-1<<19)).MapKey(), protoreflect.ValueOfInt64(int64(r.Intn(1000))))
		}
		tl := m.Mutable(labels.Fields().ByName("tags")).List()
		for k := 0; k < r.Intn(3); k++ {
			tl.Append(protoreflect.ValueOfString(gen.RandIdent(r)))
		}
		// map entries in Go's iteration order of this process: the request bytes are fixed once built
		b, _ := proto.Marshal(m)
		return protowire.AppendBytes(protowire.AppendTag(nil, protowire.Number(extNum[target]), protowire.BytesType), b)
	}
	use := &descriptorpb.FileDescriptorProto{Name: proto.String(prefix + "/use.proto"), Package: proto.String(pkg + ".use"), Syntax: proto.String("proto3"),
		Dependency: []string{prefix + "/opts.proto"},
		Options:    &descriptorpb.FileOptions{GoPackage: proto.String("example.com/verif/" + pkg + "/use")}}
	use.Options.ProtoReflect().SetUnknown(value("FileOptions"))
	for mi := 0; mi < 2+r.Intn(3); mi++ {
		m := &descriptorpb.DescriptorProto{Name: proto.String(fmt.Sprintf("M%d", mi)), Options: &descriptorpb.MessageOptions{}}
		m.Options.ProtoReflect().SetUnknown(value("MessageOptions"))
		m.OneofDecl = []*descriptorpb.OneofDescriptorProto{{Name: proto.String("oo"), Options: &descriptorpb.OneofOptions{}}}
		m.OneofDecl[0].Options.ProtoReflect().SetUnknown(value("OneofOptions"))
		for fi := 0; fi < 2+r.Intn(3); fi++ {
			f := &descriptorpb.FieldDescriptorProto{Name: proto.String(fmt.Sprintf("f%d", fi)), Number: proto.Int32(int32(fi + 1)), Label: opt, Type: descriptorpb.FieldDescriptorProto_TYPE_STRING.Enum(), JsonName: proto.String(fmt.Sprintf("f%d", fi)), Options: &descriptorpb.FieldOptions{}}
			f.Options.ProtoReflect().SetUnknown(value("FieldOptions"))
			if fi < 2 {
				f.OneofIndex = proto.Int32(0)
			}
			m.Field = append(m.Field, f)
		}
		use.MessageType = append(use.MessageType, m)
	}
	e := &descriptorpb.EnumDescriptorProto{Name: proto.String("E"), Options: &descriptorpb.EnumOptions{}, Value: []*descriptorpb.EnumValueDescriptorProto{{Name: proto.String("E_ZERO"), Number: proto.Int32(0), Options: &descriptorpb.EnumValueOptions{}}, {Name: proto.String("E_ONE"), Number: proto.Int32(1)}}}
	e.Options.ProtoReflect().SetUnknown(value("EnumOptions"))
	e.Value[0].Options.ProtoReflect().SetUnknown(value("EnumValueOptions"))
	use.EnumType = append(use.EnumType, e)
	svc := &descriptorpb.ServiceDescriptorProto{Name: proto.String("S"), Options: &descriptorpb.ServiceOptions{}, Method: []*descriptorpb.MethodDescriptorProto{{Name: proto.String("Do"), InputType: proto.String("." + pkg + ".use.M0"), OutputType: proto.String("." + pkg + ".use.M1"), Options: &descriptorpb.MethodOptions{}}}}
	svc.Options.ProtoReflect().SetUnknown(value("ServiceOptions"))
	svc.Method[0].Options.ProtoReflect().SetUnknown(value("MethodOptions"))
	use.Service = append(use.Service, svc)
	if _, err := protodesc.NewFile(use, reg); err != nil {
		return nil, nil, err
	}
	return []*descriptorpb.FileDescriptorProto{descFile, optsFile, use}, []string{prefix + "/opts.proto", prefix + "/use.proto"}, nil
}
