package checks

import (
	"fmt"
	"strings"

	"google.golang.org/protobuf/proto"
	"google.golang.org/protobuf/reflect/protodesc"
	"google.golang.org/protobuf/reflect/protoreflect"
	"google.golang.org/protobuf/reflect/protoregistry"
	"google.golang.org/protobuf/types/descriptorpb"
	"google.golang.org/protobuf/verif/core"
	"google.golang.org/protobuf/verif/gen"
	"google.golang.org/protobuf/verif/model"
)

func init() {
	core.Register(&core.Check{
		ID:     "C34",
		Rule:   "cases: (a) every file descriptor linked into the harness (generated code, built by the compact builder): d -> ToFileDescriptorProto -> NewFile -> d' compared accessor by accessor (deep snapshot: names, numbers, kinds, cardinalities, defaults bit for bit, JSON/text names, presence, packed, options bytes, features-derived accessors, ranges, dependencies, services) and ToFileDescriptorProto idempotent; (b) PRNG-generated valid schemas in protoc-canonical form (proto2, proto3, editions 2023/2024; nested types, maps, groups/DELIMITED, real and synthetic oneofs, extension ranges and extensions, services, reserved ranges/names, defaults of every kind, enum aliases, feature overrides at file/message/field/enum/oneof level, multi-file imports incl. public): NewFile accepts, ToFileDescriptorProto(NewFile(p)) == p (after the documented normalisation: syntax omitted for proto2), and d -> p -> d' snapshot-equal; (c) the same schemas with json_name stripped: accepted, same accessors except HasJSONName; distinct = distinct file descriptor protos; non-trivial = at least one message or enum",
		Assume: []string{"harness/model/descsnap.go reads descriptors only through protoreflect accessors", "proto.Equal on FileDescriptorProto (C30)"},
		Batches: func(tier string) []core.Batch {
			bs := []core.Batch{{Cfg: "base", Name: "linked", Kind: "linked"}, {Cfg: "legacy", Name: "linked-legacy", Kind: "linked"}}
			for i := 0; i < 8; i++ {
				bs = append(bs, core.Batch{Cfg: "base", Name: fmt.Sprintf("gen-%d", i), Kind: "gen", N: i})
			}
			return bs
		},
		Gates: func(tier string) map[string]int64 {
			return map[string]int64{"linked_files": 150, "linked_roundtrip_ok": 150, "gen_schemas": 300, "gen_files": 500, "gen_exact_equal": 500, "gen_proto2": 50, "gen_proto3": 50, "gen_editions": 100, "gen_with_features": 30, "gen_with_extensions": 30, "gen_with_maps": 30, "gen_with_defaults": 30, "gen_with_proto3_optional": 20, "gen_with_groups": 10, "gen_with_services": 20, "gen_with_public_import": 10}
		},
		Run: runC34,
	})
}

// protoDiff returns the path (field names only) of the first difference.
func protoDiff(a, b protoreflect.Message, path string) string {
	if a.Descriptor() != b.Descriptor() {
		return path + "(type)"
	}
	fds := a.Descriptor().Fields()
	for i := 0; i < fds.Len(); i++ {
		fd := fds.Get(i)
		p := path + "." + string(fd.Name())
		if a.Has(fd) != b.Has(fd) {
			return p + "(presence)"
		}
		if !a.Has(fd) {
			continue
		}
		va, vb := a.Get(fd), b.Get(fd)
		switch {
		case fd.IsList():
			if va.List().Len() != vb.List().Len() {
				return p + "(len)"
			}
			for j := 0; j < va.List().Len(); j++ {
				if fd.Message() != nil {
					if d := protoDiff(va.List().Get(j).Message(), vb.List().Get(j).Message(), p); d != "" {
						return d
					}
				} else if !va.List().Get(j).Equal(vb.List().Get(j)) {
					return p
				}
			}
		case fd.IsMap():
			if !va.Equal(vb) {
				return p
			}
		case fd.Message() != nil:
			if d := protoDiff(va.Message(), vb.Message(), p); d != "" {
				return d
			}
		default:
			if !va.Equal(vb) {
				return p
			}
		}
	}
	if string(a.GetUnknown()) != string(b.GetUnknown()) {
		return path + ".<unknown>"
	}
	return ""
}

// fallbackResolver looks in the local registry first, then the global one.
type fallbackResolver struct {
	local *protoregistry.Files
}

func (r fallbackResolver) FindFileByPath(p string) (protoreflect.FileDescriptor, error) {
	if r.local != nil {
		if fd, err := r.local.FindFileByPath(p); err == nil {
			return fd, nil
		}
	}
	return protoregistry.GlobalFiles.FindFileByPath(p)
}
func (r fallbackResolver) FindDescriptorByName(n protoreflect.FullName) (protoreflect.Descriptor, error) {
	if r.local != nil {
		if d, err := r.local.FindDescriptorByName(n); err == nil {
			return d, nil
		}
	}
	return protoregistry.GlobalFiles.FindDescriptorByName(n)
}

func fileHasMessageSet(fd protoreflect.FileDescriptor) bool {
	found := false
	var walk func(ms protoreflect.MessageDescriptors)
	walk = func(ms protoreflect.MessageDescriptors) {
		for i := 0; i < ms.Len(); i++ {
			if gen.IsMessageSet(ms.Get(i)) {
				found = true
			}
			walk(ms.Get(i).Messages())
		}
	}
	walk(fd.Messages())
	return found
}

func linkedFiles() []protoreflect.FileDescriptor {
	var out []protoreflect.FileDescriptor
	protoregistry.GlobalFiles.RangeFiles(func(fd protoreflect.FileDescriptor) bool {
		out = append(out, fd)
		return true
	})
	// deterministic order
	for i := 1; i < len(out); i++ {
		for j := i; j > 0 && out[j].Path() < out[j-1].Path(); j-- {
			out[j], out[j-1] = out[j-1], out[j]
		}
	}
	return out
}

func runC34(c *core.Ctx, b core.Batch) {
	if b.Kind == "linked" {
		c34Linked(c, b)
		return
	}
	c34Gen(c, b)
}

func c34Linked(c *core.Ctx, b core.Batch) {
	for _, fd := range linkedFiles() {
		path := fd.Path()
		c.Eval()
		c.Count("linked_files")
		if !legacyBuild(b) && fileHasMessageSet(fd) {
			c.Count("linked_skipped_messageset")
			continue
		}
		c.Log("C34 linked %s", path)
		var p *descriptorpb.FileDescriptorProto
		if !c.NoPanic("linked:to-proto-panic:"+path, nil, func() { p = protodesc.ToFileDescriptorProto(fd) }) {
			continue
		}
		b0, _ := proto.MarshalOptions{Deterministic: true}.Marshal(p)
		c.DistinctBytes(b0)
		var d2 protoreflect.FileDescriptor
		var err error
		if !c.NoPanic("linked:newfile-panic:"+path, nil, func() { d2, err = protodesc.NewFile(p, protoregistry.GlobalFiles) }) {
			continue
		}
		if err != nil {
			// files whose imports are not registered (hand-written legacy test files) cannot be rebuilt
			unresolved := false
			for i := 0; i < fd.Imports().Len(); i++ {
				if _, e := protoregistry.GlobalFiles.FindFileByPath(fd.Imports().Get(i).Path()); e != nil {
					unresolved = true
				}
			}
			if unresolved {
				c.Count("linked_skipped_unregistered_import")
				continue
			}
			c.Violation("linked:newfile-rejects-own-proto:"+path, map[string]any{"err": errStr(err)})
			continue
		}
		s1 := model.SnapFile(fd, model.DescSnapOpts{})
		s2 := model.SnapFile(d2, model.DescSnapOpts{})
		if x, y := s1.Diff(s2); x != "" || y != "" {
			c.Violation("linked:accessor-differs:"+model.DiffKey(x+y)+":"+path, map[string]any{"original": x, "rebuilt": y})
			continue
		}
		p2 := protodesc.ToFileDescriptorProto(d2)
		if !proto.Equal(p, p2) {
			c.Violation("linked:to-proto-not-idempotent:"+path, map[string]any{"at": protoDiff(p.ProtoReflect(), p2.ProtoReflect(), "file")})
			continue
		}
		c.Count("linked_roundtrip_ok")
		if c.WantSample() && fd.Messages().Len() > 3 {
			c.Sample(map[string]any{"file": path, "snapshot_lines": len(s1.Lines), "first_lines": s1.Lines[:4]})
		}
	}
}

func c34Census(c *core.Ctx, s *gen.Schema) {
	for _, p := range s.Files {
		switch {
		case p.GetSyntax() == "proto3":
			c.Count("gen_proto3")
		case p.GetSyntax() == "editions":
			c.Count("gen_editions")
		default:
			c.Count("gen_proto2")
		}
		if len(p.PublicDependency) > 0 {
			c.Count("gen_with_public_import")
		}
		if len(p.Service) > 0 {
			c.Count("gen_with_services")
		}
		feat, ext, mp, def, p3o, grp := false, len(p.Extension) > 0, false, false, false, false
		if p.GetOptions().GetFeatures() != nil {
			feat = true
		}
		var walk func(ms []*descriptorpb.DescriptorProto)
		walk = func(ms []*descriptorpb.DescriptorProto) {
			for _, m := range ms {
				if m.GetOptions().GetMapEntry() {
					mp = true
				}
				if m.GetOptions().GetFeatures() != nil {
					feat = true
				}
				ext = ext || len(m.Extension) > 0
				for _, f := range m.Field {
					if f.DefaultValue != nil {
						def = true
					}
					if f.GetProto3Optional() {
						p3o = true
					}
					if f.GetType() == descriptorpb.FieldDescriptorProto_TYPE_GROUP || f.GetOptions().GetFeatures().GetMessageEncoding() == descriptorpb.FeatureSet_DELIMITED {
						grp = true
					}
					if f.GetOptions().GetFeatures() != nil {
						feat = true
					}
				}
				walk(m.NestedType)
			}
		}
		walk(p.MessageType)
		for k, v := range map[string]bool{"gen_with_features": feat, "gen_with_extensions": ext, "gen_with_maps": mp, "gen_with_defaults": def, "gen_with_proto3_optional": p3o, "gen_with_groups": grp} {
			if v {
				c.Count(k)
			}
		}
	}
}

func stripJSONNames(p *descriptorpb.FileDescriptorProto) {
	var walk func(ms []*descriptorpb.DescriptorProto)
	walk = func(ms []*descriptorpb.DescriptorProto) {
		for _, m := range ms {
			for _, f := range m.Field {
				if f.GetJsonName() == gen.JSONCamel(f.GetName()) {
					f.JsonName = nil
				}
			}
			walk(m.NestedType)
		}
	}
	walk(p.MessageType)
}

func c34Gen(c *core.Ctx, b core.Batch) {
	n := c.Scale(300, 5000)
	for i := 0; i < n; i++ {
		r := c.Rng(uint64(i))
		o := gen.SchemaOpts{Prefix: fmt.Sprintf("c34.b%d.s%d", b.N, i), Features: i%2 == 0, JSONCollisions: i%5 == 0, LaxTargets: i%7 == 0}
		s := gen.GenSchema(r, o)
		c.Count("gen_schemas")
		reg := &protoregistry.Files{}
		ok := true
		for fi, p := range s.Files {
			c.Eval()
			c.Count("gen_files")
			c.Log("C34 gen schema=%s file=%d", o.Prefix, fi)
			pb, _ := proto.MarshalOptions{Deterministic: true}.Marshal(p)
			c.DistinctBytes(pb)
			var fd protoreflect.FileDescriptor
			var err error
			if !c.NoPanic("gen:newfile-panic", map[string]any{"proto": core.Hex(pb)}, func() { fd, err = protodesc.NewFile(p, fallbackResolver{reg}) }) {
				ok = false
				break
			}
			if err != nil {
				// the generator aims at validity by construction; a rejection is either a generator slip or a defect:
				// reported, so that it is looked at (never silently skipped)
				c.Violation("gen:valid-schema-rejected:"+c34ErrClass(err), map[string]any{"err": errStr(err), "proto": core.Hex(pb), "text": clip(p.String(), 3000)})
				ok = false
				break
			}
			reg.RegisterFile(fd)
			out := protodesc.ToFileDescriptorProto(fd)
			want := proto.Clone(p).(*descriptorpb.FileDescriptorProto)
			if want.GetSyntax() == "proto2" {
				want.Syntax = nil // documented: the default syntax is omitted
			}
			if !proto.Equal(want, out) {
				c.Violation("gen:to-proto-differs:"+protoDiff(want.ProtoReflect(), out.ProtoReflect(), "file"), map[string]any{"proto": core.Hex(pb), "want": clip(want.String(), 2500), "got": clip(out.String(), 2500)})
			} else {
				c.Count("gen_exact_equal")
			}
			// d -> p -> d'
			d2, err := protodesc.NewFile(out, fallbackResolver{reg2(reg, fd)})
			if err != nil {
				c.Violation("gen:newfile-rejects-own-proto:"+c34ErrClass(err), map[string]any{"err": errStr(err), "proto": core.Hex(pb)})
				continue
			}
			s1, s2 := model.SnapFile(fd, model.DescSnapOpts{}), model.SnapFile(d2, model.DescSnapOpts{})
			if x, y := s1.Diff(s2); x != "" || y != "" {
				c.Violation("gen:accessor-differs-after-proto-roundtrip:"+model.DiffKey(x+y), map[string]any{"original": x, "rebuilt": y, "proto": core.Hex(pb)})
			}
			// (c) json_name stripped
			p3 := proto.Clone(p).(*descriptorpb.FileDescriptorProto)
			stripJSONNames(p3)
			d3, err := protodesc.NewFile(p3, fallbackResolver{reg2(reg, fd)})
			if err != nil {
				c.Violation("gen:rejected-without-json-names:"+c34ErrClass(err), map[string]any{"err": errStr(err), "proto": core.Hex(pb)})
				continue
			}
			s3 := model.SnapFile(d3, model.DescSnapOpts{})
			for li := range s1.Lines {
				if li < len(s3.Lines) && s1.Lines[li] != s3.Lines[li] && !strings.Contains(s1.Lines[li], " json=") {
					c.Violation("gen:accessor-differs-without-json-names:"+model.DiffKey(s1.Lines[li]), map[string]any{"with": s1.Lines[li], "without": s3.Lines[li]})
					break
				}
			}
			if c.WantSample() && len(p.MessageType) > 1 && p.GetSyntax() == "editions" {
				c.Sample(map[string]any{"schema": o.Prefix, "file": p.GetName(), "proto_text": clip(p.String(), 500), "snapshot_lines": len(s1.Lines)})
			}
		}
		if ok {
			c34Census(c, s)
		}
	}
}

// reg2 returns a registry holding every file of reg except fd (so that fd can
// be rebuilt without a name conflict being an issue for resolution).
func reg2(reg *protoregistry.Files, fd protoreflect.FileDescriptor) *protoregistry.Files {
	out := &protoregistry.Files{}
	reg.RangeFiles(func(f protoreflect.FileDescriptor) bool {
		if f.Path() != fd.Path() {
			out.RegisterFile(f)
		}
		return true
	})
	return out
}

func c34ErrClass(err error) string {
	s := errStr(err)
	// keep the stable wording after the randomised prefix and before the first quote
	if strings.HasPrefix(s, "proto:") { // the separator after the prefix is randomised (space or NBSP)
		s = strings.TrimLeft(s[len("proto:"):], " \u00a0")
	}
	if i := strings.IndexAny(s, "\"0123456789"); i > 0 {
		s = s[:i]
	}
	return strings.TrimSpace(clip(s, 60))
}
