package checks

import (
	"fmt"

	"google.golang.org/protobuf/reflect/protoreflect"
	"google.golang.org/protobuf/verif/core"
	"google.golang.org/protobuf/verif/gen"
	"google.golang.org/protobuf/verif/model"
)

// opEngine drives a real message and the abstract model in lock step.
type opEngine struct {
	c    *core.Ctx
	r    *core.Rand
	name string
	real protoreflect.Message
	mod  *model.Snap
	log  []string
	fo   gen.MsgOpts
	xts  []protoreflect.ExtensionType
	fp   string // fingerprint prefix
	bad  bool
}

func newEngine(c *core.Ctx, r *core.Rand, m protoreflect.Message, fp string) *opEngine {
	e := &opEngine{c: c, r: r, real: m, mod: model.NewSnap(m.Descriptor()), name: string(m.Descriptor().FullName()), fp: fp}
	e.fo = gen.MsgOpts{AnyUTF8: true, MaxDepth: 1, Density: 40, NoRequired: true}
	if m.Descriptor().ExtensionRanges().Len() > 0 && !gen.IsMessageSet(m.Descriptor()) {
		for _, xt := range gen.ExtensionsOf(nil2global(), m.Descriptor().FullName()) {
			if xd := xt.TypeDescriptor(); xd.Message() == nil || !gen.IsMessageSet(xd.Message()) {
				e.xts = append(e.xts, xt)
			}
		}
	}
	return e
}

func (e *opEngine) violation(what string, extra map[string]any) {
	e.bad = true
	d := map[string]any{"type": e.name, "ops": append([]string{}, e.log...), "model": clip(e.mod.String(), 1200), "real": clip(snapOf(e.real).String(), 1200)}
	for k, v := range extra {
		d[k] = v
	}
	e.c.Violation(e.fp+":"+what, d)
}

func (e *opEngine) note(format string, args ...any) {
	e.log = append(e.log, fmt.Sprintf(format, args...))
	if len(e.log) > 40 {
		e.log = e.log[len(e.log)-40:]
	}
}

// target walks down through populated singular message fields.
func (e *opEngine) target() (protoreflect.Message, *model.Snap, string) {
	rm, mm, path := e.real, e.mod, ""
	for depth := 0; depth < 2 && e.r.Chance(1, 3); depth++ {
		var cands []protoreflect.FieldDescriptor
		fds := rm.Descriptor().Fields()
		for i := 0; i < fds.Len(); i++ {
			fd := fds.Get(i)
			if fd.Message() != nil && !fd.IsList() && !fd.IsMap() && mm.Has(fd) {
				cands = append(cands, fd)
			}
		}
		if len(cands) == 0 {
			break
		}
		fd := cands[e.r.Intn(len(cands))]
		rm = rm.Mutable(fd).Message()
		mm = mm.MutableMessage(fd)
		path += string(fd.Name()) + "."
	}
	return rm, mm, path
}

func (e *opEngine) valOf(fd protoreflect.FieldDescriptor, v protoreflect.Value) model.Val {
	if fd.Message() != nil {
		return model.Val{M: snapOf(v.Message())}
	}
	return model.Val{S: model.ScalarString(fd.Kind(), v)}
}

// newFilled creates a populated value for a message-typed position.
func (e *opEngine) fillMsg(m protoreflect.Message) {
	if e.r.Chance(1, 4) {
		return // leave empty
	}
	gen.Fill(e.r.Fork(7), m, e.fo)
}

// step applies one random legal operation to both.
func (e *opEngine) step() {
	rm, mm, path := e.target()
	md := rm.Descriptor()
	if e.r.Chance(1, 14) && gen.KeepsUnknown(rm) {
		var u []byte
		if e.r.Chance(2, 3) {
			u = gen.RandUnknown(e.r, md, nil2global())
		}
		e.note("set-unknown %s%x", path, u)
		rm.SetUnknown(u)
		mm.SetUnknown(u)
		return
	}
	var fd protoreflect.FieldDescriptor
	if rm == e.real && len(e.xts) > 0 && e.r.Chance(1, 5) {
		fd = e.xts[e.r.Intn(len(e.xts))].TypeDescriptor()
	} else {
		if md.Fields().Len() == 0 {
			return
		}
		fd = md.Fields().Get(e.r.Intn(md.Fields().Len()))
	}
	fname := path + string(fd.Name())
	if fd.IsExtension() {
		fname = path + "[" + string(fd.FullName()) + "]"
	}
	e.c.Count("opfield:" + kindCell(fd))
	switch {
	case fd.IsMap():
		kd, vd := fd.MapKey(), fd.MapValue()
		switch op := e.r.Intn(5); op {
		case 0, 1: // set
			k := gen.RandScalar(e.r, kd, gen.MsgOpts{}).MapKey()
			mp := rm.Mutable(fd).Map()
			var v protoreflect.Value
			if vd.Message() != nil {
				v = mp.NewValue()
				e.fillMsg(v.Message())
			} else {
				v = gen.RandScalar(e.r, vd, e.fo)
			}
			e.note("map-set %s[%s]", fname, model.ScalarString(kd.Kind(), k.Value()))
			mv := e.valOf(vd, v)
			mp.Set(k, v)
			mm.MapSet(fd, model.ScalarString(kd.Kind(), k.Value()), mv)
		case 2: // clear a key
			keys := mm.MapKeys(fd)
			if len(keys) == 0 {
				return
			}
			want := keys[e.r.Intn(len(keys))]
			mp := rm.Mutable(fd).Map()
			var del protoreflect.MapKey
			mp.Range(func(k protoreflect.MapKey, _ protoreflect.Value) bool {
				if model.ScalarString(kd.Kind(), k.Value()) == want {
					del = k
					return false
				}
				return true
			})
			if !del.IsValid() {
				e.violation("map-key-missing:"+kindCell(fd), map[string]any{"key": want})
				return
			}
			e.note("map-clear-key %s[%s]", fname, want)
			mp.Clear(del)
			mm.MapClear(fd, want)
		case 3: // clear field
			e.note("clear %s", fname)
			rm.Clear(fd)
			mm.Clear(fd)
		case 4: // mutable on a message value
			if vd.Message() == nil {
				return
			}
			keys := mm.MapKeys(fd)
			if len(keys) == 0 {
				return
			}
			want := keys[e.r.Intn(len(keys))]
			mp := rm.Mutable(fd).Map()
			mp.Range(func(k protoreflect.MapKey, _ protoreflect.Value) bool {
				if model.ScalarString(kd.Kind(), k.Value()) == want {
					sub := mp.Mutable(k).Message()
					e.note("map-mutable %s[%s] then fill", fname, want)
					gen.Fill(e.r.Fork(9), sub, e.fo)
					mm.MapSet(fd, want, model.Val{M: snapOf(sub)})
					return false
				}
				return true
			})
		}
	case fd.IsList():
		switch op := e.r.Intn(6); op {
		case 0, 1: // append
			l := rm.Mutable(fd).List()
			var v protoreflect.Value
			if fd.Message() != nil {
				v = l.NewElement()
				e.fillMsg(v.Message())
			} else {
				v = gen.RandScalar(e.r, fd, e.fo)
			}
			e.note("list-append %s", fname)
			mv := e.valOf(fd, v)
			l.Append(v)
			mm.ListAppend(fd, mv)
		case 2: // set index
			n := mm.ListLen(fd)
			if n == 0 {
				return
			}
			i := e.r.Intn(n)
			l := rm.Mutable(fd).List()
			var v protoreflect.Value
			if fd.Message() != nil {
				v = l.NewElement()
				e.fillMsg(v.Message())
			} else {
				v = gen.RandScalar(e.r, fd, e.fo)
			}
			e.note("list-set %s[%d]", fname, i)
			mv := e.valOf(fd, v)
			l.Set(i, v)
			mm.ListSet(fd, i, mv)
		case 3: // truncate
			n := mm.ListLen(fd)
			if n == 0 {
				return
			}
			k := e.r.Intn(n + 1)
			e.note("list-truncate %s to %d", fname, k)
			rm.Mutable(fd).List().Truncate(k)
			mm.ListTruncate(fd, k)
		case 4:
			e.note("clear %s", fname)
			rm.Clear(fd)
			mm.Clear(fd)
		case 5: // AppendMutable
			if fd.Message() == nil {
				return
			}
			l := rm.Mutable(fd).List()
			sub := l.AppendMutable().Message()
			e.note("list-append-mutable %s then fill", fname)
			gen.Fill(e.r.Fork(11), sub, e.fo)
			mm.ListAppend(fd, model.Val{M: snapOf(sub)})
		}
	case fd.Message() != nil:
		switch op := e.r.Intn(4); op {
		case 0: // set a new message
			v := rm.NewField(fd)
			e.fillMsg(v.Message())
			e.note("set-message %s", fname)
			sub := snapOf(v.Message())
			rm.Set(fd, v)
			mm.SetMessage(fd, sub)
		case 1: // mutable
			e.note("mutable %s", fname)
			rm.Mutable(fd)
			mm.MutableMessage(fd)
		case 2, 3:
			e.note("clear %s", fname)
			rm.Clear(fd)
			mm.Clear(fd)
		}
	default:
		switch op := e.r.Intn(5); op {
		case 0, 1:
			v := gen.RandScalar(e.r, fd, e.fo)
			e.note("set %s=%s", fname, model.ScalarString(fd.Kind(), v))
			rm.Set(fd, v)
			mm.SetScalar(fd, v)
		case 2: // set to the zero value
			v := fd.Default()
			if fd.Kind() == protoreflect.EnumKind || fd.HasPresence() {
				// explicit zero of the kind, not the declared default
				v = zeroOf(fd)
			}
			e.note("set-zero %s=%s", fname, model.ScalarString(fd.Kind(), v))
			rm.Set(fd, v)
			mm.SetScalar(fd, v)
		case 3, 4:
			e.note("clear %s", fname)
			rm.Clear(fd)
			mm.Clear(fd)
		}
	}
}

func zeroOf(fd protoreflect.FieldDescriptor) protoreflect.Value {
	switch fd.Kind() {
	case protoreflect.BoolKind:
		return protoreflect.ValueOfBool(false)
	case protoreflect.EnumKind:
		return protoreflect.ValueOfEnum(0)
	case protoreflect.Int32Kind, protoreflect.Sint32Kind, protoreflect.Sfixed32Kind:
		return protoreflect.ValueOfInt32(0)
	case protoreflect.Uint32Kind, protoreflect.Fixed32Kind:
		return protoreflect.ValueOfUint32(0)
	case protoreflect.Int64Kind, protoreflect.Sint64Kind, protoreflect.Sfixed64Kind:
		return protoreflect.ValueOfInt64(0)
	case protoreflect.Uint64Kind, protoreflect.Fixed64Kind:
		return protoreflect.ValueOfUint64(0)
	case protoreflect.FloatKind:
		return protoreflect.ValueOfFloat32(0)
	case protoreflect.DoubleKind:
		return protoreflect.ValueOfFloat64(0)
	case protoreflect.StringKind:
		return protoreflect.ValueOfString("")
	case protoreflect.BytesKind:
		return protoreflect.ValueOfBytes(nil)
	}
	return fd.Default()
}

// verify compares every observable of the real message with the model.
func (e *opEngine) verify() bool {
	e.verifyMsg(e.real, e.mod, "")
	if got, want := snapOf(e.real).String(), e.mod.String(); got != want {
		e.violation("content:"+firstDiff(e.mod, snapOf(e.real)), nil)
	}
	return !e.bad
}

func (e *opEngine) verifyMsg(rm protoreflect.Message, mm *model.Snap, path string) {
	md := rm.Descriptor()
	fds := md.Fields()
	check := func(fd protoreflect.FieldDescriptor) {
		has, mhas := rm.Has(fd), mm.Has(fd)
		if has != mhas {
			e.violation(fmt.Sprintf("has:%s:real=%v", kindCell(fd), has), map[string]any{"field": path + string(fd.FullName())})
			return
		}
		if mhas {
			return
		}
		// unpopulated: defaults and read-only empty composites
		v := rm.Get(fd)
		switch {
		case fd.IsExtension() && (fd.IsList() || fd.IsMap()):
			// tolerance: an extension list emptied by Truncate stays stored (valid, empty);
			// Has is false, which is what the contract requires
			if fd.IsList() && v.List().Len() != 0 {
				e.violation("unset-list-not-empty:"+kindCell(fd), map[string]any{"field": path + string(fd.FullName())})
			}
		case fd.IsMap():
			if v.Map().Len() != 0 || v.Map().IsValid() {
				e.violation("unset-map-not-empty-readonly:"+kindCell(fd), map[string]any{"field": path + string(fd.FullName())})
			}
		case fd.IsList():
			if v.List().Len() != 0 || v.List().IsValid() {
				e.violation("unset-list-not-empty-readonly:"+kindCell(fd), map[string]any{"field": path + string(fd.FullName())})
			}
		case fd.Message() != nil:
			if v.Message().IsValid() || snapOf(v.Message()).NumPopulated() != 0 {
				e.violation("unset-message-not-empty-readonly:"+kindCell(fd), map[string]any{"field": path + string(fd.FullName())})
			}
		default:
			if got, want := model.ScalarString(fd.Kind(), v), model.ScalarString(fd.Kind(), fd.Default()); got != want {
				e.violation("unset-scalar-not-default:"+kindCell(fd), map[string]any{"field": path + string(fd.FullName()), "got": got, "default": want})
			}
		}
	}
	for i := 0; i < fds.Len(); i++ {
		check(fds.Get(i))
	}
	if rm == e.real {
		for _, xt := range e.xts {
			check(xt.TypeDescriptor())
		}
	}
	for i := 0; i < md.Oneofs().Len(); i++ {
		od := md.Oneofs().Get(i)
		n := 0
		for j := 0; j < od.Fields().Len(); j++ {
			if rm.Has(od.Fields().Get(j)) {
				n++
			}
		}
		w := rm.WhichOneof(od)
		mw := mm.WhichOneof(od)
		var wn protoreflect.FieldNumber
		if w != nil {
			wn = w.Number()
		}
		if n > 1 || wn != mw {
			e.violation("oneof:"+string(od.FullName()), map[string]any{"populated_members": n, "which": wn, "model_which": mw})
		}
	}
	// recurse into populated singular messages
	for i := 0; i < fds.Len(); i++ {
		fd := fds.Get(i)
		if fd.Message() != nil && !fd.IsList() && !fd.IsMap() && mm.Has(fd) && rm.Has(fd) && len(path) < 60 {
			if sub := mm.Sub(fd); sub != nil {
				e.verifyMsg(rm.Get(fd).Message(), sub, path+string(fd.Name())+".")
			}
		}
	}
}
