package checks

import (
	"fmt"
	"strings"
	"sync"

	"google.golang.org/protobuf/internal/impl"
	"google.golang.org/protobuf/proto"
	"google.golang.org/protobuf/reflect/protoreflect"
	"google.golang.org/protobuf/verif/core"
	"google.golang.org/protobuf/verif/gen"
	"google.golang.org/protobuf/verif/mon"
)

func init() {
	core.Register(&core.Check{
		ID:     "C16",
		Rule:   "cases: PRNG histories of 6..40 operations on nested messages of every corpus type (generated; lazily decoded trees of the lazy types): reflection mutations at depth 0..2 through retained submessage handles (set/clear/list/map/oneof/unknown/extension), Size(root), Size(retained child), Marshal(root) with every option combination, Marshal(root) with UseCachedSize directly after Size, Marshal(child), Clone, Equal, in PRNG order; after every Marshal the output is decoded and compared with the current content; under the verif hook every size-cache hit inside the library is recomputed from scratch; distinct = distinct (type, final deterministic encoding, first operations); non-trivial = at least one mutation between two Marshal calls",
		Assume: []string{"proto.Equal and proto.Unmarshal of well-formed output (C03, C30)", "verif hook in impl.sizePointer: recomputation with cache reads and stores suppressed"},
		Batches: func(tier string) []core.Batch {
			return stdBatches([]string{"base"}, 16)
		},
		Gates: func(tier string) map[string]int64 {
			return map[string]int64{"histories": 3000, "marshals": 20000, "mutations": 20000, "mutation_after_cached_size": 5000, "size_cache_hits": 10000, "deep_mutations": 500, "lazy_histories": 100, "lazy_expanded_then_mutated": 50, "use_cached_size_marshals": 2000}
		},
		Run: runC16,
	})
}

func c16Marshal(c *core.Ctx, fp, name string, m protoreflect.Message, o proto.MarshalOptions, ops func() []string) {
	c.Eval()
	c.Count("marshals")
	var out []byte
	var err error
	det := func() map[string]any {
		return map[string]any{"type": name, "ops": ops(), "opts": fmt.Sprintf("det=%v cached=%v", o.Deterministic, o.UseCachedSize), "content": clip(snapOf(m).String(), 1500)}
	}
	if !c.NoPanic(fp+":marshal-panic:"+name, det(), func() { out, err = o.Marshal(m.Interface()) }) {
		return
	}
	if err != nil {
		d := det()
		d["err"] = errStr(err)
		c.Violation(fp+":marshal-error:"+name, d)
		return
	}
	m2 := m.Type().New()
	if err := (proto.UnmarshalOptions{AllowPartial: true}).Unmarshal(out, m2.Interface()); err != nil {
		d := det()
		d["err"], d["out"] = errStr(err), core.Hex(out)
		c.Violation(fp+":output-does-not-decode:"+name, d)
		return
	}
	if !proto.Equal(m2.Interface(), m.Interface()) {
		d := det()
		d["out"], d["decoded"] = core.Hex(out), clip(snapOf(m2).String(), 1500)
		c.Violation(fp+":output-is-not-current-content:"+name, d)
	}
}

func runC16(c *core.Ctx, b core.Batch) {
	var mu sync.Mutex
	var curType string
	var curOps func() []string
	st := mon.WatchSizeCache(func(mi *impl.MessageInfo, cached, recomputed int) {
		mu.Lock()
		defer mu.Unlock()
		var ops []string
		if curOps != nil {
			ops = curOps()
		}
		c.Violation("sizecache:stale-hit:"+string(mi.Desc.FullName()), map[string]any{"cached": cached, "recomputed": recomputed, "root_type": curType, "ops": ops})
	})
	defer func() {
		c.CountN("size_cache_hits", st.Hits.Load())
		c.CountN("size_cache_mismatches", st.Mismatch.Load())
	}()

	types := shard(codecTypes(b), b.N, 16)
	per := c.Scale(8, 120)
	for ti, mt := range types {
		for k := 0; k < per; k++ {
			r := c.Rng(uint64(ti)<<24 | uint64(k))
			m := mt.New()
			e := newEngine(c, r, m, "sizecache")
			e.fo.MaxDepth = 2
			ops := func() []string { return append([]string{}, e.log...) }
			mu.Lock()
			curType, curOps = e.name, ops
			mu.Unlock()
			c.Count("histories")
			n := 6 + r.Intn(35)
			sizedSinceMutation := false
			mutatedSinceMarshal := false
			var child protoreflect.Message // a retained submessage handle
			for i := 0; i < n && !e.bad; i++ {
				c.Log("C16 type=%s ops=%v", e.name, e.log)
				switch op := r.Intn(12); {
				case op < 5: // mutate
					before := len(e.log)
					if !c.NoPanic("sizecache:panic-in-mutation:"+e.name, map[string]any{"ops": e.log}, func() { e.step() }) {
						e.bad = true
						break
					}
					if len(e.log) > before {
						c.Count("mutations")
						if sizedSinceMutation {
							c.Count("mutation_after_cached_size")
						}
						if last := e.log[len(e.log)-1]; countDots(last) > 0 {
							c.Count("deep_mutations")
						}
						sizedSinceMutation = false
						mutatedSinceMarshal = true
					}
				case op == 5: // Size(root)
					e.note("Size(root)=%d", proto.MarshalOptions{AllowPartial: true}.Size(m.Interface()))
					sizedSinceMutation = true
				case op == 6: // retain a child and Size it
					sub, _, path := e.target()
					if sub != m {
						child = sub
						e.note("Size(%s)=%d", path, proto.Size(sub.Interface()))
						sizedSinceMutation = true
					}
				case op == 7: // Marshal(child)
					if child != nil && child.IsValid() {
						e.note("Marshal(retained child %s)", child.Descriptor().Name())
						c16Marshal(c, "sizecache-child", e.name, child, proto.MarshalOptions{AllowPartial: true}, ops)
					}
				case op == 8: // Size then Marshal with UseCachedSize: legal, nothing in between
					sz := proto.MarshalOptions{AllowPartial: true}.Size(m.Interface())
					e.note("Size(root)=%d; Marshal(root, UseCachedSize)", sz)
					c.Count("use_cached_size_marshals")
					c16Marshal(c, "sizecache", e.name, m, proto.MarshalOptions{AllowPartial: true, UseCachedSize: true, Deterministic: r.Bool()}, ops)
					sizedSinceMutation = true
				case op == 9: // Clone / Equal
					cl := proto.Clone(m.Interface())
					e.note("Clone;Equal")
					if !proto.Equal(cl, m.Interface()) {
						e.violation("clone-not-equal", nil)
					}
					c16Marshal(c, "sizecache-clone", e.name, cl.ProtoReflect(), proto.MarshalOptions{AllowPartial: true}, ops)
				default: // Marshal(root)
					e.note("Marshal(root)")
					if mutatedSinceMarshal {
						c.Count("marshal_after_mutation")
					}
					c16Marshal(c, "sizecache", e.name, m, proto.MarshalOptions{AllowPartial: true, Deterministic: r.Bool()}, ops)
					mutatedSinceMarshal = false
					sizedSinceMutation = true
				}
			}
			if !e.bad {
				c16Marshal(c, "sizecache", e.name, m, proto.MarshalOptions{AllowPartial: true, Deterministic: true}, ops)
				if enc, err := detBytes(m); err == nil && len(e.log) > 2 && len(enc) > 0 {
					c.DistinctBytes([]byte(e.name), enc, []byte(e.log[0]), []byte(e.log[1]))
				}
				if c.WantSample() && len(e.log) > 8 && len(e.log) < 30 {
					c.Sample(map[string]any{"type": e.name, "history": ops()})
				}
			}
		}
	}
	if b.N < 8 {
		c16Lazy(c, b, &mu, &curType, &curOps)
	}
}

func countDots(s string) int {
	// operations on nested targets are logged as "verb field.sub.name..."; count the dots of the field path only
	i := strings.IndexByte(s, ' ')
	if i < 0 {
		return 0
	}
	s = s[i+1:]
	if j := strings.IndexAny(s, " =["); j >= 0 {
		s = s[:j]
	}
	return strings.Count(s, ".")
}

// c16Lazy: histories on lazily decoded trees: Size before expansion, expansion by access,
// mutation of the expanded submessage, Marshal.
func c16Lazy(c *core.Ctx, b core.Batch, mu *sync.Mutex, curType *string, curOps *func() []string) {
	for _, mt := range gen.LazyTypes() {
		name := string(mt.Descriptor().FullName())
		for k := 0; k < c.Scale(10, 200); k++ {
			r := c.Rng(uint64(HashName(name))<<12 | uint64(k) | uint64(b.N)<<40)
			src := mt.New()
			gen.Fill(r, src, gen.MsgOpts{Density: 70, MaxDepth: 4})
			enc, err := proto.MarshalOptions{AllowPartial: true}.Marshal(src.Interface())
			if err != nil {
				continue
			}
			m := mt.New()
			if (proto.UnmarshalOptions{AllowPartial: true}).Unmarshal(enc, m.Interface()) != nil {
				continue
			}
			c.Count("lazy_histories")
			var log []string
			ops := func() []string { return append([]string{"lazy-decode " + core.Hex(enc)}, log...) }
			mu.Lock()
			*curType, *curOps = name, ops
			mu.Unlock()
			for i, n := 0, 4+r.Intn(10); i < n; i++ {
				c.Log("C16 lazy type=%s wire=%x ops=%v", name, enc, log)
				switch r.Intn(4) {
				case 0:
					log = append(log, fmt.Sprintf("Size=%d", proto.MarshalOptions{AllowPartial: true}.Size(m.Interface())))
				case 1, 2:
					// walk down through populated message fields (expands lazy ones) and set a scalar
					cur := m
					path := ""
					expanded := false
					for d := 0; d < 1+r.Intn(3); d++ {
						var cands []protoreflect.FieldDescriptor
						cur.Range(func(fd protoreflect.FieldDescriptor, _ protoreflect.Value) bool {
							if fd.Message() != nil && !fd.IsList() && !fd.IsMap() {
								cands = append(cands, fd)
							}
							return true
						})
						if len(cands) == 0 {
							break
						}
						fd := cands[r.Intn(len(cands))]
						cur = cur.Mutable(fd).Message()
						path += string(fd.Name()) + "."
						expanded = true
					}
					var scalars []protoreflect.FieldDescriptor
					fds := cur.Descriptor().Fields()
					for j := 0; j < fds.Len(); j++ {
						if fd := fds.Get(j); fd.Message() == nil && !fd.IsList() && !fd.IsMap() {
							scalars = append(scalars, fd)
						}
					}
					if len(scalars) == 0 {
						continue
					}
					fd := scalars[r.Intn(len(scalars))]
					if r.Chance(1, 4) {
						cur.Clear(fd)
						log = append(log, "clear "+path+string(fd.Name()))
					} else {
						cur.Set(fd, gen.RandScalar(r, fd, gen.MsgOpts{}))
						log = append(log, "set "+path+string(fd.Name()))
					}
					c.Count("mutations")
					if expanded {
						c.Count("lazy_expanded_then_mutated")
					}
				default:
					log = append(log, "Marshal")
					c16Marshal(c, "sizecache-lazy", name, m, proto.MarshalOptions{AllowPartial: true, Deterministic: r.Bool()}, ops)
				}
			}
			c16Marshal(c, "sizecache-lazy", name, m, proto.MarshalOptions{AllowPartial: true}, ops)
			if d, err := detBytes(m); err == nil {
				c.DistinctBytes([]byte(name), d, []byte("lazy"))
			}
		}
	}
}
