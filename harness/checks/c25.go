package checks

import (
	"bytes"
	"fmt"

	"google.golang.org/protobuf/encoding/prototext"
	"google.golang.org/protobuf/encoding/protowire"
	"google.golang.org/protobuf/internal/encoding/text"
	"google.golang.org/protobuf/proto"
	"google.golang.org/protobuf/reflect/protoreflect"
	"google.golang.org/protobuf/types/dynamicpb"
	"google.golang.org/protobuf/verif/core"
	"google.golang.org/protobuf/verif/gen"
)

func init() {
	core.Register(&core.Check{
		ID:         "C25",
		Rule:       "cases: every 1-byte and 2-byte string (every 3-byte string in thorough) plus PRNG strings biased to invalid UTF-8, C0/C1 controls, U+FFFD, astral runes, quotes, backslashes and escape look-alikes, each written as a text string literal through the internal text encoder and through prototext.Marshal of a non-validated (proto2) string field and a bytes field, with and without EmitASCII, single- and multi-line, then parsed back; plus PRNG well-formed unknown-field sets (nested groups, length-delimited values that do or do not parse as messages) rendered with EmitUnknown by Marshal and Format on generated and dynamic messages; distinct = distinct (byte string) or (unknown set); non-trivial = non-empty",
		Assume:     []string{"bytes.Equal; printable ASCII = 0x20..0x7e"},
		Exhaustive: func(tier string) bool { return false },
		Batches: func(tier string) []core.Batch {
			return stdBatches([]string{"base"}, 16)
		},
		Gates: func(tier string) map[string]int64 {
			return map[string]int64{"literals": 100000, "exhaustive_2byte": 65536, "exhaustive_1byte": 256, "invalid_utf8": 10000, "c1_controls": 100, "astral": 100, "unknown_rendered": 2000, "unknown_groups": 100, "ascii_outputs": 50000}
		},
		Run: runC25,
	})
}

const c25Type = "goproto.proto.test.TestAllTypes"

func c25PrintableASCII(out []byte, multiline bool) int {
	for i, b := range out {
		if b >= 0x20 && b <= 0x7e {
			continue
		}
		if multiline && b == '\n' {
			continue
		}
		return i
	}
	return -1
}

func c25Literal(c *core.Ctx, mt protoreflect.MessageType, s []byte, full bool) {
	c.Eval()
	c.Count("literals")
	if len(s) > 0 {
		c.Distinct(core.HashBytes(s))
	}
	c.Log("C25 literal %x", s)
	class := c25Class(s)
	// level 1: the text encoder/decoder pair alone
	for _, ascii := range []bool{false, true} {
		var out []byte
		if !c.NoPanic("literal:encoder-panic", map[string]any{"bytes": core.Hex(s)}, func() {
			e, err := text.NewEncoder(nil, "", [2]byte{}, ascii)
			if err != nil {
				panic(err)
			}
			e.WriteName("f")
			e.WriteString(string(s))
			out = append([]byte(nil), e.Bytes()...)
		}) {
			continue
		}
		if ascii {
			c.Count("ascii_outputs")
			if i := c25PrintableASCII(out, false); i >= 0 {
				c.Violation("literal:EmitASCII-nonprintable:"+class, map[string]any{"bytes": core.Hex(s), "out": core.Hex(out), "at": i})
			}
		}
		var back []byte
		var perr error
		if !c.NoPanic("literal:decoder-panic", map[string]any{"bytes": core.Hex(s), "out": core.Hex(out)}, func() {
			d := text.NewDecoder(out)
			tok, err := d.Read() // name
			if err != nil {
				perr = err
				return
			}
			_ = tok
			tok, err = d.Read()
			if err != nil {
				perr = err
				return
			}
			str, ok := tok.String()
			if !ok {
				perr = fmt.Errorf("token is not a string: kind %v", tok.Kind())
				return
			}
			back = []byte(str)
		}) {
			continue
		}
		if perr != nil || !bytes.Equal(back, s) {
			c.Violation(fmt.Sprintf("literal:roundtrip:ascii=%v:%s", ascii, class), map[string]any{"bytes": core.Hex(s), "out": string(out), "back": core.Hex(back), "err": errStr(perr)})
		}
	}
	if !full {
		return
	}
	// level 2: through prototext on a non-validated string field and a bytes field
	md := mt.Descriptor()
	for _, fname := range []protoreflect.Name{"optional_string", "optional_bytes"} {
		fd := md.Fields().ByName(fname)
		m := mt.New()
		if fd.Kind() == protoreflect.BytesKind {
			m.Set(fd, protoreflect.ValueOfBytes(append([]byte{}, s...)))
		} else {
			m.Set(fd, protoreflect.ValueOfString(string(s)))
		}
		for oi, o := range []prototext.MarshalOptions{{}, {EmitASCII: true}, {Multiline: true, EmitASCII: true}, {Multiline: true, Indent: "\t"}} {
			out, err := o.Marshal(m.Interface())
			det := map[string]any{"bytes": core.Hex(s), "field": string(fname), "opts": oi, "out": string(out), "err": errStr(err)}
			if err != nil {
				c.Violation(fmt.Sprintf("prototext:marshal-error:%s:%s", fname, class), det)
				continue
			}
			if o.EmitASCII {
				c.Count("ascii_outputs")
				if i := c25PrintableASCII(out, o.Multiline); i >= 0 {
					det["at"] = i
					c.Violation(fmt.Sprintf("prototext:EmitASCII-nonprintable:%s:%s", fname, class), det)
				}
			}
			m2 := mt.New()
			if err := prototext.Unmarshal(out, m2.Interface()); err != nil {
				det["err"] = errStr(err)
				c.Violation(fmt.Sprintf("prototext:unmarshal-error:%s:%s", fname, class), det)
				continue
			}
			var back []byte
			if fd.Kind() == protoreflect.BytesKind {
				back = m2.Get(fd).Bytes()
			} else {
				back = []byte(m2.Get(fd).String())
			}
			if !bytes.Equal(back, s) || !m2.Has(fd) {
				det["back"] = core.Hex(back)
				c.Violation(fmt.Sprintf("prototext:roundtrip:%s:%s", fname, class), det)
			}
		}
	}
	if c.WantSample() && len(s) > 3 && class == "invalid-utf8" {
		e, _ := text.NewEncoder(nil, "", [2]byte{}, true)
		e.WriteString(string(s))
		c.Sample(map[string]any{"bytes": core.Hex(s), "class": class, "ascii_literal": string(e.Bytes())})
	}
}

// c25Class names the rune class of a byte string (fingerprint component and coverage counters).
func c25Class(s []byte) string {
	cls := "ascii"
	for _, r := range string(s) {
		switch {
		case r == 0xfffd:
			cls = "fffd-or-invalid"
		case r >= 0x10000:
			if cls == "ascii" || cls == "bmp" {
				cls = "astral"
			}
		case r >= 0x80 && r < 0xa0:
			if cls == "ascii" || cls == "bmp" {
				cls = "c1"
			}
		case r >= 0x80:
			if cls == "ascii" {
				cls = "bmp"
			}
		case r < 0x20 || r == 0x7f:
			if cls == "ascii" {
				cls = "c0"
			}
		}
	}
	if cls == "fffd-or-invalid" {
		if bytes.Contains(s, []byte("\xef\xbf\xbd")) && len(bytes.ToValidUTF8(s, nil)) == len(s) {
			return "fffd"
		}
		return "invalid-utf8"
	}
	return cls
}

func c25RandString(r *core.Rand) []byte {
	var b []byte
	pieces := [][]byte{
		[]byte(`"`), []byte(`'`), []byte(`\`), []byte(`\x41`), []byte(`\101`), []byte(`\u1234`), []byte(`\U0001F600`), []byte("??/"), []byte("\n"), []byte("\r"), []byte("\t"), {0}, {0x7f},
		{0x80}, {0xbf}, {0xc0, 0x80}, {0xc2}, {0xe0, 0x80, 0x80}, {0xed, 0xa0, 0x80}, {0xed, 0xbf, 0xbf}, {0xf4, 0x90, 0x80, 0x80}, {0xf0, 0x9f}, {0xff}, {0xfe},
		[]byte("\u0080"), []byte("\u0085"), []byte("\u009f"), []byte("\u00a0"), []byte("\ufffd"), []byte("\ufeff"), []byte("\u2028"), []byte("\U0001F600"), []byte("\U0010FFFF"), []byte("\uffff"), []byte("\U00010000"),
		[]byte("abc"), []byte(" "), []byte("~"), []byte("0"),
	}
	for i, n := 0, 1+r.Intn(8); i < n; i++ {
		if r.Chance(1, 5) {
			b = append(b, r.Bytes(1+r.Intn(4))...)
		} else {
			b = append(b, pieces[r.Intn(len(pieces))]...)
		}
	}
	return b
}

func c25Unknown(c *core.Ctx, b core.Batch) {
	types := shard(codecTypes(b), b.N, 16)
	per := c.Scale(8, 120)
	for ti, mt := range types {
		md := mt.Descriptor()
		name := string(md.FullName())
		if !gen.KeepsUnknown(mt.New()) {
			continue
		}
		for k := 0; k < per; k++ {
			r := c.Rng(uint64(ti)<<20 | uint64(k) | 1<<50)
			unk := gen.RandUnknown(r, md, nil2global())
			if k%3 == 0 { // nested groups and a length-delimited value that happens to parse as a message
				unk = protowire.AppendTag(unk, 19001, protowire.StartGroupType)
				unk = gen.AppendRandField(r, unk, 3, 2)
				unk = protowire.AppendTag(unk, 7, protowire.StartGroupType)
				unk = protowire.AppendTag(unk, 7, protowire.EndGroupType)
				unk = protowire.AppendTag(unk, 19001, protowire.EndGroupType)
				unk = protowire.AppendTag(unk, 19002, protowire.BytesType)
				unk = protowire.AppendBytes(unk, gen.AppendRandField(r, nil, 1, 1))
				unk = protowire.AppendTag(unk, 19003, protowire.BytesType)
				unk = protowire.AppendBytes(unk, c25RandString(r))
				c.Count("unknown_groups")
			}
			for _, dyn := range []bool{false, true} {
				var m protoreflect.Message
				if dyn {
					m = dynamicpb.NewMessage(md)
				} else {
					m = mt.New()
				}
				m.SetUnknown(append(protoreflect.RawFields(nil), unk...))
				c.Eval()
				c.Count("unknown_rendered")
				c.DistinctBytes([]byte(name), unk)
				c.Log("C25 unknown type=%s dyn=%v unknown=%x", name, dyn, unk)
				for oi, o := range []prototext.MarshalOptions{{EmitUnknown: true, AllowPartial: true}, {EmitUnknown: true, AllowPartial: true, Multiline: true, EmitASCII: true}} {
					det := map[string]any{"type": name, "dynamic": dyn, "unknown": core.Hex(unk), "opts": oi}
					var out []byte
					var err error
					if !c.NoPanic("unknown:marshal-panic", det, func() { out, err = o.Marshal(m.Interface()) }) {
						continue
					}
					if err != nil {
						det["err"] = errStr(err)
						c.Violation("unknown:marshal-error", det)
					}
					var f string
					if !c.NoPanic("unknown:format-panic", det, func() { f = o.Format(m.Interface()) }) {
						continue
					}
					if err == nil && len(unk) > 0 && (len(out) == 0 || len(f) == 0) {
						c.Violation("unknown:rendered-empty", det)
					}
					if o.EmitASCII && err == nil {
						if i := c25PrintableASCII(out, true); i >= 0 {
							det["out"] = string(out)
							c.Violation("unknown:EmitASCII-nonprintable", det)
						}
					}
				}
				if c.WantSample() && k%3 == 0 && !dyn && len(unk) < 80 {
					c.Sample(map[string]any{"type": name, "unknown": core.Hex(unk), "text": prototext.MarshalOptions{EmitUnknown: true}.Format(m.Interface())})
				}
			}
		}
	}
	_ = proto.Equal
}

func runC25(c *core.Ctx, b core.Batch) {
	mt := gen.TypeByName(c25Type)
	if mt == nil {
		c.Violation("harness:type-missing:"+c25Type, nil)
		return
	}
	// exhaustive 1- and 2-byte strings, sharded by first byte
	for x := b.N; x < 256; x += 16 {
		c25Literal(c, mt, []byte{byte(x)}, true)
		c.Count("exhaustive_1byte")
		for y := 0; y < 256; y++ {
			c25Literal(c, mt, []byte{byte(x), byte(y)}, true)
			c.Count("exhaustive_2byte")
			if !c.Quick() {
				for z := 0; z < 256; z++ {
					c25Literal(c, mt, []byte{byte(x), byte(y), byte(z)}, false)
					c.Count("exhaustive_3byte")
				}
			}
		}
	}
	if b.N == 0 {
		c25Literal(c, mt, nil, true)
	}
	n := c.Scale(4000, 200000)
	for k := 0; k < n; k++ {
		s := c25RandString(c.Rng(uint64(k)))
		switch c25Class(s) {
		case "invalid-utf8":
			c.Count("invalid_utf8")
		case "c1":
			c.Count("c1_controls")
		case "astral":
			c.Count("astral")
		}
		c25Literal(c, mt, s, true)
	}
	// the exhaustive part contributes the invalid sequences of length <= 2
	c.CountN("invalid_utf8", 0)
	c25Unknown(c, b)
}
