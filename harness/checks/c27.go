package checks

import (
	"bufio"
	"bytes"
	"errors"
	"fmt"
	"io"
	"strings"

	"google.golang.org/protobuf/encoding/protodelim"
	"google.golang.org/protobuf/encoding/protowire"
	"google.golang.org/protobuf/proto"
	"google.golang.org/protobuf/reflect/protoreflect"
	"google.golang.org/protobuf/types/known/wrapperspb"
	"google.golang.org/protobuf/verif/core"
	"google.golang.org/protobuf/verif/gen"
)

func init() {
	core.Register(&core.Check{
		ID:     "C27",
		Rule:   "cases: (rejected bodies) well-framed streams in which some frame bodies are rejected by the message decoder (malformed wire data, invalid UTF-8 in a validated string, a required field missing and no AllowPartial): one result per frame then io.EOF, the later frames decode, and every reader kind reports the same sequence; sequences of 1..5 PRNG-filled messages of corpus types (empty messages, sizes crossing the 1/2/3-byte size varint and the bufio buffer sizes, one 4 MiB pair) written with MarshalTo, then read back from the stream cut at every offset (streams > 1500 bytes: every offset near the ends and +-12 of each boundary plus PRNG offsets) through bufio readers of size 16/17/64/4096 (over whole and one-byte-at-a-time sources), a byte-at-a-time Reader, a short-read Reader and bytes.Reader; MaxSize in {size-1,size,size+1,0,-1} per message; distinct = distinct (stream, cut offset, reader); non-trivial = non-empty stream",
		Assume: []string{"reference framing: stream = concat(varint(len(Marshal(m))) + Marshal(m)); protowire.AppendVarint (C01)", "proto.Equal (C30)"},
		Batches: func(tier string) []core.Batch {
			bs := stdBatches([]string{"base"}, 15)
			return append(bs, core.Batch{Cfg: "base", Name: "big", Kind: "big"})
		},
		Gates: func(tier string) map[string]int64 {
			return map[string]int64{"streams": 200, "cuts": 20000, "cut_in_size": 500, "cut_in_body": 5000, "cut_at_boundary": 1000, "size_varint_2": 20, "size_varint_3": 1,
				"empty_messages": 20, "reused_destination_reads": 2000, "reused_destination_empty_frames": 300, "too_large": 100, "maxsize_ok": 100, "messages_read": 20000, "bufio_fallback": 100, "rejected_body_streams": 20, "rejected_body_frames": 30}
		},
		Run: runC27,
	})
}

// oneByteReader yields at most one byte per Read.
type oneByteReader struct{ b []byte }

func (r *oneByteReader) Read(p []byte) (int, error) {
	if len(r.b) == 0 {
		return 0, io.EOF
	}
	if len(p) == 0 {
		return 0, nil
	}
	p[0] = r.b[0]
	r.b = r.b[1:]
	return 1, nil
}
func (r *oneByteReader) ReadByte() (byte, error) {
	if len(r.b) == 0 {
		return 0, io.EOF
	}
	c := r.b[0]
	r.b = r.b[1:]
	return c, nil
}

// shortReader returns PRNG-sized partial reads.
type shortReader struct {
	b []byte
	r *core.Rand
}

func (r *shortReader) Read(p []byte) (int, error) {
	if len(r.b) == 0 {
		return 0, io.EOF
	}
	n := 1 + r.r.Intn(7)
	if n > len(p) {
		n = len(p)
	}
	if n > len(r.b) {
		n = len(r.b)
	}
	copy(p, r.b[:n])
	r.b = r.b[n:]
	return n, nil
}
func (r *shortReader) ReadByte() (byte, error) {
	if len(r.b) == 0 {
		return 0, io.EOF
	}
	c := r.b[0]
	r.b = r.b[1:]
	return c, nil
}

var c27Readers = []string{"bufio16", "bufio17", "bufio64", "bufio4096", "bufio16-onebyte", "onebyte", "short", "bytes"}

func c27Reader(kind string, data []byte, r *core.Rand) protodelim.Reader {
	// the reader owns a private copy so that later mutation of data cannot help it
	d := append([]byte(nil), data...)
	switch kind {
	case "bufio16":
		return bufio.NewReaderSize(bytes.NewReader(d), 16)
	case "bufio17":
		return bufio.NewReaderSize(bytes.NewReader(d), 17)
	case "bufio64":
		return bufio.NewReaderSize(bytes.NewReader(d), 64)
	case "bufio4096":
		return bufio.NewReaderSize(bytes.NewReader(d), 4096)
	case "bufio16-onebyte":
		return bufio.NewReaderSize(&oneByteReader{d}, 16)
	case "onebyte":
		return &oneByteReader{d}
	case "short":
		return &shortReader{d, r}
	}
	return bytes.NewReader(d)
}

type c27Stream struct {
	msgs   []protoreflect.Message
	encs   [][]byte
	stream []byte
	ends   []int // end offset of each frame
	starts []int // offset of each frame's body
	hash   uint64
}

func c27Build(c *core.Ctx, msgs []protoreflect.Message) *c27Stream {
	s := &c27Stream{msgs: msgs}
	var w bytes.Buffer
	mo := proto.MarshalOptions{AllowPartial: true, Deterministic: true}
	for _, m := range msgs {
		enc, err := mo.Marshal(m.Interface())
		if err != nil {
			return nil
		}
		before := w.Len()
		n, err := protodelim.MarshalOptions{MarshalOptions: mo}.MarshalTo(&w, m.Interface())
		name := string(m.Descriptor().FullName())
		if err != nil {
			c.Violation("marshalto:error:"+name, map[string]any{"err": errStr(err)})
			return nil
		}
		want := append(protowire.AppendVarint(nil, uint64(len(enc))), enc...)
		got := w.Bytes()[before:]
		if n != len(got) {
			c.Violation("marshalto:returned-count", map[string]any{"type": name, "n": n, "written": len(got)})
		}
		if !bytes.Equal(got, want) {
			c.Violation("marshalto:framing:"+name, map[string]any{"got": core.Hex(got), "want": core.Hex(want)})
			return nil
		}
		s.encs = append(s.encs, enc)
		s.starts = append(s.starts, before+len(want)-len(enc))
		s.ends = append(s.ends, w.Len())
		c.Count(fmt.Sprintf("size_varint_%d", len(want)-len(enc)))
		if len(enc) == 0 {
			c.Count("empty_messages")
		}
	}
	s.stream = append([]byte(nil), w.Bytes()...)
	s.hash = core.HashBytes(s.stream)
	return s
}

// c27ReadCut reads the stream cut at offset t through the reader kind and
// compares the outcome with the reference framing.
func c27ReadCut(c *core.Ctx, s *c27Stream, t int, kind string, r *core.Rand) {
	c.Eval()
	c.Count("cuts")
	c.Distinct(s.hash*31 + uint64(t)*1000003 + core.HashStr(kind))
	c.Log("C27 cut=%d reader=%s stream=%s", t, kind, core.Hex(s.stream))
	rd := c27Reader(kind, s.stream[:t], r)
	uo := protodelim.UnmarshalOptions{UnmarshalOptions: proto.UnmarshalOptions{AllowPartial: true}, MaxSize: -1}
	det := func() map[string]any {
		return map[string]any{"cut": t, "reader": kind, "ends": s.ends, "stream": core.Hex(s.stream)}
	}
	var got []protoreflect.Message
	k := 0
	for ; k < len(s.msgs) && s.ends[k] <= t; k++ {
		m := s.msgs[k].Type().New()
		var err error
		if !c.NoPanic("read:panic:"+kind, det(), func() { err = uo.UnmarshalFrom(rd, m.Interface()) }) {
			return
		}
		if err != nil {
			d := det()
			d["err"] = errStr(err)
			d["message_index"] = k
			c.Violation("read:complete-message-error:"+kind, d)
			return
		}
		c.Count("messages_read")
		if _, isBufio := rd.(*bufio.Reader); isBufio && len(s.encs[k]) > 16 {
			c.Count("bufio_fallback") // larger than the smallest buffers: Peek fails, ReadFull path (for bufio16/17)
		}
		got = append(got, m)
	}
	// what follows the last complete frame
	m := proto.Message(&wrapperspb.BytesValue{})
	if k < len(s.msgs) {
		m = s.msgs[k].Type().New().Interface()
	}
	var err error
	if !c.NoPanic("read:panic-at-end:"+kind, det(), func() { err = uo.UnmarshalFrom(rd, m) }) {
		return
	}
	last := 0
	if k > 0 {
		last = s.ends[k-1]
	}
	d := det()
	d["err"] = errStr(err)
	switch {
	case t == last:
		c.Count("cut_at_boundary")
		if err != io.EOF {
			c.Violation("read:boundary-not-EOF:"+kind, d)
		}
	default:
		if t < s.starts[k] {
			c.Count("cut_in_size")
		} else {
			c.Count("cut_in_body")
		}
		if err == io.EOF || !errors.Is(err, io.ErrUnexpectedEOF) {
			where := "body"
			if t < s.starts[k] {
				where = "size"
			}
			c.Violation("read:truncated-"+where+"-not-ErrUnexpectedEOF:"+kind, d)
		}
	}
	// compare after all reads: a message must not depend on the reader's buffer
	for i, g := range got {
		if !proto.Equal(g.Interface(), s.msgs[i].Interface()) {
			d := det()
			d["message_index"] = i
			d["type"] = string(g.Descriptor().FullName())
			c.Violation("read:message-differs:"+kind, d)
			break
		}
	}
}

func c27MaxSize(c *core.Ctx, s *c27Stream, kind string, r *core.Rand) {
	for k := range s.msgs {
		size := int64(len(s.encs[k]))
		for _, ms := range []int64{size - 1, size, size + 1, 0, -1} {
			c.Eval()
			c.Log("C27 maxsize=%d msg=%d reader=%s stream=%s", ms, k, kind, core.Hex(s.stream))
			begin := 0
			if k > 0 {
				begin = s.ends[k-1]
			}
			rd := c27Reader(kind, s.stream[begin:], r)
			uo := protodelim.UnmarshalOptions{UnmarshalOptions: proto.UnmarshalOptions{AllowPartial: true}, MaxSize: ms}
			m := s.msgs[k].Type().New()
			err := uo.UnmarshalFrom(rd, m.Interface())
			limit := ms
			if ms == 0 {
				limit = 4 << 20
			}
			tooLarge := ms != -1 && size > limit
			det := map[string]any{"size": size, "max_size": ms, "reader": kind, "err": errStr(err)}
			var stl *protodelim.SizeTooLargeError
			isSTL := errors.As(err, &stl)
			if tooLarge {
				c.Count("too_large")
				if !isSTL {
					c.Violation("maxsize:not-SizeTooLargeError:"+kind, det)
				} else if stl.Size != uint64(size) || stl.MaxSize != uint64(limit) {
					det["reported_size"], det["reported_max"] = stl.Size, stl.MaxSize
					c.Violation("maxsize:error-fields:"+kind, det)
				}
			} else {
				c.Count("maxsize_ok")
				if err != nil {
					c.Violation(fmt.Sprintf("maxsize:rejected-within-limit:%s", kind), det)
				} else if !proto.Equal(m.Interface(), s.msgs[k].Interface()) {
					c.Violation("maxsize:message-differs:"+kind, det)
				}
			}
		}
	}
}

func runC27(c *core.Ctx, b core.Batch) {
	if b.Kind == "big" {
		c27Big(c)
		return
	}
	types := shard(codecTypes(b), b.N, 15)
	c27Reuse(c, types)
	if b.N == 0 {
		c27Rejected(c)
	}
	nStreams := c.Scale(30, 600)
	for k := 0; k < nStreams; k++ {
		r := c.Rng(uint64(k))
		var msgs []protoreflect.Message
		for i, n := 0, 1+r.Intn(5); i < n; i++ {
			mt := types[r.Intn(len(types))]
			m := mt.New()
			switch r.Intn(6) {
			case 0: // empty message
			case 1, 2: // a body around the 2-byte size varint / bufio sizes
				bv := (&wrapperspb.BytesValue{Value: r.Bytes([]int{11, 12, 13, 14, 15, 60, 61, 62, 125, 126, 127, 128, 129, 200, 4090, 4094, 4095}[r.Intn(17)])}).ProtoReflect()
				m = bv
			default:
				fo := fillOptsFor(k + i)
				fo.Unknown = gen.KeepsUnknown(m)
				gen.Fill(r, m, fo)
			}
			msgs = append(msgs, m)
		}
		if k%15 == 7 { // a frame with a 3-byte size varint
			msgs = append(msgs, (&wrapperspb.BytesValue{Value: r.Bytes(16384 + r.Intn(100))}).ProtoReflect())
		}
		s := c27Build(c, msgs)
		if s == nil {
			continue
		}
		c.Count("streams")
		if c.WantSample() && len(s.stream) > 8 && len(s.stream) < 200 && len(msgs) > 1 {
			var names []string
			for _, m := range msgs {
				names = append(names, string(m.Descriptor().FullName()))
			}
			c.Sample(map[string]any{"types": names, "frame_ends": s.ends, "stream": core.Hex(s.stream), "cuts": "every offset 0..len", "readers": c27Readers})
		}
		L := len(s.stream)
		var cuts []int
		if L <= 1500 {
			for t := 0; t <= L; t++ {
				cuts = append(cuts, t)
			}
		} else {
			seen := map[int]bool{}
			add := func(t int) {
				if t >= 0 && t <= L && !seen[t] {
					seen[t] = true
					cuts = append(cuts, t)
				}
			}
			for t := 0; t < 100; t++ {
				add(t)
				add(L - t)
			}
			for i := range s.ends {
				for d := -12; d <= 12; d++ {
					add(s.ends[i] + d)
					add(s.starts[i] + d)
				}
			}
			for i := 0; i < 60; i++ {
				add(r.Intn(L + 1))
			}
		}
		for ci, t := range cuts {
			// every cut through two readers (rotating), boundaries through all
			kinds := []string{c27Readers[(ci+k)%len(c27Readers)], c27Readers[(ci*3+k+1)%len(c27Readers)]}
			atB := t == 0 || t == L
			for _, e := range s.ends {
				atB = atB || t == e
			}
			if atB || L <= 300 {
				kinds = c27Readers
			}
			for _, kind := range kinds {
				c27ReadCut(c, s, t, kind, r)
			}
		}
		c27MaxSize(c, s, c27Readers[k%len(c27Readers)], r)
	}
}

// c27Big: the default limit (MaxSize 0 = 4 MiB) is exact.
func c27Big(c *core.Ctx) {
	r := c.Rng(0)
	for _, total := range []int{4 << 20, 4<<20 + 1, 4<<20 - 1} {
		// BytesValue{value}: 1 tag byte + 3-byte length + payload
		payload := total - 1 - protowire.SizeVarint(uint64(total-5))
		m := &wrapperspb.BytesValue{Value: bytes.Repeat([]byte{0xab}, payload)}
		for proto.Size(m) != total {
			m.Value = m.Value[:len(m.Value)-(proto.Size(m)-total)]
		}
		s := c27Build(c, []protoreflect.Message{m.ProtoReflect()})
		if s == nil {
			continue
		}
		c.Count("streams")
		c.Count(fmt.Sprintf("big_size_%d", total))
		for _, kind := range []string{"bufio4096", "bytes", "bufio64"} {
			for _, ms := range []int64{0} {
				c.Eval()
				c.Distinct(uint64(total)*7 + core.HashStr(kind))
				rd := c27Reader(kind, s.stream, r)
				out := &wrapperspb.BytesValue{}
				err := protodelim.UnmarshalOptions{MaxSize: ms}.UnmarshalFrom(rd, out)
				var stl *protodelim.SizeTooLargeError
				isSTL := errors.As(err, &stl)
				det := map[string]any{"size": total, "max_size": ms, "reader": kind, "err": errStr(err)}
				if total > 4<<20 {
					c.Count("too_large")
					if !isSTL || stl.Size != uint64(total) || stl.MaxSize != 4<<20 {
						c.Violation("maxsize:default-limit-not-enforced:"+kind, det)
					}
				} else {
					c.Count("maxsize_ok")
					if err != nil || !bytes.Equal(out.Value, m.Value) {
						c.Violation("maxsize:default-limit-rejects-allowed-size:"+kind, det)
					}
				}
			}
		}
		// truncation of a large frame
		for _, t := range []int{1, 2, 3, 4, 5, 4096, len(s.stream) - 1} {
			for _, kind := range []string{"bufio4096", "bytes", "bufio16"} {
				c27ReadCut(c, s, t, kind, r)
			}
		}
	}
}

// c27Reuse: one destination message reused for every frame of a same-type
// stream that mixes populated and empty messages (the k-th UnmarshalFrom must
// return message k whatever the destination held before).
func c27Reuse(c *core.Ctx, types []protoreflect.MessageType) {
	for ti, mt := range types {
		for k := 0; k < c.Scale(2, 12); k++ {
			r := c.Rng(uint64(7000000 + ti*100 + k))
			var msgs []protoreflect.Message
			n := 3 + r.Intn(5)
			for i := 0; i < n; i++ {
				m := mt.New()
				if r.Chance(1, 2) {
					fo := fillOptsFor(k + i)
					fo.Unknown = gen.KeepsUnknown(m)
					gen.Fill(r, m, fo)
				}
				msgs = append(msgs, m)
			}
			s := c27Build(c, msgs)
			if s == nil {
				continue
			}
			for _, kind := range c27Readers {
				rd := c27Reader(kind, s.stream, r)
				uo := protodelim.UnmarshalOptions{UnmarshalOptions: proto.UnmarshalOptions{AllowPartial: true}, MaxSize: -1}
				dst := mt.New()
				c.Log("C27 reuse type=%s reader=%s stream=%s", mt.Descriptor().FullName(), kind, core.Hex(s.stream))
				for i, want := range msgs {
					c.Eval()
					c.Count("reused_destination_reads")
					if len(s.encs[i]) == 0 {
						c.Count("reused_destination_empty_frames")
					}
					var err error
					if !c.NoPanic("reuse:panic:"+kind, map[string]any{"stream": core.Hex(s.stream)}, func() { err = uo.UnmarshalFrom(rd, dst.Interface()) }) {
						break
					}
					if err != nil || !proto.Equal(dst.Interface(), want.Interface()) {
						c.Violation(fmt.Sprintf("reuse:message-%s-frame-into-populated-destination:%s", map[bool]string{true: "empty", false: "non-empty"}[len(s.encs[i]) == 0], kind), map[string]any{"stream": core.Hex(s.stream), "index": i, "err": errStr(err), "type": string(mt.Descriptor().FullName())})
						break
					}
				}
			}
		}
	}
}

// c27Rejected: a well-framed stream in which some frame bodies are rejected by
// the message decoder (malformed wire data, invalid UTF-8 in a validated
// string, a missing required field read without AllowPartial). Every reader
// kind must report the same sequence of results, and the frames after a
// rejected one must still be read at their boundaries.
func c27Rejected(c *core.Ctx) {
	t3 := gen.TypeByName("goproto.proto.test3.TestAllTypes")
	req := gen.TypeByName("goproto.proto.test.TestRequired")
	if t3 == nil || req == nil {
		return
	}
	frame := func(body []byte) []byte {
		return append(protowire.AppendVarint(nil, uint64(len(body))), body...)
	}
	for k := 0; k < c.Scale(60, 1200); k++ {
		r := c.Rng(uint64(0x27e)<<32 | uint64(k))
		mt := t3
		allowPartial := true
		if k%3 == 2 {
			mt, allowPartial = req, false
		}
		type fr struct {
			body []byte
			bad  bool
		}
		var frames []fr
		n := 3 + r.Intn(4)
		nbad := 0
		for i := 0; i < n; i++ {
			m := mt.New()
			gen.Fill(r, m, gen.MsgOpts{Density: 30, MaxDepth: 2})
			body, err := proto.MarshalOptions{AllowPartial: true, Deterministic: true}.Marshal(m.Interface())
			if err != nil {
				continue
			}
			bad := false
			if i > 0 && i < n-1 && r.Chance(1, 2) || (i == 1 && nbad == 0) {
				bad = true
				switch {
				case mt == req:
					body = []byte{} // required field missing, read without AllowPartial
					if r.Bool() {
						body = protowire.AppendVarint(protowire.AppendTag(nil, 9000, protowire.VarintType), 7)
					}
				case r.Bool():
					// field 14 (singular_string, validated) holding invalid UTF-8
					body = protowire.AppendBytes(protowire.AppendTag(append([]byte{}, body...), 14, protowire.BytesType), []byte{0xff, 0xfe, 'x'})
				default:
					body = append(append([]byte{}, body...), 0x0a, 0xff, 0xff, 0xff) // length prefix running past the body
				}
				// pad so that bodies of every size class around the bufio sizes occur
				nbad++
			}
			frames = append(frames, fr{body, bad})
		}
		var stream []byte
		for _, f := range frames {
			stream = append(stream, frame(f.body)...)
		}
		c.Eval()
		c.Count("rejected_body_streams")
		c.CountN("rejected_body_frames", int64(nbad))
		c.DistinctBytes([]byte("rejected"), stream)
		c.Log("C27 rejected stream=%s", core.Hex(stream))
		var ref []string
		for ki, kind := range c27Readers {
			rd := c27Reader(kind, stream, r)
			uo := protodelim.UnmarshalOptions{UnmarshalOptions: proto.UnmarshalOptions{AllowPartial: allowPartial}} // default MaxSize: a desynchronised stream must not make the reader allocate gigabytes
			var seq []string
			for i := 0; i <= len(frames)+1; i++ {
				dst := mt.New()
				var err error
				if !c.NoPanic("rejected:panic:"+kind, map[string]any{"stream": core.Hex(stream)}, func() { err = uo.UnmarshalFrom(rd, dst.Interface()) }) {
					seq = append(seq, "panic")
					break
				}
				if err == io.EOF {
					seq = append(seq, "EOF")
					break
				}
				if err != nil {
					seq = append(seq, "error")
					continue
				}
				b, _ := proto.MarshalOptions{AllowPartial: true, Deterministic: true}.Marshal(dst.Interface())
				seq = append(seq, "ok:"+core.Hex(b))
			}
			got := strings.Join(seq, " ")
			if ki == 0 {
				ref = seq
				// the reference itself: one result per frame, then EOF; rejected frames error, the others decode
				okShape := len(seq) == len(frames)+1 && seq[len(seq)-1] == "EOF"
				for i := 0; okShape && i < len(frames); i++ {
					if frames[i].bad != (seq[i] == "error") {
						okShape = false
					}
				}
				if !okShape {
					c.Violation("rejected:frames-after-a-rejected-body-not-read-at-their-boundaries:"+kind, map[string]any{"stream": core.Hex(stream), "results": got, "frames": len(frames)})
					break
				}
				continue
			}
			if got != strings.Join(ref, " ") {
				c.Violation("rejected:result-sequence-depends-on-reader:"+kind, map[string]any{"stream": core.Hex(stream), "results": got, "results_" + c27Readers[0]: strings.Join(ref, " ")})
			}
		}
	}
}
