// Package gen holds the shared workload generators.
package gen

import (
	"fmt"
	"sort"
	"strings"
	"sync"

	"google.golang.org/protobuf/reflect/protoreflect"
	"google.golang.org/protobuf/reflect/protoregistry"

	_ "google.golang.org/protobuf/internal/testprotos/annotation"
	_ "google.golang.org/protobuf/internal/testprotos/benchmarks"
	_ "google.golang.org/protobuf/internal/testprotos/benchmarks/datasets/google_message1/proto2"
	_ "google.golang.org/protobuf/internal/testprotos/benchmarks/datasets/google_message1/proto3"
	_ "google.golang.org/protobuf/internal/testprotos/benchmarks/datasets/google_message2"
	_ "google.golang.org/protobuf/internal/testprotos/benchmarks/datasets/google_message3"
	_ "google.golang.org/protobuf/internal/testprotos/benchmarks/datasets/google_message4"
	_ "google.golang.org/protobuf/internal/testprotos/benchmarks/micro"
	_ "google.golang.org/protobuf/internal/testprotos/conformance"
	_ "google.golang.org/protobuf/internal/testprotos/conformance/editions"
	_ "google.golang.org/protobuf/internal/testprotos/conformance/editionsmigration"
	_ "google.golang.org/protobuf/internal/testprotos/conformance/editionunstable"
	_ "google.golang.org/protobuf/internal/testprotos/editionsfuzztest"
	_ "google.golang.org/protobuf/internal/testprotos/enums"
	_ "google.golang.org/protobuf/internal/testprotos/enums/enums_hybrid"
	_ "google.golang.org/protobuf/internal/testprotos/enums/enums_opaque"
	_ "google.golang.org/protobuf/internal/testprotos/examples/ext"
	_ "google.golang.org/protobuf/internal/testprotos/fieldtrack"
	_ "google.golang.org/protobuf/internal/testprotos/fuzz"
	_ "google.golang.org/protobuf/internal/testprotos/irregular"
	_ "google.golang.org/protobuf/internal/testprotos/lazy"
	_ "google.golang.org/protobuf/internal/testprotos/lazy/lazy_hybrid"
	_ "google.golang.org/protobuf/internal/testprotos/lazy/lazy_opaque"
	_ "google.golang.org/protobuf/internal/testprotos/legacy"
	_ "google.golang.org/protobuf/internal/testprotos/messageset/messagesetpb"
	_ "google.golang.org/protobuf/internal/testprotos/messageset/messagesetpb/messagesetpb_hybrid"
	_ "google.golang.org/protobuf/internal/testprotos/messageset/messagesetpb/messagesetpb_opaque"
	_ "google.golang.org/protobuf/internal/testprotos/messageset/msetextpb"
	_ "google.golang.org/protobuf/internal/testprotos/messageset/msetextpb/msetextpb_hybrid"
	_ "google.golang.org/protobuf/internal/testprotos/messageset/msetextpb/msetextpb_opaque"
	_ "google.golang.org/protobuf/internal/testprotos/mixed"
	_ "google.golang.org/protobuf/internal/testprotos/news"
	_ "google.golang.org/protobuf/internal/testprotos/order"
	_ "google.golang.org/protobuf/internal/testprotos/race/extender"
	_ "google.golang.org/protobuf/internal/testprotos/race/message"
	_ "google.golang.org/protobuf/internal/testprotos/registry"
	_ "google.golang.org/protobuf/internal/testprotos/required"
	_ "google.golang.org/protobuf/internal/testprotos/required/required_hybrid"
	_ "google.golang.org/protobuf/internal/testprotos/required/required_opaque"
	_ "google.golang.org/protobuf/internal/testprotos/test"
	_ "google.golang.org/protobuf/internal/testprotos/test3"
	_ "google.golang.org/protobuf/internal/testprotos/test3/test3_hybrid"
	_ "google.golang.org/protobuf/internal/testprotos/test3/test3_opaque"
	_ "google.golang.org/protobuf/internal/testprotos/testeditions"
	_ "google.golang.org/protobuf/internal/testprotos/testeditions/testeditions_hybrid"
	_ "google.golang.org/protobuf/internal/testprotos/testeditions/testeditions_opaque"
	_ "google.golang.org/protobuf/internal/testprotos/textpb2"
	_ "google.golang.org/protobuf/internal/testprotos/textpb3"
	_ "google.golang.org/protobuf/internal/testprotos/textpbeditions"
	_ "google.golang.org/protobuf/internal/testprotos/textpbeditions/textpbeditions_hybrid"
	_ "google.golang.org/protobuf/internal/testprotos/textpbeditions/textpbeditions_opaque"
	_ "google.golang.org/protobuf/types/descriptorpb"
	_ "google.golang.org/protobuf/types/gofeaturespb"
	_ "google.golang.org/protobuf/types/known/anypb"
	_ "google.golang.org/protobuf/types/known/apipb"
	_ "google.golang.org/protobuf/types/known/durationpb"
	_ "google.golang.org/protobuf/types/known/emptypb"
	_ "google.golang.org/protobuf/types/known/fieldmaskpb"
	_ "google.golang.org/protobuf/types/known/sourcecontextpb"
	_ "google.golang.org/protobuf/types/known/structpb"
	_ "google.golang.org/protobuf/types/known/timestamppb"
	_ "google.golang.org/protobuf/types/known/typepb"
	_ "google.golang.org/protobuf/types/known/wrapperspb"
	_ "google.golang.org/protobuf/types/pluginpb"
)

var (
	corpusOnce sync.Once
	corpus     []protoreflect.MessageType
)

// AllTypes lists every generated message type linked into the binary, sorted
// by full name (deterministic across processes and builds).
func AllTypes() []protoreflect.MessageType {
	corpusOnce.Do(func() {
		protoregistry.GlobalTypes.RangeMessages(func(mt protoreflect.MessageType) bool {
			corpus = append(corpus, mt)
			return true
		})
		sort.Slice(corpus, func(i, j int) bool {
			return corpus[i].Descriptor().FullName() < corpus[j].Descriptor().FullName()
		})
	})
	return corpus
}

// Types returns the corpus types whose full name has one of the prefixes.
func Types(prefixes ...string) []protoreflect.MessageType {
	var out []protoreflect.MessageType
	for _, mt := range AllTypes() {
		n := string(mt.Descriptor().FullName())
		for _, p := range prefixes {
			if strings.HasPrefix(n, p) {
				out = append(out, mt)
				break
			}
		}
	}
	return out
}

func TypeByName(n string) protoreflect.MessageType {
	mt, err := protoregistry.GlobalTypes.FindMessageByName(protoreflect.FullName(n))
	if err != nil {
		return nil
	}
	return mt
}

var msetCache sync.Map

// InvolvesMessageSet reports whether md or anything reachable from it
// (fields or registered extensions) uses the MessageSet wire format.
func InvolvesMessageSet(md protoreflect.MessageDescriptor) bool {
	if v, ok := msetCache.Load(md.FullName()); ok {
		return v.(bool)
	}
	seen := map[protoreflect.FullName]bool{}
	var walk func(md protoreflect.MessageDescriptor) bool
	walk = func(md protoreflect.MessageDescriptor) bool {
		if seen[md.FullName()] {
			return false
		}
		seen[md.FullName()] = true
		if isMessageSet(md) {
			return true
		}
		fds := md.Fields()
		for i := 0; i < fds.Len(); i++ {
			fd := fds.Get(i)
			if fd.Message() != nil && walk(fd.Message()) {
				return true
			}
		}
		found := false
		if md.ExtensionRanges().Len() > 0 {
			protoregistry.GlobalTypes.RangeExtensionsByMessage(md.FullName(), func(xt protoreflect.ExtensionType) bool {
				if m := xt.TypeDescriptor().Message(); m != nil && walk(m) {
					found = true
					return false
				}
				return true
			})
		}
		return found
	}
	r := walk(md)
	msetCache.Store(md.FullName(), r)
	return r
}

func isMessageSet(md protoreflect.MessageDescriptor) bool {
	xmd, ok := md.(interface{ IsMessageSet() bool })
	return ok && xmd.IsMessageSet()
}

func IsMessageSet(md protoreflect.MessageDescriptor) bool { return isMessageSet(md) }

// HasRequired reports whether md transitively has required fields.
var reqCache sync.Map

func HasRequired(md protoreflect.MessageDescriptor) bool {
	if v, ok := reqCache.Load(md.FullName()); ok {
		return v.(bool)
	}
	seen := map[protoreflect.FullName]bool{}
	var walk func(md protoreflect.MessageDescriptor) bool
	walk = func(md protoreflect.MessageDescriptor) bool {
		if seen[md.FullName()] {
			return false
		}
		seen[md.FullName()] = true
		if md.RequiredNumbers().Len() > 0 {
			return true
		}
		fds := md.Fields()
		for i := 0; i < fds.Len(); i++ {
			if m := fds.Get(i).Message(); m != nil && walk(m) {
				return true
			}
		}
		return false
	}
	r := walk(md)
	reqCache.Store(md.FullName(), r)
	return r
}

var unkCache sync.Map

// KeepsUnknown reports whether every message reachable from a fresh message
// of this type stores unknown fields (old generated code without
// XXX_unrecognized and some hand-written messages silently drop them).
func KeepsUnknown(m protoreflect.Message) bool {
	return keepsUnknown(m, map[protoreflect.FullName]bool{})
}

func keepsUnknown(m protoreflect.Message, seen map[protoreflect.FullName]bool) bool {
	md := m.Descriptor()
	// generated and dynamic messages of one descriptor differ: key by Go type too
	key := fmt.Sprintf("%T|%s", m.Interface(), md.FullName())
	if v, ok := unkCache.Load(key); ok {
		return v.(bool)
	}
	if seen[md.FullName()] {
		return true
	}
	seen[md.FullName()] = true
	ok := true
	probe := m.New()
	probe.SetUnknown(protoreflect.RawFields{0x98, 0x06, 0x01})
	if len(probe.GetUnknown()) == 0 {
		ok = false
	}
	fds := md.Fields()
	for i := 0; ok && i < fds.Len(); i++ {
		fd := fds.Get(i)
		if fd.Message() == nil {
			continue
		}
		var sub protoreflect.Message
		switch {
		case fd.IsMap():
			if fd.MapValue().Message() == nil {
				continue
			}
			sub = m.New().NewField(fd).Map().NewValue().Message()
		case fd.IsList():
			sub = m.New().NewField(fd).List().NewElement().Message()
		default:
			sub = m.New().NewField(fd).Message()
		}
		if !keepsUnknown(sub, seen) {
			ok = false
		}
	}
	unkCache.Store(key, ok)
	return ok
}

var irregCache sync.Map

// InvolvesIrregular reports whether md reaches a hand-written aberrant message.
func InvolvesIrregular(md protoreflect.MessageDescriptor) bool {
	if v, ok := irregCache.Load(md.FullName()); ok {
		return v.(bool)
	}
	seen := map[protoreflect.FullName]bool{}
	var walk func(md protoreflect.MessageDescriptor) bool
	walk = func(md protoreflect.MessageDescriptor) bool {
		if seen[md.FullName()] {
			return false
		}
		seen[md.FullName()] = true
		if strings.HasPrefix(string(md.FullName()), "goproto.proto.thirdparty") {
			return true
		}
		fds := md.Fields()
		for i := 0; i < fds.Len(); i++ {
			if m := fds.Get(i).Message(); m != nil && walk(m) {
				return true
			}
		}
		return false
	}
	r := walk(md)
	irregCache.Store(md.FullName(), r)
	return r
}

// LazyFields lists the fields of md that the opaque implementation decodes
// lazily (option lazy = true on a singular message field of an opaque or
// hybrid generated type).
func LazyFields(mt protoreflect.MessageType) []protoreflect.FieldDescriptor {
	md := mt.Descriptor()
	var out []protoreflect.FieldDescriptor
	// only the opaque layout has the lazy machinery: detect through the
	// file's Go API level via package naming of the test protos
	p := string(md.ParentFile().Path())
	if !(strings.Contains(p, "opaque") || strings.Contains(p, "hybrid") || strings.Contains(p, "lazy") || strings.Contains(p, "mixed")) {
		return nil
	}
	fds := md.Fields()
	for i := 0; i < fds.Len(); i++ {
		fd := fds.Get(i)
		if l, ok := fd.(interface{ IsLazy() bool }); ok && l.IsLazy() && fd.Message() != nil && !fd.IsList() && !fd.IsMap() {
			out = append(out, fd)
		}
	}
	return out
}

var lazyTypesOnce sync.Once
var lazyTypes []protoreflect.MessageType

// LazyTypes lists corpus types that have at least one lazily decoded field
// (verified dynamically by the callers through the lazy hook counters).
func LazyTypes() []protoreflect.MessageType {
	lazyTypesOnce.Do(func() {
		for _, mt := range AllTypes() {
			if len(LazyFields(mt)) > 0 && !InvolvesMessageSet(mt.Descriptor()) {
				lazyTypes = append(lazyTypes, mt)
			}
		}
	})
	return lazyTypes
}
