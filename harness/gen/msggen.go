package gen

import (
	"math"
	"sort"
	"sync"
	"unicode/utf8"

	"google.golang.org/protobuf/encoding/protowire"
	"google.golang.org/protobuf/internal/strs"
	"google.golang.org/protobuf/proto"
	"google.golang.org/protobuf/reflect/protoreflect"
	"google.golang.org/protobuf/reflect/protoregistry"
	"google.golang.org/protobuf/types/dynamicpb"
	"google.golang.org/protobuf/verif/core"
)

// MsgOpts steers Fill.
type MsgOpts struct {
	MaxDepth   int  // nesting bound (default 3)
	Density    int  // percent chance to populate each field (default 40)
	Unknown    bool // add unknown fields
	Extensions bool // set registered extensions
	JSONSafe   bool // restrict to JSON-representable content
	AnyUTF8    bool // non-validated strings may hold invalid UTF-8
	NoRequired bool // do NOT force required fields (partial messages allowed)
	BigLists   bool // occasionally long lists
	NoNegZero  bool // never produce -0.0
	NoNaN      bool
	// OnlyDeclaredEnums avoids out-of-range numbers for open enums too.
	OnlyDeclaredEnums bool
	// ForceUnknown adds unknown fields even to messages that cannot store them.
	ForceUnknown bool
	// Resolver for extensions (default GlobalTypes).
	Resolver *protoregistry.Types
	// ByNumber: derive each field's stream from its number, so that messages of
	// twin schemas (open/hybrid/opaque/dynamic) receive identical content.
	ByNumber bool
}

func (o MsgOpts) withDefaults() MsgOpts {
	if o.MaxDepth == 0 {
		o.MaxDepth = 3
	}
	if o.Density == 0 {
		o.Density = 40
	}
	if o.Resolver == nil {
		o.Resolver = protoregistry.GlobalTypes
	}
	return o
}

var validStrings = []string{"", "a", "hello", "\x00", "é", "߿", "ࠀ", "퟿", "", "￿", "\U00010000", "\U0010ffff", "quote\"back\\slash", "line\nfeed\ttab\r", "  ", "<>&'", "\x7f", "日本語", "�"}
var invalidStrings = []string{"\x80", "\xff", "\xc0\x80", "\xe0\x80\x80", "\xed\xa0\x80", "\xf4\x90\x80\x80", "abc\xe2\x82", "\xf0\x9f\x98", "a\xc3", "\xc1\xbf"}

func RandString(r *core.Rand, valid bool) string {
	if !valid && r.Chance(1, 3) {
		s := invalidStrings[r.Intn(len(invalidStrings))]
		if r.Bool() {
			s = validStrings[r.Intn(len(validStrings))] + s
		}
		return s
	}
	switch r.Intn(4) {
	case 0:
		return validStrings[r.Intn(len(validStrings))]
	case 1:
		n := r.Intn(12)
		b := make([]byte, n)
		for i := range b {
			b[i] = byte(32 + r.Intn(95))
		}
		return string(b)
	case 2:
		n := r.Intn(6)
		var rs []rune
		for i := 0; i < n; i++ {
			x := rune(r.Intn(0x110000))
			if x >= 0xd800 && x < 0xe000 {
				x = 0xfffd
			}
			rs = append(rs, x)
		}
		return string(rs)
	default:
		return validStrings[r.Intn(len(validStrings))] + validStrings[r.Intn(len(validStrings))]
	}
}

func RandBytes(r *core.Rand) []byte {
	switch r.Intn(5) {
	case 0:
		return []byte{}
	case 1:
		return r.Bytes(1)
	case 2:
		return []byte(RandString(r, false))
	default:
		return r.Bytes(r.Intn(20))
	}
}

var f64pool = []uint64{0, 0x8000000000000000, 0x3ff0000000000000, 0xbff0000000000000, 0x7ff0000000000000, 0xfff0000000000000,
	0x7ff8000000000000, 0x7ff8000000000001, 0xfff8000000000000, 0x7ff0000000000001, 0x7fefffffffffffff, 0xffefffffffffffff, 1, 0x000fffffffffffff, 0x0010000000000000,
	0x3fb999999999999a, 0x400921fb54442d18, 0x43e0000000000000, 0x41dfffffffc00000, 0x47efffffe0000000, 0x36a0000000000000, 0x3ff0000000000001, 0x4340000000000000, 0x4340000000000001}
var f32pool = []uint32{0, 0x80000000, 0x3f800000, 0xbf800000, 0x7f800000, 0xff800000, 0x7fc00000, 0x7fc00001, 0xffc00000, 0x7f800001, 0x7f7fffff, 0xff7fffff, 1, 0x007fffff, 0x00800000,
	0x3dcccccd, 0x40490fdb, 0x5f000000, 0x4b800000, 0x3f800001, 0x4b000001}

func RandFloat64(r *core.Rand, o MsgOpts) float64 {
	for {
		var bits uint64
		if r.Chance(2, 3) {
			bits = f64pool[r.Intn(len(f64pool))]
		} else if r.Bool() {
			bits = r.Uint64()
		} else {
			return float64(int64(r.Uint64Boundary())) / float64(1+r.Intn(1000))
		}
		f := math.Float64frombits(bits)
		if o.NoNaN && f != f {
			continue
		}
		if o.NoNegZero && f == 0 && math.Signbit(f) {
			continue
		}
		return f
	}
}

func RandFloat32(r *core.Rand, o MsgOpts) float32 {
	for {
		var bits uint32
		if r.Chance(2, 3) {
			bits = f32pool[r.Intn(len(f32pool))]
		} else {
			bits = uint32(r.Uint64())
		}
		f := math.Float32frombits(bits)
		if o.NoNaN && f != f {
			continue
		}
		if o.NoNegZero && f == 0 && math.Signbit(float64(f)) {
			continue
		}
		return f
	}
}

func randEnum(r *core.Rand, fd protoreflect.FieldDescriptor, o MsgOpts) protoreflect.EnumNumber {
	ed := fd.Enum()
	vals := ed.Values()
	if !ed.IsClosed() && !o.OnlyDeclaredEnums && r.Chance(1, 5) {
		if o.JSONSafe && ed.FullName() == "google.protobuf.NullValue" {
			return 0
		}
		pool := []int32{-1, 12345, math.MaxInt32, math.MinInt32, 99}
		return protoreflect.EnumNumber(pool[r.Intn(len(pool))])
	}
	return vals.Get(r.Intn(vals.Len())).Number()
}

// RandScalar produces a value for a non-message field kind.
func RandScalar(r *core.Rand, fd protoreflect.FieldDescriptor, o MsgOpts) protoreflect.Value {
	switch fd.Kind() {
	case protoreflect.BoolKind:
		return protoreflect.ValueOfBool(r.Bool())
	case protoreflect.EnumKind:
		return protoreflect.ValueOfEnum(randEnum(r, fd, o))
	case protoreflect.Int32Kind, protoreflect.Sint32Kind, protoreflect.Sfixed32Kind:
		return protoreflect.ValueOfInt32(int32(r.Uint64Boundary()))
	case protoreflect.Uint32Kind, protoreflect.Fixed32Kind:
		return protoreflect.ValueOfUint32(uint32(r.Uint64Boundary()))
	case protoreflect.Int64Kind, protoreflect.Sint64Kind, protoreflect.Sfixed64Kind:
		return protoreflect.ValueOfInt64(int64(r.Uint64Boundary()))
	case protoreflect.Uint64Kind, protoreflect.Fixed64Kind:
		return protoreflect.ValueOfUint64(r.Uint64Boundary())
	case protoreflect.FloatKind:
		return protoreflect.ValueOfFloat32(RandFloat32(r, o))
	case protoreflect.DoubleKind:
		return protoreflect.ValueOfFloat64(RandFloat64(r, o))
	case protoreflect.StringKind:
		valid := strs.EnforceUTF8(fd) || !o.AnyUTF8 || o.JSONSafe
		return protoreflect.ValueOfString(RandString(r, valid))
	case protoreflect.BytesKind:
		return protoreflect.ValueOfBytes(RandBytes(r))
	}
	panic("not scalar")
}

// NonZeroScalar draws until the value is populated under implicit presence.
func nonZero(r *core.Rand, fd protoreflect.FieldDescriptor, o MsgOpts) protoreflect.Value {
	for i := 0; ; i++ {
		v := RandScalar(r, fd, o)
		if !isZero(fd, v) || i > 50 {
			return v
		}
	}
}

func isZero(fd protoreflect.FieldDescriptor, v protoreflect.Value) bool {
	switch fd.Kind() {
	case protoreflect.BoolKind:
		return !v.Bool()
	case protoreflect.EnumKind:
		return v.Enum() == 0
	case protoreflect.Int32Kind, protoreflect.Sint32Kind, protoreflect.Sfixed32Kind, protoreflect.Int64Kind, protoreflect.Sint64Kind, protoreflect.Sfixed64Kind:
		return v.Int() == 0
	case protoreflect.Uint32Kind, protoreflect.Fixed32Kind, protoreflect.Uint64Kind, protoreflect.Fixed64Kind:
		return v.Uint() == 0
	case protoreflect.FloatKind, protoreflect.DoubleKind:
		return math.Float64bits(v.Float()) == 0
	case protoreflect.StringKind:
		return v.String() == ""
	case protoreflect.BytesKind:
		return len(v.Bytes()) == 0
	}
	return false
}

func isGroupLike(fd protoreflect.FieldDescriptor) bool { return fd.Kind() == protoreflect.GroupKind }

// Fill populates m with random content.
func Fill(r *core.Rand, m protoreflect.Message, o MsgOpts) {
	o = o.withDefaults()
	fill(r, m, o, 0)
}

func fill(r *core.Rand, m protoreflect.Message, o MsgOpts, depth int) {
	md := m.Descriptor()
	if fillWKT(r, m, o, depth) {
		return
	}
	fds := md.Fields()
	oneofPick := map[int]int{} // oneof index -> chosen field index or -1
	for i := 0; i < md.Oneofs().Len(); i++ {
		od := md.Oneofs().Get(i)
		rr := r
		if o.ByNumber {
			rr = r.Fork(uint64(od.Fields().Get(0).Number()) + 1000000)
		}
		if rr.Intn(100) < o.Density+20 {
			oneofPick[i] = int(od.Fields().Get(rr.Intn(od.Fields().Len())).Number())
		} else {
			oneofPick[i] = -1
		}
	}
	for i := 0; i < fds.Len(); i++ {
		fd := fds.Get(i)
		rr := r
		if o.ByNumber {
			rr = r.Fork(uint64(fd.Number()))
		}
		if od := fd.ContainingOneof(); od != nil {
			if oneofPick[od.Index()] != int(fd.Number()) {
				continue
			}
		} else if fd.Cardinality() == protoreflect.Required && !o.NoRequired {
			// always
		} else if rr.Intn(100) >= o.Density {
			continue
		}
		fillField(rr, m, fd, o, depth)
	}
	if o.Extensions && md.ExtensionRanges().Len() > 0 && !isMessageSet(md) {
		xts := ExtensionsOf(o.Resolver, md.FullName())
		for _, xt := range xts {
			xd := xt.TypeDescriptor()
			rr := r
			if o.ByNumber {
				rr = r.Fork(uint64(xd.Number()))
			}
			if rr.Intn(100) >= o.Density/2+5 {
				continue
			}
			if xd.Message() != nil && isMessageSet(xd.Message()) {
				continue
			}
			if xd.Cardinality() == protoreflect.Required {
				continue
			}
			fillField(rr, m, xd, o, depth)
		}
	}
	if o.Unknown && !o.JSONSafe {
		rr := r
		if o.ByNumber {
			rr = r.Fork(99999999)
		}
		if rr.Chance(1, 3) && (o.ForceUnknown || KeepsUnknown(m)) {
			m.SetUnknown(RandUnknown(rr, md, o.Resolver))
		}
	}
}

var extCache sync.Map

type extKey struct {
	r *protoregistry.Types
	n protoreflect.FullName
}

// ExtensionsOf lists registered extensions of a message, sorted by number.
func ExtensionsOf(res *protoregistry.Types, name protoreflect.FullName) []protoreflect.ExtensionType {
	k := extKey{res, name}
	if res == protoregistry.GlobalTypes {
		if v, ok := extCache.Load(k); ok {
			return v.([]protoreflect.ExtensionType)
		}
	}
	var xts []protoreflect.ExtensionType
	res.RangeExtensionsByMessage(name, func(xt protoreflect.ExtensionType) bool {
		xts = append(xts, xt)
		return true
	})
	sort.Slice(xts, func(i, j int) bool { return xts[i].TypeDescriptor().Number() < xts[j].TypeDescriptor().Number() })
	if res == protoregistry.GlobalTypes {
		extCache.Store(k, xts)
	}
	return xts
}

// RandUnknown builds a well-formed unknown-field set whose numbers are not
// known to the schema (no field, no registered extension).
func RandUnknown(r *core.Rand, md protoreflect.MessageDescriptor, res *protoregistry.Types) []byte {
	known := func(n protowire.Number) bool {
		if md.Fields().ByNumber(n) != nil {
			return true
		}
		if md.ExtensionRanges().Has(n) {
			if _, err := res.FindExtensionByNumber(md.FullName(), n); err == nil {
				return true
			}
		}
		return false
	}
	var b []byte
	k := 1 + r.Intn(4)
	for i := 0; i < k; i++ {
		var n protowire.Number
		for tries := 0; ; tries++ {
			switch r.Intn(4) {
			case 0:
				n = protowire.Number(1 + r.Intn(40))
			case 1:
				n = protowire.Number(19000 + r.Intn(1000)) // reserved range: never a declared field
			case 2:
				n = protowire.Number(1 + r.Intn(1<<29-1))
			default:
				n = protowire.Number(100000 + r.Intn(1000))
			}
			if !known(n) {
				break
			}
		}
		if isMessageSet(md) {
			// unknown fields of a MessageSet are unresolved items: number = type id,
			// length-delimited payload (anything else is refused by Marshal)
			b = protowire.AppendTag(b, n, protowire.BytesType)
			b = protowire.AppendBytes(b, r.Bytes(r.Intn(6)))
			continue
		}
		b = AppendRandField(r, b, n, 2)
	}
	return b
}

// AppendRandField appends one well-formed field of a random wire type.
func AppendRandField(r *core.Rand, b []byte, n protowire.Number, depth int) []byte {
	switch r.Intn(5) {
	case 0:
		b = protowire.AppendTag(b, n, protowire.VarintType)
		b = protowire.AppendVarint(b, r.Uint64Boundary())
	case 1:
		b = protowire.AppendTag(b, n, protowire.Fixed32Type)
		b = protowire.AppendFixed32(b, uint32(r.Uint64()))
	case 2:
		b = protowire.AppendTag(b, n, protowire.Fixed64Type)
		b = protowire.AppendFixed64(b, r.Uint64())
	case 3:
		b = protowire.AppendTag(b, n, protowire.BytesType)
		b = protowire.AppendBytes(b, r.Bytes(r.Intn(6)))
	default:
		if depth <= 0 {
			b = protowire.AppendTag(b, n, protowire.VarintType)
			b = protowire.AppendVarint(b, 7)
			break
		}
		b = protowire.AppendTag(b, n, protowire.StartGroupType)
		k := r.Intn(3)
		for i := 0; i < k; i++ {
			b = AppendRandField(r, b, protowire.Number(1+r.Intn(100)), depth-1)
		}
		b = protowire.AppendTag(b, n, protowire.EndGroupType)
	}
	return b
}

func listLen(r *core.Rand, o MsgOpts) int {
	if o.BigLists && r.Chance(1, 30) {
		return 100 + r.Intn(200)
	}
	return 1 + r.Intn(3)
}

func fillField(r *core.Rand, m protoreflect.Message, fd protoreflect.FieldDescriptor, o MsgOpts, depth int) {
	switch {
	case fd.IsMap():
		mp := m.Mutable(fd).Map()
		n := listLen(r, o)
		if n > 6 {
			n = 6
		}
		kd, vd := fd.MapKey(), fd.MapValue()
		for i := 0; i < n; i++ {
			ko := o
			ko.AnyUTF8 = false // map keys: keep them valid UTF-8 (JSON object keys, text)
			k := RandScalar(r, kd, ko).MapKey()
			if vd.Message() != nil {
				v := mp.NewValue()
				if depth < o.MaxDepth {
					fill(r, v.Message(), o, depth+1)
				} else if !o.NoRequired {
					fillRequiredOnly(r, v.Message(), o, depth+1)
				}
				mp.Set(k, v)
			} else {
				mp.Set(k, RandScalar(r, vd, o))
			}
		}
	case fd.IsList():
		l := m.Mutable(fd).List()
		n := listLen(r, o)
		for i := 0; i < n; i++ {
			if fd.Message() != nil {
				v := l.NewElement()
				if depth < o.MaxDepth {
					fill(r, v.Message(), o, depth+1)
				} else if !o.NoRequired {
					fillRequiredOnly(r, v.Message(), o, depth+1)
				}
				l.Append(v)
			} else {
				l.Append(RandScalar(r, fd, o))
			}
		}
	case fd.Message() != nil:
		if depth >= o.MaxDepth {
			if fd.Cardinality() != protoreflect.Required && fd.ContainingOneof() == nil {
				return
			}
		}
		v := m.NewField(fd)
		if depth < o.MaxDepth {
			fill(r, v.Message(), o, depth+1)
		} else if !o.NoRequired {
			fillRequiredOnly(r, v.Message(), o, depth+1)
		}
		m.Set(fd, v)
	default:
		if fd.HasPresence() {
			m.Set(fd, RandScalar(r, fd, o))
		} else {
			m.Set(fd, nonZero(r, fd, o))
		}
	}
}

// fillRequiredOnly sets just the required fields, recursively (depth guard).
func fillRequiredOnly(r *core.Rand, m protoreflect.Message, o MsgOpts, depth int) {
	if depth > o.MaxDepth+8 {
		return
	}
	if o.JSONSafe && fillWKT(r, m, o, o.MaxDepth+1) {
		return
	}
	fds := m.Descriptor().Fields()
	for i := 0; i < fds.Len(); i++ {
		fd := fds.Get(i)
		if fd.Cardinality() != protoreflect.Required {
			continue
		}
		if fd.Message() != nil {
			v := m.NewField(fd)
			fillRequiredOnly(r, v.Message(), o, depth+1)
			m.Set(fd, v)
		} else {
			m.Set(fd, RandScalar(r, fd, o))
		}
	}
}

// smallTypes are candidates for Any payloads.
var anyPayloads = []string{
	"goproto.proto.test3.TestAllTypes.NestedMessage", "goproto.proto.test.TestAllTypes.NestedMessage",
	"google.protobuf.Duration", "google.protobuf.Timestamp", "google.protobuf.Int32Value", "google.protobuf.StringValue",
	"google.protobuf.Empty", "google.protobuf.Struct", "google.protobuf.Value", "google.protobuf.FieldMask", "google.protobuf.Any",
	"goproto.proto.test3.ForeignMessage", "goproto.proto.testeditions.ForeignMessage", "pb2.Nested", "pb3.Nested",
}

// fillWKT handles well-known types so that (under JSONSafe) their content is
// representable; returns false when md is not special-cased.
func fillWKT(r *core.Rand, m protoreflect.Message, o MsgOpts, depth int) bool {
	md := m.Descriptor()
	if md.FullName().Parent() != "google.protobuf" {
		return false
	}
	f := func(n string) protoreflect.FieldDescriptor { return md.Fields().ByName(protoreflect.Name(n)) }
	switch md.Name() {
	case "Timestamp":
		if !o.JSONSafe && r.Chance(1, 4) {
			return false
		}
		secs := []int64{-62135596800, 253402300799, 0, -1, 1, 1e9, -62135596799}
		var s int64
		if r.Bool() {
			s = secs[r.Intn(len(secs))]
		} else {
			s = -62135596800 + int64(r.Uint64()%(253402300799+62135596800+1))
		}
		ns := []int32{0, 1, 999999999, 500000000, 1000, 1000000, 120000000}
		var n int32
		if r.Bool() {
			n = ns[r.Intn(len(ns))]
		} else {
			n = int32(r.Intn(1000000000))
		}
		m.Set(f("seconds"), protoreflect.ValueOfInt64(s))
		m.Set(f("nanos"), protoreflect.ValueOfInt32(n))
		return true
	case "Duration":
		if !o.JSONSafe && r.Chance(1, 4) {
			return false
		}
		secs := []int64{0, 1, -1, 315576000000, -315576000000, 3, 59}
		var s int64
		if r.Bool() {
			s = secs[r.Intn(len(secs))]
		} else {
			s = int64(r.Uint64()%(2*315576000000+1)) - 315576000000
		}
		var n int32
		switch r.Intn(4) {
		case 0:
			n = 0
		case 1:
			n = int32(r.Intn(1000000000))
		case 2:
			n = []int32{1, 999999999, 500000000, 1000, 1000000}[r.Intn(5)]
		default:
			n = int32(r.Intn(1000)) * 1000000
		}
		if s < 0 {
			n = -n
		} else if s == 0 && r.Bool() {
			n = -n
		}
		m.Set(f("seconds"), protoreflect.ValueOfInt64(s))
		m.Set(f("nanos"), protoreflect.ValueOfInt32(n))
		return true
	case "FieldMask":
		if !o.JSONSafe {
			return false
		}
		l := m.Mutable(f("paths")).List()
		pool := []string{"foo", "foo_bar", "a.b_c.d", "x1.y2", "user.display_name", "a", "b.c"}
		k := r.Intn(4)
		for i := 0; i < k; i++ {
			l.Append(protoreflect.ValueOfString(pool[r.Intn(len(pool))]))
		}
		return true
	case "Value":
		if !o.JSONSafe && r.Chance(1, 4) {
			return false
		}
		k := r.Intn(6)
		if depth >= o.MaxDepth && k >= 4 {
			k = r.Intn(4)
		}
		switch k {
		case 0:
			m.Set(f("null_value"), protoreflect.ValueOfEnum(0))
		case 1:
			var x float64
			for {
				oo := o
				oo.NoNaN = true
				x = RandFloat64(r, oo)
				if !math.IsInf(x, 0) {
					break
				}
			}
			m.Set(f("number_value"), protoreflect.ValueOfFloat64(x))
		case 2:
			m.Set(f("string_value"), protoreflect.ValueOfString(RandString(r, true)))
		case 3:
			m.Set(f("bool_value"), protoreflect.ValueOfBool(r.Bool()))
		case 4:
			v := m.NewField(f("struct_value"))
			fill(r, v.Message(), o, depth+1)
			m.Set(f("struct_value"), v)
		case 5:
			v := m.NewField(f("list_value"))
			fill(r, v.Message(), o, depth+1)
			m.Set(f("list_value"), v)
		}
		return true
	case "Struct":
		if !o.JSONSafe && r.Chance(1, 4) {
			return false
		}
		mp := m.Mutable(f("fields")).Map()
		k := r.Intn(4)
		for i := 0; i < k; i++ {
			v := mp.NewValue()
			fill(r, v.Message(), o, depth+1)
			mp.Set(protoreflect.ValueOfString(RandString(r, true)).MapKey(), v)
		}
		return true
	case "ListValue":
		if !o.JSONSafe && r.Chance(1, 4) {
			return false
		}
		l := m.Mutable(f("values")).List()
		k := r.Intn(4)
		for i := 0; i < k; i++ {
			v := l.NewElement()
			fill(r, v.Message(), o, depth+1)
			l.Append(v)
		}
		return true
	case "Any":
		if !o.JSONSafe && r.Chance(1, 3) {
			return false
		}
		if o.JSONSafe && r.Chance(1, 6) {
			return true // empty Any is representable ({})
		}
		var mt protoreflect.MessageType
		for tries := 0; tries < 10 && mt == nil; tries++ {
			name := anyPayloads[r.Intn(len(anyPayloads))]
			if depth >= o.MaxDepth && (name == "google.protobuf.Any" || name == "google.protobuf.Struct" || name == "google.protobuf.Value") {
				continue
			}
			x, err := o.Resolver.FindMessageByName(protoreflect.FullName(name))
			if err == nil {
				mt = x
			}
		}
		if mt == nil {
			return true
		}
		inner := mt.New()
		fill(r, inner, o, depth+1)
		if o.JSONSafe && inner.Descriptor().FullName() == "google.protobuf.Value" && !inner.IsValid() {
			return true
		}
		b, err := proto.MarshalOptions{Deterministic: true, AllowPartial: true}.Marshal(inner.Interface())
		if err != nil {
			return true
		}
		m.Set(f("type_url"), protoreflect.ValueOfString("type.googleapis.com/"+string(mt.Descriptor().FullName())))
		m.Set(f("value"), protoreflect.ValueOfBytes(b))
		return true
	}
	return false
}

// Dynamic returns an empty dynamicpb message of the same descriptor.
func Dynamic(md protoreflect.MessageDescriptor) protoreflect.Message {
	return dynamicpb.NewMessage(md)
}

var _ = utf8.ValidString

// InvalidString returns a string that is not valid UTF-8.
func InvalidString(r *core.Rand) string {
	s := invalidStrings[r.Intn(len(invalidStrings))]
	if r.Bool() {
		s = "ok" + s
	}
	return s
}
