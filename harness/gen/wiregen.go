package gen

import (
	"google.golang.org/protobuf/encoding/protowire"
	"google.golang.org/protobuf/proto"
	"google.golang.org/protobuf/reflect/protoreflect"
	"google.golang.org/protobuf/verif/core"
)

// Rec is one wire record of a parsed message; Sub is set when the schema says
// the payload is a message (length-delimited or group) and it parsed.
type Rec struct {
	Num   protowire.Number
	Typ   protowire.Type
	Val   []byte // varint/fixed: encoded value bytes; bytes: payload (no length); group: unused when Sub != nil
	Sub   []Rec
	IsSub bool
	MD    protoreflect.MessageDescriptor // descriptor of Sub
	// encoding knobs
	TagPad, LenPad int // non-minimal padding bytes for tag / length varints
}

// ParseWire parses valid wire bytes into records, recursing by schema.
func ParseWire(b []byte, md protoreflect.MessageDescriptor, depth int) ([]Rec, bool) {
	var out []Rec
	for len(b) > 0 {
		num, typ, n := protowire.ConsumeTag(b)
		if n < 0 {
			return nil, false
		}
		b = b[n:]
		r := Rec{Num: num, Typ: typ}
		var fd protoreflect.FieldDescriptor
		if md != nil {
			fd = md.Fields().ByNumber(num)
		}
		switch typ {
		case protowire.VarintType:
			_, m := protowire.ConsumeVarint(b)
			if m < 0 {
				return nil, false
			}
			r.Val = b[:m]
			b = b[m:]
		case protowire.Fixed32Type:
			if len(b) < 4 {
				return nil, false
			}
			r.Val = b[:4]
			b = b[4:]
		case protowire.Fixed64Type:
			if len(b) < 8 {
				return nil, false
			}
			r.Val = b[:8]
			b = b[8:]
		case protowire.BytesType:
			v, m := protowire.ConsumeBytes(b)
			if m < 0 {
				return nil, false
			}
			r.Val = v
			b = b[m:]
			if fd != nil && fd.Message() != nil && fd.Kind() == protoreflect.MessageKind && depth < 12 {
				if sub, ok := ParseWire(v, fd.Message(), depth+1); ok {
					r.Sub, r.IsSub, r.MD = sub, true, fd.Message()
				}
			}
		case protowire.StartGroupType:
			v, m := protowire.ConsumeGroup(num, b)
			if m < 0 {
				return nil, false
			}
			b = b[m:]
			var gmd protoreflect.MessageDescriptor
			if fd != nil && fd.Kind() == protoreflect.GroupKind {
				gmd = fd.Message()
			}
			sub, ok := ParseWire(v, gmd, depth+1)
			if !ok {
				return nil, false
			}
			r.Sub, r.IsSub, r.MD = sub, true, gmd
		default:
			return nil, false
		}
		out = append(out, r)
	}
	return out, true
}

func padVarint(v uint64, pad int) []byte {
	b := protowire.AppendVarint(nil, v)
	for i := 0; i < pad && len(b) < 10; i++ {
		b[len(b)-1] |= 0x80
		b = append(b, 0)
	}
	return b
}

// Serialize writes records back to bytes.
func Serialize(recs []Rec) []byte {
	var b []byte
	for _, r := range recs {
		b = append(b, padVarint(protowire.EncodeTag(r.Num, r.Typ), r.TagPad)...)
		switch r.Typ {
		case protowire.BytesType:
			v := r.Val
			if r.IsSub {
				v = Serialize(r.Sub)
			}
			b = append(b, padVarint(uint64(len(v)), r.LenPad)...)
			b = append(b, v...)
		case protowire.StartGroupType:
			b = append(b, Serialize(r.Sub)...)
			b = append(b, padVarint(protowire.EncodeTag(r.Num, protowire.EndGroupType), r.TagPad)...)
		default:
			b = append(b, r.Val...)
		}
	}
	return b
}

// wireTypeOf returns the wire type the schema expects for a (non-packed) field.
func wireTypeOf(fd protoreflect.FieldDescriptor) protowire.Type {
	switch fd.Kind() {
	case protoreflect.BoolKind, protoreflect.EnumKind, protoreflect.Int32Kind, protoreflect.Int64Kind, protoreflect.Uint32Kind, protoreflect.Uint64Kind, protoreflect.Sint32Kind, protoreflect.Sint64Kind:
		return protowire.VarintType
	case protoreflect.Fixed32Kind, protoreflect.Sfixed32Kind, protoreflect.FloatKind:
		return protowire.Fixed32Type
	case protoreflect.Fixed64Kind, protoreflect.Sfixed64Kind, protoreflect.DoubleKind:
		return protowire.Fixed64Type
	case protoreflect.GroupKind:
		return protowire.StartGroupType
	}
	return protowire.BytesType
}

func randValOfType(r *core.Rand, t protowire.Type) Rec {
	switch t {
	case protowire.VarintType:
		return Rec{Typ: t, Val: protowire.AppendVarint(nil, r.Uint64Boundary())}
	case protowire.Fixed32Type:
		return Rec{Typ: t, Val: r.Bytes(4)}
	case protowire.Fixed64Type:
		return Rec{Typ: t, Val: r.Bytes(8)}
	case protowire.StartGroupType:
		return Rec{Typ: t, IsSub: true}
	}
	return Rec{Typ: protowire.BytesType, Val: r.Bytes(r.Intn(5))}
}

var wireTypes = []protowire.Type{protowire.VarintType, protowire.Fixed32Type, protowire.Fixed64Type, protowire.BytesType, protowire.StartGroupType}

// Transform applies n random validity-preserving rewrites somewhere in the tree:
// reorder, duplicate, non-minimal varints, pack/unpack toggles, a known field
// number with a wrong wire type, unknown records. The result is always
// well-formed wire data (acceptable to a conforming parser).
func Transform(r *core.Rand, recs []Rec, md protoreflect.MessageDescriptor, n int, hist func(op string)) []Rec {
	for i := 0; i < n; i++ {
		recs = transformOnce(r, recs, md, hist, 0)
	}
	return recs
}

func transformOnce(r *core.Rand, recs []Rec, md protoreflect.MessageDescriptor, hist func(string), depth int) []Rec {
	// descend with some probability
	var subs []int
	for i, x := range recs {
		if x.IsSub {
			subs = append(subs, i)
		}
	}
	if len(subs) > 0 && depth < 6 && r.Chance(1, 2) {
		i := subs[r.Intn(len(subs))]
		recs[i].Sub = transformOnce(r, recs[i].Sub, recs[i].MD, hist, depth+1)
		return recs
	}
	op := r.Intn(9)
	switch op {
	case 0: // shuffle
		if len(recs) > 1 {
			hist("shuffle")
			p := r.Perm(len(recs))
			out := make([]Rec, len(recs))
			for i, j := range p {
				out[i] = recs[j]
			}
			return out
		}
	case 1: // duplicate a record at a random later position (contiguous or not)
		if len(recs) > 0 {
			i := r.Intn(len(recs))
			d := cloneRec(recs[i])
			var pos int
			if r.Bool() {
				pos = i + 1
				hist("dup-contiguous")
			} else {
				pos = r.Intn(len(recs) + 1)
				hist("dup-anywhere")
			}
			recs = append(recs[:pos:pos], append([]Rec{d}, recs[pos:]...)...)
		}
	case 2: // non-minimal tag
		if len(recs) > 0 {
			hist("pad-tag")
			recs[r.Intn(len(recs))].TagPad = 1 + r.Intn(3)
		}
	case 3: // non-minimal length
		for _, i := range r.Perm(len(recs)) {
			if recs[i].Typ == protowire.BytesType {
				hist("pad-len")
				recs[i].LenPad = 1 + r.Intn(3)
				break
			}
		}
	case 4: // non-minimal varint value
		if md != nil && r.Chance(1, 3) {
			// a varint of a 32-bit (or bool/enum) field carrying bits above bit 31:
			// well-formed input that every decoder has to truncate the same way
			for _, i := range r.Perm(len(recs)) {
				if recs[i].Typ != protowire.VarintType {
					continue
				}
				fd := md.Fields().ByNumber(recs[i].Num)
				if fd == nil {
					continue
				}
				switch fd.Kind() {
				case protoreflect.Int32Kind, protoreflect.Uint32Kind, protoreflect.Sint32Kind, protoreflect.EnumKind, protoreflect.BoolKind:
					v, _ := protowire.ConsumeVarint(recs[i].Val)
					hi := r.Uint64() << 32
					if r.Chance(1, 3) {
						hi = 1 << 32
					}
					hist("wide-varint-in-32bit-field")
					recs[i].Val = protowire.AppendVarint(nil, v&0xffffffff|hi)
					return recs
				}
			}
		}
		for _, i := range r.Perm(len(recs)) {
			if recs[i].Typ == protowire.VarintType && len(recs[i].Val) < 9 {
				hist("pad-varint")
				v, _ := protowire.ConsumeVarint(recs[i].Val)
				recs[i].Val = padVarint(v, 1+r.Intn(2))
				break
			}
		}
	case 5: // known field number with a wrong wire type
		if md != nil && md.Fields().Len() > 0 {
			fd := md.Fields().Get(r.Intn(md.Fields().Len()))
			want := wireTypeOf(fd)
			t := wireTypes[r.Intn(len(wireTypes))]
			packable := fd.IsList() && want != protowire.BytesType && want != protowire.StartGroupType
			if t != want && !(packable && t == protowire.BytesType) && !(fd.Kind() == protoreflect.GroupKind) && !(t == protowire.StartGroupType && fd.Kind() == protoreflect.MessageKind && false) {
				hist("wrong-wiretype")
				x := randValOfType(r, t)
				x.Num = fd.Number()
				pos := r.Intn(len(recs) + 1)
				recs = append(recs[:pos:pos], append([]Rec{x}, recs[pos:]...)...)
			}
		}
	case 6: // unknown record
		num := protowire.Number(19000 + r.Intn(1000))
		if md == nil || md.Fields().ByNumber(num) == nil {
			hist("unknown")
			x := randValOfType(r, wireTypes[r.Intn(len(wireTypes))])
			x.Num = num
			pos := r.Intn(len(recs) + 1)
			recs = append(recs[:pos:pos], append([]Rec{x}, recs[pos:]...)...)
		}
	case 7: // pack <-> unpack toggle
		if md != nil {
			for _, i := range r.Perm(len(recs)) {
				fd := md.Fields().ByNumber(recs[i].Num)
				if fd == nil || !fd.IsList() {
					continue
				}
				want := wireTypeOf(fd)
				if want == protowire.BytesType || want == protowire.StartGroupType {
					continue
				}
				if recs[i].Typ == protowire.BytesType && !recs[i].IsSub {
					// unpack
					var elems []Rec
					b := recs[i].Val
					ok := true
					for len(b) > 0 {
						var m int
						switch want {
						case protowire.VarintType:
							_, m = protowire.ConsumeVarint(b)
						case protowire.Fixed32Type:
							m = 4
						default:
							m = 8
						}
						if m < 0 || m > len(b) {
							ok = false
							break
						}
						elems = append(elems, Rec{Num: recs[i].Num, Typ: want, Val: b[:m]})
						b = b[m:]
					}
					if ok {
						hist("unpack")
						recs = append(recs[:i:i], append(elems, recs[i+1:]...)...)
					}
				} else if recs[i].Typ == want {
					hist("pack")
					recs[i] = Rec{Num: recs[i].Num, Typ: protowire.BytesType, Val: append([]byte{}, recs[i].Val...)}
				}
				break
			}
		}
	case 8: // empty occurrence of a length-delimited known field
		if md != nil {
			for _, i := range r.Perm(len(recs)) {
				if recs[i].IsSub && recs[i].Typ == protowire.BytesType {
					hist("empty-submessage-occurrence")
					x := Rec{Num: recs[i].Num, Typ: protowire.BytesType, IsSub: true, MD: recs[i].MD}
					pos := r.Intn(len(recs) + 1)
					recs = append(recs[:pos:pos], append([]Rec{x}, recs[pos:]...)...)
					break
				}
			}
		}
	}
	return recs
}

func cloneRec(x Rec) Rec {
	y := x
	y.Val = append([]byte(nil), x.Val...)
	if x.IsSub {
		y.Sub = make([]Rec, len(x.Sub))
		for i := range x.Sub {
			y.Sub[i] = cloneRec(x.Sub[i])
		}
	}
	return y
}

// ValidWire produces well-formed wire data for md: the encoding of a random
// message, rewritten by k validity-preserving transformations.
func ValidWire(r *core.Rand, mt protoreflect.MessageType, o MsgOpts, k int, hist func(string)) []byte {
	m := mt.New()
	Fill(r, m, o)
	b, err := proto.MarshalOptions{AllowPartial: true, Deterministic: true}.Marshal(m.Interface())
	if err != nil {
		return nil
	}
	recs, ok := ParseWire(b, mt.Descriptor(), 0)
	if !ok {
		return b
	}
	if hist == nil {
		hist = func(string) {}
	}
	recs = Transform(r, recs, mt.Descriptor(), k, hist)
	return Serialize(recs)
}

// Mutate applies one hostile mutation (result may be malformed).
func Mutate(r *core.Rand, b []byte, hist func(string)) []byte {
	if hist == nil {
		hist = func(string) {}
	}
	b = append([]byte(nil), b...)
	switch r.Intn(12) {
	case 0:
		hist("truncate")
		if len(b) > 0 {
			return b[:r.Intn(len(b))]
		}
	case 1:
		hist("flip-byte")
		if len(b) > 0 {
			b[r.Intn(len(b))] ^= byte(1 << uint(r.Intn(8)))
		}
	case 2:
		hist("flip-wiretype")
		if len(b) > 0 {
			// flip the low three bits of some byte (tags live everywhere)
			b[r.Intn(len(b))] ^= byte(1 + r.Intn(7))
		}
	case 3:
		hist("overlong-varint")
		pos := r.Intn(len(b) + 1)
		ov := []byte{0xff, 0xff, 0xff, 0xff, 0xff, 0xff, 0xff, 0xff, 0xff, byte(2 + r.Intn(100))}
		if r.Bool() {
			ov = []byte{0x80, 0x80, 0x80, 0x80, 0x80, 0x80, 0x80, 0x80, 0x80, 0x80, 0x01}
		}
		return append(b[:pos:pos], append(ov, b[pos:]...)...)
	case 4:
		hist("bogus-length")
		pos := r.Intn(len(b) + 1)
		tag := protowire.AppendTag(nil, protowire.Number(1+r.Intn(30)), protowire.BytesType)
		l := protowire.AppendVarint(nil, []uint64{uint64(len(b) - pos + 1), 1 << 31, 1<<63 - 1, 1 << 40, ^uint64(0)}[r.Intn(5)])
		return append(b[:pos:pos], append(append(tag, l...), b[pos:]...)...)
	case 5:
		hist("field-number-zero")
		pos := r.Intn(len(b) + 1)
		return append(b[:pos:pos], append([]byte{byte(r.Intn(6))}, b[pos:]...)...)
	case 6:
		hist("field-number-too-big")
		pos := r.Intn(len(b) + 1)
		tag := protowire.AppendVarint(nil, uint64(1<<29+r.Intn(100))<<3)
		return append(b[:pos:pos], append(append(tag, 0), b[pos:]...)...)
	case 7:
		hist("stray-end-group")
		pos := r.Intn(len(b) + 1)
		tag := protowire.AppendTag(nil, protowire.Number(1+r.Intn(30)), protowire.EndGroupType)
		return append(b[:pos:pos], append(tag, b[pos:]...)...)
	case 8:
		hist("unterminated-group")
		pos := r.Intn(len(b) + 1)
		tag := protowire.AppendTag(nil, protowire.Number(1+r.Intn(30)), protowire.StartGroupType)
		return append(b[:pos:pos], append(tag, b[pos:]...)...)
	case 9:
		hist("splice")
		if len(b) > 1 {
			i, j := r.Intn(len(b)), r.Intn(len(b))
			if i > j {
				i, j = j, i
			}
			return append(b[:i:i], b[j:]...)
		}
	case 10:
		hist("reserved-wiretype")
		pos := r.Intn(len(b) + 1)
		tag := protowire.AppendVarint(nil, uint64(1+r.Intn(30))<<3|uint64(6+r.Intn(2)))
		return append(b[:pos:pos], append(tag, b[pos:]...)...)
	case 11:
		hist("random-bytes")
		return r.Bytes(r.Intn(24))
	}
	return b
}

// InsertWrongType inserts, at a random top-level position, a record carrying
// field number num with a wire type other than avoid (well-formed; a
// conforming parser keeps it as an unknown field).
func InsertWrongType(r *core.Rand, b []byte, md protoreflect.MessageDescriptor, num protowire.Number, avoid protowire.Type) []byte {
	recs, ok := ParseWire(b, md, 0)
	if !ok {
		return b
	}
	var t protowire.Type
	for {
		t = wireTypes[r.Intn(len(wireTypes))]
		if t != avoid {
			break
		}
	}
	x := randValOfType(r, t)
	x.Num = num
	pos := r.Intn(len(recs) + 1)
	recs = append(recs[:pos:pos], append([]Rec{x}, recs[pos:]...)...)
	return Serialize(recs)
}

// Confuse applies one structure-level hostile rewrite that keeps the outer
// framing consistent (so the damage lands inside a specific field): resize a
// length-delimited payload by a few bytes, or re-number a record to another
// field of the schema with the same wire type (type confusion: a string read
// as a packed fixed64 list, a message read as a string, ...).
func Confuse(r *core.Rand, recs []Rec, md protoreflect.MessageDescriptor, hist func(string), depth int) []Rec {
	if len(recs) == 0 {
		return recs
	}
	var subs []int
	for i, x := range recs {
		if x.IsSub && x.MD != nil {
			subs = append(subs, i)
		}
	}
	if len(subs) > 0 && depth < 5 && r.Chance(1, 3) {
		i := subs[r.Intn(len(subs))]
		recs[i].Sub = Confuse(r, recs[i].Sub, recs[i].MD, hist, depth+1)
		return recs
	}
	i := r.Intn(len(recs))
	switch r.Intn(3) {
	case 0: // resize payload
		for _, j := range r.Perm(len(recs)) {
			if recs[j].Typ == protowire.BytesType {
				var p []byte
				if recs[j].IsSub {
					p = Serialize(recs[j].Sub)
				} else {
					p = append([]byte{}, recs[j].Val...)
				}
				k := 1 + r.Intn(7)
				if r.Bool() && len(p) >= k {
					p = p[:len(p)-k]
					hist("payload-shrink")
				} else {
					p = append(p, r.Bytes(k)...)
					hist("payload-grow")
				}
				recs[j].IsSub, recs[j].Sub, recs[j].Val = false, nil, p
				break
			}
		}
	case 1: // re-number to another schema field
		if md != nil && md.Fields().Len() > 0 {
			fd := md.Fields().Get(r.Intn(md.Fields().Len()))
			hist("renumber-to-" + fd.Kind().String())
			if recs[i].IsSub && recs[i].Typ == protowire.BytesType {
				recs[i].Val = Serialize(recs[i].Sub)
				recs[i].IsSub, recs[i].Sub = false, nil
			}
			recs[i].Num = fd.Number()
		}
	case 2: // packed payload of awkward length for a packable field
		if md != nil {
			for _, j := range r.Perm(md.Fields().Len()) {
				fd := md.Fields().Get(j)
				want := wireTypeOf(fd)
				if fd.IsList() && want != protowire.BytesType && want != protowire.StartGroupType {
					hist("packed-odd-length-" + fd.Kind().String())
					n := []int{1, 2, 3, 4, 5, 6, 7, 9, 11, 12, 13, 20}[r.Intn(12)]
					p := r.Bytes(n)
					if want == protowire.VarintType {
						for k := range p {
							p[k] &= 0x7f
						}
						if r.Bool() {
							p[len(p)-1] |= 0x80 // dangling continuation
						}
					}
					x := Rec{Num: fd.Number(), Typ: protowire.BytesType, Val: p}
					pos := r.Intn(len(recs) + 1)
					recs = append(recs[:pos:pos], append([]Rec{x}, recs[pos:]...)...)
					break
				}
			}
		}
	}
	return recs
}

// ConfuseWire parses, confuses and re-serialises wire data.
func ConfuseWire(r *core.Rand, b []byte, md protoreflect.MessageDescriptor, hist func(string)) []byte {
	recs, ok := ParseWire(b, md, 0)
	if !ok {
		return b
	}
	if hist == nil {
		hist = func(string) {}
	}
	return Serialize(Confuse(r, recs, md, hist, 0))
}
